package fixes

import (
	"bytes"
	"testing"
	"time"

	"verifharness/mp4synth"

	"github.com/stevenh/tracktools/pkg/gopro/gpmf"
)

func gpsPayload(n int) []byte {
	data := make([]byte, 0, 20*n)
	for i := 0; i < n; i++ {
		for f := 0; f < 5; f++ {
			data = append(data, 0, 0, byte(i), byte(f+1))
		}
	}
	return nest("DEVC", nest("STRM", klv("GPS5", 'l', 20, uint16(n), data)))
}

func decodeMP4(t *testing.T, b []byte) (els []*gpmf.Element, err error, panicked bool) {
	t.Helper()
	func() {
		defer func() {
			if r := recover(); r != nil {
				panicked = true
			}
		}()
		els, err = gpmf.NewDecoder().Decode(bytes.NewReader(b))
	}()
	return
}

func gpsOffsets(els []*gpmf.Element) [][]time.Duration {
	var res [][]time.Duration
	_ = gpmf.Walk(els, func(e *gpmf.Element) error {
		if d, ok := e.Data.(gpmf.GPSData); ok {
			var o []time.Duration
			for _, g := range d {
				o = append(o, g.Offset)
			}
			res = append(res, o)
		}
		return nil
	})
	return res
}

// D14: the sample walk was only right for one sample per chunk and at most two stts runs.
func TestD14SampleTables(t *testing.T) {
	p := gpsPayload(2)
	n := uint32(len(p))
	payload := append(append(append([]byte{}, p...), p...), p...)
	// three samples in ONE chunk, three stts runs with different deltas
	file, _, err := mp4synth.Build(payload, mp4synth.Tables{Stsc: [][2]uint32{{1, 3}}, NSamples: 3, Sizes: []uint32{n, n, n},
		Stts: [][2]uint32{{1, 1000}, {1, 2000}, {1, 4000}}, Offsets: []uint64{0}, Timescale: 1000})
	if err != nil {
		t.Fatal(err)
	}
	els, derr, panicked := decodeMP4(t, file)
	if panicked || derr != nil {
		t.Fatalf("panicked=%v err=%v", panicked, derr)
	}
	got := gpsOffsets(els)
	want := [][]time.Duration{{0, 500 * time.Millisecond}, {1 * time.Second, 2 * time.Second}, {3 * time.Second, 5 * time.Second}}
	if len(got) != 3 {
		t.Fatalf("payloads %d: %v", len(got), got)
	}
	for i := range want {
		for j := range want[i] {
			if got[i][j] != want[i][j] {
				t.Fatalf("sample %d reading %d: offset %v, want %v (all %v)", i, j, got[i][j], want[i][j], got)
			}
		}
	}
	// disagreeing tables and zero samples: an error or empty, never a crash
	for _, tb := range []mp4synth.Tables{
		{Stsc: [][2]uint32{{1, 1}}, NSamples: 3, Sizes: []uint32{n, n, n}, Stts: [][2]uint32{{2, 1000}, {1, 1000}}, Offsets: []uint64{0, uint64(n), 2 * uint64(n)}, Timescale: 1000},
		{Stsc: [][2]uint32{{1, 2}}, NSamples: 1, Sizes: []uint32{n}, Stts: [][2]uint32{{2, 1000}}, Offsets: []uint64{0}, Timescale: 1000},
		{Stsc: [][2]uint32{{1, 1}}, NSamples: 0, Stts: nil, Offsets: nil, Timescale: 1000},
		{Stsc: [][2]uint32{{1, 1}}, NSamples: 5, Sizes: []uint32{n}, Stts: [][2]uint32{{1, 1000}}, Offsets: []uint64{0}, Timescale: 1000},
		{Stsc: [][2]uint32{{0, 1}}, NSamples: 1, Sizes: []uint32{n}, Stts: [][2]uint32{{1, 1000}}, Offsets: []uint64{0}, Timescale: 1000},
	} {
		file, _, err := mp4synth.Build(payload, tb)
		if err != nil {
			t.Fatal(err)
		}
		if _, _, panicked := decodeMP4(t, file); panicked {
			t.Fatalf("panic on tables %+v", tb)
		}
	}
}

// D27: the tick length was truncated to a nanosecond (time.Second / timescale) and multiplied by
// the tick count, so for a timescale that does not divide a second the media time drifted: a
// payload that starts after one hour at 90 kHz was placed at 3599.964 s.
func TestD27MediaTime(t *testing.T) {
	p := gpsPayload(2)
	n := uint32(len(p))
	payload := append(append([]byte{}, p...), p...)
	// two samples: the first lasts exactly one hour (324,000,000 ticks at 90 kHz), the second one second
	file, _, err := mp4synth.Build(payload, mp4synth.Tables{Stsc: [][2]uint32{{1, 1}}, NSamples: 2, Sizes: []uint32{n, n},
		Stts: [][2]uint32{{1, 324000000}, {1, 90000}}, Offsets: []uint64{0, uint64(n)}, Timescale: 90000})
	if err != nil {
		t.Fatal(err)
	}
	els, derr, panicked := decodeMP4(t, file)
	if panicked || derr != nil {
		t.Fatalf("panicked=%v err=%v", panicked, derr)
	}
	got := gpsOffsets(els)
	if len(got) != 2 || len(got[1]) != 2 {
		t.Fatalf("payloads: %v", got)
	}
	if got[1][0] != time.Hour || got[1][1] != time.Hour+500*time.Millisecond {
		t.Fatalf("second payload starts one hour in: offsets %v, want [1h0m0s 1h0m0.5s]", got[1])
	}
}
