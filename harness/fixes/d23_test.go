package fixes

import "testing"

// D23: a FACE key on a *nested* element (type 0) with a matching TYPE crashed: the element has
// no raw payload but its size/count were trusted.
func TestD23NestedFace(t *testing.T) {
	inner := klv("ABCD", 'L', 4, 3, make([]byte, 12))
	face := klv("FACE", 0, 20, 1, inner[:20])
	b := nest("STRM", klv("TYPE", 'c', 1, 5, []byte("Lffff")), face)
	_, _, p := read(t, b)
	if p {
		t.Fatal("panic")
	}
}
