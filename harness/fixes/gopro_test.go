package fixes

import (
	"io"
	"os"
	"path/filepath"
	"testing"

	"github.com/stevenh/tracktools/pkg/gopro"
)

// D7: the chapter pattern's unescaped dot let GP010001xmp4 join a video.
func TestD07ChapterDot(t *testing.T) {
	if _, err := gopro.Hero5.Match("GP010001xmp4"); err == nil {
		t.Fatal("GP010001xmp4 matched")
	}
	if _, err := gopro.Hero5.Match("GP010001.mp4"); err != nil {
		t.Fatal(err)
	}
}

// D18: Args [x, "", ..., "-i", ""] picked slot 1 as the input slot.
func TestD18InputSlot(t *testing.T) {
	dir := t.TempDir()
	if err := os.WriteFile(filepath.Join(dir, "GOPR0001.mp4"), []byte("x"), 0o600); err != nil {
		t.Fatal(err)
	}
	var got []string
	cfg := gopro.Config{
		Binary:         "ffmpeg",
		Args:           []string{"-x", "", "-f", "concat", "-i", ""},
		SourceDir:      dir,
		OutputTemplate: "{{.Name}}-J{{.Ext}}",
		LogLevel:       "disabled",
	}
	p, err := gopro.NewProcessor(gopro.Cfg(cfg), gopro.Output(io.Discard), gopro.Handler(func(exe string, args ...string) error {
		got = append([]string{}, args...)
		return os.WriteFile(args[len(args)-1], []byte("out"), 0o600)
	}))
	if err != nil {
		t.Fatal(err)
	}
	if _, err := p.Process(); err != nil {
		t.Fatal(err)
	}
	if got[1] != "" || got[5] == "" {
		t.Fatalf("concat list placed in the wrong slot: %q", got)
	}
}
