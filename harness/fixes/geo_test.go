package fixes

import (
	"math"
	"os"
	"os/exec"
	"path/filepath"
	"strings"
	"testing"

	"github.com/stevenh/tracktools/pkg/gopro/gpmf/geo"
	"github.com/tidwall/geodesic"
)

// D16: DistanceToLine ignored cos(latitude): 133.6 m reported for a true 100 m at 60 N.
func TestD16DistanceToLineLatitude(t *testing.T) {
	p := geo.NewProcessor()
	// a north-south... an east-west line at latitude 60, point 100 m north of its middle
	const lat = 60.0
	dLon := 200.0 / (6378137 * math.Cos(lat*math.Pi/180)) * 180 / math.Pi // 200 m of longitude
	dLat := 100.0 / 6378137 * 180 / math.Pi
	// a diagonal line so that the projection parameter depends on the scaling
	d := p.DistanceToLine(lat+dLat, 0.25*dLon, lat-dLat, -dLon, lat+dLat, dLon)
	// true distance: the line passes through (lat, 0) with slope (2*dLat)/(2*dLon) -> in metres 200 north per 400 east
	// point is at (50 east, 100 north) relative to the middle; distance to the line y = x/2: |100 - 25| / sqrt(1.25)
	want := 75 / math.Sqrt(1.25)
	if math.Abs(d-want) > 0.01*want+0.001 {
		t.Fatalf("distance %v, want %v", d, want)
	}
}

// D17: Intersect returned an error exactly when the segments cross.
func TestD17IntersectBounded(t *testing.T) {
	g := geo.NewGnomonic(geodesic.WGS84)
	// the crossing of the package's own test: Istanbul-Washington with Reykjavik-Accra
	if _, _, err := g.Intersect(42, 29, 39, -77, 64, -22, 6, 0); err != nil {
		t.Fatalf("crossing segments: %v", err)
	}
	// shorten line B so that it ends before reaching line A
	if _, _, err := g.Intersect(42, 29, 39, -77, 64, -22, 60, -20); err == nil {
		t.Fatal("segments that do not cross: no error")
	}
}

// D26: Distance subtracted coordinates after converting them to radians, losing the separation of
// nearby positions in the rounding of the conversion (1.4e-9 relative at 0.74 m, 2e-8 at 0.1 m).
func TestD26NearbyPositions(t *testing.T) {
	p := geo.NewProcessor()
	// true great-circle distance on the default sphere, computed with 60 digits: 0.73999999940234209553...
	d := p.Distance(52.6, -123.2, 52.59999413057655, -123.2000051382145)
	const truth = 0.7399999994023421
	if rel := math.Abs(d-truth) / truth; rel > 1e-9 {
		t.Fatalf("distance %v, true %v: relative error %.3g > 1e-9", d, truth, rel)
	}
}

// D25: a segment along a meridian has azimuths of exactly 0 or 180 at the crossing, which share a
// sign bit, so the sign comparison took a crossing beyond the segment's end for one inside it.
func TestD25MeridionalSegment(t *testing.T) {
	g := geo.NewGnomonic(geodesic.WGS84)
	// (10,10)->(11,10) and a short east-west segment at latitude 12: the geodesics cross a degree beyond the first segment
	if lat, lon, err := g.Intersect(10, 10, 11, 10, 12, 9.9, 12, 10.1); err == nil {
		t.Fatalf("crossing beyond the end of a meridional segment: no error (%v, %v)", lat, lon)
	}
	if _, _, err := g.Intersect(10, 10, 11, 10, 9, 9.9, 9, 10.1); err == nil {
		t.Fatal("crossing before the start of a meridional segment: no error")
	}
	if _, _, err := g.Intersect(11, 10, 10, 10, 10.5, 9.9, 10.5, 10.1); err != nil {
		t.Fatalf("crossing inside a southward meridional segment: %v", err)
	}
}

// D20: --latitude & co never overrode the config file's Start table.
func TestD20StartFlags(t *testing.T) {
	dir := t.TempDir()
	bin := filepath.Join(dir, "tracktools")
	build := exec.Command("go", "build", "-o", bin, "github.com/stevenh/tracktools/cmd/tracktools")
	build.Env = append(os.Environ(), "GOFLAGS=-mod=mod")
	if out, err := build.CombinedOutput(); err != nil {
		t.Skipf("build: %v %s", err, out)
	}
	cfg := filepath.Join(dir, "c.toml")
	_ = os.WriteFile(cfg, []byte("[gopro.laptimes]\nTolerance = 2\nStart = {Latitude = 1, Longitude = 2, Bearing = 3, Distance = 4}\n"), 0o600)
	cmd := exec.Command(bin, "gopro", "laptimes", "-vv", "--config", cfg, "--latitude", "9", filepath.Join(dir, "missing.mp4"))
	out, _ := cmd.CombinedOutput()
	if !strings.Contains(string(out), "Latitude:9") {
		t.Fatalf("flag did not win:\n%s", out)
	}
	if !strings.Contains(string(out), "Longitude:2") {
		t.Fatalf("config value lost:\n%s", out)
	}
}
