// Package fixes holds one demonstration per defect of DESIGN.md section 6: each test fails on
// the code as it was before the corresponding "fix:" commit in /repo and passes after it.
package fixes

import (
	"bytes"
	"errors"
	"runtime"
	"strings"
	"testing"
	"time"

	"github.com/stevenh/tracktools/pkg/laptimer"
)

// D1: a double quote in text was written as the undefined entity &quote;.
func TestD01QuoteEntity(t *testing.T) {
	db := laptimer.NewDB()
	db.Laps = []laptimer.Lap{{ID: 1, Track: `say "hi"`, Note: `it's`}}
	var buf bytes.Buffer
	enc, err := laptimer.NewEncoder(&buf)
	if err != nil {
		t.Fatal(err)
	}
	if err := enc.Encode(db); err != nil {
		t.Fatal(err)
	}
	var back laptimer.DB
	if err := laptimer.NewDecoder(bytes.NewReader(buf.Bytes())).Decode(&back); err != nil {
		t.Fatalf("decode of own output failed: %v\n%s", err, buf.String())
	}
	if back.Laps[0].Track != `say "hi"` {
		t.Fatalf("track %q", back.Laps[0].Track)
	}
}

type failAfter struct {
	n int
}

var errSink = errors.New("sink failed")

func (f *failAfter) Write(p []byte) (int, error) {
	if f.n <= 0 {
		return 0, errSink
	}
	f.n--
	return len(p), nil
}

// D2: an output that fails after the header made Encode block forever.
func TestD02EncodeReturnsOnWriteError(t *testing.T) {
	db := laptimer.NewDB()
	for i := 0; i < 5; i++ {
		lap := laptimer.Lap{ID: i, Track: "t"}
		for j := 0; j < 5; j++ {
			lap.Recording.Fixes = append(lap.Recording.Fixes, laptimer.Fix{ID: j})
		}
		db.Laps = append(db.Laps, lap)
	}
	before := runtime.NumGoroutine()
	for k := 0; k < 6; k++ {
		done := make(chan error, 1)
		go func() {
			enc, err := laptimer.NewEncoder(&failAfter{n: k})
			if err != nil {
				done <- nil
				return
			}
			done <- enc.Encode(db)
		}()
		select {
		case err := <-done:
			if err == nil {
				t.Fatalf("k=%d: expected an error", k)
			}
		case <-time.After(3 * time.Second):
			t.Fatalf("k=%d: Encode did not return", k)
		}
	}
	time.Sleep(50 * time.Millisecond)
	if after := runtime.NumGoroutine(); after > before {
		buf := make([]byte, 1<<16)
		n := runtime.Stack(buf, true)
		if strings.Contains(string(buf[:n]), "laptimer.(*Encoder)") {
			t.Fatalf("goroutines leaked: %d -> %d", before, after)
		}
	}
}
