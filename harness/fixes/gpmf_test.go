package fixes

import (
	"bytes"
	"encoding/binary"
	"math"
	"testing"

	"github.com/stevenh/tracktools/pkg/gopro/gpmf"
)

func klv(key string, typ byte, size byte, count uint16, payload []byte) []byte {
	b := []byte(key)
	b = append(b, typ, size, byte(count>>8), byte(count))
	b = append(b, payload...)
	for len(b)%4 != 0 {
		b = append(b, 0)
	}
	return b
}

func nest(key string, children ...[]byte) []byte {
	var body []byte
	for _, c := range children {
		body = append(body, c...)
	}
	return klv(key, 0, 1, uint16(len(body)), body)
}

func read(t *testing.T, b []byte) (els []*gpmf.Element, err error, panicked bool) {
	t.Helper()
	func() {
		defer func() {
			if r := recover(); r != nil {
				panicked = true
			}
		}()
		els, err = gpmf.NewReader().Read(bytes.NewReader(b))
	}()
	return
}

// D8: Q32 ('q') values were read with an 8-byte stride.
func TestD08Q32(t *testing.T) {
	els, err, p := read(t, klv("ABCD", 'q', 4, 2, []byte{0, 1, 0, 0, 0xff, 0xff, 0x80, 0}))
	if err != nil || p {
		t.Fatal(err, p)
	}
	v, ok := els[0].Data.([]gpmf.Int16_16)
	if !ok || len(v) != 2 || v[0] != 1<<16 || v[1] != -(1<<15) {
		t.Fatalf("got %#v", els[0].Data)
	}
	els, err, p = read(t, klv("ABCD", 'q', 4, 1, []byte{0, 1, 0, 0}))
	if err != nil || p {
		t.Fatal(err, p)
	}
	if v, ok := els[0].Data.(gpmf.Int16_16); !ok || v != 1<<16 {
		t.Fatalf("got %#v", els[0].Data)
	}
}

// D9: 'b'/'B' with size 3, repeat 1 exposed one value; size 0 panicked.
func TestD09Int8(t *testing.T) {
	els, err, p := read(t, klv("ABCD", 'b', 3, 1, []byte{1, 0xff, 3}))
	if err != nil || p {
		t.Fatal(err, p)
	}
	if v, ok := els[0].Data.([]int8); !ok || len(v) != 3 || v[1] != -1 {
		t.Fatalf("got %#v", els[0].Data)
	}
	els, err, p = read(t, klv("ABCD", 'B', 3, 1, []byte{1, 2, 3}))
	if err != nil || p {
		t.Fatal(err, p)
	}
	if v, ok := els[0].Data.([]uint8); !ok || len(v) != 3 {
		t.Fatalf("got %#v", els[0].Data)
	}
	for _, typ := range []byte{'b', 'B'} {
		if _, _, p := read(t, klv("ABCD", typ, 0, 1, nil)); p {
			t.Fatalf("type %c size 0: panic", typ)
		}
	}
}

// D10: a container cut at a child boundary was accepted.
func TestD10TruncatedContainer(t *testing.T) {
	full := nest("DEVC", klv("ABCD", 'L', 4, 1, []byte{0, 0, 0, 1}), klv("EFGH", 'L', 4, 1, []byte{0, 0, 0, 2}))
	if _, err, _ := read(t, full); err != nil {
		t.Fatal(err)
	}
	cut := full[:len(full)-12]
	if _, err, _ := read(t, cut); err == nil {
		t.Fatal("truncated container accepted")
	}
}

// D11: an empty SCAL followed by data divided by zero.
func TestD11EmptyScale(t *testing.T) {
	b := nest("STRM", klv("SCAL", 's', 2, 0, nil), klv("ABCD", 's', 2, 1, []byte{0, 5}))
	if _, _, p := read(t, b); p {
		t.Fatal("panic")
	}
}

func f32(v float32) []byte {
	var b [4]byte
	binary.BigEndian.PutUint32(b[:], math.Float32bits(v))
	return b[:]
}

// D13: Hero7 smile and the Hero10 fields were read at the wrong offsets.
func TestD13FaceLayouts(t *testing.T) {
	// Hero7: L + 22 f = 92 bytes, smile is the last float.
	rec := []byte{0, 0, 0, 7}
	for i := 1; i <= 22; i++ {
		rec = append(rec, f32(float32(i))...)
	}
	b := nest("STRM", klv("TYPE", 'c', 1, 23, []byte("Lffffffffffffffffffffff")), klv("FACE", '?', 92, 1, rec))
	els, err, p := read(t, b)
	if err != nil || p {
		t.Fatal(err, p)
	}
	f7, ok := els[0].Nested[1].Data.([]gpmf.Face7)
	if !ok || len(f7) != 1 || f7[0].ID != 7 || f7[0].X != 1 || f7[0].Height != 4 || f7[0].Smile != 22 {
		t.Fatalf("hero7: %#v", els[0].Nested[1].Data)
	}
	// Hero10: BBSSSSSBB = 14 bytes
	r10 := []byte{1, 90, 0, 5, 0, 10, 0, 20, 0, 30, 0, 40, 50, 60}
	b = nest("STRM", klv("TYPE", 'c', 1, 9, []byte("BBSSSSSBB")), klv("FACE", '?', 14, 1, r10))
	els, err, p = read(t, b)
	if err != nil || p {
		t.Fatal(err, p)
	}
	f10, ok := els[0].Nested[1].Data.([]gpmf.Face10)
	want := gpmf.Face10{Version: 1, Confidence: 90, ID: 5, X: 10, Y: 20, Width: 30, Height: 40, Smile: 50, Blink: 60}
	if !ok || len(f10) != 1 || f10[0] != want {
		t.Fatalf("hero10: %#v", els[0].Nested[1].Data)
	}
}

// D19: a key restated after a sensor element changed what that element exposes.
func TestD19MetadataAliasing(t *testing.T) {
	b := nest("DEVC", nest("STRM",
		klv("STNM", 'c', 1, 1, []byte("a")),
		klv("ACCL", 's', 2, 3, []byte{0, 1, 0, 2, 0, 3}),
		klv("STNM", 'c', 1, 1, []byte("b")),
		klv("ACCL", 's', 2, 3, []byte{0, 1, 0, 2, 0, 3}),
	))
	els, err, p := read(t, b)
	if err != nil || p {
		t.Fatal(err, p)
	}
	strm := els[0].Nested[0]
	if got := strm.Nested[1].Metadata["stream_name"]; got != "a" {
		t.Fatalf("first ACCL exposes %v, stated before it: a", got)
	}
	if got := strm.Nested[3].Metadata["stream_name"]; got != "b" {
		t.Fatalf("second ACCL exposes %v", got)
	}
}

// D21: an empty or moov-less file dereferenced a nil Moov.
func TestD21NoMoov(t *testing.T) {
	for _, b := range [][]byte{nil, {0, 0, 0, 8, 'f', 'r', 'e', 'e'}} {
		panicked := false
		func() {
			defer func() {
				if recover() != nil {
					panicked = true
				}
			}()
			_, _ = gpmf.NewDecoder().Decode(bytes.NewReader(b))
		}()
		if panicked {
			t.Fatalf("panic on %v", b)
		}
	}
}
