package fixes

import (
	"strings"
	"testing"
	"time"

	"github.com/stevenh/tracktools/pkg/convert"
	"github.com/stevenh/tracktools/pkg/trackaddict"
	"gonum.org/v1/gonum/interp"
)

func decodeTA(t *testing.T, log string) (*trackaddict.Session, error, bool) {
	t.Helper()
	var (
		s        *trackaddict.Session
		err      error
		panicked bool
	)
	func() {
		defer func() {
			if r := recover(); r != nil {
				panicked = true
			}
		}()
		d, e := trackaddict.NewDecoder(strings.NewReader(log))
		if e != nil {
			err = e
			return
		}
		s, err = d.Decode()
	}()
	return s, err, panicked
}

// D3: '#' comments without a colon crashed the decoder.
func TestD03ColonlessComments(t *testing.T) {
	for _, c := range []string{"# End Point", "# Lap 3", "# Vehicle", "# Session End", "# Lap x"} {
		_, _, panicked := decodeTA(t, c+"\n\"Time\"\n0.1\n")
		if panicked {
			t.Errorf("%q: panic", c)
		}
	}
	s, err, _ := decodeTA(t, "# Session End\n\"Time\"\n0.1\n")
	if err != nil || len(s.Laps) != 1 || len(s.Laps[0].Records) != 1 {
		t.Errorf("colon-less free comment must be ignored: %v", err)
	}
}

// D4: "Accuracy (ft)" was stored without the feet -> metres conversion.
func TestD04AccuracyFeet(t *testing.T) {
	s, err, _ := decodeTA(t, "\"Accuracy (ft)\"\n10\n")
	if err != nil {
		t.Fatal(err)
	}
	if got := s.Laps[0].Records[0].GPS.Accuracy; got != 10*0.3048 {
		t.Fatalf("accuracy %v, want %v", got, 10*0.3048)
	}
}

const obdLog = `"Time","UTC Time","GPS_Update","Latitude","Longitude","OBD_Update","Engine Speed (RPM) *OBD","Throttle Position (%) *OBD"
0.000,1653983971.000,1,50.0,-0.7,1,1000,10
# Lap 0: 00:00:01.000
0.000,1653983972.000,1,50.0,-0.7,1,1000,10
1.000,1653983973.000,1,50.0001,-0.7,0,1000,10
2.000,1653983974.000,1,50.0002,-0.7,1,2000,30
# Lap 1: 00:00:02.000
0.000,1653983975.000,1,50.0,-0.7,1,1000,10
`

// D5: interpolated OBD values were computed and thrown away; OBD-less logs panicked.
func TestD05PredictOBD(t *testing.T) {
	s, err, _ := decodeTA(t, obdLog)
	if err != nil {
		t.Fatal(err)
	}
	ta, _ := convert.NewTrackAddict()
	db, err := ta.LapTimer(s)
	if err != nil {
		t.Fatal(err)
	}
	fx := db.Laps[0].Recording.Fixes
	if len(fx) != 3 {
		t.Fatalf("fixes %d", len(fx))
	}
	if fx[1].OBD == nil || fx[1].OBD.EngineRPM == nil || *fx[1].OBD.EngineRPM != 1500 {
		t.Fatalf("middle fix rpm not interpolated: %+v", fx[1].OBD)
	}
	if *fx[1].OBD.Throttle != 20 {
		t.Fatalf("middle fix throttle %v", *fx[1].OBD.Throttle)
	}
	if *fx[0].OBD.EngineRPM != 1000 || *fx[2].OBD.EngineRPM != 2000 {
		t.Fatalf("fresh readings changed")
	}

	// no OBD columns at all
	noObd := "\"Time\",\"UTC Time\",\"GPS_Update\",\"Latitude\",\"Longitude\"\n0.0,1653983971.000,1,50,0\n# Lap 0: 00:00:01.000\n0.0,1653983972.000,1,50,0\n# Lap 1: 00:00:01.000\n0.0,1653983973.000,1,50,0\n"
	s2, err, _ := decodeTA(t, noObd)
	if err != nil {
		t.Fatal(err)
	}
	var perr error
	panicked := false
	func() {
		defer func() {
			if recover() != nil {
				panicked = true
			}
		}()
		ta2, _ := convert.NewTrackAddict(convert.PredictorOpt(&interp.PiecewiseLinear{}))
		_, perr = ta2.LapTimer(s2)
	}()
	if panicked || perr != nil {
		t.Fatalf("OBD-less log: panicked=%v err=%v", panicked, perr)
	}

	// OBD columns that never report an update
	never := strings.ReplaceAll(obdLog, ",1,1000,10", ",0,1000,10")
	never = strings.ReplaceAll(never, ",1,2000,30", ",0,2000,30")
	s3, err, _ := decodeTA(t, never)
	if err != nil {
		t.Fatal(err)
	}
	func() {
		defer func() {
			if recover() != nil {
				panicked = true
			}
		}()
		ta3, _ := convert.NewTrackAddict()
		_, perr = ta3.LapTimer(s3)
	}()
	if panicked || perr != nil {
		t.Fatalf("never-updating OBD: panicked=%v err=%v", panicked, perr)
	}
}

// D6: start date equal to the logged day + a lap starting after UTC midnight moved that lap by -24h.
func TestD06StartDateSameDayPastMidnight(t *testing.T) {
	// 2022-05-31 23:59:58 UTC = 1654041598
	log := `"Time","UTC Time","GPS_Update","Latitude","Longitude"
0.0,1654041590.000,1,50,0
# Lap 0: 00:00:01.000
0.0,1654041598.000,1,50,0
# Lap 1: 00:00:04.000
0.0,1654041602.000,1,50,0
# Lap 2: 00:00:04.000
0.0,1654041606.000,1,50,0
`
	s, err, _ := decodeTA(t, log)
	if err != nil {
		t.Fatal(err)
	}
	plain, _ := convert.NewTrackAddict()
	db0, err := plain.LapTimer(s)
	if err != nil {
		t.Fatal(err)
	}
	d := time.Date(2022, 5, 31, 0, 0, 0, 0, time.UTC)
	with, _ := convert.NewTrackAddict(convert.StartDateOpt(d))
	db1, err := with.LapTimer(s)
	if err != nil {
		t.Fatal(err)
	}
	for i := range db0.Laps {
		a, b := time.Time(db0.Laps[i].Date), time.Time(db1.Laps[i].Date)
		if !a.Equal(b) {
			t.Fatalf("lap %d moved by %v although the start date is the logged day", i, b.Sub(a))
		}
	}
}
