package fixes

import (
	"math"
	"testing"

	"github.com/stevenh/tracktools/pkg/gopro/gpmf/geo"
	"github.com/tidwall/geodesic"
)

// D24 (open, known finding for C19 and C03): the pinned geodesic dependency mis-evaluates
// sin/cos of angles of exactly 45+180k degrees.  This test documents the defect on the real
// code; it FAILS while the finding is open and is not part of any registered check.
func TestD24GeodesicAt45Degrees(t *testing.T) {
	var near, at float64
	geodesic.WGS84.Inverse(40, 10, 44.999999, 12, &near, nil, nil)
	geodesic.WGS84.Inverse(40, 10, 45, 12, &at, nil, nil)
	if math.Abs(near-at) > 1 {
		t.Errorf("Inverse(40,10 -> 45,12) = %.0f m, but -> 44.999999,12 = %.0f m", at, near)
	}
	g := geo.NewGnomonic(geodesic.WGS84)
	x, y, _, _ := g.Forward(40, 10, 45, 12)
	la, lo, _, _ := g.Reverse(40, 10, x, y)
	if math.Abs(la-45) > 1e-9 || math.Abs(lo-12) > 1e-9 {
		t.Errorf("Gnomonic round trip of (45,12) about (40,10) gives (%v,%v)", la, lo)
	}
}
