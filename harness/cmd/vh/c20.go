package main

import (
	"bytes"
	"encoding/json"
	"fmt"
	"os"
	"os/exec"
	"path/filepath"
	"regexp"
	"strconv"
	"strings"
	"time"

	"github.com/stevenh/tracktools/pkg/convert"
	"github.com/stevenh/tracktools/pkg/laptimer"
	"github.com/stevenh/tracktools/pkg/trackaddict"
)

func init() { runners["C20"] = runC20 }

type c20Opt struct {
	Key     string  `json:"key"`            // struct field / normalised flag name, e.g. "track" or "start.latitude"
	Flag    string  `json:"flag"`           // command line flag, e.g. "--start-date"
	FlagVal *string `json:"flagval"`        // nil: not given
	CfgVal  *string `json:"cfgval"`         // nil: key absent from the config file
	Default string  `json:"default"`        // value when neither is present
	Kind    string  `json:"kind,omitempty"` // string|bool|float|tags|date
}

type c20Input struct {
	Cmd     string   `json:"cmd"` // convert | gopro.laptimes | gopro.convert
	Opts    []c20Opt `json:"opts"`
	BadData bool     `json:"baddata,omitempty"`
	NoInput bool     `json:"noinput,omitempty"`
	ToStdout bool    `json:"stdout,omitempty"`
	FromStdin bool   `json:"stdin,omitempty"`
}

var c20Bin string

func buildTracktools() error {
	if c20Bin != "" {
		return nil
	}
	out := filepath.Join(os.Getenv("VERIF_ROOT"), "work", "bin", "tracktools")
	cmd := exec.Command("go", "build", "-o", out, "./cmd/tracktools")
	cmd.Dir = os.Getenv("VERIF_REPO")
	if b, err := cmd.CombinedOutput(); err != nil {
		return fmt.Errorf("build tracktools: %v: %s", err, b)
	}
	c20Bin = out
	return nil
}

func tomlVal(kind, v string) string {
	switch kind {
	case "bool", "float":
		return v
	case "tags":
		if v == "" {
			return "[]"
		}
		parts := strings.Split(v, "|")
		for i, p := range parts {
			parts[i] = strconv.Quote(p)
		}
		return "[" + strings.Join(parts, ", ") + "]"
	}
	return strconv.Quote(v)
}

var traceRe = regexp.MustCompile(`Loaded config cfg=(".*") cmd=`)
var ansiRe = regexp.MustCompile("\x1b\\[[0-9;]*m")

func fieldFromTrace(trace, name string) (string, bool) {
	t := trace
	re := regexp.MustCompile(`\b` + name + `:("(?:[^"\\]|\\.)*"|\[\]string\{[^}]*\}|\[\]string\(nil\)|[-+0-9.eE]+|true|false)`)
	m := re.FindStringSubmatch(t)
	if m == nil {
		return "", false
	}
	v := m[1]
	switch {
	case strings.HasPrefix(v, `"`):
		if u, err := strconv.Unquote(v); err == nil {
			return u, true
		}
		return v, true
	case strings.HasPrefix(v, "[]string{"):
		inner := strings.TrimSuffix(strings.TrimPrefix(v, "[]string{"), "}")
		if inner == "" {
			return "", true
		}
		var parts []string
		for _, p := range regexp.MustCompile(`"(?:[^"\\]|\\.)*"`).FindAllString(inner, -1) {
			u, _ := strconv.Unquote(p)
			parts = append(parts, u)
		}
		return strings.Join(parts, "|"), true
	case v == "[]string(nil)":
		return "", true
	}
	return v, true
}

func normFloat(s string) string {
	f, err := strconv.ParseFloat(s, 64)
	if err != nil {
		return s
	}
	return strconv.FormatFloat(f, 'g', -1, 64)
}

const c20Log = `"Time","UTC Time","GPS_Update","Latitude","Longitude","Speed (Km/h)"
0.000,1653983971.000,1,50.0,-0.7,10
# Lap 0: 00:00:01.000
0.000,1653983972.000,1,50.0,-0.7,20
1.000,1653983973.000,1,50.0001,-0.7,30
# Lap 1: 00:00:02.000
0.000,1653983975.000,1,50.0,-0.7,40
`

func specValue(o c20Opt) string {
	if o.FlagVal != nil {
		return *o.FlagVal
	}
	if o.CfgVal != nil {
		return *o.CfgVal
	}
	return o.Default
}

func libraryPipeline(vals map[string]string, input string) ([]byte, error) {
	dec, err := trackaddict.NewDecoder(strings.NewReader(input))
	if err != nil {
		return nil, err
	}
	sess, err := dec.Decode()
	if err != nil {
		return nil, err
	}
	var tags []string
	if vals["tags"] != "" {
		tags = strings.Split(vals["tags"], "|")
	}
	opts := []convert.Option{convert.TrackOpt(vals["track"]), convert.VehicleOpt(vals["vehicle"]), convert.TagsOpt(tags...), convert.NoteOpt(vals["note"])}
	var sd time.Time
	if vals["startdate"] != "" {
		sd, _ = time.Parse("2006-01-02", vals["startdate"])
	}
	opts = append(opts, convert.StartDateOpt(sd))
	ta, err := convert.NewTrackAddict(opts...)
	if err != nil {
		return nil, err
	}
	db, err := ta.LapTimer(sess)
	if err != nil {
		return nil, err
	}
	var buf bytes.Buffer
	var eo []laptimer.EncoderOpt
	if vals["compress"] == "true" {
		eo = append(eo, laptimer.Compress())
	}
	enc, err := laptimer.NewEncoder(&buf, eo...)
	if err != nil {
		return nil, err
	}
	if err := enc.Encode(db); err != nil {
		return nil, err
	}
	return buf.Bytes(), nil
}

func addC20Case(ctx *Ctx, in c20Input) {
	dir, _ := os.MkdirTemp("", "vh-c20-")
	defer os.RemoveAll(dir)
	section := strings.ReplaceAll(in.Cmd, ".", ".")
	var top, start []string
	for _, o := range in.Opts {
		if o.CfgVal == nil {
			continue
		}
		if strings.HasPrefix(o.Key, "start.") {
			start = append(start, fmt.Sprintf("%s = %s", strings.TrimPrefix(o.Key, "start."), tomlVal(o.Kind, *o.CfgVal)))
		} else {
			top = append(top, fmt.Sprintf("%s = %s", o.Key, tomlVal(o.Kind, *o.CfgVal)))
		}
	}
	cfg := "[" + section + "]\n" + strings.Join(top, "\n") + "\n"
	if len(start) > 0 {
		cfg += "start = {" + strings.Join(start, ", ") + "}\n"
	}
	cfgPath := filepath.Join(dir, "cfg.toml")
	_ = os.WriteFile(cfgPath, []byte(cfg), 0o600)
	args := append(strings.Split(in.Cmd, "."), "-vv", "--config", cfgPath)
	for _, o := range in.Opts {
		if o.FlagVal == nil {
			continue
		}
		switch o.Kind {
		case "tags":
			if *o.FlagVal == "" {
				continue
			}
			for _, t := range strings.Split(*o.FlagVal, "|") {
				args = append(args, o.Flag, t)
			}
		case "bool":
			args = append(args, o.Flag+"="+*o.FlagVal)
		default:
			args = append(args, o.Flag, *o.FlagVal)
		}
	}
	input := c20Log
	if in.BadData {
		input = "\"Time\"\nnot-a-number\n"
	}
	inPath := filepath.Join(dir, "in.csv")
	_ = os.WriteFile(inPath, []byte(input), 0o600)
	outPath := filepath.Join(dir, "out.xml")
	var stdin *strings.Reader
	switch in.Cmd {
	case "convert":
		ia, oa := inPath, outPath
		if in.NoInput {
			ia = filepath.Join(dir, "missing.csv")
		}
		if in.FromStdin {
			ia = "-"
			stdin = strings.NewReader(input)
		}
		if in.ToStdout {
			oa = "-"
		}
		args = append(args, ia, oa)
	case "gopro.laptimes":
		args = append(args, filepath.Join(dir, "missing.mp4"))
	}
	cmd := exec.Command(c20Bin, args...)
	cmd.Dir = dir
	cmd.Env = append(os.Environ(), "HOME="+dir)
	var stdout, stderr bytes.Buffer
	cmd.Stdout, cmd.Stderr = &stdout, &stderr
	if stdin != nil {
		cmd.Stdin = stdin
	}
	err := cmd.Run()
	exit := 0
	if err != nil {
		exit = 1
		if ee, ok := err.(*exec.ExitError); ok {
			exit = ee.ExitCode()
		}
	}
	trace := ""
	if m := traceRe.FindStringSubmatch(ansiRe.ReplaceAllString(stderr.String(), "")); m != nil {
		if u, err := strconv.Unquote(m[1]); err == nil {
			trace = u
		}
	}
	vals := map[string]string{}
	var optTerms []string
	traceOK := trace != ""
	for _, o := range in.Opts {
		field := map[string]string{"decoder": "Decoder", "encoder": "Encoder", "compress": "Compress", "track": "Track", "vehicle": "Vehicle", "tags": "Tags", "note": "Note",
			"start.latitude": "Latitude", "start.longitude": "Longitude", "start.bearing": "Bearing", "start.distance": "Distance", "tolerance": "Tolerance",
			"sourcedir": "SourceDir", "outputdir": "OutputDir"}[o.Key]
		vals[o.Key] = specValue(o)
		if field == "" || !traceOK {
			continue // startdate is observed through the output only
		}
		obs, ok := fieldFromTrace(trace, field)
		if !ok {
			traceOK = false
			continue
		}
		def, fv, cv := o.Default, o.FlagVal, o.CfgVal
		if o.Kind == "float" {
			obs = normFloat(obs)
			def = normFloat(def)
			if fv != nil {
				x := normFloat(*fv)
				fv = &x
			}
			if cv != nil {
				x := normFloat(*cv)
				cv = &x
			}
		}
		path := strings.Split(o.Key, ".")
		ps := make([]string, len(path))
		for i, p := range path {
			ps[i] = CoqStr(p)
		}
		_ = fv
		_ = cv
		optTerms = append(optTerms, fmt.Sprintf("(mkCOpt %s %s %s %s)", zlist(ps), CoqStr(path[len(path)-1]), CoqStr(def), CoqStr(obs)))
	}
	// the section and the flags as the model sees them (floats normalised)
	norm := func(o c20Opt, v string) string {
		if o.Kind == "float" {
			return normFloat(v)
		}
		return v
	}
	var secTop, secStart, given []string
	for _, o := range in.Opts {
		path := strings.Split(o.Key, ".")
		if o.CfgVal != nil {
			kv := fmt.Sprintf("(%s, BStr %s)", CoqStr(path[len(path)-1]), CoqStr(norm(o, *o.CfgVal)))
			if len(path) == 2 {
				secStart = append(secStart, kv)
			} else {
				secTop = append(secTop, kv)
			}
		}
		if o.FlagVal != nil {
			given = append(given, fmt.Sprintf("(%s, %s)", CoqStr(path[len(path)-1]), CoqStr(norm(o, *o.FlagVal))))
		}
	}
	if len(secStart) > 0 {
		secTop = append(secTop, fmt.Sprintf("(%s, BTable %s)", CoqStr("start"), zlist(secStart)))
	}
	// implementation-side checks
	pipelineOK, exitOK := true, true
	detail := ""
	if in.Cmd == "convert" {
		valid := vals["decoder"] == "trackaddict" && vals["encoder"] == "laptimer" && !in.BadData && !in.NoInput
		if valid {
			want, perr := libraryPipeline(vals, input)
			var got []byte
			if in.ToStdout {
				got = stdout.Bytes()
			} else {
				got, _ = os.ReadFile(outPath)
			}
			if perr != nil || exit != 0 || !bytes.Equal(got, want) {
				pipelineOK = false
				detail = fmt.Sprintf("exit=%d pipeline-err=%v bytes %d vs %d", exit, perr, len(got), len(want))
			}
		} else if exit == 0 || stderr.Len() == 0 {
			exitOK = false
			detail = "failure did not give a non-zero exit status and a message"
		}
	}
	coq := fmt.Sprintf("(mkCase %s %s %s %s %s %s)", zlist(secTop), zlist(given), zlist(optTerms), CoqBool(traceOK), CoqBool(pipelineOK), CoqBool(exitOK))
	b, _ := json.Marshal(in)
	ctx.Add(Case{Coq: coq, Input: in, Obs: map[string]any{"exit": exit, "trace": traceOK, "pipeline_ok": pipelineOK, "exit_ok": exitOK, "detail": detail}, Key: string(b),
		Tags: []string{"cmd:" + in.Cmd, fmt.Sprintf("exit:%d", exit), fmt.Sprintf("trace:%v", traceOK)}})
}

func sp(s string) *string { return &s }

func genSource(r *Rng, o *c20Opt, flagVals, cfgVals []string) {
	switch r.Intn(4) {
	case 0:
	case 1:
		o.FlagVal = sp(Pick(r, flagVals))
	case 2:
		o.CfgVal = sp(Pick(r, cfgVals))
	default:
		o.FlagVal = sp(Pick(r, flagVals))
		o.CfgVal = sp(Pick(r, cfgVals))
	}
}

func runC20(ctx *Ctx) error {
	ctx.ShardSize = 150
	if err := buildTracktools(); err != nil {
		return err
	}
	if raws, err := ctx.ReplayInputs(); err != nil {
		return err
	} else if raws != nil {
		for _, raw := range raws {
			var in c20Input
			if err := json.Unmarshal(raw, &in); err != nil {
				return err
			}
			addC20Case(ctx, in)
		}
		return nil
	}
	r := ctx.R
	for i := 0; i < ctx.N(110, 1500); i++ {
		in := c20Input{Cmd: "convert"}
		mk := func(key, flag, kind, def string, fv, cv []string) {
			o := c20Opt{Key: key, Flag: flag, Kind: kind, Default: def}
			genSource(r, &o, fv, cv)
			in.Opts = append(in.Opts, o)
		}
		mk("decoder", "--decoder", "string", "", []string{"trackaddict", "trackaddict", "bogus"}, []string{"trackaddict", "trackaddict", "nope"})
		mk("encoder", "--encoder", "string", "", []string{"laptimer", "laptimer", ""}, []string{"laptimer", "laptimer", "xml"})
		mk("compress", "--compress", "bool", "false", []string{"true", "false"}, []string{"true", "false"})
		mk("track", "--track", "string", "", []string{"Flag Track", "", "Spa"}, []string{"Cfg Track", "Goodwood"})
		mk("vehicle", "--vehicle", "string", "", []string{"Flag Car", ""}, []string{"Cfg Car"})
		mk("tags", "--tags", "tags", "", []string{"a", "a|b c"}, []string{"Me", "x|y", ""})
		mk("note", "--note", "string", "", []string{"flag note", ""}, []string{"cfg note"})
		mk("startdate", "--start-date", "date", "", []string{"2023-01-02", ""}, []string{"2021-06-07", ""})
		// most runs should reach the pipeline
		if r.Chance(0.7) {
			in.Opts[0].FlagVal, in.Opts[0].CfgVal = nil, sp("trackaddict")
			in.Opts[1].FlagVal, in.Opts[1].CfgVal = sp("laptimer"), nil
		}
		in.BadData = r.Chance(0.06)
		in.NoInput = r.Chance(0.05)
		in.ToStdout = r.Chance(0.3)
		in.FromStdin = r.Chance(0.2) && !in.NoInput
		addC20Case(ctx, in)
	}
	for i := 0; i < ctx.N(60, 1024); i++ {
		in := c20Input{Cmd: "gopro.laptimes"}
		for _, k := range []string{"start.latitude", "start.longitude", "start.bearing", "start.distance", "tolerance"} {
			o := c20Opt{Key: k, Flag: "--" + strings.TrimPrefix(k, "start."), Kind: "float", Default: "0"}
			genSource(r, &o, []string{"9", "0", "-1.5", "51.25"}, []string{"1", "2.5", "10", "0"})
			in.Opts = append(in.Opts, o)
		}
		addC20Case(ctx, in)
	}
	for i := 0; i < ctx.N(20, 200); i++ {
		in := c20Input{Cmd: "gopro.convert"}
		for _, k := range [][2]string{{"sourcedir", "--source-dir"}, {"outputdir", "--output-dir"}} {
			o := c20Opt{Key: k[0], Flag: k[1], Kind: "string", Default: ""}
			genSource(r, &o, []string{"flagdir", "other", ""}, []string{"cfgdir", "."})
			in.Opts = append(in.Opts, o)
		}
		addC20Case(ctx, in)
	}
	return nil
}
