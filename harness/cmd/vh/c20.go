package main

import (
	"bytes"
	"encoding/json"
	"fmt"
	"math"
	"os"
	"os/exec"
	"path/filepath"
	"regexp"
	"strconv"
	"strings"
	"time"

	"verifharness/mp4synth"

	"github.com/stevenh/tracktools/pkg/convert"
	"github.com/stevenh/tracktools/pkg/gopro/gpmf"
	"github.com/stevenh/tracktools/pkg/gopro/gpmf/geo"
	"github.com/stevenh/tracktools/pkg/laptimer"
	"github.com/stevenh/tracktools/pkg/trackaddict"
	"github.com/tidwall/geodesic"
)

func init() { runners["C20"] = runC20 }

type c20Opt struct {
	Key     string  `json:"key"`            // struct field / normalised flag name, e.g. "track" or "start.latitude"
	Flag    string  `json:"flag"`           // command line flag, e.g. "--start-date"
	FlagVal *string `json:"flagval"`        // nil: not given
	CfgVal  *string `json:"cfgval"`         // nil: key absent from the config file
	Default string  `json:"default"`        // value when neither is present
	Kind    string  `json:"kind,omitempty"` // string|bool|float|tags|date
}

type c20Input struct {
	Cmd     string   `json:"cmd"` // convert | gopro.laptimes | gopro.convert
	Opts    []c20Opt `json:"opts"`
	BadData bool     `json:"baddata,omitempty"`
	NoInput bool     `json:"noinput,omitempty"`
	ToStdout bool    `json:"stdout,omitempty"`
	FromStdin bool   `json:"stdin,omitempty"`
	PreExisting bool `json:"preexisting,omitempty"` // the named output file already exists and is longer than the new output
	OutFull bool `json:"outfull,omitempty"` // the named output cannot be written (/dev/full): a failure that must be reported
	Readings [][2]int32 `json:"readings,omitempty"` // gopro.laptimes: GPS5 readings (lat, lon in 1e-7 degrees) of a real mp4 given to the command
}

// laptimesFile: a minimal GoPro mp4 whose metadata track holds one payload DEVC/STRM{SCAL, GPS5}.
func laptimesFile(readings [][2]int32) []byte {
	var scal, gps []byte
	for _, v := range []uint32{10000000, 10000000, 1000, 1000, 100} {
		scal = append(scal, be32(v)...)
	}
	for i, rd := range readings {
		gps = append(gps, be32(uint32(rd[0]))...)
		gps = append(gps, be32(uint32(rd[1]))...)
		gps = append(gps, be32(uint32(50000+i))...)
		gps = append(gps, be32(uint32(20000))...)
		gps = append(gps, be32(uint32(2100))...)
	}
	st := &knode{Key: "STRM", Typ: 0, Kids: []*knode{
		{Key: "STNM", Typ: 'c', Size: 1, Count: 3, Data: []byte("GPS")},
		{Key: "SCAL", Typ: 'l', Size: 4, Count: 5, Data: scal},
		{Key: "GPS5", Typ: 'l', Size: 20, Count: len(readings), Data: gps}}}
	payload := (&knode{Key: "DEVC", Typ: 0, Kids: []*knode{st}}).encode()
	area := append([]byte{0xde, 0xad, 0xbe, 0xef}, payload...)
	t := mp4synth.Tables{Offsets: []uint64{4}, NSamples: 1, Sizes: []uint32{uint32(len(payload))}, Stsc: [][2]uint32{{1, 1}}, Stts: [][2]uint32{{1, 1000}}, Timescale: 1000}
	f, _, err := mp4synth.Build(area, t)
	if err != nil {
		panic(err)
	}
	return f
}

type llPair struct{ Lat, Lon float64 }

// laptimesExpected: what the property says the command reports - exactly the readings within the
// effective tolerance of the effective start line, in file order - computed with the library.
func laptimesExpected(vals map[string]string, file []byte) ([]llPair, error) {
	f := func(k string) float64 { v, _ := strconv.ParseFloat(vals[k], 64); return v }
	lat, lon, brg, dist, tol := f("start.latitude"), f("start.longitude"), f("start.bearing"), f("start.distance"), f("tolerance")
	var lat1, lon1, lat2, lon2 float64
	geodesic.WGS84.Direct(lat, lon, brg+90, dist, &lat1, &lon1, nil)
	geodesic.WGS84.Direct(lat, lon, brg-90, dist, &lat2, &lon2, nil)
	p := geo.NewProcessor(geo.Tolerance(tol))
	els, err := gpmf.NewDecoder().Decode(bytes.NewReader(file))
	if err != nil {
		return nil, err
	}
	var out []llPair
	err = gpmf.Walk(els, func(e *gpmf.Element) error {
		if d, ok := e.Data.(gpmf.GPSData); ok {
			for _, v := range d {
				if p.OnLine(v.Latitude, v.Longitude, lat1, lon1, lat2, lon2) {
					out = append(out, llPair{v.Latitude, v.Longitude})
				}
			}
		}
		return nil
	})
	return out, err
}

var gpsLogRe = regexp.MustCompile(`gps=(\{[^}]*\})`)

var c20Bin string

func buildTracktools() error {
	if c20Bin != "" {
		return nil
	}
	work := os.Getenv("VERIF_WORK")
	if work == "" {
		work = filepath.Join(os.Getenv("VERIF_ROOT"), "work")
	}
	out := filepath.Join(work, "bin", "tracktools")
	cmd := exec.Command("go", "build", "-o", out, "./cmd/tracktools")
	cmd.Dir = os.Getenv("VERIF_REPO")
	if b, err := cmd.CombinedOutput(); err != nil {
		return fmt.Errorf("build tracktools: %v: %s", err, b)
	}
	c20Bin = out
	return nil
}

func tomlVal(kind, v string) string {
	switch kind {
	case "bool", "float":
		return v
	case "tags":
		if v == "" {
			return "[]"
		}
		parts := strings.Split(v, "|")
		for i, p := range parts {
			parts[i] = strconv.Quote(p)
		}
		return "[" + strings.Join(parts, ", ") + "]"
	}
	return strconv.Quote(v)
}

var traceRe = regexp.MustCompile(`Loaded config cfg=(".*") cmd=`)
var ansiRe = regexp.MustCompile("\x1b\\[[0-9;]*m")

func fieldFromTrace(trace, name string) (string, bool) {
	t := trace
	re := regexp.MustCompile(`\b` + name + `:("(?:[^"\\]|\\.)*"|\[\]string\{[^}]*\}|\[\]string\(nil\)|[-+0-9.eE]+|true|false)`)
	m := re.FindStringSubmatch(t)
	if m == nil {
		return "", false
	}
	v := m[1]
	switch {
	case strings.HasPrefix(v, `"`):
		if u, err := strconv.Unquote(v); err == nil {
			return u, true
		}
		return v, true
	case strings.HasPrefix(v, "[]string{"):
		inner := strings.TrimSuffix(strings.TrimPrefix(v, "[]string{"), "}")
		if inner == "" {
			return "", true
		}
		var parts []string
		for _, p := range regexp.MustCompile(`"(?:[^"\\]|\\.)*"`).FindAllString(inner, -1) {
			u, _ := strconv.Unquote(p)
			parts = append(parts, u)
		}
		return strings.Join(parts, "|"), true
	case v == "[]string(nil)":
		return "", true
	}
	return v, true
}

func normFloat(s string) string {
	f, err := strconv.ParseFloat(s, 64)
	if err != nil {
		return s
	}
	return strconv.FormatFloat(f, 'g', -1, 64)
}

const c20Log = `"Time","UTC Time","GPS_Update","Latitude","Longitude","Speed (Km/h)"
0.000,1653983971.000,1,50.0,-0.7,10
# Lap 0: 00:00:01.000
0.000,1653983972.000,1,50.0,-0.7,20
1.000,1653983973.000,1,50.0001,-0.7,30
# Lap 1: 00:00:02.000
0.000,1653983975.000,1,50.0,-0.7,40
`

func specValue(o c20Opt) string {
	if o.FlagVal != nil {
		return *o.FlagVal
	}
	if o.CfgVal != nil {
		return *o.CfgVal
	}
	return o.Default
}

func libraryPipeline(vals map[string]string, input string) ([]byte, error) {
	dec, err := trackaddict.NewDecoder(strings.NewReader(input))
	if err != nil {
		return nil, err
	}
	sess, err := dec.Decode()
	if err != nil {
		return nil, err
	}
	var tags []string
	if vals["tags"] != "" {
		tags = strings.Split(vals["tags"], "|")
	}
	opts := []convert.Option{convert.TrackOpt(vals["track"]), convert.VehicleOpt(vals["vehicle"]), convert.TagsOpt(tags...), convert.NoteOpt(vals["note"])}
	var sd time.Time
	if vals["startdate"] != "" {
		sd, _ = time.Parse("2006-01-02", vals["startdate"])
	}
	opts = append(opts, convert.StartDateOpt(sd))
	ta, err := convert.NewTrackAddict(opts...)
	if err != nil {
		return nil, err
	}
	db, err := ta.LapTimer(sess)
	if err != nil {
		return nil, err
	}
	var buf bytes.Buffer
	var eo []laptimer.EncoderOpt
	if vals["compress"] == "true" {
		eo = append(eo, laptimer.Compress())
	}
	enc, err := laptimer.NewEncoder(&buf, eo...)
	if err != nil {
		return nil, err
	}
	if err := enc.Encode(db); err != nil {
		return nil, err
	}
	return buf.Bytes(), nil
}

func addC20Case(ctx *Ctx, in c20Input) {
	dir, _ := os.MkdirTemp("", "vh-c20-")
	defer os.RemoveAll(dir)
	section := strings.ReplaceAll(in.Cmd, ".", ".")
	var top, start []string
	for _, o := range in.Opts {
		if o.CfgVal == nil {
			continue
		}
		if strings.HasPrefix(o.Key, "start.") {
			start = append(start, fmt.Sprintf("%s = %s", strings.TrimPrefix(o.Key, "start."), tomlVal(o.Kind, *o.CfgVal)))
		} else {
			top = append(top, fmt.Sprintf("%s = %s", o.Key, tomlVal(o.Kind, *o.CfgVal)))
		}
	}
	cfg := "[" + section + "]\n" + strings.Join(top, "\n") + "\n"
	if len(start) > 0 {
		cfg += "start = {" + strings.Join(start, ", ") + "}\n"
	}
	cfgPath := filepath.Join(dir, "cfg.toml")
	_ = os.WriteFile(cfgPath, []byte(cfg), 0o600)
	args := append(strings.Split(in.Cmd, "."), "-vv", "--config", cfgPath)
	for _, o := range in.Opts {
		if o.FlagVal == nil {
			continue
		}
		switch o.Kind {
		case "tags":
			if *o.FlagVal == "" {
				continue
			}
			for _, t := range strings.Split(*o.FlagVal, "|") {
				args = append(args, o.Flag, t)
			}
		case "bool":
			args = append(args, o.Flag+"="+*o.FlagVal)
		default:
			args = append(args, o.Flag, *o.FlagVal)
		}
	}
	input := c20Log
	if in.BadData {
		input = "\"Time\"\nnot-a-number\n"
	}
	inPath := filepath.Join(dir, "in.csv")
	_ = os.WriteFile(inPath, []byte(input), 0o600)
	outPath := filepath.Join(dir, "out.xml")
	if in.PreExisting {
		_ = os.WriteFile(outPath, bytes.Repeat([]byte("stale bytes of an earlier conversion\n"), 8000), 0o644)
	}
	var mp4File []byte
	var stdin *strings.Reader
	switch in.Cmd {
	case "convert":
		ia, oa := inPath, outPath
		if in.NoInput {
			ia = filepath.Join(dir, "missing.csv")
		}
		if in.FromStdin {
			ia = "-"
			stdin = strings.NewReader(input)
		}
		if in.ToStdout {
			oa = "-"
		}
		if in.OutFull {
			oa = "/dev/full"
		}
		args = append(args, ia, oa)
	case "gopro.laptimes":
		if len(in.Readings) > 0 {
			mp4File = laptimesFile(in.Readings)
			_ = os.WriteFile(filepath.Join(dir, "gps.mp4"), mp4File, 0o600)
			args = append(args, filepath.Join(dir, "gps.mp4"))
		} else {
			args = append(args, filepath.Join(dir, "missing.mp4"))
		}
	}
	cmd := exec.Command(c20Bin, args...)
	cmd.Dir = dir
	cmd.Env = append(os.Environ(), "HOME="+dir)
	var stdout, stderr bytes.Buffer
	cmd.Stdout, cmd.Stderr = &stdout, &stderr
	if stdin != nil {
		cmd.Stdin = stdin
	}
	err := cmd.Run()
	exit := 0
	if err != nil {
		exit = 1
		if ee, ok := err.(*exec.ExitError); ok {
			exit = ee.ExitCode()
		}
	}
	trace := ""
	if m := traceRe.FindStringSubmatch(ansiRe.ReplaceAllString(stderr.String(), "")); m != nil {
		if u, err := strconv.Unquote(m[1]); err == nil {
			trace = u
		}
	}
	vals := map[string]string{}
	var optTerms []string
	traceOK := trace != ""
	for _, o := range in.Opts {
		field := map[string]string{"decoder": "Decoder", "encoder": "Encoder", "compress": "Compress", "track": "Track", "vehicle": "Vehicle", "tags": "Tags", "note": "Note",
			"start.latitude": "Latitude", "start.longitude": "Longitude", "start.bearing": "Bearing", "start.distance": "Distance", "tolerance": "Tolerance",
			"sourcedir": "SourceDir", "outputdir": "OutputDir"}[o.Key]
		vals[o.Key] = specValue(o)
		if field == "" || !traceOK {
			continue // startdate is observed through the output only
		}
		obs, ok := fieldFromTrace(trace, field)
		if !ok {
			traceOK = false
			continue
		}
		def, fv, cv := o.Default, o.FlagVal, o.CfgVal
		if o.Kind == "float" {
			obs = normFloat(obs)
			def = normFloat(def)
			if fv != nil {
				x := normFloat(*fv)
				fv = &x
			}
			if cv != nil {
				x := normFloat(*cv)
				cv = &x
			}
		}
		path := strings.Split(o.Key, ".")
		ps := make([]string, len(path))
		for i, p := range path {
			ps[i] = CoqStr(p)
		}
		_ = fv
		_ = cv
		optTerms = append(optTerms, fmt.Sprintf("(mkCOpt %s %s %s %s)", zlist(ps), CoqStr(path[len(path)-1]), CoqStr(def), CoqStr(obs)))
	}
	// the section and the flags as the model sees them (floats normalised)
	norm := func(o c20Opt, v string) string {
		if o.Kind == "float" {
			return normFloat(v)
		}
		return v
	}
	var secTop, secStart, given []string
	for _, o := range in.Opts {
		path := strings.Split(o.Key, ".")
		if o.CfgVal != nil {
			kv := fmt.Sprintf("(%s, BStr %s)", CoqStr(path[len(path)-1]), CoqStr(norm(o, *o.CfgVal)))
			if len(path) == 2 {
				secStart = append(secStart, kv)
			} else {
				secTop = append(secTop, kv)
			}
		}
		if o.FlagVal != nil {
			given = append(given, fmt.Sprintf("(%s, %s)", CoqStr(path[len(path)-1]), CoqStr(norm(o, *o.FlagVal))))
		}
	}
	if len(secStart) > 0 {
		secTop = append(secTop, fmt.Sprintf("(%s, BTable %s)", CoqStr("start"), zlist(secStart)))
	}
	// implementation-side checks
	pipelineOK, exitOK := true, true
	detail := ""
	if in.Cmd == "convert" {
		valid := vals["decoder"] == "trackaddict" && vals["encoder"] == "laptimer" && !in.BadData && !in.NoInput
		if valid && in.OutFull {
			// every write to the output fails: "any failure ... ends with a non-zero exit status and a message"
			if exit == 0 || stderr.Len() == 0 {
				exitOK = false
				detail = "the output could not be written, yet the command exited 0 / printed nothing"
			}
		} else if valid {
			want, perr := libraryPipeline(vals, input)
			var got []byte
			if in.ToStdout {
				got = stdout.Bytes()
			} else {
				got, _ = os.ReadFile(outPath)
			}
			if perr != nil || exit != 0 || !bytes.Equal(got, want) {
				pipelineOK = false
				detail = fmt.Sprintf("exit=%d pipeline-err=%v bytes %d vs %d", exit, perr, len(got), len(want))
			}
		} else if exit == 0 || stderr.Len() == 0 {
			exitOK = false
			detail = "failure did not give a non-zero exit status and a message"
		}
	}
	if in.Cmd == "gopro.laptimes" && mp4File != nil {
		// the filter clause end to end: reported readings = readings within the effective tolerance of the effective line
		want, werr := laptimesExpected(vals, mp4File)
		var got []llPair
		for _, m := range gpsLogRe.FindAllStringSubmatch(ansiRe.ReplaceAllString(stderr.String()+stdout.String(), ""), -1) {
			var o struct{ Latitude, Longitude float64 }
			if json.Unmarshal([]byte(m[1]), &o) == nil {
				got = append(got, llPair{o.Latitude, o.Longitude})
			}
		}
		same := werr == nil && len(got) == len(want)
		for i := 0; same && i < len(got); i++ {
			same = math.Abs(got[i].Lat-want[i].Lat) < 1e-9 && math.Abs(got[i].Lon-want[i].Lon) < 1e-9
		}
		if !same {
			pipelineOK = false
			detail = fmt.Sprintf("reported %d readings %v, within tolerance of the line are %d %v (err %v)", len(got), got, len(want), want, werr)
		}
		if (len(want) > 0) != (exit == 0) {
			exitOK = false
			detail += fmt.Sprintf(" exit=%d with %d matching readings", exit, len(want))
		}
	}
	coq := fmt.Sprintf("(mkCase %s %s %s %s %s %s)", zlist(secTop), zlist(given), zlist(optTerms), CoqBool(traceOK), CoqBool(pipelineOK), CoqBool(exitOK))
	b, _ := json.Marshal(in)
	ctx.Add(Case{Coq: coq, Input: in, Obs: map[string]any{"exit": exit, "trace": traceOK, "pipeline_ok": pipelineOK, "exit_ok": exitOK, "detail": detail}, Key: string(b),
		Tags: []string{"cmd:" + in.Cmd, fmt.Sprintf("exit:%d", exit), fmt.Sprintf("trace:%v", traceOK), fmt.Sprintf("preexisting-output:%v", in.PreExisting), fmt.Sprintf("real-mp4:%v", len(in.Readings) > 0)}})
}

func sp(s string) *string { return &s }

func genSource(r *Rng, o *c20Opt, flagVals, cfgVals []string) {
	switch r.Intn(4) {
	case 0:
	case 1:
		o.FlagVal = sp(Pick(r, flagVals))
	case 2:
		o.CfgVal = sp(Pick(r, cfgVals))
	default:
		o.FlagVal = sp(Pick(r, flagVals))
		o.CfgVal = sp(Pick(r, cfgVals))
	}
}

func runC20(ctx *Ctx) error {
	ctx.ShardSize = 150
	if err := buildTracktools(); err != nil {
		return err
	}
	if raws, err := ctx.ReplayInputs(); err != nil {
		return err
	} else if raws != nil {
		for _, raw := range raws {
			var in c20Input
			if err := json.Unmarshal(raw, &in); err != nil {
				return err
			}
			addC20Case(ctx, in)
		}
		return nil
	}
	r := ctx.R
	for i := 0; i < ctx.N(110, 1500); i++ {
		in := c20Input{Cmd: "convert"}
		mk := func(key, flag, kind, def string, fv, cv []string) {
			o := c20Opt{Key: key, Flag: flag, Kind: kind, Default: def}
			genSource(r, &o, fv, cv)
			in.Opts = append(in.Opts, o)
		}
		mk("decoder", "--decoder", "string", "", []string{"trackaddict", "trackaddict", "bogus"}, []string{"trackaddict", "trackaddict", "nope"})
		mk("encoder", "--encoder", "string", "", []string{"laptimer", "laptimer", ""}, []string{"laptimer", "laptimer", "xml"})
		mk("compress", "--compress", "bool", "false", []string{"true", "false"}, []string{"true", "false"})
		mk("track", "--track", "string", "", []string{"Flag Track", "", "Spa"}, []string{"Cfg Track", "Goodwood"})
		mk("vehicle", "--vehicle", "string", "", []string{"Flag Car", ""}, []string{"Cfg Car"})
		mk("tags", "--tags", "tags", "", []string{"a", "a|b c", "\"Me\"", "p,q|r"}, []string{"Me", "x|y", ""})
		mk("note", "--note", "string", "", []string{"flag note", ""}, []string{"cfg note"})
		mk("startdate", "--start-date", "date", "", []string{"2023-01-02", ""}, []string{"2021-06-07", ""})
		// most runs should reach the pipeline
		if r.Chance(0.7) {
			in.Opts[0].FlagVal, in.Opts[0].CfgVal = nil, sp("trackaddict")
			in.Opts[1].FlagVal, in.Opts[1].CfgVal = sp("laptimer"), nil
		}
		in.BadData = r.Chance(0.06)
		in.NoInput = r.Chance(0.05)
		in.ToStdout = r.Chance(0.3)
		in.FromStdin = r.Chance(0.2) && !in.NoInput
		in.PreExisting = !in.ToStdout && r.Chance(0.35)
		if _, err := os.Stat("/dev/full"); err == nil && !in.ToStdout && r.Chance(0.12) {
			in.OutFull, in.PreExisting = true, false
		}
		addC20Case(ctx, in)
	}
	for i := 0; i < ctx.N(60, 1024); i++ {
		in := c20Input{Cmd: "gopro.laptimes"}
		for _, k := range []string{"start.latitude", "start.longitude", "start.bearing", "start.distance", "tolerance"} {
			o := c20Opt{Key: k, Flag: "--" + strings.TrimPrefix(k, "start."), Kind: "float", Default: "0"}
			genSource(r, &o, []string{"9", "0", "-1.5", "51.25"}, []string{"1", "2.5", "10", "0"})
			in.Opts = append(in.Opts, o)
		}
		addC20Case(ctx, in)
	}
	// the filter clause end to end: a real mp4 with readings around the effective start line
	for i := 0; i < ctx.N(50, 800); i++ {
		in := c20Input{Cmd: "gopro.laptimes"}
		eff := map[string]string{
			"start.latitude":  fmt.Sprintf("%.6f", 51+float64(r.Intn(1000))/1e5),
			"start.longitude": fmt.Sprintf("%.6f", -1-float64(r.Intn(1000))/1e5),
			"start.bearing":   Pick(r, []string{"0", "10", "90", "200.5", "333"}),
			"start.distance":  Pick(r, []string{"5", "10", "12.5"}),
			"tolerance":       Pick(r, []string{"0", "0", "0.05", "1", "5"}),
		}
		decoy := map[string][]string{"start.latitude": {"10", "52.5"}, "start.longitude": {"3", "-1.5"}, "start.bearing": {"45.5", "270"}, "start.distance": {"1", "100"}, "tolerance": {"1", "10", "0.5"}}
		for _, k := range []string{"start.latitude", "start.longitude", "start.bearing", "start.distance", "tolerance"} {
			o := c20Opt{Key: k, Flag: "--" + strings.TrimPrefix(k, "start."), Kind: "float", Default: "0"}
			switch r.Intn(3) {
			case 0:
				o.FlagVal = sp(eff[k])
			case 1:
				o.CfgVal = sp(eff[k])
			default:
				o.FlagVal, o.CfgVal = sp(eff[k]), sp(Pick(r, decoy[k])) // the flag wins over the file
			}
			in.Opts = append(in.Opts, o)
		}
		fv := func(k string) float64 { v, _ := strconv.ParseFloat(eff[k], 64); return v }
		lat, lon, brg, dist, tol := fv("start.latitude"), fv("start.longitude"), fv("start.bearing"), fv("start.distance"), fv("tolerance")
		for j := 0; j < 3+r.Intn(8); j++ {
			along := (float64(r.Intn(200))/100 - 1) * dist * 1.2
			side := Pick(r, []float64{0, 0.03, 0.07, 0.5, 0.9 * tol, 0.95 * tol, 0.97 * tol, 0.99 * tol, 1.02 * tol, 1.1 * tol, 2, 20, 111})
			if r.Bool() {
				side = -side
			}
			mlat, mlon := sphDest(lat, lon, brg+90, along/6378137)
			plat, plon := sphDest(mlat, mlon, brg, side/6378137)
			in.Readings = append(in.Readings, [2]int32{int32(math.Round(plat * 1e7)), int32(math.Round(plon * 1e7))})
		}
		addC20Case(ctx, in)
	}
	for i := 0; i < ctx.N(20, 200); i++ {
		in := c20Input{Cmd: "gopro.convert"}
		for _, k := range [][2]string{{"sourcedir", "--source-dir"}, {"outputdir", "--output-dir"}} {
			o := c20Opt{Key: k[0], Flag: k[1], Kind: "string", Default: ""}
			genSource(r, &o, []string{"flagdir", "other", ""}, []string{"cfgdir", "."})
			in.Opts = append(in.Opts, o)
		}
		addC20Case(ctx, in)
	}
	return nil
}
