package main

import (
	"encoding/hex"
	"fmt"
	"math"
)

func init() {
	runners["C07"] = runC07
	runners["C16"] = runC16
	runners["C09"] = runC09
}

var scalableTypes = []byte("bBsSlLfdjJqQ")

func numLeaf(r *Rng, key string, t byte, values int, perSample int) *knode {
	w := typeWidth(t)
	n := &knode{Key: key, Typ: t}
	if perSample > 0 && values%perSample == 0 && r.Chance(0.8) {
		n.Size = w * perSample
		n.Count = values / perSample
	} else {
		n.Size = w
		n.Count = values
	}
	if n.Size > 255 {
		n.Size = w
		n.Count = values
	}
	n.Data = make([]byte, 0, w*values)
	for i := 0; i < values; i++ {
		switch t {
		case 'f':
			v := float32(r.Intn(20000)-10000) / float32(1+r.Intn(50))
			n.Data = append(n.Data, be32(math.Float32bits(v))...)
		case 'd':
			v := float64(r.Intn(2000000)-1000000) / float64(1+r.Intn(500))
			var b [8]byte
			u := math.Float64bits(v)
			for k := 0; k < 8; k++ {
				b[k] = byte(u >> (56 - 8*k))
			}
			n.Data = append(n.Data, b[:]...)
		default:
			if r.Chance(0.7) {
				// small magnitudes so values look like telemetry; sign bits exercised by 0xff fill
				b := make([]byte, w)
				v := int64(r.Intn(1<<20)) - (1 << 19)
				if r.Chance(0.2) {
					v = int64(r.Next())
				}
				for k := 0; k < w; k++ {
					b[w-1-k] = byte(v >> (8 * k))
				}
				n.Data = append(n.Data, b...)
			} else {
				n.Data = append(n.Data, randBytes(r, w)...)
			}
		}
	}
	return n
}

func scalLeaf(r *Rng, n int) *knode {
	if r.Chance(0.04) {
		// a payload shorter than one value of its type: an empty scale vector, must be an error
		t := Pick(r, []byte("lLfsSdq"))
		sz := 1 + r.Intn(typeWidth(t)-1)
		return &knode{Key: "SCAL", Typ: t, Size: sz, Count: 1, Data: randBytes(r, sz)}
	}
	t := Pick(r, []byte("sSlLfsl"))
	k := numLeaf(r, "SCAL", t, n, 0)
	if r.Chance(0.9) {
		// non-zero entries: patch zero values to 1..
		w := typeWidth(t)
		for i := 0; i < n; i++ {
			zero := true
			for _, c := range k.Data[i*w : (i+1)*w] {
				if c != 0 {
					zero = false
				}
			}
			if zero || t == 'f' {
				if t == 'f' {
					copy(k.Data[i*w:], be32(math.Float32bits(float32(1+r.Intn(1000)))))
				} else {
					k.Data[(i+1)*w-1] = byte(1 + r.Intn(200))
				}
			}
		}
	}
	return k
}

var sensorWidths = map[string]int{"GPS5": 5, "ACCL": 3, "GYRO": 3, "MAGN": 3, "WRGB": 3}

func faceElems(r *Rng) []*knode {
	defs := []struct {
		def  string
		size int
	}{{"Lffff", 20}, {"Lffffffffffffffffffffff", 92}, {"Lffffff", 28}, {"BBSSSSSBB", 14}}
	d := Pick(r, defs)
	count := Pick(r, []int{0, 1, 1, 2, 3, 5})
	size := d.size
	if r.Chance(0.06) {
		size = d.size - 1 - r.Intn(6) // undersized records: must be an error
	}
	def := d.def
	if r.Chance(0.04) {
		def = "Lfff"
	}
	typ := &knode{Key: "TYPE", Typ: 'c', Size: 1, Count: len(def), Data: []byte(def)}
	data := make([]byte, size*count)
	for i := range data {
		data[i] = byte(r.Next())
		if i%4 == 0 && r.Chance(0.5) {
			data[i] = 0x3f + byte(r.Intn(4))
		}
	}
	face := &knode{Key: "FACE", Typ: '?', Size: size, Count: count, Data: data}
	if r.Chance(0.05) {
		return []*knode{face} // missing TYPE
	}
	return []*knode{typ, face}
}

func genStream(r *Rng) *knode {
	s := &knode{Key: "STRM", Typ: 0}
	if r.Chance(0.5) {
		s.Kids = append(s.Kids, &knode{Key: "STNM", Typ: 'c', Size: 1, Count: 4, Data: []byte("name")})
	}
	n := 1 + r.Intn(4)
	for i := 0; i < n; i++ {
		switch r.Intn(10) {
		case 0:
			s.Kids = append(s.Kids, faceElems(r)...)
		case 1:
			// GPS precision / fix, sometimes of the wrong type
			t := byte('S')
			if r.Chance(0.15) {
				t = Pick(r, []byte("sLB"))
			}
			cnt := 1
			if r.Chance(0.1) {
				cnt = 2
			}
			s.Kids = append(s.Kids, numLeaf(r, "GPSP", t, cnt, 0))
			t = 'L'
			if r.Chance(0.15) {
				t = Pick(r, []byte("lSJ"))
			}
			f := numLeaf(r, "GPSF", t, 1, 0)
			if t == 'L' {
				copy(f.Data, be32(uint32(Pick(r, []int{0, 1, 2, 3, 4, 7}))))
			}
			s.Kids = append(s.Kids, f)
		default:
			key := Pick(r, []string{"GPS5", "ACCL", "GYRO", "MAGN", "WRGB", "ABCD", "SHUT", "ISOG"})
			t := scalableTypes[r.Intn(len(scalableTypes))]
			w := sensorWidths[key]
			samples := r.Intn(9)
			values := samples
			if w > 0 {
				values = samples * w
				if r.Chance(0.08) {
					values += 1 + r.Intn(w-1) // not a multiple of the sample width: must be rejected
				}
			}
			if r.Chance(0.6) {
				sl := 1 + r.Intn(6)
				if w > 0 && r.Chance(0.6) {
					sl = w
				}
				s.Kids = append(s.Kids, scalLeaf(r, sl))
			}
			s.Kids = append(s.Kids, numLeaf(r, key, t, values, w))
			if r.Chance(0.4) {
				// an unscaled sibling right after: must stay raw
				s.Kids = append(s.Kids, numLeaf(r, Pick(r, []string{"ABCD", "ACCL", "TICK"}), scalableTypes[r.Intn(len(scalableTypes))], 3*r.Intn(3), 3))
			}
		}
	}
	return s
}

func runC07(ctx *Ctx) error {
	ctx.ShardSize = 60
	ctx.Imports = []string{"Gpmf.Klv"}
	if done, err := replayGpmf(ctx); done || err != nil {
		return err
	}
	r := ctx.R
	n := ctx.N(400, 6000)
	for i := 0; i < n; i++ {
		d := &knode{Key: "DEVC", Typ: 0}
		for j := 0; j < 1+r.Intn(2); j++ {
			d.Kids = append(d.Kids, genStream(r))
		}
		b := d.encode()
		addGpmfCase(ctx, gpmfInput{hex.EncodeToString(b), 0, "stream"})
	}
	// face payloads beyond 64 KiB: record i sits at byte i*size however large that is
	for _, d := range []struct {
		def         string
		size, count int
	}{{"BBSSSSSBB", 14, 4700 + r.Intn(200)}, {"Lffffffffffffffffffffff", 92, 715 + r.Intn(40)}} {
		if !ctx.Thorough() && (d.size == 14) != (ctx.Seed%2 == 0) {
			continue // the quick tier takes one of the two layouts, by seed
		}
		data := make([]byte, d.size*d.count)
		for i := range data {
			data[i] = byte(i/d.size) ^ byte(i*7)
			if i%d.size < 2 {
				data[i] = byte((i / d.size) >> (8 * uint(1-i%d.size))) // the record number in the first two bytes
			}
		}
		st := &knode{Key: "STRM", Typ: 0, Kids: []*knode{
			{Key: "TYPE", Typ: 'c', Size: 1, Count: len(d.def), Data: []byte(d.def)},
			{Key: "FACE", Typ: '?', Size: d.size, Count: d.count, Data: data}}}
		b := (&knode{Key: "DEVC", Typ: 0, Kids: []*knode{st}}).encode()
		addGpmfCase(ctx, gpmfInput{hex.EncodeToString(b), 0, "big-faces"})
	}
	return nil
}

// ---------------------------------------------------------------- C16

var c16MetaKeys = []string{"STNM", "SIUN", "UNIT", "TYPE", "TSMP", "TMPC", "GPSU", "GPSF", "GPSP", "DVID", "DVNM", "SCAL"}

func metaLeaf(r *Rng, key string, tag *int) *knode {
	*tag++
	switch key {
	case "GPSF":
		n := &knode{Key: key, Typ: 'L', Size: 4, Count: 1, Data: be32(uint32(Pick(r, []int{0, 1, 2, 3, 4, 9})))}
		return n
	case "GPSP":
		if r.Chance(0.15) {
			// the format's own special values: 9999 is GoPro's "no precision" marker
			return &knode{Key: key, Typ: 'S', Size: 2, Count: 1, Data: be16(Pick(r, []uint16{9999, 0, 65535, 1, 9998, 10000}))}
		}
		return &knode{Key: key, Typ: 'S', Size: 2, Count: 1, Data: be16(uint16(100 + *tag))}
	case "GPSU":
		return &knode{Key: key, Typ: 'U', Size: 16, Count: 1, Data: randDate(r)}
	case "TSMP", "DVID":
		return &knode{Key: key, Typ: 'L', Size: 4, Count: 1, Data: be32(uint32(1000 + *tag))}
	case "TMPC":
		return &knode{Key: key, Typ: 'f', Size: 4, Count: 1, Data: be32(math.Float32bits(float32(20 + *tag)))}
	case "SCAL":
		return &knode{Key: key, Typ: 's', Size: 2, Count: 1, Data: be16(uint16(1 + *tag%50))}
	default:
		s := fmt.Sprintf("%s-%d", key, *tag)
		return &knode{Key: key, Typ: 'c', Size: 1, Count: len(s), Data: []byte(s)}
	}
}

func sensorLeaf(r *Rng) []*knode {
	key := Pick(r, []string{"GPS5", "ACCL", "GYRO", "FACE", "FCNM", "ISOE", "WRGB"})
	switch key {
	case "FACE":
		return []*knode{{Key: "FACE", Typ: '?', Size: 20, Count: 0}}
	case "FCNM", "ISOE":
		return []*knode{numLeaf(r, key, 'S', 1+r.Intn(3), 0)}
	default:
		return []*knode{numLeaf(r, key, 's', sensorWidths[key]*(1+r.Intn(2)), sensorWidths[key])}
	}
}

func genC16Payload(r *Rng, tag *int) []*knode {
	var devs []*knode
	for d := 0; d < 1+r.Intn(3); d++ {
		dev := &knode{Key: "DEVC", Typ: 0}
		if r.Chance(0.85) {
			dev.Kids = append(dev.Kids, metaLeaf(r, "DVID", tag))
		}
		if r.Chance(0.85) {
			dev.Kids = append(dev.Kids, metaLeaf(r, "DVNM", tag))
		}
		if r.Chance(0.2) {
			dev.Kids = append(dev.Kids, metaLeaf(r, Pick(r, []string{"STNM", "TMPC", "TSMP"}), tag))
		}
		for s := 0; s < 1+r.Intn(4); s++ {
			st := &knode{Key: "STRM", Typ: 0}
			keys := r.Perm(len(c16MetaKeys))
			nk := r.Intn(7)
			for _, ki := range keys[:nk] {
				k := c16MetaKeys[ki]
				if k == "SCAL" {
					continue
				}
				st.Kids = append(st.Kids, metaLeaf(r, k, tag))
			}
			st.Kids = append(st.Kids, sensorLeaf(r)...)
			if r.Chance(0.35) {
				// restate a key, then another sensor element
				st.Kids = append(st.Kids, metaLeaf(r, Pick(r, []string{"STNM", "TSMP", "GPSF", "UNIT"}), tag))
				st.Kids = append(st.Kids, sensorLeaf(r)...)
			}
			if r.Chance(0.15) {
				// a device-level key stated late
				dev.Kids = append(dev.Kids, st)
				dev.Kids = append(dev.Kids, metaLeaf(r, Pick(r, []string{"DVNM", "DVID"}), tag))
				continue
			}
			dev.Kids = append(dev.Kids, st)
		}
		devs = append(devs, dev)
	}
	return devs
}

func runC16(ctx *Ctx) error {
	ctx.ShardSize = 60
	ctx.Imports = []string{"Gpmf.Klv"}
	if done, err := replayGpmf(ctx); done || err != nil {
		return err
	}
	r := ctx.R
	n := ctx.N(300, 5000)
	for i := 0; i < n; i++ {
		tag := 0
		// several payloads: each is read by its own Read call, as the decoder does per sample;
		// additionally the concatenation is read in one call (devices side by side)
		np := 1 + r.Intn(3)
		var all []byte
		for p := 0; p < np; p++ {
			b := encodeForest(genC16Payload(r, &tag))
			all = append(all, b...)
			addGpmfCase(ctx, gpmfInput{hex.EncodeToString(b), 0, "payload"})
		}
		if np > 1 && len(all) < 5000 {
			addGpmfCase(ctx, gpmfInput{hex.EncodeToString(all), 0, "payloads-in-one-read"})
		}
	}
	return nil
}
