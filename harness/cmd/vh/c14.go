package main

import (
	"sync/atomic"
	"bytes"
	"compress/gzip"
	"encoding/json"
	"encoding/xml"
	"errors"
	"fmt"
	"io"
	"runtime"
	"strings"
	"time"

	"github.com/stevenh/tracktools/pkg/laptimer"
)

func init() { runners["C14"] = runC14 }

type c14Input struct {
	Laps    int  `json:"laps"`
	Fixes   int  `json:"fixes"`
	NoteLen int  `json:"notelen"`
	K       int  `json:"k"` // -1: never fails
	Gz      bool `json:"gz"`
	Procs   int  `json:"procs"`
	Yield   bool `json:"yield"`
	ErrKind int  `json:"errkind,omitempty"` // what the failing output returns: 0 its own error, 1 io.EOF, 2 an error wrapping io.EOF, 3 io.ErrUnexpectedEOF, 4 io.ErrClosedPipe, 5 io.ErrShortWrite
	BadDoc  int  `json:"baddoc,omitempty"`  // 0: a database; 1: a value encoding/xml rejects at once; 2: a value whose marshaller fails after writing a lot
}

// failingDoc is a document whose own marshalling fails after n elements have been written.
type failingDoc struct{ N int }

func (d failingDoc) MarshalXML(e *xml.Encoder, start xml.StartElement) error {
	if err := e.EncodeToken(start); err != nil {
		return err
	}
	for i := 0; i < d.N; i++ {
		if err := e.EncodeElement(strings.Repeat("x", 60), xml.StartElement{Name: xml.Name{Local: "item"}}); err != nil {
			return err
		}
	}
	return errors.New("document: cannot be marshalled any further")
}

func sinkError(kind int) error {
	switch kind {
	case 1:
		return io.EOF
	case 2:
		return fmt.Errorf("sink: connection closed: %w", io.EOF)
	case 3:
		return io.ErrUnexpectedEOF
	case 4:
		return io.ErrClosedPipe
	case 5:
		return io.ErrShortWrite
	}
	return errSinkFail
}

type countingWriter struct {
	buf    bytes.Buffer
	writes int
	failAt int
	kind   int
	yield  bool
	slow   bool
	r      *Rng
	// returned is set when Encode has returned; a Write that starts afterwards is background
	// activity the call left behind
	returned atomic.Bool
	late     atomic.Int32
}

var errSinkFail = errors.New("sink: write failed")

func (w *countingWriter) Write(p []byte) (int, error) {
	if w.returned.Load() {
		w.late.Add(1)
	}
	if w.slow {
		time.Sleep(150 * time.Microsecond)
	}
	if w.yield {
		runtime.Gosched()
		if w.r != nil && w.r.Chance(0.05) {
			time.Sleep(50 * time.Microsecond)
		}
	}
	if w.failAt >= 0 && w.writes >= w.failAt {
		return 0, sinkError(w.kind)
	}
	w.writes++
	w.buf.Write(p)
	return len(p), nil
}

func c14DB(in c14Input) *laptimer.DB {
	db := laptimer.NewDB()
	for i := 0; i < in.Laps; i++ {
		lap := laptimer.Lap{ID: i, Track: "t", Note: strings.Repeat("note line\n", in.NoteLen)}
		for j := 0; j < in.Fixes; j++ {
			lap.Recording.Fixes = append(lap.Recording.Fixes, laptimer.Fix{ID: j, Speed: 12.3})
		}
		db.Laps = append(db.Laps, lap)
	}
	return db
}

type c14Obs struct {
	Returned bool
	Err      bool
	Leak     bool
	Writes   int
	Out      []byte
	Detail   string
}

// encoderGoroutines counts the goroutines that are running, or were started by, any code of the
// repository's laptimer package (whatever the functions are called): after Encode has returned
// there must be none.
func encoderGoroutines() int {
	buf := make([]byte, 4<<20)
	n := runtime.Stack(buf, true)
	c := 0
	for _, g := range strings.Split(string(buf[:n]), "\n\n") {
		if strings.Contains(g, "stevenh/tracktools/pkg/laptimer") {
			c++
		}
	}
	return c
}

func c14Run(in c14Input, r *Rng) c14Obs {
	if in.Procs > 0 {
		defer runtime.GOMAXPROCS(runtime.GOMAXPROCS(in.Procs))
	}
	w := &countingWriter{failAt: in.K, kind: in.ErrKind, yield: in.Yield, r: r}
	// a document whose marshalling fails late, written to a slow output: whatever the call started
	// must have stopped writing by the time it returns
	w.slow = in.BadDoc == 2 && in.Yield
	var db any = c14DB(in)
	switch in.BadDoc {
	case 1:
		db = struct{ M map[string]int }{map[string]int{"a": 1}}
	case 2:
		db = failingDoc{N: 40 + 60*in.Laps}
	}
	done := make(chan error, 1)
	go func() {
		var opts []laptimer.EncoderOpt
		if in.Gz {
			opts = append(opts, laptimer.Compress())
		}
		enc, err := laptimer.NewEncoder(w, opts...)
		if err != nil {
			done <- err
			return
		}
		done <- enc.Encode(db)
	}()
	var o c14Obs
	select {
	case err := <-done:
		w.returned.Store(true)
		o.Returned = true
		o.Err = err != nil
		if err != nil {
			o.Detail = err.Error()
		}
	case <-time.After(3 * time.Second):
		o.Detail = "Encode did not return within 3s"
	}
	// the filter goroutine must be gone shortly after the return
	for i := 0; i < 40; i++ {
		if encoderGoroutines() == 0 {
			break
		}
		time.Sleep(5 * time.Millisecond)
	}
	o.Leak = encoderGoroutines() > 0 || w.late.Load() > 0
	if w.late.Load() > 0 {
		o.Detail += fmt.Sprintf(" [%d writes to the output began after Encode had returned]", w.late.Load())
	}
	o.Writes = w.writes
	o.Out = w.buf.Bytes()
	return o
}

func runC14(ctx *Ctx) error {
	ctx.ShardSize = 200
	var inputs []c14Input
	if raws, err := ctx.ReplayInputs(); err != nil {
		return err
	} else if raws != nil {
		for _, raw := range raws {
			var in c14Input
			if err := json.Unmarshal(raw, &in); err != nil {
				return err
			}
			inputs = append(inputs, in)
		}
	} else {
		docs := []c14Input{{Laps: 0}, {Laps: 1, Fixes: 0}, {Laps: 1, Fixes: 1}, {Laps: 2, Fixes: 2}, {Laps: 3, Fixes: 6, NoteLen: 3}, {Laps: 5, Fixes: 5, NoteLen: 500}}
		if ctx.Thorough() {
			for i := 0; i < 34; i++ {
				docs = append(docs, c14Input{Laps: ctx.R.Intn(6), Fixes: ctx.R.Intn(12), NoteLen: Pick(ctx.R, []int{0, 0, 1, 50, 900})})
			}
		}
		for _, d := range docs {
			for _, gz := range []bool{false, true} {
				d.Gz = gz
				d.K = -1
				inputs = append(inputs, d)
			}
		}
	}
	if ctx.Replay == "" {
		// documents whose own marshalling fails (at once / after several pipe buffers), output healthy or failing late
		for _, bd := range []int{1, 2} {
			for _, gz := range []bool{false, true} {
				for _, k := range []int{-1, 0, 1, 5, 30} {
					for _, laps := range []int{0, 3} {
						in := c14Input{Laps: laps, K: k, Gz: gz, BadDoc: bd, Yield: ctx.R.Bool()}
						o := c14Run(in, ctx.R.Fork())
						addC14Obs(ctx, in, o, 1000, nil)
					}
				}
			}
		}
	}
	for _, in := range inputs {
		if in.K != -1 || ctx.Replay != "" {
			addC14(ctx, in, nil)
			continue
		}
		// fault-free run: W and the reference output
		ref := c14Run(in, nil)
		addC14Obs(ctx, in, ref, ref.Writes, ref.Out)
		W := ref.Writes
		for k := 0; k <= W; k++ {
			if W > 80 && !(k < 12 || k > W-12 || k%11 == 0) && !ctx.Thorough() {
				continue
			}
			f := in
			f.K = k
			procs := []int{0}
			if ctx.Thorough() {
				procs = []int{1, 2, 16}
			}
			for _, pr := range procs {
				f.Procs = pr
				f.Yield = ctx.R.Chance(0.5)
				f.ErrKind = ctx.R.Intn(6)
				o := c14Run(f, ctx.R.Fork())
				addC14Obs(ctx, f, o, W, ref.Out)
			}
		}
	}
	return nil
}

func addC14(ctx *Ctx, in c14Input, _ []byte) {
	if in.BadDoc != 0 {
		addC14Obs(ctx, in, c14Run(in, ctx.R.Fork()), 1000, nil)
		return
	}
	free := in
	free.K = -1
	free.Procs, free.Yield = 0, false
	ref := c14Run(free, nil)
	o := c14Run(in, ctx.R.Fork())
	addC14Obs(ctx, in, o, ref.Writes, ref.Out)
}

func addC14Obs(ctx *Ctx, in c14Input, o c14Obs, W int, ref []byte) {
	complete := bytes.Equal(o.Out, ref)
	if in.Gz && complete {
		// a complete gzip stream of exactly the plain bytes
		zr, err := gzip.NewReader(bytes.NewReader(o.Out))
		if err != nil {
			complete = false
		} else if _, err := io.ReadAll(zr); err != nil {
			complete = false
		}
	}
	k := "None"
	if in.K >= 0 {
		k = fmt.Sprintf("(Some %d%%nat)", in.K)
	}
	if in.BadDoc != 0 {
		// the document itself cannot be encoded: the call must still return an error, in bounded time, leaving nothing behind
		k = "(Some 0%nat)"
	}
	coq := fmt.Sprintf("(mkCase %d%%nat %s %s %s %s %s %s)", W, k, CoqBool(in.Gz), CoqBool(o.Returned), CoqBool(o.Err), CoqBool(o.Leak), CoqBool(complete))
	b, _ := json.Marshal(in)
	ctx.Add(Case{Coq: coq, Input: in, Obs: map[string]any{"W": W, "returned": o.Returned, "err": o.Err, "leak": o.Leak, "writes": o.Writes, "complete": complete, "detail": o.Detail},
		Key: string(b), Trivial: false, Tags: []string{fmt.Sprintf("gz:%v", in.Gz), fmt.Sprintf("returned:%v", o.Returned), fmt.Sprintf("err:%v", o.Err), fmt.Sprintf("procs:%d", in.Procs), fmt.Sprintf("errkind:%d", in.ErrKind), fmt.Sprintf("baddoc:%d", in.BadDoc)}})
}
