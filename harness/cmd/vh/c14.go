package main

import (
	"bytes"
	"compress/gzip"
	"encoding/json"
	"errors"
	"fmt"
	"io"
	"runtime"
	"strings"
	"time"

	"github.com/stevenh/tracktools/pkg/laptimer"
)

func init() { runners["C14"] = runC14 }

type c14Input struct {
	Laps    int  `json:"laps"`
	Fixes   int  `json:"fixes"`
	NoteLen int  `json:"notelen"`
	K       int  `json:"k"` // -1: never fails
	Gz      bool `json:"gz"`
	Procs   int  `json:"procs"`
	Yield   bool `json:"yield"`
}

type countingWriter struct {
	buf    bytes.Buffer
	writes int
	failAt int
	yield  bool
	r      *Rng
}

var errSinkFail = errors.New("sink: write failed")

func (w *countingWriter) Write(p []byte) (int, error) {
	if w.yield {
		runtime.Gosched()
		if w.r != nil && w.r.Chance(0.05) {
			time.Sleep(50 * time.Microsecond)
		}
	}
	if w.failAt >= 0 && w.writes >= w.failAt {
		return 0, errSinkFail
	}
	w.writes++
	w.buf.Write(p)
	return len(p), nil
}

func c14DB(in c14Input) *laptimer.DB {
	db := laptimer.NewDB()
	for i := 0; i < in.Laps; i++ {
		lap := laptimer.Lap{ID: i, Track: "t", Note: strings.Repeat("note line\n", in.NoteLen)}
		for j := 0; j < in.Fixes; j++ {
			lap.Recording.Fixes = append(lap.Recording.Fixes, laptimer.Fix{ID: j, Speed: 12.3})
		}
		db.Laps = append(db.Laps, lap)
	}
	return db
}

type c14Obs struct {
	Returned bool
	Err      bool
	Leak     bool
	Writes   int
	Out      []byte
	Detail   string
}

// encoderGoroutines counts the goroutines that are running, or were started by, any code of the
// repository's laptimer package (whatever the functions are called): after Encode has returned
// there must be none.
func encoderGoroutines() int {
	buf := make([]byte, 4<<20)
	n := runtime.Stack(buf, true)
	c := 0
	for _, g := range strings.Split(string(buf[:n]), "\n\n") {
		if strings.Contains(g, "stevenh/tracktools/pkg/laptimer") {
			c++
		}
	}
	return c
}

func c14Run(in c14Input, r *Rng) c14Obs {
	if in.Procs > 0 {
		defer runtime.GOMAXPROCS(runtime.GOMAXPROCS(in.Procs))
	}
	w := &countingWriter{failAt: in.K, yield: in.Yield, r: r}
	db := c14DB(in)
	done := make(chan error, 1)
	go func() {
		var opts []laptimer.EncoderOpt
		if in.Gz {
			opts = append(opts, laptimer.Compress())
		}
		enc, err := laptimer.NewEncoder(w, opts...)
		if err != nil {
			done <- err
			return
		}
		done <- enc.Encode(db)
	}()
	var o c14Obs
	select {
	case err := <-done:
		o.Returned = true
		o.Err = err != nil
		if err != nil {
			o.Detail = err.Error()
		}
	case <-time.After(3 * time.Second):
		o.Detail = "Encode did not return within 3s"
	}
	// the filter goroutine must be gone shortly after the return
	for i := 0; i < 40; i++ {
		if encoderGoroutines() == 0 {
			break
		}
		time.Sleep(5 * time.Millisecond)
	}
	o.Leak = encoderGoroutines() > 0
	o.Writes = w.writes
	o.Out = w.buf.Bytes()
	return o
}

func runC14(ctx *Ctx) error {
	ctx.ShardSize = 200
	var inputs []c14Input
	if raws, err := ctx.ReplayInputs(); err != nil {
		return err
	} else if raws != nil {
		for _, raw := range raws {
			var in c14Input
			if err := json.Unmarshal(raw, &in); err != nil {
				return err
			}
			inputs = append(inputs, in)
		}
	} else {
		docs := []c14Input{{Laps: 0}, {Laps: 1, Fixes: 0}, {Laps: 1, Fixes: 1}, {Laps: 2, Fixes: 2}, {Laps: 3, Fixes: 6, NoteLen: 3}, {Laps: 5, Fixes: 5, NoteLen: 500}}
		if ctx.Thorough() {
			for i := 0; i < 34; i++ {
				docs = append(docs, c14Input{Laps: ctx.R.Intn(6), Fixes: ctx.R.Intn(12), NoteLen: Pick(ctx.R, []int{0, 0, 1, 50, 900})})
			}
		}
		for _, d := range docs {
			for _, gz := range []bool{false, true} {
				d.Gz = gz
				d.K = -1
				inputs = append(inputs, d)
			}
		}
	}
	for _, in := range inputs {
		if in.K != -1 || ctx.Replay != "" {
			addC14(ctx, in, nil)
			continue
		}
		// fault-free run: W and the reference output
		ref := c14Run(in, nil)
		addC14Obs(ctx, in, ref, ref.Writes, ref.Out)
		W := ref.Writes
		for k := 0; k <= W; k++ {
			if W > 80 && !(k < 12 || k > W-12 || k%11 == 0) && !ctx.Thorough() {
				continue
			}
			f := in
			f.K = k
			procs := []int{0}
			if ctx.Thorough() {
				procs = []int{1, 2, 16}
			}
			for _, pr := range procs {
				f.Procs = pr
				f.Yield = ctx.R.Chance(0.5)
				o := c14Run(f, ctx.R.Fork())
				addC14Obs(ctx, f, o, W, ref.Out)
			}
		}
	}
	return nil
}

func addC14(ctx *Ctx, in c14Input, _ []byte) {
	free := in
	free.K = -1
	free.Procs, free.Yield = 0, false
	ref := c14Run(free, nil)
	o := c14Run(in, ctx.R.Fork())
	addC14Obs(ctx, in, o, ref.Writes, ref.Out)
}

func addC14Obs(ctx *Ctx, in c14Input, o c14Obs, W int, ref []byte) {
	complete := bytes.Equal(o.Out, ref)
	if in.Gz && complete {
		// a complete gzip stream of exactly the plain bytes
		zr, err := gzip.NewReader(bytes.NewReader(o.Out))
		if err != nil {
			complete = false
		} else if _, err := io.ReadAll(zr); err != nil {
			complete = false
		}
	}
	k := "None"
	if in.K >= 0 {
		k = fmt.Sprintf("(Some %d%%nat)", in.K)
	}
	coq := fmt.Sprintf("(mkCase %d%%nat %s %s %s %s %s %s)", W, k, CoqBool(in.Gz), CoqBool(o.Returned), CoqBool(o.Err), CoqBool(o.Leak), CoqBool(complete))
	b, _ := json.Marshal(in)
	ctx.Add(Case{Coq: coq, Input: in, Obs: map[string]any{"W": W, "returned": o.Returned, "err": o.Err, "leak": o.Leak, "writes": o.Writes, "complete": complete, "detail": o.Detail},
		Key: string(b), Trivial: false, Tags: []string{fmt.Sprintf("gz:%v", in.Gz), fmt.Sprintf("returned:%v", o.Returned), fmt.Sprintf("err:%v", o.Err), fmt.Sprintf("procs:%d", in.Procs)}})
}
