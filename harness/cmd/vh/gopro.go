package main

import (
	"bytes"
	"encoding/json"
	"errors"
	"fmt"
	"io/fs"
	"path/filepath"
	"regexp"
	"sort"
	"strings"
	"sync"
	"testing/fstest"
	"time"

	"github.com/stevenh/tracktools/pkg/gopro"
)

func init() {
	runners["C04"] = runC04
	runners["C05"] = runC05
}

// ---------------------------------------------------------------- fault-injecting in-memory filesystem

var errInjected = errors.New("injected fault")

const (
	kCreateTemp = iota
	kWrite
	kClose
	kStat
	kEncoder
	kChtimes
)

type fakeFS struct {
	mu      sync.Mutex
	m       fstest.MapFS
	root    string
	plan    map[[2]int]bool
	counts  [6]int
	temps   int
	content map[string][]string // temp file -> lines written
}

func (f *fakeFS) fault(kind int) bool {
	n := f.counts[kind]
	f.counts[kind]++
	return f.plan[[2]int{kind, n}]
}

func (f *fakeFS) Open(name string) (fs.File, error) {
	f.mu.Lock()
	defer f.mu.Unlock()
	return f.m.Open(name)
}

func (f *fakeFS) Stat(name string) (fs.FileInfo, error) {
	f.mu.Lock()
	defer f.mu.Unlock()
	if name != f.root {
		if f.fault(kStat) {
			return nil, errInjected
		}
	}
	return f.m.Stat(name)
}

type fakeTemp struct {
	fs   *fakeFS
	name string
}

func (t *fakeTemp) Write(p []byte) (int, error) {
	t.fs.mu.Lock()
	defer t.fs.mu.Unlock()
	if t.fs.fault(kWrite) {
		return 0, errInjected
	}
	t.fs.content[t.name] = append(t.fs.content[t.name], strings.TrimSuffix(string(p), "\n"))
	return len(p), nil
}
func (t *fakeTemp) Close() error {
	t.fs.mu.Lock()
	defer t.fs.mu.Unlock()
	if t.fs.fault(kClose) {
		return errInjected
	}
	return nil
}
func (t *fakeTemp) Name() string { return t.name }

func (f *fakeFS) CreateTemp(dir, pattern string) (gopro.VerifTempFile, error) {
	f.mu.Lock()
	defer f.mu.Unlock()
	if f.fault(kCreateTemp) {
		return nil, errInjected
	}
	name := fmt.Sprintf("tmp/gopro-process-%03d", f.temps) // the pattern is the code's business
	f.temps++
	f.m[name] = &fstest.MapFile{ModTime: time.Unix(999999, 0)}
	return &fakeTemp{fs: f, name: name}, nil
}

func (f *fakeFS) Chtimes(name string, _ time.Time, mtime time.Time) error {
	f.mu.Lock()
	defer f.mu.Unlock()
	if f.fault(kChtimes) {
		return errInjected
	}
	e, ok := f.m[name]
	if !ok {
		return &fs.PathError{Op: "chtimes", Path: name, Err: fs.ErrNotExist}
	}
	e.ModTime = mtime
	return nil
}

func (f *fakeFS) Remove(name string) error {
	f.mu.Lock()
	defer f.mu.Unlock()
	if _, ok := f.m[name]; !ok {
		return &fs.PathError{Op: "remove", Path: name, Err: fs.ErrNotExist}
	}
	delete(f.m, name)
	return nil
}

// ---------------------------------------------------------------- one processor run

type tpart struct {
	Lit  string `json:"lit,omitempty"`
	Kind int    `json:"kind"` // 0 literal, 1 Name, 2 Ext
}

type goproInput struct {
	Source    string     `json:"source"`
	Args      []string   `json:"args"`
	Skip      []string   `json:"skip"`
	Tmpl      []tpart    `json:"tmpl"`
	OutDir    string     `json:"outdir"`
	Overwrite bool       `json:"overwrite"`
	Plan      [][2]int   `json:"plan"`
	Creates   bool       `json:"creates"`
	Listing   []string   `json:"listing"`  // paths relative to Source; a trailing "/" marks a directory
	Existing  []string   `json:"existing"` // other pre-existing paths (absolute within the fake fs)
	Kind      string     `json:"kind"`
	Match     string     `json:"match,omitempty"`    // MCase
	Chapters  []string   `json:"chapters,omitempty"` // VCase
	IsV       bool       `json:"isv,omitempty"`
}

func (in *goproInput) tmplString() string {
	var sb strings.Builder
	for _, p := range in.Tmpl {
		switch p.Kind {
		case 0:
			sb.WriteString(p.Lit)
		case 1:
			sb.WriteString("{{.Name}}")
		default:
			sb.WriteString("{{.Ext}}")
		}
	}
	return sb.String()
}

func joinClean(d, x string) string {
	if d == "." {
		return x
	}
	return d + "/" + x
}

type goproObs struct {
	Class  int
	Detail string
	Files  []string
	Events []encEvent
	Final  map[string]int64
	Order  []string
	World  map[string]int64
	Counts [6]int
}
type encEvent struct {
	Argv    []string
	Concat  []string
	Existed bool
}

// entryName splits a listing entry into its name and type: a trailing "/" marks a directory,
// "@" a symbolic link, "|" a named pipe (non-regular entries that are not directories).
func entryName(rel string) (string, fs.FileMode) {
	switch {
	case strings.HasSuffix(rel, "/"):
		return strings.TrimSuffix(rel, "/"), fs.ModeDir
	case strings.HasSuffix(rel, "@"):
		return strings.TrimSuffix(rel, "@"), fs.ModeSymlink
	case strings.HasSuffix(rel, "|"):
		return strings.TrimSuffix(rel, "|"), fs.ModeNamedPipe
	}
	return rel, 0
}

var procRe = regexp.MustCompile(`processing:&\{([^ ]*) `)

func runGopro(in *goproInput) goproObs {
	ffs := &fakeFS{m: fstest.MapFS{}, root: in.Source, plan: map[[2]int]bool{}, content: map[string][]string{}}
	for _, p := range in.Plan {
		ffs.plan[p] = true
	}
	world := map[string]int64{}
	mt := int64(1000)
	if in.Source != "." {
		ffs.m[in.Source] = &fstest.MapFile{Mode: fs.ModeDir}
	}
	for _, rel := range in.Listing {
		mt += 10
		name, mode := entryName(rel)
		if mode.IsDir() {
			ffs.m[joinClean(in.Source, name)] = &fstest.MapFile{Mode: fs.ModeDir}
			continue
		}
		p := joinClean(in.Source, name)
		ffs.m[p] = &fstest.MapFile{ModTime: time.Unix(mt, 0), Mode: mode}
		world[p] = mt
	}
	for _, p := range in.Existing {
		mt += 10
		ffs.m[p] = &fstest.MapFile{ModTime: time.Unix(mt, 0)}
		world[p] = mt
	}
	obs := goproObs{World: world}
	restore := gopro.SetVerifFS(ffs)
	defer restore()

	var logbuf bytes.Buffer
	cfg := gopro.Config{LogLevel: "debug", SourceDir: in.Source, Binary: "ffmpeg", Args: append([]string{}, in.Args...), SkipNames: in.Skip,
		OutputTemplate: in.tmplString(), OutputDir: in.OutDir, Overwrite: in.Overwrite}
	handler := func(exe string, args ...string) error {
		ffs.mu.Lock()
		defer ffs.mu.Unlock()
		ev := encEvent{Argv: append([]string{}, args...)}
		out := args[len(args)-1]
		_, ev.Existed = ffs.m[out]
		for _, a := range args {
			if c, ok := ffs.content[a]; ok {
				ev.Concat = append([]string{}, c...)
			}
		}
		obs.Events = append(obs.Events, ev)
		if ffs.fault(kEncoder) {
			return errInjected
		}
		if in.Creates {
			ffs.m[out] = &fstest.MapFile{ModTime: time.Unix(999999, 0)}
		}
		return nil
	}
	var files []string
	var err error
	var cfgErr error
	done := make(chan struct{})
	var panicked bool
	var msg string
	go func() {
		defer close(done)
		panicked, msg = Guard(func() {
			p, e := gopro.NewProcessor(gopro.Cfg(cfg), gopro.Handler(handler), gopro.Output(&logbuf))
			if e != nil {
				cfgErr = e
				return
			}
			files, err = p.Process()
		})
	}()
	select {
	case <-done:
	case <-time.After(20 * time.Second):
		obs.Class = 3
		return obs
	}
	for _, m := range procRe.FindAllStringSubmatch(logbuf.String(), -1) {
		obs.Order = append(obs.Order, m[1])
	}
	obs.Files = files
	obs.Final = map[string]int64{}
	for p, e := range ffs.m {
		if e.Mode.IsDir() {
			continue
		}
		obs.Final[p] = e.ModTime.Unix()
	}
	obs.Counts = ffs.counts
	switch {
	case panicked:
		obs.Class, obs.Detail = 2, msg
	case cfgErr != nil:
		obs.Class, obs.Detail = 5, cfgErr.Error()
	case errors.Is(err, gopro.ErrNoFiles):
		obs.Class = 4
	case err != nil:
		obs.Class, obs.Detail = 1, err.Error()
	}
	return obs
}

func coqStrList(xs []string) string {
	ys := make([]string, len(xs))
	for i, x := range xs {
		ys[i] = CoqStr(x)
	}
	return zlist(ys)
}

func coqWorld(w map[string]int64) string {
	keys := make([]string, 0, len(w))
	for k := range w {
		keys = append(keys, k)
	}
	sort.Strings(keys)
	xs := make([]string, len(keys))
	for i, k := range keys {
		xs[i] = fmt.Sprintf("(%s, %s)", CoqStr(k), CoqZ(w[k]))
	}
	return zlist(xs)
}

func addGoproCase(ctx *Ctx, in *goproInput, tags ...string) goproObs {
	if in.Match != "" || in.IsV {
		return addGoproSmall(ctx, in)
	}
	o := runGopro(in)
	tm := make([]string, len(in.Tmpl))
	for i, p := range in.Tmpl {
		switch p.Kind {
		case 0:
			tm[i] = "(BLit " + CoqStr(p.Lit) + ")"
		case 1:
			tm[i] = "BName"
		default:
			tm[i] = "BExt"
		}
	}
	plan := make([]string, len(in.Plan))
	for i, p := range in.Plan {
		plan[i] = fmt.Sprintf("(%d%%nat, %d%%nat)", p[0], p[1])
	}
	// listing in WalkDir (lexical) order, with directory flags; entries inside sub-directories included
	lst := append([]string{}, in.Listing...)
	sort.Slice(lst, func(i, j int) bool { a, _ := entryName(lst[i]); b, _ := entryName(lst[j]); return a < b })
	ls := make([]string, len(lst))
	for i, rel := range lst {
		name, mode := entryName(rel)
		// symbolic links and pipes are "other names": to the property they are files like any other
		ls[i] = fmt.Sprintf("(%s, %s)", CoqStr(name), CoqBool(mode.IsDir()))
	}
	evs := make([]string, len(o.Events))
	for i, e := range o.Events {
		evs[i] = fmt.Sprintf("(%s, %s, %s)", coqStrList(e.Argv), coqStrList(e.Concat), CoqBool(e.Existed))
	}
	coq := fmt.Sprintf("(PCase (mkP %s %s %s %s %s %s %s %s %s %s %s %s %s %s %s))", CoqStr(in.Source), coqStrList(in.Args), coqStrList(in.Skip), zlist(tm),
		CoqStr(in.OutDir), CoqBool(in.Overwrite), zlist(plan), CoqBool(in.Creates), zlist(ls), coqWorld(o.World), coqStrList(o.Order),
		CoqNat(o.Class), coqStrList(o.Files), zlist(evs), coqWorld(o.Final))
	b, _ := json.Marshal(in)
	ctx.Add(Case{Coq: coq, Input: in, Obs: map[string]any{"class": o.Class, "detail": o.Detail, "files": o.Files, "events": len(o.Events), "order": o.Order},
		Key: string(b), Trivial: len(in.Listing) == 0,
		Tags: append([]string{"kind:" + in.Kind, fmt.Sprintf("class:%d", o.Class), fmt.Sprintf("encoder-runs:%d", len(o.Events)), fmt.Sprintf("faults:%d", len(in.Plan))}, tags...)})
	return o
}

func addGoproSmall(ctx *Ctx, in *goproInput) goproObs {
	if in.IsV {
		fsl := make(gopro.FileSlice, len(in.Chapters))
		for i, c := range in.Chapters {
			fsl[i] = gopro.File{Chapter: c}
		}
		var err error
		if len(fsl) > 0 {
			err = fsl.Validate()
		} else {
			err = errors.New("empty")
		}
		ctx.Add(Case{Coq: fmt.Sprintf("(VCase %s %s)", coqStrList(in.Chapters), CoqBool(err == nil)), Input: in, Obs: map[string]any{"valid": err == nil},
			Key: "V" + strings.Join(in.Chapters, ","), Tags: []string{"kind:validate"}})
		return goproObs{}
	}
	res := func(m *gopro.Matcher) string {
		f, err := m.Match(in.Match)
		if err != nil {
			return "None"
		}
		return fmt.Sprintf("(Some (%s, %s))", CoqStr(f.Index), CoqStr(f.Chapter))
	}
	r5, r10 := res(gopro.Hero5), res(gopro.Hero10)
	ctx.Add(Case{Coq: fmt.Sprintf("(MCase %s %s %s)", CoqStr(in.Match), r5, r10), Input: in, Obs: map[string]any{"hero5": r5 != "None", "hero10": r10 != "None"},
		Key: "M" + in.Match, Tags: []string{"kind:match"}})
	return goproObs{}
}

func replayGopro(ctx *Ctx) (bool, error) {
	raws, err := ctx.ReplayInputs()
	if err != nil || raws == nil {
		return false, err
	}
	for _, raw := range raws {
		var in goproInput
		if err := json.Unmarshal(raw, &in); err != nil {
			return true, err
		}
		addGoproCase(ctx, &in)
	}
	return true, nil
}

// ---------------------------------------------------------------- generators

var nameUniverse = []string{"GOPR0001.mp4", "GP010001.mp4", "GP020001.mp4", "GP030001.mp4", "GH010002.mp4", "GH020002.mp4", "GX010002.mp4",
	"GX010003.mp4", "GX020003.mp4", "GX040003.mp4", "gopr0004.MP4", "gp010004.Mp4", "GH000005.mp4", "GH010005.mp4", "GH020005.mp4",
	"GP010001xmp4", "GH01001.mp4", "xGH010002.mp4", "GH010002.mp4x", "GOPR001.mp4", "GP0100001.mp4", "GX990006.mp4", "notes.txt", "GH030007.mp4",
	"GOPR0008.mp4", "GH010002.MP4", "Gx020002.mp4"}

var defaultArgs = []string{"-y", "-safe", "0", "-f", "concat", "-i", "", "-c:a", "copy"}

func genGoproCfg(r *Rng, in *goproInput) {
	in.Source = Pick(r, []string{".", "src", "src", "a/b"})
	switch r.Intn(6) {
	case 0:
		in.Args = []string{"-i", ""}
	case 1:
		in.Args = []string{"-x", "", "-f", "concat", "-i", "", "-c"}
	case 2:
		in.Args = []string{"", "-i", "x", "-i", "", "-i", ""}
	default:
		in.Args = append([]string{}, defaultArgs...)
	}
	in.Tmpl = Pick(r, [][]tpart{{{Kind: 1}, {Lit: "-JOINED"}, {Kind: 2}}, {{Kind: 1}, {Kind: 2}}, {{Lit: "out-"}, {Kind: 1}, {Lit: ".mkv"}}, {{Kind: 1}, {Lit: "-JOINED"}, {Kind: 2}}})
	in.OutDir = Pick(r, []string{"", "", ".", "out", "src"})
	in.Overwrite = r.Chance(0.4)
	in.Creates = r.Chance(0.85)
}

var validGroups = [][]string{{"GOPR0001.mp4", "GP010001.mp4", "GP020001.mp4"}, {"GH010002.mp4", "GH020002.mp4"}, {"GX010003.mp4", "GX020003.mp4"},
	{"GOPR0008.mp4"}, {"gopr0004.MP4", "gp010004.Mp4"}, {"GH000005.mp4", "GH010005.mp4", "GH020005.mp4"}, {"GH010011.mp4"}, {"GX010012.mp4", "GX020012.mp4", "GX030012.mp4"}}

func genListing(r *Rng, in *goproInput) {
	if r.Chance(0.6) {
		// mostly joinable groups plus a few near misses; sometimes one broken group
		for _, g := range validGroups {
			if r.Chance(0.35) {
				in.Listing = append(in.Listing, g...)
			}
		}
		for _, nm := range []string{"GP010001xmp4", "GH01001.mp4", "xGH010002.mp4", "GH010002.mp4x", "notes.txt", "GOPR001.mp4"} {
			if r.Chance(0.2) {
				in.Listing = append(in.Listing, nm)
			}
		}
		if r.Chance(0.25) {
			in.Listing = append(in.Listing, Pick(r, []string{"GX040003.mp4", "GX010002.mp4", "GH030007.mp4", "GH990013.mp4", "Gx020002.mp4", "GH010002.MP4"}))
		}
	} else {
		n := r.Intn(9)
		p := r.Perm(len(nameUniverse))
		for _, i := range p[:n] {
			in.Listing = append(in.Listing, nameUniverse[i])
		}
	}
	if r.Chance(0.15) {
		// one video number in both naming conventions (two cameras, or a renamed file): still ONE group per number
		n := 20 + r.Intn(5)
		mixed := [][]string{
			{fmt.Sprintf("GOPR%04d.mp4", n), fmt.Sprintf("GH01%04d.mp4", n)},
			{fmt.Sprintf("GOPR%04d.mp4", n), fmt.Sprintf("GX01%04d.mp4", n), fmt.Sprintf("GP02%04d.mp4", n)},
			{fmt.Sprintf("GH01%04d.mp4", n), fmt.Sprintf("GP02%04d.mp4", n)},
			{fmt.Sprintf("GOPR%04d.mp4", n), fmt.Sprintf("GX02%04d.mp4", n)}, // gap: chapter 01 missing
			{fmt.Sprintf("GH01%04d.mp4", n), fmt.Sprintf("GX01%04d.mp4", n)}, // duplicate chapter
		}
		in.Listing = append(in.Listing, Pick(r, mixed)...)
	}
	// no duplicates
	seenL := map[string]bool{}
	var ded []string
	for _, x := range in.Listing {
		if !seenL[x] {
			seenL[x] = true
			ded = append(ded, x)
		}
	}
	in.Listing = ded
	if r.Chance(0.3) {
		in.Listing = append(in.Listing, "sub/", "sub/"+Pick(r, []string{"GOPR0009.mp4", "GP010001.mp4", "GH020002.mp4", "GX030003.mp4"}))
	}
	if r.Chance(0.1) {
		in.Listing = append(in.Listing, "GH010010.mp4/") // a directory with a conforming name
	}
	if r.Chance(0.12) {
		// a non-regular entry that is not a directory, somewhere in the lexical order
		in.Listing = append(in.Listing, Pick(r, []string{"AAA-link@", "GH010000-notes@", "GOPR-fifo|", "Gmiddle.txt@", "GX015000.lnk|", "zzz@"}))
	}
	// skip list and pre-existing outputs
	if r.Chance(0.3) && len(in.Listing) > 0 {
		n, _ := entryName(Pick(r, in.Listing))
		in.Skip = []string{n}
	}
}

func outputFor(in *goproInput, first string) string {
	ext := filepath.Ext(first)
	name := strings.TrimSuffix(first, ext)
	var sb strings.Builder
	for _, p := range in.Tmpl {
		switch p.Kind {
		case 0:
			sb.WriteString(p.Lit)
		case 1:
			sb.WriteString(name)
		default:
			sb.WriteString(ext)
		}
	}
	switch in.OutDir {
	case ".":
		return sb.String()
	case "":
		return joinClean(in.Source, sb.String())
	default:
		return joinClean(in.OutDir, sb.String())
	}
}

func addExisting(r *Rng, in *goproInput) {
	for _, n := range in.Listing {
		if _, mode := entryName(n); mode != 0 || strings.Contains(n, "/") {
			continue
		}
		if r.Chance(0.15) {
			o := outputFor(in, n)
			dup := false
			for _, l := range in.Listing {
				if joinClean(in.Source, l) == o {
					dup = true
				}
			}
			for _, e := range in.Existing {
				if e == o {
					dup = true
				}
			}
			if !dup {
				in.Existing = append(in.Existing, o)
			}
		}
	}
}

func runC04(ctx *Ctx) error {
	ctx.ShardSize = 150
	ctx.Imports = []string{"Run.Gopro_run"}
	if done, err := replayGopro(ctx); done || err != nil {
		return err
	}
	r := ctx.R
	// matcher on every universe name and on mutations of them
	seen := map[string]bool{}
	for _, n := range nameUniverse {
		for k := 0; k < 6; k++ {
			m := n
			if k > 0 {
				b := []byte(n)
				i := r.Intn(len(b))
				b[i] = Pick(r, []byte("0123456789GHXPOR.mp4xgh_ "))
				m = string(b)
				if k == 5 {
					m = strings.ToLower(n)
				}
			}
			if !seen[m] {
				seen[m] = true
				addGoproCase(ctx, &goproInput{Match: m, Kind: "match"})
			}
		}
	}
	// Validate on chapter lists
	for i := 0; i < ctx.N(120, 1500); i++ {
		n := 1 + r.Intn(5)
		start := Pick(r, []int{0, 1, 1, 0, 2})
		var ch []string
		for j := 0; j < n; j++ {
			v := start + j
			if r.Chance(0.12) {
				v += 1 + r.Intn(2)
			}
			if r.Chance(0.1) && j > 0 {
				v = start + j - 1
			}
			ch = append(ch, fmt.Sprintf("%02d", v))
		}
		sort.Strings(ch)
		addGoproCase(ctx, &goproInput{IsV: true, Chapters: ch, Kind: "validate"})
	}
	for i := 0; i < ctx.N(400, 6000); i++ {
		in := &goproInput{Kind: "listing"}
		genGoproCfg(r, in)
		genListing(r, in)
		addExisting(r, in)
		// run several times so that different map iteration orders are seen
		for rep := 0; rep < 2; rep++ {
			addGoproCase(ctx, in, fmt.Sprintf("rep:%d", rep))
		}
	}
	return nil
}

func runC05(ctx *Ctx) error {
	ctx.ShardSize = 150
	ctx.Imports = []string{"Run.Gopro_run"}
	if done, err := replayGopro(ctx); done || err != nil {
		return err
	}
	r := ctx.R
	for i := 0; i < ctx.N(45, 500); i++ {
		in := &goproInput{Kind: "fault-free"}
		genGoproCfg(r, in)
		// mostly valid groups so that the interesting operations happen
		in.Listing = nil
		groups := [][]string{{"GOPR0001.mp4", "GP010001.mp4", "GP020001.mp4"}, {"GH010002.mp4", "GH020002.mp4"}, {"GX010003.mp4"}, {"GOPR0008.mp4"}, {"GH010005.mp4", "GH030005.mp4"}, {"gopr0004.MP4", "gp010004.Mp4"}}
		for _, g := range groups {
			if r.Chance(0.5) {
				in.Listing = append(in.Listing, g...)
			}
		}
		if r.Chance(0.3) {
			in.Skip = []string{Pick(r, []string{"GOPR0001.mp4", "GH010002.mp4", "GP010001.mp4"})}
		}
		if r.Chance(0.15) {
			in.Listing = append(in.Listing, "sub/", "sub/GOPR0009.mp4")
		}
		addExisting(r, in)
		if r.Chance(0.15) {
			// output template that maps onto a source file
			in.Tmpl = []tpart{{Kind: 1}, {Kind: 2}}
			in.OutDir = ""
		}
		base := addGoproCase(ctx, in)
		// every single fault at every position of the fault-free run
		for kind := 0; kind < 6; kind++ {
			for n := 0; n < base.Counts[kind]; n++ {
				f := *in
				f.Kind = "single-fault"
				f.Plan = [][2]int{{kind, n}}
				addGoproCase(ctx, &f, fmt.Sprintf("faultkind:%d", kind))
			}
		}
		// a few double faults
		for k := 0; k < 3; k++ {
			f := *in
			f.Kind = "double-fault"
			f.Plan = [][2]int{{r.Intn(6), r.Intn(3)}, {r.Intn(6), r.Intn(4)}}
			addGoproCase(ctx, &f)
		}
	}
	return nil
}
