package main

import (
	"encoding/json"
	"fmt"
	"os"
	"time"

	"github.com/stevenh/tracktools/pkg/laptimer"
)

func init() {
	runners["C01corpus"] = func(ctx *Ctx) error {
		// writes the witness of the known finding D22 (and of the repaired D1) as replay inputs
		d22 := laptimer.NewDB()
		d22.Laps = []laptimer.Lap{{ID: 1, Date: laptimer.LapDate(time.Date(2022, 5, 31, 10, 0, 0, 0, time.UTC)), AmbientTemp: 0.04, Track: "t"}}
		d1 := laptimer.NewDB()
		d1.Laps = []laptimer.Lap{{ID: 2, Date: laptimer.LapDate(time.Date(2022, 5, 31, 10, 0, 0, 0, time.UTC)), Track: `say "hi" & <go>`, Note: "it's\ttabbed\nand lined"}}
		f, err := os.Create(os.Getenv("VERIF_ROOT") + "/corpus/C01/cases.jsonl")
		if err != nil {
			return err
		}
		defer f.Close()
		for _, db := range []*laptimer.DB{d22, d1} {
			b, _ := json.Marshal(map[string]any{"input": dbToJSON(db)})
			fmt.Fprintln(f, string(b))
		}
		os.Exit(0)
		return nil
	}
}
