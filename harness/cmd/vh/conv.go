package main

import (
	_ "time/tzdata"
	"math"
	"encoding/json"
	"fmt"
	"strings"
	"time"

	"github.com/stevenh/tracktools/pkg/convert"
	"github.com/stevenh/tracktools/pkg/laptimer"
	"github.com/stevenh/tracktools/pkg/trackaddict"
	"github.com/tidwall/geodesic"
	"gonum.org/v1/gonum/interp"
)

func init() {
	runners["C03"] = runC03
	runners["C11"] = runC11
	runners["C12"] = runC12
}

// ---------------------------------------------------------------- JSON-able session description

type jOBD struct {
	Update                                           bool
	Speed, RPM, Throttle, Coolant, Intake, Manifold *float64
}
type jRec struct {
	NowMs   int64
	TimeMs  int64 // unix ms
	ZoneMin int   // location offset in minutes (0 = UTC)
	Upd     bool
	Lat     float64
	Lon     float64
	Alt     float64
	Acc     float64
	Head    float64
	Speed   float64
	Accel   *[3]float64
	OBD     *jOBD
}
type jLap struct {
	Number int
	DurMs  int64
	Recs   []jRec
}
type convInput struct {
	Laps      []jLap
	Vehicle   string
	Track     string
	OVehicle  string
	Tags      []string
	Note      string
	Diff      int
	PosFix    int
	StartDate string // "" or YYYY-MM-DD or RFC3339 (any zone offset, any time of day)
	Predict   int    // 0 nil, 1 linear, 2.. other gonum predictors (see newPredictor)
	Kind      string
	Warm      *convInput `json:",omitempty"` // a session converted first with the SAME converter value (history)
}

// zoneOf: minutes east of UTC, or (from 9990 up) a named location with daylight saving rules
func zoneOf(code int) *time.Location {
	names := map[int]string{9999: "Europe/London", 9998: "America/New_York", 9997: "Australia/Lord_Howe", 9996: "America/Santiago"}
	if n, ok := names[code]; ok {
		if l, err := time.LoadLocation(n); err == nil {
			return l
		}
		return time.UTC
	}
	return time.FixedZone("Z", code*60)
}

func (in *convInput) startTime() (time.Time, bool) {
	if in.StartDate == "" {
		return time.Time{}, false
	}
	if t, err := time.Parse("2006-01-02", in.StartDate); err == nil {
		return t, true
	}
	t, err := time.Parse(time.RFC3339, in.StartDate)
	if err != nil {
		panic("bad start date " + in.StartDate)
	}
	return t, true
}

func newPredictor(k int) interp.FittablePredictor {
	switch k {
	case 1:
		return &interp.PiecewiseLinear{}
	case 2:
		return &interp.AkimaSpline{}
	case 3:
		return &interp.FritschButland{}
	case 4:
		return &interp.NaturalCubic{}
	case 5:
		return &interp.PiecewiseConstant{}
	case 6:
		return &interp.NotAKnotCubic{}
	}
	return nil
}

// predictorOracle: what Session.PredictOBD is specified to compute for a non-default predictor,
// from the harness's own pass over the rows: the knots, every channel's fresh readings, every
// query x, and for each (channel, query) the value of a FRESH predictor fitted on that channel.
func (in *convInput) predictorOracle() (string, bool) {
	if in.Predict < 2 {
		return "[]", true
	}
	var start time.Time
	var xs []float64
	var ys [][]float64
	var queries []float64
	s := in.session()
	for _, l := range s.Laps {
		for _, r := range l.Records {
			switch {
			case r.OBD != nil && r.OBD.Update:
				if start.IsZero() {
					start = r.Time
					xs = append(xs, 0)
				} else {
					xs = append(xs, r.Time.Sub(start).Seconds())
				}
				var vals []float64
				for _, p := range []*float64{r.OBD.Speed, r.OBD.EngineSpeed, r.OBD.Throttle, r.OBD.CoolantTemp, r.OBD.IntakeTemp, r.OBD.ManifoldPressure} {
					if p != nil {
						vals = append(vals, *p)
					}
				}
				if ys == nil {
					ys = make([][]float64, len(vals))
				}
				for i, v := range vals {
					if i < len(ys) {
						ys[i] = append(ys[i], v)
					}
				}
			case r.GPS.Update && r.OBD != nil:
				queries = append(queries, r.Time.Sub(start).Seconds())
			}
		}
	}
	if len(queries) == 0 || len(xs) < 2 {
		return "[]", true
	}
	var rows []string
	for _, y := range ys {
		if len(y) != len(xs) {
			return "[]", false
		}
		var vals []float64
		_, _ = Guard(func() {
			p := newPredictor(in.Predict)
			if p.Fit(xs, y) != nil {
				return
			}
			for _, q := range queries {
				vals = append(vals, p.Predict(q))
			}
		})
		if len(vals) != len(queries) {
			// this predictor cannot be fitted on this series (e.g. too few points): not "fittable" here
			return "[]", false
		}
		yl := make([]string, len(y))
		for i, v := range y {
			yl[i] = CoqF64(v)
		}
		for i, q := range queries {
			rows = append(rows, fmt.Sprintf("(%s, %s, %s)", zlist(yl), CoqF64(q), CoqF64(vals[i])))
		}
	}
	return zlist(rows), true
}

func (in *convInput) session() *trackaddict.Session {
	s := trackaddict.NewSession()
	s.Vehicle = in.Vehicle
	for _, jl := range in.Laps {
		l := &trackaddict.Lap{Number: jl.Number, Duration: time.Duration(jl.DurMs) * time.Millisecond}
		for _, jr := range jl.Recs {
			loc := time.UTC
			if jr.ZoneMin != 0 {
				loc = zoneOf(jr.ZoneMin)
			}
			r := trackaddict.Record{
				Now:   time.Duration(jr.NowMs) * time.Millisecond,
				Time:  time.UnixMilli(jr.TimeMs).In(loc),
				Speed: jr.Speed,
				GPS:   trackaddict.GPS{Update: jr.Upd, Latitude: jr.Lat, Longitude: jr.Lon, Altitude: jr.Alt, Accuracy: jr.Acc, Heading: jr.Head},
			}
			if jr.Accel != nil {
				r.Accel = &trackaddict.Acceleration{X: jr.Accel[0], Y: jr.Accel[1], Z: jr.Accel[2]}
			}
			if jr.OBD != nil {
				cp := func(p *float64) *float64 {
					if p == nil {
						return nil
					}
					v := *p
					return &v
				}
				r.OBD = &trackaddict.OBD{Update: jr.OBD.Update, Speed: cp(jr.OBD.Speed), EngineSpeed: cp(jr.OBD.RPM), Throttle: cp(jr.OBD.Throttle),
					CoolantTemp: cp(jr.OBD.Coolant), IntakeTemp: cp(jr.OBD.Intake), ManifoldPressure: cp(jr.OBD.Manifold)}
			}
			l.Records = append(l.Records, r)
		}
		s.Laps = append(s.Laps, l)
	}
	return s
}

func (in *convInput) options() []convert.Option {
	o := []convert.Option{convert.TrackOpt(in.Track), convert.VehicleOpt(in.OVehicle), convert.TagsOpt(in.Tags...), convert.NoteOpt(in.Note),
		convert.DifferentialOpt(laptimer.DifferentialStatus(in.Diff)), convert.PositionOpt(laptimer.PositionFixing(in.PosFix))}
	if t, ok := in.startTime(); ok {
		o = append(o, convert.StartDateOpt(t))
	}
	if in.Predict == 0 {
		o = append(o, convert.PredictorOpt(nil))
	} else {
		o = append(o, convert.PredictorOpt(newPredictor(in.Predict)))
	}
	return o
}

// geodOracle: WGS-84 distances between successive fix positions of each converted lap
// (first row, then every GPS-updated row), computed by the harness's own calls.
// geodSanity: every oracle distance must agree with the great-circle distance on the mean sphere
// to 1 % + 1 m (the ellipsoid differs from it by at most 0.6 %): a WGS-84 "distance" outside that
// is not the geodesic distance the property speaks about.  k45: some converted fix has a latitude
// of exactly 45 + 180k degrees, the class of known finding D24 (pinned geodesic dependency).
func (in *convInput) geodSanity() (sane bool, k45 bool) {
	sane = true
	if len(in.Laps) < 3 {
		return
	}
	for _, jl := range in.Laps[1 : len(in.Laps)-1] {
		if len(jl.Recs) == 0 {
			continue
		}
		last := jl.Recs[0]
		for _, r := range jl.Recs[1:] {
			if !r.Upd {
				continue
			}
			var d float64
			geodesic.WGS84.Inverse(last.Lat, last.Lon, r.Lat, r.Lon, &d, nil, nil)
			sph := vangle(toVec(last.Lat, last.Lon), toVec(r.Lat, r.Lon)) * 6371008.8
			if !(math.Abs(d-sph) <= 0.01*sph+1) {
				sane = false
			}
			if sincos45(last.Lat, r.Lat) {
				k45 = true
			}
			last = r
		}
	}
	return
}

func (in *convInput) geodOracle() string {
	if len(in.Laps) < 3 {
		return "[]"
	}
	var laps []string
	for _, jl := range in.Laps[1 : len(in.Laps)-1] {
		var ds []string
		if len(jl.Recs) > 0 {
			last := jl.Recs[0]
			for _, r := range jl.Recs[1:] {
				if !r.Upd {
					continue
				}
				var d float64
				geodesic.WGS84.Inverse(last.Lat, last.Lon, r.Lat, r.Lon, &d, nil, nil)
				ds = append(ds, CoqF64(d))
				last = r
			}
		}
		laps = append(laps, zlist(ds))
	}
	return zlist(laps)
}

func coqOptF(p *float64) string {
	if p == nil {
		return "None"
	}
	return "(Some " + CoqF64(*p) + ")"
}

func (in *convInput) coqLaps() string {
	var laps []string
	for _, jl := range in.Laps {
		var recs []string
		for _, jr := range jl.Recs {
			gps := fmt.Sprintf("(mkGps %s 0%%Z %s %s %s %s %s)", CoqBool(jr.Upd), CoqF64(jr.Lat), CoqF64(jr.Lon), CoqF64(jr.Alt), CoqF64(jr.Acc), CoqF64(jr.Head))
			acc := "None"
			if jr.Accel != nil {
				acc = fmt.Sprintf("(Some (mkAccel %s %s %s))", CoqF64(jr.Accel[0]), CoqF64(jr.Accel[1]), CoqF64(jr.Accel[2]))
			}
			obd := "None"
			if jr.OBD != nil {
				o := jr.OBD
				obd = fmt.Sprintf("(Some (mkObd %s %s %s %s %s %s %s))", CoqBool(o.Update), coqOptF(o.Speed), coqOptF(o.RPM), coqOptF(o.Throttle), coqOptF(o.Coolant), coqOptF(o.Intake), coqOptF(o.Manifold))
			}
			recs = append(recs, fmt.Sprintf("(mkRecord %s %s 0%%Z 0%%Z 0%%Z %s %s %s false 0%%Z 0%%Z %s)", CoqZ(jr.NowMs*1e6), CoqZ(jr.TimeMs*1e6), gps, CoqF64(jr.Speed), acc, obd))
		}
		laps = append(laps, fmt.Sprintf("(mkLap %s %s %s)", CoqZ(jl.DurMs*1e6), CoqZ(int64(jl.Number)), zlist(recs)))
	}
	return zlist(laps)
}

func (in *convInput) coqOpts() string {
	tags := make([]string, len(in.Tags))
	for i, t := range in.Tags {
		tags[i] = CoqStr(t)
	}
	start := "None"
	if t, ok := in.startTime(); ok {
		start = "(Some " + CoqZ(t.UnixNano()) + ")"
	}
	return fmt.Sprintf("(mkCOpts %s %s %s %s %d%%Z %d%%Z %s %s)", CoqStr(in.Track), CoqStr(in.OVehicle), zlist(tags), CoqStr(in.Note), in.Diff, in.PosFix, start, CoqNat(in.Predict))
}

func optFp[T ~float64](p *T) string {
	if p == nil {
		return "None"
	}
	return "(Some " + CoqF64(float64(*p)) + ")"
}

func dumpDB(db *laptimer.DB) string {
	var laps []string
	for _, l := range db.Laps {
		var fixes []string
		for _, f := range l.Recording.Fixes {
			acc := "None"
			if a := f.Acceleration; a != nil {
				acc = fmt.Sprintf("(Some (mkAccelOut %d%%Z %s %s %s %s))", a.Source, CoqF64(float64(a.Lateral)), CoqF64(float64(a.Lineal)), CoqF64(a.Coordinate.Latitude), CoqF64(a.Coordinate.Longitude))
			}
			obd := "None"
			if o := f.OBD; o != nil {
				rpm := "None"
				if o.EngineRPM != nil {
					rpm = "(Some " + CoqZ(int64(*o.EngineRPM)) + ")"
				}
				obd = fmt.Sprintf("(Some (mkObdOut %s %s %s %s %s %s))", rpm, optFp(o.ManifoldAbsolutePressure), optFp(o.VehicleSpeed), optFp(o.Throttle), optFp(o.CoolantTemp), optFp(o.IntakeAirTemperature))
			}
			fixes = append(fixes, fmt.Sprintf("(mkFix %s %s %s %s %s %s %d%%Z %d%%Z %s %d%%Z %s %s %s %s %s %s %s)", CoqZ(int64(f.ID)), CoqZ(time.Time(f.Date).UnixNano()),
				CoqF64(f.Coordinate.Latitude), CoqF64(f.Coordinate.Longitude), CoqF64(f.Coordinate.Altitude), CoqF64(float64(f.Speed)),
				int(f.Positioning.DifferentialStatus), int(f.Positioning.PositionFixing), CoqBool(f.Positioning.Interpolated), f.Satellites,
				CoqF64(float64(f.Direction)), CoqF64(float64(f.Hdop)), CoqF64(float64(f.Accuracy)), CoqF64(f.RelativeToStart.Distance),
				CoqZ(int64(f.RelativeToStart.Offset)), acc, obd))
		}
		date := "None"
		if !time.Time(l.Date).IsZero() {
			date = "(Some " + CoqZ(time.Time(l.Date).UnixNano()) + ")"
		}
		tags := make([]string, len(l.Tags))
		for i, t := range l.Tags {
			tags[i] = "(s_of_bytes " + CoqStr(t) + ")"
		}
		laps = append(laps, fmt.Sprintf("(mkLLap %s %s %s (s_of_bytes %s) (s_of_bytes %s) %s (s_of_bytes %s) %d%%Z %s %s)", CoqZ(int64(l.ID)), date, CoqZ(int64(l.LapTime)),
			CoqStr(l.Vehicle), CoqStr(l.Track), zlist(tags), CoqStr(l.Note), int(l.LapRecordingType), CoqF64(float64(l.OverallDistance)), zlist(fixes)))
	}
	return zlist(laps)
}

func runConvert(in *convInput) (class int, detail string, db *laptimer.DB) {
	var err error
	done := make(chan struct{})
	var panicked bool
	var msg string
	go func() {
		defer close(done)
		panicked, msg = Guard(func() {
			ta, e := convert.NewTrackAddict(in.options()...)
			if e != nil {
				err = e
				return
			}
			if in.Warm != nil {
				// history: the same converter value has already converted another session (whatever
				// became of that conversion - an unfittable predictor panics inside gonum - is not this case's business)
				func() {
					defer func() { _ = recover() }()
					_, _ = ta.LapTimer(in.Warm.session())
				}()
			}
			db, err = ta.LapTimer(in.session())
		})
	}()
	select {
	case <-done:
	case <-time.After(20 * time.Second):
		return 3, "timeout", nil
	}
	switch {
	case panicked:
		return 2, msg, nil
	case err != nil:
		return 1, err.Error(), nil
	}
	return 0, "", db
}

func addConvCase(ctx *Ctx, in *convInput, tags ...string) {
	table, fittable := in.predictorOracle()
	if !fittable {
		return
	}
	class, detail, db := runConvert(in)
	dump := "[]"
	nfix, nlaps := 0, 0
	if db != nil {
		dump = dumpDB(db)
		nlaps = len(db.Laps)
		for _, l := range db.Laps {
			nfix += len(l.Recording.Fixes)
		}
	}
	sane, k45 := in.geodSanity()
	tags = append(tags, fmt.Sprintf("sincos45:%v", k45))
	coq := fmt.Sprintf("(mkCase %s %s %s %s %s %s %s %s %s)", in.coqOpts(), CoqStr(in.Vehicle), in.coqLaps(), in.geodOracle(), table, CoqBool(sane), CoqBool(k45), CoqNat(class), dump)
	b, _ := json.Marshal(in)
	ctx.Add(Case{Coq: coq, Input: in, Obs: map[string]any{"class": class, "detail": detail, "laps": nlaps, "fixes": nfix}, Key: string(b),
		Trivial: len(in.Laps) < 3, Tags: append([]string{"kind:" + in.Kind, fmt.Sprintf("class:%d", class), fmt.Sprintf("laps:%d", len(in.Laps))}, tags...)})
}

func replayConv(ctx *Ctx) (bool, error) {
	raws, err := ctx.ReplayInputs()
	if err != nil || raws == nil {
		return false, err
	}
	for _, raw := range raws {
		var in convInput
		if err := json.Unmarshal(raw, &in); err != nil {
			return true, err
		}
		addConvCase(ctx, &in)
	}
	return true, nil
}

// ---------------------------------------------------------------- generators

func fp(v float64) *float64 { return &v }

type obdPattern struct{ Speed, RPM, Throttle, Coolant, Intake, Manifold bool }

func genSession(r *Rng, nlaps int, maxRows int, t0ms int64, withOBD int, pat obdPattern, zone int) []jLap {
	var laps []jLap
	t := t0ms
	lat, lon := 50.0+float64(r.Intn(1000))/1e4, -0.75+float64(r.Intn(1000))/1e4
	for i := 0; i < nlaps; i++ {
		l := jLap{Number: i, DurMs: int64(r.Intn(200000))}
		if r.Chance(0.1) {
			l.Number = i + r.Intn(3)
		}
		rows := r.Intn(maxRows + 1)
		now := int64(r.Intn(500))
		crawl := r.Chance(0.12)
		for j := 0; j < rows; j++ {
			step := int64(10 + r.Intn(2000))
			t += step
			now += step
			upd := r.Chance(0.6)
			if upd && r.Chance(0.85) {
				if crawl {
					// walking pace at a high fix rate: a few centimetres per update
					lat += float64(r.Intn(9)-4) / 1e7
					lon += float64(r.Intn(9)-4) / 1e7
				} else {
					lat += float64(r.Intn(200)-100) / 1e6
					lon += float64(r.Intn(200)-100) / 1e6
				}
			}
			rec := jRec{NowMs: now, TimeMs: t, ZoneMin: zone, Upd: upd, Lat: lat, Lon: lon, Alt: float64(r.Intn(2000)) / 10, Acc: float64(r.Intn(200)) / 7,
				Head: float64(r.Intn(3600)) / 10, Speed: float64(r.Intn(300000))/1000 - 5}
			if r.Chance(0.5) {
				rec.Accel = &[3]float64{float64(r.Intn(400)-200) / 97, float64(r.Intn(400)-200) / 89, float64(r.Intn(400)-200) / 83}
			}
			if withOBD > 0 {
				o := &jOBD{Update: withOBD == 2 && r.Chance(0.4)}
				if pat.Speed {
					o.Speed = fp(float64(r.Intn(250000))/1000 - 3)
				}
				if pat.RPM {
					o.RPM = fp(float64(r.Intn(9000000)) / 1000)
				}
				if pat.Throttle {
					o.Throttle = fp(float64(r.Intn(100000)) / 1000)
				}
				if pat.Coolant {
					o.Coolant = fp(float64(r.Intn(140000))/1000 - 30)
				}
				if pat.Intake {
					o.Intake = fp(float64(r.Intn(90000))/1000 - 30)
				}
				if pat.Manifold {
					o.Manifold = fp(float64(r.Intn(300000)) / 1000)
				}
				rec.OBD = o
			}
			l.Recs = append(l.Recs, rec)
		}
		laps = append(laps, l)
	}
	return laps
}

func genConvOpts(r *Rng, in *convInput) {
	in.Vehicle = Pick(r, []string{"2019 McLaren 720S", "", "Car"})
	in.OVehicle = Pick(r, []string{"", "", "Override"})
	in.Track = Pick(r, []string{"", "Goodwood", "Spa \"F1\""})
	in.Tags = Pick(r, [][]string{nil, {"Me"}, {"a", "b c"}})
	in.Note = Pick(r, []string{"", "note"})
	in.Diff = r.Intn(4)
	in.PosFix = r.Intn(5)
}

func randPattern(r *Rng) obdPattern {
	if r.Chance(0.4) {
		return obdPattern{true, true, true, true, true, true}
	}
	return obdPattern{r.Bool(), r.Bool(), r.Bool(), r.Bool(), r.Bool(), r.Bool()}
}

func runC03(ctx *Ctx) error {
	ctx.ShardSize = 40
	ctx.Imports = []string{"Trackaddict.Columns", "Trackaddict.Model", "Convert.Model", "Run.Conv_run"}
	if done, err := replayConv(ctx); done || err != nil {
		return err
	}
	r := ctx.R
	for i := 0; i < ctx.N(320, 6000); i++ {
		in := &convInput{Kind: "session", Predict: r.Intn(2)}
		genConvOpts(r, in)
		nl := Pick(r, []int{0, 1, 2, 3, 3, 4, 5, 6})
		in.Laps = genSession(r, nl, 9, 1653983971000+int64(r.Intn(1e9)), r.Intn(3), randPattern(r), 0)
		if r.Chance(0.2) {
			in.StartDate = fmt.Sprintf("20%02d-%02d-%02d", r.Intn(60), 1+r.Intn(12), 1+r.Intn(28))
		}
		if r.Chance(0.03) && len(in.Laps) >= 3 && len(in.Laps[1].Recs) >= 2 {
			k := 1 + r.Intn(len(in.Laps[1].Recs)-1)
			in.Laps[1].Recs[k].Lat = Pick(r, []float64{45, -45})
			in.Laps[1].Recs[k].Upd = true
		}
		tag := "history:fresh-converter"
		if r.Chance(0.25) {
			// the converter has converted another session (other vehicle, dates, OBD) before this one
			w := &convInput{Kind: "warm"}
			w.Vehicle = Pick(r, []string{"Other Car", "", "2019 McLaren 720S"})
			w.Laps = genSession(r, 3+r.Intn(3), 6, 1553983971000+int64(r.Intn(1e9)), r.Intn(3), randPattern(r), 0)
			in.Warm = w
			tag = "history:reused-converter"
		}
		addConvCase(ctx, in, tag)
	}
	return nil
}

func runC11(ctx *Ctx) error {
	ctx.ShardSize = 40
	ctx.Imports = []string{"Trackaddict.Columns", "Trackaddict.Model", "Convert.Model", "Run.Conv_run"}
	if done, err := replayConv(ctx); done || err != nil {
		return err
	}
	r := ctx.R
	for i := 0; i < ctx.N(320, 5000); i++ {
		in := &convInput{Kind: "obd", Predict: 1}
		if r.Chance(0.2) {
			in.Predict = 0
		} else if r.Chance(0.35) {
			in.Predict = 2 + r.Intn(5)
		}
		genConvOpts(r, in)
		mode := Pick(r, []int{2, 2, 2, 2, 1, 0}) // 2: OBD with updates, 1: OBD never updated, 0: no OBD columns
		in.Laps = genSession(r, 3+r.Intn(3), 2+r.Intn(9), 1653983971000, mode, randPattern(r), 0)
		if r.Chance(0.15) || (in.Predict >= 2 && r.Chance(0.5)) {
			// the earlier session has many fresh readings (so a predictor that keeps anything from it shows)
			w := &convInput{Kind: "warm"}
			w.Laps = genSession(r, 4+r.Intn(2), 8+r.Intn(6), 1553983971000, 2, obdPattern{true, true, true, true, true, true}, 0)
			in.Warm = w
		}
		addConvCase(ctx, in, fmt.Sprintf("obdmode:%d", mode), fmt.Sprintf("predict:%d", in.Predict), fmt.Sprintf("reused-converter:%v", in.Warm != nil))
	}
	return nil
}

func runC12(ctx *Ctx) error {
	ctx.ShardSize = 40
	ctx.Imports = []string{"Trackaddict.Columns", "Trackaddict.Model", "Convert.Model", "Run.Conv_run"}
	if done, err := replayConv(ctx); done || err != nil {
		return err
	}
	r := ctx.R
	for i := 0; i < ctx.N(320, 4000); i++ {
		in := &convInput{Kind: "dates", Predict: 0}
		genConvOpts(r, in)
		// sessions that straddle UTC midnight at some lap boundary: start shortly before midnight
		day := int64(18000+r.Intn(17000)) * 86400000
		t0 := day + 86400000 - int64(r.Intn(40000))
		if r.Chance(0.3) {
			t0 = day + int64(r.Intn(86400000))
		}
		zone := Pick(r, []int{0, 0, 600, -480, 840, 330, 9999, 9998, 9997, 9996})
		in.Laps = genSession(r, 3+r.Intn(4), 1+r.Intn(5), t0, 0, obdPattern{}, zone)
		if r.Chance(0.15) && len(in.Laps) > 2 {
			in.Laps[1].Recs = nil // an empty first timed lap
		}
		base := time.UnixMilli(t0).UTC()
		// no option / logged day / day before / day after / random day
		in2 := *in
		in2.StartDate = ""
		addConvCase(ctx, &in2, "start:none")
		in3 := *in
		in3.StartDate = Pick(r, []string{base.Format("2006-01-02"), base.AddDate(0, 0, 1).Format("2006-01-02"), base.AddDate(0, 0, -1).Format("2006-01-02"),
			fmt.Sprintf("%04d-%02d-%02d", 1970+r.Intn(98), 1+r.Intn(12), 1+r.Intn(28))})
		ztag := "startzone:utc"
		if r.Chance(0.4) {
			// a start date that is a midnight (or any instant) in another zone: still one instant D
			d, _ := time.Parse("2006-01-02", in3.StartDate)
			off := Pick(r, []int{7200, -18000, 19800, 50400, -39600, 3600})
			loc := time.FixedZone("Z", off)
			tt := time.Date(d.Year(), d.Month(), d.Day(), 0, 0, 0, 0, loc)
			if r.Chance(0.3) {
				tt = tt.Add(time.Duration(r.Intn(86400)) * time.Second)
			}
			in3.StartDate = tt.Format(time.RFC3339)
			ztag = "startzone:offset"
		}
		if r.Chance(0.15) {
			w := &convInput{Kind: "warm"}
			w.Laps = genSession(r, 3+r.Intn(2), 4, t0-int64(86400000*(1+r.Intn(400))), 0, obdPattern{}, 0)
			in3.Warm = w
		}
		addConvCase(ctx, &in3, "start:"+map[bool]string{true: "logged-day", false: "other"}[in3.StartDate == base.Format("2006-01-02")], ztag, fmt.Sprintf("reused-converter:%v", in3.Warm != nil))
	}
	_ = strings.ToUpper
	return nil
}
