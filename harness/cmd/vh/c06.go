package main

import (
	"encoding/hex"
	"encoding/json"
	"fmt"
	"os"
)

func init() { runners["C06"] = runC06 }

type gpmfInput struct {
	Hex     string `json:"hex"`
	WalkMod int    `json:"walkmod"`
	Kind    string `json:"kind"`
}

func c06Key(r *Rng, nested bool) string {
	if nested {
		return Pick(r, []string{"DEVC", "STRM", "ABCD", "NEST"})
	}
	if r.Chance(0.15) {
		return Pick(r, metaKeys)
	}
	return Pick(r, plainKeys)
}

func addGpmfCase(ctx *Ctx, in gpmfInput, tags ...string) {
	b, _ := hex.DecodeString(in.Hex)
	o := runReader(b, in.WalkMod)
	ctx.Add(Case{
		Coq:     gpmfCase(b, in.WalkMod, o),
		Input:   in,
		Obs:     map[string]any{"class": o.Class, "detail": o.Detail, "elements": o.NElems},
		Key:     in.Hex + fmt.Sprint(in.WalkMod),
		Trivial: len(b) < 12,
		Tags:    append([]string{"kind:" + in.Kind, fmt.Sprintf("class:%d", o.Class)}, tags...),
	})
}

func replayGpmf(ctx *Ctx) (bool, error) {
	raws, err := ctx.ReplayInputs()
	if err != nil || raws == nil {
		return false, err
	}
	for _, raw := range raws {
		var in gpmfInput
		if err := json.Unmarshal(raw, &in); err != nil {
			return true, err
		}
		addGpmfCase(ctx, in)
	}
	return true, nil
}

func runC06(ctx *Ctx) error {
	ctx.ShardSize = 60
	ctx.Imports = []string{"Gpmf.Klv"}
	if done, err := replayGpmf(ctx); done || err != nil {
		return err
	}
	r := ctx.R
	n := ctx.N(260, 5000)
	for i := 0; i < n; i++ {
		depth := 1 + r.Intn(4)
		f := genForest(r, depth, 4, c06Key)
		b := encodeForest(f)
		if len(b) > 6000 {
			continue
		}
		addGpmfCase(ctx, gpmfInput{hex.EncodeToString(b), Pick(r, []int{0, 0, 2, 3, 5, 7}), "forest"}, fmt.Sprintf("depth:%d", depth))
		// the truncation clause: strict prefixes of small encodings
		if len(b) <= 96 && (ctx.Thorough() || i%6 == 0) {
			for cut := 0; cut < len(b); cut++ {
				if ctx.Thorough() || cut%3 == i%3 || cut > len(b)-14 {
					addGpmfCase(ctx, gpmfInput{hex.EncodeToString(b[:cut]), 0, "prefix"})
				}
			}
		}
		// bytes after a container's declared length are siblings
		if i%10 == 0 {
			g := genForest(r, 1, 2, c06Key)
			c := &knode{Key: "DEVC", Typ: 0, Kids: f}
			addGpmfCase(ctx, gpmfInput{hex.EncodeToString(append(c.encode(), encodeForest(g)...)), 0, "container+siblings"})
		}
	}
	// the raw captures shipped with the repository, whole (thorough) or their first payload
	for _, name := range []string{"hero5.raw", "hero6.raw", "fusion.raw", "hero6-multi-chunk.raw"} {
		b, err := os.ReadFile(os.Getenv("VERIF_REPO") + "/test/" + name)
		if err != nil || len(b) == 0 {
			continue
		}
		if !ctx.Thorough() && len(b) > 3000 {
			// cut at the end of the first DEVC
			if len(b) >= 8 {
				l := int(b[5]) * (int(b[6])<<8 | int(b[7]))
				if 8+l <= len(b) && 8+l <= 12000 {
					b = b[:8+l]
				} else {
					continue
				}
			}
		}
		addGpmfCase(ctx, gpmfInput{hex.EncodeToString(b), 0, "capture:" + name})
	}
	return nil
}
