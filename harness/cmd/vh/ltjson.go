package main

import (
	"encoding/json"
	"fmt"
	"reflect"
	"time"

	"github.com/stevenh/tracktools/pkg/laptimer"
)

// A faithful JSON form of laptimer.DB for replay files: the date types have no exported
// fields, so they travel as {"ns": unix nanoseconds}; floats use Go's shortest round-trip text.

func toAny(v reflect.Value) any {
	switch v.Type() {
	case tLapDate:
		return map[string]any{"ns": time.Time(v.Interface().(laptimer.LapDate)).UnixNano()}
	case tFixDate:
		return map[string]any{"ns": time.Time(v.Interface().(laptimer.FixDate)).UnixNano()}
	}
	switch v.Kind() {
	case reflect.Struct:
		m := map[string]any{}
		for i := 0; i < v.NumField(); i++ {
			if v.Type().Field(i).Name == "XMLName" {
				continue
			}
			m[v.Type().Field(i).Name] = toAny(v.Field(i))
		}
		return m
	case reflect.Slice:
		if v.IsNil() {
			return nil
		}
		l := make([]any, v.Len())
		for i := range l {
			l[i] = toAny(v.Index(i))
		}
		return l
	case reflect.Pointer:
		if v.IsNil() {
			return nil
		}
		return map[string]any{"ptr": toAny(v.Elem())}
	case reflect.Float64:
		return v.Float()
	case reflect.Int, reflect.Int64, reflect.Int32:
		return v.Int()
	case reflect.Bool:
		return v.Bool()
	case reflect.String:
		return []byte(v.String()) // base64: strings may hold invalid UTF-8
	}
	return nil
}

func fromAny(dst reflect.Value, a any) error {
	switch dst.Type() {
	case tLapDate, tFixDate:
		m, ok := a.(map[string]any)
		if !ok {
			return fmt.Errorf("date: %T", a)
		}
		n, _ := m["ns"].(json.Number).Int64()
		t := time.Unix(0, n).UTC()
		if dst.Type() == tLapDate {
			dst.Set(reflect.ValueOf(laptimer.LapDate(t)))
		} else {
			dst.Set(reflect.ValueOf(laptimer.FixDate(t)))
		}
		return nil
	}
	if a == nil {
		return nil
	}
	switch dst.Kind() {
	case reflect.Struct:
		m, ok := a.(map[string]any)
		if !ok {
			return fmt.Errorf("struct: %T", a)
		}
		for i := 0; i < dst.NumField(); i++ {
			if x, ok := m[dst.Type().Field(i).Name]; ok {
				if err := fromAny(dst.Field(i), x); err != nil {
					return err
				}
			}
		}
	case reflect.Slice:
		l, ok := a.([]any)
		if !ok {
			return fmt.Errorf("slice: %T", a)
		}
		s := reflect.MakeSlice(dst.Type(), len(l), len(l))
		for i := range l {
			if err := fromAny(s.Index(i), l[i]); err != nil {
				return err
			}
		}
		dst.Set(s)
	case reflect.Pointer:
		m, ok := a.(map[string]any)
		if !ok {
			return fmt.Errorf("ptr: %T", a)
		}
		p := reflect.New(dst.Type().Elem())
		if err := fromAny(p.Elem(), m["ptr"]); err != nil {
			return err
		}
		dst.Set(p)
	case reflect.Float64:
		f, _ := a.(json.Number).Float64()
		dst.SetFloat(f)
	case reflect.Int, reflect.Int64, reflect.Int32:
		n, _ := a.(json.Number).Int64()
		dst.SetInt(n)
	case reflect.Bool:
		dst.SetBool(a.(bool))
	case reflect.String:
		var b []byte
		raw, _ := json.Marshal(a)
		_ = json.Unmarshal(raw, &b)
		dst.SetString(string(b))
	}
	return nil
}

func dbToJSON(db *laptimer.DB) json.RawMessage {
	b, _ := json.Marshal(toAny(reflect.ValueOf(*db)))
	return b
}

func dbFromJSON(raw json.RawMessage) (*laptimer.DB, error) {
	dec := json.NewDecoder(bytesReader(raw))
	dec.UseNumber()
	var a any
	if err := dec.Decode(&a); err != nil {
		return nil, err
	}
	db := &laptimer.DB{}
	if err := fromAny(reflect.ValueOf(db).Elem(), a); err != nil {
		return nil, err
	}
	return db, nil
}
