package main

import (
	"encoding/json"
	"fmt"
	"math"

	"github.com/stevenh/tracktools/pkg/gopro/gpmf/geo"
	"github.com/tidwall/geodesic"
)

func init() {
	runners["C17"] = runC17
	runners["C18"] = runC18
	runners["C19"] = runC19
}

// ---------------------------------------------------------------- independent spherical geometry (vectors, atan2)

type vec [3]float64

func toVec(lat, lon float64) vec {
	la, lo := lat*math.Pi/180, lon*math.Pi/180
	return vec{math.Cos(la) * math.Cos(lo), math.Cos(la) * math.Sin(lo), math.Sin(la)}
}
func vdot(a, b vec) float64 { return a[0]*b[0] + a[1]*b[1] + a[2]*b[2] }
func vcross(a, b vec) vec {
	return vec{a[1]*b[2] - a[2]*b[1], a[2]*b[0] - a[0]*b[2], a[0]*b[1] - a[1]*b[0]}
}
func vnorm(a vec) float64     { return math.Sqrt(vdot(a, a)) }
func vangle(a, b vec) float64 { return math.Atan2(vnorm(vcross(a, b)), vdot(a, b)) }

// gcAngle: central angle between two positions given in degrees.  Below 10 km the unit vectors
// lose the separation in their low bits (1e-16 rad against 1.5e-8 rad at 10 cm), so the angle is
// taken from the haversine of the coordinate differences, which are formed in degrees (exact for
// nearby values) before the conversion to radians; every term is positive, so the result is good
// to a few 1e-16 relative.  Above 10 km the vector formula (independent of the haversine) is used.
func gcAngle(lat1, lon1, lat2, lon2 float64) float64 {
	const rad = math.Pi / 180
	dlat := (lat2 - lat1) * rad
	dlon := wrap180(lon2-lon1) * rad
	sa, so := math.Sin(dlat/2), math.Sin(dlon/2)
	a := sa*sa + math.Cos(lat1*rad)*math.Cos(lat2*rad)*so*so
	h := 2 * math.Atan2(math.Sqrt(a), math.Sqrt(1-a))
	if h*6378137 < 10000 {
		return h
	}
	return vangle(toVec(lat1, lon1), toVec(lat2, lon2))
}

// segDist: great-circle distance (radians) from p to the arc a-b, end caps included.
func segDist(p, a, b vec) float64 {
	n := vcross(a, b)
	nn := vnorm(n)
	if nn == 0 {
		return vangle(p, a)
	}
	n = vec{n[0] / nn, n[1] / nn, n[2] / nn}
	if vdot(vcross(a, p), n) >= 0 && vdot(vcross(p, b), n) >= 0 {
		return math.Abs(math.Asin(math.Max(-1, math.Min(1, vdot(p, n)))))
	}
	return math.Min(vangle(p, a), vangle(p, b))
}

// oracleDist returns the distance (in metres on a sphere of the given radius) from the position
// to the segment together with an estimate of the oracle's own error: the vector formula loses
// accuracy for short lines (cancellation in a x b), a local plane loses it for large extents at
// high latitude; the better of the two is used.  Verdicts are only demanded outside
// guard band + 2 x this error; everything closer is counted as undecided.
func oracleDist(lat0, lon0, lat1, lon1, lat2, lon2, radius float64) (float64, float64) {
	scale := radius / 6378137
	dv := segDist(toVec(lat0, lon0), toVec(lat1, lon1), toVec(lat2, lon2)) * radius
	L := vangle(toVec(lat1, lon1), toVec(lat2, lon2)) * 6378137
	errV := (4e-3/math.Max(L, 1e-3) + 2e-9) * scale
	// local plane around end point 1
	rad := math.Pi / 180
	c := math.Cos(lat1 * rad)
	px, py := wrap180(lon0-lon1)*rad*c, (lat0-lat1)*rad
	bx, by := wrap180(lon2-lon1)*rad*c, (lat2-lat1)*rad
	u := 0.0
	if bx*bx+by*by > 0 {
		u = (px*bx + py*by) / (bx*bx + by*by)
	}
	u = math.Max(0, math.Min(1, u))
	dp := math.Hypot(px-u*bx, py-u*by) * radius
	D := math.Max(math.Hypot(px, py), math.Hypot(bx, by)) * 6378137
	errP := (D*D*(math.Abs(math.Tan(lat1*rad))+1)/6378137 + 2e-9) * scale
	if errP < errV {
		return dp, errP
	}
	return dv, errV
}

func wrap180(d float64) float64 {
	for d > 180 {
		d -= 360
	}
	for d <= -180 {
		d += 360
	}
	return d
}

// destination from (lat, lon) at bearing (deg) and angular distance (rad) on the sphere
func sphDest(lat, lon, brg, ang float64) (float64, float64) {
	la, lo, b := lat*math.Pi/180, lon*math.Pi/180, brg*math.Pi/180
	la2 := math.Asin(math.Sin(la)*math.Cos(ang) + math.Cos(la)*math.Sin(ang)*math.Cos(b))
	lo2 := lo + math.Atan2(math.Sin(b)*math.Sin(ang)*math.Cos(la), math.Cos(ang)-math.Sin(la)*math.Sin(la2))
	return la2 * 180 / math.Pi, wrap180(lo2 * 180 / math.Pi)
}

type c17Input struct {
	Lat1, Lon1, Lat2, Lon2, Lat0, Lon0, Tol, Radius float64
}

func addC17Case(ctx *Ctx, in c17Input) {
	opts := []geo.Option{geo.Tolerance(in.Tol)}
	if in.Radius != 0 {
		opts = append(opts, geo.Radius(in.Radius))
	}
	radius := in.Radius
	if radius == 0 {
		radius = 6378137
	}
	p := geo.NewProcessor(opts...)
	d01, d02, d12, track, havTol, ssp, res := p.VerifOnLineParts(in.Lat0, in.Lon0, in.Lat1, in.Lon1, in.Lat2, in.Lon2)
	pub := p.OnLine(in.Lat0, in.Lon0, in.Lat1, in.Lon1, in.Lat2, in.Lon2)
	swapped := p.OnLine(in.Lat0, in.Lon0, in.Lat2, in.Lon2, in.Lat1, in.Lon1)
	o2 := []geo.Option{geo.Tolerance(2 * in.Tol)}
	if in.Radius != 0 {
		o2 = append(o2, geo.Radius(in.Radius))
	}
	doubled := geo.NewProcessor(o2...).OnLine(in.Lat0, in.Lon0, in.Lat1, in.Lon1, in.Lat2, in.Lon2)
	dist, oerr := oracleDist(in.Lat0, in.Lon0, in.Lat1, in.Lon1, in.Lat2, in.Lon2, radius)
	band := 0.01*in.Tol + 0.0001*radius/6378137 + 2*oerr
	expected := 2
	switch {
	case dist < in.Tol-band:
		expected = 1
	case dist > in.Tol+band:
		expected = 0
	}
	if pub != res {
		expected = 3 // hook and public API disagree: treated as a failed case below
	}
	coq := fmt.Sprintf("(mkCase %s %s %s %s %s %s %s %s %s %s)", CoqF64(havTol), CoqF64(d01), CoqF64(d02), CoqF64(d12), CoqF64(track), CoqBool(ssp),
		CoqBool(pub), CoqBool(swapped), CoqBool(doubled), CoqNat(expected%3))
	b, _ := json.Marshal(in)
	ctx.Add(Case{Coq: coq, Input: in, Obs: map[string]any{"result": pub, "swapped": swapped, "doubled": doubled, "distance_m": dist, "expected": expected}, Key: string(b),
		Tags: []string{fmt.Sprintf("expected:%d", expected), fmt.Sprintf("result:%v", pub)}})
}

func genLine(r *Rng) (lat1, lon1, lat2, lon2, length, brg float64) {
	lat1 = float64(r.Intn(1700)-850) / 10
	lon1 = float64(r.Intn(3400)-1700) / 10
	if r.Chance(0.12) {
		// on or next to the 180th meridian: the line, or the position relative to it, straddles it
		lon1 = wrap180(180 + float64(r.Intn(2001)-1000)/1e6)
	}
	length = Pick(r, []float64{1, 5, 10, 20, 50, 200, 1000}) * (0.5 + float64(r.Intn(100))/100)
	brg = float64(r.Intn(3600)) / 10
	lat2, lon2 = sphDest(lat1, lon1, brg, length/6378137)
	return
}

func runC17(ctx *Ctx) error {
	ctx.ShardSize = 200
	if raws, err := ctx.ReplayInputs(); err != nil {
		return err
	} else if raws != nil {
		for _, raw := range raws {
			var in c17Input
			if err := json.Unmarshal(raw, &in); err != nil {
				return err
			}
			addC17Case(ctx, in)
		}
		return nil
	}
	r := ctx.R
	for i := 0; i < ctx.N(1500, 40000); i++ {
		lat1, lon1, lat2, lon2, length, brg := genLine(r)
		tol := Pick(r, []float64{0.01, 0.02, 0.1, 1, 5, 10, 50}) * (0.5 + float64(r.Intn(100))/100)
		// a position along (before, beside, beyond) the line and 0-3 tolerances to the side
		along := (float64(r.Intn(160))/100 - 0.3) * length
		if r.Chance(0.2) {
			along = Pick(r, []float64{-2 * tol, -0.5 * tol, 0, length, length + 0.5*tol, length + 2*tol, length / 2})
		}
		side := Pick(r, []float64{0, 0.5, 0.9, 0.97, 1.03, 1.1, 1.5, 3}) * tol
		if r.Bool() {
			side = -side
		}
		if r.Chance(0.15) {
			// a long line along a parallel away from the equator: the segment is a great-circle arc that
			// bows poleward of both its end points by L^2 tan(lat)/8R; centimetre tolerances, positions on the arc
			lat1 = Pick(r, []float64{-1, 1}) * (40 + float64(r.Intn(440))/10)
			length = 600 + float64(r.Intn(400))
			brg = Pick(r, []float64{90, 270}) + float64(r.Intn(21)-10)/100
			lat2, lon2 = sphDest(lat1, lon1, brg, length/6378137)
			// end points at the same latitude: go half way and mirror
			tol = Pick(r, []float64{0.01, 0.015, 0.02})
			along = length * (0.4 + float64(r.Intn(20))/100)
			side = Pick(r, []float64{0, 0.3, 0.6, -0.3}) * tol
		}
		mlat, mlon := sphDest(lat1, lon1, brg, along/6378137)
		plat, plon := sphDest(mlat, mlon, brg+90, side/6378137)
		in := c17Input{Lat1: lat1, Lon1: lon1, Lat2: lat2, Lon2: lon2, Lat0: plat, Lon0: plon, Tol: tol}
		if r.Chance(0.15) {
			in.Radius = Pick(r, []float64{1, 1e7})
			scale := in.Radius / 6378137
			in.Tol = tol * scale
		}
		addC17Case(ctx, in)
	}
	return nil
}

// ---------------------------------------------------------------- C18

type c18Input struct {
	FastFirst                              bool `json:",omitempty"`
	Kind                                   string
	Lat1, Lon1, Lat2, Lon2, Lat0, Lon0, Radius float64
}

func relErr(a, b float64) float64 {
	if b == 0 {
		return math.Abs(a)
	}
	return math.Abs(a-b) / math.Abs(b)
}

func addC18Case(ctx *Ctx, in c18Input) {
	radius := in.Radius
	var opts []geo.Option
	if radius != 0 {
		opts = append(opts, geo.Radius(radius))
	} else {
		radius = 6378137
	}
	p := geo.NewProcessor(opts...)
	fast := geo.NewProcessor(append(opts, geo.FastDistance())...)
	if in.FastFirst {
		// the same configuration with the options given in the other order
		fast = geo.NewProcessor(append([]geo.Option{geo.FastDistance()}, opts...)...)
	}
	checks := map[string]bool{}
	detail := map[string]any{}
	switch in.Kind {
	case "pair":
		truth := gcAngle(in.Lat1, in.Lon1, in.Lat2, in.Lon2) * radius
		d := p.Distance(in.Lat1, in.Lon1, in.Lat2, in.Lon2)
		d2 := p.Distance(in.Lat2, in.Lon2, in.Lat1, in.Lon1)
		// the oracle is good to a few 1e-16 relative at every separation of the quantifier (see gcAngle)
		checks["default-accuracy-1e-9"] = math.Abs(d-truth) <= 1e-9*truth*(1+1e-5)
		checks["symmetric"] = relErr(d, d2) <= 1e-12 || d == d2
		checks["zero-only-for-identical"] = (d == 0) == (in.Lat1 == in.Lat2 && in.Lon1 == in.Lon2) || truth < 1e-9
		d10 := geo.NewProcessor(geo.Radius(radius*10)).Distance(in.Lat1, in.Lon1, in.Lat2, in.Lon2)
		checks["linear-in-radius"] = relErr(d10, 10*d) <= 1e-12
		if truth*6378137/radius < 10000 && math.Abs(in.Lat1) < 80 && math.Abs(in.Lat2) < 80 {
			f := fast.Distance(in.Lat1, in.Lon1, in.Lat2, in.Lon2)
			checks["fast-accuracy-1e-5"] = math.Abs(f-truth) <= 1e-5*truth*(1+1e-5)
			detail["fast"] = f
		}
		detail["distance"], detail["truth"] = d, truth
	default: // distance to a line
		truth, oerr := oracleDist(in.Lat0, in.Lon0, in.Lat1, in.Lon1, in.Lat2, in.Lon2, radius)
		d := p.DistanceToLine(in.Lat0, in.Lon0, in.Lat1, in.Lon1, in.Lat2, in.Lon2)
		checks["line-distance-1pct+1mm"] = math.Abs(d-truth) <= 0.01*truth+0.001*radius/6378137+2*oerr
		detail["distance"], detail["truth"] = d, truth
	}
	var xs []string
	for k, v := range checks {
		xs = append(xs, fmt.Sprintf("(%s, %s)", CoqStr(k), CoqBool(v)))
	}
	b, _ := json.Marshal(in)
	ctx.Add(Case{Coq: fmt.Sprintf("(mkCase %s)", zlist(xs)), Input: in, Obs: detail, Key: string(b), Tags: []string{"kind:" + in.Kind}})
}

func runC18(ctx *Ctx) error {
	ctx.ShardSize = 400
	if raws, err := ctx.ReplayInputs(); err != nil {
		return err
	} else if raws != nil {
		for _, raw := range raws {
			var in c18Input
			if err := json.Unmarshal(raw, &in); err != nil {
				return err
			}
			addC18Case(ctx, in)
		}
		return nil
	}
	r := ctx.R
	for i := 0; i < ctx.N(1500, 30000); i++ {
		lat1 := float64(r.Intn(1700)-850) / 10
		if r.Chance(0.15) {
			lat1 = Pick(r, []float64{-1, 1}) * (84 + float64(r.Intn(580))/100) // the default method has no latitude limit: up to 89.8 degrees
		}
		lon1 := float64(r.Intn(3400)-1700) / 10
		dist := Pick(r, []float64{0.1, 1, 25, 60, 300, 5000, 9000, 60000, 700000, 1000000}) * (0.5 + float64(r.Intn(100))/100)
		lat2, lon2 := sphDest(lat1, lon1, float64(r.Intn(3600))/10, dist/6378137)
		in := c18Input{Kind: "pair", Lat1: lat1, Lon1: lon1, Lat2: lat2, Lon2: lon2}
		if r.Chance(0.05) {
			in.Lat2, in.Lon2 = lat1, lon1
		}
		if r.Chance(0.15) {
			in.Radius = Pick(r, []float64{1, 1e7, 1737400})
		}
		in.FastFirst = r.Bool()
		addC18Case(ctx, in)
	}
	for i := 0; i < ctx.N(1500, 30000); i++ {
		lat1, lon1, lat2, lon2, length, brg := genLine(r)
		if r.Chance(0.3) {
			// long lines away from the equator, any bearing
			lat1 = Pick(r, []float64{-1, 1}) * (35 + float64(r.Intn(500))/10)
			length = 200 + float64(r.Intn(800))
			lat2, lon2 = sphDest(lat1, lon1, brg, length/6378137)
		}
		along := (float64(r.Intn(200))/100 - 0.5) * length
		// from centimetres to hundreds of metres off the line
		side := Pick(r, []float64{0.05, 0.5, 3, 30, 150, 300}) * (float64(r.Intn(2001)-1000) / 1000)
		mlat, mlon := sphDest(lat1, lon1, brg, along/6378137)
		plat, plon := sphDest(mlat, mlon, brg+90, side/6378137)
		addC18Case(ctx, c18Input{Kind: "line", Lat1: lat1, Lon1: lon1, Lat2: lat2, Lon2: lon2, Lat0: plat, Lon0: plon})
	}
	return nil
}

// ---------------------------------------------------------------- C19

type c19Input struct {
	Kind                                                        string
	Lat1a, Lon1a, Lat2a, Lon2a, Lat1b, Lon1b, Lat2b, Lon2b float64
	Expect                                                      int // 0 outside, 1 inside both, 2 n/a
	Lat0, Lon0, Lat, Lon                                        float64
}

// sincos45: the pinned geodesic dependency evaluates sin/cos of an angle given in degrees wrongly
// when the angle is exactly 45 + 180k (or -45 - 180k) degrees (known finding D24); a case whose
// coordinates hand it such an angle belongs to that finding's class.
func sincos45(degs ...float64) bool {
	for _, d := range degs {
		a := math.Abs(d)
		if a >= 45 && math.Mod(a-45, 180) == 0 {
			return true
		}
	}
	return false
}

func addC19Case(ctx *Ctx, in c19Input) {
	k45 := false
	if in.Kind == "projection" {
		k45 = sincos45(in.Lat0, in.Lat, wrap180(in.Lon-in.Lon0))
	} else {
		k45 = sincos45(in.Lat1a, in.Lat2a, in.Lat1b, in.Lat2b, wrap180(in.Lon2a-in.Lon1a), wrap180(in.Lon2b-in.Lon1b), wrap180(in.Lon1b-in.Lon1a))
	}
	g := geo.NewGnomonic(geodesic.WGS84)
	checks := map[string]bool{}
	detail := map[string]any{}
	var az [4]float64
	errB := false
	expect := 2
	if in.Kind == "projection" {
		x, y, _, rk := g.Forward(in.Lat0, in.Lon0, in.Lat, in.Lon)
		var ang float64
		geodesic.WGS84.Inverse(in.Lat0, in.Lon0, in.Lat, in.Lon, &ang, nil, nil)
		// inside the horizon (Forward gave a finite point with a geodesic scale that is not vanishing):
		// the point must come back; this reaches to within about 15 km of the horizon
		if ang < 0.24*2*math.Pi*6378137 || (ang < 0.2497*2*math.Pi*6378137 && !math.IsNaN(x) && rk >= 0.002) {
			la, lo, _, _ := g.Reverse(in.Lat0, in.Lon0, x, y)
			dl := math.Abs(lo - in.Lon)
			if dl > 180 {
				dl = 360 - dl
			}
			checks["forward-reverse-1e-9deg"] = math.Abs(la-in.Lat) <= 1e-9 && dl*math.Cos(in.Lat*math.Pi/180) <= 1e-9
			x2, y2, _, _ := g.Forward(in.Lat0, in.Lon0, la, lo)
			checks["reverse-forward-1e-6rel"] = math.Hypot(x2-x, y2-y) <= 1e-6*math.Max(1, math.Hypot(x, y))
			detail["rk"] = rk
		} else if ang > 0.27*2*math.Pi*6378137 {
			checks["beyond-horizon-nan"] = math.IsNaN(x) && math.IsNaN(y)
		}
	} else {
		lat, lon, a1, a2, b1, b2 := g.IntersectExt(in.Lat1a, in.Lon1a, in.Lat2a, in.Lon2a, in.Lat1b, in.Lon1b, in.Lat2b, in.Lon2b)
		az = [4]float64{a1, a2, b1, b2}
		_, _, err := g.Intersect(in.Lat1a, in.Lon1a, in.Lat2a, in.Lon2a, in.Lat1b, in.Lon1b, in.Lat2b, in.Lon2b)
		errB = err != nil
		expect = in.Expect
		// the crossing lies on both geodesics: azimuth from end 1 to the crossing equals (or opposes) the azimuth to end 2
		onLine := func(la1, lo1, la2, lo2 float64) bool {
			var azP, azE float64
			geodesic.WGS84.Inverse(la1, lo1, lat, lon, nil, &azP, nil)
			geodesic.WGS84.Inverse(la1, lo1, la2, lo2, nil, &azE, nil)
			d := math.Abs(azP - azE)
			if d > 180 {
				d = 360 - d
			}
			return d < 1e-4 || math.Abs(d-180) < 1e-4
		}
		checks["on-geodesic-a"] = onLine(in.Lat1a, in.Lon1a, in.Lat2a, in.Lon2a)
		checks["on-geodesic-b"] = onLine(in.Lat1b, in.Lon1b, in.Lat2b, in.Lon2b)
		diff := func(x, y float64) float64 {
			d := math.Abs(x - y)
			if d > 180 {
				d = 360 - d
			}
			return d
		}
		checks["azimuths-equal-or-opposite"] = (diff(a1, a2) < 1e-6 || math.Abs(diff(a1, a2)-180) < 1e-6) && (diff(b1, b2) < 1e-6 || math.Abs(diff(b1, b2)-180) < 1e-6)
		detail["lat"], detail["lon"], detail["azimuths"] = lat, lon, []float64{a1, a2, b1, b2}
	}
	var xs []string
	for k, v := range checks {
		xs = append(xs, fmt.Sprintf("(%s, %s)", CoqStr(k), CoqBool(v)))
	}
	b, _ := json.Marshal(in)
	detail["checks"] = checks
	ctx.Add(Case{Coq: fmt.Sprintf("(mkCase %s %s %s %s %s %s %s %s)", CoqF64(az[0]), CoqF64(az[1]), CoqF64(az[2]), CoqF64(az[3]), CoqBool(errB), CoqNat(expect), zlist(xs), CoqBool(k45)),
		Input: in, Obs: detail, Key: string(b), Tags: []string{"kind:" + in.Kind, fmt.Sprintf("expect:%d", expect), fmt.Sprintf("sincos45:%v", k45)}})
}

func runC19(ctx *Ctx) error {
	ctx.ShardSize = 400
	if raws, err := ctx.ReplayInputs(); err != nil {
		return err
	} else if raws != nil {
		for _, raw := range raws {
			var in c19Input
			if err := json.Unmarshal(raw, &in); err != nil {
				return err
			}
			addC19Case(ctx, in)
		}
		return nil
	}
	r := ctx.R
	for i := 0; i < ctx.N(300, 6000); i++ {
		lat0 := float64(r.Intn(1600)-800) / 10
		lon0 := float64(r.Intn(3000)-1500) / 10
		dist := Pick(r, []float64{10, 1000, 100000, 2e6, 5e6, 8e6, 9.5e6, 1.15e7, 1.4e7}) * (0.8 + float64(r.Intn(40))/100)
		if r.Chance(0.15) {
			dist = (0.2486 + float64(r.Intn(100))/100000) * 2 * math.Pi * 6378137 // the last 60 km before the horizon
		}
		lat, lon := sphDest(lat0, lon0, float64(r.Intn(3600))/10, dist/6378137)
		addC19Case(ctx, c19Input{Kind: "projection", Lat0: lat0, Lon0: lon0, Lat: lat, Lon: lon})
	}
	for i := 0; i < ctx.N(300, 6000); i++ {
		// two segments built around a common crossing point X: inside both, or one of them stops short of X
		xlat := float64(r.Intn(1400)-700) / 10
		xlon := float64(r.Intn(2400)-1200) / 10
		la := Pick(r, []float64{10, 200, 5000, 100000, 1e6}) * (0.5 + float64(r.Intn(100))/100)
		lb := Pick(r, []float64{10, 200, 5000, 100000, 1e6}) * (0.5 + float64(r.Intn(100))/100)
		brA := float64(r.Intn(1600)+100)/10 + 0.0137 // 10..170: keeps azimuths away from 0/180 (and off exact multiples of 45, see sincos45)
		brB := brA + float64(r.Intn(1300)+250)/10
		if math.Mod(brB, 180) < 10 || math.Mod(brB, 180) > 170 {
			continue
		}
		fa, fb := 0.2+float64(r.Intn(60))/100, 0.2+float64(r.Intn(60))/100 // crossing at these fractions
		expect := 1
		bulge := r.Chance(0.15)
		if bulge {
			// a long east-west segment away from the equator bows poleward of both its end points;
			// a short segment crosses it there, lying wholly poleward of those end points
			xlat = Pick(r, []float64{-1, 1}) * (30 + float64(r.Intn(400))/10)
			la = (2e5 + float64(r.Intn(800000)))
			lb = 2000 + float64(r.Intn(60000))
			brA = 85.0137 + float64(r.Intn(100))/10
			brB = brA + 60 + float64(r.Intn(600))/10
			fa = 0.4 + float64(r.Intn(20))/100
			fb = 0.02 + float64(r.Intn(10))/100
		}
		switch r.Intn(3) {
		case 0:
			if !bulge {
				fa = 1.2 + float64(r.Intn(80))/100 // A ends before the crossing
				expect = 0
			}
		case 1:
			fb = -0.2 - float64(r.Intn(80))/100 // B starts after the crossing
			expect = 0
		}
		var a1la, a1lo, a2la, a2lo, b1la, b1lo, b2la, b2lo float64
		geodesic.WGS84.Direct(xlat, xlon, brA+180, fa*la, &a1la, &a1lo, nil)
		geodesic.WGS84.Direct(xlat, xlon, brA, (1-fa)*la, &a2la, &a2lo, nil)
		if fa > 1 {
			geodesic.WGS84.Direct(xlat, xlon, brA+180, fa*la, &a1la, &a1lo, nil)
			geodesic.WGS84.Direct(xlat, xlon, brA+180, (fa-1)*la, &a2la, &a2lo, nil)
		}
		geodesic.WGS84.Direct(xlat, xlon, brB+180, fb*lb, &b1la, &b1lo, nil)
		geodesic.WGS84.Direct(xlat, xlon, brB, (1-fb)*lb, &b2la, &b2lo, nil)
		if fb < 0 {
			geodesic.WGS84.Direct(xlat, xlon, brB, -fb*lb, &b1la, &b1lo, nil)
			geodesic.WGS84.Direct(xlat, xlon, brB, (1-fb)*lb, &b2la, &b2lo, nil)
		}
		if !bulge && r.Chance(0.12) {
			// segment A along a meridian (both end points at the crossing's longitude), northwards or
			// southwards: its azimuths are exactly 0 or 180
			deg := la / 111320
			a1la, a1lo, a2la, a2lo = xlat-fa*deg, xlon, xlat+(1-fa)*deg, xlon
			if fa > 1 {
				a1la, a2la = xlat-fa*deg, xlat-(fa-1)*deg
			}
			if r.Chance(0.5) {
				a1la, a2la = a2la, a1la
			}
			if math.Abs(a1la) > 85 || math.Abs(a2la) > 85 {
				continue
			}
		}
		if math.Abs(a1lo-a2lo) > 170 || math.Abs(b1lo-b2lo) > 170 || math.Abs(a1lo-b1lo) > 170 {
			continue
		}
		addC19Case(ctx, c19Input{Kind: "intersect", Lat1a: a1la, Lon1a: a1lo, Lat2a: a2la, Lon2a: a2lo, Lat1b: b1la, Lon1b: b1lo, Lat2b: b2la, Lon2b: b2lo, Expect: expect})
	}
	return nil
}
