// Command vh is the implementation-side half of the correspondence check: it generates
// inputs from one PRNG state, runs the real tracktools code on them and writes the inputs
// together with the canonicalised observations as Coq case files.
package main

import (
	"flag"
	"fmt"
	"os"
	"sort"
)

type propRunner func(ctx *Ctx) error

var runners = map[string]propRunner{}

func main() {
	if len(os.Args) < 2 {
		fmt.Fprintln(os.Stderr, "usage: vh <property> [-seed N] [-tier quick|thorough] [-out dir] [-replay file]")
		ids := make([]string, 0, len(runners))
		for k := range runners {
			ids = append(ids, k)
		}
		sort.Strings(ids)
		fmt.Fprintln(os.Stderr, "properties:", ids)
		os.Exit(2)
	}
	id := os.Args[1]
	fs := flag.NewFlagSet("vh", flag.ExitOnError)
	seed := fs.Uint64("seed", 1, "PRNG seed")
	tier := fs.String("tier", "quick", "quick|thorough")
	out := fs.String("out", "", "output directory")
	replay := fs.String("replay", "", "replay file (json lines of cases)")
	scale := fs.Float64("scale", 1, "multiply case counts")
	_ = fs.Parse(os.Args[2:])

	r, ok := runners[id]
	if !ok {
		fmt.Fprintln(os.Stderr, "unknown property", id)
		os.Exit(2)
	}
	ctx := NewCtx(id, *seed, *tier, *out, *replay, *scale)
	if err := r(ctx); err != nil {
		fmt.Fprintln(os.Stderr, "vh:", err)
		os.Exit(3)
	}
	if err := ctx.Finish(); err != nil {
		fmt.Fprintln(os.Stderr, "vh:", err)
		os.Exit(3)
	}
}
