package main

import (
	"verifharness/mp4synth"
	"encoding/hex"
	"encoding/json"
	"os"
	"strings"
)

func mutateBytes(r *Rng, b []byte) []byte {
	c := append([]byte{}, b...)
	if len(c) == 0 {
		return c
	}
	switch r.Intn(7) {
	case 0: // bit flips
		for k := 0; k < 1+r.Intn(4); k++ {
			c[r.Intn(len(c))] ^= 1 << uint(r.Intn(8))
		}
	case 1: // truncate
		c = c[:r.Intn(len(c))]
	case 2: // overwrite a header field (type/size/count) of some element start (aligned position)
		p := (r.Intn(len(c)) / 4) * 4
		if p+8 <= len(c) {
			f := 4 + r.Intn(4)
			c[p+f] = Pick(r, []byte{0, 1, 255, 0x80, '#', 'U', 'c', '?', 'b', 'q'})
		}
	case 3: // zero size or count of the first/any element
		p := (r.Intn(len(c)) / 4) * 4
		if p+8 <= len(c) {
			if r.Bool() {
				c[p+5] = 0
			} else {
				c[p+6], c[p+7] = 0, 0
			}
		}
	case 4: // set count to 65535
		p := (r.Intn(len(c)) / 4) * 4
		if p+8 <= len(c) {
			c[p+6], c[p+7] = 0xff, 0xff
		}
	case 5: // splice random garbage
		p := r.Intn(len(c))
		g := randBytes(r, 1+r.Intn(12))
		c = append(append(append([]byte{}, c[:p]...), g...), c[p:]...)
	default: // random byte writes
		for k := 0; k < 1+r.Intn(6); k++ {
			c[r.Intn(len(c))] = byte(r.Next())
		}
	}
	return c
}

func runC09(ctx *Ctx) error {
	ctx.ShardSize = 80
	ctx.Imports = []string{"Gpmf.Klv", "Gpmf.Mp4", "Run.Gpmf_run", "Run.Run_C08"}
	defer func() {
		// reader cases are R, decoder cases are D
		for i := range ctx.cases {
			c := ctx.cases[i].Coq
			switch {
			case strings.HasPrefix(c, "(mkCase [") || strings.HasPrefix(c, "(mkCase (app") || strings.HasPrefix(c, "(mkCase (rep"):
				if ctx.cases[i].Tags != nil && strings.HasPrefix(ctx.cases[i].Tags[0], "kind:hostile") || strings.Contains(c, "mkTables") {
					ctx.cases[i].Coq = "(D (Run_C08.mkCase" + strings.TrimPrefix(c, "(mkCase") + ")"
				} else {
					ctx.cases[i].Coq = "(R (Gpmf_run.mkCase" + strings.TrimPrefix(c, "(mkCase") + ")"
				}
			}
		}
	}()
	if raws, err := ctx.ReplayInputs(); err != nil {
		return err
	} else if raws != nil {
		for _, raw := range raws {
			var probe map[string]json.RawMessage
			_ = json.Unmarshal(raw, &probe)
			if _, ok := probe["tables"]; ok {
				var in c08Input
				if err := json.Unmarshal(raw, &in); err != nil {
					return err
				}
				addC08Case(ctx, in)
			} else {
				var in gpmfInput
				if err := json.Unmarshal(raw, &in); err != nil {
					return err
				}
				addGpmfCase(ctx, in)
			}
		}
		return nil
	}
	r := ctx.R
	// decoder half: hostile sample tables and payload bytes inside an otherwise valid MP4
	for i := 0; i < ctx.N(160, 6000); i++ {
		p, t := genValidLayout(r, 5)
		m := mutateTables(r, t)
		if r.Chance(0.3) {
			m = mutateTables(r, m)
		}
		if r.Chance(0.3) {
			p = mutateBytes(r, p)
		}
		addC08Case(ctx, c08Input{hex.EncodeToString(p), m, false, "hostile-tables", r.Chance(0.2)})
	}
	// systematic hostile tables on small fixed layouts: every entry/field of stsc and stts set to each odd
	// value, every odd (first chunk, samples per chunk) pair appended, every truncation of stsz / stco
	for _, in := range systematicTables() {
		addC08Case(ctx, in)
	}
	// named decoder cases: zero timescale, zero-reading sensor element, empty and moov-less files are covered by D15/D12/D21 demos
	{
		p, t := genValidLayout(r, 2)
		t.Timescale = 0
		addC08Case(ctx, c08Input{hex.EncodeToString(p), t, false, "hostile-zero-timescale", false})
		t.ZeroMovie = true // no usable timescale anywhere in the file
		addC08Case(ctx, c08Input{hex.EncodeToString(p), t, false, "hostile-zero-timescale", false})
	}
	n := ctx.N(500, 12000)
	// named cases of the property statement
	named := [][]byte{
		nil,
		{1, 2, 3},
		(&knode{Key: "ABCD", Typ: 'b', Size: 0, Count: 1}).encode(),
		(&knode{Key: "ABCD", Typ: 'B', Size: 0, Count: 1}).encode(),
		(&knode{Key: "ABCD", Typ: 's', Size: 0, Count: 3}).encode(),
		(&knode{Key: "ABCD", Typ: 'L', Size: 4, Count: 0}).encode(),
		(&knode{Key: "STRM", Typ: 0, Kids: []*knode{{Key: "SCAL", Typ: 's', Size: 2, Count: 0}, {Key: "ACCL", Typ: 's', Size: 2, Count: 3, Data: []byte{0, 1, 0, 2, 0, 3}}}}).encode(),
		(&knode{Key: "STRM", Typ: 0, Kids: []*knode{{Key: "SCAL", Typ: 's', Size: 0, Count: 1}, {Key: "ACCL", Typ: 's', Size: 2, Count: 3, Data: []byte{0, 1, 0, 2, 0, 3}}}}).encode(),
		(&knode{Key: "STRM", Typ: 0, Kids: []*knode{{Key: "TYPE", Typ: 'c', Size: 1, Count: 23, Data: []byte("Lffffffffffffffffffffff")}, {Key: "FACE", Typ: '?', Size: 92, Count: 2, Data: make([]byte, 184)}}}).encode(),
		(&knode{Key: "STRM", Typ: 0, Kids: []*knode{{Key: "TYPE", Typ: 'c', Size: 1, Count: 9, Data: []byte("BBSSSSSBB")}, {Key: "FACE", Typ: '?', Size: 14, Count: 3, Data: make([]byte, 42)}}}).encode(),
		(&knode{Key: "STRM", Typ: 0, Kids: []*knode{{Key: "TYPE", Typ: 'c', Size: 1, Count: 5, Data: []byte("Lffff")}, {Key: "FACE", Typ: '?', Size: 19, Count: 1, Data: make([]byte, 19)}}}).encode(),
		(&knode{Key: "GPS5", Typ: 'l', Size: 20, Count: 0}).encode(),
		// scale vectors whose payload is shorter than one value of their type, then a numeric sibling
		(&knode{Key: "STRM", Typ: 0, Kids: []*knode{{Key: "SCAL", Typ: 'l', Size: 2, Count: 1, Data: []byte{0, 1}}, {Key: "ACCL", Typ: 's', Size: 2, Count: 3, Data: []byte{0, 1, 0, 2, 0, 3}}}}).encode(),
		(&knode{Key: "STRM", Typ: 0, Kids: []*knode{{Key: "SCAL", Typ: 's', Size: 1, Count: 1, Data: []byte{7}}, {Key: "GYRO", Typ: 's', Size: 6, Count: 1, Data: []byte{0, 1, 0, 2, 0, 3}}}}).encode(),
		(&knode{Key: "STRM", Typ: 0, Kids: []*knode{{Key: "SCAL", Typ: 'd', Size: 7, Count: 1, Data: []byte{1, 2, 3, 4, 5, 6, 7}}, {Key: "ABCD", Typ: 'L', Size: 4, Count: 1, Data: []byte{0, 0, 0, 9}}}}).encode(),
		(&knode{Key: "STRM", Typ: 0, Kids: []*knode{{Key: "SCAL", Typ: 'f', Size: 3, Count: 1, Data: []byte{1, 2, 3}}, {Key: "GPS5", Typ: 'l', Size: 20, Count: 1, Data: make([]byte, 20)}}}).encode(),
		// a sensor element whose stream states nothing while its device does
		(&knode{Key: "DEVC", Typ: 0, Kids: []*knode{{Key: "DVNM", Typ: 'c', Size: 1, Count: 3, Data: []byte("Cam")},
			{Key: "STRM", Typ: 0, Kids: []*knode{{Key: "ACCL", Typ: 's', Size: 6, Count: 1, Data: []byte{0, 1, 0, 2, 0, 3}}}}}}).encode(),
		(&knode{Key: "DEVC", Typ: 0, Kids: []*knode{{Key: "STRM", Typ: 0, Kids: []*knode{{Key: "GYRO", Typ: 's', Size: 6, Count: 1, Data: []byte{0, 1, 0, 2, 0, 3}}}}}}).encode(),
		(&knode{Key: "ABCD", Typ: 'U', Size: 16, Count: 1, Data: []byte("999999999999.999")}).encode(),
	}
	for _, b := range named {
		addGpmfCase(ctx, gpmfInput{hex.EncodeToString(b), 0, "named"})
	}
	var captures [][]byte
	for _, name := range []string{"hero5.raw", "hero6.raw", "fusion.raw"} {
		b, err := os.ReadFile(os.Getenv("VERIF_REPO") + "/test/" + name)
		if err == nil && len(b) >= 8 {
			l := int(b[5]) * (int(b[6])<<8 | int(b[7]))
			if 8+l <= len(b) && l < 4000 {
				captures = append(captures, b[:8+l])
			}
		}
	}
	for i := 0; i < n; i++ {
		switch r.Intn(10) {
		case 0, 1:
			addGpmfCase(ctx, gpmfInput{hex.EncodeToString(randBytes(r, r.Intn(64))), 0, "random"})
		case 2:
			if len(captures) > 0 {
				b := mutateBytes(r, Pick(r, captures))
				addGpmfCase(ctx, gpmfInput{hex.EncodeToString(b), 0, "capture-mutation"})
				continue
			}
			fallthrough
		case 3:
			// well-formed but unusual device payloads: streams with any subset of the descriptive
			// keys (including none at all) below devices that do or do not state theirs; as is, with
			// elements removed, and mutated
			tag := 0
			f := genC16Payload(r, &tag)
			if r.Chance(0.5) {
				for _, d := range f {
					for _, st := range d.Kids {
						if st.Typ == 0 && len(st.Kids) > 1 && r.Chance(0.5) {
							k := r.Intn(len(st.Kids) - 1)
							st.Kids = st.Kids[k:] // drop the leading keys, keep the sensor element
						}
					}
				}
			}
			b := encodeForest(f)
			if len(b) > 3000 {
				b = b[:3000]
			}
			kind := "device-payload"
			if r.Chance(0.4) {
				b = mutateBytes(r, b)
				kind = "device-payload-mutation"
			}
			addGpmfCase(ctx, gpmfInput{hex.EncodeToString(b), 0, kind})
		case 4, 5:
			d := &knode{Key: "DEVC", Typ: 0, Kids: []*knode{genStream(r)}}
			if r.Chance(0.2) {
				// as is: rare shapes (undersized scale vectors, odd sample counts, wrong types) unmutated
				addGpmfCase(ctx, gpmfInput{hex.EncodeToString(d.encode()), 0, "stream"})
			}
			b := mutateBytes(r, d.encode())
			if r.Chance(0.3) {
				b = mutateBytes(r, b)
			}
			addGpmfCase(ctx, gpmfInput{hex.EncodeToString(b), 0, "stream-mutation"})
		default:
			f := genForest(r, 1+r.Intn(3), 3, c06Key)
			b := encodeForest(f)
			if len(b) > 1500 {
				b = b[:1500]
			}
			b = mutateBytes(r, b)
			addGpmfCase(ctx, gpmfInput{hex.EncodeToString(b), Pick(r, []int{0, 3}), "forest-mutation"})
		}
	}
	return nil
}

func systematicTables() []c08Input {
	var out []c08Input
	payload := func(n int) ([]byte, []uint32, []uint64) {
		r := &Rng{s: 777}
		area := []byte{0xde, 0xad, 0xbe, 0xef}
		var sizes []uint32
		var offs []uint64
		for i := 0; i < n; i++ {
			p := sensorPayload(r)
			offs = append(offs, uint64(len(area)))
			sizes = append(sizes, uint32(len(p)))
			area = append(area, p...)
		}
		return area, sizes, offs
	}
	weird := []uint32{0, 1, 2, 3, 4, 255, 0xffffffff}
	add := func(area []byte, t mp4synth.Tables, kind string) {
		out = append(out, c08Input{hex.EncodeToString(area), t, false, "hostile-" + kind, false})
	}
	clone := func(t mp4synth.Tables) mp4synth.Tables {
		c := t
		c.Stsc = append([][2]uint32{}, t.Stsc...)
		c.Stts = append([][2]uint32{}, t.Stts...)
		c.Sizes = append([]uint32{}, t.Sizes...)
		c.Offsets = append([]uint64{}, t.Offsets...)
		return c
	}
	for _, layout := range []int{0, 1} {
		area, sizes, offs := payload(3)
		base := mp4synth.Tables{Stsc: [][2]uint32{{1, 1}}, Stts: [][2]uint32{{3, 1000}}, NSamples: 3, Sizes: sizes, Offsets: offs, Timescale: 1000}
		if layout == 1 {
			// two samples in the first chunk, one in the second
			base.Stsc = [][2]uint32{{1, 2}, {2, 1}}
			base.Offsets = []uint64{offs[0], offs[2]}
			base.Stts = [][2]uint32{{1, 500}, {2, 700}}
		}
		for i := range base.Stsc {
			for f := 0; f < 2; f++ {
				for _, w := range weird {
					t := clone(base)
					t.Stsc[i][f] = w
					add(area, t, "stsc-field")
				}
			}
		}
		for _, w1 := range weird {
			for _, w2 := range weird {
				t := clone(base)
				t.Stsc = append(t.Stsc, [2]uint32{w1, w2})
				add(area, t, "stsc-appended")
				if len(base.Offsets) > 1 {
					t2 := clone(t)
					t2.Offsets = t2.Offsets[:1] // fewer chunk offsets than the entries need: samples left when they run out
					add(area, t2, "stsc-appended-short-stco")
				}
			}
		}
		for i := range base.Stts {
			for f := 0; f < 2; f++ {
				for _, w := range weird {
					t := clone(base)
					t.Stts[i][f] = w
					add(area, t, "stts-field")
				}
			}
		}
		for n := 0; n < len(base.Sizes); n++ {
			t := clone(base)
			t.Sizes = t.Sizes[:n]
			add(area, t, "stsz-short")
		}
		for n := 0; n < len(base.Offsets); n++ {
			t := clone(base)
			t.Offsets = t.Offsets[:n]
			add(area, t, "stco-short")
		}
		for _, ns := range weird {
			t := clone(base)
			t.NSamples = ns
			add(area, t, "sample-count")
		}
	}
	return out
}
