package main

import (
	"encoding/json"
	"fmt"
	"os"
	"sort"
	"strings"
	"time"

	"github.com/stevenh/tracktools/pkg/trackaddict"
)

func init() {
	runners["C02"] = runC02
	runners["C15"] = runC15
}

// ---------------------------------------------------------------- dump

func optF(p *float64) string {
	if p == nil {
		return "None"
	}
	return "(Some " + CoqF64(*p) + ")"
}

func timeNs(t time.Time) string {
	if t.IsZero() {
		return "(-62135596800000000000)%Z"
	}
	return CoqZ(t.UnixNano())
}

func dumpRecord(r *trackaddict.Record) string {
	gps := fmt.Sprintf("(mkGps %s %s %s %s %s %s %s)", CoqBool(r.GPS.Update), CoqZ(int64(r.GPS.Delay)), CoqF64(r.GPS.Latitude),
		CoqF64(r.GPS.Longitude), CoqF64(r.GPS.Altitude), CoqF64(r.GPS.Accuracy), CoqF64(r.GPS.Heading))
	acc := "None"
	if r.Accel != nil {
		acc = fmt.Sprintf("(Some (mkAccel %s %s %s))", CoqF64(r.Accel.X), CoqF64(r.Accel.Y), CoqF64(r.Accel.Z))
	}
	obd := "None"
	if r.OBD != nil {
		o := r.OBD
		obd = fmt.Sprintf("(Some (mkObd %s %s %s %s %s %s %s))", CoqBool(o.Update), optF(o.Speed), optF(o.EngineSpeed), optF(o.Throttle),
			optF(o.CoolantTemp), optF(o.IntakeTemp), optF(o.ManifoldPressure))
	}
	return fmt.Sprintf("(mkRecord %s %s %s %s %s %s %s %s %s %s %s %s)", CoqZ(int64(r.Now)), timeNs(r.Time), CoqZ(int64(r.Lap)),
		CoqZ(int64(r.Predicted)), CoqZ(int64(r.Offset)), gps, CoqF64(r.Speed), acc, CoqBool(r.Brake), CoqF64(r.BarometricPressure),
		CoqF64(r.PressureAltitute), obd)
}

func dumpSession(s *trackaddict.Session) string {
	laps := make([]string, len(s.Laps))
	for i, l := range s.Laps {
		recs := make([]string, len(l.Records))
		for j := range l.Records {
			recs[j] = dumpRecord(&l.Records[j])
		}
		laps[i] = fmt.Sprintf("(mkLap %s %s %s)", CoqZ(int64(l.Duration)), CoqZ(int64(l.Number)), zlist(recs))
	}
	keys := make([]string, 0, len(s.Metadata))
	for k := range s.Metadata {
		keys = append(keys, k)
	}
	sort.Strings(keys)
	meta := make([]string, len(keys))
	for i, k := range keys {
		meta[i] = fmt.Sprintf("(%s, %s)", CoqStr(k), CoqStr(s.Metadata[k]))
	}
	ep := fmt.Sprintf("(%s, %s, %s)", CoqF64(s.Endpoint.Latitude), CoqF64(s.Endpoint.Longitude), CoqF64(s.Endpoint.Heading))
	return fmt.Sprintf("(mkObs %s %s %s %s)", zlist(laps), zlist(meta), CoqStr(s.Vehicle), ep)
}

const emptyObs = "(mkObs [] [] []%N (0%Z, 0%Z, 0%Z))"

type taResult struct {
	Class  int
	Detail string
	Sess   *trackaddict.Session
}

func runTADecode(text string) taResult {
	var sess *trackaddict.Session
	var err error
	done := make(chan struct{})
	var panicked bool
	var msg string
	go func() {
		defer close(done)
		panicked, msg = Guard(func() {
			d, e := trackaddict.NewDecoder(strings.NewReader(text))
			if e != nil {
				err = e
				return
			}
			sess, err = d.Decode()
		})
	}()
	select {
	case <-done:
	case <-time.After(20 * time.Second):
		return taResult{Class: 3, Detail: "timeout"}
	}
	switch {
	case panicked:
		return taResult{Class: 2, Detail: msg}
	case err != nil:
		return taResult{Class: 1, Detail: err.Error()}
	}
	return taResult{Class: 0, Sess: sess}
}

type taInput struct {
	Text string `json:"text"`
	Kind string `json:"kind"`
}

func addTACase(ctx *Ctx, in taInput, tags ...string) {
	res := runTADecode(in.Text)
	obs := emptyObs
	rows, laps := 0, 0
	if res.Sess != nil {
		obs = dumpSession(res.Sess)
		laps = len(res.Sess.Laps)
		for _, l := range res.Sess.Laps {
			rows += len(l.Records)
		}
	}
	ctx.Add(Case{
		Coq:     fmt.Sprintf("(mkCase %s %s %s)", CoqStr(in.Text), CoqNat(res.Class), obs),
		Input:   in,
		Obs:     map[string]any{"class": res.Class, "detail": res.Detail, "laps": laps, "rows": rows},
		Key:     in.Text,
		Trivial: len(in.Text) < 10,
		Tags:    append([]string{"kind:" + in.Kind, fmt.Sprintf("class:%d", res.Class)}, tags...),
	})
}

func replayTA(ctx *Ctx) (bool, error) {
	raws, err := ctx.ReplayInputs()
	if err != nil || raws == nil {
		return false, err
	}
	for _, raw := range raws {
		var in taInput
		if err := json.Unmarshal(raw, &in); err != nil {
			return true, err
		}
		addTACase(ctx, in)
	}
	return true, nil
}

// ---------------------------------------------------------------- generation of well-formed logs

var taHeaders = []string{"Time", "UTC Time", "Lap", "Predicted Lap Time", "Predicted vs Best Lap", "GPS_Update",
	"GPS_Delay", "Latitude", "Longitude", "Altitude (m)", "Altitude (ft)", "Speed (MPH)",
	"Speed (Km/h)", "Heading", "Accuracy (m)", "Accuracy (ft)", "Accel X", "Accel Y", "Accel Z",
	"Brake (calculated)", "Barometric Pressure (PSI)", "Barometric Pressure (kPa)",
	"Pressure Altitude (ft)", "Pressure Altitude (m)", "OBD_Update", "Engine Speed (RPM) *OBD",
	"Vehicle Speed (mph) *OBD", "Vehicle Speed (km/h) *OBD", "Throttle Position (%) *OBD",
	"Engine Coolant Temp (F) *OBD", "Engine Coolant Temp (C) *OBD", "Intake Air Temp (F) *OBD",
	"Intake Air Temp (C) *OBD", "Intake Manifold Pressure (PSI) *OBD",
	"Intake Manifold Pressure (kPa) *OBD"}

var realHeader = []string{"Time", "UTC Time", "Lap", "Predicted Lap Time", "Predicted vs Best Lap", "GPS_Update", "GPS_Delay", "Latitude", "Longitude", "Altitude (m)", "Altitude (ft)", "Speed (MPH)", "Heading", "Accuracy (m)", "Accel X", "Accel Y", "Accel Z", "Brake (calculated)", "Barometric Pressure (PSI)", "Pressure Altitude (ft)", "OBD_Update", "Engine Speed (RPM) *OBD", "Vehicle Speed (mph) *OBD", "Throttle Position (%) *OBD", "Engine Coolant Temp (F) *OBD", "Intake Air Temp (F) *OBD", "Intake Manifold Pressure (PSI) *OBD"}

func genDurCell(r *Rng) string {
	switch r.Intn(8) {
	case 0:
		return "0"
	case 1:
		return fmt.Sprintf("-%d.%03d", r.Intn(5), r.Intn(1000))
	case 2:
		return fmt.Sprintf("%d.%d", r.Intn(200), r.Intn(100)) // fewer than three fraction digits
	default:
		return fmt.Sprintf("%d.%03d", r.Intn(4000), r.Intn(1000))
	}
}

func genCell(r *Rng, hdr string, t0 int64, row int) string {
	switch hdr {
	case "Time", "Predicted Lap Time", "Predicted vs Best Lap", "GPS_Delay":
		return genDurCell(r)
	case "UTC Time":
		return fmt.Sprintf("%d.%03d", t0+int64(row), r.Intn(1000))
	case "Lap":
		return fmt.Sprint(r.Intn(30))
	case "GPS_Update", "Brake (calculated)", "OBD_Update":
		return Pick(r, []string{"0", "1", "1", "0", "true", "false", "T", "F"})
	case "Latitude":
		return fmt.Sprintf("%d.%07d", 50+r.Intn(2), r.Intn(10000000))
	case "Longitude":
		return fmt.Sprintf("-%d.%07d", r.Intn(2), r.Intn(10000000))
	default:
		return genDecimal(r)
	}
}

func quoteCSV(r *Rng, s string, always bool) string {
	if always || r.Chance(0.1) {
		return `"` + strings.ReplaceAll(s, `"`, `""`) + `"`
	}
	return s
}

type taLog struct {
	Text    string
	Rows    int
	Markers int
}

// genWellFormedLog: header = subset/permutation, rows, lap markers at arbitrary positions,
// '#' comments before and between.
func genWellFormedLog(r *Rng, maxRows int) taLog {
	var hdr []string
	switch r.Intn(5) {
	case 0:
		hdr = append(hdr, realHeader...)
	default:
		p := r.Perm(len(taHeaders))
		n := 1 + r.Intn(12)
		if r.Chance(0.15) {
			n = len(taHeaders)
		}
		for _, i := range p[:n] {
			hdr = append(hdr, taHeaders[i])
		}
	}
	nl := "\n"
	if r.Chance(0.2) {
		nl = "\r\n"
	}
	var sb strings.Builder
	comments := []string{"# RaceRender Data: TrackAddict 4.8.0 on iOS 15.5 [iPhone12,1] (Mode: 0)", "# Vehicle: 2019 McLaren 720S",
		"# Vehicle Tune: OSID's: 14MA891CP.01., CVN's: C7C38B43", "# End Point: 50.857952, -0.752617  @ -1.00 deg", "# GPS: iOS; Type: 1",
		"# OBD Mode: BLE; ID: \"OBDII  v2.2\"", "# OBD Settings: AP1;AF1;RPR0", "# Device Free Space: 23784 MB", "# Session End",
		"# Note:   padded value  ", "# Vehicle:  Spaced Name ", "# End Point: -33.5, 151.25 @ 270 deg", "# Sector 1: 00:02:03.202", "# GPS: again; Type: 2"}
	for _, c := range comments {
		if r.Chance(0.35) {
			sb.WriteString(c + nl)
		}
	}
	qh := make([]string, len(hdr))
	quoteAll := r.Chance(0.7)
	for i, h := range hdr {
		qh[i] = quoteCSV(r, h, quoteAll)
	}
	sb.WriteString(strings.Join(qh, ",") + nl)
	rows := r.Intn(maxRows + 1)
	markers := 0
	lapNo := 0
	if r.Chance(0.1) {
		lapNo = 1 + r.Intn(3)
	}
	t0 := int64(1653983971 + r.Intn(100000))
	emit := func() {
		if r.Chance(0.25) && markers < 5 {
			sb.WriteString(fmt.Sprintf("# Lap %d: %02d:%02d:%02d.%03d%s", lapNo, r.Intn(2), r.Intn(60), r.Intn(60), r.Intn(1000), nl))
			markers++
			lapNo++
			if r.Chance(0.15) {
				lapNo += r.Intn(3)
			}
			if r.Chance(0.3) {
				sb.WriteString(Pick(r, comments) + nl)
			}
		}
	}
	for i := 0; i < rows; i++ {
		emit()
		cells := make([]string, len(hdr))
		for j, h := range hdr {
			cells[j] = quoteCSV(r, genCell(r, h, t0, i), false)
		}
		sb.WriteString(strings.Join(cells, ",") + nl)
	}
	emit()
	if r.Chance(0.1) {
		emit()
	}
	text := sb.String()
	if r.Chance(0.1) {
		text = strings.TrimSuffix(text, nl) // no final newline
	}
	return taLog{text, rows, markers}
}

func realLog() string {
	b, err := os.ReadFile(os.Getenv("VERIF_REPO") + "/test/Log-20220531-085930 Goodwood Motorcircuit - 2.57.527.csv")
	if err != nil {
		return ""
	}
	return string(b)
}

// realLogExcerpt keeps the header comments, the header and `around` rows around each marker.
func realLogExcerpt(around int) string {
	full := realLog()
	if full == "" {
		return ""
	}
	lines := strings.Split(full, "\n")
	keep := make([]bool, len(lines))
	hdrDone := false
	for i, l := range lines {
		if !hdrDone {
			keep[i] = true
			if !strings.HasPrefix(l, "#") {
				hdrDone = true
				for j := i + 1; j <= i+around && j < len(lines); j++ {
					keep[j] = true
				}
			}
			continue
		}
		if strings.HasPrefix(l, "# ") {
			for j := i - around; j <= i+around; j++ {
				if j >= 0 && j < len(lines) {
					keep[j] = true
				}
			}
		}
	}
	var out []string
	for i, l := range lines {
		if keep[i] {
			out = append(out, l)
		}
	}
	return strings.Join(out, "\n")
}

func runC02(ctx *Ctx) error {
	ctx.ShardSize = 40
	ctx.Imports = []string{"Trackaddict.Columns", "Trackaddict.Model", "Run.Ta_run"}
	if done, err := replayTA(ctx); done || err != nil {
		return err
	}
	r := ctx.R
	n := ctx.N(300, 6000)
	for i := 0; i < n; i++ {
		l := genWellFormedLog(r, 14)
		addTACase(ctx, taInput{l.Text, "wellformed"}, fmt.Sprintf("markers:%d", l.Markers), fmt.Sprintf("rows:%d", l.Rows/5*5))
		if i%12 == 0 && l.Markers > 0 {
			// a marker numbered lower than the laps already closed must be rejected
			bad := l.Text + fmt.Sprintf("# Lap %d: 00:00:01.000\n", 0)
			addTACase(ctx, taInput{bad, "low-marker"})
		}
	}
	if ex := realLogExcerpt(map[bool]int{false: 25, true: 400}[ctx.Thorough()]); ex != "" {
		addTACase(ctx, taInput{ex, "real-log-excerpt"})
	}
	return nil
}

// ---------------------------------------------------------------- C15: malformed text

func mutateLog(r *Rng, text string) string {
	lines := strings.Split(text, "\n")
	if len(lines) == 0 {
		return text
	}
	i := r.Intn(len(lines))
	l := lines[i]
	switch r.Intn(14) {
	case 0: // delete a field
		f := strings.Split(l, ",")
		if len(f) > 1 {
			k := r.Intn(len(f))
			f = append(f[:k], f[k+1:]...)
		}
		lines[i] = strings.Join(f, ",")
	case 1: // duplicate a field
		f := strings.Split(l, ",")
		k := r.Intn(len(f))
		f = append(f[:k+1], f[k:]...)
		lines[i] = strings.Join(f, ",")
	case 2: // truncate the line
		if len(l) > 0 {
			lines[i] = l[:r.Intn(len(l))]
		}
	case 3: // remove colons from a comment
		for j, x := range lines {
			if strings.HasPrefix(x, "# ") && r.Chance(0.5) {
				lines[j] = strings.ReplaceAll(x, ":", "")
			}
		}
	case 4: // blank line
		lines = append(lines[:i], append([]string{""}, lines[i:]...)...)
	case 5: // stray quote
		if len(l) > 0 {
			k := r.Intn(len(l) + 1)
			lines[i] = l[:k] + `"` + l[k:]
		}
	case 6: // unparsable value
		f := strings.Split(l, ",")
		f[r.Intn(len(f))] = Pick(r, []string{"abc", "", "1..2", "--3", "1e", "NaN?", " 5", "5 ", "0x", "+", "1,5"})
		lines[i] = strings.Join(f, ",")
	case 7: // unknown column in the header
		for j, x := range lines {
			if !strings.HasPrefix(x, "#") {
				lines[j] = x + `,"Mystery Column"`
				break
			}
		}
	case 8: // malformed lap markers / end points
		lines = append(lines[:i], append([]string{Pick(r, []string{"# Lap", "# Lap 3", "# Lap x: 00:00:01.000", "# Lap 1: 00:02", "# Lap 1: 00:02:03",
			"# Lap 1: aa:bb:cc.ddd", "# Lap 1: 00:02:03.", "# Lap -1: 00:00:01.000", "# Lap 99999999999999999999: 00:00:01.000", "# Lap 2 : 00:00:01.000",
			"# End Point", "# End Point: nowhere", "# End Point: 1,2@3", "# End Point: 1, 2 @ 3", "# End Point: 1.2.3, 4 @ 5", "# End Point: -, - @ -",
			"# Vehicle", "# Vehicle:", "#", "# ", "#x", "# :", "# a:b:c", "# Lap 1: 1:2:3.4 trailing", "# Lap 0: 99999999999:0:0.0",
			"# Lap 1: 00:02:03.202_L", "# Lap 1: 00:02:03.2_0", "# Lap 1: 0_0:02:03.202", "# Lap 1: 00:02:03.1_000", "# Lap 1: 1_0:2:3.4", "# Lap 1_0: 00:00:01.000",
			"# Lap : 00:00:01.000", "# Lap  : 00:00:01.000", "# Lap \t: 00:00:01.000", "# Lap :", "# Lap  3: 00:00:01.000", "# Lap 3 4: 00:00:01.000", "# End Point:", "# End Point: ", "# End Point : 1, 2 @ 3", "# Lap 1: +1:-2:+3.+4", "# Lap 1: 00:02:03.202x", "# Lap 1:\t00:02:03.202", "# Lap 1: 0x1:2:3.4", "# Lap 1: 1e1:2:3.4", "# Lap 1: 00:02:03.2e1"})}, lines[i:]...)...)
	case 9: // overlong line (rare: costly to evaluate)
		if r.Chance(0.15) {
			lines[i] = l + strings.Repeat("9", 70000)
		} else {
			lines[i] = l + strings.Repeat("9", 300)
		}
	case 10: // duplicate the line
		lines = append(lines[:i+1], lines[i:]...)
	case 11: // swap two lines
		j := r.Intn(len(lines))
		lines[i], lines[j] = lines[j], lines[i]
	case 12: // CR noise
		lines[i] = l + "\r"
	default: // binary noise
		b := []byte(l)
		for k := 0; k < 1+r.Intn(3) && len(b) > 0; k++ {
			b[r.Intn(len(b))] = byte(r.Next())
		}
		lines[i] = string(b)
	}
	return strings.Join(lines, "\n")
}

func runC15(ctx *Ctx) error {
	ctx.ShardSize = 50
	ctx.Imports = []string{"Trackaddict.Columns", "Trackaddict.Model", "Run.Ta_run"}
	if done, err := replayTA(ctx); done || err != nil {
		return err
	}
	r := ctx.R
	for _, s := range []string{"", "\n", "#", "# ", "# End Point", "# Lap 3", "# Vehicle", "# Session End\n\"Time\"\n0.1\n", "\"Time\"\n", "Time\n0.1\n0.2",
		"\"Time\",\"Lap\"\n0.1\n", "\"Time\"\n0.1,2\n", "\"Time\"\n\"0.1\n", "\"Time\"\n\"0.1\"x\n", "\"Ti\"\"me\"\n", "\"Time\"\n\n0.1\n", "Bogus\n1\n", ",\n",
		"# Lap : 00:00:01.000\n", "# Lap  : 00:00:01.000\n", "# Lap :\n", "# Lap \t : 1\n", "\"Time\"\n0.1\n# Lap : 00:00:01.000\n0.2\n", "# End Point:\n", "# End Point: \n", "# Vehicle:\n", "# Vehicle: \n", "# : \n", "# :\n"} {
		addTACase(ctx, taInput{s, "named"})
	}
	n := ctx.N(700, 20000)
	for i := 0; i < n; i++ {
		switch r.Intn(10) {
		case 0:
			b := randBytes(r, r.Intn(80))
			addTACase(ctx, taInput{string(b), "random-bytes"})
		case 1:
			var sb strings.Builder
			for k := 0; k < r.Intn(60); k++ {
				sb.WriteByte(Pick(r, []byte("#:,\"\n\r 0123456789.-LapTimeEndPoint@")))
			}
			addTACase(ctx, taInput{sb.String(), "random-text"})
		default:
			l := genWellFormedLog(r, 6)
			t := mutateLog(r, l.Text)
			if r.Chance(0.25) {
				t = mutateLog(r, t)
			}
			addTACase(ctx, taInput{t, "mutation"})
		}
	}
	return nil
}
