package main

import (
	"bytes"
	"encoding/hex"
	"encoding/json"
	"fmt"
	"time"

	"verifharness/mp4synth"

	"github.com/stevenh/tracktools/pkg/gopro/gpmf"
)

func init() { runners["C08"] = runC08 }

type c08Input struct {
	PayloadHex string          `json:"payload"`
	Tables     mp4synth.Tables `json:"tables"`
	Valid      bool            `json:"valid"`
	Kind       string          `json:"kind"`
	Reuse      bool            `json:"reuse,omitempty"` // decode with a Decoder value that has decoded another file before
}

// warmFile: a fixed valid file (3 samples, 2 readings each, 1 s per sample) decoded first by a reused Decoder.
func warmFile() []byte {
	r := &Rng{s: 12345}
	p, t := genValidLayout(r, 4)
	f, _, err := mp4synth.Build(p, t)
	if err != nil {
		panic(err)
	}
	return f
}

func sensorPayload(r *Rng) []byte {
	st := &knode{Key: "STRM", Typ: 0}
	if r.Chance(0.5) {
		st.Kids = append(st.Kids, numLeaf(r, "SCAL", 's', 1, 0))
		st.Kids[0].Data = []byte{0, byte(1 + r.Intn(9))}
	}
	n := r.Intn(5)
	st.Kids = append(st.Kids, numLeaf(r, "GPS5", 'l', 5*n, 5))
	d := &knode{Key: "DEVC", Typ: 0, Kids: []*knode{st}}
	if r.Chance(0.5) {
		st2 := &knode{Key: "STRM", Typ: 0, Kids: []*knode{numLeaf(r, Pick(r, []string{"ACCL", "GYRO", "MAGN", "WRGB"}), 's', 3*r.Intn(4), 3)}}
		d.Kids = append(d.Kids, st2)
	}
	if r.Chance(0.2) {
		d.Kids = append(d.Kids, &knode{Key: "STRM", Typ: 0, Kids: []*knode{numLeaf(r, "SHUT", 'f', 2, 0)}})
	}
	return d.encode()
}

// genValidLayout: N samples, any composition into chunks with minimal or redundant stsc runs,
// any run-length split of stts, chunks anywhere in the payload area, stco or co64, any timescale.
func genValidLayout(r *Rng, maxN int) ([]byte, mp4synth.Tables) {
	n := 1 + r.Intn(maxN)
	var samples [][]byte
	for i := 0; i < n; i++ {
		samples = append(samples, sensorPayload(r))
	}
	// composition into chunks
	var chunks [][]int
	for i := 0; i < n; {
		k := 1 + r.Intn(3)
		if r.Chance(0.4) {
			k = 1
		}
		if i+k > n {
			k = n - i
		}
		var c []int
		for j := 0; j < k; j++ {
			c = append(c, i+j)
		}
		chunks = append(chunks, c)
		i += k
	}
	// place chunks in the payload area in random order with gaps
	order := r.Perm(len(chunks))
	offsets := make([]uint64, len(chunks))
	var payload []byte
	payload = append(payload, 0xde, 0xad, 0xbe, 0xef) // the video sample
	for _, ci := range order {
		if r.Chance(0.3) {
			payload = append(payload, make([]byte, 4*r.Intn(3))...)
		}
		offsets[ci] = uint64(len(payload))
		for _, si := range chunks[ci] {
			payload = append(payload, samples[si]...)
		}
	}
	t := mp4synth.Tables{Offsets: offsets, NSamples: uint32(n), Co64: r.Bool(), VideoFirst: r.Bool(),
		Timescale: Pick(r, []uint32{1, 600, 1000, 1000, 30000, 90000, 1000000000})}
	for _, s := range samples {
		t.Sizes = append(t.Sizes, uint32(len(s)))
	}
	// stsc runs: minimal (merge equal neighbours) or redundant (one entry per chunk)
	redundant := r.Chance(0.3)
	for ci, c := range chunks {
		if !redundant && len(t.Stsc) > 0 && t.Stsc[len(t.Stsc)-1][1] == uint32(len(c)) {
			continue
		}
		t.Stsc = append(t.Stsc, [2]uint32{uint32(ci + 1), uint32(len(c))})
	}
	// stts: arbitrary deltas, split into runs (merging equal neighbours or not)
	var deltas []uint32
	huge := 0
	for i := 0; i < n; i++ {
		switch {
		case i > 0 && r.Chance(0.5):
			deltas = append(deltas, deltas[i-1])
		case r.Chance(0.1):
			deltas = append(deltas, 0) // a zero-length sample (legal, muxers write it for the last one)
		case r.Chance(0.06) && t.Timescale >= 1000 && huge < 2:
			huge++
			deltas = append(deltas, uint32(3000000000+r.Intn(1000000000))) // the running media time passes 2^32 ticks
		default:
			deltas = append(deltas, uint32(1+r.Intn(5000)))
		}
	}
	merge := r.Chance(0.7)
	for _, d := range deltas {
		if merge && len(t.Stts) > 0 && t.Stts[len(t.Stts)-1][1] == d {
			t.Stts[len(t.Stts)-1][0]++
			continue
		}
		t.Stts = append(t.Stts, [2]uint32{1, d})
	}
	if r.Chance(0.1) {
		t.Stts = append(t.Stts, [2]uint32{0, 77}) // an empty trailing run
	}
	return payload, t
}

func offsetDump(els []*gpmf.Element) string {
	var xs []string
	_ = gpmf.Walk(els, func(e *gpmf.Element) error {
		var offs []time.Duration
		switch d := e.Data.(type) {
		case gpmf.GPSData:
			for _, v := range d {
				offs = append(offs, v.Offset)
			}
		case gpmf.AccelData:
			for _, v := range d {
				offs = append(offs, v.Offset)
			}
		case gpmf.GyroData:
			for _, v := range d {
				offs = append(offs, v.Offset)
			}
		case gpmf.MagnetometerData:
			for _, v := range d {
				offs = append(offs, v.Offset)
			}
		case gpmf.WhiteBalanceRGBData:
			for _, v := range d {
				offs = append(offs, v.Offset)
			}
		default:
			return nil
		}
		zs := make([]string, len(offs))
		for i, o := range offs {
			zs[i] = CoqZ(int64(o))
		}
		xs = append(xs, fmt.Sprintf("(%s, %s)", CoqBytes(e.Header.Key[:]), zlist(zs)))
		return nil
	})
	return zlist(xs)
}

func coqTables(t mp4synth.Tables, base uint64) string {
	pair := func(xs [][2]uint32) string {
		ys := make([]string, len(xs))
		for i, x := range xs {
			ys[i] = fmt.Sprintf("(%d%%Z, %d%%Z)", x[0], x[1])
		}
		return zlist(ys)
	}
	sz := make([]string, len(t.Sizes))
	for i, s := range t.Sizes {
		sz[i] = fmt.Sprintf("%d%%Z", s)
	}
	of := make([]string, len(t.Offsets))
	for i, o := range t.Offsets {
		v := base + o
		if !t.Co64 {
			v = uint64(uint32(v))
		}
		of[i] = fmt.Sprintf("%d%%Z", v)
	}
	return fmt.Sprintf("(mkTables %s %d%%Z %d%%Z %s %s %s)", pair(t.Stsc), t.Uniform, t.NSamples, zlist(sz), pair(t.Stts), zlist(of))
}

func addC08Case(ctx *Ctx, in c08Input) {
	payload, _ := hex.DecodeString(in.PayloadHex)
	file, base, err := mp4synth.Build(payload, in.Tables)
	if err != nil {
		return
	}
	var els []*gpmf.Element
	var derr error
	done := make(chan struct{})
	var panicked bool
	var msg string
	go func() {
		defer close(done)
		panicked, msg = Guard(func() {
			dec := gpmf.NewDecoder()
			if in.Reuse {
				_, _ = dec.Decode(bytes.NewReader(warmFile()))
			}
			els, derr = dec.Decode(bytes.NewReader(file))
		})
	}()
	class, detail := 0, ""
	select {
	case <-done:
		switch {
		case panicked:
			class, detail = 2, msg
		case derr != nil:
			class, detail = 1, derr.Error()
		}
	case <-time.After(20 * time.Second):
		class, detail = 3, "timeout"
	}
	tree, offs := "[]", "[]"
	if class == 0 {
		tree, offs = dumpTree(els), offsetDump(els)
	}
	video := fmt.Sprintf("(%s, %s, 30000%%Z, %s)", CoqStr("vide"), CoqStr("GoPro AVC"),
		coqTables(mp4synth.Tables{Stts: [][2]uint32{{1, 1001}}, Stsc: [][2]uint32{{1, 1}}, NSamples: 1, Sizes: []uint32{4}, Offsets: []uint64{0}}, base))
	h, n := in.Tables.Handler, in.Tables.Name
	if h == "" {
		h = "meta"
	}
	if n == "" {
		n = "\tGoPro MET"
	}
	meta := fmt.Sprintf("(%s, %s, %d%%Z, %s)", CoqStr(h), CoqStr(n), in.Tables.Timescale, coqTables(in.Tables, base))
	var traks []string
	if in.Tables.VideoFirst {
		traks = append(traks, video)
	}
	if !in.Tables.NoMeta {
		traks = append(traks, meta)
	}
	if !in.Tables.VideoFirst {
		traks = append(traks, video)
	}
	coq := fmt.Sprintf("(mkCase %s %s %s %s %s %s)", CoqBytes(file), zlist(traks), CoqBool(in.Valid), CoqNat(class), tree, offs)
	b, _ := json.Marshal(in)
	ctx.Add(Case{Coq: coq, Input: in, Obs: map[string]any{"class": class, "detail": detail, "elements": len(els)}, Key: string(b),
		Trivial: in.Tables.NSamples == 0,
		Tags:    []string{"kind:" + in.Kind, fmt.Sprintf("class:%d", class), fmt.Sprintf("samples:%d", in.Tables.NSamples), fmt.Sprintf("chunks:%d", len(in.Tables.Offsets)), fmt.Sprintf("timescale:%d", in.Tables.Timescale), fmt.Sprintf("reused-decoder:%v", in.Reuse)}})
}

func mutateTables(r *Rng, t mp4synth.Tables) mp4synth.Tables {
	cp := t
	cp.Stsc = append([][2]uint32{}, t.Stsc...)
	cp.Stts = append([][2]uint32{}, t.Stts...)
	cp.Sizes = append([]uint32{}, t.Sizes...)
	cp.Offsets = append([]uint64{}, t.Offsets...)
	weird := []uint32{0, 1, 2, 3, 7, 40, 255}
	switch r.Intn(12) {
	case 0:
		cp.Timescale = 0
		cp.ZeroMovie = r.Bool()
	case 1:
		cp.NSamples = Pick(r, weird)
	case 2:
		if len(cp.Stsc) > 0 {
			cp.Stsc[r.Intn(len(cp.Stsc))][r.Intn(2)] = Pick(r, weird)
		}
	case 3:
		if len(cp.Stts) > 0 {
			cp.Stts[r.Intn(len(cp.Stts))][0] = Pick(r, weird)
		}
	case 4:
		cp.Stts = nil
	case 5:
		cp.Sizes = cp.Sizes[:r.Intn(len(cp.Sizes)+1)]
	case 6:
		if len(cp.Sizes) > 0 {
			cp.Sizes[r.Intn(len(cp.Sizes))] = Pick(r, []uint32{0, 1, 7, 9, 100000})
		}
	case 7:
		if len(cp.Offsets) > 0 {
			cp.Offsets[r.Intn(len(cp.Offsets))] = Pick(r, []uint64{0, 3, 1 << 20, 1 << 40})
		}
	case 8:
		cp.Offsets = cp.Offsets[:r.Intn(len(cp.Offsets)+1)]
	case 9:
		cp.Stsc = nil
	case 10:
		cp.Uniform = Pick(r, []uint32{1, 8, 64})
	default:
		cp.Stsc = append(cp.Stsc, [2]uint32{Pick(r, weird), Pick(r, weird)})
	}
	return cp
}

func runC08(ctx *Ctx) error {
	ctx.ShardSize = 40
	ctx.Imports = []string{"Gpmf.Klv", "Gpmf.Mp4"}
	if raws, err := ctx.ReplayInputs(); err != nil {
		return err
	} else if raws != nil {
		for _, raw := range raws {
			var in c08Input
			if err := json.Unmarshal(raw, &in); err != nil {
				return err
			}
			addC08Case(ctx, in)
		}
		return nil
	}
	r := ctx.R
	for i := 0; i < ctx.N(200, 4000); i++ {
		p, t := genValidLayout(r, map[bool]int{false: 6, true: 9}[ctx.Thorough()])
		addC08Case(ctx, c08Input{hex.EncodeToString(p), t, true, "valid-layout", r.Chance(0.3)})
	}
	// no metadata track / other handler names
	p, t := genValidLayout(r, 3)
	t2 := t
	t2.NoMeta = true
	addC08Case(ctx, c08Input{hex.EncodeToString(p), t2, true, "no-meta-track", false})
	t3 := t
	t3.Name = "\tGoPro TCD"
	addC08Case(ctx, c08Input{hex.EncodeToString(p), t3, true, "other-handler-name", false})
	t4 := t
	t4.Handler = "soun"
	addC08Case(ctx, c08Input{hex.EncodeToString(p), t4, true, "other-handler-type", false})
	// hostile tables (the decoder half of C09): an error or a tree, never a crash or hang
	for i := 0; i < ctx.N(150, 6000); i++ {
		p, t := genValidLayout(r, 5)
		m := mutateTables(r, t)
		if r.Chance(0.3) {
			m = mutateTables(r, m)
		}
		if r.Chance(0.2) {
			p = mutateBytes(r, p)
		}
		addC08Case(ctx, c08Input{hex.EncodeToString(p), m, false, "hostile-tables", r.Chance(0.2)})
	}
	return nil
}
