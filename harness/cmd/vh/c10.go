package main

import (
	"encoding/json"
	"fmt"
	"strings"

	"github.com/stevenh/tracktools/pkg/trackaddict"
)

func init() { runners["C10"] = runC10 }

// The 18 unit columns with an accessor for the field each one targets.
type unitCol struct {
	Hdr string
	Get func(r *trackaddict.Record) (float64, bool)
}

func obdGet(f func(o *trackaddict.OBD) *float64) func(r *trackaddict.Record) (float64, bool) {
	return func(r *trackaddict.Record) (float64, bool) {
		if r.OBD == nil {
			return 0, false
		}
		p := f(r.OBD)
		if p == nil {
			return 0, false
		}
		return *p, true
	}
}

var unitCols = []unitCol{
	{"Speed (MPH)", func(r *trackaddict.Record) (float64, bool) { return r.Speed, true }},
	{"Speed (Km/h)", func(r *trackaddict.Record) (float64, bool) { return r.Speed, true }},
	{"Altitude (ft)", func(r *trackaddict.Record) (float64, bool) { return r.GPS.Altitude, true }},
	{"Altitude (m)", func(r *trackaddict.Record) (float64, bool) { return r.GPS.Altitude, true }},
	{"Pressure Altitude (ft)", func(r *trackaddict.Record) (float64, bool) { return r.PressureAltitute, true }},
	{"Pressure Altitude (m)", func(r *trackaddict.Record) (float64, bool) { return r.PressureAltitute, true }},
	{"Accuracy (ft)", func(r *trackaddict.Record) (float64, bool) { return r.GPS.Accuracy, true }},
	{"Accuracy (m)", func(r *trackaddict.Record) (float64, bool) { return r.GPS.Accuracy, true }},
	{"Barometric Pressure (PSI)", func(r *trackaddict.Record) (float64, bool) { return r.BarometricPressure, true }},
	{"Barometric Pressure (kPa)", func(r *trackaddict.Record) (float64, bool) { return r.BarometricPressure, true }},
	{"Intake Manifold Pressure (PSI) *OBD", obdGet(func(o *trackaddict.OBD) *float64 { return o.ManifoldPressure })},
	{"Intake Manifold Pressure (kPa) *OBD", obdGet(func(o *trackaddict.OBD) *float64 { return o.ManifoldPressure })},
	{"Engine Coolant Temp (F) *OBD", obdGet(func(o *trackaddict.OBD) *float64 { return o.CoolantTemp })},
	{"Engine Coolant Temp (C) *OBD", obdGet(func(o *trackaddict.OBD) *float64 { return o.CoolantTemp })},
	{"Intake Air Temp (F) *OBD", obdGet(func(o *trackaddict.OBD) *float64 { return o.IntakeTemp })},
	{"Intake Air Temp (C) *OBD", obdGet(func(o *trackaddict.OBD) *float64 { return o.IntakeTemp })},
	{"Vehicle Speed (mph) *OBD", obdGet(func(o *trackaddict.OBD) *float64 { return o.Speed })},
	{"Vehicle Speed (km/h) *OBD", obdGet(func(o *trackaddict.OBD) *float64 { return o.Speed })},
}

type c10Input struct {
	Col    int    `json:"col"`
	Cell   string `json:"cell"`
	Layout int    `json:"layout"`
	Mixed  string `json:"mixed,omitempty"` // a whole one-row log with one column per quantity
}

// genMixedLog: every dual-unit quantity once, unit system chosen per quantity, random order.
func genMixedLog(r *Rng) string {
	n := len(unitCols) / 2
	order := r.Perm(n)
	k := 2 + r.Intn(n-1)
	var hdr, row []string
	needOBD := false
	for _, q := range order[:k] {
		c := unitCols[2*q+r.Intn(2)]
		hdr = append(hdr, `"`+c.Hdr+`"`)
		row = append(row, genDecimal(r))
		if strings.HasSuffix(c.Hdr, "*OBD") {
			needOBD = true
		}
	}
	if needOBD && r.Bool() {
		hdr = append([]string{`"OBD_Update"`}, hdr...)
		row = append([]string{"1"}, row...)
	}
	return strings.Join(hdr, ",") + "\n" + strings.Join(row, ",") + "\n"
}

// genDecimal makes a plain decimal: sign, magnitude 1e-3..1e6, 0-6 fraction digits.
func genDecimal(r *Rng) string {
	var sb strings.Builder
	switch r.Intn(8) {
	case 0:
		sb.WriteString("-")
	case 1:
		if r.Chance(0.2) {
			sb.WriteString("+")
		}
	case 2:
		sb.WriteString("-")
	}
	intDigits := r.Intn(7)
	if intDigits == 0 {
		if r.Chance(0.8) {
			sb.WriteString("0")
		}
	} else {
		sb.WriteByte(byte('1' + r.Intn(9)))
		for i := 1; i < intDigits; i++ {
			sb.WriteByte(byte('0' + r.Intn(10)))
		}
	}
	frac := r.Intn(7)
	if r.Chance(0.03) {
		frac = 7 + r.Intn(14)
	}
	if frac > 0 || r.Chance(0.05) {
		sb.WriteString(".")
		for i := 0; i < frac; i++ {
			sb.WriteByte(byte('0' + r.Intn(10)))
		}
	}
	s := sb.String()
	if s == "" || s == "-" || s == "+" {
		s += "0"
	}
	return s
}

var c10Specials = []string{"0", "-0", "0.0", "32", "-40", "212", "1", "-1", "0.001", "999999.999999",
	"14.631", "97", "123", "10.6", "179.600", "138.200", "7.542", "10.563", "0.1", "0.3048", ".5", "5.",
	"100000000000000000000", "0.000000000000000000001", "1e3", "abc", "", "1.2.3", "--1", "Inf", "0x10"}

// c10Run decodes a one-row log whose header contains the column under test in one of
// three layouts and reads the column's target field.
func c10Run(in c10Input) (class int, bits uint64, detail string) {
	uc := unitCols[in.Col]
	var hdr, row []string
	switch in.Layout {
	case 0:
		hdr = []string{uc.Hdr}
		row = []string{in.Cell}
	case 1:
		hdr = []string{"Time", "UTC Time", uc.Hdr, "Latitude", "Heading"}
		row = []string{"0.010", "1653983971.010", in.Cell, "50.8590192", "167.9"}
	default:
		hdr = []string{"Heading", "Brake (calculated)", "Accel X", uc.Hdr}
		row = []string{"12.5", "0", "0.01", in.Cell}
		if strings.HasSuffix(uc.Hdr, "*OBD") {
			hdr = append([]string{"OBD_Update"}, hdr...)
			row = append([]string{"1"}, row...)
		}
	}
	q := func(xs []string) string {
		ys := make([]string, len(xs))
		for i, x := range xs {
			ys[i] = `"` + x + `"`
		}
		return strings.Join(ys, ",")
	}
	log := "# RaceRender Data: TrackAddict 4.8.0\n" + q(hdr) + "\n" + strings.Join(row, ",") + "\n"
	var sess *trackaddict.Session
	var err error
	panicked, msg := Guard(func() {
		var d *trackaddict.Decoder
		d, err = trackaddict.NewDecoder(strings.NewReader(log))
		if err == nil {
			sess, err = d.Decode()
		}
	})
	switch {
	case panicked:
		return 2, 0, msg
	case err != nil:
		return 1, 0, err.Error()
	}
	if len(sess.Laps) != 1 || len(sess.Laps[0].Records) != 1 {
		return 1, 0, "unexpected shape"
	}
	v, ok := uc.Get(&sess.Laps[0].Records[0])
	if !ok {
		return 4, 0, "field absent"
	}
	return 0, F64Bits(v), ""
}

func runC10(ctx *Ctx) error {
	var inputs []c10Input
	if raws, err := ctx.ReplayInputs(); err != nil {
		return err
	} else if raws != nil {
		for _, raw := range raws {
			var in c10Input
			if err := json.Unmarshal(raw, &in); err != nil {
				return err
			}
			inputs = append(inputs, in)
		}
	} else {
		per := ctx.N(12, 170)
		for col := range unitCols {
			for _, s := range c10Specials {
				if ctx.Thorough() || ctx.R.Chance(0.35) {
					inputs = append(inputs, c10Input{Col: col, Cell: s, Layout: ctx.R.Intn(3)})
				}
			}
			for i := 0; i < per; i++ {
				inputs = append(inputs, c10Input{Col: col, Cell: genDecimal(ctx.R), Layout: ctx.R.Intn(3)})
			}
		}
	}
	if ctx.Replay == "" {
		for i := 0; i < ctx.N(150, 2500); i++ {
			inputs = append(inputs, c10Input{Col: -1, Mixed: genMixedLog(ctx.R)})
		}
	}
	ctx.Imports = []string{"Trackaddict.Columns", "Trackaddict.Model", "Run.Ta_run"}
	for _, in := range inputs {
		if in.Mixed != "" {
			res := runTADecode(in.Mixed)
			obs := emptyObs
			if res.Sess != nil {
				obs = dumpSession(res.Sess)
			}
			ctx.Add(Case{
				Coq:   fmt.Sprintf("(Mixed (Ta_run.mkCase %s %s %s))", CoqStr(in.Mixed), CoqNat(res.Class), obs),
				Input: in, Obs: map[string]any{"class": res.Class, "detail": res.Detail},
				Key:  in.Mixed,
				Tags: []string{"layout:mixed", fmt.Sprintf("class:%d", res.Class)},
			})
			continue
		}
		class, bits, detail := c10Run(in)
		coq := fmt.Sprintf("mkCase %s %s %s %s", CoqStr(unitCols[in.Col].Hdr), CoqStr(in.Cell), CoqNat(class), CoqU64(bits))
		trivial := strings.Trim(in.Cell, "+-0.") == ""
		ctx.Add(Case{
			Coq:     "(One (" + coq + "))",
			Input:   in,
			Obs:     map[string]any{"class": class, "bits": bits, "detail": detail},
			Key:     fmt.Sprintf("%d|%s", in.Col, in.Cell),
			Trivial: trivial,
			Tags:    []string{"col:" + unitCols[in.Col].Hdr, fmt.Sprintf("layout:%d", in.Layout), fmt.Sprintf("class:%d", class)},
		})
	}
	return nil
}
