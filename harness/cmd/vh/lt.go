package main

import (
	"bytes"
	"compress/gzip"
	"encoding/json"
	"fmt"
	"io"
	"reflect"
	"strconv"
	"strings"
	"time"
	"unicode/utf8"

	"github.com/stevenh/tracktools/pkg/laptimer"
	"golang.org/x/text/encoding/charmap"
)

func init() {
	runners["C01"] = runC01
	runners["C13"] = runC13
}

// ---------------------------------------------------------------- reflective dump into the generic value

func coqText(s string) string {
	var xs []string
	for len(s) > 0 {
		r, n := utf8.DecodeRuneInString(s)
		xs = append(xs, strconv.Itoa(int(r))) // invalid bytes decode to U+FFFD, as in Go's range
		s = s[n:]
	}
	return "[" + strings.Join(xs, ";") + "]%Z"
}

var (
	tDuration  = reflect.TypeOf(laptimer.Duration(0))
	tLapDate   = reflect.TypeOf(laptimer.LapDate{})
	tFixDate   = reflect.TypeOf(laptimer.FixDate{})
	tF0        = reflect.TypeOf(laptimer.Float0dp(0))
	tF1        = reflect.TypeOf(laptimer.Float1dp(0))
	tF2        = reflect.TypeOf(laptimer.Float2dp(0))
	tF6        = reflect.TypeOf(laptimer.Float(0))
	tCoord     = reflect.TypeOf(laptimer.Coordinate{})
	tAltCoord  = reflect.TypeOf(laptimer.AltitudeCoordinate{})
	tPos       = reflect.TypeOf(laptimer.Positioning{})
	tRel       = reflect.TypeOf(laptimer.RelativeToStart{})
	tInter     = reflect.TypeOf(laptimer.Intermediates{})
	tGear      = reflect.TypeOf(laptimer.Gear{})
	tTyre      = reflect.TypeOf(laptimer.Tyre{})
	tTags      = reflect.TypeOf(laptimer.Tags{})
	tThreshold = reflect.TypeOf(laptimer.Threshold(0))
	tSync      = reflect.TypeOf(laptimer.SyncPoint(0))
)

func dumpLeaf(v reflect.Value) (string, bool) {
	switch v.Type() {
	case tDuration:
		return "(LvDur " + CoqZ(v.Int()) + ")", true
	case tLapDate:
		return "(LvLapDate " + CoqZ(time.Time(v.Interface().(laptimer.LapDate)).UnixNano()) + ")", true
	case tFixDate:
		return "(LvFixDate " + CoqZ(time.Time(v.Interface().(laptimer.FixDate)).UnixNano()) + ")", true
	case tF0:
		return "(LvF 0 " + CoqF64(v.Float()) + ")", true
	case tF1:
		return "(LvF 1 " + CoqF64(v.Float()) + ")", true
	case tF2:
		return "(LvF 2 " + CoqF64(v.Float()) + ")", true
	case tF6:
		return "(LvF 6 " + CoqF64(v.Float()) + ")", true
	case tCoord:
		c := v.Interface().(laptimer.Coordinate)
		return fmt.Sprintf("(LvCoord %s %s)", CoqF64(c.Latitude), CoqF64(c.Longitude)), true
	case tAltCoord:
		c := v.Interface().(laptimer.AltitudeCoordinate)
		return fmt.Sprintf("(LvAltCoord %s %s %s)", CoqF64(c.Latitude), CoqF64(c.Longitude), CoqF64(c.Altitude)), true
	case tPos:
		p := v.Interface().(laptimer.Positioning)
		return fmt.Sprintf("(LvPos %s %s %s)", CoqZ(int64(p.DifferentialStatus)), CoqZ(int64(p.PositionFixing)), CoqBool(p.Interpolated)), true
	case tRel:
		r := v.Interface().(laptimer.RelativeToStart)
		return fmt.Sprintf("(LvRel %s %s)", CoqF64(r.Distance), CoqZ(int64(r.Offset))), true
	case tInter:
		in := v.Interface().(laptimer.Intermediates)
		xs := make([]string, len(in))
		for i, e := range in {
			xs[i] = fmt.Sprintf("(%s, %s)", CoqZ(int64(e.Time)), CoqF64(e.Distance))
		}
		return "(LvInter " + zlist(xs) + ")", true
	case tGear:
		g := v.Interface().(laptimer.Gear)
		return fmt.Sprintf("(LvGear %s %s)", CoqZ(int64(g.Number)), CoqF64(g.Ratio)), true
	case tTyre:
		t := v.Interface().(laptimer.Tyre)
		return fmt.Sprintf("(LvTyre %s %s %s %s)", CoqZ(int64(t.Width)), CoqZ(int64(t.Profile)), coqText(t.SpeedRating), CoqZ(int64(t.Size))), true
	case tTags:
		tg := v.Interface().(laptimer.Tags)
		xs := make([]string, len(tg))
		for i, s := range tg {
			xs[i] = coqText(s)
		}
		return "(LvTags " + zlist(xs) + ")", true
	case tThreshold:
		return "(LvThresh " + CoqZ(v.Int()) + ")", true
	case tSync:
		return "(LvSync " + CoqZ(v.Int()) + ")", true
	}
	switch v.Kind() {
	case reflect.String:
		return "(LvStr " + coqText(v.String()) + ")", true
	case reflect.Int, reflect.Int64, reflect.Int32:
		return "(LvInt " + CoqZ(v.Int()) + ")", true
	case reflect.Bool:
		return "(LvBool " + CoqBool(v.Bool()) + ")", true
	case reflect.Float64:
		return fmt.Sprintf("(LvFg %s (s_of_bytes %s))", CoqF64(v.Float()), CoqStr(strconv.FormatFloat(v.Float(), 'g', -1, 64))), true
	}
	return "", false
}

func dumpVal(v reflect.Value) string {
	if s, ok := dumpLeaf(v); ok {
		return "(VLeaf " + s + ")"
	}
	if v.Kind() != reflect.Struct {
		return fmt.Sprintf("(VLeaf (LvStr %s))", coqText(fmt.Sprintf("<unsupported %s>", v.Type())))
	}
	var fields []string
	t := v.Type()
	for i := 0; i < t.NumField(); i++ {
		f := t.Field(i)
		if f.Name == "XMLName" {
			continue
		}
		tag := f.Tag.Get("xml")
		parts := strings.Split(tag, ",")
		name := parts[0]
		mode := "MPlain"
		for _, p := range parts[1:] {
			switch p {
			case "omitempty":
				mode = "MOmit"
			case "attr":
				mode = "MAttr"
			}
		}
		fv := v.Field(i)
		var fs string
		_, isLeaf := dumpLeaf(fv)
		switch {
		case isLeaf:
			fs = "(FOne " + dumpVal(fv) + ")"
		case fv.Kind() == reflect.Pointer:
			if fv.IsNil() {
				fs = "(FPtr None)"
			} else {
				fs = "(FPtr (Some " + dumpVal(fv.Elem()) + "))"
			}
		case fv.Kind() == reflect.Slice:
			xs := make([]string, fv.Len())
			for j := 0; j < fv.Len(); j++ {
				xs[j] = dumpVal(fv.Index(j))
			}
			fs = "(FMany " + zlist(xs) + ")"
		default:
			fs = "(FOne " + dumpVal(fv) + ")"
		}
		fields = append(fields, fmt.Sprintf("(s_of_bytes %s, %s, %s)", CoqStr(name), mode, fs))
	}
	return "(VStruct " + zlist(fields) + ")"
}

// schemaLines: every struct reachable from DB with its xml tags: the format's field names.
func schemaLines() []string {
	var out []string
	seen := map[reflect.Type]bool{}
	var walk func(t reflect.Type)
	walk = func(t reflect.Type) {
		for t.Kind() == reflect.Pointer || t.Kind() == reflect.Slice {
			t = t.Elem()
		}
		if t.Kind() != reflect.Struct || seen[t] || t == tLapDate || t == tFixDate || t.PkgPath() != tDuration.PkgPath() {
			return
		}
		seen[t] = true
		if _, ok := dumpLeaf(reflect.Zero(t)); ok {
			return
		}
		for i := 0; i < t.NumField(); i++ {
			f := t.Field(i)
			out = append(out, fmt.Sprintf("%s.%s|%s|%s", t.Name(), f.Name, f.Tag.Get("xml"), f.Type.String()))
			walk(f.Type)
		}
	}
	walk(reflect.TypeOf(laptimer.DB{}))
	return out
}

// ---------------------------------------------------------------- running the real codec

type ltObs struct {
	Class                       int
	Detail                      string
	Bytes                       []byte
	Decoded                     *laptimer.DB
	DecOK, Reenc, GzOK, CpOK bool
}

func encodeDB(db *laptimer.DB, opts ...laptimer.EncoderOpt) ([]byte, error) {
	var buf bytes.Buffer
	enc, err := laptimer.NewEncoder(&buf, opts...)
	if err != nil {
		return nil, err
	}
	if err := enc.Encode(db); err != nil {
		return nil, err
	}
	return buf.Bytes(), nil
}

func runLT(db *laptimer.DB) ltObs {
	var o ltObs
	done := make(chan struct{})
	var panicked bool
	var msg string
	go func() {
		defer close(done)
		panicked, msg = Guard(func() {
			b, err := encodeDB(db)
			if err != nil {
				o.Class, o.Detail = 1, err.Error()
				return
			}
			o.Bytes = b
			var back laptimer.DB
			if err := laptimer.NewDecoder(bytes.NewReader(b)).Decode(&back); err == nil {
				o.DecOK = true
				o.Decoded = &back
				if b2, err := encodeDB(&back); err == nil {
					o.Reenc = bytes.Equal(b, b2)
				}
			} else {
				o.Detail = "decode: " + err.Error()
			}
			// gzip: a complete stream of exactly those bytes
			if gz, err := encodeDB(db, laptimer.Compress()); err == nil {
				if zr, err := gzip.NewReader(bytes.NewReader(gz)); err == nil {
					if plain, err := io.ReadAll(zr); err == nil && bytes.Equal(plain, b) {
						o.GzOK = true
					}
				}
			}
			// windows-1252: when every character is in the repertoire, the transcoded document decodes to the same value
			o.CpOK = true
			doc := strings.Replace(string(b), `encoding="UTF-8"`, `encoding="windows-1252"`, 1)
			if cp, err := charmap.Windows1252.NewEncoder().String(doc); err == nil && o.DecOK {
				var viaCp laptimer.DB
				if err := laptimer.NewDecoder(strings.NewReader(cp)).Decode(&viaCp); err != nil || !reflect.DeepEqual(normDB(&viaCp), normDB(&back)) {
					o.CpOK = false
				}
			}
		})
	}()
	select {
	case <-done:
	case <-time.After(30 * time.Second):
		return ltObs{Class: 3, Detail: "timeout"}
	}
	if panicked {
		return ltObs{Class: 2, Detail: msg}
	}
	return o
}

func bytesReader(b []byte) *bytes.Reader { return bytes.NewReader(b) }

// normDB makes time values comparable with DeepEqual (monotonic/location free).
func normDB(db *laptimer.DB) *laptimer.DB {
	b, _ := json.Marshal(db)
	var out laptimer.DB
	_ = json.Unmarshal(b, &out)
	return &out
}

func addLTCase(ctx *Ctx, db *laptimer.DB, inDomain bool, kind string) {
	o := runLT(db)
	dec := "(VStruct [])"
	if o.Decoded != nil {
		dec = dumpVal(reflect.ValueOf(*o.Decoded))
	}
	sl := schemaLines()
	sch := make([]string, len(sl))
	for i, l := range sl {
		sch[i] = CoqStr(l)
	}
	coq := fmt.Sprintf("(mkCase %s %s %s %s %s %s %s %s %s %s)", dumpVal(reflect.ValueOf(*db)), CoqNat(o.Class), CoqBytes(o.Bytes), dec,
		CoqBool(o.DecOK), CoqBool(o.Reenc), CoqBool(o.GzOK), CoqBool(o.CpOK), zlist(sch), CoqBool(inDomain))
	b := dbToJSON(db)
	ctx.Add(Case{Coq: coq, Input: b, Obs: map[string]any{"class": o.Class, "detail": o.Detail, "bytes": len(o.Bytes), "dec_ok": o.DecOK, "reenc_equal": o.Reenc, "gz_ok": o.GzOK, "cp1252_ok": o.CpOK},
		Key: string(b), Trivial: len(db.Laps) == 0 && len(db.Vehicles) == 0,
		Tags: []string{"kind:" + kind, fmt.Sprintf("class:%d", o.Class), fmt.Sprintf("laps:%d", len(db.Laps)), fmt.Sprintf("reenc:%v", o.Reenc)}})
}

// ---------------------------------------------------------------- generators

var textAlphabet = []string{"a", "b", "Z", "0", " ", "\"", "'", "&", "<", ">", "\t", "\n", "\r", "é", "€", "—", "😀", "]]>", "&#xA;", "&amp;", "ü", ",", ".", "%"}

// genLongText: several kilobytes dense in characters that are written as entities first, so
// that entity spellings straddle whatever buffer boundaries the encoder's filter has.
func genLongText(r *Rng) string {
	var sb strings.Builder
	n := 1500 + r.Intn(2500)
	for i := 0; i < n; i++ {
		sb.WriteString(Pick(r, []string{"\t", "\n", "\"", "'", "\t", "\n", "a", "xy"}))
	}
	return sb.String()
}

// mojibakeMode: every text of the database is ASCII plus two-character sequences whose windows-1252
// bytes happen to form valid UTF-8 (what a mis-decoded UTF-8 file looks like): the transcoded
// document is then valid UTF-8 as a whole although it is windows-1252.
var mojibakeMode bool
var mojibakeAlphabet = []string{"a", "B", " ", "São", "Ã£", "Â©", "Ã¼", "Ã©", "Â£", "x", "7", "-", "Ã±"}

func genText(r *Rng, domain bool, noComma, token bool) string {
	if mojibakeMode {
		var sb strings.Builder
		for i := 0; i < 1+r.Intn(6); i++ {
			s := Pick(r, mojibakeAlphabet)
			if token && s == " " {
				continue
			}
			sb.WriteString(s)
		}
		if token && sb.Len() == 0 {
			return "W"
		}
		return sb.String()
	}
	if !noComma && !token && r.Chance(0.03) {
		return genLongText(r)
	}
	n := r.Intn(8)
	if r.Chance(0.1) {
		n = 20 + r.Intn(40)
	}
	var sb strings.Builder
	for i := 0; i < n; i++ {
		s := Pick(r, textAlphabet)
		if noComma && strings.Contains(s, ",") {
			continue
		}
		if token && (strings.TrimSpace(s) != s || s == " " || s == "\t" || s == "\n" || s == "\r") {
			continue
		}
		sb.WriteString(s)
		if !domain && r.Chance(0.1) {
			sb.WriteString(Pick(r, []string{"\x00", "\x01", "\x0b", "￾", "\xff", "\xed\xa0\x80", "\x1f"}))
		}
	}
	if token && sb.Len() == 0 {
		return "W"
	}
	return sb.String()
}

func genFixed(r *Rng, dp int) float64 {
	scale := math10(dp)
	switch r.Intn(8) {
	case 0:
		return 0
	case 1:
		return float64(r.Intn(2000000)-1000000) / scale
	case 2: // near half an ulp of the printed precision
		return (float64(r.Intn(20000)-10000) + 0.5) / scale
	case 3:
		return float64(r.Intn(2000)-1000)/scale + 1e-9
	default:
		return float64(r.Intn(20000000)-10000000) / (scale * 7)
	}
}
func math10(n int) float64 {
	v := 1.0
	for i := 0; i < n; i++ {
		v *= 10
	}
	return v
}

func genDur(r *Rng) laptimer.Duration {
	if r.Chance(0.12) {
		// nanosecond resolution next to a whole second or a whole hundredth
		// ... or a whole minute (a rounded seconds part must carry into the minutes)
		unit := Pick(r, []int64{1000000000, 10000000, 60000000000})
		n := int64(1 + r.Intn(7000))
		if unit == 60000000000 {
			n = int64(1 + r.Intn(150))
		}
		return laptimer.Duration(n*unit + Pick(r, []int64{-1, -999, -1000, -1001, 1, 999, -500000, -4000000}))
	}
	switch r.Intn(5) {
	case 0:
		return 0
	case 1:
		return laptimer.Duration(time.Duration(r.Intn(7200000)) * time.Millisecond)
	case 2:
		return laptimer.Duration(time.Duration(100+r.Intn(100))*time.Minute + time.Duration(r.Intn(60000))*time.Millisecond)
	case 3:
		return laptimer.Duration(time.Duration(r.Intn(1000000000)) * time.Nanosecond * 61)
	default:
		return laptimer.Duration(time.Duration(r.Intn(360000)) * 10 * time.Millisecond)
	}
}

// genSync: video sync offsets.  In C01's domain whole hundredths from zero up; for C13 (syntax only) also
// offsets before the start of the video and sub-hundredth values.
func genSync(r *Rng, domain bool) laptimer.SyncPoint {
	d := time.Duration(r.Intn(100000)) * 10 * time.Millisecond
	if !domain && r.Chance(0.4) {
		d = time.Duration(r.Intn(400000)-200000)*time.Millisecond + time.Duration(r.Intn(1000))*time.Microsecond
	}
	return laptimer.SyncPoint(d)
}

func genTime(r *Rng) time.Time {
	y := 1969 + r.Intn(100)
	t := time.Date(y, time.Month(1+r.Intn(12)), 1+r.Intn(28), r.Intn(24), r.Intn(60), r.Intn(60), r.Intn(1000)*1000000, time.UTC)
	if r.Chance(0.3) {
		t = t.In(time.FixedZone("x", 3600*(r.Intn(24)-12)))
	}
	return t
}

func genOptF[T ~float64](r *Rng, dp int, domain bool) T {
	if r.Chance(0.5) {
		return 0
	}
	v := genFixed(r, dp)
	if domain && v != 0 && math_abs(v)*math10(dp) < 0.5 {
		return T(1 / math10(dp))
	}
	return T(v)
}
func math_abs(v float64) float64 {
	if v < 0 {
		return -v
	}
	return v
}

func genFix(r *Rng, id int, domain bool) laptimer.Fix {
	f := laptimer.Fix{ID: id, Date: laptimer.FixDate(genTime(r)),
		Coordinate: laptimer.AltitudeCoordinate{Coordinate: laptimer.Coordinate{Latitude: genFixed(r, 8) / 100, Longitude: -genFixed(r, 8) / 50}, Altitude: genFixed(r, 1)},
		Speed:      laptimer.Float1dp(genFixed(r, 1)), Positioning: laptimer.Positioning{DifferentialStatus: laptimer.DifferentialStatus(r.Intn(4)), PositionFixing: laptimer.PositionFixing(r.Intn(5)), Interpolated: r.Bool()},
		Satellites: r.Intn(20), Direction: laptimer.Float1dp(genFixed(r, 1)), Hdop: laptimer.Float2dp(genFixed(r, 2)), Accuracy: laptimer.Float1dp(genFixed(r, 1)),
		RelativeToStart: laptimer.RelativeToStart{Distance: genFixed(r, 1), Offset: genDur(r)}}
	if r.Chance(0.4) {
		f.Acceleration = &laptimer.Acceleration{Source: r.Intn(3), Lateral: laptimer.Float2dp(genFixed(r, 2)), Lineal: laptimer.Float2dp(genFixed(r, 2)),
			Coordinate: laptimer.Coordinate{Latitude: genFixed(r, 8) / 100, Longitude: genFixed(r, 8) / 100}}
	}
	if r.Chance(0.4) {
		o := &laptimer.OBD{}
		if r.Bool() {
			v := r.Intn(9000)
			o.EngineRPM = &v
		}
		if r.Bool() {
			v := laptimer.Float1dp(genFixed(r, 1))
			o.VehicleSpeed = &v
		}
		if r.Bool() {
			v := laptimer.Float2dp(genFixed(r, 2))
			o.Throttle = &v
		}
		if r.Bool() {
			v := laptimer.Float0dp(genFixed(r, 0))
			o.IntakeAirTemperature = &v
		}
		if r.Chance(0.3) {
			v := float64(r.Intn(1000)) / 8
			o.OilPressure = &v
		}
		if r.Chance(0.2) {
			v := laptimer.FixType(r.Intn(4))
			o.FixType = &v
		}
		f.OBD = o
	}
	if r.Chance(0.2) {
		tp := &laptimer.TPMS{}
		for i := 0; i < r.Intn(4); i++ {
			tp.Tyres = append(tp.Tyres, laptimer.TPMSTyre{Position: laptimer.TyrePosition(2 + r.Intn(4)), Temperature: laptimer.Float1dp(genFixed(r, 1))})
		}
		f.TPMS = tp
	}
	return f
}

func genDB(r *Rng, domain bool) *laptimer.DB {
	db := laptimer.NewDB()
	if r.Chance(0.3) {
		db.Name = genText(r, domain, false, false)
	}
	id := 1
	for i := 0; i < r.Intn(4); i++ {
		l := laptimer.Lap{ID: r.Intn(100), Date: laptimer.LapDate(genTime(r)), LapTime: genDur(r), Vehicle: genText(r, domain, false, false), Track: genText(r, domain, false, false),
			LapRecordingType: laptimer.LapRecordingType(r.Intn(4)), OverallDistance: laptimer.Float1dp(genFixed(r, 1)), WeatherCondition: r.Intn(3),
			AmbientTemp: genOptF[laptimer.Float1dp](r, 1, domain), AmbientPressure: genOptF[laptimer.Float0dp](r, 0, domain), RelativeHumidity: genOptF[laptimer.Float2dp](r, 2, domain),
			Note: genText(r, domain, false, false)}
		for j := 0; j < r.Intn(3); j++ {
			l.Intermediates = append(l.Intermediates, laptimer.Intermediate{Time: genDur(r), Distance: genFixed(r, 1)})
		}
		for j := 0; j < r.Intn(3); j++ {
			l.Videos = append(l.Videos, laptimer.Video{Overlaid: r.Bool(), URL: genText(r, domain, false, false), SyncPoint: genSync(r, domain)})
		}
		for j := 0; j < r.Intn(3); j++ {
			l.Tags = append(l.Tags, genText(r, domain, true, false))
		}
		for j := 0; j < r.Intn(5); j++ {
			l.Recording.Fixes = append(l.Recording.Fixes, genFix(r, id, domain))
			id++
		}
		db.Laps = append(db.Laps, l)
	}
	for i := 0; i < r.Intn(2); i++ {
		vs := laptimer.Vehicles{}
		for j := 0; j < 1+r.Intn(2); j++ {
			v := laptimer.Vehicle{Index: j, Name: genText(r, domain, false, false), PowerLoss: genOptF[laptimer.Float](r, 6, domain), UnladenWeight: genOptF[laptimer.Float](r, 6, domain),
				MaxTorque: r.Intn(3) * 100, Vin: genText(r, domain, false, false), DriveWheels: Pick(r, []laptimer.DriveWheels{"", laptimer.RearWheelDrive, laptimer.AllWheelDrive}),
				IntakeType: Pick(r, []laptimer.IntakeType{"", laptimer.Turbocharged}), EngineType: Pick(r, []laptimer.EngineType{"", laptimer.Otto}),
				ShiftGearThreshold: laptimer.Threshold(r.Intn(3) * 45), Year: r.Intn(2) * 2019, TurningCircle: genOptF[laptimer.Float1dp](r, 1, domain), OriginalContributor: r.Bool(), Style: genText(r, domain, false, false)}
			if r.Bool() {
				g := &laptimer.Gears{}
				for k := 0; k < r.Intn(4); k++ {
					g.Gears = append(g.Gears, laptimer.Gear{Number: k + 1, Ratio: genFixed(r, 6)})
				}
				v.Gears = g
			}
			if r.Bool() {
				v.FrontWheels = &laptimer.Tyre{Width: 200 + r.Intn(100), Profile: 30 + r.Intn(30), Size: 15 + r.Intn(8), SpeedRating: genText(r, domain, false, true)}
			}
			vs.Vehicles = append(vs.Vehicles, v)
		}
		db.Vehicles = append(db.Vehicles, vs)
	}
	return db
}

func replayLT(ctx *Ctx) (bool, error) {
	raws, err := ctx.ReplayInputs()
	if err != nil || raws == nil {
		return false, err
	}
	for _, raw := range raws {
		db, err := dbFromJSON(raw)
		if err != nil {
			return true, err
		}
		addLTCase(ctx, db, true, "replay")
	}
	return true, nil
}

func runC01(ctx *Ctx) error {
	ctx.ShardSize = 25
	ctx.HypLine = true
	ctx.Imports = []string{"Xml.Print", "Laptimer.Value", "Run.Lt_run"}
	if os_schema(ctx) {
		return nil
	}
	if done, err := replayLT(ctx); done || err != nil {
		return err
	}
	for i := 0; i < ctx.N(220, 5000); i++ {
		if ctx.R.Chance(0.08) {
			mojibakeMode = true
			addLTCase(ctx, genDB(ctx.R, true), true, "domain-mojibake")
			mojibakeMode = false
			continue
		}
		addLTCase(ctx, genDB(ctx.R, true), true, "domain")
	}
	return nil
}

func runC13(ctx *Ctx) error {
	ctx.ShardSize = 25
	ctx.Imports = []string{"Xml.Print", "Laptimer.Value", "Run.Lt_run"}
	if done, err := replayLT(ctx); done || err != nil {
		return err
	}
	for i := 0; i < ctx.N(120, 3000); i++ {
		addLTCase(ctx, genDB(ctx.R, true), true, "domain")
	}
	for i := 0; i < ctx.N(120, 3000); i++ {
		addLTCase(ctx, genDB(ctx.R, false), false, "any-text")
	}
	return nil
}

// os_schema prints the reflected schema as a Coq definition when VH_SCHEMA is set.
func os_schema(ctx *Ctx) bool {
	if ctx.Tier != "schema" {
		return false
	}
	fmt.Println("From Coq Require Import String List. Import ListNotations. Local Open Scope string_scope.")
	fmt.Println("(* field names, xml tags and Go types of every struct reachable from laptimer.DB: LapTimer's element names *)")
	fmt.Println("Definition expected_schema : list string := [")
	sl := schemaLines()
	for i, l := range sl {
		sep := ";"
		if i == len(sl)-1 {
			sep = ""
		}
		fmt.Printf("  %q%s\n", l, sep)
	}
	fmt.Println("].")
	return true
}
