package main

import (
	"bytes"
	"encoding/binary"
	"fmt"
	"math"
	"sort"
	"strings"
	"time"

	"github.com/stevenh/tracktools/pkg/gopro/gpmf"
)

// ---------------------------------------------------------------- dump of the real tree as Coq terms

func zlist(xs []string) string { return "[" + strings.Join(xs, ";") + "]" }

func coqInts(kind string, scalar bool, vals []int64) string {
	xs := make([]string, len(vals))
	for i, v := range vals {
		xs[i] = CoqZ(v)
	}
	return fmt.Sprintf("(DInts %s %s %s)", kind, CoqBool(scalar), zlist(xs))
}
func coqU64s(vals []uint64) string {
	xs := make([]string, len(vals))
	for i, v := range vals {
		xs[i] = CoqU64(v)
	}
	return zlist(xs)
}
func f64row(vals ...float64) string {
	xs := make([]string, len(vals))
	for i, v := range vals {
		xs[i] = CoqF64(v)
	}
	return zlist(xs)
}

func toI64[T int8 | int16 | int32 | int64 | uint8 | uint16 | uint32 | gpmf.Int16_16 | gpmf.Int32_32](xs []T) []int64 {
	r := make([]int64, len(xs))
	for i, x := range xs {
		r[i] = int64(x)
	}
	return r
}

func dumpData(d any) string {
	switch v := d.(type) {
	case nil:
		return "DNil"
	case int8:
		return coqInts("I8", true, []int64{int64(v)})
	case []int8:
		return coqInts("I8", false, toI64(v))
	case uint8:
		return coqInts("U8", true, []int64{int64(v)})
	case []uint8:
		return coqInts("U8", false, toI64(v))
	case int16:
		return coqInts("I16", true, []int64{int64(v)})
	case []int16:
		return coqInts("I16", false, toI64(v))
	case uint16:
		return coqInts("U16", true, []int64{int64(v)})
	case []uint16:
		return coqInts("U16", false, toI64(v))
	case int32:
		return coqInts("I32", true, []int64{int64(v)})
	case []int32:
		return coqInts("I32", false, toI64(v))
	case uint32:
		return coqInts("U32", true, []int64{int64(v)})
	case []uint32:
		return coqInts("U32", false, toI64(v))
	case int64:
		return coqInts("I64", true, []int64{v})
	case []int64:
		return coqInts("I64", false, v)
	case uint64:
		return fmt.Sprintf("(DInts U64 true %s)", coqU64s([]uint64{v}))
	case []uint64:
		return fmt.Sprintf("(DInts U64 false %s)", coqU64s(v))
	case gpmf.Int16_16:
		return coqInts("Q32", true, []int64{int64(v)})
	case []gpmf.Int16_16:
		return coqInts("Q32", false, toI64(v))
	case gpmf.Int32_32:
		return coqInts("Q64", true, []int64{int64(v)})
	case []gpmf.Int32_32:
		return coqInts("Q64", false, toI64(v))
	case float32:
		return fmt.Sprintf("(DF32 true %s)", coqU64s([]uint64{uint64(math.Float32bits(v))}))
	case []float32:
		u := make([]uint64, len(v))
		for i, x := range v {
			u[i] = uint64(math.Float32bits(x))
		}
		return fmt.Sprintf("(DF32 false %s)", coqU64s(u))
	case float64:
		return fmt.Sprintf("(DF64 true %s)", coqU64s([]uint64{math.Float64bits(v)}))
	case []float64:
		// raw float64 slices (type d) keep their bits; scaled data is canonicalised
		u := make([]uint64, len(v))
		for i, x := range v {
			u[i] = math.Float64bits(x)
		}
		return "RAWF64:" + coqU64s(u)
	case gpmf.Scale:
		u := make([]uint64, len(v))
		for i, x := range v {
			u[i] = F64Bits(x)
		}
		return fmt.Sprintf("(DScaled %s)", coqU64s(u))
	case string:
		return fmt.Sprintf("(DStrs true [%s])", CoqStr(v))
	case []string:
		xs := make([]string, len(v))
		for i, s := range v {
			xs[i] = CoqStr(s)
		}
		return fmt.Sprintf("(DStrs false %s)", zlist(xs))
	case time.Time:
		return fmt.Sprintf("(DTimes true [%s])", CoqZ(v.UnixNano()))
	case []time.Time:
		xs := make([]string, len(v))
		for i, t := range v {
			xs[i] = CoqZ(t.UnixNano())
		}
		return fmt.Sprintf("(DTimes false %s)", zlist(xs))
	case gpmf.GPSData:
		xs := make([]string, len(v))
		for i, g := range v {
			xs[i] = f64row(g.Latitude, g.Longitude, g.Altitude, g.Speed, g.Speed3D)
		}
		return fmt.Sprintf("(DGps %s)", zlist(xs))
	case gpmf.AccelData:
		xs := make([]string, len(v))
		for i, g := range v {
			xs[i] = f64row(g.X, g.Y, g.Z)
		}
		return fmt.Sprintf("(DVec3 0 %s)", zlist(xs))
	case gpmf.GyroData:
		xs := make([]string, len(v))
		for i, g := range v {
			xs[i] = f64row(g.X, g.Y, g.Z)
		}
		return fmt.Sprintf("(DVec3 1 %s)", zlist(xs))
	case gpmf.MagnetometerData:
		xs := make([]string, len(v))
		for i, g := range v {
			xs[i] = f64row(g.X, g.Y, g.Z)
		}
		return fmt.Sprintf("(DVec3 2 %s)", zlist(xs))
	case gpmf.WhiteBalanceRGBData:
		xs := make([]string, len(v))
		for i, g := range v {
			xs[i] = f64row(g.Red, g.Green, g.Blue)
		}
		return fmt.Sprintf("(DVec3 3 %s)", zlist(xs))
	case gpmf.GPSDoP:
		return fmt.Sprintf("(DGpsDop %s)", CoqF64(float64(v)))
	case gpmf.GPSFix:
		return fmt.Sprintf("(DGpsFix %s)", CoqZ(int64(v)))
	case []gpmf.Face6:
		xs := make([]string, len(v))
		for i, f := range v {
			xs[i] = face6(f)
		}
		return fmt.Sprintf("(DFaces 6 %s)", zlist(xs))
	case []gpmf.Face7:
		xs := make([]string, len(v))
		for i, f := range v {
			xs[i] = strings.TrimSuffix(face6(f.Face6), "]") + ";" + f32z(f.Smile) + "]"
		}
		return fmt.Sprintf("(DFaces 7 %s)", zlist(xs))
	case []gpmf.Face8:
		xs := make([]string, len(v))
		for i, f := range v {
			xs[i] = strings.TrimSuffix(face6(f.Face6), "]") + ";" + f32z(f.Smile) + ";" + f32z(f.Confidence) + "]"
		}
		return fmt.Sprintf("(DFaces 8 %s)", zlist(xs))
	case []gpmf.Face10:
		xs := make([]string, len(v))
		for i, f := range v {
			xs[i] = zlist([]string{CoqZ(int64(f.Version)), CoqZ(int64(f.Confidence)), CoqZ(int64(f.ID)), CoqZ(int64(f.X)),
				CoqZ(int64(f.Y)), CoqZ(int64(f.Width)), CoqZ(int64(f.Height)), CoqZ(int64(f.Smile)), CoqZ(int64(f.Blink))})
		}
		return fmt.Sprintf("(DFaces 10 %s)", zlist(xs))
	default:
		return fmt.Sprintf("(DStrs true [%s])", CoqStr(fmt.Sprintf("<unknown go type %T>", d)))
	}
}
func f32z(f float32) string { return CoqU64(uint64(math.Float32bits(f))) }
func face6(f gpmf.Face6) string {
	return zlist([]string{CoqZ(int64(f.ID)), f32z(f.X), f32z(f.Y), f32z(f.Width), f32z(f.Height)})
}

// dumpElemData distinguishes raw float64 slices from scaled ones by the header type.
func dumpElemData(e *gpmf.Element) string {
	s := dumpData(e.Data)
	if strings.HasPrefix(s, "RAWF64:") {
		v := e.Data.([]float64)
		if e.Header.Type == gpmf.Float64 && !elemWasScaled(e) {
			return "(DF64 false " + strings.TrimPrefix(s, "RAWF64:") + ")"
		}
		u := make([]uint64, len(v))
		for i, x := range v {
			u[i] = F64Bits(x)
		}
		return "(DScaled " + coqU64s(u) + ")"
	}
	return s
}

// elemWasScaled: a type-d element that was scaled holds []float64 even for one value, and an
// unscaled single value is a scalar float64; for several values the two cannot be told apart
// from the outside, and they carry the same numbers except for NaN canonicalisation and the
// division.  The harness knows from its own generator whether a SCAL preceded; see scaledKeys.
var scaledMark = map[*gpmf.Element]bool{}

func elemWasScaled(e *gpmf.Element) bool { return scaledMark[e] }

func dumpMeta(m map[string]any) string {
	keys := make([]string, 0, len(m))
	for k := range m {
		keys = append(keys, k)
	}
	sort.Strings(keys)
	xs := make([]string, len(keys))
	for i, k := range keys {
		v := m[k]
		var ds string
		if s, ok := v.(string); ok && strings.HasPrefix(s, "unknown lock: ") {
			ds = fmt.Sprintf("(DStrs true [%s])", CoqStr("unknown lock: ?"))
		} else if fs, ok := v.([]float64); ok {
			u := make([]uint64, len(fs))
			for i, x := range fs {
				u[i] = math.Float64bits(x)
			}
			ds = "(DF64 false " + coqU64s(u) + ")"
		} else {
			ds = dumpData(v)
		}
		xs[i] = fmt.Sprintf("(s_of_bytes %s, %s)", CoqStr(k), ds)
	}
	return zlist(xs)
}

func dumpElem(e *gpmf.Element, prevScale *bool) string {
	kids := make([]string, len(e.Nested))
	pending := false
	for i, k := range e.Nested {
		kids[i] = dumpElem(k, &pending)
	}
	if prevScale != nil {
		if *prevScale {
			scaledMark[e] = true
		}
		*prevScale = e.Header.FourCC() == gpmf.KeyScale
	}
	s := fmt.Sprintf("(Elem %s %d %d %d %s %s %s)", CoqBytes(e.Header.Key[:]), int(e.Header.Type), int(e.Header.Size),
		int(e.Header.Count), dumpElemData(e), dumpMeta(e.Metadata), zlist(kids))
	delete(scaledMark, e)
	return s
}

func dumpTree(es []*gpmf.Element) string {
	xs := make([]string, len(es))
	pending := false
	for i, e := range es {
		xs[i] = dumpElem(e, &pending)
	}
	return zlist(xs)
}

// ---------------------------------------------------------------- KLV synthesis

type knode struct {
	Key   string
	Typ   byte
	Size  int
	Count int
	Data  []byte
	Kids  []*knode
}

func (n *knode) encode() []byte {
	var body []byte
	size, count := n.Size, n.Count
	if n.Typ == 0 {
		for _, k := range n.Kids {
			body = append(body, k.encode()...)
		}
		if size == 0 && count == 0 {
			size, count = nestDims(len(body), 0)
		}
	} else {
		body = n.Data
	}
	b := []byte(n.Key)
	b = append(b, n.Typ, byte(size), byte(count>>8), byte(count))
	b = append(b, body...)
	for len(b)%4 != 0 {
		b = append(b, 0)
	}
	return b
}

// nestDims expresses a container body length as size*count.
func nestDims(n int, variant int) (int, int) {
	if n == 0 {
		return 1, 0
	}
	if variant%2 == 0 && n%4 == 0 && n/4 <= 65535 {
		return 4, n / 4
	}
	if n <= 65535 {
		return 1, n
	}
	for s := 2; s <= 255; s++ {
		if n%s == 0 && n/s <= 65535 {
			return s, n / s
		}
	}
	return 4, n / 4
}

func encodeForest(ns []*knode) []byte {
	var b []byte
	for _, n := range ns {
		b = append(b, n.encode()...)
	}
	return b
}

var gpmfTypes = []byte("bBsSlLfdjJqQcFGU")

func typeWidth(t byte) int {
	switch t {
	case 'b', 'B', 'c':
		return 1
	case 's', 'S':
		return 2
	case 'l', 'L', 'f', 'q', 'F':
		return 4
	case 'd', 'j', 'J', 'Q':
		return 8
	case 'G', 'U':
		return 16
	}
	return 1
}

var plainKeys = []string{"ABCD", "XYZ1", "TICK", "TOCK", "SHUT", "ISOG", "WBAL", "YAVG", "HUES", "UNIF", "SCEN", "SROT",
	"CORI", "IORI", "GRAV", "WNDM", "MWET", "AALP", "DISP", "MSKP", "LSKP", "VERS", "FREE", "EMPT", "TIMO", "STMP", "RMRK", "ORIN", "MTRX"}
var metaKeys = []string{"STNM", "SIUN", "UNIT", "TYPE", "TSMP", "TMPC", "DVID", "DVNM", "GPSU"}

func randDate(r *Rng) []byte {
	t := time.Date(1969+r.Intn(100), time.Month(1+r.Intn(12)), 1+r.Intn(28), r.Intn(24), r.Intn(60), r.Intn(60), r.Intn(1000)*1e6, time.UTC)
	if r.Chance(0.1) {
		t = time.Date(2000+4*r.Intn(10), 2, 29, 23, 59, 59, 999e6, time.UTC)
	}
	return []byte(t.Format("060102150405.000"))
}

func randBytes(r *Rng, n int) []byte {
	b := make([]byte, n)
	mode := r.Intn(6)
	for i := range b {
		switch mode {
		case 0:
			b[i] = 0
		case 1:
			b[i] = 0xff
		case 2:
			b[i] = []byte{0, 0x7f, 0x80, 0xff, 1}[r.Intn(5)]
		default:
			b[i] = byte(r.Next())
		}
	}
	return b
}

func randText(r *Rng, n int) []byte {
	b := make([]byte, n)
	for i := range b {
		switch r.Intn(10) {
		case 0:
			b[i] = 0
		case 1:
			b[i] = []byte{0xB0, 0xB2, 0xB3, 0xB5, 0xE9}[r.Intn(5)]
		default:
			b[i] = byte(32 + r.Intn(95))
		}
	}
	if n > 0 && r.Chance(0.5) {
		k := r.Intn(n + 1)
		for i := n - k; i < n; i++ {
			b[i] = 0
		}
	}
	return b
}

// genLeaf makes a data element of type t with a plain (parser-less) or metadata key.
func genLeaf(r *Rng, key string, t byte) *knode {
	w := typeWidth(t)
	sizes := []int{w, w, w, w * 2, w * 3, 1, 2, 3, 4, 8, 16, 255, 5, 7}
	size := Pick(r, sizes)
	if size > 255 {
		size = w
	}
	if size == 0 {
		size = 1
	}
	count := Pick(r, []int{0, 1, 1, 1, 2, 3, 4, 5, 6, 2, 3})
	if r.Chance(0.03) {
		count = 100 + r.Intn(400)
	}
	n := &knode{Key: key, Typ: t, Size: size, Count: count}
	total := size * count
	switch t {
	case 'U':
		n.Size = 16
		if r.Chance(0.1) {
			n.Size = 32
		}
		total = n.Size * count
		for len(n.Data) < total {
			n.Data = append(n.Data, randDate(r)...)
		}
		n.Data = n.Data[:total]
	case 'c', 'F', 'G':
		n.Data = randText(r, total)
	default:
		n.Data = randBytes(r, total)
	}
	return n
}

func genForest(r *Rng, depth int, maxKids int, keyf func(r *Rng, nested bool) string) []*knode {
	n := 1 + r.Intn(maxKids)
	res := make([]*knode, 0, n)
	for i := 0; i < n; i++ {
		if depth > 1 && r.Chance(0.35) {
			k := &knode{Key: keyf(r, true), Typ: 0}
			if r.Chance(0.85) {
				k.Kids = genForest(r, depth-1, maxKids, keyf)
			}
			body := 0
			for _, c := range k.Kids {
				body += len(c.encode())
			}
			k.Size, k.Count = nestDims(body, r.Intn(2))
			res = append(res, k)
		} else {
			res = append(res, genLeaf(r, keyf(r, false), gpmfTypes[r.Intn(len(gpmfTypes))]))
		}
	}
	return res
}

// ---------------------------------------------------------------- running the real reader

type gpmfObs struct {
	Class   int
	Detail  string
	Tree    string
	Visited string
	NElems  int
}

func walkSkipPred(m int, e *gpmf.Element) bool {
	if m == 0 {
		return false
	}
	s := 0
	for _, c := range e.Header.Key {
		s += int(c)
	}
	return (s+int(e.Header.Count)+int(e.Header.Type))%m == 0
}

var (
	sharedReader = gpmf.NewReader()
	readerCalls  int
)

func runReader(b []byte, walkmod int) gpmfObs {
	var els []*gpmf.Element
	var err error
	done := make(chan struct{})
	var panicked bool
	var msg string
	go func() {
		defer close(done)
		panicked, msg = Guard(func() {
			// every other call goes through one long-lived Reader that has read all the
			// previous inputs (history): a Reader must not carry anything from one Read to the next
			readerCalls++
			if readerCalls%2 == 0 {
				els, err = sharedReader.Read(bytes.NewReader(b))
			} else {
				els, err = gpmf.NewReader().Read(bytes.NewReader(b))
			}
		})
	}()
	select {
	case <-done:
	case <-time.After(10 * time.Second):
		return gpmfObs{Class: 3, Detail: "timeout"}
	}
	if panicked {
		return gpmfObs{Class: 2, Detail: msg}
	}
	if err != nil {
		return gpmfObs{Class: 1, Detail: err.Error(), Tree: "[]", Visited: "[]"}
	}
	var visited []string
	n := 0
	_ = gpmf.Walk(els, func(e *gpmf.Element) error {
		n++
		visited = append(visited, fmt.Sprintf("(%s, %d%%Z)", CoqBytes(e.Header.Key[:]), int(e.Header.Count)))
		if walkSkipPred(walkmod, e) {
			return gpmf.ErrSkip
		}
		return nil
	})
	return gpmfObs{Class: 0, Tree: dumpTree(els), Visited: zlist(visited), NElems: n}
}

func gpmfCase(b []byte, walkmod int, o gpmfObs) string {
	tree, vis := o.Tree, o.Visited
	if tree == "" {
		tree = "[]"
	}
	if vis == "" {
		vis = "[]"
	}
	return fmt.Sprintf("(mkCase %s %s %s %d%%Z %s)", CoqBytes(b), CoqNat(o.Class), tree, walkmod, vis)
}

func be32(v uint32) []byte {
	var b [4]byte
	binary.BigEndian.PutUint32(b[:], v)
	return b[:]
}
func be16(v uint16) []byte { return []byte{byte(v >> 8), byte(v)} }
