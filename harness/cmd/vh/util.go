package main

import (
	"bufio"
	"crypto/sha256"
	"encoding/hex"
	"encoding/json"
	"fmt"
	"math"
	"os"
	"path/filepath"
	"sort"
	"strings"
)

// ---------------------------------------------------------------- PRNG (splitmix64)

type Rng struct{ s uint64 }

func (r *Rng) Next() uint64 {
	r.s += 0x9E3779B97F4A7C15
	z := r.s
	z = (z ^ (z >> 30)) * 0xBF58476D1CE4E5B9
	z = (z ^ (z >> 27)) * 0x94D049BB133111EB
	return z ^ (z >> 31)
}
func (r *Rng) Intn(n int) int {
	if n <= 0 {
		return 0
	}
	return int(r.Next() % uint64(n))
}
func (r *Rng) Bool() bool          { return r.Next()&1 == 1 }
func (r *Rng) Chance(p float64) bool { return float64(r.Next()>>11)/float64(1<<53) < p }
func (r *Rng) Range(lo, hi int) int { return lo + r.Intn(hi-lo+1) }
func (r *Rng) Fork() *Rng          { return &Rng{s: r.Next()} }
func Pick[T any](r *Rng, xs []T) T { return xs[r.Intn(len(xs))] }
func (r *Rng) Perm(n int) []int {
	p := make([]int, n)
	for i := range p {
		p[i] = i
	}
	for i := n - 1; i > 0; i-- {
		j := r.Intn(i + 1)
		p[i], p[j] = p[j], p[i]
	}
	return p
}

// ---------------------------------------------------------------- Coq term emitters

func coqBytesPlain(b []byte) string {
	var sb strings.Builder
	sb.WriteString("[")
	for i, c := range b {
		if i > 0 {
			sb.WriteString(";")
		}
		fmt.Fprintf(&sb, "%d", c)
	}
	sb.WriteString("]%N")
	return sb.String()
}

// CoqBytes emits a list N; runs of at least 64 equal bytes are run-length encoded with Str.rep.
func CoqBytes(b []byte) string {
	type seg struct {
		lo, hi int
		run    bool
	}
	var segs []seg
	i, start := 0, 0
	for i < len(b) {
		j := i
		for j < len(b) && b[j] == b[i] {
			j++
		}
		if j-i >= 64 {
			if i > start {
				segs = append(segs, seg{start, i, false})
			}
			segs = append(segs, seg{i, j, true})
			start = j
		}
		i = j
	}
	if start < len(b) || len(segs) == 0 {
		segs = append(segs, seg{start, len(b), false})
	}
	if len(segs) == 1 && !segs[0].run {
		return coqBytesPlain(b)
	}
	out := ""
	for k := len(segs) - 1; k >= 0; k-- {
		sg := segs[k]
		var t string
		if sg.run {
			t = fmt.Sprintf("(rep %d%%N %d%%Z)", b[sg.lo], sg.hi-sg.lo)
		} else {
			t = coqBytesPlain(b[sg.lo:sg.hi])
		}
		if out == "" {
			out = t
		} else {
			out = "(app " + t + " " + out + ")"
		}
	}
	return out
}
func CoqStr(s string) string { return CoqBytes([]byte(s)) }
func CoqZ(z int64) string {
	if z < 0 {
		return fmt.Sprintf("(%d)%%Z", z)
	}
	return fmt.Sprintf("%d%%Z", z)
}
func CoqU64(z uint64) string { return fmt.Sprintf("%d%%Z", z) }
func CoqNat(n int) string    { return fmt.Sprintf("%d%%nat", n) }
func CoqBool(b bool) string {
	if b {
		return "true"
	}
	return "false"
}
func CoqList(items []string) string { return "[" + strings.Join(items, "; ") + "]" }
func CoqOpt(present bool, v string) string {
	if !present {
		return "None"
	}
	return "(Some " + v + ")"
}

// F64Bits canonicalises NaNs to the model's single NaN pattern.
func F64Bits(f float64) uint64 {
	if math.IsNaN(f) {
		return 0x7FF8000000000001
	}
	return math.Float64bits(f)
}
func CoqF64(f float64) string { return CoqU64(F64Bits(f)) }

// ---------------------------------------------------------------- context / case sink

type Case struct {
	Coq     string         // Coq term of type `case`
	Input   any            // JSON-able description of the input (for replay / evidence)
	Obs     any            // JSON-able observation
	Key     string         // canonical input key for distinct counting
	Trivial bool           // trivial by the property's rule
	Tags    []string       // distribution histogram tags
}

type Ctx struct {
	ID, Tier, Out, Replay string
	Seed                  uint64
	Scale                 float64
	R                     *Rng
	cases                 []Case
	RunModule             string // Coq module with `case`, `check_case`
	ShardSize             int
	HypLine               bool // the Run module defines hyp_case: also print which cases meet the main theorem's hypothesis
	Extra                 map[string]any
	Imports               []string // extra TT modules the case files need
}

func NewCtx(id string, seed uint64, tier, out, replay string, scale float64) *Ctx {
	if out == "" {
		out = filepath.Join("work", id)
	}
	return &Ctx{ID: id, Tier: tier, Out: out, Replay: replay, Seed: seed, Scale: scale,
		R: &Rng{s: seed ^ hashStr(id)}, RunModule: "Run_" + id, ShardSize: 250,
		Extra: map[string]any{}}
}

func hashStr(s string) uint64 {
	h := sha256.Sum256([]byte(s))
	var v uint64
	for i := 0; i < 8; i++ {
		v = v<<8 | uint64(h[i])
	}
	return v
}

func (c *Ctx) N(quick, thorough int) int {
	n := quick
	if c.Tier == "thorough" {
		n = thorough
	}
	n = int(float64(n) * c.Scale)
	if n < 1 {
		n = 1
	}
	return n
}
func (c *Ctx) Thorough() bool { return c.Tier == "thorough" }

func (c *Ctx) Add(cs Case) { c.cases = append(c.cases, cs) }

// ReplayInputs returns the raw JSON inputs stored in a replay file (one per line) or nil.
func (c *Ctx) ReplayInputs() ([]json.RawMessage, error) {
	if c.Replay == "" {
		return nil, nil
	}
	f, err := os.Open(c.Replay)
	if err != nil {
		return nil, err
	}
	defer f.Close()
	var res []json.RawMessage
	sc := bufio.NewScanner(f)
	sc.Buffer(make([]byte, 1<<20), 1<<28)
	for sc.Scan() {
		line := strings.TrimSpace(sc.Text())
		if line == "" {
			continue
		}
		var probe struct {
			Input json.RawMessage `json:"input"`
		}
		if err := json.Unmarshal([]byte(line), &probe); err != nil {
			return nil, err
		}
		if probe.Input != nil {
			res = append(res, probe.Input)
		} else {
			res = append(res, json.RawMessage(line))
		}
	}
	return res, sc.Err()
}

func (c *Ctx) Finish() error {
	if err := os.MkdirAll(c.Out, 0o755); err != nil {
		return err
	}
	// remove stale shards
	old, _ := filepath.Glob(filepath.Join(c.Out, "cases_*.v"))
	for _, f := range old {
		os.Remove(f)
	}
	old, _ = filepath.Glob(filepath.Join(c.Out, "cases_*.vo"))
	for _, f := range old {
		os.Remove(f)
	}
	jl, err := os.Create(filepath.Join(c.Out, "cases.jsonl"))
	if err != nil {
		return err
	}
	w := bufio.NewWriter(jl)
	distinct := map[string]bool{}
	hist := map[string]int{}
	for i, cs := range c.cases {
		key := cs.Key
		if key == "" {
			b, _ := json.Marshal(cs.Input)
			key = string(b)
		}
		h := sha256.Sum256([]byte(key))
		if !cs.Trivial {
			distinct[hex.EncodeToString(h[:8])] = true
		}
		for _, t := range cs.Tags {
			hist[t]++
		}
		b, err := json.Marshal(map[string]any{"i": i, "input": cs.Input, "obs": cs.Obs, "trivial": cs.Trivial, "tags": cs.Tags})
		if err != nil {
			// NaN or Inf among the observed values: keep the line valid JSON, the values as text
			b, err = json.Marshal(map[string]any{"i": i, "input": jsonSafe(cs.Input), "obs": jsonSafe(cs.Obs), "trivial": cs.Trivial, "tags": cs.Tags})
			if err != nil {
				b, _ = json.Marshal(map[string]any{"i": i, "input": fmt.Sprintf("%+v", cs.Input), "obs": fmt.Sprintf("%+v", cs.Obs), "trivial": cs.Trivial, "tags": cs.Tags})
			}
		}
		w.Write(b)
		w.WriteString("\n")
	}
	w.Flush()
	jl.Close()

	shards := 0
	for start := 0; start < len(c.cases); start += c.ShardSize {
		end := start + c.ShardSize
		if end > len(c.cases) {
			end = len(c.cases)
		}
		name := filepath.Join(c.Out, fmt.Sprintf("cases_%03d.v", shards))
		f, err := os.Create(name)
		if err != nil {
			return err
		}
		bw := bufio.NewWriter(f)
		fmt.Fprintf(bw, "From Coq Require Import List ZArith NArith String.\nFrom TT Require Import Base.Verdict Base.Str %s Run.%s.\nImport ListNotations.\n", strings.Join(c.Imports, " "), c.RunModule)
		fmt.Fprintf(bw, "Definition cases : list case := [\n")
		for i := start; i < end; i++ {
			if i > start {
				bw.WriteString(";\n")
			}
			bw.WriteString(c.cases[i].Coq)
		}
		fmt.Fprintf(bw, "\n].\nDefinition M := Eval vm_compute in render (map check_case cases).\nPrint M.\n")
		if c.HypLine {
			fmt.Fprintf(bw, "Definition H := Eval vm_compute in renderb (map hyp_case cases).\nPrint H.\n")
		}
		bw.Flush()
		f.Close()
		shards++
	}
	keys := make([]string, 0, len(hist))
	for k := range hist {
		keys = append(keys, k)
	}
	sort.Strings(keys)
	stats := map[string]any{
		"property": c.ID, "seed": c.Seed, "tier": c.Tier,
		"evaluations": len(c.cases), "distinct_nontrivial": len(distinct),
		"shards": shards, "shard_size": c.ShardSize, "histogram": hist, "extra": c.Extra,
	}
	b, _ := json.MarshalIndent(stats, "", " ")
	return os.WriteFile(filepath.Join(c.Out, "stats.json"), b, 0o644)
}

// Guard runs f under recover and reports the panic message (class 2) if any.
func Guard(f func()) (panicked bool, msg string) {
	defer func() {
		if r := recover(); r != nil {
			panicked = true
			msg = fmt.Sprint(r)
		}
	}()
	f()
	return false, ""
}

// jsonSafe returns v unless it cannot be marshalled (NaN, Inf), in which case its printed form.
func jsonSafe(v any) any {
	if _, err := json.Marshal(v); err != nil {
		return fmt.Sprintf("%+v", v)
	}
	return v
}
