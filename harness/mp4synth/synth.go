// Package mp4synth builds small MP4 files with arbitrary sample tables using mp4ff's own box
// writers: ftyp, mdat (the payloads), moov with a video trak and the GoPro metadata trak.
package mp4synth

import (
	"bytes"

	"github.com/Eyevinn/mp4ff/mp4"
)

// Tables are the sample tables of the metadata track.
type Tables struct {
	Stsc      [][2]uint32 // (first chunk, samples per chunk)
	Uniform   uint32
	NSamples  uint32
	Sizes     []uint32
	Stts      [][2]uint32 // (count, delta)
	Offsets   []uint64    // chunk offsets relative to the start of the mdat payload area
	Co64      bool
	Timescale uint32
	// ZeroMovie: the movie header's timescale is 0 as well (only meaningful with Timescale 0)
	ZeroMovie bool
	Handler   string // handler type of the metadata track ("meta")
	Name      string // handler name ("\tGoPro MET")
	NoMeta    bool   // leave the metadata track out
	VideoFirst bool
}

func trak(handler, name string, timescale uint32, t *Tables, base uint64) *mp4.TrakBox {
	tr := mp4.NewTrakBox()
	tr.AddChild(mp4.CreateTkhd())
	mdia := mp4.NewMdiaBox()
	mdhd := &mp4.MdhdBox{Timescale: timescale}
	mdia.AddChild(mdhd)
	hdlr := &mp4.HdlrBox{HandlerType: handler, Name: name}
	mdia.AddChild(hdlr)
	minf := mp4.NewMinfBox()
	stbl := mp4.NewStblBox()
	stbl.AddChild(mp4.NewStsdBox())
	stts := &mp4.SttsBox{}
	stsc := &mp4.StscBox{}
	stsz := &mp4.StszBox{}
	var offs []uint64
	co64 := false
	if t != nil {
		for _, e := range t.Stts {
			stts.SampleCount = append(stts.SampleCount, e[0])
			stts.SampleTimeDelta = append(stts.SampleTimeDelta, e[1])
		}
		for _, e := range t.Stsc {
			stsc.Entries = append(stsc.Entries, mp4.StscEntry{FirstChunk: e[0], SamplesPerChunk: e[1]})
			stsc.SampleDescriptionID = append(stsc.SampleDescriptionID, 1)
		}
		stsz.SampleUniformSize = t.Uniform
		stsz.SampleNumber = t.NSamples
		stsz.SampleSize = append(stsz.SampleSize, t.Sizes...)
		for _, o := range t.Offsets {
			offs = append(offs, base+o)
		}
		co64 = t.Co64
	}
	stbl.AddChild(stts)
	stbl.AddChild(stsc)
	stbl.AddChild(stsz)
	if co64 {
		stbl.AddChild(&mp4.Co64Box{ChunkOffset: offs})
	} else {
		s := &mp4.StcoBox{}
		for _, o := range offs {
			s.ChunkOffset = append(s.ChunkOffset, uint32(o))
		}
		stbl.AddChild(s)
	}
	minf.AddChild(stbl)
	mdia.AddChild(minf)
	tr.AddChild(mdia)
	return tr
}

// Build returns the file bytes and the absolute offset of the payload area.
func Build(payload []byte, t Tables) ([]byte, uint64, error) {
	f := mp4.NewFile()
	ftyp := mp4.CreateFtyp()
	f.AddChild(ftyp, 0)
	mdat := &mp4.MdatBox{}
	mdat.AddSampleData(payload)
	f.AddChild(mdat, 0)
	base := ftyp.Size() + 8
	moov := mp4.NewMoovBox()
	mvhd := mp4.CreateMvhd()
	if t.ZeroMovie {
		mvhd.Timescale = 0
	}
	moov.AddChild(mvhd)
	video := trak("vide", "GoPro AVC", 30000, &Tables{Stts: [][2]uint32{{1, 1001}}, Stsc: [][2]uint32{{1, 1}}, NSamples: 1, Sizes: []uint32{4}, Offsets: []uint64{0}}, base)
	if t.VideoFirst {
		moov.AddChild(video)
	}
	if !t.NoMeta {
		h, n := t.Handler, t.Name
		if h == "" {
			h = "meta"
		}
		if n == "" {
			n = "\tGoPro MET"
		}
		moov.AddChild(trak(h, n, t.Timescale, &t, base))
	}
	if !t.VideoFirst {
		moov.AddChild(video)
	}
	f.AddChild(moov, 0)
	var buf bytes.Buffer
	if err := f.Encode(&buf); err != nil {
		return nil, 0, err
	}
	return buf.Bytes(), base, nil
}
