(* A strict XML reader for the documents the encoder writes: the declaration, elements with
   double-quoted attributes, character data with only the five predefined entities and
   numeric character references to valid characters; no raw '<' or '&' in text; matching
   tags; one root.  White-space-only text between child elements is dropped. *)
From Coq Require Import String Ascii List ZArith NArith Bool.
From TT Require Import Base.Outcome Base.Str Xml.Print.
Import ListNotations.
Local Open Scope Z_scope.

Definition is_ws (c : cp) : bool := (c =? 32) || (c =? 9) || (c =? 10) || (c =? 13).
Definition name_char (c : cp) : bool :=
  ((65 <=? c) && (c <=? 90)) || ((97 <=? c) && (c <=? 122)) || ((48 <=? c) && (c <=? 57)) || (c =? 95) || (c =? 45) || (c =? 46) || (c =? 58).

Fixpoint span (p : cp -> bool) (t : text) : text * text :=
  match t with
  | c :: r => if p c then let '(a, b) := span p r in (c :: a, b) else ([], t)
  | [] => ([], [])
  end.

Definition string_of_cps (t : text) : string := of_chars (map (fun c => ascii_of_N (Z.to_N c)) t).

Definition hex_val (c : cp) : option Z :=
  if (48 <=? c) && (c <=? 57) then Some (c - 48)
  else if (65 <=? c) && (c <=? 70) then Some (c - 55)
  else if (97 <=? c) && (c <=? 102) then Some (c - 87) else None.
Fixpoint parse_num (base : Z) (t : text) (acc : Z) (n : nat) : option (Z * text) :=
  match t with
  | 59 :: r => if Nat.eqb n 0 then None else Some (acc, r)
  | c :: r => match hex_val c with
              | Some v => if v <? base then parse_num base r (acc * base + v) (S n) else None
              | None => None
              end
  | [] => None
  end.

(* an entity reference starting after '&' *)
Definition parse_ref (t : text) : option (cp * text) :=
  match starts (ent "amp;") t with Some r => Some (38, r) | None =>
  match starts (ent "lt;") t with Some r => Some (60, r) | None =>
  match starts (ent "gt;") t with Some r => Some (62, r) | None =>
  match starts (ent "quot;") t with Some r => Some (34, r) | None =>
  match starts (ent "apos;") t with Some r => Some (39, r) | None =>
  match t with
  | 35 :: 120 :: r => match parse_num 16 r 0 0 with
                      | Some (v, r') => if valid_char v then Some (v, r') else None
                      | None => None
                      end
  | 35 :: r => match parse_num 10 r 0 0 with
               | Some (v, r') => if valid_char v then Some (v, r') else None
               | None => None
               end
  | _ => None
  end end end end end end.

(* character data up to the next '<' *)
Fixpoint chardata (fuel : nat) (t : text) (acc : text) : outcome (text * text) :=
  match fuel with
  | O => OutOfFuel
  | S f =>
    match t with
    | [] => Ok (rev' acc, [])
    | 60 :: _ => Ok (rev' acc, t)
    | 38 :: r => match parse_ref r with
                 | Some (c, r') => chardata f r' (c :: acc)
                 | None => Err "bad-entity"
                 end
    | 13 :: 10 :: r => chardata f r (10 :: acc)      (* line-end normalisation *)
    | 13 :: r => chardata f r (10 :: acc)
    | c :: r => if valid_char c then chardata f r (c :: acc) else Err "bad-char"
    end
  end.

Fixpoint attrs (fuel : nat) (t : text) (acc : list (string * string)) : outcome (list (string * string) * text) :=
  match fuel with
  | O => OutOfFuel
  | S f =>
    let '(_, t1) := span is_ws t in
    match t1 with
    | 62 :: r => Ok (rev' acc, r)
    | _ =>
      let '(nm, t2) := span name_char t1 in
      match nm, t2 with
      | _ :: _, 61 :: 34 :: t3 =>
        let '(v, t4) := span (fun c => negb ((c =? 34) || (c =? 60) || (c =? 38))) t3 in
        match t4 with
        | 34 :: t5 => attrs f t5 ((string_of_cps nm, string_of_cps v) :: acc)
        | _ => Err "bad-attr"
        end
      | _, _ => Err "bad-tag"
      end
    end
  end.

Definition all_ws (t : text) : bool := forallb is_ws t.

(* content of an element up to its end tag *)
Fixpoint content (fuel : nat) (name : string) (t : text) (acc : list tree) : outcome (list tree * text) :=
  match fuel with
  | O => OutOfFuel
  | S f =>
    bind (chardata (S (length t)) t []) (fun '(txt, t1) =>
    let acc1 := match txt with [] => acc | _ => TText txt :: acc end in
    match t1 with
    | 60 :: 47 :: t2 =>
      let '(nm, t3) := span name_char t2 in
      let '(_, t4) := span is_ws t3 in
      match t4 with
      | 62 :: t5 => if String.eqb (string_of_cps nm) name then Ok (rev' acc1, t5) else Err "mismatched-end-tag"
      | _ => Err "bad-end-tag"
      end
    | 60 :: t2 =>
      let '(nm, t3) := span name_char t2 in
      match nm with
      | [] => Err "bad-start-tag"
      | _ =>
        bind (attrs (S (length t3)) t3 []) (fun '(at_, t4) =>
        bind (content f (string_of_cps nm) t4 []) (fun '(kids, t5) =>
          content f name t5 (TElem (string_of_cps nm) at_ kids :: acc1)))
      end
    | _ => Err "unexpected-eof"
    end)
  end.

(* drop white-space-only text nodes that sit between child elements *)
Fixpoint tidy (t : tree) : tree :=
  match t with
  | TText s => TText s
  | TElem n a kids =>
    let has_elem := existsb (fun k => match k with TElem _ _ _ => true | _ => false end) kids in
    let ks := map tidy kids in
    TElem n a (if has_elem then filter (fun k => match k with TText s => negb (all_ws s) | _ => true end) ks else ks)
  end.

Definition lex (doc : text) : outcome tree :=
  match starts xml_header doc with
  | None => Err "no-declaration"
  | Some t =>
    match t with
    | 60 :: t2 =>
      let '(nm, t3) := span name_char t2 in
      match nm with
      | [] => Err "bad-root"
      | _ =>
        bind (attrs (S (length t3)) t3 []) (fun '(at_, t4) =>
        bind (content (S (length t4)) (string_of_cps nm) t4 []) (fun '(kids, rest) =>
          if all_ws rest then Ok (tidy (TElem (string_of_cps nm) at_ kids)) else Err "trailing-content"))
      end
    | _ => Err "no-root"
    end
  end.

(* UTF-8 decoding (strict; invalid sequences are an error) *)
Fixpoint utf8_decode (fuel : nat) (b : list N) (acc : text) : outcome text :=
  match fuel with
  | O => OutOfFuel
  | S f =>
    match b with
    | [] => Ok (rev' acc)
    | b0 :: r =>
      let z := Z.of_N b0 in
      let cont x := let v := Z.of_N x in if (128 <=? v) && (v <? 192) then Some (v - 128) else None in
      if z <? 128 then utf8_decode f r (z :: acc)
      else if (194 <=? z) && (z <? 224) then
        match r with
        | b1 :: r' => match cont b1 with Some c1 => utf8_decode f r' (((z - 192) * 64 + c1) :: acc) | None => Err "utf8" end
        | _ => Err "utf8"
        end
      else if (224 <=? z) && (z <? 240) then
        match r with
        | b1 :: b2 :: r' => match cont b1, cont b2 with
                            | Some c1, Some c2 =>
                              let v := (z - 224) * 4096 + c1 * 64 + c2 in
                              if (2048 <=? v) && negb ((55296 <=? v) && (v <=? 57343)) then utf8_decode f r' (v :: acc) else Err "utf8"
                            | _, _ => Err "utf8"
                            end
        | _ => Err "utf8"
        end
      else if (240 <=? z) && (z <? 245) then
        match r with
        | b1 :: b2 :: b3 :: r' => match cont b1, cont b2, cont b3 with
                                  | Some c1, Some c2, Some c3 =>
                                    let v := (z - 240) * 262144 + c1 * 4096 + c2 * 64 + c3 in
                                    if (65536 <=? v) && (v <=? 1114111) then utf8_decode f r' (v :: acc) else Err "utf8"
                                  | _, _, _ => Err "utf8"
                                  end
        | _ => Err "utf8"
        end
      else Err "utf8"
    end
  end.
