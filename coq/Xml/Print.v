(* encoding/xml's printer as used by the LapTimer encoder: Indent("", "\t"), EscapeText,
   attributes, followed by the encoder's line filter (four entity rewrites). Text is a list
   of Unicode code points (Go ranges over runes; invalid UTF-8 arrives as U+FFFD). *)
From Coq Require Import String Ascii List ZArith NArith Bool.
From TT Require Import Base.Str.
Import ListNotations.
Local Open Scope Z_scope.

Definition cp := Z.               (* code point *)
Definition text := list cp.

Inductive tree :=
| TElem (name : string) (attrs : list (string * string)) (kids : list tree)
| TText (t : text).

Definition cps_of_string (s : string) : text := map (fun c => Z.of_N (N_of_ascii c)) (chars_of s).

(* isInCharacterRange *)
Definition valid_char (c : cp) : bool :=
  (c =? 9) || (c =? 10) || (c =? 13) || ((32 <=? c) && (c <=? 55295)) ||
  ((57344 <=? c) && (c <=? 65533)) || ((65536 <=? c) && (c <=? 1114111)).

Definition ent (s : string) : text := cps_of_string s.

(* xml.EscapeText (escapeNewline = true) *)
Definition escape_cp (c : cp) : text :=
  if c =? 34 then ent "&#34;" else if c =? 39 then ent "&#39;"
  else if c =? 38 then ent "&amp;" else if c =? 60 then ent "&lt;" else if c =? 62 then ent "&gt;"
  else if c =? 9 then ent "&#x9;" else if c =? 10 then ent "&#xA;" else if c =? 13 then ent "&#xD;"
  else if valid_char c then [c] else [65533].
Definition escape_text (t : text) : text := flat_map escape_cp t.

(* the encoder's strings.Replacer: &#34; -> &quot;  &#39; -> &apos;  &#xA; -> LF  &#x9; -> TAB *)
Fixpoint starts (p t : text) : option text :=
  match p, t with
  | [], _ => Some t
  | a :: p', b :: t' => if a =? b then starts p' t' else None
  | _ :: _, [] => None
  end.
Fixpoint line_filter (fuel : nat) (t : text) : text :=
  match fuel with
  | O => t
  | S f =>
    match t with
    | [] => []
    | c :: r =>
      match starts (ent "&#34;") t with
      | Some r' => ent "&quot;" ++ line_filter f r'
      | None =>
      match starts (ent "&#39;") t with
      | Some r' => ent "&apos;" ++ line_filter f r'
      | None =>
      match starts (ent "&#xA;") t with
      | Some r' => 10 :: line_filter f r'
      | None =>
      match starts (ent "&#x9;") t with
      | Some r' => 9 :: line_filter f r'
      | None => c :: line_filter f r
      end end end end
    end
  end.
Definition filter_text (t : text) : text := line_filter (S (length t)) t.

(* ---- the printer with indentation ---- *)
Definition tabs (n : nat) : text := repeat 9 n.

(* returns the text and whether a child start tag was written (so the end tag goes on its own line) *)
Fixpoint print_tree (depth : nat) (first : bool) (t : tree) : text :=
  match t with
  | TText s => escape_text s
  | TElem name attrs kids =>
    let open := (if first then [] else [10]) ++ tabs depth ++ [60] ++ cps_of_string name
                ++ flat_map (fun '(k, v) => [32] ++ cps_of_string k ++ [61; 34] ++ cps_of_string v ++ [34]) attrs ++ [62] in
    let body := flat_map (print_tree (S depth) false) kids in
    let has_elem := existsb (fun k => match k with TElem _ _ _ => true | _ => false end) kids in
    open ++ body ++ (if has_elem then [10] ++ tabs depth else []) ++ [60; 47] ++ cps_of_string name ++ [62]
  end.

Definition xml_header : text := cps_of_string "<?xml version=""1.0"" encoding=""UTF-8""?>" ++ [10].

Definition document (root : tree) : text := xml_header ++ filter_text (print_tree 0 true root).

(* UTF-8 encoding of code points (for comparison with the bytes written) *)
Definition utf8 (c : cp) : list N :=
  if c <? 128 then [Z.to_N c]
  else if c <? 2048 then [Z.to_N (192 + c / 64); Z.to_N (128 + c mod 64)]
  else if c <? 65536 then [Z.to_N (224 + c / 4096); Z.to_N (128 + (c / 64) mod 64); Z.to_N (128 + c mod 64)]
  else [Z.to_N (240 + c / 262144); Z.to_N (128 + (c / 4096) mod 64); Z.to_N (128 + (c / 64) mod 64); Z.to_N (128 + c mod 64)].
Definition utf8_text (t : text) : list N := flat_map utf8 t.
