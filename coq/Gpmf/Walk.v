(* pkg/gopro/gpmf/walker.go: Walk visits elements in document (pre-)order; a callback that
   answers ErrSkip prunes the element's sub-tree (the element itself has been visited). *)
From Coq Require Import List ZArith Bool.
From TT Require Import Base.Outcome Gpmf.Klv.
Import ListNotations.

Fixpoint walk (skip : elem -> bool) (e : elem) : list elem :=
  match e with
  | Elem k t s c d m kids =>
      e :: (if skip e then [] else flat_map (walk skip) kids)
  end.
Definition walk_all (skip : elem -> bool) (es : list elem) : list elem := flat_map (walk skip) es.

Fixpoint preorder (e : elem) : list elem :=
  match e with Elem _ _ _ _ _ _ kids => e :: flat_map preorder kids end.
Definition preorder_all (es : list elem) : list elem := flat_map preorder es.
