(* pkg/gopro/gpmf: Reader.read / Element.ReadHeader / ReadData / DiscardPadding / Add / format
   and every key parser, over a list of bytes.  All Go panic sites are explicit (Panic),
   the element loop runs on fuel (OutOfFuel). *)
From Coq Require Import String Ascii List ZArith NArith Bool Lia.
From TT Require Import Base.Outcome Base.Str Base.F64 Base.Civil.
Import ListNotations.
Local Open Scope Z_scope.

Definition byte := N.
Definition bytes := list N.

(* ---------------------------------------------------------------- values *)
Inductive ikind := I8 | U8 | I16 | U16 | I32 | U32 | I64 | U64 | Q32 | Q64.

Inductive data :=
| DNil
| DInts (k : ikind) (scalar : bool) (vs : list Z)
| DF32 (scalar : bool) (bits : list Z)
| DF64 (scalar : bool) (bits : list Z)
| DStrs (scalar : bool) (ss : list bytes)
| DTimes (scalar : bool) (ns : list Z)
| DScaled (fs : list f64)                 (* []float64 after scaling, and Scale *)
| DGps (rows : list (list f64))           (* lat lon alt speed speed3d *)
| DVec3 (kind : nat) (rows : list (list f64))   (* 0 ACCL 1 GYRO 2 MAGN: X Y Z ; 3 WRGB: R G B *)
| DGpsDop (v : f64)
| DGpsFix (v : Z)
| DFaces (ver : nat) (rows : list (list Z)).   (* 6: ID X Y W H ; 7: +Smile ; 8: +Smile,Confidence ;
                                                  10: Version Confidence ID X Y W H Smile Blink *)

Definition meta := list (string * data).

Fixpoint meta_get (m : meta) (k : string) : option data :=
  match m with
  | [] => None
  | (k', v) :: r => if String.eqb k k' then Some v else meta_get r k
  end.
Fixpoint meta_set (m : meta) (k : string) (v : data) : meta :=
  match m with
  | [] => [(k, v)]
  | (k', v') :: r => if String.eqb k k' then (k, v) :: r else (k', v') :: meta_set r k v
  end.
Definition meta_add_missing (m from : meta) : meta :=
  fold_left (fun acc kv => match meta_get acc (fst kv) with
                           | Some _ => acc
                           | None => app acc [kv]
                           end) from m.

Inductive elem :=
| Elem (key : bytes) (typ size count : Z) (d : data) (m : meta) (nested : list elem).

Definition e_key (e : elem) := let 'Elem k _ _ _ _ _ _ := e in k.
Definition e_typ (e : elem) := let 'Elem _ t _ _ _ _ _ := e in t.
Definition e_size (e : elem) := let 'Elem _ _ s _ _ _ _ := e in s.
Definition e_count (e : elem) := let 'Elem _ _ _ c _ _ _ := e in c.
Definition e_data (e : elem) := let 'Elem _ _ _ _ d _ _ := e in d.
Definition e_meta (e : elem) := let 'Elem _ _ _ _ _ m _ := e in m.
Definition e_nested (e : elem) := let 'Elem _ _ _ _ _ _ n := e in n.

(* ---------------------------------------------------------------- big endian *)
Fixpoint be (bs : bytes) (acc : Z) : Z :=
  match bs with [] => acc | b :: r => be r (acc * 256 + Z.of_N b) end.
Definition be_u (bs : bytes) : Z := be bs 0.
Definition to_signed (bits : Z) (z : Z) : Z := if z <? 2 ^ (bits - 1) then z else z - 2 ^ bits.

Fixpoint groups (w : nat) (n : nat) (bs : bytes) : list bytes :=
  match n with
  | O => []
  | S n' => firstn w bs :: groups w n' (skipn w bs)
  end.

Definition kwidth (k : ikind) : Z :=
  match k with I8 | U8 => 1 | I16 | U16 => 2 | I32 | U32 | Q32 => 4 | I64 | U64 | Q64 => 8 end.
Definition ksigned (k : ikind) : bool :=
  match k with I8 | I16 | I32 | I64 | Q32 | Q64 => true | _ => false end.
Definition decode_int (k : ikind) (g : bytes) : Z :=
  let u := be_u g in if ksigned k then to_signed (8 * kwidth k) u else u.

(* ---------------------------------------------------------------- strings *)
Fixpoint trim_right_nul_rev (r : bytes) : bytes :=
  match r with 0%N :: t => trim_right_nul_rev t | _ => r end.
Definition trim_right_nul (b : bytes) : bytes := rev' (trim_right_nul_rev (rev' b)).

Definition siun_fix (b : bytes) : bytes :=
  flat_map (fun c => if (c =? 176)%N || (c =? 178)%N || (c =? 179)%N || (c =? 181)%N
                     then [194%N; c] else [c]) b.

Definition key_SIUN : bytes := [83; 73; 85; 78]%N.
Definition bytes_eqb (a b : bytes) : bool :=
  (Nat.eqb (length a) (length b)) && forallb (fun p => N.eqb (fst p) (snd p)) (combine a b).

Definition to_string (key : bytes) (buf : bytes) : bytes :=
  let r := trim_right_nul buf in
  if bytes_eqb key key_SIUN then siun_fix r else r.

(* ---------------------------------------------------------------- dates: "060102150405.000" *)
Definition dig (b : N) : option Z := if (48 <=? b)%N && (b <=? 57)%N then Some (Z.of_N b - 48) else None.
Definition two (a b : N) : option Z :=
  match dig a, dig b with Some x, Some y => Some (10 * x + y) | _, _ => None end.

Definition parse_date (b : bytes) : outcome Z :=
  match b with
  | [y1;y2;m1;m2;d1;d2;h1;h2;i1;i2;s1;s2;dot;f1;f2;f3] =>
    match two y1 y2, two m1 m2, two d1 d2, two h1 h2, two i1 i2, two s1 s2, dig f1, dig f2, dig f3 with
    | Some yy, Some mo, Some dd, Some hh, Some mi, Some ss, Some a, Some b', Some c =>
      (* Go also accepts ',' as the fractional separator *)
      if negb ((dot =? 46)%N || (dot =? 44)%N) then Err "date" else
      let y := if 69 <=? yy then 1900 + yy else 2000 + yy in
      if (mo <? 1) || (12 <? mo) then Err "date" else
      if (dd <? 1) || (days_in_month y mo <? dd) then Err "date" else
      if (24 <=? hh) || (60 <=? mi) || (60 <=? ss) then Err "date" else
      Ok (((days_from_civil y mo dd * 86400) + hh * 3600 + mi * 60 + ss) * 1000000000
          + (100 * a + 10 * b' + c) * 1000000)
    | _, _, _, _, _, _, _, _, _ => Err "date"
    end
  | _ => Err "date"
  end.

(* ---------------------------------------------------------------- formatBasic *)
Definition format_ints (k : ikind) (total : Z) (raw : bytes) : data :=
  let w := kwidth k in
  let count := total / w in
  let gs := groups (Z.to_nat w) (Z.to_nat count) raw in
  DInts k (count =? 1) (map (decode_int k) gs).

Definition format_f (w : Z) (total : Z) (raw : bytes) : data :=
  let count := total / w in
  let gs := groups (Z.to_nat w) (Z.to_nat count) raw in
  if w =? 4 then DF32 (count =? 1) (map be_u gs) else DF64 (count =? 1) (map be_u gs).

Definition format_strings (key : bytes) (size count : Z) (raw : bytes) : data :=
  if (size =? 1) || (count =? 1) then DStrs true [to_string key raw]
  else DStrs false (map (to_string key) (groups (Z.to_nat size) (Z.to_nat count) raw)).

Definition format_dates (total : Z) (raw : bytes) : outcome data :=
  let count := total / 16 in
  if count =? 1 then omap (fun t => DTimes true [t]) (parse_date raw)
  else omap (DTimes false) (mapM parse_date (groups 16 (Z.to_nat count) raw)).

Definition ty (c : ascii) : Z := Z.of_N (N_of_ascii c).

Definition format_basic (key : bytes) (typ size count : Z) (raw : bytes) : outcome data :=
  let total := size * count in
  if typ =? ty "b" then Ok (format_ints I8 total raw)
  else if typ =? ty "B" then Ok (format_ints U8 total raw)
  else if (typ =? ty "c") || (typ =? ty "F") || (typ =? ty "G") then Ok (format_strings key size count raw)
  else if typ =? ty "s" then Ok (format_ints I16 total raw)
  else if typ =? ty "S" then Ok (format_ints U16 total raw)
  else if typ =? ty "f" then Ok (format_f 4 total raw)
  else if typ =? ty "l" then Ok (format_ints I32 total raw)
  else if typ =? ty "L" then Ok (format_ints U32 total raw)
  else if typ =? ty "q" then Ok (format_ints Q32 total raw)
  else if typ =? ty "d" then Ok (format_f 8 total raw)
  else if typ =? ty "j" then Ok (format_ints I64 total raw)
  else if typ =? ty "J" then Ok (format_ints U64 total raw)
  else if typ =? ty "Q" then Ok (format_ints Q64 total raw)
  else if typ =? ty "U" then format_dates total raw
  else if typ =? ty "?" then Ok DNil
  else if typ =? ty "#" then Err "compressed"
  else if typ =? 0 then Ok DNil
  else Err "unknown-type".

(* ---------------------------------------------------------------- floatSlice / scale *)
Definition float_slice (d : data) : outcome (list f64) :=
  match d with
  | DInts _ _ vs => Ok (map f_of_Z vs)
  | DF32 _ bs => Ok (map f64_of_f32_bits bs)
  | DF64 _ bs => Ok (map fnorm bs)
  | DScaled fs => Ok fs
  | _ => Err "float-slice"
  end.

(* scale(): r[i] = float64(v) / scale[i % n]; n = 0 is an integer-divide panic in Go *)
Fixpoint scale_from (i : nat) (vs sc : list f64) : outcome (list f64) :=
  match vs with
  | [] => Ok []
  | v :: r =>
    match sc with
    | [] => Panic "integer divide by zero (scale)"
    | _ => bind (scale_from (S i) r sc) (fun t =>
             Ok (fdiv v (nth (Nat.modulo i (length sc)) sc 0) :: t))
    end
  end.
Definition apply_scale (vs sc : list f64) : outcome (list f64) := scale_from 0 vs sc.

(* floatType: regroup into rows of `w` *)
Fixpoint rows_of (w : nat) (n : nat) (vs : list f64) : list (list f64) :=
  match n with O => [] | S n' => firstn w vs :: rows_of w n' (skipn w vs) end.

Definition float_type (w : nat) (d : data) : outcome (list (list f64)) :=
  bind (float_slice d) (fun vs =>
    if Nat.eqb (Nat.modulo (length vs) w) 0 then Ok (rows_of w (Nat.div (length vs) w) vs)
    else Err "not-multiple").

Definition zxy (row : list f64) : list f64 :=   (* values arrive Z, X, Y; struct order X, Y, Z *)
  [nth 1 row 0; nth 2 row 0; nth 0 row 0].

(* ---------------------------------------------------------------- keys *)
Definition k4 (s : string) : bytes := bytes_of_s s.
Definition key_is (key : bytes) (s : string) : bool := bytes_eqb key (k4 s).

Definition friendly (key : bytes) : string :=
  if key_is key "DVID" then "device_id" else if key_is key "DVNM" then "device_name"
  else if key_is key "STNM" then "stream_name" else if key_is key "SCAL" then "scale"
  else if key_is key "SIUN" then "standard_units" else if key_is key "UNIT" then "display_units"
  else if key_is key "TYPE" then "type_def" else if key_is key "ACCL" then "acceleration"
  else if key_is key "GYRO" then "gyroscope" else if key_is key "GPS5" then "gps"
  else if key_is key "GPSU" then "gps_time" else if key_is key "GPSF" then "gps_fix"
  else if key_is key "GPSP" then "gps_dilution_of_precision" else if key_is key "MAGN" then "magnetometer"
  else if key_is key "FACE" then "face_detection" else if key_is key "FCNM" then "faces"
  else if key_is key "WRGB" then "white_balance_rgb" else if key_is key "TSMP" then "samples"
  else if key_is key "TMPC" then "device_temperature" else s_of_bytes key.

Definition is_meta_key (key : bytes) : bool :=
  existsb (key_is key) ["DVID"; "DVNM"; "STNM"; "SIUN"; "UNIT"; "TYPE"; "GPSU"; "TSMP"; "TMPC"]%string.

(* sensor elements: those whose parser calls initMetadata *)
Definition is_sensor_key (key : bytes) : bool :=
  existsb (key_is key) ["ACCL"; "GYRO"; "GPS5"; "FACE"; "FCNM"; "ISOE"; "WRGB"]%string.

(* frames: metadata maps of the parent, grandparent, ... , root (last) *)
Definition init_metadata (frames : list meta) : meta :=
  match frames with
  | [] => []
  | p :: _ => fold_left meta_add_missing (removelast frames) p
  end.

(* ---------------------------------------------------------------- faces *)
Definition sub (off len : nat) (b : bytes) : bytes := firstn len (skipn off b).
Definition u_at (off len : nat) (rec : bytes) : outcome Z :=
  if Nat.leb (off + len) (length rec) then Ok (be_u (sub off len rec))
  else Panic "slice bounds out of range (face)".

Definition parse_face6 (r : bytes) : outcome (list Z) :=
  mapM (fun o => u_at o 4 r) [0; 4; 8; 12; 16]%nat.
Definition parse_face (ver : nat) (r : bytes) : outcome (list Z) :=
  match ver with
  | 6%nat => parse_face6 r
  | 7%nat => bind (parse_face6 r) (fun a => bind (u_at 88 4 r) (fun s => Ok (app a [s])))
  | 8%nat => bind (parse_face6 r) (fun a => bind (u_at 20 4 r) (fun c => bind (u_at 24 4 r) (fun s =>
               Ok (app a [s; c]))))
  | _ => bind (mapM (fun '(o, l) => u_at o l r)
                    [(0,1); (1,1); (2,2); (4,2); (6,2); (8,2); (10,2); (12,1); (13,1)]%nat) Ok
  end.

Definition face_defs : list (bytes * Z * nat) :=
  [ (k4 "Lffff", 20, 6%nat); (k4 "Lffffffffffffffffffffff", 92, 7%nat);
    (k4 "Lffffff", 28, 8%nat); (k4 "BBSSSSSBB", 14, 10%nat) ].

Fixpoint tails_by (size : nat) (n : nat) (raw : bytes) : list bytes :=   (* e.raw[j:] for j = 0, size, ... *)
  match n with O => [] | S n' => raw :: tails_by size n' (skipn size raw) end.

Definition parse_faces (m : meta) (size count : Z) (raw : bytes) (d : data) : outcome data :=
  if count =? 0 then Ok d else
  match meta_get m "type_def" with
  | None => Err "face-missing-typedef"
  | Some (DStrs true [t]) =>
    match find (fun x => bytes_eqb (fst (fst x)) t) face_defs with
    | None => Err "face-unknown-typedef"
    | Some (_, sz, ver) =>
      if negb (size =? sz) then Err "face-size" else
      if Z.of_nat (length raw) <? size * count then Err "face-short" else
      omap (DFaces ver) (mapM (parse_face ver) (tails_by (Z.to_nat size) (Z.to_nat count) raw))
    end
  | Some _ => Err "face-typedef-type"
  end.

(* ---------------------------------------------------------------- format (Add) *)
Record level := mkLevel { l_scale : option (list f64); l_meta : meta }.

(* result of formatting one element against its parent level: new data, element's metadata
   (own map, or the inherited copy for sensor elements), new parent level *)
Definition gps_fix_desc (v : Z) : bytes :=
  if v =? 0 then bytes_of_s "No lock" else if v =? 2 then bytes_of_s "2D lock"
  else if v =? 3 then bytes_of_s "3D lock"
  else app (bytes_of_s "unknown lock: ") (bytes_of_s "?").   (* the number is compared separately *)

Definition format_elem (key : bytes) (typ size count : Z) (raw : bytes) (own : meta)
           (parent : level) (ancestors : list meta) : outcome (data * meta * level) :=
  bind (format_basic key typ size count raw) (fun d0 =>
  bind (match l_scale parent with
        | Some sc => bind (float_slice d0) (fun vs => bind (apply_scale vs sc) (fun r =>
                       Ok (DScaled r, mkLevel None (l_meta parent))))
        | None => Ok (d0, parent)
        end) (fun '(d1, p1) =>
  let frames := l_meta p1 :: ancestors in
  if is_meta_key key then
    Ok (d1, own, mkLevel (l_scale p1) (meta_set (l_meta p1) (friendly key) d1))
  else if key_is key "SCAL" then
    bind (float_slice d1) (fun vs =>
      match vs with
      | [] => Err "scale-empty"
      | _ => Ok (DScaled vs, own, mkLevel (Some vs) (l_meta p1))
      end)
  else if key_is key "GPS5" then
    bind (float_type 5 d1) (fun rows => Ok (DGps rows, init_metadata frames, p1))
  else if key_is key "ACCL" then
    bind (float_type 3 d1) (fun rows => Ok (DVec3 0 (map zxy rows), init_metadata frames, p1))
  else if key_is key "GYRO" then
    bind (float_type 3 d1) (fun rows => Ok (DVec3 1 (map zxy rows), init_metadata frames, p1))
  else if key_is key "MAGN" then
    bind (float_type 3 d1) (fun rows => Ok (DVec3 2 (map zxy rows), own, p1))
  else if key_is key "WRGB" then
    bind (float_type 3 d1) (fun rows => Ok (DVec3 3 rows, init_metadata frames, p1))
  else if key_is key "GPSP" then
    match d1 with
    | DInts U16 true [v] =>
        let dv := DGpsDop (fdiv (f_of_Z v) (f_of_Z 100)) in
        Ok (dv, own, mkLevel (l_scale p1) (meta_set (l_meta p1) (friendly key) dv))
    | _ => Err "gpsp-type"
    end
  else if key_is key "GPSF" then
    match d1 with
    | DInts U32 true [v] =>
        let m1 := meta_set (l_meta p1) "gps_fix" (DGpsFix v) in
        let m2 := meta_set m1 "gps_fix_description" (DStrs true [gps_fix_desc v]) in
        Ok (DGpsFix v, own, mkLevel (l_scale p1) m2)
    | _ => Err "gpsf-type"
    end
  else if key_is key "FACE" then
    let m := init_metadata frames in
    bind (parse_faces m size count raw d1) (fun d2 => Ok (d2, m, p1))
  else if (key_is key "FCNM") || (key_is key "ISOE") then
    Ok (d1, init_metadata frames, p1)
  else Ok (d1, own, p1))).

(* ---------------------------------------------------------------- the reader *)
Definition ceil4 (n : Z) : Z := ((n + 3) / 4) * 4.

Definition valid_key (k : bytes) : bool := forallb (fun c => (c <=? 127)%N) k.

(* Reads every element of bs (the reader runs to EOF of its - possibly limited - input).
   ancestors: metadata maps above the parent.  Returns the children and the parent level. *)
Fixpoint read_level (fuel : nat) (bs : bytes) (parent : level) (ancestors : list meta)
  : outcome (list elem * level) :=
  match fuel with
  | O => OutOfFuel
  | S fuel' =>
    match bs with
    | [] => Ok ([], parent)                              (* io.EOF at an element boundary *)
    | _ =>
      if Nat.ltb (length bs) 8 then Err "header-short" else
      let key := firstn 4 bs in
      let typ := Z.of_N (nth 4 bs 0%N) in
      let size := Z.of_N (nth 5 bs 0%N) in
      let count := Z.of_N (nth 6 bs 0%N) * 256 + Z.of_N (nth 7 bs 0%N) in
      let rest := skipn 8 bs in
      if negb (valid_key key) then Err "header-key" else
      if typ =? ty "#" then Err "header-compressed" else
      let total := size * count in
      let padded := ceil4 total in
      let padding := padded - total in
      bind
        (if typ =? 0 then
           (* nested: a LimitedReader over the next `padded` bytes; all of them must be there *)
           let inner := firstn (Z.to_nat padded) rest in
           bind (read_level fuel' inner (mkLevel None []) (l_meta parent :: ancestors))
                (fun '(kids, lv) =>
                   if Nat.ltb (length inner) (Z.to_nat padded) then Err "nested-short"
                   else Ok (kids, l_meta lv, [] : bytes, skipn (Z.to_nat padded) rest))
         else
           if Nat.ltb (length rest) (Z.to_nat total) then Err "data-short"
           else Ok ([], [], firstn (Z.to_nat total) rest, skipn (Z.to_nat total) rest))
        (fun '(kids, own, raw, after) =>
           if Nat.ltb (length after) (Z.to_nat padding) then Err "padding-short" else
           let after := skipn (Z.to_nat padding) after in
           bind (format_elem key typ size count raw own parent ancestors) (fun '(d, m, parent') =>
           bind (read_level fuel' after parent' ancestors) (fun '(sibs, lvl) =>
             Ok (Elem key typ size count d m kids :: sibs, lvl))))
    end
  end.

Definition read (bs : bytes) : outcome (list elem) :=
  omap fst (read_level (S (length bs)) bs (mkLevel None []) []).
