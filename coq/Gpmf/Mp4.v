(* pkg/gopro/gpmf/decoder.go (after the repair of the sample walk), offset.go:
   track selection, the walk over the sample tables, per-sample payload read and the time
   offsets given to sensor readings.  Box parsing is mp4ff's; the tables arrive parsed. *)
From Coq Require Import String Ascii List ZArith NArith Bool Lia.
From TT Require Import Base.Outcome Base.Str Base.F64 Gpmf.Klv Gpmf.Walk.
Import ListNotations.
Local Open Scope Z_scope.

Record tables := mkTables {
  t_stsc : list (Z * Z);          (* first chunk, samples per chunk *)
  t_uniform : Z; t_nsamples : Z; t_sizes : list Z;
  t_stts : list (Z * Z);          (* count, delta *)
  t_offsets : list Z }.           (* absolute chunk offsets *)

Record trak := mkTrak { tr_handler : string; tr_name : string; tr_timescale : Z; tr_tables : tables }.

Definition u32 (z : Z) : Z := z mod 2 ^ 32.
Definition u64 (z : Z) : Z := z mod 2 ^ 64.
Definition i64 (z : Z) : Z := let m := z mod 2 ^ 64 in if m <? 2 ^ 63 then m else m - 2 ^ 64.

(* one sample: payload location and media-time interval in ticks *)
Record sample := mkSample { sm_off : Z; sm_size : Z; sm_start : Z; sm_end : Z }.

(* the stts cursor: skip exhausted entries, take one sample's delta *)
Fixpoint stts_next (fuel : nat) (left : Z) (rest : list (Z * Z)) (cur_delta : Z)
  : option (Z * Z * list (Z * Z) * Z) :=   (* delta, left', rest', cur_delta' *)
  if 0 <? left then Some (cur_delta, left - 1, rest, cur_delta) else
  match fuel with
  | O => None
  | S f => match rest with
           | [] => None
           | (cnt, d) :: r => stts_next f cnt r d
           end
  end.

Record cursor := mkCur { cu_sample : Z; cu_dec : Z; cu_left : Z; cu_rest : list (Z * Z); cu_delta : Z }.

(* the samples of one chunk *)
Fixpoint chunk_samples (fuel : nat) (tb : tables) (n spc : Z) (offset : Z) (cu : cursor)
  : outcome (list sample * cursor) :=
  match fuel with
  | O => OutOfFuel
  | S f =>
    if (n <? spc) && (cu_sample cu <=? t_nsamples tb) then
      match stts_next (S (length (cu_rest cu))) (cu_left cu) (cu_rest cu) (cu_delta cu) with
      | None => Err "no-duration"
      | Some (dur, left', rest', delta') =>
        bind (if t_uniform tb =? 0 then
                match nth_error (t_sizes tb) (Z.to_nat (cu_sample cu - 1)) with
                | Some sz => Ok sz
                | None => Err "no-size"
                end
              else Ok (t_uniform tb)) (fun size =>
        let sm := mkSample offset size (cu_dec cu) (u64 (cu_dec cu + dur)) in
        bind (chunk_samples f tb (n + 1) spc (u64 (offset + size))
                (mkCur (cu_sample cu + 1) (u64 (cu_dec cu + dur)) left' rest' delta'))
             (fun '(ss, cu') => Ok (sm :: ss, cu')))
      end
    else Ok ([], cu)
  end.

(* the chunks of one stsc entry *)
Fixpoint entry_chunks (fuel : nat) (tb : tables) (chunk last spc : Z) (cu : cursor)
  : outcome (list sample * cursor) :=
  match fuel with
  | O => OutOfFuel
  | S f =>
    if (chunk <=? last) && (cu_sample cu <=? t_nsamples tb) then
      if (chunk =? 0) || (Z.of_nat (length (t_offsets tb)) <? chunk) then Err "no-chunk-offset" else
      let offset := nth (Z.to_nat (chunk - 1)) (t_offsets tb) 0 in
      bind (chunk_samples (S (Z.to_nat (Z.min spc (t_nsamples tb)))) tb 0 spc offset cu) (fun '(ss, cu') =>
      bind (entry_chunks f tb (u32 (chunk + 1)) last spc cu') (fun '(ss2, cu2) => Ok (ss ++ ss2, cu2)))
    else Ok ([], cu)
  end.

Fixpoint entries (tb : tables) (es : list (Z * Z)) (cu : cursor) : outcome (list sample) :=
  match es with
  | [] => Ok []
  | (first, spc) :: rest =>
    let last := match rest with
                | (nf, _) :: _ => u32 (nf - 1)
                | [] => Z.of_nat (length (t_offsets tb))
                end in
    bind (entry_chunks (S (S (length (t_offsets tb)))) tb first last spc cu) (fun '(ss, cu') =>
    bind (entries tb rest cu') (fun ss2 => Ok (ss ++ ss2)))
  end.

Definition samples_of (tb : tables) : outcome (list sample) :=
  let cu0 := match t_stts tb with
             | (cnt, d) :: r => mkCur 1 0 cnt r d
             | [] => mkCur 1 0 0 [] 0
             end in
  bind (entries tb (t_stsc tb) cu0) (fun ss =>
    if Z.of_nat (length ss) <? t_nsamples tb then Err "tables-describe-fewer-samples" else Ok ss).

(* ---- offset.go: reading i of n gets start + i*((end-start)/n), in ns ---- *)
Fixpoint offsets_from (n : nat) (off inc : Z) : list Z :=
  match n with O => [] | S n' => off :: offsets_from n' (i64 (off + inc)) inc end.
(* offset.go mediaTime (after the repair D27): floor (ticks * 1e9 / timescale) nanoseconds, whole
   seconds and remaining ticks converted separately, in int64 arithmetic *)
Definition media_time (ts ticks : Z) : Z :=
  i64 (i64 ((ticks / ts) * 1000000000) + (ticks mod ts) * 1000000000 / ts).
Definition reading_offsets (ts : Z) (sm : sample) (n : nat) : list Z :=
  match n with
  | O => []
  | _ => let start := media_time ts (sm_start sm) in
         let stop := media_time ts (sm_end sm) in
         offsets_from n start (Z.quot (i64 (stop - start)) (Z.of_nat n))
  end.

Definition offseter_rows (d : data) : option nat :=
  match d with
  | DGps rows => Some (length rows)
  | DVec3 _ rows => Some (length rows)
  | _ => None
  end.

(* sensor elements of a payload, in document order, with the offsets of their readings *)
Definition payload_offsets (ts : Z) (sm : sample) (es : list elem) : list (bytes * list Z) :=
  flat_map (fun e => match offseter_rows (e_data e) with
                     | Some n => [(e_key e, reading_offsets ts sm n)]
                     | None => []
                     end) (preorder_all es).

Definition slice (file : bytes) (off size : Z) : bytes :=
  let len := Z.of_nat (length file) in
  if len <=? off then [] else firstn (Z.to_nat (Z.min size len)) (skipn (Z.to_nat off) file).

Definition contains (hay needle : string) : bool :=
  let h := chars_of hay in let n := chars_of needle in
  existsb (fun k => match String.prefix needle (of_chars (skipn k h)) with true => true | false => false end)
          (seq 0 (S (length h))).

Definition decode_trak (file : bytes) (ts : Z) (tb : tables) : outcome (list elem * list (bytes * list Z)) :=
  bind (samples_of tb) (fun ss =>
    fold_left (fun acc sm =>
      bind acc (fun '(els, offs) =>
        if 2 ^ 63 <=? sm_off sm then Err "seek" else
        bind (read (slice file (sm_off sm) (sm_size sm))) (fun es =>
          Ok (els ++ es, offs ++ payload_offsets ts sm es)))) ss (Ok ([], []))).

Fixpoint decode (file : bytes) (traks : list trak) : outcome (list elem * list (bytes * list Z)) :=
  match traks with
  | [] => Err "no-metadata-track"
  | tr :: rest =>
    if String.eqb (tr_handler tr) "meta" && contains (tr_name tr) "GoPro MET" then
      if tr_timescale tr =? 0 then Err "zero-timescale" else
      decode_trak file (tr_timescale tr) (tr_tables tr)
    else decode file rest
  end.
