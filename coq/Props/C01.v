(* C01: LapTimer files survive encode -> decode -> encode unchanged. *)
From Coq Require Import String Ascii List ZArith NArith Bool Lia.
From TT Require Import Base.Civil.
From TT Require Import Base.Outcome Base.Str Base.F64 Xml.Print Xml.Lex Laptimer.Leaves Laptimer.Value Laptimer.Codec Proofs.Xml_proofs Proofs.Leaf_proofs Proofs.Doc_proofs Proofs.Doc_lt Proofs.Fixed_proofs Proofs.Leaf2_proofs Proofs.Leaf3_proofs Proofs.Struct_proofs.
Import ListNotations.
Local Open Scope Z_scope.

(* Text made of valid XML characters - including quotes, ampersands, angle brackets, tabs and
   line breaks - comes back unchanged from escape + line filter + strict reader. *)
Theorem C01_text_roundtrip :
  forall t rest, forallb valid_char t = true -> (rest = [] \/ exists r, rest = 60 :: r) ->
    chardata (S (length (filter_text (escape_text t) ++ rest))) (filter_text (escape_text t) ++ rest) []
    = Ok (t, rest).
Proof.
  intros t rest Hv Hr. rewrite text_roundtrip by exact Hr. f_equal. f_equal.
  unfold clean. induction t as [|c t IH]; [reflexivity|]. cbn [forallb map] in *.
  apply andb_true_iff in Hv. destruct Hv as [H1 H2]. rewrite H1, IH by exact H2. reflexivity.
Qed.
Print Assumptions C01_text_roundtrip.

(* PARTIAL (the full statement `dom v -> dec (enc v) = quant v /\ enc (quant v) = enc v` for all
   databases is not proved; it is established per generated database by the correspondence:
   exact output bytes, decoded value = quant, re-encoding identical).  What is proved about
   `quant`: leaves whose printed form is the value itself are fixed points. *)
Theorem C01_exact_leaves_partial :
  forall z b d p i, quant_leaf (LvInt z) = Ok (LvInt z) /\ quant_leaf (LvBool b) = Ok (LvBool b) /\
                    quant_leaf (LvPos d p i) = Ok (LvPos d p i) /\ quant_leaf (LvThresh z) = Ok (LvThresh z).
Proof. intros. repeat split; reflexivity. Qed.
Print Assumptions C01_exact_leaves_partial.

(* the known finding D22 as a theorem about the faithful model: an optional fixed-decimal
   value that prints as zero vanishes on re-encoding, so the second encoding is shorter *)
Definition d22_witness : val :=
  VStruct [("ambientTemp"%string, MOmit, FOne (VLeaf (LvF 1 (f_of_ratio 4 100))))].
Theorem C01_reencode_omitempty_refuted :
  vanishing d22_witness = true /\
  exists q, quant d22_witness = Ok q /\ enc q <> enc d22_witness.
Proof.
  split; [vm_compute; reflexivity|].
  eexists. split; [vm_compute; reflexivity|]. vm_compute. discriminate.
Qed.
Print Assumptions C01_reencode_omitempty_refuted.

(* round trips of the structured leaves on concrete values (by computation) *)
Example C01_leaf_roundtrips :
  map quant_leaf [ LvDur 123456789012; LvLapDate 1654041598999000000; LvFixDate 1654041598256000000;
                   LvF 1 (f_of_ratio 12345 1000); LvSync 1995000000 ]
  = [ Ok (LvDur 123450000000); Ok (LvLapDate 1654041598000000000); Ok (LvFixDate 1654041598250000000);
      Ok (LvF 1 (f_of_ratio 123 10)); Ok (LvSync 2000000000) ].
Proof. vm_compute. reflexivity. Qed.

(* ---- leaves with a lossy printed form: decode (encode v) is v at the format's precision ---- *)
(* durations MM:SS.cc - every non-negative duration below 2^62 ns comes back floored to 1/100 s *)
Theorem C01_duration_roundtrip :
  forall d, 0 <= d < 2 ^ 62 -> quant_leaf (LvDur d) = Ok (LvDur (d / 10000000 * 10000000)).
Proof. intros d H. cbn [quant_leaf]. rewrite duration_roundtrip by exact H. reflexivity. Qed.
Print Assumptions C01_duration_roundtrip.

(* dates DD-MON-YY,HH:MM:SS[.cc] - every instant from 1969-01-01 to 2068-12-31 (the window a
   two-digit year can name) comes back floored to the second, or to 1/100 s for fix dates *)
Theorem C01_date_roundtrip :
  forall t, first_day * ns_per_day <= t < (first_day + Z.of_nat n_days) * ns_per_day ->
    quant_leaf (LvLapDate t) = Ok (LvLapDate (t / 1000000000 * 1000000000)) /\
    quant_leaf (LvFixDate t) = Ok (LvFixDate (t / 10000000 * 10000000)).
Proof.
  intros t H. cbn [quant_leaf]. rewrite (date_roundtrip false t H), (date_roundtrip true t H). split; reflexivity.
Qed.
Print Assumptions C01_date_roundtrip.

(* ... and a value already at the format's precision is a fixed point, so a second round trip
   changes nothing *)
Theorem C01_duration_idempotent :
  forall d, 0 <= d < 2 ^ 62 ->
    quant_leaf (LvDur (d / 10000000 * 10000000)) = Ok (LvDur (d / 10000000 * 10000000)).
Proof.
  intros d H. rewrite C01_duration_roundtrip.
  - rewrite Z.div_mul by discriminate. reflexivity.
  - split; [apply Z.mul_nonneg_nonneg; [apply Z.div_pos|]; lia|].
    pose proof (Z.mul_div_le d 10000000 ltac:(lia)). lia.
Qed.
Print Assumptions C01_duration_idempotent.

(* ---- the document level of decode-after-encode ---- *)
(* Decoding starts by parsing the file: for every value the bytes written parse back to exactly
   the element tree that was printed (names, attributes, nesting, order, every text), so nothing
   is lost or reordered between encoder and decoder at the XML level; what remains of the round
   trip is leaf by leaf (the theorems above and the correspondence). *)
Theorem C01_document_roundtrip : forall v, wf_val v -> lex (enc_text v) = Ok (cleaned (root_tree v)).
Proof. exact enc_parses. Qed.
Print Assumptions C01_document_roundtrip.

(* ---- fixed-decimal leaves (speeds, temperatures, coordinates, gear ratios ...) ---- *)
(* `printable dp x`: the float x prints, at dp decimals, as N units of the last decimal with
   0 <= N < 2^51 (either sign) - e.g. every coordinate at 8 decimals, every speed at 1.  For every
   such value the text written is read back (strconv.ParseFloat: the nearest float64, shown to be
   within 2^-53 + 2^-64 relative of the decimal through Flocq) as a value that prints as the very
   same text: the second encoding equals the first, leaf by leaf.  dp <= 22. *)
Theorem C01_fixed_decimal_reencode :
  forall dp x, (dp <= 22)%nat -> printable dp x ->
    exists l', quant_leaf (LvF dp x) = Ok l' /\ leaf_text l' = leaf_text (LvF dp x).
Proof. exact fixed_leaf_reencode. Qed.
Print Assumptions C01_fixed_decimal_reencode.

Theorem C01_coordinate_reencode :
  forall la lo, printable 8 la -> printable 8 lo ->
    exists l', quant_leaf (LvCoord la lo) = Ok l' /\ leaf_text l' = leaf_text (LvCoord la lo).
Proof. exact coord_leaf_reencode. Qed.
Print Assumptions C01_coordinate_reencode.

(* the float nearest to N / 10^dp prints, at dp decimals, as N again (0 < N < 2^51) *)
Theorem C01_nearest_float_prints_back :
  forall N dp, 0 < N < 2 ^ 51 -> (dp <= 22)%nat ->
    exists m e, decomp_pos (f_of_ratio N (10 ^ Z.of_nat dp)) = Some (m, e) /\ scaled_q m e dp = N.
Proof. exact printed_back. Qed.
Print Assumptions C01_nearest_float_prints_back.

(* ---- the second encoding equals the first, for durations and dates ---- *)
(* decoding floors a duration to 1/100 s and a date to 1 s (1/100 s for fix dates); the floored
   value prints as the same text, so re-encoding the decoded value writes the same bytes *)
Theorem C01_duration_reencode :
  forall d, 0 <= d < 2 ^ 62 -> exists l', quant_leaf (LvDur d) = Ok l' /\ leaf_text l' = leaf_text (LvDur d).
Proof. exact duration_leaf_reencode. Qed.
Print Assumptions C01_duration_reencode.

Theorem C01_date_reencode :
  forall t, first_day * ns_per_day <= t < (first_day + Z.of_nat n_days) * ns_per_day ->
    (exists l', quant_leaf (LvLapDate t) = Ok l' /\ leaf_text l' = leaf_text (LvLapDate t)) /\
    (exists l', quant_leaf (LvFixDate t) = Ok l' /\ leaf_text l' = leaf_text (LvFixDate t)).
Proof. exact date_leaf_reencode. Qed.
Print Assumptions C01_date_reencode.

(* ---- every leaf at once ---- *)
(* `leaf_dom`: texts of valid characters; fixed decimals printable below 2^51 units of their last
   decimal; durations below 2^62 ns; dates 1969-2068; coordinates, altitude coordinates, relative
   positions, gear ratios and intermediates built from those; tag lists of valid characters; tyres
   whose speed rating has no white space; video sync points whose offset in seconds prints below
   2^51 hundredths; plus and minus zero in every float position.  For every such leaf, decoding what was written
   succeeds and writing the decoded value again produces the same text. *)
Theorem C01_leaf_reencode :
  forall l, leaf_dom l -> exists l', quant_leaf l = Ok l' /\ leaf_text l' = leaf_text l.
Proof. exact leaf_reencode. Qed.
Print Assumptions C01_leaf_reencode.

(* ---- the database level ---- *)
(* `val_ok v`: every leaf that is written is in the leaf domain, and no optional (omitempty) leaf
   decodes to an empty value (that class is the known finding D22, see
   C01_reencode_omitempty_refuted).  For EVERY such value - any number of laps, fixes, vehicles,
   any nesting - decoding the encoding gives a value whose encoding is the same document, byte
   for byte. *)
Theorem C01_reencode_identical :
  forall v, val_ok v -> exists q, quant v = Ok q /\ enc q = enc v.
Proof. exact reencode_identical. Qed.
Print Assumptions C01_reencode_identical.

Example C01_val_ok_example :
  val_ok (VStruct [("lap"%string, MPlain, FMany [VStruct [("note"%string, MOmit, FOne (VLeaf (LvStr [104; 105])));
                                                          ("lapTime"%string, MPlain, FOne (VLeaf (LvDur 83450000000)));
                                                          ("empty"%string, MOmit, FOne (VLeaf (LvStr [])))]])]).
Proof.
  cbn. repeat split; try lia; try reflexivity.
  intros _ l' E. cbn in E. inversion E. reflexivity.
Qed.
