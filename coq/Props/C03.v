(* C03: conversion keeps timed laps, numbers fixes 1..N and accumulates distance. *)
From Coq Require Import String Ascii List ZArith Bool.
From TT Require Import Base.Outcome Base.Str Base.F64 Base.Civil
     Trackaddict.Columns Trackaddict.Model Convert.Model Proofs.Conv_proofs.
Import ListNotations.
Local Open Scope Z_scope.

(* The database has one lap per converted source lap, in order, each with the source lap's
   number and duration and the configured track, tags, note and vehicle; fix indices run
   id, id+1, ... without gaps across the whole database (id = 1 at the top). *)
Theorem C03_laps_and_fix_ids :
  forall o v ls adj id geod db,
    laps_of o v adj id ls geod = Ok db ->
    length db = length ls /\
    Forall2 (fun l ll => l_id ll = lap_num l /\ l_time ll = lap_dur l /\ l_vehicle ll = v /\
                         l_track ll = o_track o /\ l_tags ll = o_tags o /\ l_note ll = o_note o) ls db /\
    map f_id (flat_map l_fixes db) = map (fun k => id + Z.of_nat k) (seq 0 (length (flat_map l_fixes db))).
Proof. exact laps_of_spec. Qed.
Print Assumptions C03_laps_and_fix_ids.

(* One lap: its fixes are its first row (distance 0, offset 0) followed by exactly the
   GPS-updated later rows, in order, zipped with the geodesic distances between successive
   fix positions; the overall distance is the 1-decimal rounding of the running sum. *)
Theorem C03_lap_fixes :
  forall o v adj id l geod ll adj' g,
    lap_of o v adj id l geod = Ok (ll, adj', g) ->
    l_id ll = lap_num l /\ l_time ll = lap_dur l /\ l_vehicle ll = v /\ l_track ll = o_track o /\
    l_tags ll = o_tags o /\ l_note ll = o_note o /\
    match lap_recs l with
    | [] => l_fixes ll = [] /\ l_date ll = None /\ adj' = adj
    | r0 :: rest =>
        adj' = (match o_start o, adj with Some sd, None => Some (sd - utc_midnight (r_time r0)) | _, _ => adj end) /\
        l_date ll = Some (r_time r0 + adj_value adj') /\
        l_fixes ll = fix_of o (adj_value adj') id fzero r0 (r_now r0)
                     :: fixes_spec o (adj_value adj') (r_now r0) (filter upd rest) geod (id + 1) fzero /\
        (length (filter upd rest) <= length geod)%nat /\
        l_overall ll = round1dp (fold_left fadd (firstn (length (filter upd rest)) geod) fzero)
    end.
Proof. exact lap_of_spec. Qed.
Print Assumptions C03_lap_fixes.

(* offsets are row time minus the first row's; dates are the row's; nothing is dropped *)
Theorem C03_fix_sources :
  forall o a fn rows ds id dist, (length rows <= length ds)%nat ->
    map f_date (fixes_spec o a fn rows ds id dist) = map (fun r => r_time r + a) rows /\
    map f_offset (fixes_spec o a fn rows ds id dist) = map (fun r => r_now r - fn) rows /\
    length (fixes_spec o a fn rows ds id dist) = length rows.
Proof. exact fixes_spec_sources. Qed.
Print Assumptions C03_fix_sources.

(* the k-th later fix's distance is the running sum of the geodesic distances so far *)
Theorem C03_distance_is_running_sum :
  forall o a fn rows ds id dist k,
    (k < length (fixes_spec o a fn rows ds id dist))%nat ->
    f_dist (nth k (fixes_spec o a fn rows ds id dist) (fix_of o a 0 fzero record0 0))
    = fold_left fadd (firstn (S k) ds) dist.
Proof. exact fixes_spec_dist. Qed.
Print Assumptions C03_distance_is_running_sum.

(* fewer than three laps: an empty database; otherwise laps 2..L-1 *)
Theorem C03_out_and_in_lap_dropped :
  forall o v laps geod, o_predict o = O ->
    convert o v laps geod =
    (if Nat.ltb (length laps) 3 then Ok []
     else laps_of o (if String.eqb (o_vehicle o) "" then v else o_vehicle o) None 1 (middle laps) geod).
Proof. intros o v laps geod H. unfold convert, convert_with. rewrite H. reflexivity. Qed.
Print Assumptions C03_out_and_in_lap_dropped.
