(* C16: sensor readings carry only their own stream's, device's and payload's metadata. *)
From Coq Require Import String List ZArith NArith Bool.
From TT Require Import Base.Outcome Base.F64 Gpmf.Klv Proofs.C16_proofs Proofs.C07_proofs.
Import ListNotations.

(* What a sensor element exposes for a key: the value its own stream states, else the
   nearest enclosing container's; the synthetic root above the devices never contributes
   (unless the element sits directly under it).  Frames of sibling streams and of other
   devices are not among (parent :: ancestors), so nothing of theirs can appear. *)
Theorem C16_exposes_own :
  forall p anc k,
    meta_get (init_metadata (p :: anc)) k = lookup_frames (removelast (p :: anc)) k
    \/ (anc = [] /\ meta_get (init_metadata (p :: anc)) k = meta_get p k).
Proof. exact init_metadata_get. Qed.
Print Assumptions C16_exposes_own.

(* a value restated later replaces the earlier one ... *)
Theorem C16_restated_replaces : forall m k v, meta_get (meta_set m k v) k = Some v.
Proof. exact meta_get_set_same. Qed.
Print Assumptions C16_restated_replaces.

(* ... and touches no other key *)
Theorem C16_restated_only_that_key :
  forall m k k' v, k' <> k -> meta_get (meta_set m k v) k' = meta_get m k'.
Proof. exact meta_get_set_other. Qed.
Print Assumptions C16_restated_only_that_key.

(* an element that is not a metadata key writes nothing into its container's metadata: a
   stream (or any sensor or data element) cannot leak upward into its device *)
Theorem C16_no_upward_leak :
  forall key typ size count raw own parent anc,
    l_scale parent = None -> plain_key key = true ->
    format_elem key typ size count raw own parent anc =
    bind (format_basic key typ size count raw) (fun d => Ok (d, own, parent)).
Proof. exact format_elem_plain. Qed.
Print Assumptions C16_no_upward_leak.
