(* C13: encoded LapTimer files are well-formed XML in LapTimer's field syntax. *)
From Coq Require Import String Ascii List ZArith NArith Bool.
From TT Require Import Base.Outcome Base.Str Base.F64 Xml.Print Xml.Lex Laptimer.Leaves Laptimer.Value Laptimer.Codec Proofs.Xml_proofs Proofs.Doc_proofs Proofs.Doc_lt.
Import ListNotations.
Local Open Scope Z_scope.

(* Every free text - ANY list of code points, valid or not - written through escape and the
   encoder's line filter is read back by the strict reader as the original text with the
   characters XML cannot carry replaced by U+FFFD; reading stops exactly at the next tag. *)
Theorem C13_text_recovered :
  forall t rest, (rest = [] \/ exists r, rest = 60 :: r) ->
    chardata (S (length (filter_text (escape_text t) ++ rest))) (filter_text (escape_text t) ++ rest) []
    = Ok (clean t, rest).
Proof. exact text_roundtrip. Qed.
Print Assumptions C13_text_recovered.

(* in the file each character is: the five predefined entities for the XML-significant ones,
   a LITERAL tab and line feed (not numeric entities), &#xD; for CR, itself otherwise *)
Theorem C13_literal_tab_lf_and_entities :
  forall t, filter_text (escape_text t) = flat_map out_cp t.
Proof. exact filter_escape. Qed.
Print Assumptions C13_literal_tab_lf_and_entities.

Theorem C13_no_raw_lt : forall c, ~ In 60 (out_cp c).
Proof. exact out_cp_no_lt. Qed.
Print Assumptions C13_no_raw_lt.

(* every document starts with the UTF-8 XML declaration *)
Theorem C13_declaration :
  forall v, starts xml_header (enc_text v) = Some (filter_text (print_tree 0 true (root_tree v))).
Proof. intros v. apply document_has_declaration. Qed.
Print Assumptions C13_declaration.

(* LapTimer's import syntax of the structured fields, on concrete values (checked by
   computation; the general statements are established per case by the correspondence) *)
Example C13_field_syntax :
  map (fun l => string_of_cps_ascii (leaf_text l))
      [ LvLapDate 1654041598000000000; LvFixDate 1654041598250000000; LvDur 123450000000; LvDur 6000000000000;
        LvCoord (f_of_ratio 508579520 10000000) (f_of_ratio (-7526170) 10000000);
        LvPos 1 2 true; LvRel (f_of_ratio 12345 100) 61230000000; LvF 0 (f_of_ratio 5 2); LvF 1 (f_of_ratio (-4) 100);
        LvF 2 (f_of_ratio 1 8); LvF 6 (f_of_ratio 1 3); LvThresh 90; LvSync 1990000000 ]
  = [ "31-MAY-22,23:59:58"; "31-MAY-22,23:59:58.25"; "02:03.45"; "100:00.00"; "50.85795200,-0.75261700";
      "1,2,1"; "123.5,01:01.23"; "2"; "-0.0"; "0.12"; "0.333333"; "90%"; "1.99" ]%string.
Proof. vm_compute. reflexivity. Qed.

(* ---- the whole document ---- *)
(* For EVERY tree of LapTimer's shape (an element is empty, holds one non-empty text, or holds only
   elements; names are XML names, attribute values are plain), at any depth and width: the
   document the encoder writes - declaration, tab indentation, escaped text passed through the
   line filter - is accepted by the strict reader and parses to that very tree, its texts cleaned
   of the characters XML cannot carry. *)
Theorem C13_document_wellformed : forall t, shaped t -> lex (document t) = Ok (cleaned t).
Proof. exact lex_document. Qed.
Print Assumptions C13_document_wellformed.

(* ... and every value of the LapTimer model (field names from the schema) has that shape *)
Theorem C13_every_value_parses : forall v, wf_val v -> lex (enc_text v) = Ok (cleaned (root_tree v)).
Proof. exact enc_parses. Qed.
Print Assumptions C13_every_value_parses.

(* what is in the file: the printed tree with each text character in its file form (literal tab
   and line feed, the five predefined entities, &#xD;), tags untouched by the line filter *)
Theorem C13_file_form : forall t d f r, tags_ok t -> filter_text (print_tree d f t ++ r) = file_tree d f t ++ filter_text r.
Proof. exact filter_print. Qed.
Print Assumptions C13_file_form.
