(* C19 (partial: plane geometry and the bounded decision; the ellipsoidal numerics are outside
   the model). *)
From Coq Require Import Reals Bool.
From TT Require Import Geo.Plane Proofs.Geo_proofs.
Local Open Scope R_scope.

Theorem C19_plane_intersection :
  forall a1x a1y a2x a2y b1x b1y b2x b2y : R,
    let la := cross (pt a1x a1y) (pt a2x a2y) in
    let lb := cross (pt b1x b1y) (pt b2x b2y) in
    let p0 := cross la lb in
    (let '(_, _, z) := p0 in z <> 0) ->
    let '(x, y) := norm p0 in
    on_line_through (a1x, a1y) (a2x, a2y) x y /\ on_line_through (b1x, b1y) (b2x, b2y) x y.
Proof. exact plane_intersection. Qed.
Print Assumptions C19_plane_intersection.

Theorem C19_bounded_decision :
  forall sa1 sa2 sb1 sb2, bounded_ok sa1 sa2 sb1 sb2 = true <-> (sa1 = sa2 /\ sb1 = sb2).
Proof. exact bounded_decision. Qed.
Print Assumptions C19_bounded_decision.
