(* C19 (partial: plane geometry and the bounded decision; the ellipsoidal numerics are outside
   the model). *)
From Coq Require Import Reals Bool ZArith QArith Qabs.
From TT Require Import Base.F64 Geo.Plane Geo.Heading Proofs.Geo_proofs Proofs.Heading_proofs.
Local Open Scope R_scope.

Theorem C19_plane_intersection :
  forall a1x a1y a2x a2y b1x b1y b2x b2y : R,
    let la := cross (pt a1x a1y) (pt a2x a2y) in
    let lb := cross (pt b1x b1y) (pt b2x b2y) in
    let p0 := cross la lb in
    (let '(_, _, z) := p0 in z <> 0) ->
    let '(x, y) := norm p0 in
    on_line_through (a1x, a1y) (a2x, a2y) x y /\ on_line_through (b1x, b1y) (b2x, b2y) x y.
Proof. exact plane_intersection. Qed.
Print Assumptions C19_plane_intersection.

(* Intersect returns the crossing iff, on both segments, the azimuth arriving at the crossing
   from end point 1 and the azimuth leaving it for end point 2 point the same way (after the
   repair D25; before it the signs were compared, which fails on meridians). *)
Theorem C19_bounded_decision :
  forall a1 a2 b1 b2, bounded_ok a1 a2 b1 b2 = true <-> (same_heading a1 a2 = true /\ same_heading b1 b2 = true).
Proof. intros. unfold bounded_ok. apply andb_true_iff. Qed.
Print Assumptions C19_bounded_decision.

(* ... and "the same way" is what the extended intersection's clause needs: azimuths equal to
   within eps < 90 degrees (modulo whole turns) agree - the crossing is inside -, azimuths half a
   turn apart to within eps do not - it is beyond an end.  The clause gives eps = 1e-6. *)
Theorem C19_equal_azimuths_inside :
  forall d (k : Z) eps, (eps < 90)%Q -> (Qabs (d - 360 * inject_Z k) <= eps)%Q -> same_heading_q d = true.
Proof. exact equal_same. Qed.
Print Assumptions C19_equal_azimuths_inside.
Theorem C19_opposite_azimuths_outside :
  forall d (k : Z) eps, (eps < 90)%Q -> (Qabs (d - 180 - 360 * inject_Z k) <= eps)%Q -> same_heading_q d = false.
Proof. exact opposite_not_same. Qed.
Print Assumptions C19_opposite_azimuths_outside.

(* the pre-repair rule is refuted by a meridional segment: arriving azimuth 180, leaving 0 *)
Example C19_sign_rule_refuted :
  (* 180.0 and 0.0 have the same sign bit, and do not point the same way *)
  (Z.testbit 0x4066800000000000 63 = Z.testbit 0 63 /\ same_heading 0x4066800000000000%Z 0%Z = false)%Z.
Proof. split; vm_compute; reflexivity. Qed.
