(* C10: imperial and metric TrackAddict columns decode to the same metric value. *)
From Coq Require Import String List ZArith Bool Reals.
From Flocq Require Import Core.
From TT Require Import Base.Outcome Base.Str Base.F64 Base.GoParse
     Trackaddict.Units Trackaddict.Columns Proofs.C10_proofs Proofs.C10_real.
Import ListNotations.
Local Open Scope string_scope.

(* Every one of the nine dual-unit quantities: the imperial header and the metric header
   target the same record field; the metric column stores the parsed number unchanged and
   the imperial column stores exactly the imperial->metric conversion of the parsed number. *)
Theorem C10_imperial_converts :
  Forall (fun '(imp, met, c) =>
            exists f, col_of_header imp = Some (CFloat f [c]) /\
                      col_of_header met = Some (CFloat f []))
         dual_quantities.
Proof. exact dual_quantities_ok. Qed.
Print Assumptions C10_imperial_converts.

Theorem C10_metric_identity :
  forall v, decode_cell [] v = parse_float v.
Proof. exact metric_identity. Qed.
Print Assumptions C10_metric_identity.

(* Twin logs: a row stating text vi in the imperial column and a row stating text vm in the
   metric column of the same quantity write the same field of the record, and leave every
   other field as it was; the values written are conv(parse vi) and parse vm. *)
Theorem C10_twin_logs_same_field :
  forall imp met c, In (imp, met, c) dual_quantities ->
  forall vi vm xi xm r,
    parse_float vi = Ok xi -> parse_float vm = Ok xm ->
    exists f ci cm,
      col_of_header imp = Some ci /\ col_of_header met = Some cm /\
      set_col ci vi r = Ok (set_ffield f (apply_conv c xi) r) /\
      set_col cm vm r = Ok (set_ffield f xm r).
Proof. exact twin_logs_same_field. Qed.
Print Assumptions C10_twin_logs_same_field.

(* Column order does not matter: two float columns that target different fields commute. *)
Theorem C10_order_independent :
  forall f g x y r, f <> g ->
    set_ffield f x (set_ffield g y r) = set_ffield g y (set_ffield f x r).
Proof. exact set_ffield_comm. Qed.
Print Assumptions C10_order_independent.

(* The conversions are the physical ones up to the constants' printed precision:
   exact for feet, 2.5e-6 for miles, 4e-7 for PSI (checked on the constants themselves). *)
Theorem C10_constants_precise : constants_precise = true.
Proof. exact constants_precise_ok. Qed.
Print Assumptions C10_constants_precise.

(* ---- the same as statements about real numbers, for every float64 value ---- *)
(* `R_of a` is the real number a float64 bit pattern denotes, `u64 = 2^-53` the half-ulp relative
   error of one rounding.  Feet, miles and PSI: for EVERY value v (sign, magnitude, any number
   of fractional digits) of magnitude up to 2^1000, the stored number differs from v times the
   decimal constant of units.go (0.3048, 1.60934, 6.89476) by at most three half-ulps relative
   (constant, product) plus the underflow quantum 2^-1075: far inside "the conversion constant's
   precision". *)
Theorem C10_imperial_real :
  forall c kf k v, const_of c = Some (kf, k) -> (Rabs (R_of v) <= bpow radix2 1000)%R ->
    (Rabs (R_of (apply_conv c v) - R_of v * k) <= 3 * u64 * (Rabs (R_of v) * k) + bpow radix2 (-1075))%R.
Proof. exact mul_conv_real_bounded. Qed.
Print Assumptions C10_imperial_real.

(* and the stored number is exactly the correctly rounded product whenever it does not overflow *)
Theorem C10_imperial_is_rounded_product :
  forall c kf k v, const_of c = Some (kf, k) ->
    (Rabs (round radix2 (FLT_exp (-1074) 53) ZnearestE (R_of v * R_of kf)) < bpow radix2 1024)%R ->
    R_of (apply_conv c v) = round radix2 (FLT_exp (-1074) 53) ZnearestE (R_of v * R_of kf).
Proof. intros c kf k v H1 H2. exact (proj1 (mul_conv_real c kf k v H1 H2)). Qed.
Print Assumptions C10_imperial_is_rounded_product.

(* Fahrenheit: (v - 32) * 5 / 9 with one half-ulp relative error (and at most one underflow
   quantum) per operation; the division by 9 can never overflow *)
Theorem C10_fahrenheit_real :
  forall v, finite v ->
    (Rabs (round radix2 (FLT_exp (-1074) 53) ZnearestE (R_of v - 32)) < bpow radix2 1024)%R ->
    (Rabs (round radix2 (FLT_exp (-1074) 53) ZnearestE (R_of (fsub v (f_of_Z 32)) * 5)) < bpow radix2 1024)%R ->
    exists e1 e2 e3 t1 t2 t3, rel_ok e1 /\ rel_ok e2 /\ rel_ok e3 /\ abs_ok t1 /\ abs_ok t2 /\ abs_ok t3 /\
      R_of (apply_conv F2C v) = ((((R_of v - 32) * (1 + e1) + t1) * 5 * (1 + e2) + t2) / 9 * (1 + e3) + t3)%R.
Proof. exact f2c_real. Qed.
Print Assumptions C10_fahrenheit_real.
