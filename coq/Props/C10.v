(* C10: imperial and metric TrackAddict columns decode to the same metric value. *)
From Coq Require Import String List ZArith Bool.
From TT Require Import Base.Outcome Base.Str Base.F64 Base.GoParse
     Trackaddict.Units Trackaddict.Columns Proofs.C10_proofs.
Import ListNotations.
Local Open Scope string_scope.

(* Every one of the nine dual-unit quantities: the imperial header and the metric header
   target the same record field; the metric column stores the parsed number unchanged and
   the imperial column stores exactly the imperial->metric conversion of the parsed number. *)
Theorem C10_imperial_converts :
  Forall (fun '(imp, met, c) =>
            exists f, col_of_header imp = Some (CFloat f [c]) /\
                      col_of_header met = Some (CFloat f []))
         dual_quantities.
Proof. exact dual_quantities_ok. Qed.
Print Assumptions C10_imperial_converts.

Theorem C10_metric_identity :
  forall v, decode_cell [] v = parse_float v.
Proof. exact metric_identity. Qed.
Print Assumptions C10_metric_identity.

(* Twin logs: a row stating text vi in the imperial column and a row stating text vm in the
   metric column of the same quantity write the same field of the record, and leave every
   other field as it was; the values written are conv(parse vi) and parse vm. *)
Theorem C10_twin_logs_same_field :
  forall imp met c, In (imp, met, c) dual_quantities ->
  forall vi vm xi xm r,
    parse_float vi = Ok xi -> parse_float vm = Ok xm ->
    exists f ci cm,
      col_of_header imp = Some ci /\ col_of_header met = Some cm /\
      set_col ci vi r = Ok (set_ffield f (apply_conv c xi) r) /\
      set_col cm vm r = Ok (set_ffield f xm r).
Proof. exact twin_logs_same_field. Qed.
Print Assumptions C10_twin_logs_same_field.

(* Column order does not matter: two float columns that target different fields commute. *)
Theorem C10_order_independent :
  forall f g x y r, f <> g ->
    set_ffield f x (set_ffield g y r) = set_ffield g y (set_ffield f x r).
Proof. exact set_ffield_comm. Qed.
Print Assumptions C10_order_independent.

(* The conversions are the physical ones up to the constants' printed precision:
   exact for feet, 2.5e-6 for miles, 4e-7 for PSI (checked on the constants themselves). *)
Theorem C10_constants_precise : constants_precise = true.
Proof. exact constants_precise_ok. Qed.
Print Assumptions C10_constants_precise.
