(* C06: the GPMF reader reproduces the encoded key-length-value tree. *)
From Coq Require Import String Ascii List ZArith NArith Bool Lia.
From TT Require Import Base.Outcome Gpmf.Klv Gpmf.Walk Proofs.C06_proofs Proofs.C06_roundtrip.
Import ListNotations.
Local Open Scope Z_scope.

(* Every integer and fixed-point type (b B s S l L j J q Q): the reader's value equals the
   big-endian two's-complement encoded value, over the type's full range. *)
Theorem C06_int_value_roundtrip :
  forall k z, in_range k z -> decode_int k (enc_int k z) = z.
Proof. exact decode_enc_int. Qed.
Print Assumptions C06_int_value_roundtrip.

(* An element whose payload is the concatenation of n encoded values exposes exactly those
   n values, in order (scalar when n = 1). *)
Theorem C06_int_values :
  forall k vs, Forall (in_range k) vs ->
    format_ints k (kwidth k * Z.of_nat (length vs)) (concat (map (enc_int k) vs))
    = DInts k (Z.of_nat (length vs) =? 1) vs.
Proof. exact format_ints_values. Qed.
Print Assumptions C06_int_values.

(* size x repeat / width values, whatever the bytes are *)
Theorem C06_value_count :
  forall k total raw,
    match format_ints k total raw with
    | DInts _ _ vs => Z.of_nat (length vs) = Z.max 0 (total / kwidth k)
    | _ => False
    end.
Proof. exact format_ints_count. Qed.
Print Assumptions C06_value_count.

(* The walker visits every element exactly once in document order ... *)
Theorem C06_walk_preorder :
  forall es, walk_all (fun _ => false) es = preorder_all es.
Proof. exact walk_all_noskip. Qed.
Print Assumptions C06_walk_preorder.

(* ... and prunes exactly the sub-trees it is told to skip. *)
Theorem C06_walk_prunes :
  forall skip k t s c d m kids,
    walk skip (Elem k t s c d m kids) =
    Elem k t s c d m kids :: (if skip (Elem k t s c d m kids) then [] else walk_all skip kids).
Proof. exact walk_unfold. Qed.
Print Assumptions C06_walk_prunes.

Theorem C06_walk_no_invention :
  forall skip e x, In x (walk skip e) -> In x (preorder e).
Proof. exact walk_sub_preorder. Qed.
Print Assumptions C06_walk_no_invention.

(* ---- the reader as a whole, on every well-formed tree ---- *)
(* `tree` is the encoder's input: leaves (key, type, size, repeat, payload of size x repeat bytes)
   and containers (type 0) holding sub-trees, `encode` writes the 8-byte headers, the payload
   and the zero padding to 32 bits, `abstract` is the tree the reader must return (same keys,
   types, sizes, repeats, nesting and order; values = the per-type formatter on the payload).
   `wf` limits the statement to keys without an attached sensor parser (`plain_key`), since those
   re-shape the values (C07/C16 cover them), and to payloads their type's formatter accepts. *)
Theorem C06_reader_inverts_encoder :
  forall ts, wf_forest ts -> read (encode_forest ts) = Ok (map abstract ts).
Proof. exact read_encode. Qed.
Print Assumptions C06_reader_inverts_encoder.

(* Bytes that follow a nested container's declared length are parsed as its siblings, never as
   its children (t may be any container; `rest` is any byte string the reader accepts). *)
Theorem C06_siblings_not_children :
  forall t rest more, wf t -> read rest = Ok more -> read (encode t ++ rest) = Ok (abstract t :: more).
Proof. exact siblings_not_children. Qed.
Print Assumptions C06_siblings_not_children.

(* A stream that ends before all bytes declared by an element or by an enclosing container have
   been supplied is an error: cut the encoding of t anywhere strictly inside it. *)
Theorem C06_truncated_is_error :
  forall ts t k, wf_forest ts -> wf t -> (0 < k < length (encode t))%nat ->
    is_err (read (encode_forest ts ++ firstn k (encode t))).
Proof. exact truncated_is_error. Qed.
Print Assumptions C06_truncated_is_error.

(* the hypotheses are satisfiable by a nested, padded example *)
Example C06_wf_example :
  let leaf := Leaf [68;69;77;79]%N (ty "s"%char) 2 3 [0;1;0;2;255;255]%N in
  let t := Node [68;69;86;67]%N 1 16 [leaf] in
  wf t /\ read (encode t) = Ok [abstract t] /\ length (encode t) = 24%nat.
Proof. cbv zeta. split; [|split]; [|vm_compute; reflexivity|vm_compute; reflexivity].
  cbn. repeat split; try reflexivity; try lia; discriminate. Qed.
