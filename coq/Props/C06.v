(* C06: the GPMF reader reproduces the encoded key-length-value tree. *)
From Coq Require Import String List ZArith NArith Bool.
From TT Require Import Base.Outcome Gpmf.Klv Gpmf.Walk Proofs.C06_proofs.
Import ListNotations.
Local Open Scope Z_scope.

(* Every integer and fixed-point type (b B s S l L j J q Q): the reader's value equals the
   big-endian two's-complement encoded value, over the type's full range. *)
Theorem C06_int_value_roundtrip :
  forall k z, in_range k z -> decode_int k (enc_int k z) = z.
Proof. exact decode_enc_int. Qed.
Print Assumptions C06_int_value_roundtrip.

(* An element whose payload is the concatenation of n encoded values exposes exactly those
   n values, in order (scalar when n = 1). *)
Theorem C06_int_values :
  forall k vs, Forall (in_range k) vs ->
    format_ints k (kwidth k * Z.of_nat (length vs)) (concat (map (enc_int k) vs))
    = DInts k (Z.of_nat (length vs) =? 1) vs.
Proof. exact format_ints_values. Qed.
Print Assumptions C06_int_values.

(* size x repeat / width values, whatever the bytes are *)
Theorem C06_value_count :
  forall k total raw,
    match format_ints k total raw with
    | DInts _ _ vs => Z.of_nat (length vs) = Z.max 0 (total / kwidth k)
    | _ => False
    end.
Proof. exact format_ints_count. Qed.
Print Assumptions C06_value_count.

(* The walker visits every element exactly once in document order ... *)
Theorem C06_walk_preorder :
  forall es, walk_all (fun _ => false) es = preorder_all es.
Proof. exact walk_all_noskip. Qed.
Print Assumptions C06_walk_preorder.

(* ... and prunes exactly the sub-trees it is told to skip. *)
Theorem C06_walk_prunes :
  forall skip k t s c d m kids,
    walk skip (Elem k t s c d m kids) =
    Elem k t s c d m kids :: (if skip (Elem k t s c d m kids) then [] else walk_all skip kids).
Proof. exact walk_unfold. Qed.
Print Assumptions C06_walk_prunes.

Theorem C06_walk_no_invention :
  forall skip e x, In x (walk skip e) -> In x (preorder e).
Proof. exact walk_sub_preorder. Qed.
Print Assumptions C06_walk_no_invention.
