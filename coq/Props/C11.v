(* C11: OBD channels are interpolated onto GPS fixes; logs without OBD still convert. *)
From Coq Require Import String Ascii List ZArith Bool.
From TT Require Import Base.Outcome Base.Str Base.F64
     Trackaddict.Columns Trackaddict.Model Convert.Model Proofs.C11_proofs Proofs.C11_spec.
Import ListNotations.
Local Open Scope Z_scope.

Theorem C11_no_obd_converts : forall laps, no_obd laps -> predict_obd laps = Ok laps.
Proof. exact predict_no_obd. Qed.
Print Assumptions C11_no_obd_converts.

Theorem C11_no_updates_converts : forall laps, no_fresh laps -> predict_obd laps = Ok laps.
Proof. exact predict_no_fresh. Qed.
Print Assumptions C11_no_updates_converts.

Theorem C11_disabled_untouched :
  forall o v laps geod, o_predict o = O ->
    convert o v laps geod =
    (if Nat.ltb (length laps) 3 then Ok []
     else laps_of o (if String.eqb (o_vehicle o) "" then v else o_vehicle o) None 1 (middle laps) geod).
Proof. exact convert_disabled. Qed.
Print Assumptions C11_disabled_untouched.

(* the default predictor strictly between two fresh readings: the linear interpolation of
   the surrounding readings, y_i + (y_{i+1}-y_i)/(x_{i+1}-x_i) * (x - x_i) *)
Theorem C11_default_is_linear :
  forall xs ys x i,
    find_segment xs x 0 None = Some i -> feq x (nth i xs 0) = false -> Nat.eqb i (length xs - 1) = false ->
    pl_predict xs ys x = fadd (nth i ys 0) (fmul (nth i (slopes xs ys) 0) (fsub x (nth i xs 0))).
Proof. exact pl_predict_between. Qed.
Print Assumptions C11_default_is_linear.

Theorem C11_slope :
  forall xs ys i, (S i < length xs)%nat -> (S i < length ys)%nat ->
    nth i (slopes xs ys) 0 = fdiv (fsub (nth (S i) ys 0) (nth i ys 0)) (fsub (nth (S i) xs 0) (nth i xs 0)).
Proof. exact slopes_nth. Qed.
Print Assumptions C11_slope.

Theorem C11_at_reading :
  forall xs ys x i,
    find_segment xs x 0 None = Some i -> feq x (nth i xs 0) = true -> pl_predict xs ys x = nth i ys 0.
Proof. exact pl_predict_at_knot. Qed.
Print Assumptions C11_at_reading.

(* ---- PredictOBD as a whole, for ANY fitted predictor (the configured one) ---- *)
(* `knots laps` is the pass that collects the fresh readings (xs, one ys per channel) and the rows to
   fill; `get laps li ri` is row ri of lap li.  For every session and every predictor function:
   the rows to fill are exactly rows with a GPS update and a stale OBD reading; the shape of the
   session is unchanged; every other row is untouched; with fewer than two fresh readings nothing
   changes; otherwise every channel of a row to fill is replaced by the predictor fitted on THAT
   channel's fresh readings, evaluated at the row's time. *)
Theorem C11_predict_spec :
  forall pred laps laps', predict_obd_with pred laps = Ok laps' ->
  exists st, knots laps = Ok st /\
    (forall li ri x, In (li, ri, x) (p_needed st) -> in_bounds laps li ri /\ row_needs (get laps li ri)) /\
    length laps' = length laps /\
    (forall k, length (lap_recs (nth k laps' lap0)) = length (lap_recs (nth k laps lap0)) /\
               lap_dur (nth k laps' lap0) = lap_dur (nth k laps lap0) /\ lap_num (nth k laps' lap0) = lap_num (nth k laps lap0)) /\
    (forall li ri, ~ In (li, ri) (map pos (p_needed st)) -> get laps' li ri = get laps li ri) /\
    ((length (p_xs st) < 2)%nat -> laps' = laps) /\
    ((2 <= length (p_xs st))%nat ->
       forall li ri x, In (li, ri, x) (p_needed st) ->
         exists o o', r_obd (get laps li ri) = Some o /\
                      obd_set o (map (fun ys => pred (p_xs st) ys x) (p_ys st)) = Ok o' /\
                      get laps' li ri = set_record_obd (get laps li ri) o').
Proof. exact predict_spec. Qed.
Print Assumptions C11_predict_spec.

(* fixes with fresh readings keep exactly their logged values (so do rows without OBD columns and
   rows without a GPS update), whatever the predictor *)
Theorem C11_fresh_rows_untouched :
  forall pred laps laps' li ri, predict_obd_with pred laps = Ok laps' ->
    (match r_obd (get laps li ri) with Some o => o_update o = true | None => True end \/ g_update (r_gps (get laps li ri)) = false) ->
    get laps' li ri = get laps li ri.
Proof. exact fresh_rows_untouched. Qed.
Print Assumptions C11_fresh_rows_untouched.
