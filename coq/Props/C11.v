(* C11: OBD channels are interpolated onto GPS fixes; logs without OBD still convert. *)
From Coq Require Import String Ascii List ZArith Bool.
From TT Require Import Base.Outcome Base.Str Base.F64
     Trackaddict.Columns Trackaddict.Model Convert.Model Proofs.C11_proofs.
Import ListNotations.
Local Open Scope Z_scope.

Theorem C11_no_obd_converts : forall laps, no_obd laps -> predict_obd laps = Ok laps.
Proof. exact predict_no_obd. Qed.
Print Assumptions C11_no_obd_converts.

Theorem C11_no_updates_converts : forall laps, no_fresh laps -> predict_obd laps = Ok laps.
Proof. exact predict_no_fresh. Qed.
Print Assumptions C11_no_updates_converts.

Theorem C11_disabled_untouched :
  forall o v laps geod, o_predict o = O ->
    convert o v laps geod =
    (if Nat.ltb (length laps) 3 then Ok []
     else laps_of o (if String.eqb (o_vehicle o) "" then v else o_vehicle o) None 1 (middle laps) geod).
Proof. exact convert_disabled. Qed.
Print Assumptions C11_disabled_untouched.

(* the default predictor strictly between two fresh readings: the linear interpolation of
   the surrounding readings, y_i + (y_{i+1}-y_i)/(x_{i+1}-x_i) * (x - x_i) *)
Theorem C11_default_is_linear :
  forall xs ys x i,
    find_segment xs x 0 None = Some i -> feq x (nth i xs 0) = false -> Nat.eqb i (length xs - 1) = false ->
    pl_predict xs ys x = fadd (nth i ys 0) (fmul (nth i (slopes xs ys) 0) (fsub x (nth i xs 0))).
Proof. exact pl_predict_between. Qed.
Print Assumptions C11_default_is_linear.

Theorem C11_slope :
  forall xs ys i, (S i < length xs)%nat -> (S i < length ys)%nat ->
    nth i (slopes xs ys) 0 = fdiv (fsub (nth (S i) ys 0) (nth i ys 0)) (fsub (nth (S i) xs 0) (nth i xs 0)).
Proof. exact slopes_nth. Qed.
Print Assumptions C11_slope.

Theorem C11_at_reading :
  forall xs ys x i,
    find_segment xs x 0 None = Some i -> feq x (nth i xs 0) = true -> pl_predict xs ys x = nth i ys 0.
Proof. exact pl_predict_at_knot. Qed.
Print Assumptions C11_at_reading.
