(* C08: every telemetry sample of the MP4 is returned once, in order, at its media time. *)
From Coq Require Import Lia String Ascii List ZArith NArith Bool.
From TT Require Import Base.Outcome Base.Str Gpmf.Klv Gpmf.Walk Gpmf.Mp4 Proofs.C08_proofs Proofs.C08_spec.
Import ListNotations.
Local Open Scope Z_scope.

(* For ANY sample tables (any stsc runs, any stts runs, any offsets): whenever the walk
   succeeds it yields exactly the declared number of samples - each exactly once -, the k-th
   one has the k-th stsz size, and the samples' media-time intervals start at tick 0 and are
   contiguous in presentation order (each starts where the previous one ended). *)
Theorem C08_each_sample_once_in_order :
  forall tb ss, 0 <= t_nsamples tb -> samples_of tb = Ok ss ->
    Z.of_nat (length ss) = t_nsamples tb /\ sized tb 1 ss /\ exists d', chain 0 ss d'.
Proof. exact samples_of_spec. Qed.
Print Assumptions C08_each_sample_once_in_order.

(* The i-th of the n readings of a sensor element gets start + i*(end-start)/n in nanoseconds,
   where start and end are the media times at which the sample containing it begins and ends:
   floor (ticks * 1e9 / timescale), exact to the nanosecond for every timescale, whether or not it
   divides a second (after the repair D27; before it the tick length was truncated and the times
   drifted).  The first reading sits at the sample's start, offsets never decrease and stay
   inside the sample's own interval. *)
Theorem C08_offsets_formula :
  forall ts sm n i,
    (i < n)%nat -> 0 < ts -> 0 <= sm_start sm <= sm_end sm -> sm_end sm * 1000000000 / ts < 2 ^ 63 ->
    let start := sm_start sm * 1000000000 / ts in let stop := sm_end sm * 1000000000 / ts in
    nth i (reading_offsets ts sm n) 0 = start + Z.of_nat i * ((stop - start) / Z.of_nat n) /\
    start <= nth i (reading_offsets ts sm n) 0 <= stop.
Proof. exact reading_offsets_media_time. Qed.
Print Assumptions C08_offsets_formula.

Theorem C08_offsets_inside :
  forall ts sm n i,
    (i < n)%nat ->
    let start := media_time ts (sm_start sm) in let stop := media_time ts (sm_end sm) in
    0 <= start <= stop -> stop < 2 ^ 63 ->
    nth i (reading_offsets ts sm n) 0 = start + Z.of_nat i * ((stop - start) / Z.of_nat n) /\
    start <= nth i (reading_offsets ts sm n) 0 <= stop /\
    (start < stop -> nth i (reading_offsets ts sm n) 0 < stop).
Proof. exact reading_offsets_spec. Qed.
Print Assumptions C08_offsets_inside.

Theorem C08_media_time_exact :
  forall ts ticks, 0 < ts -> 0 <= ticks -> ticks * 1000000000 / ts < 2 ^ 63 ->
    media_time ts ticks = ticks * 1000000000 / ts.
Proof. exact media_time_floor. Qed.
Print Assumptions C08_media_time_exact.

(* the pre-repair rule ticks * (1e9 / timescale) is refuted at 90 kHz: one hour comes out 36 ms short *)
Example C08_truncated_tick_refuted :
  324000000 * (1000000000 / 90000) = 3599964000000 /\ media_time 90000 324000000 = 3600000000000.
Proof. split; vm_compute; reflexivity. Qed.

(* a file without a GoPro metadata track is an error *)
Theorem C08_no_track_is_error :
  forall file traks,
    (forall tr, In tr traks -> (String.eqb (tr_handler tr) "meta" && contains (tr_name tr) "GoPro MET") = false) ->
    decode file traks = Err "no-metadata-track".
Proof.
  intros file traks. induction traks as [|tr rest IH]; intros H; cbn [decode]; [reflexivity|].
  rewrite (H tr) by (left; reflexivity). apply IH. intros t Ht. apply H. right. exact Ht.
Qed.
Print Assumptions C08_no_track_is_error.

(* where the bytes come from: for ANY tables on which the walk succeeds, the result splits into
   runs, one per visited chunk; each run is read from a chunk that exists (1..number of chunk
   offsets) and its samples lie back to back in the file from that chunk's offset *)
Theorem C08_samples_placed :
  forall tb ss, Forall (fun e => 0 <= fst e) (t_stsc tb) -> samples_of tb = Ok ss ->
    exists crs, ss = concat (map snd crs) /\
                Forall (fun cr => chunk_ok tb (fst cr) /\ contig (chunk_off tb (fst cr)) (snd cr)) crs.
Proof. exact samples_placed. Qed.
Print Assumptions C08_samples_placed.

(* ---- the walk as a whole ---- *)
(* For EVERY valid sample-to-chunk table (entries in increasing order starting at chunk 1, each
   naming an existing chunk; minimal or redundant runs alike), ANY time-to-sample runs (also
   zero-count runs), any sizes (table or uniform), any chunk offsets: the decoder's walk equals
   the direct specification `chunksp` over chunks 1..C in order - chunk c contributes `spc_of c`
   samples (the samples-per-chunk of the last entry whose first chunk is <= c), read back to back
   from the chunk's offset; sample k has the k-th size and lasts the k-th duration of the
   expanded run-length list, its interval starting where sample k-1 ended; the walk stops after
   the declared number of samples and reports tables that describe fewer. *)
Theorem C08_walk_is_spec :
  forall tb f s rest,
    let C := Z.of_nat (length (t_offsets tb)) in
    t_stsc tb = (f, s) :: rest -> f = 1 -> increasing (t_stsc tb) ->
    Forall (fun e => 1 <= fst e <= C) (t_stsc tb) -> C < 2 ^ 32 - 1 ->
    samples_of tb =
    bind (omap fst (chunksp tb (map (fun c => (c, spc_of (t_stsc tb) c)) (zrange 1 (length (t_offsets tb)))) (st0 tb))) (fun ss =>
      if Z.of_nat (length ss) <? t_nsamples tb then Err "tables-describe-fewer-samples" else Ok ss).
Proof. exact walk_is_spec. Qed.
Print Assumptions C08_walk_is_spec.

(* the specification on the example below: chunk 1 holds two samples, chunk 2 one *)
Example C08_spec_example :
  let tb := mkTables [(1, 2); (2, 1)] 0 3 [10; 20; 30] [(1, 100); (1, 200); (1, 400)] [1000; 5000] in
  map (fun c => (c, spc_of (t_stsc tb) c)) (zrange 1 2) = [(1, 2); (2, 1)] /\ increasing (t_stsc tb).
Proof. cbv zeta. split; [vm_compute; reflexivity|cbn; lia]. Qed.

(* the canonical camera layout and a multi-sample-per-chunk layout with three stts runs *)
Example C08_example :
  samples_of (mkTables [(1, 2); (2, 1)] 0 3 [10; 20; 30] [(1, 100); (1, 200); (1, 400)] [1000; 5000])
  = Ok [mkSample 1000 10 0 100; mkSample 1010 20 100 300; mkSample 5000 30 300 700].
Proof. vm_compute. reflexivity. Qed.
