(* C02: TrackAddict decode keeps every row, in order, in the right lap. *)
From Coq Require Import String Ascii List ZArith Bool.
From TT Require Import Base.Outcome Base.Str Base.F64 Base.GoParse
     Trackaddict.Units Trackaddict.Columns Trackaddict.Csv Trackaddict.Model Proofs.C02_proofs.
Import ListNotations.
Local Open Scope Z_scope.

(* Main refinement.  For EVERY history of data rows and lap-end markers (any number, any
   positions) after the header: decoding succeeds and the laps are exactly the specification
   `spec_laps`: rows accumulate, in file order, in the lap that is open when they appear; a
   marker closes that lap with the marker's own number and duration and opens an empty one;
   metadata, vehicle and end point are left alone by rows and markers. *)
Theorem C02_refines_spec :
  forall cs lines items s,
    Forall2 (item_line cs) lines items ->
    s_parsers s = Some cs -> lap_dur (s_cur s) = 0 -> lap_num (s_cur s) = 0 ->
    markers_ok (length (s_closed s)) items ->
    exists s', foldM step lines s = Ok s' /\
      s_closed s' = fst (spec_laps (s_closed s) (lap_recs (s_cur s)) items) /\
      s_cur s' = mkLap 0 0 (snd (spec_laps (s_closed s) (lap_recs (s_cur s)) items)) /\
      s_meta s' = s_meta s /\ s_vehicle s' = s_vehicle s /\ s_endpoint s' = s_endpoint s.
Proof. exact decode_items. Qed.
Print Assumptions C02_refines_spec.

(* every data row exactly once, in file order: the concatenation of all laps' records is the
   list of rows *)
Theorem C02_rows_once_in_order :
  forall items closed cur,
    flat_map lap_recs (fst (spec_laps closed cur items)) ++ snd (spec_laps closed cur items)
    = flat_map lap_recs closed ++ cur ++ rows_of_items items.
Proof. exact spec_laps_rows. Qed.
Print Assumptions C02_rows_once_in_order.

(* k markers close k laps (so k+1 laps with the open one) *)
Theorem C02_k_markers_k1_laps :
  forall items closed cur,
    length (fst (spec_laps closed cur items)) = (length closed + nmarkers items)%nat.
Proof. exact spec_laps_count. Qed.
Print Assumptions C02_k_markers_k1_laps.

(* a data row goes through one parser per column and lands at the end of the open lap *)
Theorem C02_row_step :
  forall cs line r s, row_line cs line r -> s_parsers s = Some cs -> step s line = Ok (add_record s r).
Proof. exact step_row. Qed.
Print Assumptions C02_row_step.

(* a marker numbered lower than the number of laps already closed is rejected *)
Theorem C02_low_marker_rejected :
  forall line n d s, marker_line line n d -> n < Z.of_nat (length (s_closed s)) ->
    step s line = Err "unexpected-lap".
Proof. exact low_marker_rejected. Qed.
Print Assumptions C02_low_marker_rejected.

(* the hypotheses are satisfiable: a concrete log *)
Example C02_example :
  decode ("""Time"",""Lap""" ++ String "010" ("0.010,0" ++ String "010" ("# Lap 0: 00:00:01.500" ++ String "010" ("0.020,1" ++ String "010" ""))))
  = Ok (mkSession [mkLap 1500000000 0 [mkRecord 10000000 zero_time_ns 0 0 0 gps0 0 None false 0 0 None]]
                  (mkLap 0 0 [mkRecord 20000000 zero_time_ns 1 0 0 gps0 0 None false 0 0 None])
                  [] "" (0, 0, 0) (Some [CNow; CLap])).
Proof. vm_compute. reflexivity. Qed.
