(* C05: joining never clobbers, never leaks temp files, never touches sources. *)
From Coq Require Import String Ascii List ZArith NArith Bool.
From TT Require Import Base.Outcome Base.Str Gopro.Names Gopro.Process Proofs.Gopro_proofs.
Import ListNotations.
Local Open Scope Z_scope.

(* One video, every fault plan (any operations failing at any positions), every encoder
   behaviour: the encoder runs at most once; if it runs, the group validated, its first file is
   not on the skip list, the concat list is the chapter list, the argument vector is the
   configured one with the temp file in the slot after -i and the output path last, and the
   output did not exist unless overwriting is enabled. *)
Theorem C05_encoder_run :
  forall c idx p encb chapters s r s',
    process_set c idx p encb chapters s = (r, s') ->
    s_events s' = s_events s \/
    exists ev f0 rest,
      chapters = f0 :: rest /\
      s_events s' = (s_events s ++ [ev])%list /\
      validate chapters = true /\
      str_in (fname f0) (c_skip c) = false /\
      e_concat ev = concat_lines c chapters /\
      e_argv ev = (set_nth (Z.to_nat idx) (temp_name (s_temps s)) (s_args s) ++ [output_path c (fname f0)])%list /\
      (e_existed ev = true -> c_overwrite c = true).
Proof. exact process_set_events. Qed.
Print Assumptions C05_encoder_run.

(* When processing of a video returns - success, skip or any failure at any point - the
   temporary concat list no longer exists and every path other than the output path is exactly
   as it was: no source file is modified or removed. *)
Theorem C05_no_temp_left_sources_untouched :
  forall c idx p encb chapters s r s',
    process_set c idx p encb chapters s = (r, s') ->
    s_world s' = s_world s \/
    exists f0 rest, chapters = f0 :: rest /\
      (forall q, q <> output_path c (fname f0) -> q <> temp_name (s_temps s) ->
                 w_find (s_world s') q = w_find (s_world s) q) /\
      w_find (s_world s') (temp_name (s_temps s)) = None.
Proof. exact process_set_world. Qed.
Print Assumptions C05_no_temp_left_sources_untouched.

(* over a whole run, for every visiting order: at most one encoder run per visited video, each
   of them for a valid, non-skipped group and never over an existing output unless allowed *)
Theorem C05_runs_all_orders :
  forall c idx p encb g order s files files' err s',
    process_order c idx p encb g order s files = (files', err, s') ->
    exists evs, s_events s' = (s_events s ++ evs)%list /\ Forall (good_event c g) evs /\
                (length evs <= length order)%nat.
Proof. exact process_order_events. Qed.
Print Assumptions C05_runs_all_orders.

(* the slot: the empty argument directly after the most recent -i *)
Example C05_input_slot :
  map input_index [["-y"; "-i"; ""; "-c"]; ["x"; ""; "-i"; ""]; [""; "-i"; "x"; "-i"; ""]; ["-i"; "x"; ""]; []]%string
  = [Some 2; Some 3; Some 4; None; None].
Proof. vm_compute. reflexivity. Qed.
