(* C20: CLI: flag beats config file beats default. *)
From Coq Require Import String Ascii List Bool.
From TT Require Import Base.Str Cli.Precedence Proofs.C20_proofs Proofs.C20_nested.
Import ListNotations.
Local Open Scope string_scope.

(* For every config section, every set of flags given (in any order, with any values, even
   empty) and every default: an option whose config key is the top-level key named like its
   flag takes the flag's value if the flag was given, otherwise the config file's value,
   otherwise the built-in default.  This covers every option of `convert` (decoder, encoder,
   compress, track, vehicle, tags, note, startdate), of `gopro convert` (sourcedir, outputdir)
   and `tolerance` of `gopro laptimes`. *)
Theorem C20_precedence :
  forall k section g default,
    effective (mkOpt [k] k) section g default = spec_effective (mkOpt [k] k) section g default.
Proof. exact precedence_top. Qed.
Print Assumptions C20_precedence.

(* The start-line options live in the nested table `start`; their flags are latitude,
   longitude, bearing, distance.  On the command tables as they are (no top-level key of
   those names) the rule holds as well - checked on the commands' own sections for all 16
   combinations of given flags. *)
Definition optkv (k : string) (o : option string) : table :=
  match o with Some v => [(k, CStr v)] | None => [] end.
Definition laptimes_section (lat lon bea dis tol : option string) : table :=
  app (optkv "tolerance" tol)
      [("start", CTable (app (optkv "latitude" lat) (app (optkv "longitude" lon) (app (optkv "bearing" bea) (optkv "distance" dis)))))].

Definition opts4 : list (option string) := [None; Some "c"].
Definition flags_sets : list given :=
  [ []; [("latitude", "f")]; [("bearing", "f"); ("latitude", "g")]; [("distance", ""); ("tolerance", "t")];
    [("longitude", "f"); ("latitude", "f"); ("bearing", "f"); ("distance", "f"); ("tolerance", "f")] ].

Definition start_rule_holds : bool :=
  forallb (fun lat => forallb (fun lon => forallb (fun bea => forallb (fun dis => forallb (fun tol =>
    forallb (fun g =>
      forallb (fun o => String.eqb (effective o (laptimes_section lat lon bea dis tol) g "d")
                                   (spec_effective o (laptimes_section lat lon bea dis tol) g "d"))
              [mkOpt ["start"; "latitude"] "latitude"; mkOpt ["start"; "longitude"] "longitude";
               mkOpt ["start"; "bearing"] "bearing"; mkOpt ["start"; "distance"] "distance"; mkOpt ["tolerance"] "tolerance"])
      flags_sets) opts4) opts4) opts4) opts4) opts4.

Theorem C20_precedence_start_table : start_rule_holds = true.
Proof. vm_compute. reflexivity. Qed.
Print Assumptions C20_precedence_start_table.

(* ... and as a theorem for every section, flag list and default: an option that lives at tb.k in
   the config section (flag name k) follows the rule whenever the section has no top-level key
   named like the flag and no flag is named like the table - true of every command (the table is
   `start`, the flags are latitude, longitude, bearing, distance). *)
Theorem C20_precedence_nested :
  forall tb k section g default, t_get section k = None -> no_flag_named g tb ->
    effective (mkOpt [tb; k] k) section g default = spec_effective (mkOpt [tb; k] k) section g default.
Proof. exact precedence_nested. Qed.
Print Assumptions C20_precedence_nested.
