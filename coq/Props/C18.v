(* C18 (partial: algebraic identities over the reals; numeric accuracy is tested per instance). *)
From Coq Require Import Reals.
From TT Require Import Proofs.Geo_proofs.
Local Open Scope R_scope.

Theorem C18_symmetric : forall la1 lo1 la2 lo2 r, distance_haversin la1 lo1 la2 lo2 r = distance_haversin la2 lo2 la1 lo1 r.
Proof. exact haversine_symmetric. Qed.
Print Assumptions C18_symmetric.

Theorem C18_linear_in_radius : forall la1 lo1 la2 lo2 r k,
  distance_haversin la1 lo1 la2 lo2 (k * r) = k * distance_haversin la1 lo1 la2 lo2 r.
Proof. exact haversine_linear_in_radius. Qed.
Print Assumptions C18_linear_in_radius.

Theorem C18_zero_for_same_point : forall la lo r, distance_haversin la lo la lo r = 0.
Proof. exact haversine_zero_same_point. Qed.
Print Assumptions C18_zero_for_same_point.

Theorem C18_fast_symmetric : forall la1 lo1 la2 lo2 r, distance_equirect la1 lo1 la2 lo2 r = distance_equirect la2 lo2 la1 lo1 r.
Proof. exact equirect_symmetric. Qed.
Print Assumptions C18_fast_symmetric.

Theorem C18_fast_linear_in_radius : forall la1 lo1 la2 lo2 r k,
  distance_equirect la1 lo1 la2 lo2 (k * r) = k * distance_equirect la1 lo1 la2 lo2 r.
Proof. exact equirect_linear_in_radius. Qed.
Print Assumptions C18_fast_linear_in_radius.
