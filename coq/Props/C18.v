(* C18 (partial: algebraic identities over the reals; numeric accuracy is tested per instance). *)
From Coq Require Import Reals.
From TT Require Import Proofs.Geo_proofs Proofs.Hav.
Local Open Scope R_scope.

Theorem C18_symmetric : forall la1 lo1 la2 lo2 r, distance_haversin la1 lo1 la2 lo2 r = distance_haversin la2 lo2 la1 lo1 r.
Proof. exact haversine_symmetric. Qed.
Print Assumptions C18_symmetric.

Theorem C18_linear_in_radius : forall la1 lo1 la2 lo2 r k,
  distance_haversin la1 lo1 la2 lo2 (k * r) = k * distance_haversin la1 lo1 la2 lo2 r.
Proof. exact haversine_linear_in_radius. Qed.
Print Assumptions C18_linear_in_radius.

Theorem C18_zero_for_same_point : forall la lo r, distance_haversin la lo la lo r = 0.
Proof. exact haversine_zero_same_point. Qed.
Print Assumptions C18_zero_for_same_point.

Theorem C18_fast_symmetric : forall la1 lo1 la2 lo2 r, distance_equirect la1 lo1 la2 lo2 r = distance_equirect la2 lo2 la1 lo1 r.
Proof. exact equirect_symmetric. Qed.
Print Assumptions C18_fast_symmetric.

Theorem C18_fast_linear_in_radius : forall la1 lo1 la2 lo2 r k,
  distance_equirect la1 lo1 la2 lo2 (k * r) = k * distance_equirect la1 lo1 la2 lo2 r.
Proof. exact equirect_linear_in_radius. Qed.
Print Assumptions C18_fast_linear_in_radius.

(* The default method returns radius times the central angle between the two positions - the
   great-circle distance on the sphere of the configured radius: theta is the angle in [0, pi]
   whose cosine is the dot product of the positions' unit vectors. *)
Theorem C18_default_is_great_circle :
  forall la1 lo1 la2 lo2 r theta, 0 <= theta <= PI -> cos theta = dot la1 lo1 la2 lo2 ->
    distance_haversin la1 lo1 la2 lo2 r = theta * r.
Proof. exact haversine_is_great_circle. Qed.
Print Assumptions C18_default_is_great_circle.

(* ... hence zero only when the two unit vectors coincide *)
Theorem C18_zero_only_for_identical :
  forall la1 lo1 la2 lo2 r theta, 0 <= theta <= PI -> cos theta = dot la1 lo1 la2 lo2 -> r <> 0 ->
    distance_haversin la1 lo1 la2 lo2 r = 0 -> dot la1 lo1 la2 lo2 = 1.
Proof. exact haversine_zero_only_same. Qed.
Print Assumptions C18_zero_only_for_identical.
