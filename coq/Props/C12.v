(* C12: a start-date override shifts every timestamp by one constant and nothing else. *)
From Coq Require Import String Ascii List ZArith Bool.
From TT Require Import Base.Outcome Base.Str Base.F64 Base.Civil
     Trackaddict.Columns Trackaddict.Model Convert.Model Proofs.C12_proofs.
Import ListNotations.
Local Open Scope Z_scope.

(* For every list of laps, every option set and every start date D: converting with D gives
   exactly the database obtained without it with every lap date and every fix date moved by
   the one constant delta = D - UTC midnight of the first converted row; every other field
   (ids, positions, distances, offsets, OBD, ...) is identical.  Laps without rows have no
   date in both. *)
Theorem C12_constant_shift :
  forall o v D ls id geod,
    laps_of (with_start o (Some D)) v None id ls geod =
    omap (map (shift_lap (delta D ls))) (laps_of (with_start o None) v None id ls geod).
Proof. exact laps_of_start. Qed.
Print Assumptions C12_constant_shift.

(* the first converted row lands on day D with its time of day unchanged *)
Theorem C12_first_row_on_D :
  forall D t, D mod ns_per_day = 0 ->
    utc_midnight (t + (D - utc_midnight t)) = D /\ tod_of_ns (t + (D - utc_midnight t)) = tod_of_ns t.
Proof. exact first_row_on_D. Qed.
Print Assumptions C12_first_row_on_D.

(* shifting by a constant preserves every difference between two timestamps *)
Theorem C12_differences_preserved : forall d (t1 t2 : Z), (t1 + d) - (t2 + d) = t1 - t2.
Proof. intros. ring. Qed.
Print Assumptions C12_differences_preserved.

(* without the option all dates equal the logged ones (shift 0 is the identity) *)
Theorem C12_no_option_no_shift : forall f, shift_fix 0 f = f.
Proof. exact shift_zero_fix. Qed.
Print Assumptions C12_no_option_no_shift.
