(* C07: scale factors and sensor layouts. *)
From Coq Require Import String List ZArith NArith Bool.
From TT Require Import Base.Outcome Base.F64 Gpmf.Klv Proofs.C07_proofs.
Import ListNotations.

(* value i of the scaled element becomes raw[i] / scale[i mod n], for every scale vector
   with at least one entry and every value list *)
Theorem C07_scale_values :
  forall vs sc, sc <> [] ->
  exists r, apply_scale vs sc = Ok r /\ length r = length vs /\
            forall j, (j < length vs)%nat ->
              nth j r 0%Z = fdiv (nth j vs 0%Z) (nth (Nat.modulo j (length sc)) sc 0%Z).
Proof. exact apply_scale_spec. Qed.
Print Assumptions C07_scale_values.

(* a pending scale is consumed by the very next element of the same container (so it can
   reach nothing after it) ... *)
Theorem C07_scale_next_sibling_only :
  forall key typ size count raw own parent anc sc d m p',
    l_scale parent = Some sc -> key_is key "SCAL" = false ->
    format_elem key typ size count raw own parent anc = Ok (d, m, p') ->
    l_scale p' = None.
Proof. exact format_elem_consumes_scale. Qed.
Print Assumptions C07_scale_next_sibling_only.

(* ... and an element with nothing pending keeps its raw values; its container is untouched *)
Theorem C07_unscaled_untouched :
  forall key typ size count raw own parent anc,
    l_scale parent = None -> plain_key key = true ->
    format_elem key typ size count raw own parent anc =
    bind (format_basic key typ size count raw) (fun d => Ok (d, own, parent)).
Proof. exact format_elem_plain. Qed.
Print Assumptions C07_unscaled_untouched.

(* sample k, field f is value width*k + f; the sample count is values / width (GPS5: width 5
   lat lon alt speed speed3d; ACCL GYRO MAGN WRGB: width 3) *)
Theorem C07_sample_layout :
  forall w d vs, (0 < w)%nat -> float_slice d = Ok vs -> Nat.modulo (length vs) w = O ->
  exists rows, float_type w d = Ok rows /\ length rows = Nat.div (length vs) w /\
    forall k f, (k < length rows)%nat -> (f < w)%nat ->
      nth f (nth k rows []) 0%Z = nth (w * k + f) vs 0%Z.
Proof. exact float_type_layout. Qed.
Print Assumptions C07_sample_layout.

Theorem C07_zxy_order : forall z x y, zxy [z; x; y] = [x; y; z].
Proof. exact zxy_fields. Qed.
Print Assumptions C07_zxy_order.

(* a payload whose value count is not a multiple of the sample width is rejected *)
Theorem C07_bad_multiple_rejected :
  forall w d vs, float_slice d = Ok vs -> Nat.modulo (length vs) w <> O ->
    float_type w d = Err "not-multiple".
Proof. exact float_type_rejects. Qed.
Print Assumptions C07_bad_multiple_rejected.
