(* C17 (partial: the decision logic is proved for all inputs; the geometry of the computed
   quantities is tested per instance against an independent computation). *)
From Coq Require Import QArith Bool.
From TT Require Import Geo.Online Proofs.Geo_proofs.

Theorem C17_tolerance_monotone :
  forall tol tol' p, (tol <= tol')%Q -> on_line tol p = true -> on_line tol' p = true.
Proof. exact tolerance_monotone. Qed.
Print Assumptions C17_tolerance_monotone.

Theorem C17_endpoint_order_decision :
  forall tol a b c t s, on_line tol (mkParts a b c t s) = on_line tol (mkParts b a c t s).
Proof. exact endpoint_order. Qed.
Print Assumptions C17_endpoint_order_decision.

Theorem C17_endcap_hit : forall tol p, (d01 p <= tol)%Q \/ (d02 p <= tol)%Q -> on_line tol p = true.
Proof. exact endcap_hit. Qed.
Print Assumptions C17_endcap_hit.

(* ---- the geometry of the quantities OnLine computes, over the reals, for the formulas as
   written in haversine.go / processor.go ---- *)
From Coq Require Import Reals.
From TT Require Import Proofs.Hav Proofs.Online_real.
Local Open Scope R_scope.

(* havSin x = hav (asin x);  sinSum x y = sin (invHav x + invHav y);  sinHav (hav x) is the
   chord 2 |sin (x/2)| (its comment says sin |x|: true to second order only) *)
Theorem C17_hav_sin : forall x, -1 <= x <= 1 -> hav_sin x = hav (asin x).
Proof. exact hav_sin_spec. Qed.
Print Assumptions C17_hav_sin.
Theorem C17_sin_sum : forall x y, 0 <= x <= 1 -> 0 <= y <= 1 -> sin_sum x y = sin (inv_hav x + inv_hav y).
Proof. exact sin_sum_spec. Qed.
Print Assumptions C17_sin_sum.
Theorem C17_sin_hav : forall x, sin_hav (hav x) = 2 * Rabs (sin (x / 2)).
Proof. exact sin_hav_spec. Qed.
Print Assumptions C17_sin_hav.

(* The cross-track term.  For positions 0 (the fix), 1 and 2 (the line's end points), with unit
   vectors v0, v1, v2: sinHav(dist01) * sinDeltaBearing(1, 2, 0) is exactly
       (v1 . (v0 x v2)) / |v1 x v2|  *  sqrt (2 / (1 + v0.v1))
   - the first factor is the sine of the fix's angular distance from the great circle through the
   end points (`C17_cross_norm`: |v1 x v2|^2 = 1 - (v1.v2)^2), the second is 1 / cos (theta01 / 2)
   (`C17_chord_factor`), i.e. 1 + theta01^2 / 8 + ...: below 1 + 4e-9 for a fix within a
   kilometre of end point 1 on the Earth.  `track` is havSin of that product. *)
Theorem C17_cross_track_argument :
  forall la0 lo0 la1 lo1 la2 lo2,
  let d01 := dot la0 lo0 la1 lo1 in let d21 := dot la2 lo2 la1 lo1 in
  -1 < d01 < 1 -> -1 < d21 < 1 ->
  sin_hav (distance_hav la0 lo0 la1 lo1) * sin_delta_bearing la1 lo1 la2 lo2 la0 lo0
  = triple la1 lo1 la0 lo0 la2 lo2 / sqrt (1 - d21 * d21) * sqrt (2 / (1 + d01)).
Proof. exact cross_track_argument. Qed.
Print Assumptions C17_cross_track_argument.
Theorem C17_cross_norm :
  forall la1 lo1 la2 lo2,
  cx la1 lo1 la2 lo2 * cx la1 lo1 la2 lo2 + cy la1 lo1 la2 lo2 * cy la1 lo1 la2 lo2 + cz la1 lo1 la2 lo2 * cz la1 lo1 la2 lo2
  = 1 - dot la1 lo1 la2 lo2 * dot la1 lo1 la2 lo2.
Proof. exact cross_norm. Qed.
Print Assumptions C17_cross_norm.
Theorem C17_chord_factor : forall theta, 0 <= theta < PI -> sqrt (2 / (1 + cos theta)) = / cos (theta / 2).
Proof. exact chord_factor. Qed.
Print Assumptions C17_chord_factor.
