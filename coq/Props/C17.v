(* C17 (partial: the decision logic is proved for all inputs; the geometry of the computed
   quantities is tested per instance against an independent computation). *)
From Coq Require Import QArith Bool.
From TT Require Import Geo.Online Proofs.Geo_proofs.

Theorem C17_tolerance_monotone :
  forall tol tol' p, (tol <= tol')%Q -> on_line tol p = true -> on_line tol' p = true.
Proof. exact tolerance_monotone. Qed.
Print Assumptions C17_tolerance_monotone.

Theorem C17_endpoint_order_decision :
  forall tol a b c t s, on_line tol (mkParts a b c t s) = on_line tol (mkParts b a c t s).
Proof. exact endpoint_order. Qed.
Print Assumptions C17_endpoint_order_decision.

Theorem C17_endcap_hit : forall tol p, (d01 p <= tol)%Q \/ (d02 p <= tol)%Q -> on_line tol p = true.
Proof. exact endcap_hit. Qed.
Print Assumptions C17_endcap_hit.
