(* C04: GoPro chapters are grouped per video, joined in order, or not joined at all. *)
From Coq Require Import String Ascii List ZArith NArith Bool.
From TT Require Import Base.Outcome Base.Str Gopro.Names Gopro.Process Proofs.Gopro_proofs.
Import ListNotations.

(* directories and everything inside sub-directories are ignored: the groups are those of the
   top-level non-directory entries alone *)
Theorem C04_subdirs_ignored : forall listing, file_sets listing = file_sets (filter top_level listing).
Proof. exact file_sets_ignores. Qed.
Print Assumptions C04_subdirs_ignored.

(* every file sits in the group of its own video number *)
Theorem C04_grouped_by_number : forall listing k l f, In (k, l) (file_sets listing) -> In f l -> findex f = k.
Proof. exact file_sets_keyed. Qed.
Print Assumptions C04_grouped_by_number.

(* a group is joinable iff its sorted chapters are contiguous from 00 or from 01 (no gap, no
   duplicate, nothing else) *)
Theorem C04_validate_iff_joinable :
  forall l, validate l = true <->
    l <> [] /\ (map fchapter l = map two_digits (seq 0 (length l)) \/ map fchapter l = map two_digits (seq 1 (length l))).
Proof. exact validate_spec. Qed.
Print Assumptions C04_validate_iff_joinable.

(* For EVERY order in which the groups are visited (map iteration), every fault plan and
   every encoder behaviour: each encoder run belongs to a group that validated, and the concat
   list handed over names each of its chapters exactly once, in ascending chapter order, as
   the path of the source file.  Hence the encoder is never run for an invalid group. *)
Theorem C04_invalid_group_never_encoded :
  forall c idx p encb g order s files files' err s',
    process_order c idx p encb g order s files = (files', err, s') ->
    exists evs, s_events s' = (s_events s ++ evs)%list /\ Forall (good_event c g) evs /\
                (length evs <= length order)%nat.
Proof. exact process_order_events. Qed.
Print Assumptions C04_invalid_group_never_encoded.

Theorem C04_empty_dir :
  forall c p encb listing w order idx,
    input_index (c_args c) = Some idx -> file_sets listing = [] ->
    process c p encb listing w order = PNoFiles.
Proof. exact process_no_files. Qed.
Print Assumptions C04_empty_dir.

(* the recognisers on the documented examples and near misses *)
Example C04_names :
  map (fun n => (option_map (fun f => (findex f, fchapter f)) (match5 n), option_map (fun f => (findex f, fchapter f)) (match10 n)))
      ["GOPR0001.mp4"; "GP010001.mp4"; "gx020003.MP4"; "GP010001xmp4"; "GH01001.mp4"; "xGH010002.mp4"]%string
  = [(Some ("0001", "00"), None); (Some ("0001", "01"), None); (None, Some ("0003", "02")); (None, None); (None, None); (None, None)]%string.
Proof. vm_compute. reflexivity. Qed.
