(* C09 (reader half): arbitrary bytes given to the GPMF reader give a tree or an error. *)
From Coq Require Import String List ZArith NArith Bool.
From TT Require Import Base.Outcome Gpmf.Klv Proofs.NoCrash Proofs.C09_proofs.
Import ListNotations.

(* For every byte string the reader model returns Ok or Err: no Go panic site is reachable
   (index, slice bounds, integer division) and the element loop ends within its fuel
   (= number of input bytes + 1), i.e. it never hangs. *)
Theorem C09_reader_total : forall bs : list N, returns (read bs).
Proof. exact read_total. Qed.
Print Assumptions C09_reader_total.

(* The same at every nesting level and for every pending scale that is not the empty vector
   (which the SCAL parser refuses to install). *)
Theorem C09_reader_level_total :
  forall fuel bs parent anc,
    (length bs < fuel)%nat -> scale_ok parent ->
    match read_level fuel bs parent anc with
    | Ok (_, lv) => scale_ok lv
    | Err _ => True
    | _ => False
    end.
Proof. exact read_level_nc. Qed.
Print Assumptions C09_reader_level_total.

(* Face records: whatever the bytes, sizes and counts, decoding the faces never indexes
   outside the payload (undersized records are errors). *)
Theorem C09_faces_total : forall m size count raw d, no_crash (parse_faces m size count raw d).
Proof. exact parse_faces_nc. Qed.
Print Assumptions C09_faces_total.
