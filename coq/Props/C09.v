(* C09 (reader half): arbitrary bytes given to the GPMF reader give a tree or an error. *)
From Coq Require Import String List ZArith NArith Bool.
From TT Require Import Base.Outcome Gpmf.Klv Gpmf.Mp4 Proofs.NoCrash Proofs.C09_proofs Proofs.C09_dec_proofs.
Import ListNotations.

(* For every byte string the reader model returns Ok or Err: no Go panic site is reachable
   (index, slice bounds, integer division) and the element loop ends within its fuel
   (= number of input bytes + 1), i.e. it never hangs. *)
Theorem C09_reader_total : forall bs : list N, returns (read bs).
Proof. exact read_total. Qed.
Print Assumptions C09_reader_total.

(* The same at every nesting level and for every pending scale that is not the empty vector
   (which the SCAL parser refuses to install). *)
Theorem C09_reader_level_total :
  forall fuel bs parent anc,
    (length bs < fuel)%nat -> scale_ok parent ->
    match read_level fuel bs parent anc with
    | Ok (_, lv) => scale_ok lv
    | Err _ => True
    | _ => False
    end.
Proof. exact read_level_nc. Qed.
Print Assumptions C09_reader_level_total.

(* Face records: whatever the bytes, sizes and counts, decoding the faces never indexes
   outside the payload (undersized records are errors). *)
Theorem C09_faces_total : forall m size count raw d, no_crash (parse_faces m size count raw d).
Proof. exact parse_faces_nc. Qed.
Print Assumptions C09_faces_total.

(* Decoder half: for arbitrary sample tables (stts/stsc/stsz/stco contents of any shape, counts
   that disagree, chunk numbers out of range, offsets beyond the file), any payload bytes and any
   number of tracks the decoder model returns a tree or an error - no panic site (index out of
   range on the tables, slice bounds on the file) is reachable and every loop ends within its
   fuel.  The two side conditions say only that the parsed 32-bit table entries are unsigned and
   that the chunk-offset table has fewer than 2^32-1 entries, which every file satisfies. *)
Theorem C09_decoder_total :
  forall file traks,
    Forall (fun tr => (Z.of_nat (length (t_offsets (tr_tables tr))) < 2 ^ 32 - 1)%Z /\
                      Forall (fun e => (0 <= fst e)%Z) (t_stsc (tr_tables tr))) traks ->
    returns (decode file traks).
Proof. exact decode_total. Qed.
Print Assumptions C09_decoder_total.
