(* C15: malformed TrackAddict text is an error, never a crash or silent loss. *)
From Coq Require Import String Ascii List ZArith Bool.
From TT Require Import Base.Outcome Base.Str Base.F64 Base.GoParse
     Trackaddict.Units Trackaddict.Columns Trackaddict.Csv Trackaddict.Model
     Proofs.NoCrash Proofs.C15_proofs.
Import ListNotations.

(* For arbitrary text the decoder model returns a session or an error: no panic site
   (cell index, split index, regexp sub-match index, last-lap index) is reachable and the
   duration parser's loop ends within its fuel. *)
Theorem C15_total : forall text, returns (decode text).
Proof. exact decode_total. Qed.
Print Assumptions C15_total.

Theorem C15_line_total : forall s line, no_crash (step s line).
Proof. exact step_nc. Qed.
Print Assumptions C15_line_total.

(* never a silently dropped data row: a non-comment line that does not produce an error
   either is the header (no columns were known yet; laps unchanged) or appends exactly one
   record to the open lap *)
Theorem C15_no_silent_loss :
  forall s line s',
    prefix_b "# " line = false -> step s line = Ok s' ->
    (s_parsers s = None /\ s_laps s' = s_laps s) \/ (exists r, s' = add_record s r).
Proof. exact step_data_line. Qed.
Print Assumptions C15_no_silent_loss.
