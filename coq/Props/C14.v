(* C14: encoding always returns, and reports a failing output. *)
From Coq Require Import List Arith Bool.
From TT Require Import Laptimer.Pipe Proofs.C14_proofs.
Import ListNotations.

(* For EVERY way the document is cut into pipe chunks, reads and output operations, every
   failing position k (or none), with or without compression, and EVERY interleaving of the
   two threads (reachable quantifies over all schedules): *)

(* ... a state that has not returned can always take a step: Encode never blocks forever *)
Theorem C14_no_deadlock :
  forall p, p_fixed p = true -> forall s, reachable p s -> is_final s = false -> step p s <> [].
Proof. exact no_deadlock. Qed.
Print Assumptions C14_no_deadlock.

(* ... every transition strictly decreases a natural-number measure: every execution ends
   within mu init steps (bounded time), whatever the schedule *)
Theorem C14_terminates : forall p s s', In s' (step p s) -> mu p s' < mu p s.
Proof. exact step_decreases. Qed.
Print Assumptions C14_terminates.

(* ... an output failing from its k-th write, k below the number of writes of the fault-free
   run, makes every execution return a non-nil error *)
Theorem C14_error_reported :
  forall p, p_fixed p = true -> forall s k e,
    p_fail p = Some k -> k < total_writes p -> reachable p s -> m s = MRet e -> e = true.
Proof. exact error_reported. Qed.
Print Assumptions C14_error_reported.

(* ... once Encode has returned the filter goroutine has exited (or was never started) *)
Theorem C14_no_goroutine_left :
  forall p, p_fixed p = true -> forall s e,
    reachable p s -> m s = MRet e -> c s = CExit \/ (c s = CIdle /\ e = true).
Proof. exact no_goroutine_left. Qed.
Print Assumptions C14_no_goroutine_left.

(* ... a nil return means that nothing failed and the output has received every write of the
   document (with compression: including the closing of the gzip stream, performed last) *)
Theorem C14_success_complete :
  forall p, p_fixed p = true -> forall s,
    reachable p s -> m s = MRet false -> wcount s = total_writes p /\ broken s = false.
Proof. exact success_complete. Qed.
Print Assumptions C14_success_complete.

(* The code as it was before the repair (the consumer returned without closing the read
   side): a reachable, non-final state without successor - the defect D2. *)
Theorem C14_no_deadlock_refuted_before_fix :
  exists s, reachable unfixed_example s /\ is_final s = false /\ step unfixed_example s = [].
Proof. exact unfixed_deadlocks. Qed.
Print Assumptions C14_no_deadlock_refuted_before_fix.
