(* encoding/csv readRecord for the one newline-terminated line the decoder feeds it
   (Comma ',', no comment character, no lazy quotes, no leading-space trimming). *)
From Coq Require Import String Ascii List Bool.
From TT Require Import Base.Outcome Base.Str.
Import ListNotations.
Local Open Scope char_scope.

Inductive cmode := MStart | MPlain | MQuoted | MQuoteSeen.

Fixpoint csv_go (l : list ascii) (mode : cmode) (cur : list ascii) (fields : list (list ascii))
  : outcome (list (list ascii)) :=
  match l with
  | [] =>
    match mode with
    | MStart | MPlain | MQuoteSeen => Ok (rev' (rev' cur :: fields))
    | MQuoted => Err "csv-quote"          (* line (and buffer) ended inside a quoted field *)
    end
  | c :: r =>
    match mode with
    | MStart =>
        if Ascii.eqb c """" then csv_go r MQuoted [] fields
        else if Ascii.eqb c "," then csv_go r MStart [] ([] :: fields)
        else csv_go r MPlain [c] fields
    | MPlain =>
        if Ascii.eqb c "," then csv_go r MStart [] (rev' cur :: fields)
        else if Ascii.eqb c """" then Err "csv-bare-quote"
        else csv_go r MPlain (c :: cur) fields
    | MQuoted =>
        if Ascii.eqb c """" then csv_go r MQuoteSeen cur fields
        else csv_go r MQuoted (c :: cur) fields
    | MQuoteSeen =>
        if Ascii.eqb c """" then csv_go r MQuoted (c :: cur) fields
        else if Ascii.eqb c "," then csv_go r MStart [] (rev' cur :: fields)
        else Err "csv-quote"
    end
  end.

(* line: the Scanner token (no newline, at most one CR already stripped).  The decoder
   appends "\n"; readLine turns a final "\r\n" into "\n"; an empty line is skipped and the
   reader then reports io.EOF. *)
Definition drop_trailing_cr (l : list ascii) : list ascii :=
  match rev' l with
  | "013" :: t => rev' t
  | _ => l
  end.

Definition csv_record (line : string) : outcome (list string) :=
  let l := drop_trailing_cr (chars_of line) in
  match l with
  | [] => Err "csv-eof"
  | _ => omap (map of_chars) (csv_go l MStart [] [])
  end.
