(* pkg/trackaddict: Record and the 35-case column switch of Decoder.columns, with the
   per-column cell parsers (record.go, gps.go, obd.go, accel.go, helpers.go).
   Decoder.units is always the zero value (no exported option sets it), so the only
   converters are the imperial->metric ones named in the switch. *)
From Coq Require Import String Ascii List ZArith Bool.
From TT Require Import Base.Outcome Base.Str Base.F64 Base.GoParse Trackaddict.Units.
Import ListNotations.
Local Open Scope string_scope.
Local Open Scope Z_scope.

Record gps := mkGps { g_update : bool; g_delay : Z;
                      g_lat : f64; g_lon : f64; g_alt : f64; g_acc : f64; g_head : f64 }.
Record obd := mkObd { o_update : bool;
                      o_speed : option f64; o_rpm : option f64; o_throttle : option f64;
                      o_coolant : option f64; o_intake : option f64; o_manifold : option f64 }.
Record accel := mkAccel { a_x : f64; a_y : f64; a_z : f64 }.
Record record := mkRecord {
  r_now : Z;            (* ns *)
  r_time : Z;           (* ns since the Unix epoch *)
  r_lap : Z;
  r_pred : Z; r_off : Z;
  r_gps : gps;
  r_speed : f64;
  r_accel : option accel;
  r_brake : bool;
  r_baro : f64; r_palt : f64;
  r_obd : option obd }.

Definition gps0 := mkGps false 0 0 0 0 0 0.
Definition obd0 := mkObd false None None None None None None.
Definition accel0 := mkAccel 0 0 0.
(* Go's zero time.Time is year 1; as Unix ns that is this constant (seconds -62135596800) *)
Definition zero_time_ns : Z := -62135596800 * 1000000000.
Definition record0 := mkRecord 0 zero_time_ns 0 0 0 gps0 0 None false 0 0 None.

(* the float-valued fields a column can target *)
Inductive ffield := FLat | FLon | FAlt | FAcc | FHead | FSpeed | FBaro | FPalt
                  | FAx | FAy | FAz
                  | FOSpeed | FORpm | FOThrottle | FOCoolant | FOIntake | FOManifold.

Inductive col :=
| CNow | CTime | CLap | CPred | COff | CGpsUpdate | CGpsDelay | CBrake | CObdUpdate
| CFloat (f : ffield) (cs : list conv).

Definition col_of_header (h : string) : option col :=
  if String.eqb h "Time" then Some CNow
  else if String.eqb h "UTC Time" then Some CTime
  else if String.eqb h "Lap" then Some CLap
  else if String.eqb h "Predicted Lap Time" then Some CPred
  else if String.eqb h "Predicted vs Best Lap" then Some COff
  else if String.eqb h "GPS_Update" then Some CGpsUpdate
  else if String.eqb h "GPS_Delay" then Some CGpsDelay
  else if String.eqb h "Latitude" then Some (CFloat FLat [])
  else if String.eqb h "Longitude" then Some (CFloat FLon [])
  else if String.eqb h "Altitude (m)" then Some (CFloat FAlt [])
  else if String.eqb h "Altitude (ft)" then Some (CFloat FAlt [Ft2M])
  else if String.eqb h "Speed (MPH)" then Some (CFloat FSpeed [Mi2Km])
  else if String.eqb h "Speed (Km/h)" then Some (CFloat FSpeed [])
  else if String.eqb h "Heading" then Some (CFloat FHead [])
  else if String.eqb h "Accuracy (m)" then Some (CFloat FAcc [])
  else if String.eqb h "Accuracy (ft)" then Some (CFloat FAcc [Ft2M])
  else if String.eqb h "Accel X" then Some (CFloat FAx [])
  else if String.eqb h "Accel Y" then Some (CFloat FAy [])
  else if String.eqb h "Accel Z" then Some (CFloat FAz [])
  else if String.eqb h "Brake (calculated)" then Some CBrake
  else if String.eqb h "Barometric Pressure (PSI)" then Some (CFloat FBaro [Psi2Kpa])
  else if String.eqb h "Barometric Pressure (kPa)" then Some (CFloat FBaro [])
  else if String.eqb h "Pressure Altitude (ft)" then Some (CFloat FPalt [Ft2M])
  else if String.eqb h "Pressure Altitude (m)" then Some (CFloat FPalt [])
  else if String.eqb h "OBD_Update" then Some CObdUpdate
  else if String.eqb h "Engine Speed (RPM) *OBD" then Some (CFloat FORpm [])
  else if String.eqb h "Vehicle Speed (mph) *OBD" then Some (CFloat FOSpeed [Mi2Km])
  else if String.eqb h "Vehicle Speed (km/h) *OBD" then Some (CFloat FOSpeed [])
  else if String.eqb h "Throttle Position (%) *OBD" then Some (CFloat FOThrottle [])
  else if String.eqb h "Engine Coolant Temp (F) *OBD" then Some (CFloat FOCoolant [F2C])
  else if String.eqb h "Engine Coolant Temp (C) *OBD" then Some (CFloat FOCoolant [])
  else if String.eqb h "Intake Air Temp (F) *OBD" then Some (CFloat FOIntake [F2C])
  else if String.eqb h "Intake Air Temp (C) *OBD" then Some (CFloat FOIntake [])
  else if String.eqb h "Intake Manifold Pressure (PSI) *OBD" then Some (CFloat FOManifold [Psi2Kpa])
  else if String.eqb h "Intake Manifold Pressure (kPa) *OBD" then Some (CFloat FOManifold [])
  else None.

Definition all_headers : list string :=
  ["Time"; "UTC Time"; "Lap"; "Predicted Lap Time"; "Predicted vs Best Lap"; "GPS_Update";
   "GPS_Delay"; "Latitude"; "Longitude"; "Altitude (m)"; "Altitude (ft)"; "Speed (MPH)";
   "Speed (Km/h)"; "Heading"; "Accuracy (m)"; "Accuracy (ft)"; "Accel X"; "Accel Y"; "Accel Z";
   "Brake (calculated)"; "Barometric Pressure (PSI)"; "Barometric Pressure (kPa)";
   "Pressure Altitude (ft)"; "Pressure Altitude (m)"; "OBD_Update"; "Engine Speed (RPM) *OBD";
   "Vehicle Speed (mph) *OBD"; "Vehicle Speed (km/h) *OBD"; "Throttle Position (%) *OBD";
   "Engine Coolant Temp (F) *OBD"; "Engine Coolant Temp (C) *OBD"; "Intake Air Temp (F) *OBD";
   "Intake Air Temp (C) *OBD"; "Intake Manifold Pressure (PSI) *OBD";
   "Intake Manifold Pressure (kPa) *OBD"].

(* ---- setters ---- *)
Definition upd_gps (f : gps -> gps) (r : record) : record :=
  mkRecord (r_now r) (r_time r) (r_lap r) (r_pred r) (r_off r) (f (r_gps r)) (r_speed r)
           (r_accel r) (r_brake r) (r_baro r) (r_palt r) (r_obd r).
Definition init_obd (r : record) : obd := match r_obd r with Some o => o | None => obd0 end.
Definition upd_obd (f : obd -> obd) (r : record) : record :=
  mkRecord (r_now r) (r_time r) (r_lap r) (r_pred r) (r_off r) (r_gps r) (r_speed r)
           (r_accel r) (r_brake r) (r_baro r) (r_palt r) (Some (f (init_obd r))).
Definition init_accel (r : record) : accel := match r_accel r with Some a => a | None => accel0 end.
Definition upd_accel (f : accel -> accel) (r : record) : record :=
  mkRecord (r_now r) (r_time r) (r_lap r) (r_pred r) (r_off r) (r_gps r) (r_speed r)
           (Some (f (init_accel r))) (r_brake r) (r_baro r) (r_palt r) (r_obd r).

Definition set_ffield (f : ffield) (v : f64) (r : record) : record :=
  match f with
  | FLat => upd_gps (fun g => mkGps (g_update g) (g_delay g) v (g_lon g) (g_alt g) (g_acc g) (g_head g)) r
  | FLon => upd_gps (fun g => mkGps (g_update g) (g_delay g) (g_lat g) v (g_alt g) (g_acc g) (g_head g)) r
  | FAlt => upd_gps (fun g => mkGps (g_update g) (g_delay g) (g_lat g) (g_lon g) v (g_acc g) (g_head g)) r
  | FAcc => upd_gps (fun g => mkGps (g_update g) (g_delay g) (g_lat g) (g_lon g) (g_alt g) v (g_head g)) r
  | FHead => upd_gps (fun g => mkGps (g_update g) (g_delay g) (g_lat g) (g_lon g) (g_alt g) (g_acc g) v) r
  | FSpeed => mkRecord (r_now r) (r_time r) (r_lap r) (r_pred r) (r_off r) (r_gps r) v
                       (r_accel r) (r_brake r) (r_baro r) (r_palt r) (r_obd r)
  | FBaro => mkRecord (r_now r) (r_time r) (r_lap r) (r_pred r) (r_off r) (r_gps r) (r_speed r)
                       (r_accel r) (r_brake r) v (r_palt r) (r_obd r)
  | FPalt => mkRecord (r_now r) (r_time r) (r_lap r) (r_pred r) (r_off r) (r_gps r) (r_speed r)
                       (r_accel r) (r_brake r) (r_baro r) v (r_obd r)
  | FAx => upd_accel (fun a => mkAccel v (a_y a) (a_z a)) r
  | FAy => upd_accel (fun a => mkAccel (a_x a) v (a_z a)) r
  | FAz => upd_accel (fun a => mkAccel (a_x a) (a_y a) v) r
  | FOSpeed => upd_obd (fun o => mkObd (o_update o) (Some v) (o_rpm o) (o_throttle o) (o_coolant o) (o_intake o) (o_manifold o)) r
  | FORpm => upd_obd (fun o => mkObd (o_update o) (o_speed o) (Some v) (o_throttle o) (o_coolant o) (o_intake o) (o_manifold o)) r
  | FOThrottle => upd_obd (fun o => mkObd (o_update o) (o_speed o) (o_rpm o) (Some v) (o_coolant o) (o_intake o) (o_manifold o)) r
  | FOCoolant => upd_obd (fun o => mkObd (o_update o) (o_speed o) (o_rpm o) (o_throttle o) (Some v) (o_intake o) (o_manifold o)) r
  | FOIntake => upd_obd (fun o => mkObd (o_update o) (o_speed o) (o_rpm o) (o_throttle o) (o_coolant o) (Some v) (o_manifold o)) r
  | FOManifold => upd_obd (fun o => mkObd (o_update o) (o_speed o) (o_rpm o) (o_throttle o) (o_coolant o) (o_intake o) (Some v)) r
  end.

Definition get_ffield (f : ffield) (r : record) : option f64 :=
  match f with
  | FLat => Some (g_lat (r_gps r)) | FLon => Some (g_lon (r_gps r)) | FAlt => Some (g_alt (r_gps r))
  | FAcc => Some (g_acc (r_gps r)) | FHead => Some (g_head (r_gps r))
  | FSpeed => Some (r_speed r) | FBaro => Some (r_baro r) | FPalt => Some (r_palt r)
  | FAx => option_map a_x (r_accel r) | FAy => option_map a_y (r_accel r)
  | FAz => option_map a_z (r_accel r)
  | FOSpeed => match r_obd r with Some o => o_speed o | None => None end
  | FORpm => match r_obd r with Some o => o_rpm o | None => None end
  | FOThrottle => match r_obd r with Some o => o_throttle o | None => None end
  | FOCoolant => match r_obd r with Some o => o_coolant o | None => None end
  | FOIntake => match r_obd r with Some o => o_intake o | None => None end
  | FOManifold => match r_obd r with Some o => o_manifold o | None => None end
  end.

(* helpers.go parseDuration: first "." -> "s", append "ms", time.ParseDuration *)
Definition ta_duration (v : string) : outcome Z :=
  parse_duration (of_chars (replace_first "."%char ["s"%char] (chars_of v)) ++ "ms").

(* record.go parseRecordTime: Sscanf("%d.%d") into int64 s, ms; time.Unix(s, ms*1e6).
   The nanosecond product wraps in int64 in Go; values that would wrap are outside the model. *)
Definition ta_time (v : string) : outcome Z :=
  bind (scan_d (chars_of v)) (fun '(s, r1) =>
  bind (scan_lit "."%char r1) (fun r2 =>
  bind (scan_d r2) (fun '(ms, _) =>
    if (Z.abs ms <? 2^40) && (Z.abs s <? 2^33) then Ok (s * 1000000000 + ms * 1000000)
    else unmodelled))).

Definition set_col (c : col) (v : string) (r : record) : outcome record :=
  match c with
  | CNow => bind (ta_duration v) (fun d =>
      Ok (mkRecord d (r_time r) (r_lap r) (r_pred r) (r_off r) (r_gps r) (r_speed r)
                   (r_accel r) (r_brake r) (r_baro r) (r_palt r) (r_obd r)))
  | CTime => bind (ta_time v) (fun t =>
      Ok (mkRecord (r_now r) t (r_lap r) (r_pred r) (r_off r) (r_gps r) (r_speed r)
                   (r_accel r) (r_brake r) (r_baro r) (r_palt r) (r_obd r)))
  | CLap => bind (atoi v) (fun n =>
      Ok (mkRecord (r_now r) (r_time r) n (r_pred r) (r_off r) (r_gps r) (r_speed r)
                   (r_accel r) (r_brake r) (r_baro r) (r_palt r) (r_obd r)))
  | CPred => bind (ta_duration v) (fun d =>
      Ok (mkRecord (r_now r) (r_time r) (r_lap r) d (r_off r) (r_gps r) (r_speed r)
                   (r_accel r) (r_brake r) (r_baro r) (r_palt r) (r_obd r)))
  | COff => bind (ta_duration v) (fun d =>
      Ok (mkRecord (r_now r) (r_time r) (r_lap r) (r_pred r) d (r_gps r) (r_speed r)
                   (r_accel r) (r_brake r) (r_baro r) (r_palt r) (r_obd r)))
  | CGpsUpdate => bind (parse_bool v) (fun b =>
      Ok (upd_gps (fun g => mkGps b (g_delay g) (g_lat g) (g_lon g) (g_alt g) (g_acc g) (g_head g)) r))
  | CGpsDelay => bind (ta_duration v) (fun d =>
      Ok (upd_gps (fun g => mkGps (g_update g) d (g_lat g) (g_lon g) (g_alt g) (g_acc g) (g_head g)) r))
  | CBrake => bind (parse_bool v) (fun b =>
      Ok (mkRecord (r_now r) (r_time r) (r_lap r) (r_pred r) (r_off r) (r_gps r) (r_speed r)
                   (r_accel r) b (r_baro r) (r_palt r) (r_obd r)))
  | CObdUpdate =>
      (* parseOBDUpdate(r.InitOBD(), value): the OBD block is created before the parse *)
      let r' := upd_obd (fun o => o) r in
      bind (parse_bool v) (fun b =>
      Ok (upd_obd (fun o => mkObd b (o_speed o) (o_rpm o) (o_throttle o) (o_coolant o) (o_intake o) (o_manifold o)) r'))
  | CFloat f cs =>
      bind (parse_float v) (fun x => Ok (set_ffield f (apply_convs cs x) r))
  end.

(* the value a float column stores for a cell *)
Definition decode_cell (cs : list conv) (v : string) : outcome f64 :=
  omap (apply_convs cs) (parse_float v).
