(* pkg/trackaddict/units.go: imperial -> metric conversions, in Go's evaluation order. *)
From Coq Require Import ZArith List.
From TT Require Import Base.F64.
Import ListNotations.
Local Open Scope Z_scope.

(* the untyped Go constants, rounded once to float64 as the compiler does *)
Definition c_m2km : f64 := f_of_ratio 160934 100000.
Definition c_ft2m : f64 := f_of_ratio 3048 10000.
Definition c_psi2kpa : f64 := f_of_ratio 689476 100000.

Inductive conv := Ft2M | Mi2Km | Psi2Kpa | F2C.

Definition apply_conv (c : conv) (v : f64) : f64 :=
  match c with
  | Ft2M => fmul v c_ft2m
  | Mi2Km => fmul v c_m2km
  | Psi2Kpa => fmul v c_psi2kpa
  | F2C => fdiv (fmul (fsub v (f_of_Z 32)) (f_of_Z 5)) (f_of_Z 9)
  end.

Definition apply_convs (cs : list conv) (v : f64) : f64 := fold_left (fun v c => apply_conv c v) cs v.
