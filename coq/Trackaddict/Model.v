(* pkg/trackaddict/decoder.go: Decode and parseMetadata over the Scanner's lines. *)
From Coq Require Import String Ascii List ZArith Bool.
From TT Require Import Base.Outcome Base.Str Base.F64 Base.GoParse
     Trackaddict.Units Trackaddict.Columns Trackaddict.Csv.
Import ListNotations.
Local Open Scope string_scope.
Local Open Scope Z_scope.

Record lap := mkLap { lap_dur : Z; lap_num : Z; lap_recs : list record }.
Definition lap0 := mkLap 0 0 [].

Record session := mkSession {
  s_closed : list lap;          (* closed laps, oldest first *)
  s_cur : lap;                  (* the open lap: Go's s.Laps = s_closed ++ [s_cur] *)
  s_meta : list (string * string);
  s_vehicle : string;
  s_endpoint : f64 * f64 * f64; (* latitude, longitude, heading *)
  s_parsers : option (list col) }.
Definition session0 := mkSession [] lap0 [] "" (0, 0, 0) None.
Definition s_laps (s : session) : list lap := s_closed s ++ [s_cur s].

(* ---- bufio.Scanner with ScanLines ---- *)
Fixpoint split_lines_aux (l : list ascii) (cur : list ascii) : list (list ascii) :=
  match l with
  | [] => match cur with [] => [] | _ => [rev' cur] end
  | c :: r => if Ascii.eqb c "010" then rev' cur :: split_lines_aux r [] else split_lines_aux r (c :: cur)
  end.
Definition drop_cr (l : list ascii) : list ascii :=
  match rev' l with "013"%char :: t => rev' t | _ => l end.
Definition scan_lines (text : string) : list string :=
  map (fun l => of_chars (drop_cr l)) (split_lines_aux (chars_of text) []).

(* ---- strings.TrimSpace on ASCII; non-ASCII at either end is outside the model ---- *)
Definition ascii_space (c : ascii) : bool :=
  let n := N_of_ascii c in ((9 <=? n) && (n <=? 13))%N || (n =? 32)%N.
Fixpoint trim_left (l : list ascii) : list ascii :=
  match l with c :: r => if ascii_space c then trim_left r else l | [] => [] end.
Definition trim_space (s : string) : string :=
  of_chars (rev' (trim_left (rev' (trim_left (chars_of s))))).
Definition edge_non_ascii (s : string) : bool :=
  let l := chars_of s in
  match l, rev' l with
  | a :: _, b :: _ => negb (is_ascii7 a) || negb (is_ascii7 b)
  | _, _ => false
  end.

(* ---- strings.SplitN(s, ":", 2) ---- *)
Fixpoint split_colon (l : list ascii) (acc : list ascii) : list ascii * option (list ascii) :=
  match l with
  | [] => (rev' acc, None)
  | c :: r => if Ascii.eqb c ":" then (rev' acc, Some r) else split_colon r (c :: acc)
  end.

(* ---- endpointRe = ([0-9\.\-]+), +([0-9\.\-]+) +@ +([0-9\.\-]+), leftmost match ---- *)
Definition ep_class (c : ascii) : bool := is_digit c || Ascii.eqb c "." || Ascii.eqb c "-".
Fixpoint span_p (p : ascii -> bool) (l : list ascii) : list ascii * list ascii :=
  match l with
  | c :: r => if p c then let '(a, b) := span_p p r in (c :: a, b) else ([], l)
  | [] => ([], [])
  end.
Definition is_sp (c : ascii) : bool := Ascii.eqb c " ".

Definition ep_match_here (l : list ascii) : option (string * string * string) :=
  let '(a1, r1) := span_p ep_class l in
  match a1, r1 with
  | _ :: _, ","%char :: r2 =>
    let '(sp1, r3) := span_p is_sp r2 in
    let '(a2, r4) := span_p ep_class r3 in
    let '(sp2, r5) := span_p is_sp r4 in
    match sp1, a2, sp2, r5 with
    | _ :: _, _ :: _, _ :: _, "@"%char :: r6 =>
      let '(sp3, r7) := span_p is_sp r6 in
      let '(a3, _) := span_p ep_class r7 in
      match sp3, a3 with
      | _ :: _, _ :: _ => Some (of_chars a1, of_chars a2, of_chars a3)
      | _, _ => None
      end
    | _, _, _, _ => None
    end
  | _, _ => None
  end.
Fixpoint ep_find (l : list ascii) : option (string * string * string) :=
  match ep_match_here l with
  | Some m => Some m
  | None => match l with [] => None | _ :: r => ep_find r end
  end.

(* ---- decimal printing of an int (for Sprintf("%dh%dm%ds%dms")) ---- *)
Fixpoint pos_digits (fuel : nat) (z : Z) (acc : list ascii) : list ascii :=
  match fuel with
  | O => acc
  | S f => let d := ascii_of_N (Z.to_N (48 + z mod 10)) in
           if z <? 10 then d :: acc else pos_digits f (z / 10) (d :: acc)
  end.
Definition z_to_dec (z : Z) : string :=
  if z <? 0 then String "-" (of_chars (pos_digits 70 (- z) [])) else of_chars (pos_digits 70 z []).

(* lap.go parseLapDuration: Sscanf("%d:%d:%d.%d") then ParseDuration("<h>h<m>m<s>s<ms>ms") *)
Definition lap_duration (v : string) : outcome Z :=
  bind (scan_d (chars_of v)) (fun '(h, r1) =>
  bind (scan_lit ":" r1) (fun r2 => bind (scan_d r2) (fun '(m, r3) =>
  bind (scan_lit ":" r3) (fun r4 => bind (scan_d r4) (fun '(s, r5) =>
  bind (scan_lit "." r5) (fun r6 => bind (scan_d r6) (fun '(ms, _) =>
    parse_duration (z_to_dec h ++ "h" ++ z_to_dec m ++ "m" ++ z_to_dec s ++ "s" ++ z_to_dec ms ++ "ms")))))))).

Definition meta_upd (m : list (string * string)) (k v : string) : list (string * string) :=
  (fix go m := match m with
               | [] => [(k, v)]
               | (k', v') :: r => if String.eqb k k' then (k, v) :: r else (k', v') :: go r
               end) m.

Definition parse_metadata (s : session) (line : string) : outcome session :=
  let body := chars_of (drop 2 line) in
  let '(p0l, rest) := split_colon body [] in
  let p0 := of_chars p0l in
  match rest with
  | None =>
      if String.eqb p0 "End Point" || String.eqb p0 "Vehicle" || prefix_b "Lap " p0
      then Err "metadata-missing-value" else Ok s
  | Some p1l =>
    let p1 := of_chars p1l in
    if String.eqb p0 "End Point" then
      match ep_find p1l with
      | None => Err "endpoint"
      | Some (a, b, c) =>
        bind (parse_float a) (fun lat => bind (parse_float b) (fun lon => bind (parse_float c) (fun hd =>
          Ok (mkSession (s_closed s) (s_cur s) (s_meta s) (s_vehicle s) (lat, lon, hd) (s_parsers s)))))
      end
    else if String.eqb p0 "Vehicle" then
      if edge_non_ascii p1 then unmodelled else
      Ok (mkSession (s_closed s) (s_cur s) (s_meta s) (trim_space p1) (s_endpoint s) (s_parsers s))
    else if prefix_b "Lap " p0 then
      bind (atoi (drop 4 p0)) (fun n =>
      if n <? Z.of_nat (length (s_closed s)) then Err "unexpected-lap" else
      if edge_non_ascii p1 then unmodelled else
      bind (lap_duration (trim_space p1)) (fun d =>
        Ok (mkSession (s_closed s ++ [mkLap d n (lap_recs (s_cur s))]) lap0
                      (s_meta s) (s_vehicle s) (s_endpoint s) (s_parsers s))))
    else
      if edge_non_ascii p1 then unmodelled else
      Ok (mkSession (s_closed s) (s_cur s) (meta_upd (s_meta s) p0 (trim_space p1))
                    (s_vehicle s) (s_endpoint s) (s_parsers s))
  end.

Fixpoint columns (hdrs : list string) : outcome (list col) :=
  match hdrs with
  | [] => Ok []
  | h :: r => match col_of_header h with
              | None => Err "unknown-metric"
              | Some c => bind (columns r) (fun cs => Ok (c :: cs))
              end
  end.

(* Decoder.process: one parser per column, cell i goes to parser i *)
Fixpoint process (cs : list col) (cells : list string) (r : record) : outcome record :=
  match cs, cells with
  | [], _ => Ok r
  | c :: cs', v :: cells' => bind (set_col c v r) (process cs' cells')
  | _ :: _, [] => Panic "index out of range (process)"
  end.

Definition add_record (s : session) (r : record) : session :=
  let c := s_cur s in
  mkSession (s_closed s) (mkLap (lap_dur c) (lap_num c) (lap_recs c ++ [r]))
            (s_meta s) (s_vehicle s) (s_endpoint s) (s_parsers s).

Definition step (s : session) (line : string) : outcome session :=
  if (65536 <=? Z.of_nat (String.length line)) then Err "token-too-long" else
  if prefix_b "# " line then parse_metadata s line
  else
    bind (csv_record line) (fun rec =>
    match s_parsers s with
    | None =>
        bind (columns rec) (fun cs =>
          Ok (mkSession (s_closed s) (s_cur s) (s_meta s) (s_vehicle s) (s_endpoint s) (Some cs)))
    | Some cs =>
        if negb (Nat.eqb (length rec) (length cs)) then Err "csv-field-count" else
        bind (process cs rec record0) (fun r => Ok (add_record s r))
    end).

Definition decode_lines (lines : list string) : outcome session := foldM step lines session0.
Definition decode (text : string) : outcome session := decode_lines (scan_lines text).
