From TT Require Import Base.Outcome Base.Str Base.Verdict Trackaddict.Model Run.Ta_run.
Definition case := Ta_run.case.
Definition mkCase := Ta_run.mkCase.
(* C15 lets the decoder choose between "error" and "ignored as documented metadata": an error
   where the model accepts (a stricter decoder) still meets the property - the correspondence
   differs (S), nothing is dropped.  Accepting what the model rejects stays a violation: that is
   how a bad row would be lost. *)
Definition check_case (c : case) : verdict :=
  match Ta_run.check c with
  | VV => match c_class c, decode (s_of_bytes (c_text c)) with
          | 1%nat, Ok _ => VS
          | _, _ => VV
          end
  | v => v
  end.
