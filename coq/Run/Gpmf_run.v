(* Shared correspondence for the GPMF reader properties (C06, C07, C09, C16): the harness
   hands over the byte stream, the outcome class of the real Reader.Read, the dumped tree and
   a walker log; the model is Klv.read evaluated on the same bytes.  Each property compares
   its own projection of the tree. *)
From Coq Require Import String Ascii List ZArith NArith Bool.
From TT Require Import Base.Outcome Base.Str Base.F64 Base.Verdict Gpmf.Klv Gpmf.Walk.
Import ListNotations.
Local Open Scope Z_scope.

Record case := mkCase {
  c_in : bytes;
  c_class : nat;                       (* 0 ok, 1 error, 2 panic, 3 timeout *)
  c_tree : list elem;
  c_walkmod : Z;
  c_visited : list (bytes * Z) }.

(* ---- canonical token streams ---- *)
Definition tok_bytes (b : bytes) : list Z := Z.of_nat (length b) :: map Z.of_N b.
Definition tok_list {A} (f : A -> list Z) (l : list A) : list Z :=
  Z.of_nat (length l) :: flat_map f l.
Definition tok_bool (b : bool) : list Z := [if b then 1 else 0].
Definition kind_tag (k : ikind) : Z :=
  match k with I8 => 0 | U8 => 1 | I16 => 2 | U16 => 3 | I32 => 4 | U32 => 5 | I64 => 6 | U64 => 7
             | Q32 => 8 | Q64 => 9 end.

Definition tok_data (d : data) : list Z :=
  match d with
  | DNil => [0]
  | DInts k s vs => [1; kind_tag k] ++ tok_bool s ++ tok_list (fun v => [v]) vs
  | DF32 s bs => [2] ++ tok_bool s ++ tok_list (fun v => [v]) bs
  | DF64 s bs => [3] ++ tok_bool s ++ tok_list (fun v => [v]) bs
  | DStrs s ss => [4] ++ tok_bool s ++ tok_list tok_bytes ss
  | DTimes s ts => [5] ++ tok_bool s ++ tok_list (fun v => [v]) ts
  | DScaled fs => [6] ++ tok_list (fun v => [v]) fs
  | DGps rows => [7] ++ tok_list (tok_list (fun v => [v])) rows
  | DVec3 k rows => [8; Z.of_nat k] ++ tok_list (tok_list (fun v => [v])) rows
  | DGpsDop v => [9; v]
  | DGpsFix v => [10; v]
  | DFaces ver rows => [11; Z.of_nat ver] ++ tok_list (tok_list (fun v => [v])) rows
  end.

(* sort metadata by key (bytes, lexicographic) *)
Fixpoint bytes_leb (a b : list N) : bool :=
  match a, b with
  | [], _ => true
  | _ :: _, [] => false
  | x :: a', y :: b' => if (x <? y)%N then true else if (y <? x)%N then false else bytes_leb a' b'
  end.
Fixpoint ins_meta (kv : string * data) (l : meta) : meta :=
  match l with
  | [] => [kv]
  | h :: t => if bytes_leb (bytes_of_s (fst kv)) (bytes_of_s (fst h)) then kv :: l else h :: ins_meta kv t
  end.
Definition sort_meta (m : meta) : meta := fold_right ins_meta [] m.
Definition tok_meta (m : meta) : list Z :=
  tok_list (fun kv => tok_bytes (bytes_of_s (fst kv)) ++ tok_data (snd kv)) (sort_meta m).

Record proj := mkProj { p_struct : bool; p_data : bool; p_meta_sensor : bool; p_meta_all : bool }.

Fixpoint tok_elem (p : proj) (e : elem) : list Z :=
  match e with
  | Elem k t s c d m kids =>
      (if p_struct p then tok_bytes k ++ [t; s; c] else [])
      ++ (if p_data p then tok_data d else [])
      ++ (if p_meta_all p || (p_meta_sensor p && is_sensor_key k) then tok_meta m else [])
      ++ Z.of_nat (length kids) :: flat_map (tok_elem p) kids
  end.
Definition tok_tree (p : proj) (es : list elem) : list Z := tok_list (tok_elem p) es.

Fixpoint zlist_eqb (a b : list Z) : bool :=
  match a, b with
  | [], [] => true
  | x :: a', y :: b' => (x =? y) && zlist_eqb a' b'
  | _, _ => false
  end.

Definition skip_pred (m : Z) (e : elem) : bool :=
  if m =? 0 then false
  else (fold_left (fun a b => a + Z.of_N b) (e_key e) 0 + e_count e + e_typ e) mod m =? 0.

Definition tok_visit (l : list (bytes * Z)) : list Z :=
  tok_list (fun kc => tok_bytes (fst kc) ++ [snd kc]) l.

Definition check (p : proj) (strict_class : bool) (c : case) : verdict :=
  let m := read (c_in c) in
  match c_class c with
  | 2%nat | 3%nat => VV                 (* the implementation crashed or hung *)
  | cls =>
    match m with
    | Ok t =>
      if Nat.eqb cls 0 then
        if zlist_eqb (tok_tree p t) (tok_tree p (c_tree c)) &&
           zlist_eqb (tok_visit (map (fun e => (e_key e, e_count e)) (walk_all (skip_pred (c_walkmod c)) t)))
                     (tok_visit (c_visited c))
        then VA else VV
      else if strict_class then VV else VS
    | Err _ => if Nat.eqb cls 1 then VA else if strict_class then VV else VS
    | Panic _ => VK            (* the model itself crashes here: a defect of the code as modelled *)
    | OutOfFuel => VK
    end
  end.
