(* Shared correspondence for the GPMF reader properties (C06, C07, C09, C16): the harness
   hands over the byte stream, the outcome class of the real Reader.Read, the dumped tree and
   a walker log; the model is Klv.read evaluated on the same bytes.  Each property compares
   its own projection of the tree. *)
From Coq Require Import String Ascii List ZArith NArith Bool.
From TT Require Import Base.Outcome Base.Str Base.F64 Base.Verdict Gpmf.Klv Gpmf.Walk.
Import ListNotations.
Local Open Scope Z_scope.

Record case := mkCase {
  c_in : bytes;
  c_class : nat;                       (* 0 ok, 1 error, 2 panic, 3 timeout *)
  c_tree : list elem;
  c_walkmod : Z;
  c_visited : list (bytes * Z) }.

(* ---- canonical token streams ---- *)
Definition tok_bytes (b : bytes) : list Z := Z.of_nat (length b) :: map Z.of_N b.
Definition tok_list {A} (f : A -> list Z) (l : list A) : list Z :=
  Z.of_nat (length l) :: flat_map f l.
Definition tok_bool (b : bool) : list Z := [if b then 1 else 0].
Definition kind_tag (k : ikind) : Z :=
  match k with I8 => 0 | U8 => 1 | I16 => 2 | U16 => 3 | I32 => 4 | U32 => 5 | I64 => 6 | U64 => 7
             | Q32 => 8 | Q64 => 9 end.

Definition tok_data (d : data) : list Z :=
  match d with
  | DNil => [0]
  | DInts k s vs => [1; kind_tag k] ++ tok_bool s ++ tok_list (fun v => [v]) vs
  | DF32 s bs => [2] ++ tok_bool s ++ tok_list (fun v => [v]) bs
  | DF64 s bs => [3] ++ tok_bool s ++ tok_list (fun v => [v]) bs
  | DStrs s ss => [4] ++ tok_bool s ++ tok_list tok_bytes ss
  | DTimes s ts => [5] ++ tok_bool s ++ tok_list (fun v => [v]) ts
  | DScaled fs => [6] ++ tok_list (fun v => [v]) fs
  | DGps rows => [7] ++ tok_list (tok_list (fun v => [v])) rows
  | DVec3 k rows => [8; Z.of_nat k] ++ tok_list (tok_list (fun v => [v])) rows
  | DGpsDop v => [9; v]
  | DGpsFix v => [10; v]
  | DFaces ver rows => [11; Z.of_nat ver] ++ tok_list (tok_list (fun v => [v])) rows
  end.

(* sort metadata by key (bytes, lexicographic) *)
Fixpoint bytes_leb (a b : list N) : bool :=
  match a, b with
  | [], _ => true
  | _ :: _, [] => false
  | x :: a', y :: b' => if (x <? y)%N then true else if (y <? x)%N then false else bytes_leb a' b'
  end.
Fixpoint ins_meta (kv : string * data) (l : meta) : meta :=
  match l with
  | [] => [kv]
  | h :: t => if bytes_leb (bytes_of_s (fst kv)) (bytes_of_s (fst h)) then kv :: l else h :: ins_meta kv t
  end.
Definition sort_meta (m : meta) : meta := fold_right ins_meta [] m.
Definition tok_meta (m : meta) : list Z :=
  tok_list (fun kv => tok_bytes (bytes_of_s (fst kv)) ++ tok_data (snd kv)) (sort_meta m).

Record proj := mkProj { p_struct : bool; p_data : bool; p_meta_sensor : bool; p_meta_all : bool }.

Fixpoint tok_elem (p : proj) (e : elem) : list Z :=
  match e with
  | Elem k t s c d m kids =>
      (if p_struct p then tok_bytes k ++ [t; s; c] else [])
      ++ (if p_data p then tok_data d else [])
      ++ (if p_meta_all p || (p_meta_sensor p && is_sensor_key k) then tok_meta m else [])
      ++ Z.of_nat (length kids) :: flat_map (tok_elem p) kids
  end.
Definition tok_tree (p : proj) (es : list elem) : list Z := tok_list (tok_elem p) es.

Fixpoint zlist_eqb (a b : list Z) : bool :=
  match a, b with
  | [], [] => true
  | x :: a', y :: b' => (x =? y) && zlist_eqb a' b'
  | _, _ => false
  end.

Definition skip_pred (m : Z) (e : elem) : bool :=
  if m =? 0 then false
  else (fold_left (fun a b => a + Z.of_N b) (e_key e) 0 + e_count e + e_typ e) mod m =? 0.

Definition tok_visit (l : list (bytes * Z)) : list Z :=
  tok_list (fun kc => tok_bytes (fst kc) ++ [snd kc]) l.

Definition check (p : proj) (strict_class : bool) (c : case) : verdict :=
  let m := read (c_in c) in
  match c_class c with
  | 2%nat | 3%nat => VV                 (* the implementation crashed or hung *)
  | cls =>
    match m with
    | Ok t =>
      if Nat.eqb cls 0 then
        if zlist_eqb (tok_tree p t) (tok_tree p (c_tree c)) &&
           zlist_eqb (tok_visit (map (fun e => (e_key e, e_count e)) (walk_all (skip_pred (c_walkmod c)) t)))
                     (tok_visit (c_visited c))
        then VA else VV
      else if strict_class then VV else VS
    | Err _ => if Nat.eqb cls 1 then VA else if strict_class then VV else VS
    | Panic _ => VK            (* the model itself crashes here: a defect of the code as modelled *)
    | OutOfFuel => VK
    end
  end.

(* ---- C16: the wording of the fix description is not fixed by the property.  A tree that
   differs from the model only in those strings still meets it when the description is one
   injective function of the fix value over the whole read (so it is the element's own stream's
   description and cannot have leaked from a stream with another fix). ---- *)
Definition strip_desc (m : meta) : meta :=
  map (fun kv => if String.eqb (fst kv) "gps_fix_description" then (fst kv, DNil) else kv) m.
Fixpoint strip_elem (e : elem) : elem :=
  match e with Elem k t s c d m kids => Elem k t s c d (strip_desc m) (map strip_elem kids) end.
Fixpoint fix_descs (e : elem) : list (Z * list Z) :=
  match e with
  | Elem k t s c d m kids =>
      (match meta_get m "gps_fix", meta_get m "gps_fix_description" with
       | Some (DGpsFix v), Some dd => [(v, tok_data dd)]
       | _, _ => []
       end) ++ flat_map fix_descs kids
  end.
Definition fun_inj (l : list (Z * list Z)) : bool :=
  forallb (fun p => forallb (fun q => Bool.eqb (fst p =? fst q) (zlist_eqb (snd p) (snd q))) l) l.

Definition check_c16 (c : case) : verdict :=
  let p := mkProj true false true false in
  match check p true c with
  | VV =>
    match c_class c, read (c_in c) with
    | 0%nat, Ok t =>
        if zlist_eqb (tok_tree p (map strip_elem t)) (tok_tree p (map strip_elem (c_tree c))) &&
           fun_inj (flat_map fix_descs (c_tree c))
        then VS else VV
    | _, _ => VV
    end
  | v => v
  end.

(* ---- C07: "value i becomes raw[i] / scale[i mod n]".  For the 64-bit raw types (j, J, Q) the
   raw value need not be a float64, so the quotient rounded once and the model's
   convert-then-divide may differ in the last bit; both are the quotient.  A tree that differs
   from the model only by one unit in the last place in values of such elements still meets
   the property (S).  For every other type the conversion is exact and the value is fixed. ---- *)
Definition wide_typ (t : Z) : bool := (t =? 106) || (t =? 74) || (t =? 81).
Definition ulp_close (a b : Z) : bool := Z.abs (a - b) <=? 1.
Definition row_close (a b : list Z) : bool :=
  Nat.eqb (length a) (length b) && forallb (fun '(x, y) => ulp_close x y) (combine a b).
Definition rows_close (a b : list (list Z)) : bool :=
  Nat.eqb (length a) (length b) && forallb (fun '(x, y) => row_close x y) (combine a b).
Definition data_close (d d' : data) : bool :=
  match d, d' with
  | DScaled a, DScaled b => row_close a b
  | DGps r, DGps r' => rows_close r r'
  | DVec3 k r, DVec3 k' r' => Nat.eqb k k' && rows_close r r'
  | _, _ => zlist_eqb (tok_data d) (tok_data d')
  end.
Fixpoint elem_close (e e' : elem) : bool :=
  match e, e' with
  | Elem k t s c d m kids, Elem k' t' s' c' d' m' kids' =>
      zlist_eqb (tok_bytes k) (tok_bytes k') && (t =? t') && (s =? s') && (c =? c') &&
      (if wide_typ t then data_close d d' else zlist_eqb (tok_data d) (tok_data d')) &&
      (fix go (a b : list elem) : bool :=
         match a, b with
         | [], [] => true
         | x :: a', y :: b' => elem_close x y && go a' b'
         | _, _ => false
         end) kids kids'
  end.
(* a stored scale entry of zero is outside C07's quantifier ("arbitrary non-zero entries"): the
   code divides by it (Inf/NaN); a decoder that rejects the stream instead differs from the
   model outside the property *)
Fixpoint has_zero_scal (e : elem) : bool :=
  match e with
  | Elem k _ _ _ d _ kids =>
      (zlist_eqb (tok_bytes k) (tok_bytes [83; 67; 65; 76]%N) &&
       match d with DScaled fs => existsb (fun x => (x =? 0) || (x =? 0x8000000000000000)) fs | _ => false end)
      || existsb has_zero_scal kids
  end.
Definition check_c07 (c : case) : verdict :=
  match check (mkProj true true false false) true c with
  | VV =>
    match c_class c, read (c_in c) with
    | 1%nat, Ok t => if existsb has_zero_scal t then VO else VV
    | 0%nat, Ok t =>
        if Nat.eqb (length t) (length (c_tree c)) && forallb (fun '(x, y) => elem_close x y) (combine t (c_tree c)) &&
           zlist_eqb (tok_visit (map (fun e => (e_key e, e_count e)) (walk_all (skip_pred (c_walkmod c)) t)))
                     (tok_visit (c_visited c))
        then VS else VV
    | _, _ => VV
    end
  | v => v
  end.
