(* C17 correspondence: the decision of OnLine on its own intermediate quantities (read through
   the verif hook, as exact rationals) against the model; the geometric truth (great-circle
   distance to the segment by an independent vector computation in the harness) outside the
   guard band; end-point order and tolerance monotonicity as observed. *)
From Coq Require Import List ZArith QArith Bool.
From Flocq Require Import Core.
From Flocq.IEEE754 Require Import BinarySingleNaN Binary Bits.
From TT Require Import Base.F64 Base.Verdict Geo.Online.
Import ListNotations.

Definition q_of (a : f64) : Q :=
  match of_bits a with
  | Binary.B754_finite _ _ s m e _ =>
      let v := if (0 <=? e)%Z then inject_Z (Zpos m * 2 ^ e) else (Zpos m # Z.to_pos (2 ^ (- e))) in
      if s then Qopp v else v
  | _ => 0%Q
  end.

Record case := mkCase {
  c_tol : Z; c_d01 : Z; c_d02 : Z; c_d12 : Z; c_track : Z; c_sinsum : bool;
  c_result : bool; c_swapped : bool; c_doubled : bool;
  c_expected : nat }.      (* 0 miss, 1 hit, 2 inside the guard band (undecided) *)

Definition check_case (c : case) : verdict :=
  let p := mkParts (q_of (c_d01 c)) (q_of (c_d02 c)) (q_of (c_d12 c)) (q_of (c_track c)) (c_sinsum c) in
  let model := on_line (q_of (c_tol c)) p in
  let geo_ok := match c_expected c with
                | 0%nat => negb (c_result c) && negb (c_swapped c)
                | 1%nat => c_result c && c_swapped c
                | _ => true
                end in
  let mono_ok := implb (c_result c) (c_doubled c) in
  if negb geo_ok || negb mono_ok then VV
  else if Bool.eqb model (c_result c) then VA else VS.
