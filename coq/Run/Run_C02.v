From Coq Require Import List ZArith.
From TT Require Import Base.Outcome Base.Str Base.Verdict Trackaddict.Columns Trackaddict.Model Run.Ta_run.
Import ListNotations.
Definition case := Ta_run.case.
Definition mkCase := Ta_run.mkCase.
(* C02 gives lap i the number of marker i; the lap still open at the end of the log has no marker
   and its number is not fixed: a session that differs from the model's only there still meets
   the property (S). *)
Definition unnumber_last (o : obs) : obs :=
  match rev (ob_laps o) with
  | l :: r => mkObs (rev (mkLap (lap_dur l) 0 (lap_recs l) :: r)) (ob_meta o) (ob_vehicle o) (ob_endpoint o)
  | [] => o
  end.
Definition check_case (c : case) : verdict :=
  match Ta_run.check c with
  | VV => match c_class c, decode (s_of_bytes (c_text c)) with
          | 0%nat, Ok s => if zlist_eqb (tok_obs (unnumber_last (obs_of_session s))) (tok_obs (unnumber_last (c_obs c))) then VS else VV
          | _, _ => VV
          end
  | v => v
  end.
