From TT Require Import Base.Verdict Trackaddict.Model Run.Ta_run.
Definition case := Ta_run.case.
Definition mkCase := Ta_run.mkCase.
Definition check_case := Ta_run.check.
