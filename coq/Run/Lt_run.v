(* Correspondence for the LapTimer codec (C01, C13). *)
From Coq Require Import String Ascii List ZArith NArith Bool.
From TT Require Import Base.Outcome Base.Str Base.F64 Base.Verdict Xml.Print Xml.Lex
     Laptimer.Leaves Laptimer.Value Laptimer.Codec Laptimer.Schema Proofs.Doc_lt Proofs.Struct_proofs.
Import ListNotations.
Local Open Scope Z_scope.

Record case := mkCase {
  c_val : val; c_class : nat; c_bytes : list N;
  c_decoded : val; c_dec_ok : bool;
  c_reenc_equal : bool; c_gz_ok : bool; c_cp_ok : bool;
  c_schema : list (list N);
  c_in_domain : bool }.

(* ---- tokens ---- *)
Definition tl_ {A} (f : A -> list Z) (l : list A) : list Z := Z.of_nat (length l) :: flat_map f l.
Definition ttext (t : text) : list Z := Z.of_nat (length t) :: t.
Definition tstr (s : string) : list Z := ttext (cps_of_string s).
Definition tb (b : bool) : Z := if b then 1 else 0.

Definition tok_leaf (l : leaf) : list Z :=
  match l with
  | LvStr t => 1 :: ttext t
  | LvInt z => [2; z]
  | LvBool b => [3; tb b]
  | LvF dp x => [4; Z.of_nat dp; fnorm x]
  | LvFg x _ => [5; fnorm x]
  | LvDur d => [6; d]
  | LvLapDate t => [7; t]
  | LvFixDate t => [8; t]
  | LvCoord a b => [9; a; b]
  | LvAltCoord a b c => [10; a; b; c]
  | LvPos d p i => [11; d; p; tb i]
  | LvRel a o => [12; a; o]
  | LvInter l => 13 :: tl_ (fun '(d, x) => [d; x]) l
  | LvGear n r => [14; n; r]
  | LvTyre w p sr sz => [15; w; p; sz] ++ ttext sr
  | LvTags l => 16 :: tl_ ttext l
  | LvThresh z => [17; z]
  | LvSync d => [18; d]
  end.

Fixpoint tok_val (v : val) : list Z :=
  match v with
  | VLeaf l => 100 :: tok_leaf l
  | VStruct fields =>
      101 :: Z.of_nat (length fields) ::
      flat_map (fun '(n, m, f) =>
                  tstr n ++
                  match f with
                  | FOne v' => 200 :: tok_val v'
                  | FPtr None => [201]
                  | FPtr (Some v') => 202 :: tok_val v'
                  | FMany l => 203 :: Z.of_nat (length l) :: flat_map tok_val l
                  end) fields
  end.

Fixpoint tok_tree (t : tree) : list Z :=
  match t with
  | TText s => 300 :: ttext s
  | TElem n a kids => 301 :: tstr n ++ tl_ (fun '(k, v) => tstr k ++ tstr v) a ++ Z.of_nat (length kids) :: flat_map tok_tree kids
  end.

Fixpoint zeq (a b : list Z) : bool :=
  match a, b with
  | [], [] => true
  | x :: a', y :: b' => (x =? y) && zeq a' b'
  | _, _ => false
  end.
Fixpoint neq (a b : list N) : bool :=
  match a, b with
  | [], [] => true
  | x :: a', y :: b' => (x =? y)%N && neq a' b'
  | _, _ => false
  end.

Fixpoint clean_tree (t : tree) : tree :=
  match t with
  | TText s => TText (clean_text s)
  | TElem n a kids => TElem n a (map clean_tree kids)
  end.
(* empty text nodes do not exist in a parsed document *)
Fixpoint drop_empty (t : tree) : tree :=
  match t with
  | TText s => TText s
  | TElem n a kids => TElem n a (filter (fun k => match k with TText [] => false | _ => true end) (map drop_empty kids))
  end.

Definition schema_ok (c : case) : bool :=
  (Nat.eqb (length (c_schema c)) (length expected_schema)) &&
  forallb (fun '(a, b) => String.eqb (s_of_bytes a) b) (combine (c_schema c) expected_schema).

(* the strict reader accepts the bytes written and recovers exactly the intended tree *)
Fixpoint has_sub (p t : text) : bool :=
  match t with
  | [] => match p with [] => true | _ => false end
  | _ :: r => match starts p t with Some _ => true | None => has_sub p r end
  end.

Definition wellformed_as (v : val) (c : case) : bool :=
  match utf8_decode (S (length (c_bytes c))) (c_bytes c) [] with
  | Ok doc =>
    (* tabs and line feeds must be written literally, not as numeric entities *)
    if has_sub (ent "&#x9;") doc || has_sub (ent "&#xA;") doc || has_sub (ent "&#9;") doc || has_sub (ent "&#10;") doc then false else
    match lex doc with
              | Ok t => zeq (tok_tree t) (tok_tree (tidy (clean_tree (drop_empty (root_tree v)))))
              | _ => false
              end
  | _ => false
  end.


Definition wellformed (c : case) : bool := wellformed_as (c_val c) c.

(* ---- the property's own relation: decode (encode v) is v up to the format's stated precision
   (less than one unit of the last printed digit: 10 ms, 1 s for lap dates, 10^-dp for floats) ---- *)
Definition close_f (dp : nat) (x y : f64) : bool :=
  let tol := f_of_ratio 1001 (1000 * 10 ^ Z.of_nat dp) in
  (fnorm x =? fnorm y) || feq x y || (fle (fsub x y) tol && fle (fsub y x) tol).
Definition close_z (u a b : Z) : bool := Z.abs (a - b) <? u.
Definition exact_leaf (l l' : leaf) : bool :=
  match quant_leaf l with Ok q => zeq (tok_leaf q) (tok_leaf l') | _ => false end.
Definition close_leaf (l l' : leaf) : bool :=
  match l, l' with
  | LvF dp x, LvF dp' x' => Nat.eqb dp dp' && close_f dp x x'
  | LvDur d, LvDur d' => close_z 10000000 d d'
  | LvSync d, LvSync d' => (d <? 0) || close_z 10000000 d d'   (* a negative offset is outside C01's domain (non-negative durations): the reader takes -12.35 for -12 s + 0.35 s, which no property speaks about *)
  | LvLapDate t, LvLapDate t' => close_z 1000000000 t t'
  | LvFixDate t, LvFixDate t' => close_z 10000000 t t'
  | LvCoord a b, LvCoord a' b' => close_f 8 a a' && close_f 8 b b'
  | LvAltCoord a b c, LvAltCoord a' b' c' => close_f 8 a a' && close_f 8 b b' && close_f 1 c c'
  | LvRel a o, LvRel a' o' => close_f 1 a a' && close_z 10000000 o o'
  | LvInter l1, LvInter l2 =>
      Nat.eqb (length l1) (length l2) &&
      forallb (fun '((d, x), (d', x')) => close_z 10000000 d d' && close_f 1 x x') (combine l1 l2)
  | LvGear n r, LvGear n' r' => (n =? n') && close_f 6 r r'
  | LvTyre w p sr sz, LvTyre w' p' sr' sz' => (w =? w') && (p =? p') && (sz =? sz') && zeq (clean_text sr) sr'
  | _, _ => exact_leaf l l'
  end.
Fixpoint close_val (v v' : val) : bool :=
  match v, v' with
  | VLeaf l, VLeaf l' => close_leaf l l'
  | VStruct fs, VStruct fs' =>
      (fix go (a b : list (string * mode * field)) : bool :=
         match a, b with
         | [], [] => true
         | (n, m, f) :: ra, (n', m', f') :: rb =>
             String.eqb n n' &&
             (match f, f' with
              | FOne x, FOne x' => close_val x x'
              | FPtr None, FPtr None => true
              | FPtr (Some x), FPtr (Some x') => close_val x x'
              | FMany l, FMany l' =>
                  (fix gol (p q : list val) : bool :=
                     match p, q with
                     | [], [] => true
                     | x :: p', y :: q' => close_val x y && gol p' q'
                     | _, _ => false
                     end) l l'
              | _, _ => false
              end) && go ra rb
         | _, _ => false
         end) fs fs'
  | _, _ => false
  end.


(* the value whose printed form the document is expected to be in the fallback of C13: the leaves
   the decoder read back (they carry the rounding the encoder chose), except a negative sync
   offset, which the reader does not take back as written *)
Fixpoint merge_val (v v' : val) : val :=
  match v, v' with
  | VLeaf l, VLeaf l' => VLeaf (match l with LvSync d => if d <? 0 then l else l' | _ => l' end)
  | VStruct fs, VStruct fs' =>
      VStruct ((fix go (a b : list (string * mode * field)) : list (string * mode * field) :=
         match a, b with
         | (n, m, f) :: ra, (_, _, f') :: rb =>
             (n, m, match f, f' with
                    | FOne x, FOne x' => FOne (merge_val x x')
                    | FPtr (Some x), FPtr (Some x') => FPtr (Some (merge_val x x'))
                    | FMany l, FMany l' =>
                        FMany ((fix gol (p q : list val) : list val :=
                                  match p, q with
                                  | x :: p', y :: q' => merge_val x y :: gol p' q'
                                  | _, _ => p
                                  end) l l')
                    | _, _ => f
                    end) :: go ra rb
         | _, _ => a
         end) fs fs')
  | _, _ => v
  end.

Definition check_c01 (c : case) : verdict :=
  match c_class c with
  | 2%nat | 3%nat => VV
  | cls =>
    if negb (c_in_domain c) then VO else
    if negb (Nat.eqb cls 0) then VV else
    let same := neq (enc (c_val c)) (c_bytes c) in
    let dec_match := match quant (c_val c) with
                     | Ok q => c_dec_ok c && zeq (tok_val q) (tok_val (c_decoded c))
                     | _ => false
                     end in
    let others := c_gz_ok c && c_cp_ok c && schema_ok c in
    if dec_match && others && c_reenc_equal c then (if same then VA else VS)
    (* not the model's bytes or value, but the relation the property states: same database up to
       the format's precision and an identical second encoding *)
    else if c_dec_ok c && close_val (c_val c) (c_decoded c) && others && c_reenc_equal c then VS
    else if dec_match && others && vanishing (c_val c) && same then VK
    else VV
  end.

Definition check_c13 (c : case) : verdict :=
  match c_class c with
  | 2%nat | 3%nat => VV
  | cls =>
    if negb (Nat.eqb cls 0) then VV else
    (* the hypothesis of C13_every_value_parses must hold of what the code is asked to write *)
    if negb (wf_val_b (c_val c)) then VV else
    let same := neq (enc (c_val c)) (c_bytes c) in
    if wellformed c && c_gz_ok c && schema_ok c then (if same then VA else VS)
    (* not the model's digits, but still a document in LapTimer's syntax: it is exactly the printed
       form of the value the decoder reads back, and that value is the original up to the format's
       precision (a different rounding of a leaf is C01's business, not C13's) *)
    else if c_dec_ok c && close_val (c_val c) (c_decoded c) && wellformed_as (merge_val (c_val c) (c_decoded c)) c && c_gz_ok c && schema_ok c then VS
    else VV
  end.

(* is the database inside the domain of C01_reencode_identical? *)
Definition hyp_c01 (c : case) : bool := val_ok_b (c_val c).
