(* Correspondence for the GoPro processor (C04, C05). *)
From Coq Require Import String Ascii List ZArith NArith Bool.
From TT Require Import Base.Outcome Base.Str Base.Verdict Gopro.Names Gopro.Process.
Import ListNotations.
Local Open Scope Z_scope.

Definition B := list N.

Inductive tpartb := BLit (s : B) | BName | BExt.

Record pcase := mkP {
  pc_source : B; pc_args : list B; pc_skip : list B; pc_tmpl : list tpartb; pc_outdir : B; pc_overwrite : bool;
  pc_plan : list (nat * nat);          (* kind number, occurrence *)
  pc_creates : bool;
  pc_listing : list (B * bool);
  pc_world : list (B * Z);
  pc_order : list B;
  (* observed *)
  pc_class : nat;                      (* 0 ok, 1 error, 2 panic, 3 timeout, 4 no files, 5 config error *)
  pc_files : list B;
  pc_events : list (list B * list B * bool);
  pc_final : list (B * Z) }.

Inductive case :=
| PCase (c : pcase)
| MCase (name : B) (r5 r10 : option (B * B))     (* (index, chapter) *)
| VCase (chapters : list B) (ok : bool).

Definition kind_of (n : nat) : kind :=
  match n with 0%nat => KCreateTemp | 1%nat => KWrite | 2%nat => KClose | 3%nat => KStat | 4%nat => KEncoder | _ => KChtimes end.

Definition s := s_of_bytes.

Definition cfg_of (c : pcase) : cfg :=
  mkCfg (s (pc_source c)) (map s (pc_args c)) (map s (pc_skip c))
        (map (fun t => match t with BLit x => TLit (s x) | BName => TName | BExt => TExt end) (pc_tmpl c))
        (s (pc_outdir c)) (pc_overwrite c).

Definition str_eqb_b (a : string) (b : B) : bool := String.eqb a (s b).
Fixpoint list_eqb {A C} (f : A -> C -> bool) (l : list A) (m : list C) : bool :=
  match l, m with
  | [], [] => true
  | x :: l', y :: m' => f x y && list_eqb f l' m'
  | _, _ => false
  end.

(* final worlds are compared as sets: every entry of one is in the other *)
Definition world_sub (w : world) (o : list (B * Z)) : bool :=
  forallb (fun f => existsb (fun '(p, m) => str_eqb_b (f_path f) p && (f_mtime f =? m)) o) w.
Definition world_sup (w : world) (o : list (B * Z)) : bool :=
  forallb (fun '(p, m) => existsb (fun f => str_eqb_b (f_path f) p && (f_mtime f =? m)) w) o.

Definition ev_eqb (e : enc_event) (o : list B * list B * bool) : bool :=
  let '(argv, concat, existed) := o in
  list_eqb str_eqb_b (e_argv e) argv && list_eqb str_eqb_b (e_concat e) concat && Bool.eqb (e_existed e) existed.

Definition check_p (c : pcase) : verdict :=
  match pc_class c with
  | 2%nat | 3%nat => VV
  | cls =>
    let w := map (fun '(p, m) => mkF (s p) m) (pc_world c) in
    let r := process (cfg_of c) (map (fun '(k, n) => (kind_of k, n)) (pc_plan c))
                     (if pc_creates c then EncCreates else EncNoCreate)
                     (map (fun '(p, d) => (s p, d)) (pc_listing c)) w (map s (pc_order c)) in
    match r with
    | PConfigError => if Nat.eqb cls 5 then VA else VV
    | PNoFiles => if Nat.eqb cls 4 then VA else VV
    | PDone files err st =>
      if Nat.eqb cls (if err then 1 else 0)
         && list_eqb str_eqb_b files (pc_files c)
         && list_eqb ev_eqb (s_events st) (pc_events c)
         && world_sub (s_world st) (pc_final c) && world_sup (s_world st) (pc_final c)
      then VA else VV
    end
  end.

Definition mres_eqb (m : option file) (o : option (B * B)) : bool :=
  match m, o with
  | None, None => true
  | Some f, Some (i, c) => str_eqb_b (findex f) i && str_eqb_b (fchapter f) c
  | _, _ => false
  end.

Definition check_case (c : case) : verdict :=
  match c with
  | PCase p => check_p p
  | MCase name r5 r10 =>
      if mres_eqb (match5 (s name)) r5 && mres_eqb (match10 (s name)) r10 then VA else VV
  | VCase chapters ok =>
      if Bool.eqb (validate (map (fun c => mkFile EmptyString (s c) EmptyString) chapters)) ok then VA else VV
  end.
