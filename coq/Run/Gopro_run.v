(* Correspondence for the GoPro processor (C04, C05). *)
From Coq Require Import String Ascii List ZArith NArith Bool.
From TT Require Import Base.Outcome Base.Str Base.Verdict Gopro.Names Gopro.Process.
Import ListNotations.
Local Open Scope Z_scope.

Definition B := list N.

Inductive tpartb := BLit (s : B) | BName | BExt.

Record pcase := mkP {
  pc_source : B; pc_args : list B; pc_skip : list B; pc_tmpl : list tpartb; pc_outdir : B; pc_overwrite : bool;
  pc_plan : list (nat * nat);          (* kind number, occurrence *)
  pc_creates : bool;
  pc_listing : list (B * bool);
  pc_world : list (B * Z);
  pc_order : list B;
  (* observed *)
  pc_class : nat;                      (* 0 ok, 1 error, 2 panic, 3 timeout, 4 no files, 5 config error *)
  pc_files : list B;
  pc_events : list (list B * list B * bool);
  pc_final : list (B * Z) }.

Inductive case :=
| PCase (c : pcase)
| MCase (name : B) (r5 r10 : option (B * B))     (* (index, chapter) *)
| VCase (chapters : list B) (ok : bool).

Definition kind_of (n : nat) : kind :=
  match n with 0%nat => KCreateTemp | 1%nat => KWrite | 2%nat => KClose | 3%nat => KStat | 4%nat => KEncoder | _ => KChtimes end.

Definition s := s_of_bytes.

Definition cfg_of (c : pcase) : cfg :=
  mkCfg (s (pc_source c)) (map s (pc_args c)) (map s (pc_skip c))
        (map (fun t => match t with BLit x => TLit (s x) | BName => TName | BExt => TExt end) (pc_tmpl c))
        (s (pc_outdir c)) (pc_overwrite c).

Definition str_eqb_b (a : string) (b : B) : bool := String.eqb a (s b).
Fixpoint list_eqb {A C} (f : A -> C -> bool) (l : list A) (m : list C) : bool :=
  match l, m with
  | [], [] => true
  | x :: l', y :: m' => f x y && list_eqb f l' m'
  | _, _ => false
  end.

(* final worlds are compared as sets: every entry of one is in the other *)
Definition world_sub (w : world) (o : list (B * Z)) : bool :=
  forallb (fun f => existsb (fun '(p, m) => str_eqb_b (f_path f) p && (f_mtime f =? m)) o) w.
Definition world_sup (w : world) (o : list (B * Z)) : bool :=
  forallb (fun '(p, m) => existsb (fun f => str_eqb_b (f_path f) p && (f_mtime f =? m)) w) o.

Definition ev_eqb (e : enc_event) (o : list B * list B * bool) : bool :=
  let '(argv, concat, existed) := o in
  list_eqb str_eqb_b (e_argv e) argv && list_eqb str_eqb_b (e_concat e) concat && Bool.eqb (e_existed e) existed.

(* ---- the property's own clauses (C04 and C05) evaluated on what was observed, for runs that
   differ from the model (another failure policy, fewer stats, ...):
   - every encoder run is for one group of the listing, validated and not skipped, with the
     concat list holding each chapter once in ascending order as source paths, the configured
     arguments unchanged except for the slot after -i, and the output path last;
   - at most one run per video; never over an existing output unless overwriting;
   - on return no temporary file is left and every source file is there with its time;
   - every listed path is the output of a run and carries its first chapter's time; a run without
     error lists every output it produced. ---- *)
Definition lines_of (c : cfg) (chapters : list file) : list string :=
  map (fun f => "file '" ++ join (c_source c) (fname f) ++ "'")%string chapters.
Definition slist_eqb (a b : list string) : bool := list_eqb String.eqb a b.
Definition is_tmp (p : string) : bool := String.prefix "tmp/" p.
Definition event_group (c : cfg) (g : groups) (concat : list string) : option (string * list file) :=
  find (fun kc => slist_eqb (lines_of c (snd kc)) concat) g.
Definition event_ok (c : cfg) (idx : Z) (g : groups) (ev : list string * list string * bool) : bool :=
  let '(argv, concat, existed) := ev in
  match event_group c g concat with
  | Some (_, (first :: _) as chapters) =>
      validate chapters && negb (str_in (fname first) (c_skip c)) &&
      (let t := nth (Z.to_nat idx) argv ""%string in
       is_tmp t && slist_eqb argv (app (set_nth (Z.to_nat idx) t (c_args c)) [output_path c (fname first)])) &&
      (negb existed || c_overwrite c)
  | _ => false
  end.
Fixpoint nodup_s (l : list string) : bool :=
  match l with [] => true | x :: r => negb (str_in x r) && nodup_s r end.
Definition prop_ok (c : pcase) : bool :=
  let cf := cfg_of c in
  match input_index (c_args cf) with
  | None => false
  | Some idx =>
    let g := file_sets (map (fun '(p, d) => (s p, d)) (pc_listing c)) in
    let evs := map (fun '(a, b, e) => (map s a, map s b, e)) (pc_events c) in
    let final := map (fun '(p, m) => (s p, m)) (pc_final c) in
    let init := map (fun '(p, m) => (s p, m)) (pc_world c) in
    let outs := map (fun '(argv, _, _) => last argv ""%string) evs in
    let keys := map (fun '(_, concat, _) => match event_group cf g concat with Some (k, _) => k | None => ""%string end) evs in
    let mtime_of (w : list (string * Z)) (p : string) := option_map snd (find (fun e => String.eqb (fst e) p) w) in
    forallb (event_ok cf idx g) evs && nodup_s keys &&
    forallb (fun e => negb (is_tmp (fst e))) final &&
    (* sources: every initial file that is not the output of a run is unchanged *)
    forallb (fun e => match mtime_of final (fst e) with
                      | Some m => (m =? snd e) || str_in (fst e) outs    (* an output written over a file that was there *)
                      | None => false                                     (* nothing that was there may be gone *)
                      end) init &&
    (* a group that is not contiguous from 00/01 or has duplicates makes processing report an error *)
    (forallb (fun kc => validate (snd kc)) g || Nat.eqb (pc_class c) 1) &&
    (* listed paths are outputs carrying the first chapter's time *)
    forallb (fun f =>
               existsb (fun '(argv, concat, _) =>
                          String.eqb (last argv ""%string) f &&
                          match event_group cf g concat with
                          | Some (_, first :: _) =>
                              (* (a template that names the first chapter itself makes the output
                                 overwrite its own source: nothing can be demanded of its time) *)
                              String.eqb f (join (c_source cf) (fname first)) ||
                              match mtime_of init (join (c_source cf) (fname first)), mtime_of final f with
                              | Some a, Some b => a =? b
                              | _, _ => false
                              end
                          | _ => false
                          end) evs) (map s (pc_files c)) &&
    nodup_s (map s (pc_files c)) &&
    (* without an error every output that now carries its first chapter's time is listed *)
    (negb (Nat.eqb (pc_class c) 0) ||
     forallb (fun '(argv, concat, _) =>
                let out := last argv ""%string in
                match event_group cf g concat with
                | Some (_, first :: _) =>
                    match mtime_of init (join (c_source cf) (fname first)), mtime_of final out with
                    | Some a, Some b => negb (a =? b) || str_in out (map s (pc_files c))
                    | _, _ => true
                    end
                | _ => false
                end) evs)
  end.

Definition check_p (c : pcase) : verdict :=
  match pc_class c with
  | 2%nat | 3%nat => VV
  | cls =>
    let w := map (fun '(p, m) => mkF (s p) m) (pc_world c) in
    let r := process (cfg_of c) (map (fun '(k, n) => (kind_of k, n)) (pc_plan c))
                     (if pc_creates c then EncCreates else EncNoCreate)
                     (map (fun '(p, d) => (s p, d)) (pc_listing c)) w (map s (pc_order c)) in
    match r with
    | PConfigError => if Nat.eqb cls 5 then VA else VV
    | PNoFiles => if Nat.eqb cls 4 then VA else VV
    | PDone files err st =>
      if Nat.eqb cls (if err then 1 else 0)
         && list_eqb str_eqb_b files (pc_files c)
         && list_eqb ev_eqb (s_events st) (pc_events c)
         && world_sub (s_world st) (pc_final c) && world_sup (s_world st) (pc_final c)
      then VA
      else if (Nat.eqb cls 0 || Nat.eqb cls 1) && prop_ok c then VS
      else VV
    end
  end.

Definition mres_eqb (m : option file) (o : option (B * B)) : bool :=
  match m, o with
  | None, None => true
  | Some f, Some (i, c) => str_eqb_b (findex f) i && str_eqb_b (fchapter f) c
  | _, _ => false
  end.

Definition check_case (c : case) : verdict :=
  match c with
  | PCase p => check_p p
  | MCase name r5 r10 =>
      if mres_eqb (match5 (s name)) r5 && mres_eqb (match10 (s name)) r10 then VA else VV
  | VCase chapters ok =>
      if Bool.eqb (validate (map (fun c => mkFile EmptyString (s c) EmptyString) chapters)) ok then VA else VV
  end.
