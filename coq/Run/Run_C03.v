From TT Require Import Base.Verdict Run.Conv_run.
Definition case := Conv_run.case.
Definition check_case := check (mkProj true false false).
