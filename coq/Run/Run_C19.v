(* C19: Intersect's decision on the azimuths IntersectExt reports is compared with the model;
   projection round trips and "the crossing lies on both geodesics" are implementation-side
   tests (no model of Karney's solver exists here). *)
From Coq Require Import List NArith Bool.
From Coq Require Import ZArith.
From TT Require Import Base.Verdict Base.F64 Geo.Heading.
Import ListNotations.
Record case := mkCase { c_a1 : Z; c_a2 : Z; c_b1 : Z; c_b2 : Z;   (* the four azimuths IntersectExt reports, as bits *)
                        c_err : bool;
                        c_inside_expected : nat;   (* 0 outside, 1 inside both, 2 not applicable *)
                        c_checks : list (list N * bool);
                        c_sincos45 : bool  (* the input hands the geodesic dependency an angle of exactly 45 + 180k degrees: class of known finding D24 *) }.
Definition check_case (c : case) : verdict :=
  let model_ok := bounded_ok (c_a1 c) (c_a2 c) (c_b1 c) (c_b2 c) in
  let tests := forallb snd (c_checks c) in
  let geo := match c_inside_expected c with
             | 0%nat => c_err c
             | 1%nat => negb (c_err c)
             | _ => true
             end in
  if negb tests || negb geo then (if c_sincos45 c then VK else VV)
  else if Bool.eqb model_ok (negb (c_err c)) then VA else VS.
