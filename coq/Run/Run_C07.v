From TT Require Import Base.Verdict Gpmf.Klv Run.Gpmf_run.
Definition case := Gpmf_run.case.
Definition mkCase := Gpmf_run.mkCase.
(* C07: every decoded value (scaled or not), sample layout and count; rejection of bad payloads *)
Definition check_case := check_c07.
