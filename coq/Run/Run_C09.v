From Coq Require Import List.
From TT Require Import Base.Verdict Gpmf.Klv Run.Gpmf_run Run.Run_C08.
(* C09: the call returns (ok or error): a crash or hang of the implementation is a violation
   whatever the model says; an ok/error disagreement with the model still meets the property
   (verdict S: the correspondence no longer checks).
   R: arbitrary bytes given to the reader; D: hostile sample tables / payloads inside an
   otherwise valid MP4 given to the decoder. *)
Inductive case := R (c : Gpmf_run.case) | D (c : Run_C08.case).
Definition check_case (c : case) : verdict :=
  match c with
  | R r => check (mkProj true true false false) false r
  | D d => Run_C08.check_case d
  end.
