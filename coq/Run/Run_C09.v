From TT Require Import Base.Verdict Gpmf.Klv Run.Gpmf_run.
Definition case := Gpmf_run.case.
Definition mkCase := Gpmf_run.mkCase.
(* C09: the call returns (ok or error): a crash or hang of the implementation is a violation
   whatever the model says; an ok/error disagreement with the model still meets the property
   (verdict S: the correspondence no longer checks). *)
Definition check_case := check (mkProj true true false false) false.
