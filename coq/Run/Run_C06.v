From TT Require Import Base.Verdict Gpmf.Klv Run.Gpmf_run.
Definition case := Gpmf_run.case.
Definition mkCase := Gpmf_run.mkCase.
(* C06: keys, types, sizes, counts, nesting, order, every value; error/ok class is part of the
   property (a truncated stream must be an error, a well-formed one must be read). *)
Definition check_case := check (mkProj true true false false) true.
