(* Shared correspondence for the TrackAddict decoder (C02, C15, C10): the harness hands over
   the log text, the outcome class of Decoder.Decode and the dumped session. *)
From Coq Require Import String Ascii List ZArith NArith Bool.
From TT Require Import Base.Outcome Base.Str Base.F64 Base.GoParse Base.Verdict
     Trackaddict.Units Trackaddict.Columns Trackaddict.Model.
Import ListNotations.
Local Open Scope Z_scope.

Record obs := mkObs {
  ob_laps : list lap;
  ob_meta : list (list N * list N);    (* key-sorted *)
  ob_vehicle : list N;
  ob_endpoint : Z * Z * Z }.

Record case := mkCase { c_text : list N; c_class : nat; c_obs : obs }.

Definition tb (b : bool) : Z := if b then 1 else 0.
Definition topt (o : option Z) : list Z := match o with None => [0] | Some v => [1; v] end.
Definition tok_gps (g : gps) : list Z :=
  [tb (g_update g); g_delay g; g_lat g; g_lon g; g_alt g; g_acc g; g_head g].
Definition tok_obd (o : option obd) : list Z :=
  match o with
  | None => [0]
  | Some o => [1; tb (o_update o)] ++ topt (o_speed o) ++ topt (o_rpm o) ++ topt (o_throttle o)
              ++ topt (o_coolant o) ++ topt (o_intake o) ++ topt (o_manifold o)
  end.
Definition tok_accel (a : option accel) : list Z :=
  match a with None => [0] | Some a => [1; a_x a; a_y a; a_z a] end.
Definition tok_record (r : record) : list Z :=
  [r_now r; r_time r; r_lap r; r_pred r; r_off r] ++ tok_gps (r_gps r) ++ [r_speed r]
  ++ tok_accel (r_accel r) ++ [tb (r_brake r); r_baro r; r_palt r] ++ tok_obd (r_obd r).
Definition tok_lap (l : lap) : list Z :=
  [lap_dur l; lap_num l; Z.of_nat (length (lap_recs l))] ++ flat_map tok_record (lap_recs l).
Definition tok_bytes (b : list N) : list Z := Z.of_nat (length b) :: map Z.of_N b.

Fixpoint bytes_leb (a b : list N) : bool :=
  match a, b with
  | [], _ => true
  | _ :: _, [] => false
  | x :: a', y :: b' => if (x <? y)%N then true else if (y <? x)%N then false else bytes_leb a' b'
  end.
Fixpoint ins_kv (kv : list N * list N) (l : list (list N * list N)) :=
  match l with
  | [] => [kv]
  | h :: t => if bytes_leb (fst kv) (fst h) then kv :: l else h :: ins_kv kv t
  end.
Definition sort_kv l := fold_right ins_kv [] l.

Definition tok_obs (o : obs) : list Z :=
  Z.of_nat (length (ob_laps o)) :: flat_map tok_lap (ob_laps o)
  ++ Z.of_nat (length (ob_meta o)) :: flat_map (fun kv => tok_bytes (fst kv) ++ tok_bytes (snd kv)) (ob_meta o)
  ++ tok_bytes (ob_vehicle o)
  ++ (let '(a, b, c) := ob_endpoint o in [a; b; c]).

Definition obs_of_session (s : session) : obs :=
  mkObs (s_laps s)
        (sort_kv (map (fun kv => (bytes_of_s (fst kv), bytes_of_s (snd kv))) (s_meta s)))
        (bytes_of_s (s_vehicle s)) (s_endpoint s).

Fixpoint zlist_eqb (a b : list Z) : bool :=
  match a, b with
  | [], [] => true
  | x :: a', y :: b' => (x =? y) && zlist_eqb a' b'
  | _, _ => false
  end.

(* strict: the ok/error class is itself part of the property (C02 on well-formed logs, C15's
   "a bad row is an error"); the projection is the whole session *)
Definition check (c : case) : verdict :=
  let m := decode (s_of_bytes (c_text c)) in
  if is_unmodelled m then
    (match c_class c with 2%nat | 3%nat => VV | _ => VO end)
  else
  match c_class c with
  | 2%nat | 3%nat => VV
  | cls =>
    match m with
    | Ok s => if Nat.eqb cls 0 && zlist_eqb (tok_obs (obs_of_session s)) (tok_obs (c_obs c)) then VA else VV
    | Err _ => if Nat.eqb cls 1 then VA else VV
    | _ => VK
    end
  end.
