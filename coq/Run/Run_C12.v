From TT Require Import Base.Verdict Run.Conv_run.
Definition case := Conv_run.case.
(* C12: every lap date and fix date *)
Definition check_case := check (mkProj false true false).
