(* C08 (and the decoder half of C09): synthesised MP4 -> Decoder.Decode. *)
From Coq Require Import String Ascii List ZArith NArith Bool.
From TT Require Import Base.Outcome Base.Str Base.F64 Base.Verdict Gpmf.Klv Gpmf.Walk Gpmf.Mp4 Run.Gpmf_run.
Import ListNotations.
Local Open Scope Z_scope.

Record case := mkCase {
  c_file : bytes;
  c_traks : list (bytes * bytes * Z * tables);
  c_valid : bool;                       (* the layout is one of the property's valid layouts *)
  c_class : nat;
  c_tree : list elem;
  c_offsets : list (bytes * list Z) }.

Definition tok_offs (l : list (bytes * list Z)) : list Z :=
  tok_list (fun ko => tok_bytes (fst ko) ++ tok_list (fun v => [v]) (snd ko)) l.


(* The property gives the offset as start + i*(end-start)/n without saying how the division is
   rounded to nanoseconds: the code's i * ((end-start)/n) and floor (i*(end-start)/n) differ by
   up to n ns.  Per sensor element: offsets that differ from the model's by less than a microsecond,
   start exactly at the sample's start (i = 0) and never decrease still meet it (S). *)
Fixpoint nondecr (l : list Z) : bool :=
  match l with a :: ((b :: _) as r) => (a <=? b) && nondecr r | _ => true end.
Definition offs_close (m i : list (bytes * list Z)) : bool :=
  Nat.eqb (length m) (length i) &&
  forallb (fun '((k, a), (k', b)) =>
             zlist_eqb (tok_bytes k) (tok_bytes k') && Nat.eqb (length a) (length b) &&
             forallb (fun '(x, y) => Z.abs (x - y) <? 1000) (combine a b) &&
             nondecr b && match a, b with x :: _, y :: _ => x =? y | _, _ => true end)
          (combine m i).

Definition check_case (c : case) : verdict :=
  let traks := map (fun '(h, n, ts, tb) => mkTrak (s_of_bytes h) (s_of_bytes n) ts tb) (c_traks c) in
  match c_class c with
  | 2%nat | 3%nat => VV
  | cls =>
    match decode (c_file c) traks with
    | Ok (t, offs) =>
      if Nat.eqb cls 0 then
        if zlist_eqb (tok_tree (mkProj true true false false) t) (tok_tree (mkProj true true false false) (c_tree c))
           && zlist_eqb (tok_offs offs) (tok_offs (c_offsets c))
        then VA
        else if zlist_eqb (tok_tree (mkProj true true false false) t) (tok_tree (mkProj true true false false) (c_tree c))
                && offs_close offs (c_offsets c)
        then VS else VV
      else if c_valid c then VV else VS
    | Err _ => if Nat.eqb cls 1 then VA else if c_valid c then VV else VS
    | _ => VK
    end
  end.
