(* C10 correspondence: one case = (header of the column under test, cell text, what the real
   decoder stored in the column's target field).  Model: Columns.col_of_header + decode_cell.
   Spec (the property): the stored value is the metric equivalent of the cell, within the
   conversion constant's precision (1e-5 relative + 1e-9 absolute against the exact
   international definitions), and a metric column stores the parsed value itself. *)
From Coq Require Import String List ZArith QArith Qabs Bool.
From Flocq Require Import Core.
From Flocq.IEEE754 Require Import BinarySingleNaN Binary Bits.
From TT Require Import Base.Outcome Base.Str Base.F64 Base.GoParse Base.Verdict
     Trackaddict.Units Trackaddict.Columns Trackaddict.Model Run.Ta_run.
Import ListNotations.
Local Open Scope Z_scope.

(* impl observation: class 0 = value stored (bits), 1 = decoder error, 2 = panic, 3 = timeout,
   4 = field absent (nil pointer) *)
Record case1 := mkCase { c_hdr : list N; c_cell : list N; c_class : nat; c_bits : Z }.
Inductive case := One (c : case1) | Mixed (c : Ta_run.case).

(* exact value of a finite binary64 as a rational *)
Definition q_of_f64 (a : f64) : option Q :=
  match of_bits a with
  | Binary.B754_zero _ _ _ => Some 0%Q
  | Binary.B754_finite _ _ s m e _ =>
      let v := if 0 <=? e then inject_Z (Zpos m * 2 ^ e) else (Zpos m # Z.to_pos (2 ^ (- e))) in
      Some (if s then Qopp v else v)
  | _ => None
  end.

(* the exact imperial -> metric map on rationals (international definitions) *)
Definition true_conv (c : conv) (x : Q) : Q :=
  match c with
  | Ft2M => x * (3048 # 10000)
  | Mi2Km => x * (1609344 # 1000000)
  | Psi2Kpa => x * (6894757293168 # 1000000000000)
  | F2C => (x - 32) * (5 # 9)
  end.
Definition true_convs (cs : list conv) (x : Q) : Q := fold_left (fun v c => true_conv c v) cs x.

Definition within_precision (impl truth : Q) : bool :=
  Qle_bool (Qabs (impl - truth)) ((1 # 100000) * Qabs truth + (1 # 1000000000)).

Definition check_one (c : case1) : verdict :=
  let hdr := s_of_bytes (c_hdr c) in
  let cell := s_of_bytes (c_cell c) in
  match col_of_header hdr with
  | Some (CFloat f cs) =>
    let m := decode_cell cs cell in
    if is_unmodelled m then VO else
    match m, c_class c with
    | Ok v, O => if v =? c_bits c then VA else
        (* differs from the model: does it still satisfy the property? *)
        match parse_float cell with
        | Ok x => match q_of_f64 x, q_of_f64 (c_bits c) with
                  | Some qx, Some qi =>
                      match cs with
                      | [] => VV       (* metric column must store the parsed value itself *)
                      | _ => if within_precision qi (true_convs cs qx) then VS else VV
                      end
                  | _, _ => VV
                  end
        | _ => VV
        end
    | Err _, 1%nat => VA
    | _, _ => VV
    end
  | _ => VO
  end.

(* mixed layouts: one column per quantity, imperial or metric at random, in random order,
   decoded by the full decoder model; every stored field must agree *)
(* the dual-unit fields of a session compared within the constant's precision (2e-5 relative
   between two implementations that are each within 1e-5 of the exact definitions), every
   other field exactly *)
Definition fabs (a : f64) : f64 := if flt a fzero then fneg a else a.
Definition close_conv (a b : f64) : bool :=
  (fnorm a =? fnorm b) ||
  fle (fabs (fsub a b)) (fadd (f_of_ratio 1 500000000) (fmul (f_of_ratio 1 50000) (fabs a))).
Definition close_opt (a b : option f64) : bool :=
  match a, b with None, None => true | Some x, Some y => close_conv x y | _, _ => false end.
Definition blank_obd (o : option obd) : option obd :=
  match o with None => None | Some o => Some (mkObd (o_update o) None (o_rpm o) (o_throttle o) None None None) end.
Definition blank_record (r : record) : record :=
  mkRecord (r_now r) (r_time r) (r_lap r) (r_pred r) (r_off r)
           (let g := r_gps r in mkGps (g_update g) (g_delay g) (g_lat g) (g_lon g) 0 0 (g_head g))
           0 (r_accel r) (r_brake r) 0 0 (blank_obd (r_obd r)).
Definition blank_obs (o : obs) : obs :=
  mkObs (map (fun l => mkLap (lap_dur l) (lap_num l) (map blank_record (lap_recs l))) (ob_laps o))
        (ob_meta o) (ob_vehicle o) (ob_endpoint o).
Definition duals (r : record) : list (option f64) :=
  [Some (r_speed r); Some (g_alt (r_gps r)); Some (g_acc (r_gps r)); Some (r_baro r); Some (r_palt r)] ++
  match r_obd r with None => [] | Some o => [o_speed o; o_coolant o; o_intake o; o_manifold o] end.
Definition obs_duals (o : obs) : list (option f64) := flat_map (fun l => flat_map duals (lap_recs l)) (ob_laps o).
Definition duals_close (a b : obs) : bool :=
  let x := obs_duals a in let y := obs_duals b in
  Nat.eqb (length x) (length y) && forallb (fun '(p, q) => close_opt p q) (combine x y).

Definition check_mixed (c : Ta_run.case) : verdict :=
  match Ta_run.check c with
  | VV => match Ta_run.c_class c, decode (s_of_bytes (Ta_run.c_text c)) with
          | 0%nat, Ok s =>
              let m := obs_of_session s in
              if zlist_eqb (tok_obs (blank_obs m)) (tok_obs (blank_obs (Ta_run.c_obs c))) && duals_close m (Ta_run.c_obs c)
              then VS else VV
          | _, _ => VV
          end
  | v => v
  end.

Definition check_case (c : case) : verdict :=
  match c with One c1 => check_one c1 | Mixed c2 => check_mixed c2 end.
