(* C10 correspondence: one case = (header of the column under test, cell text, what the real
   decoder stored in the column's target field).  Model: Columns.col_of_header + decode_cell.
   Spec (the property): the stored value is the metric equivalent of the cell, within the
   conversion constant's precision (1e-5 relative + 1e-9 absolute against the exact
   international definitions), and a metric column stores the parsed value itself. *)
From Coq Require Import String List ZArith QArith Qabs Bool.
From Flocq Require Import Core.
From Flocq.IEEE754 Require Import BinarySingleNaN Binary Bits.
From TT Require Import Base.Outcome Base.Str Base.F64 Base.GoParse Base.Verdict
     Trackaddict.Units Trackaddict.Columns Trackaddict.Model Run.Ta_run.
Import ListNotations.
Local Open Scope Z_scope.

(* impl observation: class 0 = value stored (bits), 1 = decoder error, 2 = panic, 3 = timeout,
   4 = field absent (nil pointer) *)
Record case1 := mkCase { c_hdr : list N; c_cell : list N; c_class : nat; c_bits : Z }.
Inductive case := One (c : case1) | Mixed (c : Ta_run.case).

(* exact value of a finite binary64 as a rational *)
Definition q_of_f64 (a : f64) : option Q :=
  match of_bits a with
  | Binary.B754_zero _ _ _ => Some 0%Q
  | Binary.B754_finite _ _ s m e _ =>
      let v := if 0 <=? e then inject_Z (Zpos m * 2 ^ e) else (Zpos m # Z.to_pos (2 ^ (- e))) in
      Some (if s then Qopp v else v)
  | _ => None
  end.

(* the exact imperial -> metric map on rationals (international definitions) *)
Definition true_conv (c : conv) (x : Q) : Q :=
  match c with
  | Ft2M => x * (3048 # 10000)
  | Mi2Km => x * (1609344 # 1000000)
  | Psi2Kpa => x * (6894757293168 # 1000000000000)
  | F2C => (x - 32) * (5 # 9)
  end.
Definition true_convs (cs : list conv) (x : Q) : Q := fold_left (fun v c => true_conv c v) cs x.

Definition within_precision (impl truth : Q) : bool :=
  Qle_bool (Qabs (impl - truth)) ((1 # 100000) * Qabs truth + (1 # 1000000000)).

Definition check_one (c : case1) : verdict :=
  let hdr := s_of_bytes (c_hdr c) in
  let cell := s_of_bytes (c_cell c) in
  match col_of_header hdr with
  | Some (CFloat f cs) =>
    let m := decode_cell cs cell in
    if is_unmodelled m then VO else
    match m, c_class c with
    | Ok v, O => if v =? c_bits c then VA else
        (* differs from the model: does it still satisfy the property? *)
        match parse_float cell with
        | Ok x => match q_of_f64 x, q_of_f64 (c_bits c) with
                  | Some qx, Some qi =>
                      match cs with
                      | [] => VV       (* metric column must store the parsed value itself *)
                      | _ => if within_precision qi (true_convs cs qx) then VS else VV
                      end
                  | _, _ => VV
                  end
        | _ => VV
        end
    | Err _, 1%nat => VA
    | _, _ => VV
    end
  | _ => VO
  end.

(* mixed layouts: one column per quantity, imperial or metric at random, in random order,
   decoded by the full decoder model; every stored field must agree *)
Definition check_case (c : case) : verdict :=
  match c with One c1 => check_one c1 | Mixed c2 => Ta_run.check c2 end.
