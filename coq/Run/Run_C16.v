From TT Require Import Base.Verdict Gpmf.Klv Run.Gpmf_run.
Definition case := Gpmf_run.case.
Definition mkCase := Gpmf_run.mkCase.
(* C16: the metadata exposed by sensor elements (keys and values); structure only to align *)
Definition check_case := check_c16.
