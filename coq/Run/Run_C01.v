From TT Require Import Base.Verdict Run.Lt_run.
Definition case := Lt_run.case.
Definition check_case := check_c01.
Definition hyp_case := hyp_c01.
