(* C14 correspondence: the harness runs Encode against an output that fails from its k-th
   write (W = writes of the fault-free run) and reports: returned within the watchdog, error
   nil or not, filter goroutine still alive afterwards, output complete.  The model's answer
   is computed by exhaustive exploration of ALL interleavings of the LTS instantiated with a
   canonical chunking of W writes (the theorems say the answer does not depend on the
   chunking). *)
From Coq Require Import List Arith Bool ZArith.
From TT Require Import Base.Verdict Laptimer.Pipe Proofs.C14_proofs.
Import ListNotations.

Record case := mkCase {
  c_w : nat;            (* writes of the fault-free run *)
  c_k : option nat;     (* failing position *)
  c_gz : bool;
  c_returned : bool; c_err : bool; c_leak : bool; c_complete : bool }.

Definition canon (w : nat) (k : option nat) (gz : bool) : par :=
  if gz then
    let g := if Nat.leb 2 w then 1 else 0 in
    mkPar (if Nat.leb 1 w then 1 else 0) [[[w - 1 - g]]] [0] (Some g) k true
  else
    mkPar 1 (map (fun _ => [[1]]) (seq 0 (w - 2))) [if Nat.leb 2 w then 1 else 0] None k true.

Definition finals (p : par) : list st := filter is_final (explore p (mu p init) [init]).

Definition m_err (s : st) : bool := match m s with MRet e => e | _ => false end.

Definition check_case (cs : case) : verdict :=
  if negb (c_returned cs) || c_leak cs then VV else
  if Nat.ltb 7 (c_w cs) then
    (* large documents: the exploration is replaced by the theorem's prediction *)
    let expect_err := match c_k cs with Some k => Nat.ltb k (c_w cs) | None => false end in
    if Bool.eqb (c_err cs) expect_err && (c_err cs || c_complete cs) then VA else VV
  else
  let p := canon (c_w cs) (c_k cs) (c_gz cs) in
  let fs := finals p in
  let all_states := explore p (mu p init) [init] in
  if existsb (stuck p) all_states || existsb leaked all_states then VK else
  if forallb (fun s => Bool.eqb (m_err s) (c_err cs)) fs && (c_err cs || c_complete cs) then VA else VV.
