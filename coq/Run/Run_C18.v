(* C18: numeric accuracy is outside the reach of the proofs (DESIGN.md section 7); the harness
   compares the implementation with an independent vector great-circle computation and hands
   over named boolean verdicts.  This is a test, reported as such. *)
From Coq Require Import List NArith Bool.
From TT Require Import Base.Verdict.
Import ListNotations.
Record case := mkCase { c_checks : list (list N * bool) }.
Definition check_case (c : case) : verdict := if forallb snd (c_checks c) then VA else VV.
