From TT Require Import Base.Verdict Run.Gopro_run.
Definition case := Gopro_run.case.
Definition check_case := Gopro_run.check_case.
