(* Shared correspondence for the converter (C03, C11, C12): session + options + geodesic oracle
   in, the outcome class and the dumped LapTimer database out. *)
From Coq Require Import String Ascii List ZArith NArith Bool.
From TT Require Import Base.Outcome Base.Str Base.F64 Base.Verdict
     Trackaddict.Columns Trackaddict.Model Convert.Model.
Import ListNotations.
Local Open Scope Z_scope.

Record copts := mkCOpts { co_track : list N; co_vehicle : list N; co_tags : list (list N); co_note : list N;
                          co_diff : Z; co_posfix : Z; co_start : option Z; co_predict : nat }.

(* c_table: for predictors other than nil / PiecewiseLinear (co_predict >= 2) the harness fits a
   FRESH predictor of the configured type on every channel and lists (channel readings, x, value)
   for every query; the model then uses that oracle as the fitted predictor. *)
Record case := mkCase {
  c_opts : copts; c_vehicle : list N; c_laps : list lap; c_geod : list (list f64);
  c_table : list (list f64 * f64 * f64);
  c_geod_sane : bool;   (* every oracle distance agrees with the spherical great-circle distance to 1 % + 1 m *)
  c_sincos45 : bool;    (* some converted fix has a latitude of exactly 45 + 180k degrees (known finding D24) *)
  c_class : nat; c_db : list llap }.

Fixpoint flist_eqb (a b : list f64) : bool :=
  match a, b with
  | [], [] => true
  | x :: a', y :: b' => (x =? y) && flist_eqb a' b'
  | _, _ => false
  end.
Definition oracle_pred (table : list (list f64 * f64 * f64)) : predictor :=
  fun _ ys x =>
    match find (fun '(ys', x', _) => (x =? x') && flist_eqb ys ys') table with
    | Some (_, _, v) => v
    | None => nan_bits
    end.

Definition opts_of (c : copts) : opts :=
  mkOpts (s_of_bytes (co_track c)) (s_of_bytes (co_vehicle c)) (map s_of_bytes (co_tags c))
         (s_of_bytes (co_note c)) (co_diff c) (co_posfix c) (co_start c) (co_predict c).

Definition tb (b : bool) : Z := if b then 1 else 0.
Definition topt (o : option Z) : list Z := match o with None => [0] | Some v => [1; v] end.
Definition tstr (s : string) : list Z := Z.of_nat (String.length s) :: map Z.of_N (bytes_of_s s).

Record proj := mkProj { p_all : bool; p_dates : bool; p_obd : bool }.

Definition tok_obd (o : option obd_out) : list Z :=
  match o with
  | None => [0]
  | Some o => [1] ++ topt (oo_rpm o) ++ topt (oo_map o) ++ topt (oo_speed o) ++ topt (oo_throttle o)
              ++ topt (oo_coolant o) ++ topt (oo_iat o)
  end.
Definition tok_accel (a : option accel_out) : list Z :=
  match a with None => [0] | Some a => [1; ao_source a; ao_lateral a; ao_lineal a; ao_lat a; ao_lon a] end.

Definition tok_fix (p : proj) (f : lfix) : list Z :=
  (if p_all p then [f_id f; f_lat f; f_lon f; f_alt f; f_speed f; f_diff f; f_posfix f; tb (f_interp f); f_sats f;
                    f_dir f; f_hdop f; f_acc f; f_dist f; f_offset f] ++ tok_accel (f_accel f) else [])
  ++ (if p_all p || p_dates p then [f_date f] else [])
  ++ (if p_all p || p_obd p then tok_obd (f_obd f) else []).

Definition tok_lap (p : proj) (l : llap) : list Z :=
  (if p_all p then [l_id l; l_time l] ++ tstr (l_vehicle l) ++ tstr (l_track l)
                   ++ Z.of_nat (length (l_tags l)) :: flat_map tstr (l_tags l) ++ tstr (l_note l)
                   ++ [l_rectype l; l_overall l] else [])
  ++ (if p_all p || p_dates p then topt (l_date l) else [])
  ++ Z.of_nat (length (l_fixes l)) :: flat_map (tok_fix p) (l_fixes l).

Definition tok_db (p : proj) (db : list llap) : list Z :=
  Z.of_nat (length db) :: flat_map (tok_lap p) db.

Fixpoint zlist_eqb (a b : list Z) : bool :=
  match a, b with
  | [], [] => true
  | x :: a', y :: b' => (x =? y) && zlist_eqb a' b'
  | _, _ => false
  end.


(* C03 fixes the accumulated distance as a sum of reals, not the order or rounding of its
   float64 accumulation: a database that differs from the model's only in the last bits of the
   distances (1e-9 relative + 1 um; the lap's overall distance, printed to 0.1 m, by at most that
   step) still meets the property - the correspondence differs (S). *)
Definition fabs (a : f64) : f64 := if flt a fzero then fneg a else a.
Definition close_dist (a b : f64) : bool :=
  (a =? b) || fle (fabs (fsub a b)) (fadd (f_of_ratio 1 1000000) (fmul (f_of_ratio 1 1000000000) (fabs a))).
Definition close_overall (a b : f64) : bool := (a =? b) || fle (fabs (fsub a b)) (f_of_ratio 1001 10000).
Definition nodist_fix (f : lfix) : lfix :=
  mkFix (f_id f) (f_date f) (f_lat f) (f_lon f) (f_alt f) (f_speed f) (f_diff f) (f_posfix f) (f_interp f) (f_sats f)
        (f_dir f) (f_hdop f) (f_acc f) 0 (f_offset f) (f_accel f) (f_obd f).
Definition nodist_lap (l : llap) : llap :=
  mkLLap (l_id l) (l_date l) (l_time l) (l_vehicle l) (l_track l) (l_tags l) (l_note l) (l_rectype l) 0 (map nodist_fix (l_fixes l)).
Definition dists_close (a b : list llap) : bool :=
  Nat.eqb (length a) (length b) &&
  forallb (fun '(x, y) => close_overall (l_overall x) (l_overall y) &&
                          Nat.eqb (length (l_fixes x)) (length (l_fixes y)) &&
                          forallb (fun '(f, g) => close_dist (f_dist f) (f_dist g)) (combine (l_fixes x) (l_fixes y)))
          (combine a b).



(* "carried through at the output precision" does not fix the rounding rule at a tie (math.Round
   of the scaled value against the closest decimal): channels that differ from the model's by at
   most one unit of their printed precision still meet the property (S). *)
Definition close_dp (dp : Z) (a b : f64) : bool :=
  (a =? b) || fle (fabs (fsub a b)) (f_of_ratio 1001 (1000 * 10 ^ dp)).
Definition close_odp (dp : Z) (a b : option f64) : bool :=
  match a, b with None, None => true | Some x, Some y => close_dp dp x y | _, _ => false end.
Definition blank_o (a : option f64) : option f64 := match a with None => None | Some _ => Some 0 end.
Definition noround_fix (f : lfix) : lfix :=
  mkFix (f_id f) (f_date f) (f_lat f) (f_lon f) (f_alt f) 0 (f_diff f) (f_posfix f) (f_interp f) (f_sats f)
        0 (f_hdop f) 0 0 (f_offset f)
        (match f_accel f with None => None | Some a => Some (mkAccelOut (ao_source a) 0 0 (ao_lat a) (ao_lon a)) end)
        (match f_obd f with
         | None => None
         | Some o => Some (mkObdOut (match oo_rpm o with None => None | Some _ => Some 0 end) (blank_o (oo_map o)) (blank_o (oo_speed o))
                                    (blank_o (oo_throttle o)) (blank_o (oo_coolant o)) (blank_o (oo_iat o)))
         end).
Definition noround_lap (l : llap) : llap :=
  mkLLap (l_id l) (l_date l) (l_time l) (l_vehicle l) (l_track l) (l_tags l) (l_note l) (l_rectype l) 0 (map noround_fix (l_fixes l)).
(* the implementation's channel must be a decimal nearest to the source value at its precision
   (either one at a tie): within half a unit *)
Definition half_dp (dp : Z) (src impl : f64) : bool :=
  fle (fabs (fsub impl src)) (f_of_ratio 5000001 (10000000 * 10 ^ dp)).
Definition half_odp (dp : Z) (src impl : option f64) : bool :=
  match src, impl with None, None => true | Some x, Some y => half_dp dp x y | _, _ => false end.
Definition fix_rounded_close (r : record) (g : lfix) : bool :=
  half_dp 1 (r_speed r) (f_speed g) && half_dp 1 (g_head (r_gps r)) (f_dir g) && half_dp 1 (g_acc (r_gps r)) (f_acc g) &&
  (match r_accel r, f_accel g with
   | None, None => true
   | Some a, Some b => half_dp 2 (a_x a) (ao_lateral b) && half_dp 2 (a_y a) (ao_lineal b)
   | _, _ => false
   end) &&
  (match r_obd r, f_obd g with
   | None, None => true
   | Some a, Some b =>
       (match o_rpm a, oo_rpm b with None, None => true | Some x, Some y => half_dp 0 x (f_of_Z y) | _, _ => false end) &&
       half_odp 2 (o_manifold a) (oo_map b) && half_odp 1 (o_speed a) (oo_speed b) && half_odp 2 (o_throttle a) (oo_throttle b) &&
       half_odp 1 (o_coolant a) (oo_coolant b) && half_odp 0 (o_intake a) (oo_iat b)
   | _, _ => false
   end).
(* rows: the records the fixes were made from (after OBD prediction), lap by lap *)
Definition rounded_close (rows : list (list record)) (b : list llap) : bool :=
  Nat.eqb (length rows) (length b) &&
  forallb (fun '(rs, y) => Nat.eqb (length rs) (length (l_fixes y)) &&
                           forallb (fun '(r, g) => fix_rounded_close r g) (combine rs (l_fixes y)))
          (combine rows b).

(* C11 speaks about rows "between two fresh OBD readings" and about rows with fresh readings.
   What a stale row before the first or after the last fresh reading receives (an
   extrapolation) is not fixed: a database that differs from the model's only in the OBD
   channels of such fixes still meets the property (S). *)
Definition is_fresh (r : record) : bool := match r_obd r with Some o => o_update o | None => false end.
Definition fresh_times (laps : list lap) : list Z :=
  flat_map (fun l => flat_map (fun r => if is_fresh r then [r_time r] else []) (lap_recs l)) laps.
Definition fix_rows (l : lap) : list record :=
  match lap_recs l with [] => [] | r0 :: rest => r0 :: filter (fun r => g_update (r_gps r)) rest end.
Definition constrained (ft : list Z) (r : record) : bool :=
  match ft with
  | t0 :: _ :: _ => is_fresh r || ((t0 <? r_time r) && (r_time r <? last ft t0))
  | _ => true
  end.
Definition obd_close (laps : list lap) (m i : list llap) : bool :=
  let ft := fresh_times laps in
  let rows := map fix_rows (middle laps) in
  Nat.eqb (length m) (length i) && Nat.eqb (length m) (length rows) &&
  forallb (fun '((a, b), rs) =>
             Nat.eqb (length (l_fixes a)) (length (l_fixes b)) && Nat.eqb (length (l_fixes a)) (length rs) &&
             forallb (fun '((f, g), r) => negb (constrained ft r) || zlist_eqb (tok_obd (f_obd f)) (tok_obd (f_obd g)))
                     (combine (combine (l_fixes a) (l_fixes b)) rs))
          (combine (combine m i) rows).

Definition check (p : proj) (c : case) : verdict :=
  if negb (c_geod_sane c) then (if c_sincos45 c then VK else VV) else
  let m := (if Nat.leb 2 (co_predict (c_opts c)) then convert_with (oracle_pred (c_table c)) else convert)
             (opts_of (c_opts c)) (s_of_bytes (c_vehicle c)) (c_laps c) (c_geod c) in
  match m, c_class c with
  | Err e, _ => if String.eqb e "?" then VO else (if Nat.eqb (c_class c) 1 then VA else VV)
  | Panic e, cls =>
      (* gonum panics on fresh readings with equal/decreasing time stamps: outside C11's domain *)
      if prefix_b "gonum" e then (if Nat.eqb cls 2 then VO else VS) else VK
  | OutOfFuel, _ => VK
  | Ok db, cls =>
      if Nat.eqb cls 0 then
        (if zlist_eqb (tok_db p db) (tok_db p (c_db c)) then VA
         else if p_all p && zlist_eqb (tok_db p (map nodist_lap db)) (tok_db p (map nodist_lap (c_db c))) && dists_close db (c_db c)
              then VS
         else if p_all p && zlist_eqb (tok_db p (map noround_lap db)) (tok_db p (map noround_lap (c_db c)))
                 && dists_close db (c_db c)
                 && (match (match co_predict (c_opts c) with
                            | O => Ok (c_laps c)
                            | _ => predict_obd_with (if Nat.leb 2 (co_predict (c_opts c)) then oracle_pred (c_table c) else pl_predict) (c_laps c)
                            end) with
                     | Ok laps' => rounded_close (map fix_rows (middle laps')) (c_db c)
                     | _ => false
                     end)
              then VS
         else if p_obd p && negb (p_all p) && obd_close (c_laps c) db (c_db c) then VS
         else VV)
      else VV
  end.
