(* Shared correspondence for the converter (C03, C11, C12): session + options + geodesic oracle
   in, the outcome class and the dumped LapTimer database out. *)
From Coq Require Import String Ascii List ZArith NArith Bool.
From TT Require Import Base.Outcome Base.Str Base.F64 Base.Verdict
     Trackaddict.Columns Trackaddict.Model Convert.Model.
Import ListNotations.
Local Open Scope Z_scope.

Record copts := mkCOpts { co_track : list N; co_vehicle : list N; co_tags : list (list N); co_note : list N;
                          co_diff : Z; co_posfix : Z; co_start : option Z; co_predict : nat }.

(* c_table: for predictors other than nil / PiecewiseLinear (co_predict >= 2) the harness fits a
   FRESH predictor of the configured type on every channel and lists (channel readings, x, value)
   for every query; the model then uses that oracle as the fitted predictor. *)
Record case := mkCase {
  c_opts : copts; c_vehicle : list N; c_laps : list lap; c_geod : list (list f64);
  c_table : list (list f64 * f64 * f64);
  c_geod_sane : bool;   (* every oracle distance agrees with the spherical great-circle distance to 1 % + 1 m *)
  c_sincos45 : bool;    (* some converted fix has a latitude of exactly 45 + 180k degrees (known finding D24) *)
  c_class : nat; c_db : list llap }.

Fixpoint flist_eqb (a b : list f64) : bool :=
  match a, b with
  | [], [] => true
  | x :: a', y :: b' => (x =? y) && flist_eqb a' b'
  | _, _ => false
  end.
Definition oracle_pred (table : list (list f64 * f64 * f64)) : predictor :=
  fun _ ys x =>
    match find (fun '(ys', x', _) => (x =? x') && flist_eqb ys ys') table with
    | Some (_, _, v) => v
    | None => nan_bits
    end.

Definition opts_of (c : copts) : opts :=
  mkOpts (s_of_bytes (co_track c)) (s_of_bytes (co_vehicle c)) (map s_of_bytes (co_tags c))
         (s_of_bytes (co_note c)) (co_diff c) (co_posfix c) (co_start c) (co_predict c).

Definition tb (b : bool) : Z := if b then 1 else 0.
Definition topt (o : option Z) : list Z := match o with None => [0] | Some v => [1; v] end.
Definition tstr (s : string) : list Z := Z.of_nat (String.length s) :: map Z.of_N (bytes_of_s s).

Record proj := mkProj { p_all : bool; p_dates : bool; p_obd : bool }.

Definition tok_obd (o : option obd_out) : list Z :=
  match o with
  | None => [0]
  | Some o => [1] ++ topt (oo_rpm o) ++ topt (oo_map o) ++ topt (oo_speed o) ++ topt (oo_throttle o)
              ++ topt (oo_coolant o) ++ topt (oo_iat o)
  end.
Definition tok_accel (a : option accel_out) : list Z :=
  match a with None => [0] | Some a => [1; ao_source a; ao_lateral a; ao_lineal a; ao_lat a; ao_lon a] end.

Definition tok_fix (p : proj) (f : lfix) : list Z :=
  (if p_all p then [f_id f; f_lat f; f_lon f; f_alt f; f_speed f; f_diff f; f_posfix f; tb (f_interp f); f_sats f;
                    f_dir f; f_hdop f; f_acc f; f_dist f; f_offset f] ++ tok_accel (f_accel f) else [])
  ++ (if p_all p || p_dates p then [f_date f] else [])
  ++ (if p_all p || p_obd p then tok_obd (f_obd f) else []).

Definition tok_lap (p : proj) (l : llap) : list Z :=
  (if p_all p then [l_id l; l_time l] ++ tstr (l_vehicle l) ++ tstr (l_track l)
                   ++ Z.of_nat (length (l_tags l)) :: flat_map tstr (l_tags l) ++ tstr (l_note l)
                   ++ [l_rectype l; l_overall l] else [])
  ++ (if p_all p || p_dates p then topt (l_date l) else [])
  ++ Z.of_nat (length (l_fixes l)) :: flat_map (tok_fix p) (l_fixes l).

Definition tok_db (p : proj) (db : list llap) : list Z :=
  Z.of_nat (length db) :: flat_map (tok_lap p) db.

Fixpoint zlist_eqb (a b : list Z) : bool :=
  match a, b with
  | [], [] => true
  | x :: a', y :: b' => (x =? y) && zlist_eqb a' b'
  | _, _ => false
  end.

Definition check (p : proj) (c : case) : verdict :=
  if negb (c_geod_sane c) then (if c_sincos45 c then VK else VV) else
  let m := (if Nat.leb 2 (co_predict (c_opts c)) then convert_with (oracle_pred (c_table c)) else convert)
             (opts_of (c_opts c)) (s_of_bytes (c_vehicle c)) (c_laps c) (c_geod c) in
  match m, c_class c with
  | Err e, _ => if String.eqb e "?" then VO else (if Nat.eqb (c_class c) 1 then VA else VV)
  | Panic e, cls =>
      (* gonum panics on fresh readings with equal/decreasing time stamps: outside C11's domain *)
      if prefix_b "gonum" e then (if Nat.eqb cls 2 then VO else VS) else VK
  | OutOfFuel, _ => VK
  | Ok db, cls =>
      if Nat.eqb cls 0 then (if zlist_eqb (tok_db p db) (tok_db p (c_db c)) then VA else VV) else VV
  end.
