(* C20 correspondence: the built tracktools binary is run with flags / config file / neither
   for every option; the effective option values are read from the binary's own -vv
   "Loaded config" trace and compared with the model's load_config; the harness additionally
   reports (as implementation-side checks) whether the bytes written equal the library
   pipeline run with the rule's option values and whether failures gave a non-zero exit. *)
From Coq Require Import String Ascii List Bool NArith.
From TT Require Import Base.Str Base.Verdict Cli.Precedence.
Import ListNotations.

Record copt := mkCOpt { co_path : list (list N); co_flag : list N; co_default : list N; co_observed : list N }.

Inductive bval := BStr (s : list N) | BTable (t : list (list N * bval)).

Record case := mkCase {
  c_section : list (list N * bval);
  c_given : list (list N * list N);
  c_opts : list copt;
  c_trace_ok : bool;          (* the trace line was found (the command got as far as loading its config) *)
  c_pipeline_ok : bool;       (* output bytes = library pipeline with the rule's values / exit status as required *)
  c_exit_ok : bool }.

Fixpoint cv (b : bval) : cval :=
  match b with
  | BStr s => CStr (s_of_bytes s)
  | BTable t => CTable (map (fun '(k, v) => (s_of_bytes k, cv v)) t)
  end.

Definition check_case (c : case) : verdict :=
  if negb (c_trace_ok c) then (if c_pipeline_ok c && c_exit_ok c then VO else VV) else
  let section := map (fun '(k, v) => (s_of_bytes k, cv v)) (c_section c) in
  let g := map (fun '(k, v) => (s_of_bytes k, s_of_bytes v)) (c_given c) in
  let ok := forallb (fun o =>
              let op := mkOpt (map s_of_bytes (co_path o)) (s_of_bytes (co_flag o)) in
              String.eqb (effective op section g (s_of_bytes (co_default o))) (s_of_bytes (co_observed o)) &&
              String.eqb (spec_effective op section g (s_of_bytes (co_default o))) (s_of_bytes (co_observed o)))
            (c_opts c) in
  if ok && c_pipeline_ok c && c_exit_ok c then VA else VV.
