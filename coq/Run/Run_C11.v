From TT Require Import Base.Verdict Run.Conv_run.
Definition case := Conv_run.case.
(* C11: the OBD channels of every fix (and the outcome class) *)
Definition check_case := check (mkProj false false true).
