(* cmd/tracktools/cmd/helpers.go loadConfig (after the repair D20): the command's config
   section is a table; every flag that was given on the command line removes its own key
   (lower-cased flag name without dashes) from the table - at the top level or, if absent
   there, inside nested tables - and what is left is decoded over the struct that the flags
   have already populated.  Values are opaque strings here. *)
From Coq Require Import String Ascii List Bool.
From TT Require Import Base.Str.
Import ListNotations.
Local Open Scope string_scope.

Inductive cval := CStr (s : string) | CTable (t : list (string * cval)).
Definition table := list (string * cval).

Fixpoint t_get (t : table) (k : string) : option cval :=
  match t with [] => None | (k', v) :: r => if String.eqb k k' then Some v else t_get r k end.
Fixpoint t_del (t : table) (k : string) : table :=
  match t with [] => [] | (k', v) :: r => if String.eqb k k' then t_del r k else (k', v) :: t_del r k end.

(* deleteKey: top level first, otherwise in every nested table (one level is all the commands have) *)
Definition delete_key (t : table) (k : string) : table :=
  match t_get t k with
  | Some _ => t_del t k
  | None => map (fun '(k', v) => match v with
                                 | CTable sub => (k', CTable (t_del sub k))
                                 | _ => (k', v)
                                 end) t
  end.

(* an option of a command: where its value lives in the config section (a top-level key, or a
   key inside a nested table such as start.latitude) and the normalised name of its flag *)
Record option_ := mkOpt { o_path : list string; o_flag : string }.

Definition cfg_lookup (t : table) (path : list string) : option string :=
  match path with
  | [k] => match t_get t k with Some (CStr s) => Some s | _ => None end
  | [k1; k2] => match t_get t k1 with
                | Some (CTable sub) => match t_get sub k2 with Some (CStr s) => Some s | _ => None end
                | _ => None
                end
  | _ => None
  end.

(* flags given on the command line: normalised name -> value (already stored in the struct) *)
Definition given := list (string * string).
Fixpoint g_get (g : given) (k : string) : option string :=
  match g with [] => None | (k', v) :: r => if String.eqb k k' then Some v else g_get r k end.

Definition load_config (section : table) (g : given) : table :=
  fold_left (fun t '(k, _) => delete_key t k) g section.

(* the value the command ends up with *)
Definition effective (o : option_) (section : table) (g : given) (default : string) : string :=
  match g_get g (o_flag o) with
  | Some v =>
      (* the struct field holds the flag's value; the config may only overwrite it if its key survived *)
      match cfg_lookup (load_config section g) (o_path o) with Some c => c | None => v end
  | None =>
      match cfg_lookup (load_config section g) (o_path o) with Some c => c | None => default end
  end.

(* the rule the property states *)
Definition spec_effective (o : option_) (section : table) (g : given) (default : string) : string :=
  match g_get g (o_flag o) with
  | Some v => v
  | None => match cfg_lookup section (o_path o) with Some c => c | None => default end
  end.
