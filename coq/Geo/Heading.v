(* Intersect's inside/outside decision (gnomonic.go, after the repair D25): the azimuths with
   which a segment arrives at and leaves the crossing point the same way when their difference,
   reduced to [-180, 180), is less than a quarter turn. *)
From Coq Require Import ZArith QArith Qround Qabs Bool.
From Flocq Require Import Core.
From Flocq.IEEE754 Require Import BinarySingleNaN Binary Bits.
From TT Require Import Base.F64.
Local Open Scope Z_scope.

(* exact value of a finite binary64 *)
Definition q_of (a : f64) : option Q :=
  match of_bits a with
  | Binary.B754_zero _ _ _ => Some 0%Q
  | Binary.B754_finite _ _ s m e _ =>
      let v := if 0 <=? e then inject_Z (Zpos m * 2 ^ e) else (Zpos m # Z.to_pos (2 ^ (- e))) in
      Some (if s then Qopp v else v)
  | _ => None
  end.

(* math.Remainder (d, 360) up to the sign of a result of magnitude exactly 180 (ties), which the
   comparison with 90 does not see: d - 360 * floor ((d + 180) / 360), in [-180, 180) *)
Definition hdiff (d : Q) : Q := (d - 360 * inject_Z (Qfloor ((d + 180) / 360)))%Q.
Definition same_heading_q (d : Q) : bool := negb (Qle_bool 90 (Qabs (hdiff d))).

(* sameHeading: the difference is taken in float64; NaN or infinite azimuths never agree *)
Definition same_heading (a b : f64) : bool :=
  match q_of (fsub a b) with Some d => same_heading_q d | None => false end.

Definition bounded_ok (a1 a2 b1 b2 : f64) : bool := same_heading a1 a2 && same_heading b1 b2.
