(* pkg/gopro/gpmf/geo/processor.go onLineRadians: the decision as a function of the computed
   quantities (haversines of central angles, exact rationals: every float64 is one). *)
From Coq Require Import QArith Bool.
Local Open Scope Q_scope.

Record parts := mkParts { d01 : Q; d02 : Q; d12 : Q; track : Q; sinsum_pos : bool }.

Definition on_line (tol : Q) (p : parts) : bool :=
  if Qle_bool (d01 p) tol then true else
  if Qle_bool (d02 p) tol then true else
  if negb (Qle_bool (track p) tol) then false else
  let term := d12 p + track p * (1 - 2 * d12 p) in
  if negb (Qle_bool (d01 p) term) || negb (Qle_bool (d02 p) term) then false else
  if negb (Qle_bool (74 # 100) (d12 p)) then true else
  sinsum_pos p.
