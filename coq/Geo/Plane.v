(* pkg/gopro/gpmf/geo/vector.go + the core of IntersectExt: lines through two points in
   homogeneous coordinates, their intersection as a cross product; and Intersect's decision. *)
From Coq Require Import Reals Lra Bool ZArith.
Local Open Scope R_scope.

Definition cross (a b : R * R * R) : R * R * R :=
  let '(ax, ay, az) := a in let '(bx, by_, bz) := b in
  (ay * bz - az * by_, az * bx - ax * bz, ax * by_ - ay * bx).
Definition pt (x y : R) : R * R * R := (x, y, 1).
Definition norm (v : R * R * R) : R * R := let '(x, y, z) := v in (x / z, y / z).

(* (x,y) lies on the line through p and q *)
Definition on_line_through (p q : R * R) (x y : R) : Prop :=
  (snd q - snd p) * (x - fst p) = (fst q - fst p) * (y - snd p).

(* Intersect's inside/outside decision lives in Geo/Heading.v *)
