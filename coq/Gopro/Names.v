(* pkg/gopro/matcher.go and files.go: the two naming conventions as recognisers equal to the
   (case-insensitive, anchored) regular expressions, chapter sorting and validation. *)
From Coq Require Import String Ascii List NArith Bool.
From TT Require Import Base.Str.
Import ListNotations.
Local Open Scope string_scope.

Record file := mkFile { fname : string; fchapter : string; findex : string }.

Definition lower (c : ascii) : ascii :=
  let n := N_of_ascii c in if ((65 <=? n) && (n <=? 90))%N then ascii_of_N (n + 32) else c.
Definition ci_eq (c d : ascii) : bool := Ascii.eqb (lower c) (lower d).

Fixpoint ci_prefix (p : list ascii) (l : list ascii) : option (list ascii) :=
  match p, l with
  | [], _ => Some l
  | a :: p', b :: l' => if ci_eq a b then ci_prefix p' l' else None
  | _ :: _, [] => None
  end.

Fixpoint take_digits (n : nat) (l : list ascii) : option (list ascii * list ascii) :=
  match n with
  | O => Some ([], l)
  | S n' => match l with
            | c :: r => if is_digit c then
                          match take_digits n' r with
                          | Some (d, t) => Some (c :: d, t)
                          | None => None
                          end
                        else None
            | [] => None
            end
  end.

Definition is_dot_mp4 (l : list ascii) : bool :=
  match ci_prefix (chars_of ".mp4") l with Some [] => true | _ => false end.

(* ^(?i)GOPR([0-9]{4})\.mp4$ *)
Definition m_first5 (name : string) : option file :=
  match ci_prefix (chars_of "GOPR") (chars_of name) with
  | Some r => match take_digits 4 r with
              | Some (idx, t) => if is_dot_mp4 t then Some (mkFile name "00" (of_chars idx)) else None
              | None => None
              end
  | None => None
  end.
(* ^(?i)<prefix>([0-9]{2})([0-9]{4})\.mp4$ *)
Definition m_chapter (prefix : string) (name : string) : option file :=
  match ci_prefix (chars_of prefix) (chars_of name) with
  | Some r => match take_digits 2 r with
              | Some (ch, r2) =>
                match take_digits 4 r2 with
                | Some (idx, t) => if is_dot_mp4 t then Some (mkFile name (of_chars ch) (of_chars idx)) else None
                | None => None
                end
              | None => None
              end
  | None => None
  end.

Definition match5 (name : string) : option file :=
  match m_first5 name with Some f => Some f | None => m_chapter "GP" name end.
Definition match10 (name : string) : option file :=
  match m_chapter "GH" name with Some f => Some f | None => m_chapter "GX" name end.

(* the processor asks both matchers and keeps every match (the conventions are disjoint) *)
Definition matches (name : string) : list file :=
  app (match match5 name with Some f => [f] | None => [] end)
      (match match10 name with Some f => [f] | None => [] end).

(* ---- chapters ---- *)
Fixpoint bytes_ltb (a b : list N) : bool :=
  match a, b with
  | _, [] => false
  | [], _ :: _ => true
  | x :: a', y :: b' => if (x <? y)%N then true else if (y <? x)%N then false else bytes_ltb a' b'
  end.
Definition str_ltb (a b : string) : bool := bytes_ltb (bytes_of_s a) (bytes_of_s b).

Fixpoint insert_chapter (f : file) (l : list file) : list file :=
  match l with
  | [] => [f]
  | h :: t => if str_ltb (fchapter f) (fchapter h) then f :: l else h :: insert_chapter f t
  end.

Definition two_digits (n : nat) : string :=
  if Nat.ltb n 100 then
    String (ascii_of_nat (48 + Nat.div n 10)) (String (ascii_of_nat (48 + Nat.modulo n 10)) "")
  else "###".   (* three characters: never equal to a two-character chapter *)

Fixpoint chapters_from (i : nat) (l : list file) : bool :=
  match l with
  | [] => true
  | f :: t => String.eqb (fchapter f) (two_digits i) && chapters_from (S i) t
  end.

(* FileSlice.Validate *)
Definition validate (l : list file) : bool :=
  match l with
  | [] => false
  | f :: _ => if String.eqb (fchapter f) "00" then chapters_from 0 l
              else if String.eqb (fchapter f) "01" then chapters_from 1 l
              else false
  end.
