(* pkg/gopro/processor.go + config.go over an abstract filesystem with fault injection. *)
From Coq Require Import String Ascii List ZArith NArith Bool.
From TT Require Import Base.Outcome Base.Str Gopro.Names.
Import ListNotations.
Local Open Scope string_scope.
Local Open Scope Z_scope.

(* ---------------------------------------------------------------- configuration *)
Inductive tpart := TLit (s : string) | TName | TExt.

Record cfg := mkCfg {
  c_source : string; c_args : list string; c_skip : list string;
  c_tmpl : list tpart; c_outdir : string; c_overwrite : bool }.

(* Config.Validate: index of the empty argument that directly follows the most recent "-i" *)
Fixpoint input_index_from (args : list string) (i : Z) (iidx : Z) : option Z :=
  match args with
  | [] => None
  | a :: t =>
    if String.eqb a "-i" then input_index_from t (i + 1) i
    else if String.eqb a "" then (if i =? iidx + 1 then Some i else input_index_from t (i + 1) iidx)
    else input_index_from t (i + 1) iidx
  end.
Definition input_index (args : list string) : option Z := input_index_from args 0 (-2).

Fixpoint set_nth (n : nat) (v : string) (l : list string) : list string :=
  match l, n with
  | [], _ => []
  | _ :: t, O => v :: t
  | h :: t, S n' => h :: set_nth n' v t
  end.

(* filepath.Ext / strings.TrimSuffix on a base name *)
Fixpoint last_dot (l : list ascii) (i : nat) (best : option nat) : option nat :=
  match l with
  | [] => best
  | c :: r => last_dot r (S i) (if Ascii.eqb c "." then Some i else best)
  end.
Definition ext_of (name : string) : string :=
  match last_dot (chars_of name) 0 None with
  | Some i => of_chars (skipn i (chars_of name))
  | None => ""
  end.
Definition stem_of (name : string) : string :=
  match last_dot (chars_of name) 0 None with
  | Some i => of_chars (firstn i (chars_of name))
  | None => name
  end.
Definition render_tmpl (t : list tpart) (name : string) : string :=
  concat_s (map (fun p => match p with TLit s => s | TName => stem_of name | TExt => ext_of name end) t).

(* filepath.Join on clean relative operands *)
Definition join (d x : string) : string := if String.eqb d "." then x else d ++ "/" ++ x.

Definition output_path (c : cfg) (first : string) : string :=
  let o := render_tmpl (c_tmpl c) first in
  if String.eqb (c_outdir c) "." then o
  else if String.eqb (c_outdir c) "" then join (c_source c) o
  else join (c_outdir c) o.

(* ---------------------------------------------------------------- world *)
Record fentry := mkF { f_path : string; f_mtime : Z }.
Definition world := list fentry.
Fixpoint w_find (w : world) (p : string) : option fentry :=
  match w with [] => None | f :: t => if String.eqb (f_path f) p then Some f else w_find t p end.
Definition w_remove (w : world) (p : string) : world := filter (fun f => negb (String.eqb (f_path f) p)) w.
Definition w_put (w : world) (p : string) (m : Z) : world := app (w_remove w p) [mkF p m].

Inductive kind := KCreateTemp | KWrite | KClose | KStat | KEncoder | KChtimes.
Definition kind_eqb (a b : kind) : bool :=
  match a, b with
  | KCreateTemp, KCreateTemp | KWrite, KWrite | KClose, KClose | KStat, KStat
  | KEncoder, KEncoder | KChtimes, KChtimes => true
  | _, _ => false
  end.

(* fault oracle: the n-th operation of a kind fails iff the plan lists (kind, n) *)
Definition plan := list (kind * nat).
Definition counters := list (kind * nat).
Fixpoint cnt (c : counters) (k : kind) : nat :=
  match c with [] => O | (k', n) :: t => if kind_eqb k k' then n else cnt t k end.
Fixpoint bump (c : counters) (k : kind) : counters :=
  match c with
  | [] => [(k, 1%nat)]
  | (k', n) :: t => if kind_eqb k k' then (k', S n) :: t else (k', n) :: bump t k
  end.
Definition faulted (p : plan) (c : counters) (k : kind) : bool :=
  existsb (fun '(k', n) => kind_eqb k k' && Nat.eqb n (cnt c k)) p.

(* what the encoder stub does when it is not told to fail: create the output or not *)
Inductive enc_behaviour := EncCreates | EncNoCreate.

Record enc_event := mkEnc { e_argv : list string; e_concat : list string; e_existed : bool }.

Record st := mkSt {
  s_world : world; s_cnt : counters; s_temps : nat; s_args : list string;
  s_events : list enc_event; s_tempcontent : list (string * list string) }.

Definition now_mtime : Z := 999999.

Inductive set_result := Skipped | Joined (out : string) | Failed.

Definition op (p : plan) (k : kind) (s : st) : bool * st :=
  let f := faulted p (s_cnt s) k in
  (f, mkSt (s_world s) (bump (s_cnt s) k) (s_temps s) (s_args s) (s_events s) (s_tempcontent s)).

Definition temp_name (n : nat) : string :=
  "tmp/gopro-process-" ++ String (ascii_of_nat (48 + Nat.div n 100 mod 10))
     (String (ascii_of_nat (48 + Nat.div n 10 mod 10)) (String (ascii_of_nat (48 + n mod 10)) "")).

Fixpoint write_lines (p : plan) (lines : list string) (s : st) (acc : list string) : bool * st * list string :=
  match lines with
  | [] => (true, s, acc)
  | l :: t => let '(f, s1) := op p KWrite s in
              if f then (false, s1, acc) else write_lines p t s1 (app acc [l])
  end.

Definition with_world (s : st) (w : world) : st :=
  mkSt w (s_cnt s) (s_temps s) (s_args s) (s_events s) (s_tempcontent s).

(* processSet *)
Definition process_set (c : cfg) (idx : Z) (p : plan) (encb : enc_behaviour) (chapters : list file) (s : st)
  : set_result * st :=
  if negb (validate chapters) then (Failed, s) else
  match chapters with
  | [] => (Failed, s)
  | first :: _ =>
    if str_in (fname first) (c_skip c) then (Skipped, s) else
    let '(f1, s1) := op p KCreateTemp s in
    if f1 then (Failed, s1) else
    let tmp := temp_name (s_temps s1) in
    let s2 := mkSt (w_put (s_world s1) tmp now_mtime) (s_cnt s1) (S (s_temps s1)) (s_args s1) (s_events s1) (s_tempcontent s1) in
    (* deferred: remove the temp file on every exit below *)
    let finish (r : set_result) (s : st) := (r, with_world s (w_remove (s_world s) tmp)) in
    let lines := map (fun f => "file '" ++ join (c_source c) (fname f) ++ "'") chapters in
    let '(okw, s3, written) := write_lines p lines s2 [] in
    if negb okw then finish Failed s3 else
    let '(f4, s4) := op p KClose s3 in
    if f4 then finish Failed s4 else
    let out := output_path c (fname first) in
    let '(f5, s5) := op p KStat s4 in
    if f5 then finish Failed s5 else
    let exists_before := match w_find (s_world s5) out with Some _ => true | None => false end in
    if exists_before && negb (c_overwrite c) then finish Skipped s5 else
    let args := set_nth (Z.to_nat idx) tmp (s_args s5) in
    let argv := app args [out] in
    let '(f6, s6) := op p KEncoder s5 in
    let ev := mkEnc argv written exists_before in
    let s6 := mkSt (s_world s6) (s_cnt s6) (s_temps s6) args (app (s_events s6) [ev]) (s_tempcontent s6) in
    if f6 then finish Failed s6 else
    let s7 := match encb with
              | EncCreates => with_world s6 (w_put (s_world s6) out now_mtime)
              | EncNoCreate => s6
              end in
    let '(f8, s8) := op p KStat s7 in
    if f8 then finish Failed s8 else
    match w_find (s_world s8) (join (c_source c) (fname first)) with
    | None => finish Failed s8
    | Some src =>
      let '(f9, s9) := op p KChtimes s8 in
      if f9 then finish Failed s9 else
      match w_find (s_world s9) out with
      | None => finish Failed s9
      | Some _ => finish (Joined out) (with_world s9 (w_put (s_world s9) out (f_mtime src)))
      end
    end
  end.

(* ---------------------------------------------------------------- fileSets *)
Definition groups := list (string * list file).
Fixpoint add_file (g : groups) (f : file) : groups :=
  match g with
  | [] => [(findex f, [f])]
  | (k, l) :: t => if String.eqb k (findex f) then (k, insert_chapter f l) :: t else (k, l) :: add_file t f
  end.
Fixpoint has_slash (l : list ascii) : bool :=
  match l with [] => false | c :: r => Ascii.eqb c "/" || has_slash r end.

(* listing: paths relative to the source directory with a directory flag; only top-level
   non-directories are looked at *)
Definition file_sets (listing : list (string * bool)) : groups :=
  fold_left (fun g '(p, isdir) =>
               if isdir || has_slash (chars_of p) then g
               else fold_left add_file (matches p) g) listing [].

Fixpoint g_find (g : groups) (k : string) : option (list file) :=
  match g with [] => None | (k', l) :: t => if String.eqb k k' then Some l else g_find t k end.

(* Process: visit the groups in the given (map-iteration) order; stop at the first error *)
Fixpoint process_order (c : cfg) (idx : Z) (p : plan) (encb : enc_behaviour) (g : groups) (order : list string)
         (s : st) (files : list string) : list string * bool * st :=
  match order with
  | [] => (files, false, s)
  | k :: t =>
    match g_find g k with
    | None => process_order c idx p encb g t s files
    | Some chapters =>
      let '(r, s') := process_set c idx p encb chapters s in
      match r with
      | Failed => (files, true, s')
      | Skipped => process_order c idx p encb g t s' files
      | Joined out => process_order c idx p encb g t s' (app files [out])
      end
    end
  end.

Inductive presult := PConfigError | PNoFiles | PDone (files : list string) (err : bool) (s : st).

Definition process (c : cfg) (p : plan) (encb : enc_behaviour) (listing : list (string * bool))
           (w : world) (order : list string) : presult :=
  match input_index (c_args c) with
  | None => PConfigError
  | Some idx =>
    let g := file_sets listing in
    match g with
    | [] => PNoFiles
    | _ => let '(files, err, s) := process_order c idx p encb g order (mkSt w [] 0 (c_args c) [] []) [] in
           PDone files err s
    end
  end.
