(* pkg/laptimer/encoder.go: Encoder.Encode as a labelled transition system.
   Two threads: main (header write; producer = one pipe write per chunk the XML encoder
   flushes; Close of the pipe's write side; receive on the error channel; optional gzip
   Close) and the filter goroutine (ReadString loop -> output writes; CloseWithError; send).
   io.Pipe is a rendezvous: a write blocks until the reader has consumed it or closed its
   side; a read blocks until data is offered or the write side is closed.
   Parameters are universally quantified: how the document is cut into chunks, how many pipe
   reads a chunk takes, how many output writes follow each read and how many underlying
   writes each output operation performs (1 for a plain writer, any number for gzip). *)
From Coq Require Import List Arith Bool Lia.
Import ListNotations.

Record par := mkPar {
  p_hdr : nat;                          (* underlying writes performed by the header write *)
  p_chunks : list (list (list nat));    (* chunk -> pipe read -> output ops (underlying writes each) *)
  p_eof : list nat;                     (* output ops of the final read (EOF): exactly one op in the code *)
  p_gz : option nat;                    (* Some c: compression on; Close performs c underlying writes *)
  p_fail : option nat;                  (* the output fails from its k-th underlying write on *)
  p_fixed : bool }.                     (* the consumer closes the read side when it stops (the repair) *)

Inductive mainpc :=
| MHdr
| MOffer (rest : list (list (list nat)))            (* about to write the next chunk into the pipe *)
| MPend (lft : list (list nat)) (rest : list (list (list nat)))   (* blocked in the pipe write: reads still to be taken *)
| MCloseW                               (* w.Close() after a complete document *)
| MErrClose                             (* enc.Encode failed: w.Close() *)
| MWaitErr                              (* <-errs after a failed Encode *)
| MWait                                 (* <-errs *)
| MGz                                   (* e.c.Close() *)
| MRet (err : bool).

Inductive conspc :=
| CIdle                                 (* goroutine not started *)
| CRead
| CWrite (ops : list nat) (last : bool)
| CClose (err : bool)                   (* r.CloseWithError(err) *)
| CSend (err : bool)
| CExit.

Record st := mkSt {
  m : mainpc; c : conspc;
  rclosed : bool; wclosed : bool;
  chan : option bool;
  wcount : nat;                         (* underlying writes that succeeded *)
  broken : bool }.                      (* an underlying write has failed (sticky) *)

Definition init : st := mkSt MHdr CIdle false false None 0 false.

(* one output operation of u underlying writes *)
Definition out_op (p : par) (s : st) (u : nat) : bool * nat * bool :=    (* ok, wcount', broken' *)
  if broken s then (false, wcount s, true) else
  match p_fail p with
  | None => (true, wcount s + u, false)
  | Some k => if Nat.leb (wcount s + u) k then (true, wcount s + u, false)
              else (false, Nat.max (wcount s) k, true)
  end.

Definition set_m (s : st) (x : mainpc) : st := mkSt x (c s) (rclosed s) (wclosed s) (chan s) (wcount s) (broken s).
Definition set_c (s : st) (x : conspc) : st := mkSt (m s) x (rclosed s) (wclosed s) (chan s) (wcount s) (broken s).

Definition main_steps (p : par) (s : st) : list st :=
  match m s with
  | MHdr =>
      let '(ok, w, b) := out_op p s (p_hdr p) in
      if ok then [mkSt (MOffer (p_chunks p)) CRead (rclosed s) (wclosed s) (chan s) w b]     (* io.Pipe, e.run *)
      else [mkSt (MRet true) (c s) (rclosed s) (wclosed s) (chan s) w b]
  | MOffer rest =>
      if rclosed s then [set_m s MErrClose] else
      match rest with
      | reads :: rest' => [set_m s (MPend reads rest')]
      | [] => [set_m s MCloseW]
      end
  | MPend lft rest =>
      if rclosed s then [set_m s MErrClose] else
      match lft with
      | [] => [set_m s (MOffer rest)]
      | _ :: _ => []                                   (* blocked until the consumer reads *)
      end
  | MCloseW => [mkSt MWait (c s) (rclosed s) true (chan s) (wcount s) (broken s)]
  | MErrClose => [mkSt MWaitErr (c s) (rclosed s) true (chan s) (wcount s) (broken s)]
  | MWaitErr => match chan s with Some _ => [set_m s (MRet true)] | None => [] end
  | MWait =>
      match chan s with
      | Some true => [set_m s (MRet true)]
      | Some false => match p_gz p with Some _ => [set_m s MGz] | None => [set_m s (MRet false)] end
      | None => []
      end
  | MGz =>
      let '(ok, w, b) := out_op p s (match p_gz p with Some u => u | None => 0 end) in
      [mkSt (MRet (negb ok)) (c s) (rclosed s) (wclosed s) (chan s) w b]
  | MRet _ => []
  end.

Definition cons_steps (p : par) (s : st) : list st :=
  match c s with
  | CIdle => []
  | CRead =>
      match m s with
      | MPend (ops :: lft) rest =>
          [mkSt (MPend lft rest) (CWrite ops false) (rclosed s) (wclosed s) (chan s) (wcount s) (broken s)]
      | _ => if wclosed s then [set_c s (CWrite (p_eof p) true)] else []
      end
  | CWrite [] last => if last then [set_c s (CClose false)] else [set_c s CRead]
  | CWrite (u :: ops) last =>
      let '(ok, w, b) := out_op p s u in
      if ok then [mkSt (m s) (CWrite ops last) (rclosed s) (wclosed s) (chan s) w b]
      else [mkSt (m s) (CClose true) (rclosed s) (wclosed s) (chan s) w b]
  | CClose e =>
      [mkSt (m s) (CSend e) (if p_fixed p then true else rclosed s) (wclosed s) (chan s) (wcount s) (broken s)]
  | CSend e => [mkSt (m s) CExit (rclosed s) (wclosed s) (Some e) (wcount s) (broken s)]
  | CExit => []
  end.

Definition step (p : par) (s : st) : list st := main_steps p s ++ cons_steps p s.

Inductive reachable (p : par) : st -> Prop :=
| r_init : reachable p init
| r_step : forall s s', reachable p s -> In s' (step p s) -> reachable p s'.

Definition returned (s : st) : Prop := exists e, m s = MRet e.
Definition is_final (s : st) : bool := match m s with MRet _ => true | _ => false end.

(* total number of underlying writes of the fault-free run *)
Definition sum (l : list nat) : nat := fold_right plus 0 l.
Definition total_writes (p : par) : nat :=
  p_hdr p + sum (map (fun reads => sum (map sum reads)) (p_chunks p)) + sum (p_eof p)
  + match p_gz p with Some u => u | None => 0 end.

(* ---- bounded exhaustive exploration (used to validate the model itself and to compare with
   observed runs): all states reachable within `fuel` steps; deadlocks among them ---- *)
Fixpoint explore (p : par) (fuel : nat) (frontier : list st) : list st :=
  match fuel with
  | O => frontier
  | S f => frontier ++ explore p f (flat_map (step p) frontier)
  end.
Definition stuck (p : par) (s : st) : bool :=
  negb (is_final s) && match step p s with [] => true | _ => false end.
Definition leaked (s : st) : bool :=
  is_final s && match c s with CExit | CIdle => false | _ => true end.
