(* Generic LapTimer values: a struct is a list of named fields with the encoding/xml mode of
   its tag; a leaf is one of the scalar / composite kinds of types.go.  `to_tree` is
   encoding/xml's marshalling (omitempty, nil pointers, slices, custom marshalers) and
   `quant` is what decoding the printed form gives back. *)
From Coq Require Import String Ascii List ZArith NArith Bool.
From TT Require Import Base.Outcome Base.Str Base.F64 Base.GoParse Base.Civil Xml.Print Laptimer.Leaves.
Import ListNotations.
Local Open Scope Z_scope.

Inductive leaf :=
| LvStr (t : text)                 (* code points; Go strings arrive decoded, invalid bytes as U+FFFD *)
| LvInt (z : Z)
| LvBool (b : bool)
| LvF (dp : nat) (x : f64)         (* Float0dp/1dp/2dp, Float (dp 6) *)
| LvFg (x : f64) (txt : string)    (* plain float64: shortest decimal supplied by the harness *)
| LvDur (d : Z)
| LvLapDate (t : Z)
| LvFixDate (t : Z)
| LvCoord (lat lon : f64)
| LvAltCoord (lat lon alt : f64)
| LvPos (d p : Z) (i : bool)
| LvRel (dist : f64) (off : Z)
| LvInter (l : list (Z * f64))
| LvGear (n : Z) (ratio : f64)
| LvTyre (w p : Z) (sr : text) (size : Z)
| LvTags (l : list text)
| LvThresh (z : Z)
| LvSync (d : Z).

Inductive mode := MPlain | MOmit | MAttr.

Inductive val :=
| VLeaf (l : leaf)
| VStruct (fields : list (string * mode * field))
with field :=
| FOne (v : val)
| FPtr (o : option val)
| FMany (l : list val).

(* ---- printing leaves ---- *)
Definition t_of (s : string) : text := cps_of_string s.
Definition comma : text := [44].

Definition sc (l : list string) : string := concat_s l.
Definition string_of_cps_ascii (t : text) : string := of_chars (map (fun c => ascii_of_N (Z.to_N c)) t).

Definition leaf_text (l : leaf) : text :=
  match l with
  | LvStr t => t
  | LvInt z => t_of (itoa z)
  | LvBool b => t_of (if b then "true" else "false")%string
  | LvF dp x => t_of (fmt_fixed dp x)
  | LvFg _ txt => t_of txt
  | LvDur d => t_of (dur_string d)
  | LvLapDate t => t_of (date_string false t)
  | LvFixDate t => t_of (date_string true t)
  | LvCoord la lo => t_of (sc [fmt_fixed 8 la; ","; fmt_fixed 8 lo]%string)
  | LvAltCoord la lo al => t_of (sc [fmt_fixed 8 la; ","; fmt_fixed 8 lo; ","; fmt_fixed 1 al]%string)
  | LvPos d p i => t_of (sc [itoa d; ","; itoa p; ","; if i then "1" else "0"]%string)
  | LvRel dist off => t_of (sc [fmt_fixed 1 dist; ","; dur_string off]%string)
  | LvInter l =>
      match l with
      | [] => []
      | _ => flat_map (fun '(d, x) => [10; 9; 9; 9] ++ t_of (sc [dur_string d; ","; fmt_fixed 1 x]%string)) l ++ [10; 9; 9]
      end
  | LvGear n r => t_of (sc [itoa n; ","; fmt_fixed 6 r]%string)
  | LvTyre w p sr sz => t_of (sc [itoa w; " / "; itoa p; " "]%string) ++ sr ++ t_of (sc [" "; itoa sz]%string)
  | LvTags l => (fix go l := match l with [] => [] | [x] => x | x :: r => x ++ comma ++ go r end) l
  | LvThresh z => t_of (sc [itoa z; "%"]%string)
  | LvSync d => t_of (fmt_fixed 2 (seconds_f d))
  end.

(* encoding/xml isEmptyValue for the leaf's Go kind *)
Definition f_is_zero (x : f64) : bool := (x =? 0) || (x =? 0x8000000000000000).
Definition leaf_empty (l : leaf) : bool :=
  match l with
  | LvStr t => match t with [] => true | _ => false end
  | LvInt z | LvThresh z => z =? 0
  | LvBool b => negb b
  | LvF _ x | LvFg x _ => f_is_zero x
  | LvDur d | LvSync d => d =? 0
  | LvInter l => match l with [] => true | _ => false end
  | LvTags l => match l with [] => true | _ => false end
  | _ => false                            (* structs and time values are never empty *)
  end.

Fixpoint to_trees (name : string) (v : val) : list tree :=
  match v with
  | VLeaf l => [TElem name [] (match leaf_text l with [] => [] | t => [TText t] end)]
  | VStruct fields =>
      let attrs := flat_map (fun '(n, m, f) => match m, f with
                                               | MAttr, FOne (VLeaf l) => [(n, string_of_cps_ascii (leaf_text l))]
                                               | _, _ => []
                                               end) fields in
      [TElem name attrs
         (flat_map (fun '(n, m, f) =>
            match m with
            | MAttr => []
            | _ =>
              match f with
              | FOne v' => if (match m with MOmit => true | _ => false end) &&
                              (match v' with VLeaf l => leaf_empty l | _ => false end)
                           then [] else to_trees n v'
              | FPtr None => []
              | FPtr (Some v') => to_trees n v'
              | FMany l => flat_map (to_trees n) l
              end
            end) fields)]
  end.
