(* The encoder as a function, and what decoding its output gives back (`quant`). *)
From Coq Require Import String Ascii List ZArith NArith Bool.
From TT Require Import Base.Outcome Base.Str Base.F64 Base.GoParse Base.Civil Xml.Print Laptimer.Leaves Laptimer.Value.
Import ListNotations.
Local Open Scope Z_scope.

Definition root_tree (v : val) : tree :=
  match to_trees "LapTimerDB" v with t :: _ => t | [] => TElem "LapTimerDB" [] [] end.

Definition enc_text (v : val) : text := document (root_tree v).
Definition enc (v : val) : list N := utf8_text (enc_text v).

Definition clean_text (t : text) : text := map (fun c => if valid_char c then c else 65533) t.

Definition pf (s : string) : outcome f64 := parse_float s.

Definition has_ws (t : text) : bool := existsb (fun c => (c =? 32) || ((9 <=? c) && (c <=? 13)) || (c =? 133) || (c =? 160)) t.

Definition quant_leaf (l : leaf) : outcome leaf :=
  match l with
  | LvStr t => Ok (LvStr (clean_text t))
  | LvInt z => Ok (LvInt z)
  | LvBool b => Ok (LvBool b)
  | LvF dp x => omap (LvF dp) (pf (fmt_fixed dp x))
  | LvFg x txt => Ok (LvFg x txt)
  | LvDur d => omap LvDur (dur_parse (dur_string d))
  | LvLapDate t => omap LvLapDate (date_parse false (date_string false t))
  | LvFixDate t => omap LvFixDate (date_parse true (date_string true t))
  | LvCoord la lo => bind (pf (fmt_fixed 8 la)) (fun a => bind (pf (fmt_fixed 8 lo)) (fun b => Ok (LvCoord a b)))
  | LvAltCoord la lo al =>
      bind (pf (fmt_fixed 8 la)) (fun a => bind (pf (fmt_fixed 8 lo)) (fun b => bind (pf (fmt_fixed 1 al)) (fun c => Ok (LvAltCoord a b c))))
  | LvPos d p i => Ok (LvPos d p i)
  | LvRel dist off => bind (pf (fmt_fixed 1 dist)) (fun a => bind (dur_parse (dur_string off)) (fun o => Ok (LvRel a o)))
  | LvInter l => omap LvInter (mapM (fun '(d, x) => bind (dur_parse (dur_string d)) (fun d' => bind (pf (fmt_fixed 1 x)) (fun x' => Ok (d', x')))) l)
  | LvGear n r => omap (LvGear n) (pf (fmt_fixed 6 r))
  | LvTyre w p sr sz => if has_ws sr || match sr with [] => true | _ => false end then Err "tyre-speed-rating"
                        else Ok (LvTyre w p (clean_text sr) sz)
  | LvTags l =>
      match l with
      | [] => Ok (LvTags [])
      | _ => Ok (LvTags ((fix split (t : text) (cur : text) : list text :=
                            match t with
                            | [] => [rev' cur]
                            | c :: r => if c =? 44 then rev' cur :: split r [] else split r (c :: cur)
                            end) (clean_text (leaf_text (LvTags l))) []))
      end
  | LvThresh z => Ok (LvThresh z)
  | LvSync d =>
      bind (scan_d (chars_of (fmt_fixed 2 (seconds_f d)))) (fun '(s, r1) =>
      bind (scan_lit "."%char r1) (fun r2 => bind (scan_d r2) (fun '(cs, _) => Ok (LvSync (s * 1000000000 + cs * 10000000)))))
  end.

Definition zero_leaf (l : leaf) : leaf :=
  match l with
  | LvF dp _ => LvF dp 0
  | LvFg _ _ => LvFg 0 "0"
  | other => other
  end.

Fixpoint quant (v : val) : outcome val :=
  match v with
  | VLeaf l => omap VLeaf (quant_leaf l)
  | VStruct fields =>
      omap VStruct
        ((fix go (fs : list (string * mode * field)) : outcome (list (string * mode * field)) :=
            match fs with
            | [] => Ok []
            | (n, m, f) :: r =>
              bind (match f with
                    | FOne v' =>
                        (match m, v' with
                         | MOmit, VLeaf l => if leaf_empty l then Ok (FOne (VLeaf (zero_leaf l))) else omap FOne (quant v')
                         | _, _ => omap FOne (quant v')
                         end)
                    | FPtr None => Ok (FPtr None)
                    | FPtr (Some v') => omap (fun x => FPtr (Some x)) (quant v')
                    | FMany l => omap FMany ((fix gol (l : list val) : outcome (list val) :=
                                                match l with
                                                | [] => Ok []
                                                | x :: t => bind (quant x) (fun x' => bind (gol t) (fun t' => Ok (x' :: t')))
                                                end) l)
                    end) (fun f' => bind (go r) (fun r' => Ok ((n, m, f') :: r')))
            end) fields)
  end.

(* an optional fixed-decimal field that is not empty but decodes to an empty value: the
   re-encoding drops it (known finding D22) *)
Fixpoint vanishing (v : val) : bool :=
  match v with
  | VLeaf _ => false
  | VStruct fields =>
      existsb (fun '(n, m, f) =>
                 match f with
                 | FOne (VLeaf l) => (match m with MOmit => true | _ => false end) && negb (leaf_empty l) &&
                                     (match quant_leaf l with Ok l' => leaf_empty l' | _ => false end)
                 | FOne v' => vanishing v'
                 | FPtr (Some v') => vanishing v'
                 | FPtr None => false
                 | FMany l => existsb vanishing l
                 end) fields
  end.
