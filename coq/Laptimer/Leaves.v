(* pkg/laptimer/types.go: how each scalar or composite leaf is printed (MarshalXML /
   Sprintf / time.Format) and read back (UnmarshalXML / Sscanf / time.Parse / ParseFloat). *)
From Coq Require Import String Ascii List ZArith NArith Bool Lia.
From Flocq Require Import Core.
From Flocq.IEEE754 Require Import BinarySingleNaN Binary Bits.
From TT Require Import Base.Outcome Base.Str Base.F64 Base.GoParse Base.Civil.
Import ListNotations.
Local Open Scope string_scope.
Local Open Scope Z_scope.

(* ---- integers ---- *)
Fixpoint pos_digits (fuel : nat) (z : Z) (acc : list ascii) : list ascii :=
  match fuel with
  | O => acc
  | S f => let d := ascii_of_N (Z.to_N (48 + z mod 10)) in
           if z <? 10 then d :: acc else pos_digits f (z / 10) (d :: acc)
  end.
Definition nat_dec (z : Z) : string := of_chars (pos_digits 400 z []).
Definition itoa (z : Z) : string := if z <? 0 then "-" ++ nat_dec (- z) else nat_dec z.
(* %0Nd for a non-negative number *)
Definition pad (n : nat) (z : Z) : string :=
  let s := nat_dec z in
  of_chars (repeat "0"%char (n - String.length s)) ++ s.
Definition pad2 (z : Z) : string := if z <? 0 then "-" ++ pad 1 (- z) else pad 2 z.

(* ---- fmt "%.Nf" of a float64: the exact binary value rounded half-even to N decimals ---- *)
Definition fmt_fixed (dp : nat) (a : f64) : string :=
  match of_bits a with
  | Binary.B754_nan _ _ _ _ _ => "NaN"
  | Binary.B754_infinity _ _ s => if s then "-Inf" else "+Inf"
  | Binary.B754_zero _ _ s =>
      (if s then "-" else "") ++ "0" ++ (match dp with O => "" | _ => "." ++ of_chars (repeat "0"%char dp) end)
  | Binary.B754_finite _ _ s m e _ =>
      let p10 := 10 ^ Z.of_nat dp in
      let q := if 0 <=? e then Zpos m * 2 ^ e * p10
               else let num := Zpos m * p10 in let den := 2 ^ (- e) in
                    let q0 := num / den in let r := num mod den in
                    if den <? 2 * r then q0 + 1 else if 2 * r =? den then q0 + q0 mod 2 else q0 in
      (if s then "-" else "") ++ nat_dec (q / p10)
      ++ (match dp with O => "" | _ => "." ++ pad dp (q mod p10) end)
  end.

(* ---- durations MM:SS.cc ---- *)
Definition dur_string (d : Z) : string :=
  let m := Z.quot d 60000000000 in
  let s := Z.quot (d - m * 60000000000) 1000000000 in
  let cs := Z.quot (Z.quot (d - m * 60000000000 - s * 1000000000) 1000000) 10 in
  pad2 m ++ ":" ++ pad2 s ++ "." ++ pad2 cs.

Definition dur_parse (v : string) : outcome Z :=
  bind (scan_d (chars_of v)) (fun '(m, r1) =>
  bind (scan_lit ":"%char r1) (fun r2 => bind (scan_d r2) (fun '(s, r3) =>
  bind (scan_lit "."%char r3) (fun r4 => bind (scan_d r4) (fun '(cs, _) =>
    Ok (m * 60000000000 + s * 1000000000 + cs * 10 * 1000000)))))).

(* ---- dates: DD-MON-YY,HH:MM:SS[.cc], upper case, UTC ---- *)
Definition months : list string := ["JAN";"FEB";"MAR";"APR";"MAY";"JUN";"JUL";"AUG";"SEP";"OCT";"NOV";"DEC"].
Definition date_string (frac : bool) (t : Z) : string :=
  let '(y, mo, d) := civil_from_days (day_of_ns t) in
  let tod := tod_of_ns t in
  let hh := tod / 3600000000000 in
  let mi := (tod / 60000000000) mod 60 in
  let ss := (tod / 1000000000) mod 60 in
  let cc := (tod mod 1000000000) / 10000000 in
  pad 2 d ++ "-" ++ nth (Z.to_nat (mo - 1)) months "???" ++ "-" ++ pad 2 (y mod 100) ++ ","
  ++ pad 2 hh ++ ":" ++ pad 2 mi ++ ":" ++ pad 2 ss ++ (if frac then "." ++ pad 2 cc else "").

Definition two_digits (a b : ascii) : option Z :=
  if is_digit a && is_digit b then Some (10 * digit_val a + digit_val b) else None.
Definition upper (c : ascii) : ascii :=
  let n := N_of_ascii c in if ((97 <=? n) && (n <=? 122))%N then ascii_of_N (n - 32) else c.
Fixpoint find_month (l : list string) (i : Z) (m : string) : option Z :=
  match l with [] => None | x :: r => if String.eqb x m then Some i else find_month r (i + 1) m end.

(* time.Parse with the layouts 02-Jan-06,15:04:05 and 02-Jan-06,15:04:05.00 *)
Definition date_parse (frac : bool) (v : string) : outcome Z :=
  match chars_of v with
  | d1 :: d2 :: "-"%char :: m1 :: m2 :: m3 :: "-"%char :: y1 :: y2 :: ","%char
    :: h1 :: h2 :: ":"%char :: i1 :: i2 :: ":"%char :: s1 :: s2 :: rest =>
    match two_digits d1 d2, find_month months 1 (of_chars [upper m1; upper m2; upper m3]),
          two_digits y1 y2, two_digits h1 h2, two_digits i1 i2, two_digits s1 s2 with
    | Some d, Some mo, Some yy, Some hh, Some mi, Some ss =>
      let y := if 69 <=? yy then 1900 + yy else 2000 + yy in
      if (d <? 1) || (days_in_month y mo <? d) || (24 <=? hh) || (60 <=? mi) || (60 <=? ss) then Err "date-range" else
      let base := (days_from_civil y mo d * 86400 + hh * 3600 + mi * 60 + ss) * 1000000000 in
      if frac then
        match rest with
        | ["."%char; c1; c2] => match two_digits c1 c2 with
                                | Some cc => Ok (base + cc * 10000000)
                                | None => Err "date"
                                end
        | _ => Err "date"
        end
      else match rest with [] => Ok base | _ => Err "date-extra" end
    | _, _, _, _, _, _ => Err "date"
    end
  | _ => Err "date"
  end.

(* ---- small string helpers ---- *)
Fixpoint split_on (c : ascii) (l : list ascii) (cur : list ascii) : list (list ascii) :=
  match l with
  | [] => [rev' cur]
  | x :: r => if Ascii.eqb x c then rev' cur :: split_on c r [] else split_on c r (x :: cur)
  end.
Definition split_first (c : ascii) (s : string) : option (string * string) :=
  (fix go l acc := match l with
                   | [] => None
                   | x :: r => if Ascii.eqb x c then Some (of_chars (rev' acc), of_chars r) else go r (x :: acc)
                   end) (chars_of s) [].
Fixpoint join_with (sep : string) (l : list string) : string :=
  match l with [] => "" | [x] => x | x :: r => x ++ sep ++ join_with sep r end.

(* Duration.Seconds() *)
Definition seconds_f (d : Z) : f64 :=
  fadd (f_of_Z (Z.quot d 1000000000)) (fdiv (f_of_Z (Z.rem d 1000000000)) (f_of_Z 1000000000)).
