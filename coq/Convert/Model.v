(* pkg/convert/trackaddict.go + helpers.go, and Session.PredictOBD (pkg/trackaddict/session.go,
   obd.go) with gonum's PiecewiseLinear ported; the WGS-84 geodesic distance between successive
   fix positions is an oracle (the list the harness computed with geodesic.WGS84.Inverse). *)
From Coq Require Import String Ascii List ZArith Bool Lia.
From TT Require Import Base.Outcome Base.Str Base.F64 Base.Civil
     Trackaddict.Columns Trackaddict.Model.
Import ListNotations.
Local Open Scope Z_scope.

(* ---------------------------------------------------------------- output database *)
Record obd_out := mkObdOut { oo_rpm : option Z; oo_map : option f64; oo_speed : option f64;
                             oo_throttle : option f64; oo_coolant : option f64; oo_iat : option f64 }.
Record accel_out := mkAccelOut { ao_source : Z; ao_lateral : f64; ao_lineal : f64; ao_lat : f64; ao_lon : f64 }.
Record lfix := mkFix {
  f_id : Z; f_date : Z; f_lat : f64; f_lon : f64; f_alt : f64; f_speed : f64;
  f_diff : Z; f_posfix : Z; f_interp : bool; f_sats : Z; f_dir : f64; f_hdop : f64; f_acc : f64;
  f_dist : f64; f_offset : Z; f_accel : option accel_out; f_obd : option obd_out }.
Record llap := mkLLap {
  l_id : Z; l_date : option Z; l_time : Z; l_vehicle : string; l_track : string;
  l_tags : list string; l_note : string; l_rectype : Z; l_overall : f64; l_fixes : list lfix }.

Record opts := mkOpts {
  o_track : string; o_vehicle : string; o_tags : list string; o_note : string;
  o_diff : Z; o_posfix : Z;
  o_start : option Z;            (* start date (ns), None = zero time *)
  o_predict : nat }.             (* 0 = nil predictor, 1 = PiecewiseLinear *)

(* ---------------------------------------------------------------- helpers.go *)
Definition f10 := f_of_Z 10.
Definition f100 := f_of_Z 100.
Definition round1dp (v : f64) : f64 := fdiv (fround (fmul v f10)) f10.
Definition round2dp (v : f64) : f64 := fdiv (fround (fmul v f100)) f100.
Definition round0dp (v : f64) : f64 := fround v.
Definition roundint (v : f64) : Z := f_trunc_Z (fround v).

(* ---------------------------------------------------------------- PredictOBD *)
Definition dur_seconds (d : Z) : f64 :=
  let sec := Z.quot d 1000000000 in
  let nsec := Z.rem d 1000000000 in
  fadd (f_of_Z sec) (fdiv (f_of_Z nsec) (f_of_Z 1000000000)).
Definition max_duration : Z := 2 ^ 63 - 1.
Definition sat_sub (a b : Z) : Z :=
  let d := a - b in if max_duration <? d then max_duration else if d <? - 2 ^ 63 then - 2 ^ 63 else d.

Definition obd_fields (o : obd) : list (option f64) :=
  [o_speed o; o_rpm o; o_throttle o; o_coolant o; o_intake o; o_manifold o].
Definition present (l : list (option f64)) : list f64 :=
  flat_map (fun x => match x with Some v => [v] | None => [] end) l.

(* appendValues: the first fresh reading fixes the number of channels; each later reading
   appends its k-th present field to channel k (index out of range if it has more) *)
Fixpoint append_cols (ys : list (list f64)) (vs : list f64) : outcome (list (list f64)) :=
  match vs, ys with
  | [], _ => Ok ys
  | v :: vs', y :: ys' => bind (append_cols ys' vs') (fun t => Ok ((y ++ [v]) :: t))
  | _ :: _, [] => Panic "index out of range (appendValues)"
  end.
Definition append_values (ys : list (list f64)) (o : obd) : outcome (list (list f64)) :=
  let vs := present (obd_fields o) in
  match ys with
  | [] => append_cols (map (fun _ => []) vs) vs
  | _ => append_cols ys vs
  end.

Record pstate := mkP { p_start : option Z; p_xs : list f64; p_ys : list (list f64);
                       p_needed : list (nat * nat * f64) (* lap index, row index, x *) }.

Definition predict_row (li ri : nat) (st : pstate) (r : record) : outcome pstate :=
  match r_obd r with
  | Some o =>
    if o_update o then
      let '(start, x) := match p_start st with
                         | None => (Some (r_time r), fzero)
                         | Some s => (Some s, dur_seconds (sat_sub (r_time r) s))
                         end in
      bind (append_values (p_ys st) o) (fun ys =>
        Ok (mkP start (p_xs st ++ [x]) ys (p_needed st)))
    else if g_update (r_gps r) then
      let x := dur_seconds (match p_start st with
                            | None => max_duration    (* r.Time.Sub(zero time) saturates *)
                            | Some s => sat_sub (r_time r) s
                            end) in
      Ok (mkP (p_start st) (p_xs st) (p_ys st) (p_needed st ++ [(li, ri, x)]))
    else Ok st
  | None => Ok st
  end.

Fixpoint foldi {A St} (f : nat -> St -> A -> outcome St) (i : nat) (l : list A) (s : St) : outcome St :=
  match l with [] => Ok s | x :: t => bind (f i s x) (foldi f (S i) t) end.

(* gonum interp.PiecewiseLinear *)
Fixpoint strictly_increasing (xs : list f64) : bool :=
  match xs with
  | a :: ((b :: _) as t) => flt a b && strictly_increasing t
  | _ => true
  end.
Fixpoint slopes (xs ys : list f64) : list f64 :=
  match xs, ys with
  | x0 :: ((x1 :: _) as xt), y0 :: ((y1 :: _) as yt) => fdiv (fsub y1 y0) (fsub x1 x0) :: slopes xt yt
  | _, _ => []
  end.
(* index of the last knot <= x, or None *)
Fixpoint find_segment (xs : list f64) (x : f64) (i : nat) (best : option nat) : option nat :=
  match xs with
  | [] => best
  | k :: t => if fle k x then find_segment t x (S i) (Some i) else best
  end.
Definition pl_predict (xs ys : list f64) (x : f64) : f64 :=
  match find_segment xs x 0 None with
  | None => nth 0 ys 0
  | Some i =>
    let xi := nth i xs 0 in
    if feq x xi then nth i ys 0
    else if Nat.eqb i (length xs - 1) then nth i ys 0
    else fadd (nth i ys 0) (fmul (nth i (slopes xs ys) 0) (fsub x xi))
  end.

(* OBD.set: the k-th present field receives values[k] *)
Fixpoint set_fields (fs : list (option f64)) (vals : list f64) : outcome (list (option f64)) :=
  match fs with
  | [] => Ok []
  | None :: t => bind (set_fields t vals) (fun r => Ok (None :: r))
  | Some _ :: t => match vals with
                   | [] => Panic "index out of range (OBD.set)"
                   | v :: vt => bind (set_fields t vt) (fun r => Ok (Some v :: r))
                   end
  end.
Definition obd_set (o : obd) (vals : list f64) : outcome obd :=
  bind (set_fields (obd_fields o) vals) (fun fs =>
    match fs with
    | [a; b; c; d; e; f] => Ok (mkObd (o_update o) a b c d e f)
    | _ => Panic "obd fields"
    end).

Definition upd_nth {A} (n : nat) (f : A -> A) (l : list A) : list A :=
  (fix go n l := match l, n with
                 | [], _ => []
                 | x :: t, O => f x :: t
                 | x :: t, S n' => x :: go n' t
                 end) n l.

Definition set_record_obd (r : record) (o : obd) : record :=
  mkRecord (r_now r) (r_time r) (r_lap r) (r_pred r) (r_off r) (r_gps r) (r_speed r)
           (r_accel r) (r_brake r) (r_baro r) (r_palt r) (Some o).

(* a fitted predictor as a function: the knots xs, one channel's fresh readings ys, the query x.
   Session.PredictOBD fits one predictor PER CHANNEL on (xs, ys_channel). *)
Definition predictor := list f64 -> list f64 -> f64 -> f64.

Definition predict_obd_with (pred : predictor) (laps : list lap) : outcome (list lap) :=
  bind (foldi (fun li st l => foldi (predict_row li) 0 (lap_recs l) st) 0 laps (mkP None [] [] []))
  (fun st =>
    match p_needed st with
    | [] => Ok laps
    | _ =>
      if Nat.ltb (length (p_xs st)) 2 then Ok laps else
      if negb (strictly_increasing (p_xs st)) then Panic "gonum: xs not strictly increasing" else
      fold_left (fun acc '(li, ri, x) =>
        bind acc (fun laps =>
          let l := nth li laps lap0 in
          let r := nth ri (lap_recs l) record0 in
          match r_obd r with
          | None => Panic "nil obd"
          | Some o =>
            let vals := map (fun ys => pred (p_xs st) ys x) (p_ys st) in
            bind (obd_set o vals) (fun o' =>
              Ok (upd_nth li (fun l => mkLap (lap_dur l) (lap_num l)
                                             (upd_nth ri (fun r => set_record_obd r o') (lap_recs l))) laps))
          end))
        (p_needed st) (Ok laps)
    end).

Definition predict_obd : list lap -> outcome (list lap) := predict_obd_with pl_predict.

(* ---------------------------------------------------------------- lapTimerLap / lapTimerFix *)
Definition utc_midnight (t : Z) : Z := day_of_ns t * ns_per_day.

Definition fix_of (o : opts) (adjust : Z) (id : Z) (dist : f64) (r : record) (first_now : Z) : lfix :=
  mkFix id (r_time r + adjust) (g_lat (r_gps r)) (g_lon (r_gps r)) (g_alt (r_gps r))
        (round1dp (r_speed r)) (o_diff o) (o_posfix o) false 0
        (round1dp (g_head (r_gps r))) (f_of_Z 1) (round1dp (g_acc (r_gps r)))
        dist (r_now r - first_now)
        (match r_accel r with
         | None => None
         | Some a => Some (mkAccelOut 0 (round2dp (a_x a)) (round2dp (a_y a)) (g_lat (r_gps r)) (g_lon (r_gps r)))
         end)
        (match r_obd r with
         | None => None
         | Some ob => Some (mkObdOut (option_map roundint (o_rpm ob)) (option_map round2dp (o_manifold ob))
                                     (option_map round1dp (o_speed ob)) (option_map round2dp (o_throttle ob))
                                     (option_map round1dp (o_coolant ob)) (option_map round0dp (o_intake ob)))
         end).

(* rows after the first: (j <> 0 and no GPS update) rows are skipped; the others add the next
   oracle distance and become a fix *)
Fixpoint lap_rows (o : opts) (adjust : Z) (first_now : Z) (rows : list record) (geod : list f64)
         (id : Z) (dist : f64) : outcome (list lfix * f64 * list f64) :=
  match rows with
  | [] => Ok ([], dist, geod)
  | r :: t =>
    if g_update (r_gps r) then
      match geod with
      | [] => Err "?"                        (* oracle exhausted: harness/model mismatch *)
      | d :: geod' =>
        let dist' := fadd dist d in
        bind (lap_rows o adjust first_now t geod' (id + 1) dist') (fun '(fs, dl, g) =>
          Ok (fix_of o adjust id dist' r first_now :: fs, dl, g))
      end
    else lap_rows o adjust first_now t geod id dist
  end.

(* returns the lap, the (possibly newly computed) date adjustment state, and what is left of
   the oracle *)
Definition lap_of (o : opts) (vehicle : string) (adj : option Z) (id : Z) (l : lap) (geod : list f64)
  : outcome (llap * option Z * list f64) :=
  let base := mkLLap (lap_num l) None (lap_dur l) vehicle (o_track o) (o_tags o) (o_note o) 2 fzero [] in
  match lap_recs l with
  | [] => Ok (base, adj, geod)
  | r0 :: rest =>
    let adj' := match o_start o, adj with
                | Some sd, None => Some (sd - utc_midnight (r_time r0))
                | _, _ => adj
                end in
    let a := match adj' with Some a => a | None => 0 end in
    bind (lap_rows o a (r_now r0) rest geod (id + 1) fzero) (fun '(fs, dist, g) =>
      Ok (mkLLap (lap_num l) (Some (r_time r0 + a)) (lap_dur l) vehicle (o_track o) (o_tags o) (o_note o) 2
                 (round1dp dist) (fix_of o a id fzero r0 (r_now r0) :: fs), adj', g))
  end.

Fixpoint laps_of (o : opts) (vehicle : string) (adj : option Z) (id : Z) (ls : list lap) (geod : list (list f64))
  : outcome (list llap) :=
  match ls with
  | [] => Ok []
  | l :: t =>
    let g := match geod with g :: _ => g | [] => [] end in
    bind (lap_of o vehicle adj id l g) (fun '(ll, adj', _) =>
    bind (laps_of o vehicle adj' (id + Z.of_nat (length (l_fixes ll))) t (tl geod)) (fun r => Ok (ll :: r)))
  end.

Definition middle {A} (l : list A) : list A := removelast (tl l).

Definition convert_with (pred : predictor) (o : opts) (vehicle_logged : string) (laps : list lap) (geod : list (list f64))
  : outcome (list llap) :=
  let vehicle := if String.eqb (o_vehicle o) "" then vehicle_logged else o_vehicle o in
  bind (match o_predict o with O => Ok laps | _ => predict_obd_with pred laps end) (fun laps' =>
    if Nat.ltb (length laps') 3 then Ok []
    else laps_of o vehicle None 1 (middle laps') geod).
(* the default predictor is gonum's PiecewiseLinear *)
Definition convert : opts -> string -> list lap -> list (list f64) -> outcome (list llap) := convert_with pl_predict.
