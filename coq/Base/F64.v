(* IEEE-754 binary64 as used by Go's float64, on bit patterns (Z in [0, 2^64)).
   Arithmetic is Flocq's, rounding to nearest even; NaNs are canonicalised to one pattern,
   because the correspondence identifies all NaNs. *)
From Coq Require Import ZArith Bool List.
From Flocq Require Import Core.
From Flocq.IEEE754 Require Import BinarySingleNaN Binary Bits.
Import ListNotations.
Local Open Scope Z_scope.

Definition f64 := Z.   (* bit pattern *)

Definition nan_bits : Z := 0x7FF8000000000001.

Definition canon (b : binary64) : Z :=
  match b with
  | Binary.B754_nan _ _ _ _ _ => nan_bits
  | _ => bits_of_b64 b
  end.

Definition of_bits (z : Z) : binary64 := b64_of_bits (z mod 2^64).

Definition fnorm (z : f64) : f64 := canon (of_bits z).

Definition fmul (a b : f64) : f64 := canon (b64_mult mode_NE (of_bits a) (of_bits b)).
Definition fdiv (a b : f64) : f64 := canon (b64_div mode_NE (of_bits a) (of_bits b)).
Definition fadd (a b : f64) : f64 := canon (b64_plus mode_NE (of_bits a) (of_bits b)).
Definition fsub (a b : f64) : f64 := canon (b64_minus mode_NE (of_bits a) (of_bits b)).

(* float64(z) for an integer z: correctly rounded *)
Definition f_of_Z (z : Z) : f64 :=
  canon (Binary.binary_normalize 53 1024 eq_refl eq_refl mode_NE z 0 false).

(* nearest binary64 to m * 2^e *)
Definition f_of_Z_exp (m e : Z) : f64 :=
  canon (Binary.binary_normalize 53 1024 eq_refl eq_refl mode_NE m e false).

Definition fneg (a : f64) : f64 := canon (b64_opp (of_bits a)).

Definition fzero : f64 := 0.
Definition fnegzero : f64 := 0x8000000000000000.

Definition f_is_nan (a : f64) : bool :=
  match of_bits a with Binary.B754_nan _ _ _ _ _ => true | _ => false end.
Definition f_is_finite (a : f64) : bool := Binary.is_finite 53 1024 (of_bits a).

Definition fcmp (a b : f64) : option comparison := b64_compare (of_bits a) (of_bits b).
Definition flt (a b : f64) : bool := match fcmp a b with Some Lt => true | _ => false end.
Definition fle (a b : f64) : bool := match fcmp a b with Some Lt | Some Eq => true | _ => false end.
Definition feq (a b : f64) : bool := match fcmp a b with Some Eq => true | _ => false end.

(* Correctly rounded quotient p / q of two integers (q > 0): nearest-even binary64.
   The quotient is taken with at least 64 significant bits plus a sticky bit, so one
   final rounding by binary_normalize is the correct rounding of the rational. *)
Definition f_of_ratio (p q : Z) : f64 :=
  if q <=? 0 then nan_bits else
  if p =? 0 then fzero else
  let a := Z.abs p in
  let k := Z.max 0 (66 + Z.log2 q - Z.log2 a) in
  let n := a * 2 ^ k in
  let d := n / q in
  let sticky := if n mod q =? 0 then 0 else 1 in
  let m := 2 * d + sticky in
  let r := f_of_Z_exp m (- k - 1) in
  if p <? 0 then fneg r else r.

(* float32 bit pattern -> float64 bit pattern (exact) *)
Definition f64_of_f32_bits (z : Z) : f64 :=
  match b32_of_bits (z mod 2^32) with
  | Binary.B754_zero _ _ s => if s then fnegzero else fzero
  | Binary.B754_infinity _ _ s => if s then 0xFFF0000000000000 else 0x7FF0000000000000
  | Binary.B754_nan _ _ _ _ _ => nan_bits
  | Binary.B754_finite _ _ s m e _ =>
      let r := f_of_Z_exp (Zpos m) e in if s then fneg r else r
  end.

(* math.Round: half away from zero, on finite values; keeps sign of zero *)
Definition fround (a : f64) : f64 :=
  match of_bits a with
  | Binary.B754_finite _ _ s m e _ =>
      if 0 <=? e then fnorm a else
      let sh := 2 ^ (- e) in
      let q := Zpos m / sh in
      let r2 := 2 * (Zpos m mod sh) in
      let n := if sh <=? r2 then q + 1 else q in
      if n =? 0 then (if s then fnegzero else fzero)
      else let r := f_of_Z n in if s then fneg r else r
  | _ => fnorm a
  end.

(* Go's int(f)/int64(f) for finite in-range f: truncation toward zero. *)
Definition f_trunc_Z (a : f64) : Z :=
  match of_bits a with
  | Binary.B754_finite _ _ s m e _ =>
      let v := if 0 <=? e then Zpos m * 2 ^ e else Zpos m / 2 ^ (- e) in
      if s then - v else v
  | _ => 0
  end.
