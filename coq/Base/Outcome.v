(* Outcomes of modelled Go calls: a value, a Go error (small enum, never message text),
   a run-time panic (index out of range, nil map write, nil deref, integer division by
   zero ...) or exhaustion of the fuel given to an unbounded loop. *)
From Coq Require Import String List.
Import ListNotations.

Inductive outcome (A : Type) : Type :=
| Ok (a : A)
| Err (e : string)
| Panic (site : string)
| OutOfFuel.
Arguments Ok {A} a.
Arguments Err {A} e.
Arguments Panic {A} site.
Arguments OutOfFuel {A}.

Definition bind {A B} (x : outcome A) (f : A -> outcome B) : outcome B :=
  match x with
  | Ok a => f a
  | Err e => Err e
  | Panic s => Panic s
  | OutOfFuel => OutOfFuel
  end.

Declare Scope outcome_scope.
Delimit Scope outcome_scope with outcome.
Notation "'let*' x ':=' c1 'in' c2" := (bind c1 (fun x => c2))
  (at level 61, x pattern, c1 at next level, right associativity) : outcome_scope.

Definition omap {A B} (f : A -> B) (x : outcome A) : outcome B :=
  bind x (fun a => Ok (f a)).

Definition is_ok {A} (x : outcome A) : bool := match x with Ok _ => true | _ => false end.
Definition is_err {A} (x : outcome A) : bool := match x with Err _ => true | _ => false end.
Definition is_panic {A} (x : outcome A) : bool := match x with Panic _ => true | _ => false end.

(* "The call returned": a value or an error, never a crash and never a hang. *)
Definition returns {A} (x : outcome A) : Prop :=
  (exists a, x = Ok a) \/ (exists e, x = Err e).

(* outcome class letter used by the correspondence: o / e / p / f *)
Definition oclass {A} (x : outcome A) : nat :=
  match x with Ok _ => 0 | Err _ => 1 | Panic _ => 2 | OutOfFuel => 3 end.

Fixpoint mapM {A B} (f : A -> outcome B) (l : list A) : outcome (list B) :=
  match l with
  | [] => Ok []
  | x :: xs => bind (f x) (fun y => bind (mapM f xs) (fun ys => Ok (y :: ys)))
  end.

Fixpoint foldM {A S} (f : S -> A -> outcome S) (l : list A) (s : S) : outcome S :=
  match l with
  | [] => Ok s
  | x :: xs => bind (f s x) (fun s' => foldM f xs s')
  end.
