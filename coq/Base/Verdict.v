(* Verdict letters of the correspondence check (DESIGN.md 2.1). *)
From Coq Require Import String Ascii List.
Import ListNotations.
Inductive verdict := VA | VV | VS | VK | VO.
Definition vchar (v : verdict) : ascii :=
  match v with VA => "A" | VV => "V" | VS => "S" | VK => "K" | VO => "O" end%char.
Fixpoint render (l : list verdict) : string :=
  match l with [] => EmptyString | v :: r => String (vchar v) (render r) end.

(* a second string, one character per case: does the case meet the hypothesis of the property's
   main theorem?  (statistics for the evidence file, not a verdict) *)
Fixpoint renderb (l : list bool) : string :=
  match l with [] => EmptyString | b :: r => String (if b then "1"%char else "0"%char) (renderb r) end.
