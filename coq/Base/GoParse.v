(* Ports of the Go standard-library text parsers the modelled code calls.
   Err "?" = input outside the modelled fragment (verdict O in the correspondence). *)
From Coq Require Import String Ascii List ZArith Bool Lia.
From TT Require Import Base.Outcome Base.Str Base.F64.
Import ListNotations.
Local Open Scope char_scope.
Local Open Scope Z_scope.

Definition unmodelled {A} : outcome A := Err "?"%string.
Definition is_unmodelled {A} (x : outcome A) : bool :=
  match x with Err e => String.eqb e "?"%string | _ => false end.

Fixpoint span_digits (l : list ascii) : list ascii * list ascii :=
  match l with
  | c :: r => if is_digit c then let '(d, t) := span_digits r in (c :: d, t) else ([], l)
  | [] => ([], [])
  end.

Fixpoint all_b {A} (p : A -> bool) (l : list A) : bool :=
  match l with [] => true | x :: r => p x && all_b p r end.

Definition is_ascii7 (c : ascii) : bool := (N_of_ascii c <? 128)%N.

(* ---- strconv.ParseFloat(s, 64) on plain decimals: optional sign, digits, optional point and digits ---- *)
Definition float_letter (c : ascii) : bool :=
  (* characters that may occur in some text Go accepts as a float but this model does not
     cover: exponents, hex floats, inf/infinity/nan, underscores *)
  let n := N_of_ascii c in
  let lower := if ((65 <=? n) && (n <=? 90))%N then (n + 32)%N else n in
  existsb (N.eqb lower) (map N_of_ascii ["e";"x";"p";"_";"i";"n";"f";"a";"t";"y";"b";"c";"d"]).

Definition max_f64_exact : Z := 2 ^ 1024.

Definition parse_float_chars (l : list ascii) : outcome f64 :=
  if negb (all_b (fun c => is_digit c || Ascii.eqb c "." || Ascii.eqb c "+" || Ascii.eqb c "-") l)
  then (if all_b (fun c => is_digit c || Ascii.eqb c "." || Ascii.eqb c "+" || Ascii.eqb c "-"
                           || float_letter c) l
        then unmodelled else Err "parsefloat")
  else
  let '(neg, r) := match l with
                   | "-" :: r => (true, r)
                   | "+" :: r => (false, r)
                   | _ => (false, l)
                   end in
  let '(ip, r1) := span_digits r in
  let '(fp, r2) := match r1 with
                   | "." :: t => span_digits t
                   | _ => ([], r1)
                   end in
  match r2 with
  | _ :: _ => Err "parsefloat"
  | [] =>
    match ip, fp with
    | [], [] => Err "parsefloat"
    | _, _ =>
      let m := digits_val (digits_val 0 ip) fp in
      let d := Z.of_nat (length fp) in
      let v := f_of_ratio m (10 ^ d) in
      if f_is_finite v then
        Ok (if neg then fneg v else v)
      else Err "parsefloat-range"
    end
  end.
Definition parse_float (s : string) : outcome f64 := parse_float_chars (chars_of s).

(* ---- strconv.Atoi ---- *)
Definition int64_ok (z : Z) : bool := (- 2^63 <=? z) && (z <? 2^63).

Definition atoi_chars (l : list ascii) : outcome Z :=
  let '(neg, r) := match l with
                   | "-" :: r => (true, r)
                   | "+" :: r => (false, r)
                   | _ => (false, l)
                   end in
  match r with
  | [] => Err "atoi"
  | _ => if all_b is_digit r then
           let v := digits_val 0 r in
           let v := if neg then - v else v in
           if int64_ok v then Ok v else Err "atoi-range"
         else Err "atoi"
  end.
Definition atoi (s : string) : outcome Z := atoi_chars (chars_of s).

(* ---- strconv.ParseBool ---- *)
Definition parse_bool (s : string) : outcome bool :=
  if str_in s ["1";"t";"T";"TRUE";"true";"True"]%string then Ok true
  else if str_in s ["0";"f";"F";"FALSE";"false";"False"]%string then Ok false
  else Err "parsebool".

(* ---- fmt.Sscanf: one %d verb (digits 0-9 only: the underscore is a digit for %v, not for %d;
   the number ends at the first non-digit and the rest is left to the format).  Leading blanks are skipped (space, tab); any other
   white space (CR, LF, VT, FF, NBSP ...) before the number is outside the model. ---- *)
Definition is_blank (c : ascii) : bool := Ascii.eqb c " " || Ascii.eqb c "009".
Definition odd_space (c : ascii) : bool :=
  let n := N_of_ascii c in
  ((10 <=? n) && (n <=? 13))%N || (128 <=? n)%N.

Fixpoint skip_blanks (l : list ascii) : list ascii :=
  match l with c :: r => if is_blank c then skip_blanks r else l | [] => [] end.

(* bits: the width of the Go destination (64 for int/int64) *)
Definition scan_d (l : list ascii) : outcome (Z * list ascii) :=
  let l := skip_blanks l in
  match l with
  | [] => Err "scan-eof"
  | c :: _ =>
    if odd_space c then unmodelled else
    let '(neg, r) := match l with
                     | "-" :: r => (true, r)
                     | "+" :: r => (false, r)
                     | _ => (false, l)
                     end in
    let '(ds, rest) := span_digits r in
    match ds with
    | [] => Err "scan-int"
    | _ => if all_b is_digit ds then
             let v := digits_val 0 ds in
             let v := if neg then - v else v in
             if int64_ok v then Ok (v, rest) else Err "scan-range"
           else Err "scan-int"
    end
  end.

(* a literal (non-space, non-%) format character *)
Definition scan_lit (c : ascii) (l : list ascii) : outcome (list ascii) :=
  match l with
  | x :: r => if Ascii.eqb x c then Ok r else Err "scan-lit"
  | [] => Err "scan-lit"
  end.

(* ---- time.ParseDuration (result in ns, int64 range) ---- *)
Definition unit_ns (u : string) : option Z :=
  if String.eqb u "ns" then Some 1
  else if String.eqb u "us" then Some 1000
  else if String.eqb u (String "194" (String "181" "s")) then Some 1000      (* U+00B5 *)
  else if String.eqb u (String "206" (String "188" "s")) then Some 1000      (* U+03BC *)
  else if String.eqb u "ms" then Some 1000000
  else if String.eqb u "s" then Some 1000000000
  else if String.eqb u "m" then Some 60000000000
  else if String.eqb u "h" then Some 3600000000000
  else None.

Fixpoint span_unit (l : list ascii) : list ascii * list ascii :=
  match l with
  | c :: r => if Ascii.eqb c "." || is_digit c then ([], l)
              else let '(u, t) := span_unit r in (c :: u, t)
  | [] => ([], [])
  end.

(* leadingInt: error when the value exceeds 2^63 (Go checks x > 1<<63/10 before *10 and
   x > 1<<63 after adding) *)
Fixpoint leading_int (x : Z) (l : list ascii) : option (Z * list ascii) :=
  match l with
  | c :: r => if is_digit c then
                if 2^63 / 10 <? x then None else
                let x' := x * 10 + digit_val c in
                if 2^63 <? x' then None else leading_int x' r
              else Some (x, l)
  | [] => Some (x, [])
  end.

(* leadingFraction: digits after the point; stops accumulating on overflow *)
Fixpoint leading_fraction (x scale : Z) (ovf : bool) (l : list ascii) : Z * Z * list ascii :=
  match l with
  | c :: r => if is_digit c then
                if ovf then leading_fraction x scale true r else
                if (2^63 - 1) / 10 <? x then leading_fraction x scale true r else
                let y := x * 10 + digit_val c in
                if 2^63 <? y then leading_fraction x scale true r
                else leading_fraction y (scale * 10) false r
              else (x, scale, l)
  | [] => (x, scale, [])
  end.

Definition frac_part (r1 : list ascii) : Z * Z * list ascii * bool :=
  match r1 with
  | c :: t => if Ascii.eqb c "." then
                let '(f, sc, r2) := leading_fraction 0 1 false t in
                (f, sc, r2, negb (Nat.eqb (length r2) (length t)))
              else (0, 1, r1, false)
  | [] => (0, 1, r1, false)
  end.

(* v*unit + f*unit/scale.  Go computes the fraction in float64: float64(f)*(float64(unit)/scale);
   for the at-most-three-digit fractions of the modelled logs this is exact; anything longer
   than 15 digits is outside the model. *)
Fixpoint dur_loop (fuel : nat) (d : Z) (l : list ascii) : outcome Z :=
  match l with
  | [] => Ok d
  | c :: _ =>
    match fuel with
    | O => OutOfFuel
    | S fuel' =>
      if negb (Ascii.eqb c "." || is_digit c) then Err "duration" else
      match leading_int 0 l with
      | None => Err "duration"
      | Some (v, r1) =>
        let pre := negb (Nat.eqb (length r1) (length l)) in
        let '(f, scale, r2, post) := frac_part r1 in
        if negb (pre || post) then Err "duration" else
        let '(u, r3) := span_unit r2 in
        match u with
        | [] => Err "duration"
        | _ =>
          match unit_ns (of_chars u) with
          | None => Err "duration"
          | Some unit =>
            if 2^63 / unit <? v then Err "duration" else
            let v := v * unit in
            if 10^15 <? scale then unmodelled else
            let v := if 0 <? f then v + (f * unit) / scale else v in
            if 2^63 <? v then Err "duration" else
            let d := d + v in
            if 2^63 <? d then Err "duration" else dur_loop fuel' d r3
          end
        end
      end
    end
  end.

Definition parse_duration (s : string) : outcome Z :=
  let l := chars_of s in
  if negb (all_b is_ascii7 l) then unmodelled else
  let '(neg, r) := match l with
                   | "-" :: r => (true, r)
                   | "+" :: r => (false, r)
                   | _ => (false, l)
                   end in
  match r with
  | ["0"] => Ok 0
  | [] => Err "duration"
  | _ =>
    match dur_loop (length r) 0 r with
    | Ok d => if neg then Ok (- d)
              else if 2^63 - 1 <? d then Err "duration" else Ok d
    | e => e
    end
  end.

(* strings.Replace(s, old, new, 1) for a single-character old *)
Fixpoint replace_first (c : ascii) (by_ : list ascii) (l : list ascii) : list ascii :=
  match l with
  | x :: r => if Ascii.eqb x c then by_ ++ r else x :: replace_first c by_ r
  | [] => []
  end.
