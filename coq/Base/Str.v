(* Strings: text travels from the harness as lists of byte values and is rebuilt here. *)
From Coq Require Import String Ascii List NArith ZArith Bool.
Import ListNotations.
Local Open Scope string_scope.

Definition s_of_bytes (l : list N) : string :=
  fold_right (fun b s => String (ascii_of_N b) s) EmptyString l.

Fixpoint bytes_of_s (s : string) : list N :=
  match s with
  | EmptyString => []
  | String c r => N_of_ascii c :: bytes_of_s r
  end.

Definition chars := list ascii.
Fixpoint chars_of (s : string) : list ascii :=
  match s with EmptyString => [] | String c r => c :: chars_of r end.
Fixpoint of_chars (l : list ascii) : string :=
  match l with [] => EmptyString | c :: r => String c (of_chars r) end.

Lemma of_chars_of s : of_chars (chars_of s) = s.
Proof. induction s; simpl; congruence. Qed.
Lemma chars_of_of l : chars_of (of_chars l) = l.
Proof. induction l; simpl; congruence. Qed.

Definition is_digit (c : ascii) : bool :=
  let n := N_of_ascii c in (48 <=? n)%N && (n <=? 57)%N.
Definition digit_val (c : ascii) : Z := Z.of_N (N_of_ascii c) - 48.

Fixpoint digits_val (acc : Z) (l : list ascii) : Z :=
  match l with [] => acc | c :: r => digits_val (acc * 10 + digit_val c) r end.

Definition prefix_b (p s : string) : bool := String.prefix p s.

Fixpoint drop (n : nat) (s : string) : string :=
  match n, s with
  | O, _ => s
  | S n', String _ r => drop n' r
  | S _, EmptyString => EmptyString
  end.

Fixpoint str_in (s : string) (l : list string) : bool :=
  match l with [] => false | x :: r => String.eqb s x || str_in s r end.

(* render helpers for verdict strings *)
Fixpoint concat_s (l : list string) : string :=
  match l with [] => "" | x :: r => x ++ concat_s r end.

(* run-length helper used by the harness for long runs of one byte *)
Definition rep (b : N) (n : Z) : list N := repeat b (Z.to_nat n).
