(* Fixed-decimal leaves: printing a float64 to dp decimals, reading the text back and printing
   again gives the same text (values below 2^51 units of the last printed decimal). *)
From Coq Require Import ZArith Reals Lra Lia Bool List String Ascii.
From Flocq Require Import Core Relative.
From Flocq.IEEE754 Require Import BinarySingleNaN Binary Bits.
From TT Require Import Base.Outcome Base.Str Base.F64 Base.GoParse Laptimer.Leaves Proofs.C10_real.
Import ListNotations.
Local Open Scope Z_scope.

(* ---- the integer the printer rounds to ---- *)
Definition scaled_q (m : positive) (e : Z) (dp : nat) : Z :=
  let p10 := 10 ^ Z.of_nat dp in
  if 0 <=? e then Zpos m * 2 ^ e * p10
  else let num := Zpos m * p10 in let den := 2 ^ (- e) in
       let q0 := num / den in let r := num mod den in
       if den <? 2 * r then q0 + 1 else if 2 * r =? den then q0 + q0 mod 2 else q0.

(* a ratio num/den strictly within 1/2 of the integer N rounds to N *)
Lemma round_half_even_near num den N :
  0 < den -> Z.abs (2 * num - 2 * N * den) < den ->
  (let q0 := num / den in let r := num mod den in
   if den <? 2 * r then q0 + 1 else if 2 * r =? den then q0 + q0 mod 2 else q0) = N.
Proof.
  intros Hd H. cbv zeta.
  pose proof (Z.div_mod num den ltac:(lia)) as E. pose proof (Z.mod_pos_bound num den Hd) as Hr.
  set (q0 := num / den) in *. set (r := num mod den) in *.
  assert (Hq : q0 = N \/ q0 = N - 1) by nia.
  destruct Hq as [Hq|Hq].
  - assert (2 * r < den) by nia.
    destruct (Z.ltb_spec den (2 * r)); [lia|]. destruct (Z.eqb_spec (2 * r) den); [lia|]. exact Hq.
  - assert (den < 2 * r) by nia.
    destruct (Z.ltb_spec den (2 * r)); [lia|lia].
Qed.

(* ---- f_of_ratio p q is p/q up to a relative error just above half an ulp ---- *)
Local Open Scope R_scope.

Lemma log2_scale (p q : Z) : (0 < p)%Z -> (0 < q)%Z ->
  let k := Z.max 0 (66 + Z.log2 q - Z.log2 p) in (2 ^ 65 * q <= p * 2 ^ k)%Z.
Proof.
  intros Hp Hq k. pose proof (Z.log2_spec p Hp) as [P1 P2]. pose proof (Z.log2_spec q Hq) as [Q1 Q2].
  pose proof (Z.log2_nonneg p). pose proof (Z.log2_nonneg q).
  destruct (Z.max_spec 0 (66 + Z.log2 q - Z.log2 p)) as [[Hlt Ek]|[Hge Ek]]; unfold k; rewrite Ek.
  - (* k = 66 + lq - lp *)
    apply Z.le_trans with (2 ^ Z.log2 p * 2 ^ (66 + Z.log2 q - Z.log2 p))%Z.
    + rewrite <- Z.pow_add_r by lia. replace (Z.log2 p + (66 + Z.log2 q - Z.log2 p))%Z with (65 + Z.succ (Z.log2 q))%Z by lia.
      rewrite Z.pow_add_r by lia. apply Z.mul_le_mono_nonneg_l; lia.
    + apply Z.mul_le_mono_nonneg_r; [apply Z.pow_nonneg; lia|exact P1].
  - (* k = 0 *)
    rewrite Z.pow_0_r, Z.mul_1_r. apply Z.le_trans with (2 ^ Z.log2 p)%Z; [|exact P1].
    apply Z.le_trans with (2 ^ (65 + Z.succ (Z.log2 q)))%Z.
    + rewrite Z.pow_add_r by lia. apply Z.mul_le_mono_nonneg_l; lia.
    + apply Z.pow_le_mono_r; lia.
Qed.

Definition ratio_m (p q : Z) : Z * Z :=
  let k := Z.max 0 (66 + Z.log2 q - Z.log2 p) in
  let n := (p * 2 ^ k)%Z in
  let d := (n / q)%Z in
  ((2 * d + (if (n mod q =? 0)%Z then 0 else 1))%Z, (- k - 1)%Z).

Lemma f_of_ratio_pos p q : (0 < p)%Z -> (0 < q)%Z ->
  f_of_ratio p q = f_of_Z_exp (fst (ratio_m p q)) (snd (ratio_m p q)).
Proof.
  intros Hp Hq. unfold f_of_ratio, ratio_m. destruct (Z.leb_spec q 0); [lia|]. destruct (Z.eqb_spec p 0); [lia|].
  rewrite Z.abs_eq by lia. cbn [fst snd]. destruct (Z.ltb_spec p 0); [lia|]. reflexivity.
Qed.

(* the truncated quotient with sticky bit is within one unit of the exact scaled quotient *)
Lemma ratio_m_close p q : (0 < p)%Z -> (0 < q)%Z ->
  let '(m, e) := ratio_m p q in
  Rabs (IZR m * bpow radix2 e - IZR p / IZR q) <= bpow radix2 e /\
  bpow radix2 e <= IZR p / IZR q * bpow radix2 (-66) /\ (0 < m)%Z.
Proof.
  intros Hp Hq. unfold ratio_m. set (k := Z.max 0 (66 + Z.log2 q - Z.log2 p)).
  pose proof (log2_scale p q Hp Hq) as Hs. fold k in Hs.
  assert (Hk : (0 <= k)%Z) by (unfold k; lia).
  set (n := (p * 2 ^ k)%Z). set (d := (n / q)%Z).
  pose proof (Z.div_mod n q ltac:(lia)) as En. pose proof (Z.mod_pos_bound n q Hq) as Hr. fold d in En.
  set (st := if (n mod q =? 0)%Z then 0%Z else 1%Z).
  assert (Hst : (2 * d * q <= 2 * n)%Z /\ (2 * n <= (2 * d + st) * q)%Z \/ True) by (right; exact I).
  assert (Hq0 : 0 < IZR q) by (apply IZR_lt; lia).
  assert (Hp0 : 0 < IZR p) by (apply IZR_lt; lia).
  assert (H2k : bpow radix2 (- k - 1) = / (2 * IZR (2 ^ k))).
  { replace (- k - 1)%Z with (- (k + 1))%Z by lia. rewrite bpow_opp, bpow_plus. rewrite <- (IZR_Zpower radix2 k Hk).
    change (bpow radix2 1) with 2. change (radix_val radix2) with 2%Z. f_equal. ring. }
  assert (Hpk : 0 < IZR (2 ^ k)) by (apply IZR_lt; apply Z.pow_pos_nonneg; lia).
  (* |m' - 2n/q| <= 1 as integers: 2d q <= 2n <= (2d+st) q + (q - ...) *)
  assert (Hm : (Z.abs ((2 * d + st) * q - 2 * n) <= q)%Z).
  { unfold st. destruct (Z.eqb_spec (n mod q) 0) as [E0|N0]; lia. }
  assert (Hdpos : (2 ^ 65 <= d)%Z \/ True) by (right; exact I).
  split; [|split].
  - (* scale the integer inequality *)
    apply le_IZR in Hm || idtac.
    assert (Hm' : Rabs (IZR ((2 * d + st) * q - 2 * n)) <= IZR q) by (rewrite <- abs_IZR; apply IZR_le; exact Hm).
    rewrite minus_IZR, !mult_IZR in Hm'. unfold n in Hm'. rewrite mult_IZR in Hm'.
    rewrite H2k.
    replace (IZR (2 * d + st) * / (2 * IZR (2 ^ k)) - IZR p / IZR q)
      with ((IZR (2 * d + st) * IZR q - 2 * (IZR p * IZR (2 ^ k))) / (2 * IZR (2 ^ k) * IZR q)) by (field; lra).
    unfold Rdiv. rewrite Rabs_mult. rewrite (Rabs_pos_eq (/ _)) by (apply Rlt_le, Rinv_0_lt_compat; nra).
    apply Rle_trans with (IZR q * / (2 * IZR (2 ^ k) * IZR q)).
    + apply Rmult_le_compat_r; [apply Rlt_le, Rinv_0_lt_compat; nra|exact Hm'].
    + right. field. lra.
  - rewrite H2k. apply IZR_le in Hs. rewrite !mult_IZR in Hs.
    change (bpow radix2 (-66)) with (/ IZR (2 ^ 66)). change (IZR (2 ^ 65)) with 36893488147419103232 in Hs.
    change (IZR (2 ^ 66)) with 73786976294838206464.
    apply Rmult_le_reg_r with (2 * IZR (2 ^ k) * IZR q * 73786976294838206464); [nra|].
    field_simplify; [|lra|lra]. nra.
  - assert (0 < d)%Z; [|unfold st; destruct (n mod q =? 0)%Z; lia].
    apply Z.div_str_pos. unfold n. split; [lia|]. apply Z.le_trans with (2 ^ 65 * q)%Z; [nia|exact Hs].
Qed.

Lemma R_of_f_of_Z_exp m e :
  Rabs (rnd64 (F2R (Float radix2 m e))) < bpow radix2 1024 ->
  R_of (f_of_Z_exp m e) = rnd64 (F2R (Float radix2 m e)).
Proof.
  intros Hov. unfold f_of_Z_exp. rewrite R_of_canon.
  pose proof (binary_normalize_correct 53 1024 eq_refl eq_refl mode_NE m e false) as H.
  cbn [round_mode] in H. change (SpecFloat.fexp 53 1024) with (FLT_exp (-1074) 53) in H.
  rewrite Rlt_bool_true in H by exact Hov. exact (proj1 H).
Qed.

(* 0 < p < 2^52, 0 < q <= 10^22: the float is p/q within (2^-53 + 2^-64) relative *)
Theorem f_of_ratio_close p q :
  (0 < p < 2 ^ 52)%Z -> (0 < q <= 10 ^ 22)%Z ->
  Rabs (R_of (f_of_ratio p q) - IZR p / IZR q) <= (bpow radix2 (-53) + bpow radix2 (-64)) * (IZR p / IZR q).
Proof.
  intros [Hp Hp2] [Hq Hq2]. rewrite f_of_ratio_pos by assumption.
  pose proof (ratio_m_close p q Hp Hq) as Hc. destruct (ratio_m p q) as [m e]. cbn [fst snd]. destruct Hc as [C1 [C2 C3]].
  set (X := IZR p / IZR q) in *.
  assert (Hq0 : 0 < IZR q) by (apply IZR_lt; lia).
  assert (Hp0 : 0 < IZR p) by (apply IZR_lt; lia).
  assert (HX : 0 < X) by (unfold X; apply Rdiv_lt_0_compat; assumption).
  assert (HX2 : X < bpow radix2 52).
  { assert (Hinv : / IZR q <= 1) by (rewrite <- Rinv_1; apply Rinv_le_contravar; [lra|apply IZR_le; lia]).
    apply Rle_lt_trans with (IZR p); [unfold X, Rdiv; nra|]. change (bpow radix2 52) with (IZR (2 ^ 52)). apply IZR_lt. lia. }
  set (Zv := IZR m * bpow radix2 e) in *.
  assert (HZ : F2R (Float radix2 m e) = Zv) by reflexivity.
  assert (H66 : bpow radix2 (-66) <= / 2) by (change (/ 2) with (bpow radix2 (-1)); apply bpow_le; lia).
  assert (HZv : Rabs Zv <= X * (1 + bpow radix2 (-66))).
  { replace Zv with ((Zv - X) + X) by ring. eapply Rle_trans; [apply Rabs_triang|]. rewrite (Rabs_pos_eq X) by lra. lra. }
  assert (Hov : Rabs (rnd64 (F2R (Float radix2 m e))) < bpow radix2 1024).
  { rewrite HZ. apply no_overflow_small. eapply Rle_trans; [exact HZv|].
    apply Rle_trans with (bpow radix2 52 * 2); [|change 2 with (bpow radix2 1); rewrite <- bpow_plus; apply bpow_le; lia].
    pose proof (bpow_ge_0 radix2 (-66)). nra. }
  rewrite R_of_f_of_Z_exp by exact Hov. rewrite HZ.
  destruct (round_form Zv) as [eps [eta [He [Ht E]]]]. rewrite E. unfold rel_ok, abs_ok, u64 in *.
  replace (Zv * (1 + eps) + eta - X) with ((Zv - X) + Zv * eps + eta) by ring.
  eapply Rle_trans; [apply Rabs_triang|]. eapply Rle_trans; [apply Rplus_le_compat_r, Rabs_triang|].
  rewrite Rabs_mult.
  assert (H1 : Rabs Zv * Rabs eps <= X * (1 + bpow radix2 (-66)) * bpow radix2 (-53)).
  { apply Rmult_le_compat; try apply Rabs_pos; assumption. }
  (* the underflow quantum is far below X * 2^-66: X >= 10^-22 *)
  assert (Hxmin : bpow radix2 (-74) <= X).
  { unfold X. apply Rle_trans with (1 / IZR q).
    - change (bpow radix2 (-74)) with (/ IZR (2 ^ 74)). unfold Rdiv. rewrite Rmult_1_l. apply Rinv_le_contravar; [lra|]. apply IZR_le. lia.
    - unfold Rdiv. apply Rmult_le_compat_r; [apply Rlt_le, Rinv_0_lt_compat; lra|]. apply IZR_le. lia. }
  assert (Heta : Rabs eta <= X * bpow radix2 (-200)).
  { eapply Rle_trans; [exact Ht|]. apply Rle_trans with (bpow radix2 (-74) * bpow radix2 (-200)); [rewrite <- bpow_plus; apply bpow_le; lia|].
    apply Rmult_le_compat_r; [apply bpow_ge_0|exact Hxmin]. }
  (* collect: 2^-66 + 2^-53 (1 + 2^-66) + 2^-200 <= 2^-53 + 2^-64 *)
  assert (Hsum : bpow radix2 (-66) + (1 + bpow radix2 (-66)) * bpow radix2 (-53) + bpow radix2 (-200) <= bpow radix2 (-53) + bpow radix2 (-64)).
  { assert (A : bpow radix2 (-66) * bpow radix2 (-53) <= bpow radix2 (-66)).
    { rewrite <- bpow_plus. apply bpow_le. lia. }
    assert (B : bpow radix2 (-200) <= bpow radix2 (-66)) by (apply bpow_le; lia).
    assert (C : 3 * bpow radix2 (-66) <= bpow radix2 (-64)).
    { replace (-64)%Z with (2 + -66)%Z by lia. rewrite bpow_plus. change (bpow radix2 2) with 4. pose proof (bpow_ge_0 radix2 (-66)). lra. }
    lra. }
  apply Rle_trans with (X * (bpow radix2 (-66) + (1 + bpow radix2 (-66)) * bpow radix2 (-53) + bpow radix2 (-200))); [|rewrite Rmult_comm; apply Rmult_le_compat_r; lra].
  eapply Rle_trans; [apply Rplus_le_compat; [apply Rplus_le_compat; [exact (Rle_trans _ _ _ C1 C2)|exact H1]|exact Heta]|]. right. ring.
Qed.

Definition decomp_pos (a : f64) : option (positive * Z) :=
  match of_bits a with Binary.B754_finite _ _ false m e _ => Some (m, e) | _ => None end.

Lemma pow10_pos dp : (0 < 10 ^ Z.of_nat dp)%Z.
Proof. apply Z.pow_pos_nonneg; lia. Qed.

(* a float whose value times 10^dp is strictly within 1/2 of the positive integer N prints as N *)
Lemma near_scaled a N dp :
  (0 < N)%Z -> Rabs (R_of a * IZR (10 ^ Z.of_nat dp) - IZR N) < / 2 ->
  exists m e, decomp_pos a = Some (m, e) /\ scaled_q m e dp = N.
Proof.
  intros HN Hs. set (q := (10 ^ Z.of_nat dp)%Z) in *.
  assert (Hq : (0 < q)%Z) by (unfold q; apply pow10_pos).
  set (Y := R_of a) in *.
  assert (Hq0 : 0 < IZR q) by (apply IZR_lt; lia).
  assert (HN0 : 0 < IZR N) by (apply IZR_lt; lia).
  assert (HY : 0 < Y).
  { apply Rabs_def2 in Hs. assert (/ 2 < IZR N) by (apply Rlt_le_trans with 1; [lra|apply IZR_le; lia]).
    assert (0 < Y * IZR q) by lra. destruct (Rle_or_lt Y 0) as [Hle|Hlt]; [|exact Hlt]. nra. }
  unfold decomp_pos. unfold Y, R_of in *. destruct (of_bits a) as [s|s|s pl Hpl|s m e He]; cbn [B2R] in *; try lra.
  destruct s.
  { exfalso. unfold F2R in HY. cbn [Fnum Fexp cond_Zopp] in HY. pose proof (bpow_gt_0 radix2 e).
    assert (IZR (- Z.pos m) < 0) by (apply IZR_lt; lia). nra. }
  exists m, e. split; [reflexivity|]. unfold scaled_q. fold q.
  unfold F2R in Hs. cbn [Fnum Fexp cond_Zopp] in Hs.
  destruct (Z.leb_spec 0 e) as [He0|He0].
  - rewrite <- (IZR_Zpower radix2 e He0) in Hs. change (radix_val radix2) with 2%Z in Hs.
    rewrite <- !mult_IZR, <- minus_IZR in Hs. rewrite <- abs_IZR in Hs.
    assert (Hz : (Z.abs (Z.pos m * 2 ^ e * q - N) < 1)%Z).
    { apply lt_IZR. eapply Rlt_trans; [exact Hs|]. lra. }
    lia.
  - apply round_half_even_near; [apply Z.pow_pos_nonneg; lia|].
    set (den := (2 ^ (- e))%Z). assert (Hden : (0 < den)%Z) by (apply Z.pow_pos_nonneg; lia).
    assert (Eb : bpow radix2 e = / IZR den).
    { replace e with (- (- e))%Z at 1 by lia. rewrite bpow_opp. rewrite <- (IZR_Zpower radix2 (- e)) by lia. reflexivity. }
    rewrite Eb in Hs. assert (Hd0 : 0 < IZR den) by (apply IZR_lt; exact Hden).
    apply lt_IZR. rewrite abs_IZR, minus_IZR, !mult_IZR.
    replace (2 * (IZR (Z.pos m) * IZR q) - 2 * IZR N * IZR den) with (2 * IZR den * (IZR (Z.pos m) * / IZR den * IZR q - IZR N)) by (field; lra).
    rewrite Rabs_mult, (Rabs_pos_eq (2 * IZR den)) by lra.
    apply Rlt_le_trans with (2 * IZR den * / 2); [apply Rmult_lt_compat_l; [lra|exact Hs]|right; field].
Qed.

(* the float nearest to N / 10^dp prints, at dp decimals, as N again *)
Theorem printed_back N dp :
  (0 < N < 2 ^ 51)%Z -> (dp <= 22)%nat ->
  exists m e, decomp_pos (f_of_ratio N (10 ^ Z.of_nat dp)) = Some (m, e) /\ scaled_q m e dp = N.
Proof.
  intros [HN HN2] Hdp. apply near_scaled; [exact HN|]. set (q := (10 ^ Z.of_nat dp)%Z).
  assert (Hq : (0 < q <= 10 ^ 22)%Z) by (unfold q; split; [apply pow10_pos|apply Z.pow_le_mono_r; lia]).
  pose proof (f_of_ratio_close N q ltac:(lia) Hq) as Hc.
  set (Y := R_of (f_of_ratio N q)) in *.
  assert (Hq0 : 0 < IZR q) by (apply IZR_lt; lia).
  assert (HN0 : 0 < IZR N) by (apply IZR_lt; lia).
  assert (HN51 : IZR N < bpow radix2 51) by (change (bpow radix2 51) with (IZR (2 ^ 51)); apply IZR_lt; lia).
  replace (Y * IZR q - IZR N) with ((Y - IZR N / IZR q) * IZR q) by (field; lra).
  rewrite Rabs_mult, (Rabs_pos_eq (IZR q)) by lra.
  apply Rle_lt_trans with ((bpow radix2 (-53) + bpow radix2 (-64)) * (IZR N / IZR q) * IZR q).
  - apply Rmult_le_compat_r; [lra|exact Hc].
  - replace ((bpow radix2 (-53) + bpow radix2 (-64)) * (IZR N / IZR q) * IZR q) with ((bpow radix2 (-53) + bpow radix2 (-64)) * IZR N) by (field; lra).
    apply Rlt_le_trans with ((bpow radix2 (-53) + bpow radix2 (-64)) * bpow radix2 51).
    + apply Rmult_lt_compat_l; [pose proof (bpow_gt_0 radix2 (-53)); pose proof (bpow_gt_0 radix2 (-64)); lra|exact HN51].
    + rewrite Rmult_plus_distr_r, <- !bpow_plus. change (bpow radix2 (-53 + 51)) with (/ 4).
      assert (bpow radix2 (-64 + 51) <= / 4) by (change (/ 4) with (bpow radix2 (-2)); apply bpow_le; lia). lra.
Qed.

(* ---------------------------------------------------------------- the text layer *)
Local Open Scope Z_scope.
From TT Require Import Proofs.Leaf_proofs.
Local Notation length := Datatypes.length (only parsing).

Lemma pos_digits_len : forall fuel z acc n, 0 <= z < 10 ^ Z.of_nat n -> (1 <= n <= fuel)%nat ->
  (length (pos_digits fuel z acc) <= n + length acc)%nat.
Proof.
  induction fuel as [|f IH]; intros z acc n Hz Hn; [lia|]. cbn [pos_digits].
  destruct (Z.ltb_spec z 10); [cbn [length]; lia|].
  destruct n as [|n]; [lia|]. destruct n as [|n]; [cbn in Hz; lia|].
  specialize (IH (z / 10) (ascii_of_N (Z.to_N (48 + z mod 10)) :: acc) (S n)).
  cbn [length] in IH. rewrite Nat2Z.inj_succ, Z.pow_succ_r in Hz by lia.
  assert (0 <= z / 10 < 10 ^ Z.of_nat (S n)) by (split; [apply Z.div_pos; lia|apply Z.div_lt_upper_bound; lia]).
  specialize (IH H0 ltac:(lia)). lia.
Qed.

Lemma string_length_chars s : String.length s = length (chars_of s).
Proof. induction s; cbn; congruence. Qed.

Lemma nat_dec_len z n : 0 <= z < 10 ^ Z.of_nat n -> (1 <= n <= 400)%nat -> (length (chars_of (nat_dec z)) <= n)%nat.
Proof.
  intros Hz Hn. unfold nat_dec. rewrite chars_of_of. pose proof (pos_digits_len 400 z [] n Hz ltac:(lia)). cbn [length] in H. lia.
Qed.

Lemma pad_len n z : 0 <= z < 10 ^ Z.of_nat n -> (1 <= n <= 400)%nat -> length (chars_of (pad n z)) = n.
Proof.
  intros Hz Hn. unfold pad. rewrite chars_app, chars_of_of, app_length, repeat_length, string_length_chars.
  pose proof (nat_dec_len z n Hz Hn). lia.
Qed.

Lemma digits_val_shift : forall l a, digits_val a l = a * 10 ^ Z.of_nat (length l) + digits_val 0 l.
Proof.
  induction l as [|c l IH]; intros a; cbn [digits_val length]; [cbn; lia|].
  rewrite IH, (IH (0 * 10 + digit_val c)). rewrite Nat2Z.inj_succ, Z.pow_succ_r by lia. ring.
Qed.

Lemma span_digits_app : forall dz rest, forallb is_digit dz = true ->
  match rest with [] => True | c :: _ => is_digit c = false end ->
  span_digits (dz ++ rest) = (dz, rest).
Proof.
  induction dz as [|c dz IH]; intros rest Hd Hs; cbn [app].
  - destruct rest as [|c r]; [reflexivity|]. cbn [span_digits]. rewrite Hs. reflexivity.
  - cbn [forallb] in Hd. apply andb_true_iff in Hd. destruct Hd as [H1 H2]. cbn [span_digits]. rewrite H1, (IH rest H2 Hs). reflexivity.
Qed.

(* sign, integer digits, and dp fraction digits *)
Definition dec_text (s : bool) (N : Z) (dp : nat) : string :=
  ((if s then "-" else "") ++ nat_dec (N / 10 ^ Z.of_nat dp)
   ++ (match dp with O => "" | _ => "." ++ pad dp (N mod 10 ^ Z.of_nat dp) end))%string.

Lemma fmt_fixed_finite dp a s m e H :
  of_bits a = Binary.B754_finite 53 1024 s m e H -> fmt_fixed dp a = dec_text s (scaled_q m e dp) dp.
Proof. intros E. unfold fmt_fixed, dec_text, scaled_q. rewrite E. reflexivity. Qed.

Definition allowed (c : ascii) : bool := is_digit c || Ascii.eqb c "." || Ascii.eqb c "+" || Ascii.eqb c "-".
Lemma digits_allowed l : forallb is_digit l = true -> all_b allowed l = true.
Proof.
  induction l as [|c l IH]; intros H; [reflexivity|]. cbn [forallb all_b] in *. apply andb_true_iff in H. destruct H as [H1 H2].
  unfold allowed at 1. rewrite H1, (IH H2). reflexivity.
Qed.
Lemma all_b_app {A} (p : A -> bool) l1 l2 : all_b p (l1 ++ l2) = all_b p l1 && all_b p l2.
Proof. induction l1 as [|x l IH]; cbn [app all_b]; [reflexivity|]. rewrite IH, andb_assoc. reflexivity. Qed.

Lemma digit_not_sign c : is_digit c = true ->
  forall (A : Type) (x y : list ascii -> A) (z : A) r,
    match c :: r with "-"%char :: r' => x r' | "+"%char :: r' => y r' | _ => z end = z.
Proof.
  intros H A x y z r. destruct c as [[] [] [] [] [] [] [] []]; try discriminate H; reflexivity.
Qed.

(* reading a printed fixed decimal: the float nearest to N / 10^dp, with the sign *)
Lemma parse_dec_text s N dp :
  0 <= N < 10 ^ 300 -> (dp <= 22)%nat -> f_is_finite (f_of_ratio N (10 ^ Z.of_nat dp)) = true ->
  parse_float (dec_text s N dp) = Ok (if s then fneg (f_of_ratio N (10 ^ Z.of_nat dp)) else f_of_ratio N (10 ^ Z.of_nat dp)).
Proof.
  intros HN Hdp Hfin. set (p10 := 10 ^ Z.of_nat dp). assert (Hp10 : 0 < p10) by apply pow10_pos.
  assert (Hip : 0 <= N / p10 < 10 ^ 400).
  { split; [apply Z.div_pos; lia|]. apply Z.le_lt_trans with N; [apply Z.div_le_upper_bound; nia|]. apply Z.lt_trans with (10 ^ 300); [lia|reflexivity]. }
  destruct (nat_dec_chars (N / p10) Hip) as [ipd [E1 [E2 [E3 [_ E5]]]]].
  unfold parse_float, dec_text. fold p10. rewrite !chars_app, E1.
  destruct ipd as [|i0 ipr]; [congruence|].
  assert (Hi0 : is_digit i0 = true) by (cbn [forallb] in E3; apply andb_true_iff in E3; tauto).
  (* the fraction part *)
  assert (Hfrac : exists fpd, chars_of (match dp with O => "" | S _ => "." ++ pad dp (N mod p10) end)%string =
                              (match dp with O => [] | S _ => "."%char :: fpd end) /\
                              forallb is_digit fpd = true /\ digits_val 0 fpd = N mod p10 /\ length fpd = dp /\ (dp = O -> fpd = [])).
  { destruct dp as [|dp'].
    - exists []. repeat split; try reflexivity. cbn. unfold p10. cbn. rewrite Z.mod_1_r. reflexivity.
    - assert (Hm : 0 <= N mod p10 < p10) by (apply Z.mod_pos_bound; lia).
      destruct (pad_chars (S dp') (N mod p10) ltac:(split; [lia|]; apply Z.lt_le_trans with p10; [lia|]; unfold p10; apply Z.pow_le_mono_r; lia)) as [fpd [F1 [F2 [F3 F4]]]].
      exists fpd. rewrite chars_app, F1. repeat split; try assumption; try discriminate.
      rewrite <- F1. apply pad_len; [exact Hm|lia]. }
  destruct Hfrac as [fpd [Ef [Ff1 [Ff2 [Ff3 Ff4]]]]]. rewrite Ef.
  set (tail := match dp with O => [] | S _ => "."%char :: fpd end).
  assert (Htail_allowed : all_b allowed tail = true).
  { unfold tail. destruct dp; [reflexivity|]. cbn [all_b]. rewrite (digits_allowed _ Ff1). reflexivity. }
  assert (Hnum_allowed : all_b allowed ((i0 :: ipr) ++ tail) = true) by (rewrite all_b_app, (digits_allowed _ E3), Htail_allowed; reflexivity).
  unfold parse_float_chars.
  assert (Hstop : match tail with [] => True | c :: _ => is_digit c = false end) by (unfold tail; destruct dp; [exact I|reflexivity]).
  assert (Hval : digits_val (digits_val 0 (i0 :: ipr)) fpd = N).
  { rewrite digits_val_shift, E2, Ff2, Ff3. fold p10. pose proof (Z.div_mod N p10 ltac:(lia)). lia. }
  destruct s.
  - change (chars_of "-") with ["-"%char]. cbn [app].
    assert (Hall : all_b allowed ("-"%char :: (i0 :: ipr) ++ tail) = true) by (cbn [all_b]; rewrite Hnum_allowed; reflexivity).
    unfold allowed in Hall. cbn [app] in Hall. rewrite Hall. cbn [negb].
    change (i0 :: ipr ++ tail) with ((i0 :: ipr) ++ tail).
    rewrite (span_digits_app (i0 :: ipr) tail E3 Hstop).
    unfold tail. destruct dp as [|dp'].
    + rewrite (Ff4 eq_refl) in *. cbn [span_digits]. cbn [length] in *. rewrite Hval. change (Z.of_nat 0) with 0 in *. rewrite Hfin. reflexivity.
    + rewrite <- (app_nil_r fpd) at 1. rewrite (span_digits_app fpd [] Ff1 I). rewrite Hval, Ff3. unfold p10. rewrite Hfin. reflexivity.
  - change (chars_of "") with (@nil ascii). cbn [app].
    assert (Hall := Hnum_allowed). unfold allowed in Hall. cbn [app] in Hall. rewrite Hall. cbn [negb].
    rewrite (digit_not_sign i0 Hi0).
    change (i0 :: ipr ++ tail) with ((i0 :: ipr) ++ tail).
    rewrite (span_digits_app (i0 :: ipr) tail E3 Hstop).
    unfold tail. destruct dp as [|dp'].
    + rewrite (Ff4 eq_refl) in *. cbn [span_digits]. cbn [length] in *. rewrite Hval. change (Z.of_nat 0) with 0 in *. rewrite Hfin. reflexivity.
    + rewrite <- (app_nil_r fpd) at 1. rewrite (span_digits_app fpd [] Ff1 I). rewrite Hval, Ff3. unfold p10. rewrite Hfin. reflexivity.
Qed.

Lemma decomp_pos_of_bits a m e : decomp_pos a = Some (m, e) -> exists H, of_bits a = Binary.B754_finite 53 1024 false m e H.
Proof.
  unfold decomp_pos. destruct (of_bits a) as [?|?|? ? ?|s m' e' H']; try discriminate. destruct s; [discriminate|].
  intros E; inversion E; subst. exists H'. reflexivity.
Qed.

Lemma of_bits_fneg a m e H : of_bits a = Binary.B754_finite 53 1024 false m e H ->
  exists H', of_bits (fneg a) = Binary.B754_finite 53 1024 true m e H'.
Proof.
  intros E. unfold fneg. rewrite E. unfold b64_opp. cbn [Bopp]. 
  match goal with |- context [canon ?b] => set (b0 := b) end.
  assert (Hb : exists H', b0 = Binary.B754_finite 53 1024 true m e H') by (unfold b0; cbn; eexists; reflexivity).
  destruct Hb as [H' Hb]. exists H'. rewrite Hb. cbn [canon]. apply of_bits_bits. reflexivity.
Qed.

(* A fixed-decimal leaf: whatever finite float is printed at dp decimals (printing N units of the
   last decimal, 0 < N < 2^51, either sign), reading the text gives a float that prints as the
   very same text: the second encoding of a database equals the first, leaf by leaf. *)
Theorem fixed_reprint dp a s m e H :
  of_bits a = Binary.B754_finite 53 1024 s m e H -> (0 < scaled_q m e dp < 2 ^ 51)%Z -> (dp <= 22)%nat ->
  exists a', parse_float (fmt_fixed dp a) = Ok a' /\ fmt_fixed dp a' = fmt_fixed dp a.
Proof.
  intros E HN Hdp. set (N := scaled_q m e dp) in *.
  rewrite (fmt_fixed_finite dp a s m e H E). fold N.
  destruct (printed_back N dp HN Hdp) as [m' [e' [Hd Hq]]].
  destruct (decomp_pos_of_bits _ _ _ Hd) as [H' Ev].
  set (v := f_of_ratio N (10 ^ Z.of_nat dp)) in *.
  assert (Hfin : f_is_finite v = true) by (unfold f_is_finite; rewrite Ev; reflexivity).
  assert (HN300 : 0 <= N < 10 ^ 300) by (split; [lia|]; apply Z.lt_trans with (2 ^ 51); [lia|reflexivity]).
  rewrite (parse_dec_text s N dp HN300 Hdp Hfin). fold v.
  destruct s.
  - destruct (of_bits_fneg v m' e' H' Ev) as [H'' Ef]. exists (fneg v). split; [reflexivity|].
    rewrite (fmt_fixed_finite dp (fneg v) true m' e' H'' Ef), Hq. reflexivity.
  - exists v. split; [reflexivity|]. rewrite (fmt_fixed_finite dp v false m' e' H' Ev), Hq. reflexivity.
Qed.

(* values that print as zero (also -0.00): the text is stable as well *)
Lemma repeat_snoc {A} (x : A) n : repeat x n ++ [x] = x :: repeat x n.
Proof. induction n as [|n IH]; [reflexivity|]. cbn [repeat app]. rewrite IH. reflexivity. Qed.

Lemma dec_text_zero s dp :
  dec_text s 0 dp = ((if s then "-" else "") ++ "0" ++ (match dp with O => "" | _ => "." ++ of_chars (repeat "0"%char dp) end))%string.
Proof.
  unfold dec_text. rewrite Z.div_0_l, Z.mod_0_l by (pose proof (pow10_pos dp); lia).
  change (nat_dec 0) with "0"%string. destruct dp as [|dp']; [reflexivity|].
  f_equal. f_equal. f_equal. unfold pad. change (nat_dec 0) with "0"%string. cbn [String.length].
  replace (S dp' - 1)%nat with dp' by lia.
  rewrite <- (of_chars_of "0"%string). cbn [chars_of].
  assert (G : forall l1 l2, (of_chars l1 ++ of_chars l2)%string = of_chars (l1 ++ l2)) by (induction l1; intros; cbn; congruence).
  rewrite G, repeat_snoc. reflexivity.
Qed.

Theorem fixed_reprint_zero dp a s m e H :
  of_bits a = Binary.B754_finite 53 1024 s m e H -> scaled_q m e dp = 0%Z -> (dp <= 22)%nat ->
  exists a', parse_float (fmt_fixed dp a) = Ok a' /\ fmt_fixed dp a' = fmt_fixed dp a.
Proof.
  intros E HN Hdp. rewrite (fmt_fixed_finite dp a s m e H E), HN.
  assert (Hz : f_of_ratio 0 (10 ^ Z.of_nat dp) = fzero).
  { unfold f_of_ratio. pose proof (pow10_pos dp). destruct (Z.leb_spec (10 ^ Z.of_nat dp) 0); [lia|]. reflexivity. }
  rewrite (parse_dec_text s 0 dp ltac:(split; [lia|reflexivity]) Hdp) by (rewrite Hz; reflexivity). rewrite Hz.
  rewrite dec_text_zero. destruct s.
  - exists (fneg fzero). split; [reflexivity|]. reflexivity.
  - exists fzero. split; [reflexivity|]. reflexivity.
Qed.

(* ---- in terms of the leaves of the LapTimer model ---- *)
From TT Require Import Xml.Print Laptimer.Value Laptimer.Codec.

(* x prints, at dp decimals, as N units of the last decimal with |N| < 2^51 (or as zero) *)
Definition printable (dp : nat) (x : f64) : Prop :=
  (exists s, of_bits x = Binary.B754_zero 53 1024 s) \/
  exists s m e H, of_bits x = Binary.B754_finite 53 1024 s m e H /\ (0 <= scaled_q m e dp < 2 ^ 51)%Z.

(* plus or minus zero *)
Lemma zero_reprint dp x s : of_bits x = Binary.B754_zero 53 1024 s -> (dp <= 22)%nat ->
  exists x', parse_float (fmt_fixed dp x) = Ok x' /\ fmt_fixed dp x' = fmt_fixed dp x.
Proof.
  intros E Hdp.
  assert (Ht : fmt_fixed dp x = dec_text s 0 dp) by (rewrite dec_text_zero; unfold fmt_fixed; rewrite E; reflexivity).
  rewrite Ht.
  assert (Hz : f_of_ratio 0 (10 ^ Z.of_nat dp) = fzero).
  { unfold f_of_ratio. pose proof (pow10_pos dp). destruct (Z.leb_spec (10 ^ Z.of_nat dp) 0); [lia|]. reflexivity. }
  rewrite (parse_dec_text s 0 dp ltac:(split; [lia|reflexivity]) Hdp) by (rewrite Hz; reflexivity). rewrite Hz.
  rewrite dec_text_zero. destruct s.
  - exists (fneg fzero). split; [reflexivity|]. reflexivity.
  - exists fzero. split; [reflexivity|]. reflexivity.
Qed.
Definition stable (dp : nat) (x : f64) : Prop :=
  exists x', pf (fmt_fixed dp x) = Ok x' /\ fmt_fixed dp x' = fmt_fixed dp x.

Lemma printable_stable dp x : (dp <= 22)%nat -> printable dp x -> stable dp x.
Proof.
  intros Hdp [[s E]|[s [m [e [H [E HN]]]]]]; unfold stable, pf.
  { exact (zero_reprint dp x s E Hdp). }
  destruct (Z.eq_dec (scaled_q m e dp) 0) as [Hz|Hnz].
  - exact (fixed_reprint_zero dp x s m e H E Hz Hdp).
  - exact (fixed_reprint dp x s m e H E ltac:(lia) Hdp).
Qed.

(* decoding a fixed-decimal leaf and encoding it again writes the same text *)
Theorem fixed_leaf_reencode dp x : (dp <= 22)%nat -> printable dp x ->
  exists l', quant_leaf (LvF dp x) = Ok l' /\ leaf_text l' = leaf_text (LvF dp x).
Proof.
  intros Hdp Hp. destruct (printable_stable dp x Hdp Hp) as [x' [E1 E2]].
  exists (LvF dp x'). cbn [quant_leaf leaf_text]. rewrite E1. cbn [omap]. split; [reflexivity|]. rewrite E2. reflexivity.
Qed.

Theorem coord_leaf_reencode la lo : printable 8 la -> printable 8 lo ->
  exists l', quant_leaf (LvCoord la lo) = Ok l' /\ leaf_text l' = leaf_text (LvCoord la lo).
Proof.
  intros Ha Hb. destruct (printable_stable 8 la ltac:(lia) Ha) as [a [A1 A2]]. destruct (printable_stable 8 lo ltac:(lia) Hb) as [b [B1 B2]].
  exists (LvCoord a b). cbn [quant_leaf leaf_text]. rewrite A1. cbn [bind]. rewrite B1. cbn [bind]. split; [reflexivity|]. rewrite A2, B2. reflexivity.
Qed.

Theorem gear_leaf_reencode n r : printable 6 r ->
  exists l', quant_leaf (LvGear n r) = Ok l' /\ leaf_text l' = leaf_text (LvGear n r).
Proof.
  intros Hp. destruct (printable_stable 6 r ltac:(lia) Hp) as [r' [E1 E2]].
  exists (LvGear n r'). cbn [quant_leaf leaf_text]. rewrite E1. cbn [omap]. split; [reflexivity|]. rewrite E2. reflexivity.
Qed.

Lemma printable_of_decomp dp x s m e :
  decomp x = Some (s, m, e) -> (0 <= scaled_q m e dp < 2 ^ 51)%Z -> printable dp x.
Proof.
  unfold decomp, printable. destruct (of_bits x) as [?|?|? ? ?|s' m' e' H']; try discriminate.
  intros E Hq. injection E as -> -> ->. right. exists s, m, e, H'. split; [reflexivity|exact Hq].
Qed.

(* the hypothesis is met by ordinary values: 50.857952 degrees at 8 decimals *)
Example printable_example : printable 8 (f_of_ratio 50857952 1000000).
Proof.
  apply (printable_of_decomp 8 _ false 7157620427375830%positive (-47)%Z).
  - vm_compute. reflexivity.
  - vm_compute. split; [discriminate|reflexivity].
Qed.
