(* The video sync point leaf: seconds with two decimals. *)
From Coq Require Import ZArith Reals Lra Lia Bool List String Ascii.
From Flocq Require Import Core Relative.
From Flocq.IEEE754 Require Import BinarySingleNaN Binary Bits.
From TT Require Import Base.Outcome Base.Str Base.F64 Base.GoParse Xml.Print Laptimer.Leaves Laptimer.Value Laptimer.Codec
     Proofs.C10_real Proofs.Leaf_proofs Proofs.Fixed_proofs.
Import ListNotations.
Local Open Scope R_scope.

(* integers below 2^53 are float64 values *)
Lemma R_of_f_of_Z_exact z : (Z.abs z <= 2 ^ 53)%Z -> R_of (f_of_Z z) = IZR z.
Proof.
  intros Hz. change (f_of_Z z) with (f_of_Z_exp z 0).
  assert (HF : F2R (Float radix2 z 0) = IZR z) by (unfold F2R; cbn; ring).
  assert (Hg : generic_format radix2 (FLT_exp (-1074) 53) (IZR z)).
  { destruct (Z.eq_dec (Z.abs z) (2 ^ 53)) as [E|N].
    - (* +-2^53 *)
      assert (Hz' : z = (2 ^ 53)%Z \/ z = (- 2 ^ 53)%Z) by lia.
      destruct Hz' as [-> | ->].
      + change (IZR (2 ^ 53)) with (bpow radix2 53). apply generic_format_bpow. unfold FLT_exp. lia.
      + rewrite opp_IZR. apply generic_format_opp. change (IZR (2 ^ 53)) with (bpow radix2 53). apply generic_format_bpow. unfold FLT_exp. lia.
    - apply generic_format_FLT. exists (Float radix2 z 0); [symmetry; exact HF| cbn; lia | cbn; lia]. }
  rewrite R_of_f_of_Z_exp.
  - rewrite HF. apply round_generic; [apply valid_rnd_N|exact Hg].
  - rewrite HF, round_generic by (try apply valid_rnd_N; exact Hg).
    apply Rle_lt_trans with (bpow radix2 53); [|apply bpow_lt; lia].
    rewrite <- abs_IZR. change (bpow radix2 53) with (IZR (2 ^ 53)). apply IZR_le. exact Hz.
Qed.

Lemma fadd_form a b : finite a -> finite b -> Rabs (rnd64 (R_of a + R_of b)) < bpow radix2 1024 ->
  exists eps eta, rel_ok eps /\ abs_ok eta /\ R_of (fadd a b) = (R_of a + R_of b) * (1 + eps) + eta.
Proof.
  intros Fa Fb Hov. unfold fadd. rewrite R_of_canon. unfold b64_plus.
  pose proof (Bplus_correct 53 1024 eq_refl eq_refl binop_nan_pl64 mode_NE (of_bits a) (of_bits b) Fa Fb) as H.
  cbn [round_mode] in H. fold (R_of a) (R_of b) in H. change (SpecFloat.fexp 53 1024) with (FLT_exp (-1074) 53) in H.
  rewrite Rlt_bool_true in H by exact Hov. destruct H as [H _]. rewrite H. apply round_form.
Qed.

Lemma finite_canon b : Binary.is_finite 53 1024 b = true -> finite (canon b).
Proof.
  intros H. unfold finite, f_is_finite. destruct b as [s|s|s pl Hpl|s m e He]; try discriminate H; cbn [canon];
    rewrite of_bits_bits by reflexivity; reflexivity.
Qed.
Lemma finite_f_of_Z z : (Z.abs z <= 2 ^ 53)%Z -> finite (f_of_Z z).
Proof.
  intros Hz. unfold f_of_Z. apply finite_canon.
  pose proof (binary_normalize_correct 53 1024 eq_refl eq_refl mode_NE z 0 false) as H.
  cbn [round_mode] in H. change (SpecFloat.fexp 53 1024) with (FLT_exp (-1074) 53) in H.
  assert (HF : F2R (Float radix2 z 0) = IZR z) by (unfold F2R; cbn; ring).
  rewrite Rlt_bool_true in H; [exact (proj1 (proj2 H))|].
  rewrite HF. apply no_overflow_small. rewrite <- abs_IZR. apply Rle_trans with (IZR (2 ^ 53)); [apply IZR_le; exact Hz|].
  change (IZR (2 ^ 53)) with (bpow radix2 53). apply bpow_le. lia.
Qed.
Lemma finite_fdiv a b : finite a -> R_of b <> 0 -> Rabs (rnd64 (R_of a / R_of b)) < bpow radix2 1024 -> finite (fdiv a b).
Proof.
  intros Fa Hb Hov. unfold fdiv. apply finite_canon. unfold b64_div.
  pose proof (Bdiv_correct 53 1024 eq_refl eq_refl binop_nan_pl64 mode_NE (of_bits a) (of_bits b) Hb) as H.
  cbn [round_mode] in H. fold (R_of a) (R_of b) in H. change (SpecFloat.fexp 53 1024) with (FLT_exp (-1074) 53) in H.
  rewrite Rlt_bool_true in H by exact Hov. destruct H as [_ [H _]]. rewrite H. exact Fa.
Qed.

(* seconds_f of N hundredths of a second is N/100 within a quarter of a hundredth *)
Lemma seconds_f_hundredths N : (0 < N < 2 ^ 51)%Z ->
  Rabs (R_of (seconds_f (N * 10000000)) * IZR (10 ^ Z.of_nat 2) - IZR N) < / 2.
Proof.
  intros [HN HN2]. unfold seconds_f.
  assert (Eq : Z.quot (N * 10000000) 1000000000 = (N / 100)%Z) by (rewrite Z.quot_div_nonneg by lia; lia).
  assert (Er : Z.rem (N * 10000000) 1000000000 = ((N mod 100) * 10000000)%Z) by (rewrite Z.rem_mod_nonneg by lia; lia).
  rewrite Eq, Er. set (S := (N / 100)%Z). set (c := (N mod 100)%Z).
  assert (HS : (0 <= S < 2 ^ 51)%Z) by (unfold S; lia). assert (Hc : (0 <= c < 100)%Z) by (unfold c; lia).
  assert (HNsc : N = (100 * S + c)%Z) by (unfold S, c; lia).
  pose proof (R_of_f_of_Z_exact S ltac:(lia)) as RS. pose proof (R_of_f_of_Z_exact (c * 10000000) ltac:(lia)) as RC.
  pose proof (R_of_f_of_Z_exact 1000000000 ltac:(lia)) as R9.
  assert (HSr : 0 <= IZR S < bpow radix2 51) by (split; [apply IZR_le; lia|change (bpow radix2 51) with (IZR (2 ^ 51)); apply IZR_lt; lia]).
  assert (HS100 : IZR S * 100 <= bpow radix2 51).
  { change 100 with (IZR 100). rewrite <- mult_IZR. change (bpow radix2 51) with (IZR (2 ^ 51)). apply IZR_le. lia. }
  assert (Hcr : 0 <= IZR c <= 99) by (split; [apply IZR_le; lia|apply IZR_le; lia]).
  assert (Hdivval : R_of (f_of_Z (c * 10000000)) / R_of (f_of_Z 1000000000) = IZR c / 100).
  { rewrite RC, R9, mult_IZR. field. }
  assert (N9 : R_of (f_of_Z 1000000000) <> 0) by (rewrite R9; lra).
  assert (Hov1 : Rabs (rnd64 (R_of (f_of_Z (c * 10000000)) / R_of (f_of_Z 1000000000))) < bpow radix2 1024).
  { rewrite Hdivval. apply no_overflow_small. rewrite Rabs_pos_eq by (unfold Rdiv; nra).
    apply Rle_trans with 1; [unfold Rdiv; lra|]. change 1 with (bpow radix2 0). apply bpow_le. lia. }
  destruct (fdiv_form _ _ N9 Hov1) as [e1 [t1 [He1 [Ht1 E1]]]]. rewrite Hdivval in E1.
  set (F := fdiv (f_of_Z (c * 10000000)) (f_of_Z 1000000000)) in *.
  unfold rel_ok, abs_ok, u64 in *.
  assert (Hu : bpow radix2 (-53) <= / 1000000) by (apply Rle_trans with (bpow radix2 (-20)); [apply bpow_le; lia|change (bpow radix2 (-20)) with (/ 1048576); apply Rinv_le_contravar; lra]).
  assert (Ht : bpow radix2 (-1075) <= / 1000000) by (apply Rle_trans with (bpow radix2 (-20)); [apply bpow_le; lia|change (bpow radix2 (-20)) with (/ 1048576); apply Rinv_le_contravar; lra]).
  assert (HF : Rabs (R_of F - IZR c / 100) <= 2 * bpow radix2 (-53)).
  { rewrite E1. replace (IZR c / 100 * (1 + e1) + t1 - IZR c / 100) with (IZR c / 100 * e1 + t1) by ring.
    eapply Rle_trans; [apply Rabs_triang|]. rewrite Rabs_mult, (Rabs_pos_eq (IZR c / 100)) by (unfold Rdiv; nra).
    assert (IZR c / 100 * Rabs e1 <= 1 * bpow radix2 (-53)) by (apply Rmult_le_compat; try apply Rabs_pos; unfold Rdiv; try nra; exact He1).
    assert (bpow radix2 (-1075) <= bpow radix2 (-53)) by (apply bpow_le; lia). lra. }
  assert (HFb : Rabs (R_of F) <= 2).
  { replace (R_of F) with ((R_of F - IZR c / 100) + IZR c / 100) by ring. eapply Rle_trans; [apply Rabs_triang|].
    rewrite (Rabs_pos_eq (IZR c / 100)) by (unfold Rdiv; nra). unfold Rdiv. lra. }
  assert (FinS : finite (f_of_Z S)) by (apply finite_f_of_Z; lia).
  assert (FinF : finite F) by (unfold F; apply finite_fdiv; [apply finite_f_of_Z; lia|exact N9|exact Hov1]).
  assert (Hov2 : Rabs (rnd64 (R_of (f_of_Z S) + R_of F)) < bpow radix2 1024).
  { apply no_overflow_small. rewrite RS. eapply Rle_trans; [apply Rabs_triang|]. rewrite (Rabs_pos_eq (IZR S)) by lra.
    apply Rle_trans with (bpow radix2 51 + 2); [lra|]. apply Rle_trans with (bpow radix2 52); [|apply bpow_le; lia].
    replace 52%Z with (51 + 1)%Z by lia. rewrite bpow_plus. change (bpow radix2 1) with 2. 
    assert (2 <= bpow radix2 51) by (change 2 with (bpow radix2 1); apply bpow_le; lia). lra. }
  destruct (fadd_form _ _ FinS FinF Hov2) as [e2 [t2 [He2 [Ht2 E2]]]]. unfold rel_ok, abs_ok, u64 in He2, Ht2. rewrite E2, RS.
  change (IZR (10 ^ Z.of_nat 2)) with 100. rewrite HNsc, plus_IZR, mult_IZR.
  set (D := R_of F - IZR c / 100) in *.
  replace (((IZR S + R_of F) * (1 + e2) + t2) * 100 - (100 * IZR S + IZR c))
    with (100 * ((IZR S + IZR c / 100) * e2 + D * (1 + e2) + t2)) by (unfold D; field).
  rewrite Rabs_mult, (Rabs_pos_eq 100) by lra.
  assert (B1 : Rabs ((IZR S + IZR c / 100) * e2) <= (bpow radix2 51 / 100 + 1) * bpow radix2 (-53)).
  { rewrite Rabs_mult, (Rabs_pos_eq (IZR S + IZR c / 100)) by (unfold Rdiv; nra).
    apply Rmult_le_compat; try apply Rabs_pos; [unfold Rdiv; nra|unfold Rdiv; lra|exact He2]. }
  assert (B2 : Rabs (D * (1 + e2)) <= 2 * bpow radix2 (-53) * 2).
  { rewrite Rabs_mult. apply Rmult_le_compat; try apply Rabs_pos; [exact HF|].
    eapply Rle_trans; [apply Rabs_triang|]. rewrite Rabs_R1. assert (bpow radix2 (-53) <= 1) by (change 1 with (bpow radix2 0); apply bpow_le; lia). lra. }
  assert (B3 : bpow radix2 51 * bpow radix2 (-53) = / 4) by (rewrite <- bpow_plus; reflexivity).
  eapply Rle_lt_trans; [apply Rmult_le_compat_l; [lra|]; eapply Rle_trans; [apply Rabs_triang|]; apply Rplus_le_compat; [eapply Rle_trans; [apply Rabs_triang|]; apply Rplus_le_compat; [exact B1|exact B2]|exact Ht2]|].
  assert (Hu2 : 0 <= bpow radix2 (-53)) by apply bpow_ge_0. unfold Rdiv. nra.
Qed.

(* ---- the leaf ---- *)
Local Open Scope Z_scope.
Local Notation length := Datatypes.length (only parsing).

Definition sync_dom (d : Z) : Prop :=
  d = 0 \/ exists m e, decomp_pos (seconds_f d) = Some (m, e) /\ 0 <= scaled_q m e 2 < 2 ^ 51.

Lemma stops_dot r : stops ("."%char :: r).
Proof. cbn. split; reflexivity. Qed.

Lemma scan_d_nat_dec z rest : 0 <= z < 2 ^ 63 -> stops rest -> scan_d (chars_of (nat_dec z) ++ rest) = Ok (z, rest).
Proof.
  intros Hz Hs. assert (Hz' : 0 <= z < 10 ^ 400) by (split; [lia|]; apply Z.lt_trans with (2 ^ 63); [lia|reflexivity]).
  destruct (nat_dec_chars z Hz') as [dz [E1 [E2 [E3 [_ E5]]]]]. rewrite E1. apply scan_d_digits; assumption.
Qed.

Lemma sync_text_scan N : 0 <= N < 2 ^ 51 ->
  bind (scan_d (chars_of (dec_text false N 2))) (fun '(s, r1) =>
  bind (scan_lit "."%char r1) (fun r2 => bind (scan_d r2) (fun '(cs, _) => Ok (LvSync (s * 1000000000 + cs * 10000000)))))
  = Ok (LvSync (N * 10000000)).
Proof.
  intros HN. unfold dec_text. change (10 ^ Z.of_nat 2) with 100. change (chars_of ""%string) with (@nil ascii).
  rewrite !chars_app. cbn [app chars_of].
  rewrite scan_d_nat_dec by (try apply stops_dot; lia). cbn [bind scan_lit]. rewrite Ascii.eqb_refl. cbn [bind].
  replace (chars_of (pad 2 (N mod 100))) with (chars_of (pad 2 (N mod 100)) ++ []) by apply app_nil_r.
  rewrite scan_d_pad by (try exact I; lia). cbn [bind]. f_equal. f_equal. lia.
Qed.

Theorem sync_leaf_reencode d : sync_dom d ->
  exists l', quant_leaf (LvSync d) = Ok l' /\ leaf_text l' = leaf_text (LvSync d).
Proof.
  intros [-> | [m [e [Hd HN]]]].
  - exists (LvSync 0). split; vm_compute; reflexivity.
  - destruct (decomp_pos_of_bits _ _ _ Hd) as [H Ev].
    set (N := scaled_q m e 2) in *.
    assert (Ht : fmt_fixed 2 (seconds_f d) = dec_text false N 2) by (apply (fmt_fixed_finite 2 _ false m e H Ev)).
    exists (LvSync (N * 10000000)). cbn [quant_leaf leaf_text]. rewrite Ht. split; [apply sync_text_scan; exact HN|].
    f_equal. destruct (Z.eq_dec N 0) as [E0|Nz].
    + rewrite E0. vm_compute. reflexivity.
    + destruct (near_scaled (seconds_f (N * 10000000)) N 2 ltac:(lia) (seconds_f_hundredths N ltac:(lia))) as [m' [e' [Hd' Hq']]].
      destruct (decomp_pos_of_bits _ _ _ Hd') as [H' Ev'].
      rewrite (fmt_fixed_finite 2 _ false m' e' H' Ev'), Hq'. reflexivity.
Qed.
