From Coq Require Import String Ascii List ZArith NArith Bool Lia.
From TT Require Import Base.Outcome Base.F64 Gpmf.Klv.
Import ListNotations.
Local Open Scope Z_scope.

(* ---- last-write-wins maps ---- *)
Lemma meta_get_set_same m k v : meta_get (meta_set m k v) k = Some v.
Proof.
  induction m as [|[k' v'] m IH]; simpl.
  - rewrite String.eqb_refl. reflexivity.
  - destruct (String.eqb k k') eqn:E; simpl.
    + rewrite String.eqb_refl. reflexivity.
    + rewrite E. exact IH.
Qed.

Lemma meta_get_set_other m k k' v : k' <> k -> meta_get (meta_set m k v) k' = meta_get m k'.
Proof.
  intros Hne. induction m as [|[k0 v0] m IH]; simpl.
  - destruct (String.eqb_spec k' k); [contradiction|reflexivity].
  - destruct (String.eqb_spec k k0) as [->|Hk]; simpl.
    + destruct (String.eqb_spec k' k0); [contradiction|reflexivity].
    + destruct (String.eqb_spec k' k0); [reflexivity|exact IH].
Qed.

(* ---- add_missing: existing entries win; missing ones are taken from the other map ---- *)
Lemma meta_get_app_none m kv k : meta_get m k = None ->
  meta_get (m ++ [kv]) k = if String.eqb k (fst kv) then Some (snd kv) else None.
Proof.
  induction m as [|[k0 v0] m IH]; simpl; intros H.
  - destruct kv; reflexivity.
  - destruct (String.eqb k k0); [discriminate|]. apply IH. exact H.
Qed.
Lemma meta_get_app_some m kv k v : meta_get m k = Some v -> meta_get (m ++ [kv]) k = Some v.
Proof.
  induction m as [|[k0 v0] m IH]; simpl; intros H; [discriminate|].
  destruct (String.eqb k k0); [exact H|]. apply IH. exact H.
Qed.

Lemma add_missing_get : forall from m k,
  meta_get (meta_add_missing m from) k =
  match meta_get m k with Some v => Some v | None => meta_get from k end.
Proof.
  unfold meta_add_missing.
  induction from as [|[k0 v0] from IH]; intros m k; cbn [fold_left].
  - destruct (meta_get m k); reflexivity.
  - rewrite IH. cbn [fst].
    destruct (meta_get m k0) eqn:E0.
    + destruct (meta_get m k) eqn:Ek; [reflexivity|].
      cbn [meta_get]. destruct (String.eqb_spec k k0) as [->|]; [congruence|reflexivity].
    + destruct (meta_get m k) eqn:Ek.
      * rewrite (meta_get_app_some _ _ _ _ Ek). reflexivity.
      * rewrite (meta_get_app_none _ _ _ Ek). cbn [fst snd meta_get].
        destruct (String.eqb k k0); reflexivity.
Qed.

(* first frame (nearest first) that states k *)
Fixpoint lookup_frames (frames : list meta) (k : string) : option data :=
  match frames with
  | [] => None
  | f :: r => match meta_get f k with Some v => Some v | None => lookup_frames r k end
  end.

Lemma fold_add_missing_get : forall fs p k,
  meta_get (fold_left meta_add_missing fs p) k =
  match meta_get p k with Some v => Some v | None => lookup_frames fs k end.
Proof.
  induction fs as [|f fs IH]; intros p k; cbn [fold_left lookup_frames].
  - destruct (meta_get p k); reflexivity.
  - rewrite IH, add_missing_get. destruct (meta_get p k); [reflexivity|].
    destruct (meta_get f k); reflexivity.
Qed.

(* What a sensor element exposes for key k: the value stated (last) in its own stream, else
   the nearest enclosing container that states it - the synthetic root never contributes
   unless it is the direct parent. *)
Lemma init_metadata_get p anc k :
  meta_get (init_metadata (p :: anc)) k = lookup_frames (removelast (p :: anc)) k
  \/ (anc = [] /\ meta_get (init_metadata (p :: anc)) k = meta_get p k).
Proof.
  unfold init_metadata. destruct anc as [|a anc'].
  - right. split; [reflexivity|]. cbn [removelast fold_left]. reflexivity.
  - left. rewrite fold_add_missing_get.
    change (removelast (p :: a :: anc')) with (p :: removelast (a :: anc')).
    cbn [lookup_frames]. destruct (meta_get p k); reflexivity.
Qed.
