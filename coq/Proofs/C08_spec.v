(* C08: the walk over the sample tables equals a direct specification, for every valid layout. *)
From Coq Require Import String Ascii List ZArith NArith Bool Lia.
From TT Require Import Base.Outcome Base.Str Base.F64 Gpmf.Klv Gpmf.Walk Gpmf.Mp4 Proofs.C08_proofs.
Import ListNotations.
Local Open Scope Z_scope.

(* ---- the time-to-sample cursor is a run-length encoded list ---- *)
Definition expand (rs : list (Z * Z)) : list Z := flat_map (fun '(cnt, d) => repeat d (Z.to_nat cnt)) rs.
Definition remaining (left : Z) (rest : list (Z * Z)) (delta : Z) : list Z := repeat delta (Z.to_nat left) ++ expand rest.

Lemma stts_next_spec : forall fuel left rest delta,
  (length rest < fuel)%nat ->
  match remaining left rest delta with
  | [] => stts_next fuel left rest delta = None
  | d :: tl => exists left' rest' delta', stts_next fuel left rest delta = Some (d, left', rest', delta') /\
                                          remaining left' rest' delta' = tl
  end.
Proof.
  induction fuel as [|f IH]; intros left rest delta Hf; [lia|].
  cbn [stts_next]. destruct (Z.ltb_spec 0 left) as [Hl|Hl].
  - unfold remaining. replace (Z.to_nat left) with (S (Z.to_nat (left - 1))) by lia. cbn [repeat app].
    exists (left - 1), rest, delta. split; reflexivity.
  - unfold remaining. replace (Z.to_nat left) with 0%nat by lia. cbn [repeat app].
    destruct rest as [|[cnt d] r]; [reflexivity|]. cbn [expand flat_map].
    specialize (IH cnt r d ltac:(cbn in Hf; lia)). unfold remaining, expand in IH. exact IH.
Qed.

(* ---- the specification: samples are taken one after the other ---- *)
Record st := mkSt { s_k : Z; s_dec : Z; s_durs : list Z }.   (* next sample number, its start time, durations left *)
Definition abs (cu : cursor) : st := mkSt (cu_sample cu) (cu_dec cu) (remaining (cu_left cu) (cu_rest cu) (cu_delta cu)).

Definition size_at (tb : tables) (k : Z) : outcome Z :=
  if t_uniform tb =? 0 then
    match nth_error (t_sizes tb) (Z.to_nat (k - 1)) with Some sz => Ok sz | None => Err "no-size" end
  else Ok (t_uniform tb).

(* up to m samples from file offset off: sample k has the k-th size and the k-th duration *)
Fixpoint take (tb : tables) (m : nat) (off : Z) (s : st) : outcome (list sample * st) :=
  match m with
  | O => Ok ([], s)
  | S m' =>
    if s_k s <=? t_nsamples tb then
      match s_durs s with
      | [] => Err "no-duration"
      | d :: ds =>
        bind (size_at tb (s_k s)) (fun sz =>
        bind (take tb m' (u64 (off + sz)) (mkSt (s_k s + 1) (u64 (s_dec s + d)) ds)) (fun '(ss, s') =>
          Ok (mkSample off sz (s_dec s) (u64 (s_dec s + d)) :: ss, s')))
      end
    else Ok ([], s)
  end.

(* the model's result "up to the concrete form of the cursor" *)
Definition agrees (r : outcome (list sample * cursor)) (spec : outcome (list sample * st)) : Prop :=
  match spec with
  | Ok (ss, s') => exists cu', r = Ok (ss, cu') /\ abs cu' = s'
  | Err e => r = Err e
  | _ => False
  end.

Lemma chunk_samples_take tb spc : forall m fuel n offset cu,
  m = Z.to_nat (spc - n) -> (Z.to_nat (Z.min (spc - n) (t_nsamples tb - cu_sample cu + 1)) < fuel)%nat ->
  agrees (chunk_samples fuel tb n spc offset cu) (take tb m offset (abs cu)).
Proof.
  induction m as [|m IH]; intros fuel n offset cu Hm Hf; (destruct fuel as [|f]; [lia|]); cbn [chunk_samples take].
  - assert (Hn : (n <? spc) = false) by (apply Z.ltb_ge; lia). rewrite Hn. cbn [andb agrees]. exists cu. split; reflexivity.
  - assert (Hn : (n <? spc) = true) by (apply Z.ltb_lt; lia). rewrite Hn. cbn [andb abs s_k s_durs s_dec].
    destruct (Z.leb_spec (cu_sample cu) (t_nsamples tb)) as [Hk|Hk]; [|cbn [agrees]; exists cu; split; reflexivity].
    pose proof (stts_next_spec (S (length (cu_rest cu))) (cu_left cu) (cu_rest cu) (cu_delta cu) ltac:(lia)) as Hst.
    destruct (remaining (cu_left cu) (cu_rest cu) (cu_delta cu)) as [|d ds] eqn:Er.
    + rewrite Hst. cbn [agrees]. reflexivity.
    + destruct Hst as [left' [rest' [delta' [Hs Hr]]]]. rewrite Hs.
      unfold size_at. 
      set (szo := if t_uniform tb =? 0 then match nth_error (t_sizes tb) (Z.to_nat (cu_sample cu - 1)) with Some sz => Ok sz | None => Err "no-size" end else Ok (t_uniform tb)).
      destruct szo as [sz|e| |] eqn:Esz; cbn [bind agrees]; try reflexivity.
      2,3: (unfold szo in Esz; destruct (t_uniform tb =? 0); [destruct (nth_error _ _)|]; discriminate).
      set (cu1 := mkCur (cu_sample cu + 1) (u64 (cu_dec cu + d)) left' rest' delta').
      specialize (IH f (n + 1) (u64 (offset + sz)) cu1 ltac:(lia) ltac:(unfold cu1; cbn [cu_sample]; lia)).
      assert (Ha : abs cu1 = mkSt (cu_sample cu + 1) (u64 (cu_dec cu + d)) ds) by (unfold abs, cu1; cbn; rewrite Hr; reflexivity).
      rewrite Ha in IH.
      destruct (take tb m (u64 (offset + sz)) (mkSt (cu_sample cu + 1) (u64 (cu_dec cu + d)) ds)) as [[ss s']|e| |]; cbn [agrees] in IH |- *.
      * destruct IH as [cu' [E1 E2]]. rewrite E1. cbn [bind]. exists cu'. split; [reflexivity|exact E2].
      * rewrite IH. reflexivity.
      * contradiction.
      * contradiction.
Qed.

Lemma take_k_mono tb : forall m off s ss s', take tb m off s = Ok (ss, s') -> s_k s <= s_k s'.
Proof.
  induction m as [|m IH]; intros off s ss s' H; cbn [take] in H; [inversion H; lia|].
  destruct (s_k s <=? t_nsamples tb); [|inversion H; lia].
  destruct (s_durs s) as [|d ds]; [discriminate|].
  destruct (size_at tb (s_k s)) as [sz| | |]; cbn [bind] in H; try discriminate.
  destruct (take tb m _ _) as [[ss2 s2]| | |] eqn:E; cbn [bind] in H; try discriminate.
  inversion H; subst. apply IH in E. cbn [s_k] in E. lia.
Qed.

(* ---- chunk after chunk ---- *)
Fixpoint chunks (tb : tables) (spc : Z) (cs : list Z) (s : st) : outcome (list sample * st) :=
  match cs with
  | [] => Ok ([], s)
  | c :: r =>
    if s_k s <=? t_nsamples tb then
      if (c =? 0) || (Z.of_nat (length (t_offsets tb)) <? c) then Err "no-chunk-offset" else
      bind (take tb (Z.to_nat spc) (chunk_off tb c) s) (fun '(ss, s1) =>
      bind (chunks tb spc r s1) (fun '(ss2, s2) => Ok (ss ++ ss2, s2)))
    else Ok ([], s)
  end.

Definition zrange (lo : Z) (n : nat) : list Z := map (fun i => lo + Z.of_nat i) (seq 0 n).
Lemma zrange_S lo n : zrange lo (S n) = lo :: zrange (lo + 1) n.
Proof.
  unfold zrange. cbn [seq map]. f_equal; [lia|]. rewrite <- seq_shift, map_map. apply map_ext. intros i. lia.
Qed.

Lemma entry_chunks_spec tb spc last : forall cnt fuel chunk cu,
  1 <= cu_sample cu -> 0 <= chunk -> last < 2 ^ 32 - 1 -> cnt = Z.to_nat (last - chunk + 1) -> (cnt < fuel)%nat ->
  agrees (entry_chunks fuel tb chunk last spc cu) (chunks tb spc (zrange chunk cnt) (abs cu)).
Proof.
  induction cnt as [|cnt IH]; intros fuel chunk cu Hk1 H0 Hl Hc Hf; (destruct fuel as [|f]; [lia|]); cbn [entry_chunks].
  - assert (E : (chunk <=? last) = false) by (apply Z.leb_gt; lia). rewrite E. cbn [andb zrange seq map chunks agrees]. exists cu. split; reflexivity.
  - assert (E : (chunk <=? last) = true) by (apply Z.leb_le; lia). rewrite E. rewrite zrange_S. cbn [andb chunks abs s_k].
    destruct (cu_sample cu <=? t_nsamples tb) eqn:Ek; [|cbn [agrees]; exists cu; split; reflexivity].
    destruct ((chunk =? 0) || (Z.of_nat (length (t_offsets tb)) <? chunk)); [reflexivity|].
    pose proof (chunk_samples_take tb spc (Z.to_nat spc) (S (Z.to_nat (Z.min spc (t_nsamples tb)))) 0 (chunk_off tb chunk) cu
                  ltac:(f_equal; lia) ltac:(apply Z.leb_le in Ek; lia)) as Hc1.
    fold (abs cu). unfold chunk_off in *.
    destruct (take tb (Z.to_nat spc) (nth (Z.to_nat (chunk - 1)) (t_offsets tb) 0) (abs cu)) as [[ss s1]|e| |] eqn:Et; cbn [agrees] in Hc1; try contradiction.
    + destruct Hc1 as [cu1 [E1 E2]]. rewrite E1. cbn [bind].
      assert (Hk1' : 1 <= cu_sample cu1).
      { apply take_k_mono in Et. rewrite <- E2 in Et. cbn [abs s_k] in Et. lia. }
      assert (Hu : u32 (chunk + 1) = chunk + 1) by (unfold u32; apply Z.mod_small; lia).
      rewrite Hu. specialize (IH f (chunk + 1) cu1 Hk1' ltac:(lia) Hl ltac:(lia) ltac:(lia)). rewrite E2 in IH.
      destruct (chunks tb spc (zrange (chunk + 1) cnt) s1) as [[ss2 s2]|e| |]; cbn [agrees] in IH |- *; try contradiction.
      * destruct IH as [cu2 [F1 F2]]. rewrite F1. cbn [bind]. exists cu2. split; [reflexivity|exact F2].
      * rewrite IH. reflexivity.
    + rewrite Hc1. reflexivity.
Qed.

(* ---- the whole walk: a plan of (chunk number, samples per chunk) pairs ---- *)
Fixpoint chunksp (tb : tables) (plan : list (Z * Z)) (s : st) : outcome (list sample * st) :=
  match plan with
  | [] => Ok ([], s)
  | (c, spc) :: r =>
    if s_k s <=? t_nsamples tb then
      if (c =? 0) || (Z.of_nat (length (t_offsets tb)) <? c) then Err "no-chunk-offset" else
      bind (take tb (Z.to_nat spc) (chunk_off tb c) s) (fun '(ss, s1) =>
      bind (chunksp tb r s1) (fun '(ss2, s2) => Ok (ss ++ ss2, s2)))
    else Ok ([], s)
  end.

Lemma chunks_chunksp tb spc : forall cs s, chunks tb spc cs s = chunksp tb (map (fun c => (c, spc)) cs) s.
Proof.
  induction cs as [|c r IH]; intros s; cbn [chunks map chunksp]; [reflexivity|].
  destruct (s_k s <=? t_nsamples tb); [|reflexivity]. destruct (_ || _); [reflexivity|].
  destruct (take tb (Z.to_nat spc) (chunk_off tb c) s) as [[ss s1]| | |]; cbn [bind]; try reflexivity. rewrite IH. reflexivity.
Qed.

Lemma chunksp_done tb : forall plan s, t_nsamples tb < s_k s -> chunksp tb plan s = Ok ([], s).
Proof.
  intros [|[c spc] r] s H; cbn [chunksp]; [reflexivity|]. destruct (Z.leb_spec (s_k s) (t_nsamples tb)); [lia|reflexivity].
Qed.

Lemma chunksp_k_mono tb : forall plan s ss s', chunksp tb plan s = Ok (ss, s') -> s_k s <= s_k s'.
Proof.
  induction plan as [|[c spc] r IH]; intros s ss s' H; cbn [chunksp] in H; [inversion H; lia|].
  destruct (s_k s <=? t_nsamples tb); [|inversion H; lia]. destruct (_ || _); [discriminate|].
  destruct (take tb _ _ s) as [[ss1 s1]| | |] eqn:E1; cbn [bind] in H; try discriminate.
  destruct (chunksp tb r s1) as [[ss2 s2]| | |] eqn:E2; cbn [bind] in H; try discriminate.
  inversion H; subst. apply take_k_mono in E1. apply IH in E2. lia.
Qed.

Lemma chunksp_app tb : forall p1 p2 s,
  chunksp tb (p1 ++ p2) s =
  bind (chunksp tb p1 s) (fun '(ss, s1) => bind (chunksp tb p2 s1) (fun '(ss2, s2) => Ok (ss ++ ss2, s2))).
Proof.
  induction p1 as [|[c spc] r IH]; intros p2 s; cbn [app chunksp bind].
  - destruct (chunksp tb p2 s) as [[ss2 s2]| | |]; reflexivity.
  - destruct (Z.leb_spec (s_k s) (t_nsamples tb)) as [Hk|Hk].
    + destruct (_ || _); [reflexivity|].
      destruct (take tb _ _ s) as [[ss1 s1]| | |]; cbn [bind]; try reflexivity.
      rewrite IH. destruct (chunksp tb r s1) as [[ssa sa]| | |]; cbn [bind]; try reflexivity.
      destruct (chunksp tb p2 sa) as [[ssb sb]| | |]; cbn [bind]; try reflexivity. rewrite app_assoc. reflexivity.
    + cbn [bind]. rewrite chunksp_done by exact Hk. reflexivity.
Qed.

(* the plan the tables describe: entry i covers the chunks from its first chunk up to the chunk
   before the next entry's first chunk (the last entry: up to the last chunk) *)
Fixpoint plan_of (nchunks : Z) (es : list (Z * Z)) : list (Z * Z) :=
  match es with
  | [] => []
  | (first, spc) :: rest =>
    let last := match rest with (nf, _) :: _ => nf - 1 | [] => nchunks end in
    map (fun c => (c, spc)) (zrange first (Z.to_nat (last - first + 1))) ++ plan_of nchunks rest
  end.

(* every entry names an existing chunk (32-bit table) *)
Definition stsc_ok (nchunks : Z) (es : list (Z * Z)) : Prop :=
  Forall (fun e => 1 <= fst e <= nchunks) es /\ nchunks < 2 ^ 32 - 1.

Lemma entries_spec tb : forall es cu,
  stsc_ok (Z.of_nat (length (t_offsets tb))) es -> 1 <= cu_sample cu ->
  match chunksp tb (plan_of (Z.of_nat (length (t_offsets tb))) es) (abs cu) with
  | Ok (ss, _) => entries tb es cu = Ok ss
  | Err e => entries tb es cu = Err e
  | _ => False
  end.
Proof.
  induction es as [|[first spc] rest IH]; intros cu [Hes Hn] Hk; cbn [plan_of entries chunksp]; [reflexivity|].
  inversion Hes as [|? ? Hfirst Hrest]; subst. cbn [fst] in Hfirst.
  set (C := Z.of_nat (length (t_offsets tb))) in *.
  set (last := match rest with (nf, _) :: _ => nf - 1 | [] => C end).
  assert (Hlast : match rest with (nf, _) :: _ => u32 (nf - 1) | [] => C end = last /\ last < 2 ^ 32 - 1).
  { unfold last. destruct rest as [|[nf ?] ?]; [split; [reflexivity|exact Hn]|].
    inversion Hrest as [|? ? Hnf _]; subst. cbn [fst] in Hnf. unfold u32. rewrite Z.mod_small by lia. split; [reflexivity|lia]. }
  destruct Hlast as [El Hl]. rewrite El.
  rewrite chunksp_app, <- chunks_chunksp.
  pose proof (entry_chunks_spec tb spc last (Z.to_nat (last - first + 1)) (S (S (length (t_offsets tb)))) first cu Hk ltac:(lia) Hl eq_refl) as He.
  assert (Hfuel : (Z.to_nat (last - first + 1) < S (S (length (t_offsets tb))))%nat).
  { unfold last. destruct rest as [|[nf ?] ?]; [unfold C; lia|]. inversion Hrest as [|? ? Hnf _]; subst. cbn [fst] in Hnf. unfold C in *. lia. }
  specialize (He Hfuel).
  destruct (chunks tb spc (zrange first (Z.to_nat (last - first + 1))) (abs cu)) as [[ss1 s1]|e| |] eqn:Ec; cbn [agrees] in He; try contradiction.
  - destruct He as [cu1 [E1 E2]]. rewrite E1. cbn [bind].
    assert (Hk1 : 1 <= cu_sample cu1).
    { rewrite chunks_chunksp in Ec. apply chunksp_k_mono in Ec. rewrite <- E2 in Ec. cbn [abs s_k] in Ec. lia. }
    specialize (IH cu1 (conj Hrest Hn) Hk1). rewrite E2 in IH. fold C in IH.
    destruct (chunksp tb (plan_of C rest) s1) as [[ss2 s2]|e| |]; cbn [bind]; try contradiction; rewrite IH; reflexivity.
  - rewrite He. reflexivity.
Qed.

Definition st0 (tb : tables) : st := mkSt 1 0 (expand (t_stts tb)).

Theorem samples_of_plan tb :
  stsc_ok (Z.of_nat (length (t_offsets tb))) (t_stsc tb) ->
  samples_of tb =
  bind (omap fst (chunksp tb (plan_of (Z.of_nat (length (t_offsets tb))) (t_stsc tb)) (st0 tb))) (fun ss =>
    if Z.of_nat (length ss) <? t_nsamples tb then Err "tables-describe-fewer-samples" else Ok ss).
Proof.
  intros Hok. unfold samples_of.
  set (cu0 := match t_stts tb with (cnt, d) :: r => mkCur 1 0 cnt r d | [] => mkCur 1 0 0 [] 0 end).
  assert (Ha : abs cu0 = st0 tb).
  { unfold cu0, st0, abs. destruct (t_stts tb) as [|[cnt d] r]; reflexivity. }
  assert (Hk : 1 <= cu_sample cu0) by (unfold cu0; destruct (t_stts tb) as [|[? ?] ?]; cbn; lia).
  pose proof (entries_spec tb (t_stsc tb) cu0 Hok Hk) as H. rewrite Ha in H.
  destruct (chunksp tb _ (st0 tb)) as [[ss s']|e| |]; cbn [omap fst bind]; try contradiction; rewrite H; reflexivity.
Qed.

(* ---- the plan of a valid table: chunks 1..C in order, chunk c with the samples-per-chunk of
   the last entry whose first chunk is <= c ---- *)
Fixpoint spc_of (es : list (Z * Z)) (c : Z) : Z :=
  match es with
  | [] => 0
  | (f, s) :: rest => match rest with
                      | (nf, _) :: _ => if nf <=? c then spc_of rest c else s
                      | [] => s
                      end
  end.

Fixpoint increasing (es : list (Z * Z)) : Prop :=
  match es with
  | (f, _) :: (((nf, _) :: _) as rest) => f < nf /\ increasing rest
  | _ => True
  end.

Lemma zrange_app lo n m : zrange lo (n + m) = zrange lo n ++ zrange (lo + Z.of_nat n) m.
Proof.
  revert lo. induction n as [|n IH]; intros lo.
  - cbn [plus]. replace (lo + Z.of_nat 0) with lo by lia. reflexivity.
  - cbn [plus]. rewrite !zrange_S, IH. cbn [app]. replace (lo + 1 + Z.of_nat n) with (lo + Z.of_nat (S n)) by lia. reflexivity.
Qed.
Lemma zrange_in lo n c : In c (zrange lo n) -> lo <= c < lo + Z.of_nat n.
Proof. unfold zrange. intros H. apply in_map_iff in H. destruct H as [i [E Hi]]. apply in_seq in Hi. lia. Qed.

Lemma plan_of_valid C : forall es f s rest, es = (f, s) :: rest ->
  increasing es -> Forall (fun e => 1 <= fst e <= C) es ->
  plan_of C es = map (fun c => (c, spc_of es c)) (zrange f (Z.to_nat (C - f + 1))).
Proof.
  induction es as [|[f0 s0] rest0 IH]; intros f s rest E Hinc Hall; [discriminate|]. inversion E; subst f0 s0 rest0. clear E.
  inversion Hall as [|? ? Hf Hrest]; subst. cbn [fst] in Hf.
  destruct rest as [|[nf ns] rest'].
  - cbn [plan_of spc_of]. rewrite app_nil_r. reflexivity.
  - destruct Hinc as [Hlt Hinc']. inversion Hrest as [|? ? Hnf _]; subst. cbn [fst] in Hnf.
    change (plan_of C ((f, s) :: (nf, ns) :: rest')) with
      (map (fun c => (c, s)) (zrange f (Z.to_nat (nf - 1 - f + 1))) ++ plan_of C ((nf, ns) :: rest')).
    rewrite (IH nf ns rest' eq_refl Hinc' Hrest).
    replace (Z.to_nat (C - f + 1)) with (Z.to_nat (nf - 1 - f + 1) + Z.to_nat (C - nf + 1))%nat by lia.
    rewrite zrange_app, map_app. replace (f + Z.of_nat (Z.to_nat (nf - 1 - f + 1))) with nf by lia.
    f_equal; apply map_ext_in; intros c Hc; apply zrange_in in Hc; cbn [spc_of]; f_equal.
    + destruct (Z.leb_spec nf c); [lia|reflexivity].
    + destruct (Z.leb_spec nf c); [reflexivity|lia].
Qed.

(* For every valid sample-to-chunk table (entries in increasing order starting at chunk 1, every
   entry naming an existing chunk), any time-to-sample runs, any sizes and offsets: the walk is
   exactly "chunks 1..C in order, chunk c holding spc_of c samples, sample k with the k-th size
   and the k-th duration of the expanded runs, until the declared number of samples". *)
Theorem walk_is_spec tb f s rest :
  let C := Z.of_nat (length (t_offsets tb)) in
  t_stsc tb = (f, s) :: rest -> f = 1 -> increasing (t_stsc tb) ->
  Forall (fun e => 1 <= fst e <= C) (t_stsc tb) -> C < 2 ^ 32 - 1 ->
  samples_of tb =
  bind (omap fst (chunksp tb (map (fun c => (c, spc_of (t_stsc tb) c)) (zrange 1 (length (t_offsets tb)))) (st0 tb))) (fun ss =>
    if Z.of_nat (length ss) <? t_nsamples tb then Err "tables-describe-fewer-samples" else Ok ss).
Proof.
  intros C E Hf Hinc Hall HC. subst f. rewrite samples_of_plan by (split; assumption).
  fold C. rewrite (plan_of_valid C (t_stsc tb) 1 s rest E Hinc Hall).
  replace (Z.to_nat (C - 1 + 1)) with (length (t_offsets tb)) by (unfold C; lia). reflexivity.
Qed.
