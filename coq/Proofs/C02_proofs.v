From Coq Require Import String Ascii List ZArith Bool Lia.
From TT Require Import Base.Outcome Base.Str Base.F64 Base.GoParse
     Trackaddict.Units Trackaddict.Columns Trackaddict.Csv Trackaddict.Model.
Import ListNotations.
Local Open Scope Z_scope.

(* ---------------------------------------------------------------- what one line does *)
Definition close_lap (s : session) (n d : Z) : session :=
  mkSession (s_closed s ++ [mkLap d n (lap_recs (s_cur s))]) lap0
            (s_meta s) (s_vehicle s) (s_endpoint s) (s_parsers s).

(* a data row: not a comment, splits into as many cells as there are columns, every cell parses *)
Definition row_line (cs : list col) (line : string) (r : record) : Prop :=
  (Z.of_nat (String.length line) < 65536) /\ prefix_b "# " line = false /\
  exists cells, csv_record line = Ok cells /\ length cells = length cs /\ process cs cells record0 = Ok r.

(* a lap-end marker "# Lap <num>:<duration>" *)
Definition marker_line (line : string) (n d : Z) : Prop :=
  (Z.of_nat (String.length line) < 65536) /\
  exists num dur, line = ("# Lap " ++ num ++ ":" ++ dur)%string /\
    (forall c, In c (chars_of num) -> c <> ":"%char) /\
    atoi num = Ok n /\ edge_non_ascii dur = false /\ lap_duration (trim_space dur) = Ok d.

Lemma step_row cs line r s :
  row_line cs line r -> s_parsers s = Some cs -> step s line = Ok (add_record s r).
Proof.
  intros [Hlen [Hp [cells [Hc [Hl Hproc]]]]] Hs. unfold step.
  destruct (Z.leb_spec 65536 (Z.of_nat (String.length line))); [lia|].
  rewrite Hp, Hc. cbn [bind]. rewrite Hs, Hl, Nat.eqb_refl. cbn [negb]. rewrite Hproc. reflexivity.
Qed.

Lemma split_colon_app : forall a b acc, (forall c, In c a -> c <> ":"%char) ->
  split_colon (a ++ ":"%char :: b) acc = (rev' acc ++ a, Some b)%list.
Proof.
  induction a as [|x a IH]; intros b acc Ha; cbn [app split_colon].
  - rewrite Ascii.eqb_refl. rewrite app_nil_r. reflexivity.
  - destruct (Ascii.eqb_spec x ":"%char) as [->|_]; [exfalso; apply (Ha ":"%char); [left; reflexivity|reflexivity]|].
    rewrite IH by (intros c Hc; apply Ha; right; exact Hc).
    f_equal. unfold rev'. rewrite <- !rev_alt. simpl. rewrite <- app_assoc. reflexivity.
Qed.

Lemma chars_of_app a b : chars_of (a ++ b)%string = (chars_of a ++ chars_of b)%list.
Proof. induction a; simpl; congruence. Qed.

Lemma prefix_b_app p s : prefix_b p (p ++ s)%string = true.
Proof. unfold prefix_b. induction p as [|c p IH]; simpl; [destruct s; reflexivity|].
  destruct (Ascii.ascii_dec c c); [exact IH|congruence]. Qed.

Lemma drop_app p s : drop (String.length p) (p ++ s)%string = s.
Proof. induction p; simpl; congruence. Qed.

Lemma step_marker line n d s :
  marker_line line n d ->
  step s line = if n <? Z.of_nat (length (s_closed s)) then Err "unexpected-lap" else Ok (close_lap s n d).
Proof.
  intros [Hlen [num [dur [-> [Hnc [Hn [He Hd]]]]]]]. unfold step.
  destruct (Z.leb_spec 65536 (Z.of_nat (String.length ("# Lap " ++ num ++ ":" ++ dur)))); [lia|].
  change ("# Lap " ++ num ++ ":" ++ dur)%string with ("# " ++ ("Lap " ++ num ++ ":" ++ dur))%string.
  rewrite prefix_b_app. unfold parse_metadata.
  replace (drop 2 ("# " ++ ("Lap " ++ num ++ ":" ++ dur))%string) with ("Lap " ++ num ++ ":" ++ dur)%string by reflexivity.
  change ("Lap " ++ num ++ ":" ++ dur)%string with (("Lap " ++ num) ++ ":" ++ dur)%string.
  rewrite chars_of_app. cbn [chars_of append].
  change (chars_of (String ":" dur)) with (":"%char :: chars_of dur).
  rewrite split_colon_app.
  2:{ intros c Hc. simpl in Hc. repeat (destruct Hc as [<-|Hc]; [discriminate|]). apply Hnc. exact Hc. }
  assert (E : of_chars (rev' [] ++ "L"%char :: "a"%char :: "p"%char :: " "%char :: chars_of num)
              = ("Lap " ++ num)%string) by (cbn; rewrite of_chars_of; reflexivity).
  rewrite E, of_chars_of. clear E.
  change (String.eqb ("Lap " ++ num) "End Point") with false.
  change (String.eqb ("Lap " ++ num) "Vehicle") with false.
  rewrite prefix_b_app.
  replace (drop 4 ("Lap " ++ num)%string) with num by reflexivity. rewrite Hn. cbn [bind].
  destruct (n <? Z.of_nat (length (s_closed s))); [reflexivity|].
  rewrite He, Hd. reflexivity.
Qed.

(* ---------------------------------------------------------------- histories of lines *)
Inductive item := IRow (r : record) | IMarker (n d : Z).

Definition item_line (cs : list col) (line : string) (it : item) : Prop :=
  match it with
  | IRow r => row_line cs line r
  | IMarker n d => marker_line line n d
  end.

(* the specification: rows accumulate in the open lap; a marker closes it with the marker's
   number and duration and opens an empty one *)
Fixpoint spec_laps (closed : list lap) (cur : list record) (items : list item) : list lap * list record :=
  match items with
  | [] => (closed, cur)
  | IRow r :: t => spec_laps closed (cur ++ [r]) t
  | IMarker n d :: t => spec_laps (closed ++ [mkLap d n cur]) [] t
  end.

(* markers are never numbered below the count of laps already closed *)
Fixpoint markers_ok (nclosed : nat) (items : list item) : Prop :=
  match items with
  | [] => True
  | IRow _ :: t => markers_ok nclosed t
  | IMarker n _ :: t => Z.of_nat nclosed <= n /\ markers_ok (S nclosed) t
  end.

Lemma decode_items cs : forall lines items s,
  Forall2 (item_line cs) lines items ->
  s_parsers s = Some cs -> lap_dur (s_cur s) = 0 -> lap_num (s_cur s) = 0 ->
  markers_ok (length (s_closed s)) items ->
  exists s', foldM step lines s = Ok s' /\
    s_closed s' = fst (spec_laps (s_closed s) (lap_recs (s_cur s)) items) /\
    s_cur s' = mkLap 0 0 (snd (spec_laps (s_closed s) (lap_recs (s_cur s)) items)) /\
    s_meta s' = s_meta s /\ s_vehicle s' = s_vehicle s /\ s_endpoint s' = s_endpoint s.
Proof.
  intros lines items s H. revert s. induction H as [|line it lines items Hit _ IH]; intros s Hp Hd Hn Hm.
  - exists s. cbn [foldM spec_laps fst snd]. destruct s as [cl [du nu re] me ve en pa]; simpl in *. subst. repeat split; reflexivity.
  - destruct it as [r|n d]; cbn [item_line] in Hit; cbn [foldM spec_laps markers_ok] in *.
    + rewrite (step_row cs line r s Hit Hp). cbn [bind].
      destruct (IH (add_record s r)) as [s' [H1 [H2 [H3 [H4 [H5 H6]]]]]]; try assumption.
      exists s'. repeat split; assumption.
    + destruct Hm as [Hge Hm]. rewrite (step_marker line n d s Hit).
      destruct (Z.ltb_spec n (Z.of_nat (length (s_closed s)))); [lia|]. cbn [bind].
      destruct (IH (close_lap s n d)) as [s' [H1 [H2 [H3 [H4 [H5 H6]]]]]]; try reflexivity; try assumption.
      { cbn [close_lap s_closed]. rewrite app_length. cbn [length]. rewrite Nat.add_1_r. exact Hm. }
      exists s'. repeat split; assumption.
Qed.

(* a marker numbered below the number of laps already closed is rejected *)
Lemma low_marker_rejected line n d s :
  marker_line line n d -> n < Z.of_nat (length (s_closed s)) -> step s line = Err "unexpected-lap".
Proof.
  intros H Hlt. rewrite (step_marker line n d s H).
  destruct (Z.ltb_spec n (Z.of_nat (length (s_closed s)))); [reflexivity|lia].
Qed.

(* ---- corollaries about counts and order ---- *)
Fixpoint rows_of_items (items : list item) : list record :=
  match items with [] => [] | IRow r :: t => r :: rows_of_items t | IMarker _ _ :: t => rows_of_items t end.
Fixpoint nmarkers (items : list item) : nat :=
  match items with [] => O | IRow _ :: t => nmarkers t | IMarker _ _ :: t => S (nmarkers t) end.

Lemma spec_laps_rows : forall items closed cur,
  flat_map lap_recs (fst (spec_laps closed cur items)) ++ snd (spec_laps closed cur items)
  = flat_map lap_recs closed ++ cur ++ rows_of_items items.
Proof.
  induction items as [|[r|n d] t IH]; intros closed cur; cbn [spec_laps rows_of_items].
  - cbn [fst snd]. rewrite app_nil_r. reflexivity.
  - rewrite IH. rewrite <- app_assoc. reflexivity.
  - rewrite IH. rewrite flat_map_app. cbn [flat_map lap_recs app]. rewrite app_nil_r, <- app_assoc. reflexivity.
Qed.

Lemma spec_laps_count : forall items closed cur,
  length (fst (spec_laps closed cur items)) = (length closed + nmarkers items)%nat.
Proof.
  induction items as [|[r|n d] t IH]; intros closed cur; cbn [spec_laps nmarkers].
  - cbn [fst]. lia.
  - apply IH.
  - rewrite IH, app_length. cbn [length]. lia.
Qed.
