(* "The call returned": no panic site reached, no fuel exhausted. *)
From Coq Require Import String List.
From TT Require Import Base.Outcome.
Import ListNotations.

Definition no_crash {A} (x : outcome A) : Prop :=
  match x with Panic _ | OutOfFuel => False | _ => True end.

Lemma no_crash_returns {A} (x : outcome A) : no_crash x <-> returns x.
Proof.
  unfold returns. destruct x; simpl; split; intros H; try tauto;
    try (left; eexists; reflexivity); try (right; eexists; reflexivity);
    destruct H as [[? H]|[? H]]; discriminate.
Qed.

Lemma bind_nc {A B} (x : outcome A) (f : A -> outcome B) :
  no_crash x -> (forall a, x = Ok a -> no_crash (f a)) -> no_crash (bind x f).
Proof. destruct x; simpl; intros H1 H2; auto. Qed.

Lemma omap_nc {A B} (g : A -> B) (x : outcome A) : no_crash x -> no_crash (omap g x).
Proof. destruct x; simpl; auto. Qed.

Lemma mapM_nc {A B} (f : A -> outcome B) (l : list A) :
  (forall x, In x l -> no_crash (f x)) -> no_crash (mapM f l).
Proof.
  induction l as [|a l IH]; simpl; intros H; [exact I|].
  apply bind_nc; [apply H; left; reflexivity|]. intros b _.
  apply bind_nc; [apply IH; intros x Hx; apply H; right; exact Hx|]. intros bs _. exact I.
Qed.


Lemma foldM_nc {A S} (f : S -> A -> outcome S) (l : list A) :
  (forall s x, no_crash (f s x)) -> forall s, no_crash (foldM f l s).
Proof.
  intros H. induction l as [|x l IH]; intros s; simpl; [exact I|].
  apply bind_nc; [apply H|]. intros; apply IH.
Qed.
