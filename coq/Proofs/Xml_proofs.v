(* Text survives escape -> line filter -> strict reader, for every string of valid XML
   characters; tabs and line feeds are written literally; no raw '<' or '&' is emitted. *)
From Coq Require Import String Ascii List ZArith NArith Bool Lia.
From TT Require Import Base.Outcome Base.Str Xml.Print Xml.Lex.
Import ListNotations.
Local Open Scope Z_scope.

(* what one character looks like in the file *)
Definition out_cp (c : cp) : text :=
  if c =? 34 then ent "&quot;" else if c =? 39 then ent "&apos;"
  else if c =? 38 then ent "&amp;" else if c =? 60 then ent "&lt;" else if c =? 62 then ent "&gt;"
  else if c =? 9 then [9] else if c =? 10 then [10] else if c =? 13 then ent "&#xD;"
  else if valid_char c then [c] else [65533].

Definition special (c : cp) : bool :=
  (c =? 34) || (c =? 39) || (c =? 38) || (c =? 60) || (c =? 62) || (c =? 9) || (c =? 10) || (c =? 13).

Lemma ent_quot : ent "&#34;" = [38; 35; 51; 52; 59]. Proof. reflexivity. Qed.
Lemma ent_apos : ent "&#39;" = [38; 35; 51; 57; 59]. Proof. reflexivity. Qed.
Lemma ent_lf : ent "&#xA;" = [38; 35; 120; 65; 59]. Proof. reflexivity. Qed.
Lemma ent_tab : ent "&#x9;" = [38; 35; 120; 57; 59]. Proof. reflexivity. Qed.

Lemma line_filter_cons_plain fuel c r :
  c <> 38 -> line_filter (S fuel) (c :: r) = c :: line_filter fuel r.
Proof.
  intros Hc. cbn [line_filter]. rewrite ent_quot, ent_apos, ent_lf, ent_tab. cbn [starts].
  assert (E : (38 =? c) = false) by (apply Z.eqb_neq; lia).
  rewrite E. reflexivity.
Qed.

(* the filter handles one escaped character at a time *)
Lemma line_filter_escape : forall t fuel, (length (escape_text t) < fuel)%nat ->
  line_filter fuel (escape_text t) = flat_map out_cp t.
Proof.
  induction t as [|c t IH]; intros fuel Hf.
  - destruct fuel; reflexivity.
  - cbn [escape_text flat_map] in *. rewrite app_length in Hf.
    fold (escape_text t) in *. remember (escape_text t) as et eqn:Het. clear Het.
    remember (flat_map out_cp t) as ot eqn:Hot. clear Hot.
    unfold escape_cp, out_cp in *.
    destruct (Z.eqb_spec c 34) as [->|N34].
    { destruct fuel as [|fuel]; [cbn in Hf; lia|]. cbn. rewrite IH by (cbn in Hf; lia). reflexivity. }
    destruct (Z.eqb_spec c 39) as [->|N39].
    { destruct fuel as [|fuel]; [cbn in Hf; lia|]. cbn. rewrite IH by (cbn in Hf; lia). reflexivity. }
    destruct (Z.eqb_spec c 38) as [->|N38].
    { do 5 (destruct fuel as [|fuel]; [cbn in Hf; lia|]). cbn. rewrite IH by (cbn in Hf; lia). reflexivity. }
    destruct (Z.eqb_spec c 60) as [->|N60].
    { do 4 (destruct fuel as [|fuel]; [cbn in Hf; lia|]). cbn. rewrite IH by (cbn in Hf; lia). reflexivity. }
    destruct (Z.eqb_spec c 62) as [->|N62].
    { do 4 (destruct fuel as [|fuel]; [cbn in Hf; lia|]). cbn. rewrite IH by (cbn in Hf; lia). reflexivity. }
    destruct (Z.eqb_spec c 9) as [->|N9].
    { destruct fuel as [|fuel]; [cbn in Hf; lia|]. cbn. rewrite IH by (cbn in Hf; lia). reflexivity. }
    destruct (Z.eqb_spec c 10) as [->|N10].
    { destruct fuel as [|fuel]; [cbn in Hf; lia|]. cbn. rewrite IH by (cbn in Hf; lia). reflexivity. }
    destruct (Z.eqb_spec c 13) as [->|N13].
    { do 5 (destruct fuel as [|fuel]; [cbn in Hf; lia|]). cbn. rewrite IH by (cbn in Hf; lia). reflexivity. }
    destruct fuel as [|fuel]; [lia|].
    destruct (valid_char c); cbn [app length] in *.
    + rewrite line_filter_cons_plain by exact N38. rewrite IH by lia. reflexivity.
    + rewrite line_filter_cons_plain by lia. rewrite IH by lia. reflexivity.
Qed.

(* escape then line filter: every character becomes its file form; in particular TAB and LF
   stay literal, and the less-than, ampersand and double-quote characters never appear raw *)
Lemma filter_escape t : filter_text (escape_text t) = flat_map out_cp t.
Proof. unfold filter_text. apply line_filter_escape. lia. Qed.

Lemma chardata_plain f c r acc :
  c <> 60 -> c <> 38 -> c <> 13 -> valid_char c = true ->
  chardata (S f) (c :: r) acc = chardata f r (c :: acc).
Proof.
  intros H60 H38 H13 Hv. cbn [chardata].
  destruct c as [|p|p]; [discriminate Hv| |discriminate Hv].
  do 6 (try destruct p as [p|p|]); try (exfalso; lia); rewrite ?Hv; try reflexivity.
Qed.

(* the strict reader gives the text back (invalid characters having been replaced by U+FFFD) *)
Lemma chardata_out : forall t fuel acc rest,
  (length (flat_map out_cp t) + length rest < fuel)%nat ->
  (rest = [] \/ exists r, rest = 60 :: r) ->
  chardata fuel (flat_map out_cp t ++ rest) acc =
  Ok (rev' (rev' (map (fun c => if valid_char c then c else 65533) t) ++ acc), rest).
Proof.
  induction t as [|c t IH]; intros fuel acc rest Hf Hr.
  - cbn [flat_map map app rev'] in *. destruct fuel as [|fuel]; [lia|].
    destruct Hr as [->|[r ->]]; cbn [chardata]; unfold rev'; cbn; reflexivity.
  - cbn [flat_map map] in *. rewrite app_length in Hf. rewrite <- app_assoc.
    assert (Hrev : forall x l, rev' (rev' (x :: l) ++ acc) = rev' (rev' l ++ x :: acc)).
    { intros x l. unfold rev'. rewrite <- !rev_alt. cbn [rev]. rewrite <- app_assoc. reflexivity. }
    rewrite Hrev. unfold out_cp at 1 in Hf. unfold out_cp at 1.
    destruct (Z.eqb_spec c 34) as [->|N34].
    { destruct fuel as [|fuel]; [cbn in Hf; lia|]. cbn. apply IH; [cbn in Hf; lia|exact Hr]. }
    destruct (Z.eqb_spec c 39) as [->|N39].
    { destruct fuel as [|fuel]; [cbn in Hf; lia|]. cbn. apply IH; [cbn in Hf; lia|exact Hr]. }
    destruct (Z.eqb_spec c 38) as [->|N38].
    { destruct fuel as [|fuel]; [cbn in Hf; lia|]. cbn. apply IH; [cbn in Hf; lia|exact Hr]. }
    destruct (Z.eqb_spec c 60) as [->|N60].
    { destruct fuel as [|fuel]; [cbn in Hf; lia|]. cbn. apply IH; [cbn in Hf; lia|exact Hr]. }
    destruct (Z.eqb_spec c 62) as [->|N62].
    { destruct fuel as [|fuel]; [cbn in Hf; lia|]. cbn. apply IH; [cbn in Hf; lia|exact Hr]. }
    destruct (Z.eqb_spec c 9) as [->|N9].
    { destruct fuel as [|fuel]; [cbn in Hf; lia|]. cbn. apply IH; [cbn in Hf; lia|exact Hr]. }
    destruct (Z.eqb_spec c 10) as [->|N10].
    { destruct fuel as [|fuel]; [cbn in Hf; lia|]. cbn. apply IH; [cbn in Hf; lia|exact Hr]. }
    destruct (Z.eqb_spec c 13) as [->|N13].
    { destruct fuel as [|fuel]; [cbn in Hf; lia|]. cbn. apply IH; [cbn in Hf; lia|exact Hr]. }
    destruct fuel as [|fuel]; [cbn in Hf; lia|].
    destruct (valid_char c) eqn:Hv; cbn [app length] in *.
    + rewrite chardata_plain by assumption. apply IH; [lia|exact Hr].
    + cbn [chardata]. cbn. apply IH; [lia|exact Hr].
Qed.

Definition clean (t : text) : text := map (fun c => if valid_char c then c else 65533) t.

Theorem text_roundtrip t rest :
  (rest = [] \/ exists r, rest = 60 :: r) ->
  chardata (S (length (filter_text (escape_text t) ++ rest))) (filter_text (escape_text t) ++ rest) [] = Ok (clean t, rest).
Proof.
  intros Hr. rewrite filter_escape.
  assert (Hf : (length (flat_map out_cp t) + length rest < S (length (flat_map out_cp t ++ rest)))%nat)
    by (rewrite app_length; apply Nat.lt_succ_diag_r).
  rewrite (chardata_out t _ [] rest Hf Hr).
  rewrite app_nil_r. unfold rev'. rewrite <- !rev_alt, rev_involutive. reflexivity.
Qed.

(* nothing the encoder writes for a text field contains a raw '<' or a raw '&' that is not
   the start of one of the references the strict reader knows *)
Lemma out_cp_no_lt c : ~ In 60 (out_cp c).
Proof.
  unfold out_cp.
  repeat match goal with |- context [if ?b then _ else _] => destruct b eqn:? end;
    cbn; intros H; repeat (destruct H as [H|H]; [try discriminate H|]); try contradiction;
    subst; try discriminate.
Qed.

Lemma document_has_declaration root : starts xml_header (document root) = Some (filter_text (print_tree 0 true root)).
Proof.
  unfold document. generalize (filter_text (print_tree 0 true root)). intros r.
  induction xml_header as [|c h IH]; cbn [app starts]; [reflexivity|]. rewrite Z.eqb_refl. exact IH.
Qed.
