(* C01 at the level of whole values: decoding what was encoded and encoding again gives the same
   document, for every value whose leaves are in the leaf domain and that has no optional leaf
   that vanishes (the known finding D22). *)
From Coq Require Import String Ascii List ZArith NArith Bool Lia.
From TT Require Import Base.Outcome Base.Str Base.F64 Xml.Print Laptimer.Leaves Laptimer.Value Laptimer.Codec
     Proofs.Fixed_proofs Proofs.Leaf2_proofs Proofs.Sync_proofs Proofs.Leaf3_proofs.
Import ListNotations.
Local Open Scope Z_scope.

Definition is_omit (m : mode) : bool := match m with MOmit => true | _ => false end.

(* a leaf in an optional field must stay non-empty when decoded (otherwise: D22) *)
Definition keeps (l : leaf) : Prop := forall l', quant_leaf l = Ok l' -> leaf_empty l' = false.

Fixpoint val_ok (v : val) : Prop :=
  match v with
  | VLeaf l => leaf_dom l
  | VStruct fields =>
      (fix go (fs : list (string * mode * field)) : Prop :=
         match fs with
         | [] => True
         | (n, m, f) :: r => field_ok m f /\ go r
         end) fields
  end
with field_ok (m : mode) (f : field) : Prop :=
  match f with
  | FOne (VLeaf l) => if is_omit m && leaf_empty l then True else leaf_dom l /\ (is_omit m = true -> keeps l)
  | FOne v' => val_ok v'
  | FPtr None => True
  | FPtr (Some v') => val_ok v'
  | FMany l => (fix all (l : list val) : Prop := match l with [] => True | x :: t => val_ok x /\ all t end) l
  end.

Lemma zero_leaf_empty l : leaf_empty l = true -> leaf_empty (zero_leaf l) = true.
Proof. destruct l; cbn [zero_leaf leaf_empty]; intros H; try exact H; reflexivity. Qed.

Lemma zero_leaf_text_irrelevant : True. Proof. exact I. Qed.

(* the pieces of to_trees that depend on one field *)
Definition field_attr (n : string) (m : mode) (f : field) : list (string * string) :=
  match m, f with
  | MAttr, FOne (VLeaf l) => [(n, string_of_cps_ascii (leaf_text l))]
  | _, _ => []
  end.
Definition field_kids (n : string) (m : mode) (f : field) : list tree :=
  match m with
  | MAttr => []
  | _ =>
    match f with
    | FOne v' => if is_omit m && (match v' with VLeaf l => leaf_empty l | _ => false end) then [] else to_trees n v'
    | FPtr None => []
    | FPtr (Some v') => to_trees n v'
    | FMany l => flat_map (to_trees n) l
    end
  end.

Lemma to_trees_struct name fields :
  to_trees name (VStruct fields) =
  [TElem name (flat_map (fun '(n, m, f) => field_attr n m f) fields) (flat_map (fun '(n, m, f) => field_kids n m f) fields)].
Proof.
  cbn [to_trees].
  assert (A : flat_map (fun '(n, m, f) => match m, f with MAttr, FOne (VLeaf l) => [(n, string_of_cps_ascii (leaf_text l))] | _, _ => [] end) fields
              = flat_map (fun '(n, m, f) => field_attr n m f) fields).
  { apply flat_map_ext. intros [[n m] f]. reflexivity. }
  assert (K : flat_map (fun '(n, m, f) => match m with
            | MAttr => []
            | _ => match f with
                   | FOne v' => if (match m with MOmit => true | _ => false end) && (match v' with VLeaf l => leaf_empty l | _ => false end) then [] else to_trees n v'
                   | FPtr None => []
                   | FPtr (Some v') => to_trees n v'
                   | FMany l => flat_map (to_trees n) l
                   end
            end) fields = flat_map (fun '(n, m, f) => field_kids n m f) fields).
  { apply flat_map_ext. intros [[n m] f]. unfold field_kids, is_omit. destruct m; reflexivity. }
  rewrite A, K. reflexivity.
Qed.

Definition quant_list : list val -> outcome (list val) :=
  fix gol (l : list val) : outcome (list val) :=
    match l with
    | [] => Ok []
    | x :: t => bind (quant x) (fun x' => bind (gol t) (fun t' => Ok (x' :: t')))
    end.
Definition quant_field (m : mode) (f : field) : outcome field :=
  match f with
  | FOne v' =>
      (match m, v' with
       | MOmit, VLeaf l => if leaf_empty l then Ok (FOne (VLeaf (zero_leaf l))) else omap FOne (quant v')
       | _, _ => omap FOne (quant v')
       end)
  | FPtr None => Ok (FPtr None)
  | FPtr (Some v') => omap (fun x => FPtr (Some x)) (quant v')
  | FMany l => omap FMany (quant_list l)
  end.
Definition quant_fields : list (string * mode * field) -> outcome (list (string * mode * field)) :=
  fix go fs := match fs with
               | [] => Ok []
               | (n, m, f) :: r => bind (quant_field m f) (fun f' => bind (go r) (fun r' => Ok ((n, m, f') :: r')))
               end.
Lemma quant_struct fields : quant (VStruct fields) = omap VStruct (quant_fields fields).
Proof. reflexivity. Qed.

Lemma leaf_trees n l l' : leaf_text l' = leaf_text l -> to_trees n (VLeaf l') = to_trees n (VLeaf l).
Proof. intros E. cbn [to_trees]. rewrite E. reflexivity. Qed.

Lemma quant_ok : forall v, val_ok v -> exists q, quant v = Ok q /\ (forall name, to_trees name q = to_trees name v)
with quant_field_ok : forall f m, field_ok m f ->
  exists f', quant_field m f = Ok f' /\ (forall n, field_attr n m f' = field_attr n m f /\ field_kids n m f' = field_kids n m f).
Proof.
  - intros [l|fields] H.
    + cbn [val_ok] in H. destruct (leaf_reencode l H) as [l' [E1 E2]]. exists (VLeaf l'). cbn [quant]. rewrite E1. split; [reflexivity|].
      intros name. apply leaf_trees. exact E2.
    + cbn [val_ok] in H. rewrite quant_struct.
      assert (G : exists fs', quant_fields fields = Ok fs' /\
                  flat_map (fun '(n, m, f) => field_attr n m f) fs' = flat_map (fun '(n, m, f) => field_attr n m f) fields /\
                  flat_map (fun '(n, m, f) => field_kids n m f) fs' = flat_map (fun '(n, m, f) => field_kids n m f) fields).
      { induction fields as [|[[n m] f] r IH]; [exists []; repeat split; reflexivity|].
        destruct H as [Hf Hr]. destruct (quant_field_ok f m Hf) as [f' [F1 F2]]. destruct (IH Hr) as [r' [R1 [R2 R3]]].
        exists ((n, m, f') :: r'). cbn [quant_fields]. fold quant_fields. rewrite F1. cbn [bind]. rewrite R1. cbn [bind].
        split; [reflexivity|]. destruct (F2 n) as [A K]. cbn [flat_map]. rewrite A, K, R2, R3. split; reflexivity. }
      destruct G as [fs' [G1 [G2 G3]]]. exists (VStruct fs'). rewrite G1. split; [reflexivity|].
      intros name. rewrite !to_trees_struct, G2, G3. reflexivity.
  - intros [v|[v|]|l] m H; cbn [field_ok] in H.
    + (* FOne *)
      pose proof (quant_ok v) as IHv.
      destruct v as [l|fields].
      * (* a leaf *)
        destruct (is_omit m && leaf_empty l) eqn:Eo.
        -- apply andb_true_iff in Eo. destruct Eo as [Em El]. destruct m; try discriminate Em.
           exists (FOne (VLeaf (zero_leaf l))). cbn [quant_field]. rewrite El. split; [reflexivity|].
           intros n. split; [reflexivity|]. unfold field_kids, is_omit. rewrite El, (zero_leaf_empty l El). reflexivity.
        -- destruct H as [Hd Hk]. destruct (leaf_reencode l Hd) as [l' [E1 E2]].
           exists (FOne (VLeaf l')).
           assert (Eq : quant_field m (FOne (VLeaf l)) = Ok (FOne (VLeaf l'))).
           { cbn [quant_field]. destruct m; cbn [quant]; try (rewrite E1; reflexivity).
             cbn [is_omit andb] in Eo. rewrite Eo. cbn [quant]. rewrite E1. reflexivity. }
           split; [exact Eq|]. intros n. split.
           ++ unfold field_attr. destruct m; try reflexivity. rewrite E2. reflexivity.
           ++ unfold field_kids. destruct m; try reflexivity.
              ** cbn [is_omit andb]. apply leaf_trees. exact E2.
              ** cbn [is_omit andb] in *. rewrite Eo. rewrite (Hk eq_refl l' E1). apply leaf_trees. exact E2.
      * destruct (IHv H) as [q [Q1 Q2]]. exists (FOne q).
        assert (Eq : quant_field m (FOne (VStruct fields)) = Ok (FOne q)) by (cbn [quant_field]; destruct m; rewrite Q1; reflexivity).
        split; [exact Eq|]. intros n. 
        assert (Hq : exists fs', q = VStruct fs').
        { rewrite quant_struct in Q1. destruct (quant_fields fields); cbn [omap] in Q1; try discriminate. inversion Q1. eexists. reflexivity. }
        destruct Hq as [fs' ->]. split; [unfold field_attr; destruct m; reflexivity|].
        unfold field_kids. destruct m; try reflexivity; cbn [is_omit andb]; try rewrite andb_false_r; apply Q2.
    + destruct (quant_ok v H) as [q [Q1 Q2]]. exists (FPtr (Some q)). cbn [quant_field]. rewrite Q1. split; [reflexivity|].
      intros n. split; [unfold field_attr; destruct m; reflexivity|]. unfold field_kids. destruct m; try reflexivity; apply Q2.
    + exists (FPtr None). split; [reflexivity|]. intros n. split; reflexivity.
    + assert (G : exists l', quant_list l = Ok l' /\ forall n, flat_map (to_trees n) l' = flat_map (to_trees n) l).
      { induction l as [|x t IH]; [exists []; split; [reflexivity|intros; reflexivity]|]. destruct H as [Hx Ht].
        destruct (quant_ok x Hx) as [x' [X1 X2]]. destruct (IH Ht) as [t' [T1 T2]].
        exists (x' :: t'). cbn [quant_list]. fold quant_list. rewrite X1. cbn [bind]. rewrite T1. cbn [bind]. split; [reflexivity|].
        intros n. cbn [flat_map]. rewrite X2, T2. reflexivity. }
      destruct G as [l' [G1 G2]]. exists (FMany l'). cbn [quant_field]. rewrite G1. split; [reflexivity|].
      intros n. split; [unfold field_attr; destruct m; reflexivity|]. unfold field_kids. destruct m; try reflexivity; apply G2.
Qed.

(* The database-level statement: for every value of the domain, decoding the encoding gives a
   value whose encoding is the same document. *)
Theorem reencode_identical v : val_ok v -> exists q, quant v = Ok q /\ enc q = enc v.
Proof.
  intros H. destruct (quant_ok v H) as [q [Q1 Q2]]. exists q. split; [exact Q1|].
  unfold enc, enc_text, root_tree. rewrite Q2. reflexivity.
Qed.

(* ---- the hypothesis as a computable test (used to count, per run, how many of the generated
   databases are inside the theorem's domain) ---- *)
From TT Require Import Base.Civil Proofs.C10_real Proofs.Leaf_proofs.
Definition is_zero_b (x : f64) : bool := match of_bits x with Binary.B754_zero _ _ _ => true | _ => false end.
Definition printable_b (dp : nat) (x : f64) : bool :=
  is_zero_b x ||
  match decomp x with
  | Some (_, m, e) => (0 <=? scaled_q m e dp) && (scaled_q m e dp <? 2 ^ 51)
  | None => false
  end.
Lemma printable_b_ok dp x : printable_b dp x = true -> printable dp x.
Proof.
  unfold printable_b. intros H. apply orb_true_iff in H. destruct H as [H|H].
  - left. unfold is_zero_b in H. destruct (of_bits x) as [s|?|? ? ?|? ? ? ?]; try discriminate. exists s. reflexivity.
  - destruct (decomp x) as [[[s m] e]|] eqn:E; [|discriminate].
    apply andb_true_iff in H. destruct H as [H1 H2]. apply Z.leb_le in H1. apply Z.ltb_lt in H2.
    apply (printable_of_decomp dp x s m e E). lia.
Qed.
Definition date_ok_b (t : Z) : bool :=
  (first_day * ns_per_day <=? t) && (t <? (first_day + Z.of_nat n_days) * ns_per_day).
Definition dur_ok_b (d : Z) : bool := (0 <=? d) && (d <? 2 ^ 62).
Definition leaf_dom_b (l : leaf) : bool :=
  match l with
  | LvStr t => forallb valid_char t
  | LvInt _ | LvBool _ | LvPos _ _ _ | LvThresh _ | LvFg _ _ => true
  | LvF dp x => Nat.leb dp 22 && printable_b dp x
  | LvDur d => dur_ok_b d
  | LvLapDate t | LvFixDate t => date_ok_b t
  | LvCoord la lo => printable_b 8 la && printable_b 8 lo
  | LvAltCoord la lo al => printable_b 8 la && printable_b 8 lo && printable_b 1 al
  | LvRel dist off => printable_b 1 dist && dur_ok_b off
  | LvInter l => forallb (fun p => dur_ok_b (fst p) && printable_b 1 (snd p)) l
  | LvGear _ r => printable_b 6 r
  | LvTyre _ _ sr _ => (match sr with [] => false | _ => true end) && negb (has_ws sr) && forallb valid_char sr
  | LvTags l => forallb (fun t => forallb valid_char t) l
  | LvSync d => (d =? 0) || (match decomp_pos (seconds_f d) with
                             | Some (m, e) => (0 <=? scaled_q m e 2) && (scaled_q m e 2 <? 2 ^ 51)
                             | None => false
                             end)
  end.
Lemma dur_ok_b_ok d : dur_ok_b d = true -> 0 <= d < 2 ^ 62.
Proof. unfold dur_ok_b. intros H. apply andb_true_iff in H. destruct H as [H1 H2]. apply Z.leb_le in H1. apply Z.ltb_lt in H2. lia. Qed.
Lemma leaf_dom_b_ok l : leaf_dom_b l = true -> leaf_dom l.
Proof.
  destruct l; cbn [leaf_dom_b leaf_dom]; intros H; try exact I; try discriminate; try exact H;
    repeat match goal with H : _ && _ = true |- _ => apply andb_true_iff in H; destruct H end;
    repeat match goal with
           | H : printable_b _ _ = true |- _ => apply printable_b_ok in H
           | H : dur_ok_b _ = true |- _ => apply dur_ok_b_ok in H
           | H : Nat.leb _ _ = true |- _ => apply Nat.leb_le in H
           end; auto.
  - unfold date_ok_b in H. apply andb_true_iff in H. destruct H as [H1 H2]. apply Z.leb_le in H1. apply Z.ltb_lt in H2. unfold date_ok. lia.
  - unfold date_ok_b in H. apply andb_true_iff in H. destruct H as [H1 H2]. apply Z.leb_le in H1. apply Z.ltb_lt in H2. unfold date_ok. lia.
  - rewrite forallb_forall in H. apply Forall_forall. intros p Hp. specialize (H p Hp). apply andb_true_iff in H. destruct H as [H1 H2].
    split; [apply dur_ok_b_ok; exact H1|apply printable_b_ok; exact H2].
  - split; [destruct sr; [discriminate|discriminate]|]. split; [destruct (has_ws sr); [discriminate|reflexivity]|assumption].
  - rewrite forallb_forall in H. apply Forall_forall. exact H.
  - unfold sync_dom. apply orb_true_iff in H. destruct H as [H|H]; [left; apply Z.eqb_eq; exact H|right].
    destruct (decomp_pos (seconds_f d)) as [[m e]|]; [|discriminate]. exists m, e. split; [reflexivity|].
    apply andb_true_iff in H. destruct H as [H1 H2]. apply Z.leb_le in H1. apply Z.ltb_lt in H2. lia.
Qed.
Definition keeps_b (l : leaf) : bool := match quant_leaf l with Ok l' => negb (leaf_empty l') | _ => true end.
Lemma keeps_b_ok l : keeps_b l = true -> keeps l.
Proof. unfold keeps_b, keeps. intros H l' E. rewrite E in H. destruct (leaf_empty l'); [discriminate|reflexivity]. Qed.

Fixpoint val_ok_b (v : val) : bool :=
  match v with
  | VLeaf l => leaf_dom_b l
  | VStruct fields =>
      (fix go (fs : list (string * mode * field)) : bool :=
         match fs with
         | [] => true
         | (n, m, f) :: r => field_ok_b m f && go r
         end) fields
  end
with field_ok_b (m : mode) (f : field) : bool :=
  match f with
  | FOne (VLeaf l) => if is_omit m && leaf_empty l then true else leaf_dom_b l && (negb (is_omit m) || keeps_b l)
  | FOne v' => val_ok_b v'
  | FPtr None => true
  | FPtr (Some v') => val_ok_b v'
  | FMany l => (fix all (l : list val) : bool := match l with [] => true | x :: t => val_ok_b x && all t end) l
  end.

Lemma val_ok_b_ok : forall v, val_ok_b v = true -> val_ok v
with field_ok_b_ok : forall f m, field_ok_b m f = true -> field_ok m f.
Proof.
  - intros [l|fields] H; cbn [val_ok_b val_ok] in *; [apply leaf_dom_b_ok; exact H|].
    induction fields as [|[[n m] f] r IH]; [exact I|]. apply andb_true_iff in H. destruct H as [H1 H2].
    split; [apply field_ok_b_ok; exact H1|apply IH; exact H2].
  - intros [v|[v|]|l] m H; cbn [field_ok_b field_ok] in *.
    + pose proof (val_ok_b_ok v) as IHv. destruct v as [l|fields].
      * destruct (is_omit m && leaf_empty l); [exact I|]. apply andb_true_iff in H. destruct H as [H1 H2].
        split; [apply leaf_dom_b_ok; exact H1|]. intros Hm. rewrite Hm in H2. cbn [negb orb] in H2. apply keeps_b_ok. exact H2.
      * apply IHv. exact H.
    + apply val_ok_b_ok. exact H.
    + exact I.
    + induction l as [|x t IH]; [exact I|]. apply andb_true_iff in H. destruct H as [H1 H2]. split; [apply val_ok_b_ok; exact H1|apply IH; exact H2].
Qed.

Corollary reencode_identical_b v : val_ok_b v = true -> exists q, quant v = Ok q /\ enc q = enc v.
Proof. intros H. apply reencode_identical, val_ok_b_ok, H. Qed.
