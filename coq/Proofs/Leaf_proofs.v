(* Leaf codecs of the LapTimer format: printing then reading gives the value at the format's
   precision.  Decimal printing/reading of integers is the common core. *)
From Coq Require Import String Ascii List ZArith NArith Bool Lia.
From TT Require Import Base.Outcome Base.Str Base.F64 Base.GoParse Base.Civil Laptimer.Leaves.
Import ListNotations.
Local Open Scope Z_scope.

(* ---- decimal digits ---- *)
Lemma digits_val_app : forall l1 l2 x, digits_val x (l1 ++ l2) = digits_val (digits_val x l1) l2.
Proof. induction l1 as [|c l1 IH]; intros l2 x; cbn [app digits_val]; [reflexivity|apply IH]. Qed.

Definition dchar (d : Z) : ascii := ascii_of_N (Z.to_N (48 + d)).

Lemma dchar_props d : 0 <= d < 10 -> is_digit (dchar d) = true /\ digit_val (dchar d) = d /\ Ascii.eqb (dchar d) "_" = false.
Proof.
  intros H. assert (E : d = 0 \/ d = 1 \/ d = 2 \/ d = 3 \/ d = 4 \/ d = 5 \/ d = 6 \/ d = 7 \/ d = 8 \/ d = 9) by lia.
  destruct E as [->|[->|[->|[->|[->|[->|[->|[->|[->| ->]]]]]]]]]; repeat split; reflexivity.
Qed.

Lemma pos_digits_spec : forall fuel z acc, 0 <= z < 10 ^ Z.of_nat fuel -> (0 < fuel)%nat ->
  exists dz, pos_digits fuel z acc = dz ++ acc /\ digits_val 0 dz = z /\ forallb is_digit dz = true /\
             forallb (fun c => negb (Ascii.eqb c "_")) dz = true /\ dz <> [].
Proof.
  induction fuel as [|f IH]; intros z acc Hz Hf; [lia|].
  cbn [pos_digits]. fold (dchar (z mod 10)).
  assert (Hd : 0 <= z mod 10 < 10) by (apply Z.mod_pos_bound; lia).
  destruct (dchar_props _ Hd) as [D1 [D2 D3]].
  destruct (Z.ltb_spec z 10).
  - exists [dchar (z mod 10)]. cbn. rewrite D1, D2, D3. rewrite Z.mod_small by lia. repeat split; try reflexivity; try lia. discriminate.
  - destruct f as [|f'].
    { exfalso. cbn in Hz. lia. }
    destruct (IH (z / 10) (dchar (z mod 10) :: acc)) as [dz [E1 [E2 [E3 [E4 E5]]]]].
    + split; [apply Z.div_pos; lia|]. apply Z.div_lt_upper_bound; [lia|].
      rewrite Nat2Z.inj_succ, Z.pow_succ_r in Hz by lia. lia.
    + lia.
    + exists (dz ++ [dchar (z mod 10)]). rewrite E1, <- app_assoc. cbn [app]. split; [reflexivity|].
      rewrite digits_val_app, E2. cbn [digits_val]. rewrite D2. split; [pose proof (Z.div_mod z 10 ltac:(lia)); lia|].
      rewrite !forallb_app, E3, E4. cbn. rewrite D1, D3. repeat split; try reflexivity.
      intros Habs. apply app_eq_nil in Habs. destruct Habs; discriminate.
Qed.

Lemma nat_dec_chars z : 0 <= z < 10 ^ 400 ->
  exists dz, chars_of (nat_dec z) = dz /\ digits_val 0 dz = z /\ forallb is_digit dz = true /\
             forallb (fun c => negb (Ascii.eqb c "_")) dz = true /\ dz <> [].
Proof.
  intros Hz. unfold nat_dec. destruct (pos_digits_spec 400 z [] Hz ltac:(lia)) as [dz [E1 [E2 [E3 [E4 E5]]]]].
  exists dz. rewrite E1, app_nil_r, chars_of_of. repeat split; assumption.
Qed.

(* reading a run of digits that is followed by something that is neither digit nor underscore *)
Definition stops (rest : list ascii) : Prop :=
  match rest with [] => True | c :: _ => is_digit c = false /\ Ascii.eqb c "_" = false end.

Lemma span_digits_us_app : forall dz rest, forallb is_digit dz = true -> stops rest ->
  span_digits (dz ++ rest) = (dz, rest).
Proof.
  induction dz as [|c dz IH]; intros rest Hd Hs; cbn [app].
  - destruct rest as [|c r]; [reflexivity|]. destruct Hs as [H1 H2]. cbn [span_digits]. rewrite H1. reflexivity.
  - cbn [forallb] in Hd. apply andb_true_iff in Hd. destruct Hd as [H1 H2]. cbn [span_digits]. rewrite H1.
    rewrite (IH rest H2 Hs). reflexivity.
Qed.

Lemma all_b_forallb {A} (p : A -> bool) l : all_b p l = forallb p l.
Proof. induction l; cbn; congruence. Qed.

Lemma scan_d_digits dz rest z :
  dz <> [] -> forallb is_digit dz = true -> digits_val 0 dz = z -> 0 <= z < 2 ^ 63 -> stops rest ->
  scan_d (dz ++ rest) = Ok (z, rest).
Proof.
  intros Hne Hd Hv Hz Hs. destruct dz as [|c dz]; [congruence|].
  cbn [forallb] in Hd. apply andb_true_iff in Hd. destruct Hd as [Hc Hd].
  unfold scan_d. cbn [app].
  assert (Hb : is_blank c = false).
  { unfold is_digit in Hc. unfold is_blank. destruct c as [[] [] [] [] [] [] [] []]; cbn in *; try discriminate; reflexivity. }
  cbn [skip_blanks]. rewrite Hb.
  assert (Ho : odd_space c = false).
  { unfold is_digit in Hc. unfold odd_space. destruct c as [[] [] [] [] [] [] [] []]; cbn in *; try discriminate; reflexivity. }
  rewrite Ho.
  assert (Hsign : (match c :: dz ++ rest with
                   | "-"%char :: r => (true, r) | "+"%char :: r => (false, r) | _ => (false, c :: dz ++ rest) end)
                  = (false, c :: dz ++ rest)).
  { unfold is_digit in Hc. destruct c as [[] [] [] [] [] [] [] []]; cbn in *; try discriminate; reflexivity. }
  rewrite Hsign.
  change (c :: dz ++ rest) with ((c :: dz) ++ rest).
  rewrite span_digits_us_app by (try exact Hs; cbn [forallb]; rewrite Hc, Hd; reflexivity).
  rewrite all_b_forallb. cbn [forallb]. rewrite Hc, Hd. cbn [andb]. rewrite Hv.
  unfold int64_ok. destruct (Z.leb_spec (- 2 ^ 63) z); [|lia]. destruct (Z.ltb_spec z (2 ^ 63)); [|lia]. reflexivity.
Qed.

(* %02d of a non-negative number, then something that stops the scan *)
Lemma pad_chars n z : 0 <= z < 10 ^ 400 ->
  exists dz, chars_of (pad n z) = dz /\ digits_val 0 dz = z /\ forallb is_digit dz = true /\ dz <> [].
Proof.
  intros Hz. destruct (nat_dec_chars z Hz) as [dz [E1 [E2 [E3 [_ E5]]]]].
  unfold pad. set (k := (n - String.length (nat_dec z))%nat).
  exists (repeat "0"%char k ++ dz). split.
  - assert (G : forall a b, chars_of (a ++ b)%string = chars_of a ++ chars_of b) by (induction a; intros; cbn; congruence).
    rewrite G, chars_of_of, E1. reflexivity.
  - split; [|split].
    + rewrite digits_val_app. assert (Hz0 : digits_val 0 (repeat "0"%char k) = 0) by (induction k; cbn; auto).
      rewrite Hz0. exact E2.
    + rewrite forallb_app, E3. assert (Hr : forallb is_digit (repeat "0"%char k) = true) by (induction k; cbn; auto). rewrite Hr. reflexivity.
    + intros Habs. apply app_eq_nil in Habs. destruct Habs as [_ Habs]. contradiction.
Qed.

Lemma scan_d_pad n z rest : 0 <= z < 2 ^ 63 -> stops rest ->
  scan_d (chars_of (pad n z) ++ rest) = Ok (z, rest).
Proof.
  intros Hz Hs. assert (Hz' : 0 <= z < 10 ^ 400) by (split; [lia|]; apply Z.lt_trans with (2 ^ 63); [lia|reflexivity]).
  destruct (pad_chars n z Hz') as [dz [E1 [E2 [E3 E4]]]]. rewrite E1. apply scan_d_digits; assumption.
Qed.

(* ---- durations MM:SS.cc ---- *)
Lemma chars_app a b : chars_of (a ++ b)%string = chars_of a ++ chars_of b.
Proof. induction a; cbn; congruence. Qed.

Theorem duration_roundtrip d :
  0 <= d < 2 ^ 62 -> dur_parse (dur_string d) = Ok (d / 10000000 * 10000000).
Proof.
  intros Hd. unfold dur_string, dur_parse.
  rewrite !Z.quot_div_nonneg by lia.
  set (m := d / 60000000000).
  assert (Hm : 0 <= m) by (apply Z.div_pos; lia).
  assert (Hr1 : 0 <= d - m * 60000000000 < 60000000000).
  { unfold m. pose proof (Z.div_mod d 60000000000 ltac:(lia)). pose proof (Z.mod_pos_bound d 60000000000 ltac:(lia)). lia. }
  rewrite !Z.quot_div_nonneg by lia.
  set (s := (d - m * 60000000000) / 1000000000).
  assert (Hs : 0 <= s < 60) by (unfold s; split; [apply Z.div_pos; lia|apply Z.div_lt_upper_bound; lia]).
  assert (Hr2 : 0 <= d - m * 60000000000 - s * 1000000000 < 1000000000).
  { unfold s. pose proof (Z.div_mod (d - m * 60000000000) 1000000000 ltac:(lia)). pose proof (Z.mod_pos_bound (d - m * 60000000000) 1000000000 ltac:(lia)). lia. }
  rewrite (Z.quot_div_nonneg (d - m * 60000000000 - s * 1000000000) 1000000) by lia.
  rewrite Z.quot_div_nonneg by (try lia; apply Z.div_pos; lia).
  set (cs := (d - m * 60000000000 - s * 1000000000) / 1000000 / 10).
  assert (Hcs : 0 <= cs < 100).
  { unfold cs. split; [apply Z.div_pos; [apply Z.div_pos; lia|lia]|].
    apply Z.div_lt_upper_bound; [lia|]. apply Z.div_lt_upper_bound; lia. }
  assert (Hmb : m < 2 ^ 63) by (unfold m; apply Z.div_lt_upper_bound; lia).
  unfold pad2. destruct (Z.ltb_spec m 0); [lia|]. destruct (Z.ltb_spec s 0); [lia|]. destruct (Z.ltb_spec cs 0); [lia|].
  rewrite !chars_app. cbn [chars_of app].
  rewrite scan_d_pad by (try lia; cbn; split; reflexivity). cbn [bind scan_lit]. rewrite Ascii.eqb_refl. cbn [bind].
  rewrite scan_d_pad by (try lia; cbn; split; reflexivity). cbn [bind scan_lit]. rewrite Ascii.eqb_refl. cbn [bind].
  replace (chars_of (pad 2 cs)) with (chars_of (pad 2 cs) ++ []) by apply app_nil_r.
  rewrite scan_d_pad by (try lia; exact I). cbn [bind]. f_equal.
  (* m*60e9 + s*1e9 + cs*10*1e6 = floor(d / 1e7) * 1e7 *)
  unfold cs, s, m.
  pose proof (Z.div_mod d 60000000000 ltac:(lia)) as E1.
  pose proof (Z.div_mod (d - d / 60000000000 * 60000000000) 1000000000 ltac:(lia)) as E2.
  set (r2 := d - d / 60000000000 * 60000000000 - (d - d / 60000000000 * 60000000000) / 1000000000 * 1000000000) in *.
  rewrite Z.div_div by lia. change (1000000 * 10) with 10000000.
  assert (Ed : d = (d / 60000000000 * 6000 + (d - d / 60000000000 * 60000000000) / 1000000000 * 100) * 10000000 + r2) by (unfold r2; lia).
  assert (Hq : d / 10000000 = d / 60000000000 * 6000 + (d - d / 60000000000 * 60000000000) / 1000000000 * 100 + r2 / 10000000).
  { rewrite Ed at 1. rewrite Z.add_comm, Z.div_add by lia. lia. }
  rewrite Hq. lia.
Qed.

(* ---- dates ---- *)
Definition pad2_ok (x : Z) : bool :=
  match chars_of (pad 2 x) with
  | [a; b] => match two_digits a b with Some y => y =? x | None => false end
  | _ => false
  end.
Definition zrange (lo : Z) (n : nat) : list Z := map (fun i => lo + Z.of_nat i) (seq 0 n).
Lemma zrange_in lo n x : lo <= x < lo + Z.of_nat n -> In x (zrange lo n).
Proof.
  intros H. unfold zrange. apply in_map_iff. exists (Z.to_nat (x - lo)). split; [lia|]. apply in_seq. lia.
Qed.

Lemma pad2_sweep : forallb pad2_ok (zrange 0 100) = true.
Proof. vm_compute. reflexivity. Qed.
Lemma pad2_two x : 0 <= x < 100 -> exists a b, chars_of (pad 2 x) = [a; b] /\ two_digits a b = Some x.
Proof.
  intros H. pose proof (proj1 (forallb_forall _ _) pad2_sweep x (zrange_in 0 100 x ltac:(lia))) as P.
  unfold pad2_ok in P. destruct (chars_of (pad 2 x)) as [|a [|b [|c r]]]; try discriminate.
  destruct (two_digits a b) as [y|] eqn:E; [|discriminate]. apply Z.eqb_eq in P. subst y. exists a, b. split; [reflexivity|exact E].
Qed.

Definition month_ok (mo : Z) : bool :=
  match chars_of (nth (Z.to_nat (mo - 1)) months "???"%string) with
  | [a; b; c] => match find_month months 1 (of_chars [upper a; upper b; upper c]) with Some k => k =? mo | None => false end
  | _ => false
  end.
Lemma month_sweep : forallb month_ok (zrange 1 12) = true.
Proof. vm_compute. reflexivity. Qed.
Lemma month_three mo : 1 <= mo <= 12 -> exists a b c, chars_of (nth (Z.to_nat (mo - 1)) months "???"%string) = [a; b; c] /\
  find_month months 1 (of_chars [upper a; upper b; upper c]) = Some mo.
Proof.
  intros H. pose proof (proj1 (forallb_forall _ _) month_sweep mo (zrange_in 1 12 mo ltac:(lia))) as P.
  unfold month_ok in P. destruct (chars_of _) as [|a [|b [|c [|e r]]]]; try discriminate.
  destruct (find_month _ _ _) as [k|] eqn:E; [|discriminate]. apply Z.eqb_eq in P. subst k. exists a, b, c. split; [reflexivity|exact E].
Qed.

(* every day from 1969-01-01 to 2068-12-31: the calendar conversion is a bijection there and the
   two-digit year is read back as the same year *)
Definition day_ok (day : Z) : bool :=
  let '(y, mo, d) := civil_from_days day in
  let yy := y mod 100 in
  let y' := if 69 <=? yy then 1900 + yy else 2000 + yy in
  (1 <=? mo) && (mo <=? 12) && (1 <=? d) && (d <=? days_in_month y mo) && (d <? 100) &&
  (y' =? y) && (days_from_civil y mo d =? day).
Definition first_day : Z := -365.
Definition n_days : nat := Z.to_nat 36525.
Lemma day_sweep : forallb day_ok (zrange first_day n_days) = true.
Proof. vm_compute. reflexivity. Qed.
Lemma day_ok_in day : first_day <= day < first_day + Z.of_nat n_days -> day_ok day = true.
Proof. intros H. exact (proj1 (forallb_forall _ _) day_sweep day (zrange_in _ _ _ H)). Qed.
Example range_is_1969_to_2068 :
  civil_from_days first_day = (1969, 1, 1) /\ civil_from_days (first_day + Z.of_nat n_days - 1) = (2068, 12, 31).
Proof. vm_compute. split; reflexivity. Qed.

Ltac Zify.zify_post_hook ::= Z.div_mod_to_equations.

Theorem date_roundtrip frac t :
  first_day * ns_per_day <= t < (first_day + Z.of_nat n_days) * ns_per_day ->
  date_parse frac (date_string frac t) =
  Ok (if frac then t / 10000000 * 10000000 else t / 1000000000 * 1000000000).
Proof.
  intros Ht. unfold date_string.
  assert (Hday : first_day <= day_of_ns t < first_day + Z.of_nat n_days).
  { unfold day_of_ns, ns_per_day, ns_per_s in *. lia. }
  pose proof (day_ok_in _ Hday) as Hok. unfold day_ok in Hok.
  destruct (civil_from_days (day_of_ns t)) as [[y mo] d].
  repeat (apply andb_true_iff in Hok; destruct Hok as [Hok ?]).
  repeat match goal with
         | H : (_ <=? _) = true |- _ => apply Z.leb_le in H
         | H : (_ <? _) = true |- _ => apply Z.ltb_lt in H
         | H : (_ =? _) = true |- _ => apply Z.eqb_eq in H
         end.
  assert (Htod : 0 <= tod_of_ns t < 86400000000000) by (unfold tod_of_ns, ns_per_day, ns_per_s; lia).
  set (tod := tod_of_ns t) in *.
  destruct (pad2_two d ltac:(lia)) as [d1 [d2 [Ed Ed']]].
  destruct (month_three mo ltac:(lia)) as [m1 [m2 [m3 [Em Em']]]].
  destruct (pad2_two (y mod 100) ltac:(lia)) as [y1 [y2 [Ey Ey']]].
  destruct (pad2_two (tod / 3600000000000) ltac:(lia)) as [h1 [h2 [Eh Eh']]].
  destruct (pad2_two ((tod / 60000000000) mod 60) ltac:(lia)) as [i1 [i2 [Ei Ei']]].
  destruct (pad2_two ((tod / 1000000000) mod 60) ltac:(lia)) as [s1 [s2 [Es Es']]].
  destruct (pad2_two ((tod mod 1000000000) / 10000000) ltac:(lia)) as [c1 [c2 [Ec Ec']]].
  unfold date_parse. rewrite !chars_app, Ed, Em, Ey, Eh, Ei, Es.
  assert (Erest : chars_of (if frac then ("." ++ pad 2 (tod mod 1000000000 / 10000000))%string else ""%string)
                  = if frac then ["."%char; c1; c2] else []).
  { destruct frac; [|reflexivity]. rewrite chars_app, Ec. reflexivity. }
  rewrite Erest. cbn [chars_of app].
  rewrite Ed', Em', Ey', Eh', Ei', Es'.
  match goal with H : (if 69 <=? _ then _ else _) = y |- _ => rewrite H end.
  destruct (d <? 1) eqn:B1; [apply Z.ltb_lt in B1; lia|].
  destruct (days_in_month y mo <? d) eqn:B2; [apply Z.ltb_lt in B2; lia|].
  destruct (24 <=? tod / 3600000000000) eqn:B3; [apply Z.leb_le in B3; lia|].
  destruct (60 <=? (tod / 60000000000) mod 60) eqn:B4; [apply Z.leb_le in B4; lia|].
  destruct (60 <=? (tod / 1000000000) mod 60) eqn:B5; [apply Z.leb_le in B5; lia|].
  cbn [orb].
  match goal with H : days_from_civil y mo d = _ |- _ => rewrite H end.
  assert (Et : t = day_of_ns t * 86400000000000 + tod).
  { unfold tod, tod_of_ns, day_of_ns, ns_per_day, ns_per_s. lia. }
  destruct frac; [rewrite Ec'|]; f_equal; lia.
Qed.
