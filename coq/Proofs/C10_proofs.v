From Coq Require Import String List ZArith QArith Qabs Bool.
From TT Require Import Base.Outcome Base.Str Base.F64 Base.GoParse
     Trackaddict.Units Trackaddict.Columns.
Import ListNotations.
Local Open Scope string_scope.
Local Open Scope Z_scope.

Definition dual_quantities : list (string * string * conv) :=
  [ ("Speed (MPH)", "Speed (Km/h)", Mi2Km);
    ("Altitude (ft)", "Altitude (m)", Ft2M);
    ("Pressure Altitude (ft)", "Pressure Altitude (m)", Ft2M);
    ("Accuracy (ft)", "Accuracy (m)", Ft2M);
    ("Barometric Pressure (PSI)", "Barometric Pressure (kPa)", Psi2Kpa);
    ("Intake Manifold Pressure (PSI) *OBD", "Intake Manifold Pressure (kPa) *OBD", Psi2Kpa);
    ("Engine Coolant Temp (F) *OBD", "Engine Coolant Temp (C) *OBD", F2C);
    ("Intake Air Temp (F) *OBD", "Intake Air Temp (C) *OBD", F2C);
    ("Vehicle Speed (mph) *OBD", "Vehicle Speed (km/h) *OBD", Mi2Km) ].

Lemma dual_quantities_ok :
  Forall (fun '(imp, met, c) =>
            exists f, col_of_header imp = Some (CFloat f [c]) /\
                      col_of_header met = Some (CFloat f []))
         dual_quantities.
Proof.
  unfold dual_quantities.
  repeat (apply Forall_cons; [eexists; split; vm_compute; reflexivity|]).
  apply Forall_nil.
Qed.

Lemma metric_identity v : decode_cell [] v = parse_float v.
Proof. unfold decode_cell, omap, bind. destruct (parse_float v); reflexivity. Qed.

Lemma twin_logs_same_field :
  forall imp met c, In (imp, met, c) dual_quantities ->
  forall vi vm xi xm r,
    parse_float vi = Ok xi -> parse_float vm = Ok xm ->
    exists f ci cm,
      col_of_header imp = Some ci /\ col_of_header met = Some cm /\
      set_col ci vi r = Ok (set_ffield f (apply_conv c xi) r) /\
      set_col cm vm r = Ok (set_ffield f xm r).
Proof.
  intros imp met c Hin vi vm xi xm r Hi Hm.
  pose proof dual_quantities_ok as H.
  rewrite Forall_forall in H. specialize (H _ Hin). cbv beta iota in H.
  destruct H as [f [H1 H2]].
  exists f, (CFloat f [c]), (CFloat f []). repeat split; try assumption.
  - cbn [set_col]. rewrite Hi. reflexivity.
  - cbn [set_col]. rewrite Hm. reflexivity.
Qed.

Lemma set_ffield_comm f g x y r : f <> g ->
  set_ffield f x (set_ffield g y r) = set_ffield g y (set_ffield f x r).
Proof.
  intros Hne. destruct r as [? ? ? ? ? [? ? ? ? ? ? ?] ? [[? ? ?]|] ? ? ? [[? ? ? ? ? ? ?]|]];
  destruct f, g; try congruence; reflexivity.
Qed.

(* the float64 constants against the exact definitions, as rationals *)
Definition q_of_pos_f64 (a : f64) : Q :=
  (* exact value of a positive normal binary64 given as bits *)
  let e := (a / 2^52) mod 2048 in
  let m := a mod 2^52 + 2^52 in
  if (1075 <=? e)%Z then inject_Z (m * 2 ^ (e - 1075)) else (m # Z.to_pos (2 ^ (1075 - e))).

Definition rel_close (a : f64) (truth eps : Q) : bool :=
  Qle_bool (Qabs (q_of_pos_f64 a - truth)) (eps * truth).

Definition constants_precise : bool :=
  rel_close c_ft2m (3048 # 10000) (1 # 1000000000000000) &&
  rel_close c_m2km (1609344 # 1000000) (25 # 10000000) &&
  rel_close c_psi2kpa (6894757293168 # 1000000000000) (4 # 10000000).

Lemma constants_precise_ok : constants_precise = true.
Proof. vm_compute. reflexivity. Qed.
