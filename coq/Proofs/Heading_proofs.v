From Coq Require Import ZArith QArith Qround Qabs Bool Lia Lqa.
From TT Require Import Geo.Heading.
Local Open Scope Q_scope.

Lemma floor_unique (y : Q) (k : Z) : inject_Z k <= y -> y < inject_Z (k + 1) -> Qfloor y = k.
Proof.
  intros H1 H2.
  assert (A : (k <= Qfloor y)%Z).
  { rewrite <- (Qfloor_Z k). apply Qfloor_resp_le. exact H1. }
  assert (B : (Qfloor y < k + 1)%Z).
  { destruct (Z_lt_le_dec (Qfloor y) (k + 1)) as [L|L]; [exact L|exfalso].
    pose proof (Qfloor_le y) as F. assert (inject_Z (k + 1) <= inject_Z (Qfloor y)) by (rewrite <- Zle_Qle; exact L). lra. }
  lia.
Qed.

(* azimuths equal to within eps (modulo whole turns) point the same way *)
Lemma equal_same d (k : Z) eps : eps < 90 -> Qabs (d - 360 * inject_Z k) <= eps -> same_heading_q d = true.
Proof.
  intros He H. apply Qabs_Qle_condition in H. destruct H as [H1 H2].
  unfold same_heading_q, hdiff.
  assert (F : Qfloor ((d + 180) / 360) = k).
  { apply floor_unique.
    - apply Qle_shift_div_l; [reflexivity|]. lra.
    - apply Qlt_shift_div_r; [reflexivity|]. rewrite inject_Z_plus. change (inject_Z 1) with 1. lra. }
  rewrite F. apply negb_true_iff. destruct (Qle_bool 90 (Qabs (d - 360 * inject_Z k))) eqn:E; [|reflexivity].
  apply Qle_bool_iff in E. exfalso.
  assert (Qabs (d - 360 * inject_Z k) <= eps) by (apply Qabs_Qle_condition; split; lra). lra.
Qed.

(* azimuths half a turn apart to within eps do not *)
Lemma opposite_not_same d (k : Z) eps : eps < 90 -> Qabs (d - 180 - 360 * inject_Z k) <= eps -> same_heading_q d = false.
Proof.
  intros He H. apply Qabs_Qle_condition in H. destruct H as [H1 H2].
  unfold same_heading_q, hdiff. apply negb_false_iff. apply Qle_bool_iff.
  set (y := (d + 180) / 360).
  assert (Y : y * 360 == d + 180) by (unfold y; field).
  destruct (Qlt_le_dec y (inject_Z (k + 1))) as [L|L].
  - assert (F : Qfloor y = k).
    { apply floor_unique; [|exact L]. apply Qle_shift_div_l; [reflexivity|]. lra. }
    rewrite F. apply Qle_trans with (d - 360 * inject_Z k); [lra|apply Qle_Qabs].
  - assert (F : Qfloor y = (k + 1)%Z).
    { apply floor_unique; [exact L|]. apply Qlt_shift_div_r; [reflexivity|]. rewrite !inject_Z_plus. change (inject_Z 1) with 1. lra. }
    rewrite F, inject_Z_plus. change (inject_Z 1) with 1.
    rewrite <- Qabs_opp. apply Qle_trans with (- (d - 360 * (inject_Z k + 1))); [|apply Qle_Qabs].
    rewrite inject_Z_plus in L. change (inject_Z 1) with 1 in L.
    assert (d + 180 >= 360 * (inject_Z k + 1)) by lra. lra.
Qed.
