(* C11: OBD interpolation. *)
From Coq Require Import String Ascii List ZArith Bool Lia.
From TT Require Import Base.Outcome Base.Str Base.F64 Base.Civil
     Trackaddict.Columns Trackaddict.Model Convert.Model.
Import ListNotations.
Local Open Scope Z_scope.
Local Opaque fadd fsub fmul fdiv f_of_Z fround f_trunc_Z fzero dur_seconds.

Definition no_obd (laps : list lap) : Prop :=
  Forall (fun l => Forall (fun r => r_obd r = None) (lap_recs l)) laps.
Definition no_fresh (laps : list lap) : Prop :=
  Forall (fun l => Forall (fun r => match r_obd r with Some o => o_update o = false | None => True end) (lap_recs l)) laps.

(* the collection pass over rows without fresh readings collects no knot *)
Lemma rows_no_fresh li : forall rows ri st,
  Forall (fun r => match r_obd r with Some o => o_update o = false | None => True end) rows ->
  exists st', foldi (predict_row li) ri rows st = Ok st' /\ p_xs st' = p_xs st /\ p_ys st' = p_ys st /\
              p_start st' = p_start st /\
              (Forall (fun r => r_obd r = None) rows -> p_needed st' = p_needed st).
Proof.
  induction rows as [|r t IH]; intros ri st H; cbn [foldi].
  - exists st. repeat split; reflexivity.
  - inversion H as [|? ? Hr Ht]; subst. unfold predict_row at 1.
    destruct (r_obd r) as [o|] eqn:Eo.
    + rewrite Hr. destruct (g_update (r_gps r)); cbn [bind].
      * match goal with |- context [foldi (predict_row li) (S ri) t ?s] =>
          destruct (IH (S ri) s Ht) as [st' [H1 [H2 [H3 [H4 H5]]]]] end.
        exists st'. repeat split; try assumption. intros Hn. inversion Hn; congruence.
      * destruct (IH (S ri) st Ht) as [st' [H1 [H2 [H3 [H4 H5]]]]].
        exists st'. repeat split; try assumption. intros Hn. inversion Hn; congruence.
    + cbn [bind]. destruct (IH (S ri) st Ht) as [st' [H1 [H2 [H3 [H4 H5]]]]].
      exists st'. repeat split; try assumption. intros Hn. inversion Hn; subst. apply H5. assumption.
Qed.

Lemma laps_no_fresh : forall laps li st,
  no_fresh laps ->
  exists st', foldi (fun li st l => foldi (predict_row li) 0 (lap_recs l) st) li laps st = Ok st' /\
              p_xs st' = p_xs st /\ (no_obd laps -> p_needed st' = p_needed st).
Proof.
  induction laps as [|l t IH]; intros li st H; cbn [foldi].
  - exists st. repeat split; reflexivity.
  - inversion H as [|? ? Hl Ht]; subst.
    destruct (rows_no_fresh li (lap_recs l) 0 st Hl) as [st1 [H1 [H2 [H3 [H4 H5]]]]].
    rewrite H1. cbn [bind]. destruct (IH (S li) st1 Ht) as [st2 [G1 [G2 G3]]].
    exists st2. repeat split; [exact G1|congruence|].
    intros Hn. inversion Hn; subst. rewrite G3 by assumption. apply H5. assumption.
Qed.

(* logs whose OBD columns never report an update convert (nothing to predict from) *)
Lemma predict_no_fresh laps : no_fresh laps -> predict_obd laps = Ok laps.
Proof.
  intros H. unfold predict_obd, predict_obd_with.
  destruct (laps_no_fresh laps 0 (mkP None [] [] []) H) as [st [H1 [H2 _]]].
  rewrite H1. cbn [bind]. destruct (p_needed st); [reflexivity|].
  rewrite H2. reflexivity.
Qed.

Lemma no_obd_no_fresh laps : no_obd laps -> no_fresh laps.
Proof.
  unfold no_obd, no_fresh. intros H. eapply Forall_impl; [|exact H]. intros l Hl.
  eapply Forall_impl; [|exact Hl]. intros r Hr. rewrite Hr. exact I.
Qed.

(* logs with no OBD columns convert *)
Lemma predict_no_obd laps : no_obd laps -> predict_obd laps = Ok laps.
Proof. intros H. apply predict_no_fresh, no_obd_no_fresh, H. Qed.

(* the default predictor between two knots: linear interpolation of the neighbours *)
Lemma pl_predict_between xs ys x i :
  find_segment xs x 0 None = Some i -> feq x (nth i xs 0) = false -> Nat.eqb i (length xs - 1) = false ->
  pl_predict xs ys x = fadd (nth i ys 0) (fmul (nth i (slopes xs ys) 0) (fsub x (nth i xs 0))).
Proof. intros H1 H2 H3. unfold pl_predict. rewrite H1, H2, H3. reflexivity. Qed.

Lemma pl_predict_at_knot xs ys x i :
  find_segment xs x 0 None = Some i -> feq x (nth i xs 0) = true -> pl_predict xs ys x = nth i ys 0.
Proof. intros H1 H2. unfold pl_predict. rewrite H1, H2. reflexivity. Qed.

(* slope i is (y[i+1]-y[i]) / (x[i+1]-x[i]) *)
Lemma slopes_nth : forall xs ys i, (S i < length xs)%nat -> (S i < length ys)%nat ->
  nth i (slopes xs ys) 0 = fdiv (fsub (nth (S i) ys 0) (nth i ys 0)) (fsub (nth (S i) xs 0) (nth i xs 0)).
Proof.
  induction xs as [|x0 xs IH]; intros ys i Hx Hy; [simpl in Hx; lia|].
  destruct ys as [|y0 ys]; [simpl in Hy; lia|].
  destruct xs as [|x1 xs']; [simpl in Hx; lia|]. destruct ys as [|y1 ys']; [simpl in Hy; lia|].
  destruct i as [|i]; [reflexivity|].
  change (slopes (x0 :: x1 :: xs') (y0 :: y1 :: ys')) with
    (fdiv (fsub y1 y0) (fsub x1 x0) :: slopes (x1 :: xs') (y1 :: ys')).
  cbn [nth]. apply IH; simpl in *; lia.
Qed.

(* interpolation disabled: the records reach the lap conversion untouched *)
Lemma convert_disabled o v laps geod :
  o_predict o = O ->
  convert o v laps geod =
  (if Nat.ltb (length laps) 3 then Ok []
   else laps_of o (if String.eqb (o_vehicle o) "" then v else o_vehicle o) None 1 (middle laps) geod).
Proof. intros H. unfold convert, convert_with. rewrite H. reflexivity. Qed.
