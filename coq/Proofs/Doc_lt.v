(* C13/C01 at document level: every LapTimer value is written as a document the strict reader
   parses back to the intended tree. *)
From Coq Require Import String Ascii List ZArith NArith Bool Lia.
From TT Require Import Base.Outcome Base.Str Base.F64 Xml.Print Xml.Lex Laptimer.Leaves Laptimer.Value Laptimer.Codec
     Proofs.Xml_proofs Proofs.Doc_proofs.
Import ListNotations.
Local Open Scope Z_scope.

Definition attr_ok (m : mode) (f : field) : Prop :=
  match m, f with
  | MAttr, FOne (VLeaf l) => value_ok (string_of_cps_ascii (leaf_text l))
  | _, _ => True
  end.

(* the names of all fields are XML names and attribute values are plain *)
Fixpoint wf_val (v : val) : Prop :=
  match v with
  | VLeaf _ => True
  | VStruct fields =>
      (fix go (l : list (string * mode * field)) : Prop :=
         match l with
         | [] => True
         | (n, m, f) :: r => name_ok n /\ attr_ok m f /\ wf_field f /\ go r
         end) fields
  end
with wf_field (f : field) : Prop :=
  match f with
  | FOne v => wf_val v
  | FPtr None => True
  | FPtr (Some v) => wf_val v
  | FMany l => (fix all (l : list val) : Prop := match l with [] => True | x :: r => wf_val x /\ all r end) l
  end.

Lemma shaped_forest_app a b : shaped_forest a -> shaped_forest b -> shaped_forest (a ++ b).
Proof. induction a as [|x r IH]; intros Ha Hb; [exact Hb|]. destruct Ha as [H1 H2]. split; [exact H1|apply IH; assumption]. Qed.

Lemma shaped_of_forest n a kids : name_ok n -> attrs_ok a -> shaped_forest kids -> shaped (TElem n a kids).
Proof.
  intros Hn Ha Hk. cbn [shaped]. split; [exact Hn|]. split; [exact Ha|].
  assert (G : forall l, shaped_forest l ->
            (fix all (l : list tree) : Prop := match l with [] => True | x :: r => (is_elem x = true /\ shaped x) /\ all r end) l).
  { induction l as [|y t IH]; intros H; [exact I|]. destruct H as [H1 H2]. split; [exact H1|apply IH; exact H2]. }
  destruct kids as [|x r]; [left; reflexivity|]. right. right. split; [discriminate|]. exact (G (x :: r) Hk).
Qed.

Definition field_trees (n : string) (m : mode) (f : field) : list tree :=
  match m with
  | MAttr => []
  | _ =>
    match f with
    | FOne v' => if (match m with MOmit => true | _ => false end) &&
                    (match v' with VLeaf l => leaf_empty l | _ => false end)
                 then [] else to_trees n v'
    | FPtr None => []
    | FPtr (Some v') => to_trees n v'
    | FMany l => flat_map (to_trees n) l
    end
  end.

Lemma to_trees_shaped : forall v name, name_ok name -> wf_val v -> shaped_forest (to_trees name v)
with field_trees_shaped : forall f n m, name_ok n -> wf_field f -> shaped_forest (field_trees n m f).
Proof.
  - intros [l|fields] name Hn Hw; cbn [to_trees].
    + split; [|exact I]. split; [reflexivity|]. cbn [shaped]. split; [exact Hn|]. split; [constructor|].
      destruct (leaf_text l) as [|c t] eqn:E; [left; reflexivity|]. right. left. exists (c :: t). split; [reflexivity|discriminate].
    + split; [|exact I]. split; [reflexivity|]. apply shaped_of_forest; [exact Hn| |].
      * cbn [wf_val] in Hw. induction fields as [|[[n m] f] r IH]; [constructor|]. destruct Hw as [H1 [H2 [H3 H4]]].
        cbn [flat_map]. destruct m; try (apply IH; exact H4).
        destruct f as [[l|?]|?|?]; try (apply IH; exact H4).
        cbn [app]. constructor; [|apply IH; exact H4]. cbn [fst snd]. split; [exact H1|exact H2].
      * cbn [wf_val] in Hw. induction fields as [|[[n m] f] r IH]; [exact I|]. destruct Hw as [H1 [H2 [H3 H4]]].
        cbn [flat_map]. apply shaped_forest_app; [|apply IH; exact H4].
        exact (field_trees_shaped f n m H1 H3).
  - intros [v|[v|]|l] n m Hn Hw; unfold field_trees; destruct m; try exact I; cbn [wf_field] in Hw.
    + destruct (_ && _); [exact I|]. apply to_trees_shaped; assumption.
    + destruct (_ && _); [exact I|]. apply to_trees_shaped; assumption.
    + apply to_trees_shaped; assumption.
    + apply to_trees_shaped; assumption.
    + induction l as [|x r IH]; [exact I|]. destruct Hw as [H1 H2]. cbn [flat_map]. apply shaped_forest_app; [apply to_trees_shaped; assumption|apply IH; exact H2].
    + induction l as [|x r IH]; [exact I|]. destruct Hw as [H1 H2]. cbn [flat_map]. apply shaped_forest_app; [apply to_trees_shaped; assumption|apply IH; exact H2].
Qed.

Lemma root_name_ok : name_ok "LapTimerDB".
Proof. split; [vm_compute; discriminate|vm_compute; reflexivity]. Qed.

Lemma root_tree_shaped v : wf_val v -> shaped (root_tree v).
Proof.
  intros Hw. unfold root_tree. pose proof (to_trees_shaped v "LapTimerDB" root_name_ok Hw) as H.
  destruct (to_trees "LapTimerDB" v) as [|t r]; [|exact (proj2 (proj1 H))].
  cbn [shaped]. split; [exact root_name_ok|]. split; [constructor|left; reflexivity].
Qed.

(* Every value - any laps, fixes, texts, numbers - is written as a document that the strict reader
   accepts and that parses to exactly the intended element tree (texts cleaned of the characters
   XML cannot carry). *)
Theorem enc_parses v : wf_val v -> lex (enc_text v) = Ok (cleaned (root_tree v)).
Proof. intros Hw. unfold enc_text. apply lex_document. apply root_tree_shaped. exact Hw. Qed.

(* ---- the hypothesis as a computable test, so that every value the harness sends is checked
   to satisfy it (the field names come from the implementation's xml tags by reflection) ---- *)
Definition name_ok_b (n : string) : bool :=
  match cps_of_string n with [] => false | _ => forallb name_char (cps_of_string n) end.
Definition value_ok_b (v : string) : bool :=
  forallb (fun c => negb ((c =? 34) || (c =? 60) || (c =? 38))) (cps_of_string v).
Definition attr_ok_b (m : mode) (f : field) : bool :=
  match m, f with
  | MAttr, FOne (VLeaf l) => value_ok_b (string_of_cps_ascii (leaf_text l))
  | _, _ => true
  end.
Fixpoint wf_val_b (v : val) : bool :=
  match v with
  | VLeaf _ => true
  | VStruct fields =>
      (fix go (l : list (string * mode * field)) : bool :=
         match l with
         | [] => true
         | (n, m, f) :: r => name_ok_b n && attr_ok_b m f && wf_field_b f && go r
         end) fields
  end
with wf_field_b (f : field) : bool :=
  match f with
  | FOne v => wf_val_b v
  | FPtr None => true
  | FPtr (Some v) => wf_val_b v
  | FMany l => (fix all (l : list val) : bool := match l with [] => true | x :: r => wf_val_b x && all r end) l
  end.

Lemma name_ok_b_ok n : name_ok_b n = true -> name_ok n.
Proof. unfold name_ok_b, name_ok. destruct (cps_of_string n) as [|c r]; [discriminate|]. intros H. split; [discriminate|exact H]. Qed.
Lemma attr_ok_b_ok m f : attr_ok_b m f = true -> attr_ok m f.
Proof. unfold attr_ok_b, attr_ok. destruct m; try (intros; exact I). destruct f as [[l|?]|?|?]; try (intros; exact I). intros H. exact H. Qed.

Lemma wf_val_b_ok : forall v, wf_val_b v = true -> wf_val v
with wf_field_b_ok : forall f, wf_field_b f = true -> wf_field f.
Proof.
  - intros [l|fields] H; [exact I|]. cbn [wf_val wf_val_b] in *.
    induction fields as [|[[n m] f] r IH]; [exact I|].
    apply andb_true_iff in H. destruct H as [H H4]. apply andb_true_iff in H. destruct H as [H H3]. apply andb_true_iff in H. destruct H as [H1 H2].
    split; [apply name_ok_b_ok; exact H1|]. split; [apply attr_ok_b_ok; exact H2|]. split; [apply wf_field_b_ok; exact H3|apply IH; exact H4].
  - intros [v|[v|]|l] H; cbn [wf_field wf_field_b] in *; try exact I; try (apply wf_val_b_ok; exact H).
    induction l as [|x r IH]; [exact I|]. apply andb_true_iff in H. destruct H as [H1 H2]. split; [apply wf_val_b_ok; exact H1|apply IH; exact H2].
Qed.

Corollary enc_parses_b v : wf_val_b v = true -> lex (enc_text v) = Ok (cleaned (root_tree v)).
Proof. intros H. apply enc_parses, wf_val_b_ok, H. Qed.
