(* C12: a start-date override shifts every timestamp by one constant and nothing else. *)
From Coq Require Import String Ascii List ZArith Bool Lia.
From TT Require Import Base.Outcome Base.Str Base.F64 Base.Civil
     Trackaddict.Columns Trackaddict.Model Convert.Model Proofs.Conv_proofs.
Import ListNotations.
Local Open Scope Z_scope.
Local Opaque fadd fsub fmul fdiv f_of_Z fround f_trunc_Z fzero round1dp round2dp round0dp roundint.

Definition with_start (o : opts) (s : option Z) : opts :=
  mkOpts (o_track o) (o_vehicle o) (o_tags o) (o_note o) (o_diff o) (o_posfix o) s (o_predict o).

Definition shift_fix (d : Z) (f : lfix) : lfix :=
  mkFix (f_id f) (f_date f + d) (f_lat f) (f_lon f) (f_alt f) (f_speed f) (f_diff f) (f_posfix f)
        (f_interp f) (f_sats f) (f_dir f) (f_hdop f) (f_acc f) (f_dist f) (f_offset f) (f_accel f) (f_obd f).
Definition shift_lap (d : Z) (l : llap) : llap :=
  mkLLap (l_id l) (option_map (fun t => t + d) (l_date l)) (l_time l) (l_vehicle l) (l_track l) (l_tags l)
         (l_note l) (l_rectype l) (l_overall l) (map (shift_fix d) (l_fixes l)).

Ltac projs := cbn [f_id f_date f_lat f_lon f_alt f_speed f_diff f_posfix f_interp f_sats f_dir f_hdop f_acc f_dist
                   f_offset f_accel f_obd o_diff o_posfix o_track o_tags o_note o_start o_vehicle o_predict with_start
                   l_id l_date l_time l_vehicle l_track l_tags l_note l_rectype l_overall l_fixes
                   option_map map length bind omap].

Lemma fix_of_shift o s a id dist r fn :
  fix_of (with_start o s) a id dist r fn = shift_fix a (fix_of (with_start o None) 0 id dist r fn).
Proof. unfold fix_of, shift_fix. projs. f_equal. lia. Qed.

Lemma lap_rows_shift o s a fn : forall rows geod id dist,
  lap_rows (with_start o s) a fn rows geod id dist =
  omap (fun '(fs, dl, g) => (map (shift_fix a) fs, dl, g)) (lap_rows (with_start o None) 0 fn rows geod id dist).
Proof.
  induction rows as [|r t IH]; intros geod id dist; cbn [lap_rows]; [reflexivity|].
  destruct (g_update (r_gps r)); [|apply IH].
  destruct geod as [|d geod']; [reflexivity|]. rewrite IH.
  destruct (lap_rows (with_start o None) 0 fn t geod' (id + 1) (fadd dist d)) as [[[fs dl] g]| | |];
    [projs; rewrite fix_of_shift; reflexivity|reflexivity..].
Qed.

(* once the adjustment is known it is applied, unchanged, to every later lap *)
Lemma laps_of_adjusted o v D a : forall ls id geod,
  laps_of (with_start o (Some D)) v (Some a) id ls geod =
  omap (map (shift_lap a)) (laps_of (with_start o None) v None id ls geod).
Proof.
  induction ls as [|l t IH]; intros id geod; cbn [laps_of]; [reflexivity|].
  unfold lap_of. destruct (lap_recs l) as [|r0 rest].
  - cbn [bind]. cbn [l_fixes length]. rewrite IH.
    destruct (laps_of (with_start o None) v None (id + Z.of_nat 0) t (tl geod)); projs; reflexivity.
  - cbn [o_start with_start]. rewrite lap_rows_shift.
    destruct (lap_rows (with_start o None) 0 (r_now r0) rest _ (id + 1) fzero) as [[[fs dl] g]| | |]; cbn [omap bind];
      [|reflexivity..].
    cbn [l_fixes length map]. rewrite map_length, IH.
    destruct (laps_of (with_start o None) v None _ t (tl geod)); cbn [bind omap]; [|reflexivity..].
    f_equal. cbn [map]. f_equal. unfold shift_lap. projs. rewrite fix_of_shift.
    f_equal. f_equal. lia.
Qed.

(* the first converted row: first row of the first lap that has rows *)
Fixpoint first_row (ls : list lap) : option record :=
  match ls with
  | [] => None
  | l :: t => match lap_recs l with r :: _ => Some r | [] => first_row t end
  end.

Definition delta (D : Z) (ls : list lap) : Z :=
  match first_row ls with Some r => D - utc_midnight (r_time r) | None => 0 end.

Lemma laps_of_start o v D : forall ls id geod,
  laps_of (with_start o (Some D)) v None id ls geod =
  omap (map (shift_lap (delta D ls))) (laps_of (with_start o None) v None id ls geod).
Proof.
  induction ls as [|l t IH]; intros id geod; cbn [laps_of]; [reflexivity|].
  unfold delta. cbn [first_row]. unfold lap_of. destruct (lap_recs l) as [|r0 rest] eqn:El.
  - cbn [bind l_fixes length]. rewrite IH. fold (delta D t).
    destruct (laps_of (with_start o None) v None (id + Z.of_nat 0) t (tl geod)); projs; reflexivity.
  - cbn [o_start with_start]. set (a := D - utc_midnight (r_time r0)).
    rewrite lap_rows_shift.
    destruct (lap_rows (with_start o None) 0 (r_now r0) rest _ (id + 1) fzero) as [[[fs dl] g]| | |]; cbn [omap bind];
      [|reflexivity..].
    cbn [l_fixes length map]. rewrite map_length, (laps_of_adjusted o v D a).
    destruct (laps_of (with_start o None) v None _ t (tl geod)); cbn [bind omap]; [|reflexivity..].
    f_equal. cbn [map]. f_equal. unfold shift_lap. projs. rewrite fix_of_shift.
    f_equal. f_equal. lia.
Qed.

(* without the option nothing is shifted: dates are the logged ones *)
Lemma shift_zero_fix f : shift_fix 0 f = f.
Proof. destruct f; unfold shift_fix; projs. f_equal. lia. Qed.

(* the first converted row lands on day D with its time of day unchanged *)
Lemma first_row_on_D D t :
  D mod ns_per_day = 0 ->
  utc_midnight (t + (D - utc_midnight t)) = D /\ tod_of_ns (t + (D - utc_midnight t)) = tod_of_ns t.
Proof.
  intros HD. unfold utc_midnight, day_of_ns, tod_of_ns, ns_per_day, ns_per_s in *.
  set (n := 86400 * 1000000000) in *. assert (0 < n) by (unfold n; lia).
  replace (t + (D - t / n * n)) with (t mod n + (D / n) * n).
  2:{ rewrite (Z.div_mod D n) at 2 by lia. rewrite HD. rewrite (Z.mod_eq t n) by lia. ring. }
  rewrite Z.div_add, Z.mod_add by lia. rewrite Z.mod_mod by lia.
  rewrite (Z.div_small (t mod n)) by (apply Z.mod_pos_bound; lia).
  split; [|reflexivity]. rewrite (Z.div_mod D n) at 2 by lia. rewrite HD. ring.
Qed.
