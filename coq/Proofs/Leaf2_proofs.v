(* Re-encoding a decoded duration / date leaf writes the same text. *)
From Coq Require Import String Ascii List ZArith NArith Bool Lia.
From TT Require Import Base.Outcome Base.Str Base.F64 Base.GoParse Base.Civil Laptimer.Leaves Laptimer.Value Laptimer.Codec Proofs.Leaf_proofs.
Import ListNotations.
Local Open Scope Z_scope.
Ltac Zify.zify_post_hook ::= Z.div_mod_to_equations.

(* the printed duration is a function of the hundredths *)
Definition dur_string_h (h : Z) : string :=
  (pad2 (h / 6000) ++ ":" ++ pad2 (h mod 6000 / 100) ++ "." ++ pad2 (h mod 100))%string.

Lemma dur_string_hundredths d : 0 <= d -> dur_string d = dur_string_h (d / 10000000).
Proof.
  intros Hd. unfold dur_string, dur_string_h.
  rewrite (Z.quot_div_nonneg d) by lia. set (m := d / 60000000000).
  assert (H1 : 0 <= d - m * 60000000000 < 60000000000) by (unfold m; lia).
  rewrite (Z.quot_div_nonneg (d - m * 60000000000)) by lia. set (s := (d - m * 60000000000) / 1000000000).
  assert (H2 : 0 <= d - m * 60000000000 - s * 1000000000 < 1000000000) by (unfold s; lia).
  rewrite (Z.quot_div_nonneg (d - m * 60000000000 - s * 1000000000)) by lia.
  rewrite Z.quot_div_nonneg by (try lia; apply Z.div_pos; lia).
  set (h := d / 10000000).
  assert (Em : m = h / 6000) by (unfold m, h; change 60000000000 with (10000000 * 6000); rewrite <- Z.div_div by lia; reflexivity).
  assert (Es : s = h mod 6000 / 100) by (unfold s, m, h; lia).
  assert (Ec : (d - m * 60000000000 - s * 1000000000) / 1000000 / 10 = h mod 100) by (rewrite Z.div_div by lia; unfold s, m, h; lia).
  rewrite Ec. clearbody s. rewrite Es. clearbody m. rewrite Em. reflexivity.
Qed.

Lemma dur_string_floor d : 0 <= d -> dur_string (d / 10000000 * 10000000) = dur_string d.
Proof.
  intros Hd. rewrite !dur_string_hundredths by lia. rewrite Z.div_mul by lia. reflexivity.
Qed.

Theorem duration_leaf_reencode d : 0 <= d < 2 ^ 62 ->
  exists l', quant_leaf (LvDur d) = Ok l' /\ leaf_text l' = leaf_text (LvDur d).
Proof.
  intros H. exists (LvDur (d / 10000000 * 10000000)). cbn [quant_leaf leaf_text].
  rewrite duration_roundtrip by exact H. split; [reflexivity|]. rewrite dur_string_floor by lia. reflexivity.
Qed.

(* dates: the printed text depends on the instant floored to the printed un only *)
Lemma date_string_floor (frac : bool) (t : Z) :
  let un := if frac then 10000000 else 1000000000 in
  date_string frac (t / un * un) = date_string frac t.
Proof.
  cbv zeta. set (un := if frac then 10000000 else 1000000000).
  assert (Hu : un = 10000000 \/ un = 1000000000) by (unfold un; destruct frac; auto).
  set (t' := t / un * un).
  assert (Hday : day_of_ns t' = day_of_ns t).
  { unfold day_of_ns, ns_per_day, ns_per_s, t'. destruct Hu as [-> | ->]; lia. }
  assert (Htod : tod_of_ns t' = tod_of_ns t / un * un).
  { unfold tod_of_ns, ns_per_day, ns_per_s, t'. destruct Hu as [-> | ->]; lia. }
  unfold date_string. rewrite Hday, Htod. set (tod := tod_of_ns t).
  assert (Ht : 0 <= tod < 86400000000000) by (unfold tod, tod_of_ns, ns_per_day, ns_per_s; lia).
  assert (E1 : tod / un * un / 3600000000000 = tod / 3600000000000) by (destruct Hu as [-> | ->]; lia).
  assert (E2 : (tod / un * un / 60000000000) mod 60 = (tod / 60000000000) mod 60) by (destruct Hu as [-> | ->]; lia).
  assert (E3 : (tod / un * un / 1000000000) mod 60 = (tod / 1000000000) mod 60) by (destruct Hu as [-> | ->]; lia).
  rewrite E1, E2, E3.
  destruct frac; [|reflexivity].
  assert (E4 : (tod / un * un) mod 1000000000 / 10000000 = tod mod 1000000000 / 10000000) by (unfold un; lia).
  rewrite E4. reflexivity.
Qed.

Theorem date_leaf_reencode t :
  first_day * ns_per_day <= t < (first_day + Z.of_nat n_days) * ns_per_day ->
  (exists l', quant_leaf (LvLapDate t) = Ok l' /\ leaf_text l' = leaf_text (LvLapDate t)) /\
  (exists l', quant_leaf (LvFixDate t) = Ok l' /\ leaf_text l' = leaf_text (LvFixDate t)).
Proof.
  intros H. split.
  - exists (LvLapDate (t / 1000000000 * 1000000000)). cbn [quant_leaf leaf_text]. rewrite (date_roundtrip false t H). split; [reflexivity|].
    rewrite (date_string_floor false t). reflexivity.
  - exists (LvFixDate (t / 10000000 * 10000000)). cbn [quant_leaf leaf_text]. rewrite (date_roundtrip true t H). split; [reflexivity|].
    rewrite (date_string_floor true t). reflexivity.
Qed.
