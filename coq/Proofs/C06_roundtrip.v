(* C06: the reader inverts the encoder on every well-formed forest. *)
From Coq Require Import String Ascii List ZArith NArith Bool Lia.
From TT Require Import Base.Outcome Base.F64 Gpmf.Klv Gpmf.Walk Proofs.C07_proofs Proofs.C09_proofs.
Import ListNotations.
Local Open Scope Z_scope.

Inductive tree :=
| Leaf (key : bytes) (typ size count : Z) (payload : bytes)
| Node (key : bytes) (size count : Z) (kids : list tree).

Definition zeros (n : nat) : bytes := repeat 0%N n.
Definition hdr (typ size count : Z) : bytes := [Z.to_N typ; Z.to_N size; Z.to_N (count / 256); Z.to_N (count mod 256)].

Fixpoint encode (t : tree) : bytes :=
  match t with
  | Leaf k t s c p => k ++ hdr t s c ++ p ++ zeros (Z.to_nat (ceil4 (s * c) - s * c))
  | Node k s c kids => k ++ hdr 0 s c ++ flat_map encode kids
  end.
Definition encode_forest (ts : list tree) : bytes := flat_map encode ts.

Fixpoint abstract (t : tree) : elem :=
  match t with
  | Leaf k t s c p => Elem k t s c (match format_basic k t s c p with Ok d => d | _ => DNil end) [] []
  | Node k s c kids => Elem k 0 s c DNil [] (map abstract kids)
  end.

Definition key_ok (k : bytes) : Prop := length k = 4%nat /\ valid_key k = true /\ plain_key k = true.

Fixpoint wf (t : tree) : Prop :=
  match t with
  | Leaf k t s c p =>
      key_ok k /\ 0 < t < 256 /\ t <> ty "#" /\ 0 <= s < 256 /\ 0 <= c < 65536 /\
      Z.of_nat (length p) = s * c /\ is_ok (format_basic k t s c p) = true
  | Node k s c kids =>
      key_ok k /\ 0 <= s < 256 /\ 0 <= c < 65536 /\
      Z.of_nat (length (flat_map encode kids)) = s * c /\
      (fix all (l : list tree) : Prop := match l with [] => True | x :: r => wf x /\ all r end) kids
  end.
Fixpoint wf_forest (ts : list tree) : Prop := match ts with [] => True | x :: r => wf x /\ wf_forest r end.

Lemma wf_node_kids k s c kids : wf (Node k s c kids) -> wf_forest kids.
Proof. cbn [wf]. intros [_ [_ [_ [_ H]]]]. induction kids as [|x r IH]; [exact I|]. destruct H as [H1 H2]. split; [exact H1|apply IH; exact H2]. Qed.

(* ---- lengths ---- *)
Lemma ceil4_ge n : 0 <= n -> n <= ceil4 n < n + 4 /\ ceil4 n mod 4 = 0.
Proof.
  intros Hn. unfold ceil4. split.
  - pose proof (Z.div_mod (n + 3) 4 ltac:(lia)). pose proof (Z.mod_pos_bound (n + 3) 4 ltac:(lia)). lia.
  - rewrite Z.mod_mul; lia.
Qed.

Lemma encode_len_mod4 : forall t, wf t -> Z.of_nat (length (encode t)) mod 4 = 0 /\ (8 <= length (encode t))%nat.
Proof.
  fix IH 1. intros [k t s c p|k s c kids] H; cbn [encode wf] in *.
  - destruct H as [[Hk _] [_ [_ [Hs [Hc [Hp _]]]]]].
    rewrite !app_length, Hk. unfold hdr, zeros. cbn [length]. rewrite repeat_length.
    assert (0 <= s * c) by nia. destruct (ceil4_ge (s * c) H) as [[G1 G2] G3].
    split; [|lia].
    replace (Z.of_nat (4 + (4 + (length p + Z.to_nat (ceil4 (s * c) - s * c))))) with (8 + ceil4 (s * c)) by lia.
    rewrite Z.add_mod, G3 by lia. reflexivity.
  - destruct H as [[Hk _] [Hs [Hc [Hl Hk2]]]].
    rewrite !app_length, Hk. unfold hdr. cbn [length]. split; [|lia].
    assert (G : Z.of_nat (length (flat_map encode kids)) mod 4 = 0).
    { clear Hl. induction kids as [|x r IHr]; [reflexivity|]. destruct Hk2 as [Hx Hr]. cbn [flat_map]. rewrite app_length, Nat2Z.inj_add.
      rewrite Z.add_mod, (proj1 (IH x Hx)), IHr by (try exact Hr; lia). reflexivity. }
    replace (Z.of_nat (4 + (4 + length (flat_map encode kids)))) with (8 + Z.of_nat (length (flat_map encode kids))) by lia.
    rewrite Z.add_mod, G by lia. reflexivity.
Qed.

Lemma forest_len_mod4 ts : wf_forest ts -> Z.of_nat (length (encode_forest ts)) mod 4 = 0.
Proof.
  induction ts as [|x r IH]; intros H; [reflexivity|]. destruct H as [Hx Hr]. unfold encode_forest in *. cbn [flat_map].
  rewrite app_length, Nat2Z.inj_add, Z.add_mod, (proj1 (encode_len_mod4 x Hx)), IH by (try exact Hr; lia). reflexivity.
Qed.

Lemma ceil4_mult4 n : 0 <= n -> n mod 4 = 0 -> ceil4 n = n.
Proof.
  intros Hn Hm. unfold ceil4. pose proof (Z.div_mod n 4 ltac:(lia)). rewrite Hm in H.
  replace (n + 3) with (3 + (n / 4) * 4) by lia. rewrite Z.div_add by lia. replace (3 / 4) with 0 by reflexivity. lia.
Qed.

(* ---- list helpers ---- *)
Lemma firstn_app_exact {A} (a b : list A) n : n = length a -> firstn n (a ++ b) = a.
Proof. intros ->. induction a; simpl; congruence. Qed.
Lemma skipn_app_exact {A} (a b : list A) n : n = length a -> skipn n (a ++ b) = b.
Proof. intros ->. induction a; simpl; congruence. Qed.

Lemma count_bytes c : 0 <= c < 65536 -> Z.of_N (Z.to_N (c / 256)) * 256 + Z.of_N (Z.to_N (c mod 256)) = c.
Proof.
  intros H. rewrite !Z2N.id by (try apply Z.div_pos; try apply Z.mod_pos_bound; lia).
  pose proof (Z.div_mod c 256 ltac:(lia)). lia.
Qed.

(* ---- the round trip at one level ---- *)
Fixpoint tsize (t : tree) : nat :=
  match t with
  | Leaf _ _ _ _ _ => 1
  | Node _ _ _ kids => S (fold_right (fun x acc => tsize x + acc)%nat 0%nat kids)
  end.
Definition fsize (ts : list tree) : nat := fold_right (fun x acc => tsize x + acc)%nat 0%nat ts.
Lemma tsize_pos t : (1 <= tsize t)%nat. Proof. destruct t; cbn; lia. Qed.



(* more fuel never changes an answer *)
Lemma read_level_fuel_mono : forall fuel bs parent anc r,
  read_level fuel bs parent anc = Ok r -> forall fuel', (fuel <= fuel')%nat -> read_level fuel' bs parent anc = Ok r.
Proof.
  induction fuel as [|f IH]; intros bs parent anc r H fuel' Hle; [discriminate H|].
  destruct fuel' as [|f']; [lia|]. assert (Hle' : (f <= f')%nat) by lia.
  cbn [read_level] in *. destruct bs as [|b0 bs0]; [exact H|]. set (bs := b0 :: bs0) in *.
  destruct (Nat.ltb (length bs) 8); [exact H|].
  destruct (negb _); [exact H|]. destruct (_ =? ty "#"); [exact H|].
  destruct (Z.of_N (nth 4 bs 0%N) =? 0).
  - match type of H with bind (bind ?x _) _ = _ => destruct x as [[kids lv]| | |] eqn:E1 end; cbn [bind] in H; try discriminate.
    rewrite (IH _ _ _ _ E1 f' Hle'). cbn [bind].
    destruct (Nat.ltb _ _); [exact H|]. cbn [bind] in *.
    destruct (Nat.ltb _ _); [exact H|].
    destruct (format_elem _ _ _ _ _ _ _ _) as [[[d m] p']| | |]; cbn [bind] in *; try discriminate; try exact H.
    match type of H with bind ?x _ = _ => destruct x as [[sibs lvl]| | |] eqn:E2 end; cbn [bind] in H; try discriminate.
    rewrite (IH _ _ _ _ E2 f' Hle'). exact H.
  - destruct (Nat.ltb _ _); [exact H|]. cbn [bind] in *.
    destruct (Nat.ltb _ _); [exact H|].
    destruct (format_elem _ _ _ _ _ _ _ _) as [[[d m] p']| | |]; cbn [bind] in *; try discriminate; try exact H.
    match type of H with bind ?x _ = _ => destruct x as [[sibs lvl]| | |] eqn:E2 end; cbn [bind] in H; try discriminate.
    rewrite (IH _ _ _ _ E2 f' Hle'). exact H.
Qed.

Definition cons_result (es : list elem) (r : outcome (list elem * level)) : outcome (list elem * level) :=
  bind r (fun '(sibs, l) => Ok (es ++ sibs, l)).

(* Reading a well-formed forest followed by ANY bytes: the forest's elements come out as
   siblings, in order, and the reader carries on with the remaining bytes at the same level. *)
Lemma read_level_encode_app : forall n ts, (fsize ts <= n)%nat -> wf_forest ts ->
  forall fuel m anc suffix, (length (encode_forest ts ++ suffix) < fuel)%nat ->
  read_level fuel (encode_forest ts ++ suffix) (mkLevel None m) anc =
  cons_result (map abstract ts) (read_level (fuel - length ts) suffix (mkLevel None m) anc).
Proof.
  induction n as [|n IHn]; intros ts Hsz; destruct ts as [|t ts]; intros Hwf fuel m anc suffix Hfuel.
  - cbn [encode_forest flat_map app map length]. rewrite Nat.sub_0_r. unfold cons_result.
    destruct (read_level fuel suffix _ anc) as [[sibs l]| | |]; reflexivity.
  - exfalso. cbn [fsize fold_right] in Hsz. pose proof (tsize_pos t). lia.
  - cbn [encode_forest flat_map app map length]. rewrite Nat.sub_0_r. unfold cons_result.
    destruct (read_level fuel suffix _ anc) as [[sibs l]| | |]; reflexivity.
  - assert (IHf : forall ts', (fsize ts' <= n)%nat -> wf_forest ts' -> forall fuel m anc suffix, (length (encode_forest ts' ++ suffix) < fuel)%nat ->
             read_level fuel (encode_forest ts' ++ suffix) (mkLevel None m) anc =
             cons_result (map abstract ts') (read_level (fuel - length ts') suffix (mkLevel None m) anc)) by exact IHn.
    assert (Hsz_ts : (fsize ts <= n)%nat) by (cbn [fsize fold_right] in Hsz; fold (fsize ts) in Hsz; pose proof (tsize_pos t); lia).
    destruct Hwf as [Ht Hts]. destruct fuel as [|fuel]; [lia|].
    unfold encode_forest in *. cbn [flat_map map length] in *. rewrite <- app_assoc in *.
    set (tail := flat_map encode ts ++ suffix) in *.
    assert (Htail : read_level fuel tail (mkLevel None m) anc =
                    cons_result (map abstract ts) (read_level (fuel - length ts) suffix (mkLevel None m) anc)).
    { apply (IHf ts Hsz_ts Hts). fold tail. pose proof (encode_len_mod4 t Ht) as [_ Hge8']. rewrite app_length in Hfuel. lia. }
    replace (S fuel - S (length ts))%nat with (fuel - length ts)%nat by lia.
    assert (Hfin : forall e, bind (read_level fuel tail (mkLevel None m) anc) (fun '(sibs, lvl) => Ok (e :: sibs, lvl)) =
                   cons_result (e :: map abstract ts) (read_level (fuel - length ts) suffix (mkLevel None m) anc)).
    { intros e. rewrite Htail. unfold cons_result. destruct (read_level (fuel - length ts) suffix _ anc) as [[sibs l]| | |]; reflexivity. }
    clearbody tail. clear Htail.
    pose proof (encode_len_mod4 t Ht) as [Hm4 Hge8].
    rewrite app_length in Hfuel.
    destruct t as [k typ s c p|k s c kids]; cbn [encode abstract wf] in *.
    + (* leaf *)
      destruct Ht as [[Hk [Hvk Hpk]] [Htyp [Hnc [Hs [Hc [Hp Hfb]]]]]].
      destruct k as [|k0 [|k1 [|k2 [|k3 [|]]]]]; try discriminate Hk.
      assert (Hsc : 0 <= s * c) by nia. destruct (ceil4_ge (s * c) Hsc) as [[G1 G2] G3].
      set (pad := Z.to_nat (ceil4 (s * c) - s * c)) in *.
      cbn [read_level app hdr].
      assert (Hlen8 : Nat.ltb (length (k0 :: k1 :: k2 :: k3 :: Z.to_N typ :: Z.to_N s :: Z.to_N (c / 256) :: Z.to_N (c mod 256) :: (p ++ zeros pad) ++ tail)) 8 = false)
        by (apply Nat.ltb_ge; cbn [length]; lia).
      rewrite Hlen8. cbn [firstn nth skipn].
      rewrite Hvk. cbn [negb].
      rewrite !Z2N.id by lia. rewrite count_bytes by exact Hc.
      destruct (Z.eqb_spec typ (ty "#")) as [E|_]; [contradiction|].
      destruct (Z.eqb_spec typ 0) as [E|_]; [lia|].
      rewrite <- app_assoc.
      assert (Hlp : Z.to_nat (s * c) = length p) by lia.
      assert (Hlt : Nat.ltb (length (p ++ zeros pad ++ tail)) (Z.to_nat (s * c)) = false)
        by (apply Nat.ltb_ge; rewrite app_length; lia).
      rewrite Hlt. cbn [bind].
      rewrite (firstn_app_exact p _ _ Hlp), (skipn_app_exact p _ _ Hlp).
      assert (Hpl : Z.to_nat (ceil4 (s * c) - s * c) = length (zeros pad)) by (unfold zeros; rewrite repeat_length; reflexivity).
      assert (Hlt2 : Nat.ltb (length (zeros pad ++ tail)) (Z.to_nat (ceil4 (s * c) - s * c)) = false)
        by (apply Nat.ltb_ge; rewrite app_length; lia).
      rewrite Hlt2. rewrite (skipn_app_exact (zeros pad) _ _ Hpl).
      rewrite format_elem_plain by (try reflexivity; exact Hpk).
      destruct (format_basic [k0; k1; k2; k3] typ s c p) as [d| | |] eqn:Efb; try discriminate Hfb. cbn [bind].
      apply Hfin.
    + (* container *)
      destruct Ht as [[Hk [Hvk Hpk]] [Hs [Hc [Hl Hkids]]]].
      assert (Hwk : wf_forest kids).
      { clear -Hkids. induction kids as [|x r IH]; [exact I|]. destruct Hkids as [H1 H2]. split; [exact H1|apply IH; exact H2]. }
      destruct k as [|k0 [|k1 [|k2 [|k3 [|]]]]]; try discriminate Hk.
      assert (Hf2 : (length (flat_map encode kids) + length tail + 8 <= fuel)%nat)
        by (unfold hdr in Hfuel; cbn [app length] in Hfuel; lia).
      cbn [read_level app hdr].
      replace ((k0 :: k1 :: k2 :: k3 :: Z.to_N 0 :: Z.to_N s :: Z.to_N (c / 256) :: Z.to_N (c mod 256) :: flat_map encode kids) ++ tail)
        with (k0 :: k1 :: k2 :: k3 :: Z.to_N 0 :: Z.to_N s :: Z.to_N (c / 256) :: Z.to_N (c mod 256) :: flat_map encode kids ++ tail) by reflexivity.
      assert (Hlen8 : Nat.ltb (length (k0 :: k1 :: k2 :: k3 :: Z.to_N 0 :: Z.to_N s :: Z.to_N (c / 256) :: Z.to_N (c mod 256) :: flat_map encode kids ++ tail)) 8 = false)
        by (apply Nat.ltb_ge; cbn [length]; lia).
      rewrite Hlen8. cbn [firstn nth skipn]. rewrite Hvk. cbn [negb].
      rewrite !Z2N.id by lia. rewrite count_bytes by exact Hc.
      change (Z.of_N (Z.to_N 0)) with 0.
      destruct (Z.eqb_spec 0 (ty "#")) as [E|_]; [discriminate E|].
      cbn [Z.eqb].
      assert (Hm : (s * c) mod 4 = 0) by (rewrite <- Hl; apply (forest_len_mod4 kids Hwk)).
      assert (Hsc : 0 <= s * c) by nia.
      rewrite (ceil4_mult4 _ Hsc Hm).
      assert (Hlk : Z.to_nat (s * c) = length (flat_map encode kids)) by lia.
      rewrite (firstn_app_exact _ _ _ Hlk), (skipn_app_exact _ _ _ Hlk). cbn [l_meta l_scale].
      assert (Hsz_k : (fsize kids <= n)%nat) by (cbn [fsize fold_right tsize] in Hsz; fold (fsize kids) in Hsz; fold (fsize ts) in Hsz; lia).
      pose proof (IHf kids Hsz_k Hwk fuel [] (m :: anc) []) as Hkid.
      unfold encode_forest in Hkid. rewrite app_nil_r in Hkid. rewrite Hkid by lia. clear Hkid.
      assert (Hkl : (8 * length kids <= length (flat_map encode kids))%nat).
      { clear -Hwk. induction kids as [|x r IH]; [cbn; lia|]. destruct Hwk as [H1 H2]. cbn [flat_map length]. rewrite app_length.
        pose proof (encode_len_mod4 x H1) as [_ G]. specialize (IH H2). lia. }
      destruct (fuel - length kids)%nat as [|f'] eqn:Ef; [lia|]. cbn [read_level cons_result bind]. rewrite app_nil_r.
      rewrite Hlk, Nat.ltb_irrefl.
      replace (s * c - s * c) with 0 by lia. cbn [Z.to_nat Nat.ltb Nat.leb skipn].
      cbn [bind l_meta].
      rewrite format_elem_plain by (try reflexivity; exact Hpk).
      assert (Hfb0 : format_basic [k0; k1; k2; k3] 0 s c [] = Ok DNil).
      { unfold format_basic. repeat match goal with |- context [0 =? ty ?x] => change (0 =? ty x) with false end. reflexivity. }
      rewrite Hfb0. cbn [bind l_meta].
      apply Hfin.
Qed.

Lemma read_level_encode_n : forall n ts, (fsize ts <= n)%nat -> wf_forest ts ->
  forall fuel m anc, (length (encode_forest ts) < fuel)%nat ->
  read_level fuel (encode_forest ts) (mkLevel None m) anc = Ok (map abstract ts, mkLevel None m).
Proof.
  intros n ts Hsz Hwf fuel m anc Hfuel.
  pose proof (read_level_encode_app n ts Hsz Hwf fuel m anc [] ltac:(rewrite app_nil_r; exact Hfuel)) as H.
  rewrite app_nil_r in H. rewrite H.
  assert (Hkl : (8 * length ts <= length (encode_forest ts))%nat).
  { clear -Hwf. unfold encode_forest. induction ts as [|x r IH]; [cbn; lia|]. destruct Hwf as [H1 H2]. cbn [flat_map length]. rewrite app_length.
    pose proof (encode_len_mod4 x H1) as [_ G]. specialize (IH H2). lia. }
  destruct (fuel - length ts)%nat as [|f'] eqn:Ef; [lia|]. cbn [read_level cons_result bind]. rewrite app_nil_r. reflexivity.
Qed.

(* ---- the statements in terms of the public entry point ---- *)
Theorem read_encode ts : wf_forest ts -> read (encode_forest ts) = Ok (map abstract ts).
Proof.
  intros H. unfold read. rewrite (read_level_encode_n (fsize ts) ts (le_n _) H) by lia. reflexivity.
Qed.

(* bytes after a container's declared length are siblings, never children: whatever follows the
   encoding of t - parsed on its own as `more` - appears after t at the same level, and t's own
   children are exactly its encoded children *)
Theorem siblings_not_children t rest more :
  wf t -> read rest = Ok more ->
  read (encode t ++ rest) = Ok (abstract t :: more).
Proof.
  intros Ht Hrest. unfold read in *.
  pose proof (read_level_encode_app (fsize [t]) [t] (le_n _) (conj Ht I) (S (length (encode t ++ rest))) [] [] rest) as H.
  unfold encode_forest in H. cbn [flat_map map length] in H. rewrite app_nil_r in H. rewrite H by lia. clear H.
  replace (S (length (encode t ++ rest)) - 1)%nat with (length (encode t ++ rest)) by lia.
  pose proof (encode_len_mod4 t Ht) as [_ G].
  (* fuel: S (length rest) suffices, and more fuel gives the same answer *)
  destruct (read_level (S (length rest)) rest (mkLevel None []) []) as [[sibs l]| | |] eqn:E; cbn [omap fst] in Hrest; try discriminate.
  inversion Hrest; subst sibs.
  rewrite (read_level_fuel_mono _ _ _ _ _ E (length (encode t ++ rest))) by (rewrite app_length; lia).
  reflexivity.
Qed.

(* ---- truncation ---- *)
Definition is_err {A} (o : outcome A) : Prop := match o with Err _ => True | _ => False end.

Lemma bind_err_l {A B} (x : outcome A) (f : A -> outcome B) : is_err x -> is_err (bind x f).
Proof. destruct x; cbn; intros H; try contradiction; exact I. Qed.

Lemma trunc_one t : wf t -> forall k fuel m anc, (0 < k < length (encode t))%nat -> (k < fuel)%nat ->
  is_err (read_level fuel (firstn k (encode t)) (mkLevel None m) anc).
Proof.
  intros Ht k fuel m anc Hk Hfuel. destruct fuel as [|f]; [lia|].
  destruct t as [key typ s c p|key s c kids]; cbn [encode wf] in *.
  - destruct Ht as [[Hkey [Hvk Hpk]] [Htyp [Hnc [Hs [Hc [Hp Hfb]]]]]].
    destruct key as [|k0 [|k1 [|k2 [|k3 [|]]]]]; try discriminate Hkey.
    assert (Hsc : 0 <= s * c) by nia. destruct (ceil4_ge (s * c) Hsc) as [[G1 G2] G3].
    set (pad := Z.to_nat (ceil4 (s * c) - s * c)) in *.
    unfold hdr in *. cbn [app] in *. cbn [length] in Hk. rewrite app_length in Hk. unfold zeros in Hk. rewrite repeat_length in Hk.
    destruct k as [|[|[|[|[|[|[|[|j]]]]]]]]; try lia; try (cbn [firstn read_level length Nat.ltb Nat.leb]; exact I).
    cbn [firstn]. set (body := firstn j (p ++ zeros pad)).
    assert (Hbody : length body = j) by (unfold body; rewrite firstn_length, app_length; unfold zeros; rewrite repeat_length; lia).
    cbn [read_level length]. 
    assert (Hlen8 : Nat.ltb (S (S (S (S (S (S (S (S (length body))))))))) 8 = false) by (apply Nat.ltb_ge; lia).
    rewrite Hlen8. cbn [firstn nth skipn]. rewrite Hvk. cbn [negb].
    rewrite !Z2N.id by lia. rewrite count_bytes by exact Hc.
    destruct (Z.eqb_spec typ (ty "#")) as [E|_]; [contradiction|].
    destruct (Z.eqb_spec typ 0) as [E|_]; [lia|].
    destruct (Nat.ltb_spec (length body) (Z.to_nat (s * c))) as [Hshort|Hlong]; [exact I|]. cbn [bind].
    assert (Hafter : Nat.ltb (length (skipn (Z.to_nat (s * c)) body)) (Z.to_nat (ceil4 (s * c) - s * c)) = true).
    { apply Nat.ltb_lt. rewrite skipn_length. fold pad. lia. }
    rewrite Hafter. exact I.
  - destruct Ht as [[Hkey [Hvk Hpk]] [Hs [Hc [Hl Hkids]]]].
    assert (Hwk : wf_forest kids).
    { clear -Hkids. induction kids as [|x r IH]; [exact I|]. destruct Hkids as [H1 H2]. split; [exact H1|apply IH; exact H2]. }
    destruct key as [|k0 [|k1 [|k2 [|k3 [|]]]]]; try discriminate Hkey.
    unfold hdr in *. cbn [app] in *. cbn [length] in Hk.
    destruct k as [|[|[|[|[|[|[|[|j]]]]]]]]; try lia; try (cbn [firstn read_level length Nat.ltb Nat.leb]; exact I).
    cbn [firstn]. set (body := firstn j (flat_map encode kids)).
    assert (Hbody : length body = j) by (unfold body; rewrite firstn_length; lia).
    cbn [read_level length].
    assert (Hlen8 : Nat.ltb (S (S (S (S (S (S (S (S (length body))))))))) 8 = false) by (apply Nat.ltb_ge; lia).
    rewrite Hlen8. cbn [firstn nth skipn]. rewrite Hvk. cbn [negb].
    rewrite !Z2N.id by lia. rewrite count_bytes by exact Hc.
    change (Z.of_N (Z.to_N 0)) with 0.
    destruct (Z.eqb_spec 0 (ty "#")) as [E|_]; [discriminate E|].
    cbn [Z.eqb].
    assert (Hm : (s * c) mod 4 = 0) by (rewrite <- Hl; apply (forest_len_mod4 kids Hwk)).
    assert (Hsc : 0 <= s * c) by nia.
    rewrite (ceil4_mult4 _ Hsc Hm).
    assert (Hinner : firstn (Z.to_nat (s * c)) body = body) by (apply firstn_all2; lia).
    rewrite Hinner. cbn [l_meta].
    pose proof (read_level_nc f body (mkLevel None []) (m :: anc) ltac:(lia) ltac:(unfold scale_ok; cbn; discriminate)) as Hnc.
    destruct (read_level f body (mkLevel None []) (m :: anc)) as [[kids' lv]|e| |]; try contradiction; cbn [bind]; [|exact I].
    assert (Hshort : Nat.ltb (length body) (Z.to_nat (s * c)) = true) by (apply Nat.ltb_lt; lia).
    rewrite Hshort. exact I.
Qed.

(* A stream that stops anywhere inside an element - inside its header, its payload, its padding,
   or inside any descendant of a container, i.e. before the bytes declared by an enclosing
   container are all there - is an error, whatever complete elements precede it. *)
Theorem truncated_is_error ts t k :
  wf_forest ts -> wf t -> (0 < k < length (encode t))%nat ->
  is_err (read (encode_forest ts ++ firstn k (encode t))).
Proof.
  intros Hts Ht Hk. unfold read.
  set (bs := encode_forest ts ++ firstn k (encode t)).
  assert (Hlen : length bs = (length (encode_forest ts) + k)%nat) by (unfold bs; rewrite app_length, firstn_length; lia).
  assert (Hkl : (8 * length ts <= length (encode_forest ts))%nat).
  { clear -Hts. unfold encode_forest. induction ts as [|x r IH]; [cbn; lia|]. destruct Hts as [H1 H2]. cbn [flat_map length]. rewrite app_length.
    pose proof (encode_len_mod4 x H1) as [_ G]. specialize (IH H2). lia. }
  unfold bs. rewrite (read_level_encode_app (fsize ts) ts (le_n _) Hts) by (fold bs; lia).
  pose proof (trunc_one t Ht k (S (length bs) - length ts) [] [] Hk ltac:(lia)) as H.
  unfold cons_result. fold bs. destruct (read_level _ (firstn k (encode t)) _ _) as [[? ?]|e| |]; try contradiction. exact I.
Qed.
