(* The start-line detector's helper formulas (haversine.go, processor.go) over the reals:
   what each one is, in terms of the unit vectors of the three positions. *)
From Coq Require Import Reals Lra Nsatz.
From TT Require Import Proofs.Geo_proofs Proofs.Hav.
Local Open Scope R_scope.

(* transcriptions *)
Definition sin_hav (h : R) : R := 2 * sqrt (Rabs h).
Definition hav_sin (x : R) : R := x * x / (1 + sqrt (1 - x * x)) * (1 / 2).
Definition sin_sum (x y : R) : R :=
  let a := sqrt (x * (1 - x)) in let b := sqrt (y * (1 - y)) in 2 * (a + b - 2 * (a * y + b * x)).
Definition sdb_a (lat1 lon1 lat0 lon0 : R) := sin (lon0 - lon1) * cos lat0.
Definition sdb_b (lat1 lon1 lat0 lon0 : R) := sin (lat0 - lat1) + 2 * sin lat1 * cos lat0 * hav (lon0 - lon1).
Definition sin_delta_bearing (lat1 lon1 lat2 lon2 lat0 lon0 : R) : R :=
  let a := sdb_a lat1 lon1 lat0 lon0 in let c := sdb_a lat1 lon1 lat2 lon2 in
  let b := sdb_b lat1 lon1 lat0 lon0 in let d := sdb_b lat1 lon1 lat2 lon2 in
  (a * d - b * c) / sqrt ((a * a + b * b) * (c * c + d * d)).

(* triple product v1 . (v0 x v2) *)
Definition triple (la1 lo1 la0 lo0 la2 lo2 : R) : R :=
  vx la1 lo1 * (vy la0 lo0 * vz la2 lo2 - vz la0 lo0 * vy la2 lo2)
  + vy la1 lo1 * (vz la0 lo0 * vx la2 lo2 - vx la0 lo0 * vz la2 lo2)
  + vz la1 lo1 * (vx la0 lo0 * vy la2 lo2 - vy la0 lo0 * vx la2 lo2).

Lemma sdb_b_alt lat1 lon1 lat0 lon0 :
  sdb_b lat1 lon1 lat0 lon0 = cos lat1 * sin lat0 - sin lat1 * cos lat0 * cos (lon0 - lon1).
Proof. unfold sdb_b. rewrite hav_cos, sin_minus. field. Qed.

(* (a, b) are the east and north components of v0 in the tangent plane at position 1 *)
Lemma sdb_a_east lat1 lon1 lat0 lon0 :
  sdb_a lat1 lon1 lat0 lon0 = - sin lon1 * vx lat0 lon0 + cos lon1 * vy lat0 lon0.
Proof. unfold sdb_a, vx, vy. rewrite sin_minus. ring. Qed.
Lemma sdb_b_north lat1 lon1 lat0 lon0 :
  sdb_b lat1 lon1 lat0 lon0 = - sin lat1 * cos lon1 * vx lat0 lon0 - sin lat1 * sin lon1 * vy lat0 lon0 + cos lat1 * vz lat0 lon0.
Proof. rewrite sdb_b_alt. unfold vx, vy, vz. rewrite cos_minus. ring. Qed.

Lemma norm_ab lat1 lon1 lat0 lon0 :
  sdb_a lat1 lon1 lat0 lon0 * sdb_a lat1 lon1 lat0 lon0 + sdb_b lat1 lon1 lat0 lon0 * sdb_b lat1 lon1 lat0 lon0
  = 1 - dot lat0 lon0 lat1 lon1 * dot lat0 lon0 lat1 lon1.
Proof.
  rewrite sdb_a_east, sdb_b_north. unfold dot, vx, vy, vz.
  pose proof (sin2_cos2 lat1) as H1. pose proof (sin2_cos2 lon1) as H2.
  pose proof (sin2_cos2 lat0) as H3. pose proof (sin2_cos2 lon0) as H4. unfold Rsqr in *.
  nsatz.
Qed.

Lemma cross_ab lat1 lon1 lat2 lon2 lat0 lon0 :
  sdb_a lat1 lon1 lat0 lon0 * sdb_b lat1 lon1 lat2 lon2 - sdb_b lat1 lon1 lat0 lon0 * sdb_a lat1 lon1 lat2 lon2
  = triple lat1 lon1 lat0 lon0 lat2 lon2.
Proof.
  rewrite !sdb_a_east, !sdb_b_north. unfold triple, vx, vy, vz.
  pose proof (sin2_cos2 lat1) as H1. pose proof (sin2_cos2 lon1) as H2. unfold Rsqr in *.
  nsatz.
Qed.

(* |v1 x v2|^2 = 1 - (v1.v2)^2 (Lagrange), so triple / sqrt (1 - dot12^2) is v0 . n for the unit
   normal n of the great circle through positions 1 and 2: the sine of the angular distance of
   position 0 from that great circle *)
Definition cx (la1 lo1 la2 lo2 : R) := vy la1 lo1 * vz la2 lo2 - vz la1 lo1 * vy la2 lo2.
Definition cy (la1 lo1 la2 lo2 : R) := vz la1 lo1 * vx la2 lo2 - vx la1 lo1 * vz la2 lo2.
Definition cz (la1 lo1 la2 lo2 : R) := vx la1 lo1 * vy la2 lo2 - vy la1 lo1 * vx la2 lo2.
Lemma cross_norm la1 lo1 la2 lo2 :
  cx la1 lo1 la2 lo2 * cx la1 lo1 la2 lo2 + cy la1 lo1 la2 lo2 * cy la1 lo1 la2 lo2 + cz la1 lo1 la2 lo2 * cz la1 lo1 la2 lo2
  = 1 - dot la1 lo1 la2 lo2 * dot la1 lo1 la2 lo2.
Proof.
  unfold cx, cy, cz, dot, vx, vy, vz.
  pose proof (sin2_cos2 la1) as H1. pose proof (sin2_cos2 lo1) as H2.
  pose proof (sin2_cos2 la2) as H3. pose proof (sin2_cos2 lo2) as H4. unfold Rsqr in *.
  nsatz.
Qed.
Lemma triple_is_dot_cross la1 lo1 la0 lo0 la2 lo2 :
  triple la1 lo1 la0 lo0 la2 lo2
  = - (vx la0 lo0 * cx la1 lo1 la2 lo2 + vy la0 lo0 * cy la1 lo1 la2 lo2 + vz la0 lo0 * cz la1 lo1 la2 lo2).
Proof. unfold triple, cx, cy, cz. ring. Qed.

(* havSin: hav (asin x) *)
Lemma hav_sin_spec x : -1 <= x <= 1 -> hav_sin x = hav (asin x).
Proof.
  intros Hx. rewrite hav_cos, cos_asin by exact Hx. unfold hav_sin, Rsqr.
  assert (H0 : 0 <= 1 - x * x) by nra.
  pose proof (sqrt_pos (1 - x * x)) as Hs. pose proof (sqrt_sqrt (1 - x * x) H0) as Hq.
  set (s := sqrt (1 - x * x)) in *.
  assert (E : x * x = (1 - s) * (1 + s)) by nra. rewrite E. field. lra.
Qed.

(* sinHav: twice the sine of half the angle (the chord), not the sine of the angle *)
Lemma sin_hav_spec x : sin_hav (hav x) = 2 * Rabs (sin (x / 2)).
Proof.
  unfold sin_hav, hav. replace (sin (x / 2) ^ 2) with (Rsqr (sin (x / 2))) by (unfold Rsqr; ring).
  rewrite Rabs_pos_eq by apply Rle_0_sqr. rewrite sqrt_Rsqr_abs. reflexivity.
Qed.

(* sinSum: sin (invHav x + invHav y) *)
Lemma sin_sum_spec x y : 0 <= x <= 1 -> 0 <= y <= 1 -> sin_sum x y = sin (inv_hav x + inv_hav y).
Proof.
  intros Hx Hy. unfold sin_sum, inv_hav.
  assert (Sx : 0 <= sqrt x <= 1) by (split; [apply sqrt_pos|]; rewrite <- sqrt_1; apply sqrt_le_1_alt; lra).
  assert (Sy : 0 <= sqrt y <= 1) by (split; [apply sqrt_pos|]; rewrite <- sqrt_1; apply sqrt_le_1_alt; lra).
  rewrite sin_plus, !sin_2a, !cos_2a_sin.
  rewrite !sin_asin by lra. rewrite !cos_asin by lra. unfold Rsqr.
  rewrite (sqrt_mult x (1 - x)) by lra. rewrite (sqrt_mult y (1 - y)) by lra.
  replace (2 * sqrt y * sqrt y) with (2 * (sqrt y * sqrt y)) by ring.
  replace (2 * sqrt x * sqrt x) with (2 * (sqrt x * sqrt x)) by ring.
  rewrite (sqrt_sqrt x) by lra. rewrite (sqrt_sqrt y) by lra.
  ring.
Qed.

(* The argument of havSin in onLineRadians.  With d01 = v0.v1 and d21 = v2.v1 (positions 0 and 1
   neither equal nor antipodal, 1 and 2 neither equal nor antipodal):
     sinHav(dist01) * sinDeltaBearing = (v0 . n) * sqrt (2 / (1 + d01))
   where v0 . n = triple / |v1 x v2| is the sine of the angular distance of position 0 from the
   great circle through the line's end points, and sqrt (2 / (1 + d01)) = 1 / cos (theta01 / 2)
   is the price of using the chord for the sine of the distance to end point 1: 1 + theta01^2/8 + ... *)
Theorem cross_track_argument la0 lo0 la1 lo1 la2 lo2 :
  let d01 := dot la0 lo0 la1 lo1 in let d21 := dot la2 lo2 la1 lo1 in
  -1 < d01 < 1 -> -1 < d21 < 1 ->
  sin_hav (distance_hav la0 lo0 la1 lo1) * sin_delta_bearing la1 lo1 la2 lo2 la0 lo0
  = triple la1 lo1 la0 lo0 la2 lo2 / sqrt (1 - d21 * d21) * sqrt (2 / (1 + d01)).
Proof.
  intros d01 d21 H01 H21.
  unfold sin_hav, sin_delta_bearing. cbv zeta.
  rewrite cross_ab, !norm_ab. fold d01 d21.
  rewrite distance_hav_is_chord. fold d01.
  rewrite Rabs_pos_eq by lra.
  assert (P1 : 0 < 1 - d01) by lra. assert (P2 : 0 < 1 + d01) by lra.
  assert (Q1 : 0 < 1 - d21 * d21) by nra.
  replace (1 - d01 * d01) with ((1 - d01) * (1 + d01)) by ring.
  rewrite (sqrt_mult ((1 - d01) * (1 + d01)) (1 - d21 * d21)) by nra.
  rewrite (sqrt_mult (1 - d01) (1 + d01)) by lra.
  replace ((1 - d01) / 2) with ((1 - d01) * / 2) by reflexivity.
  rewrite (sqrt_mult (1 - d01) (/ 2)) by lra.
  replace (2 / (1 + d01)) with (2 * / (1 + d01)) by reflexivity. rewrite (sqrt_mult 2 (/ (1 + d01))); [|lra|left; apply Rinv_0_lt_compat; lra].
  rewrite !sqrt_inv by lra.
  assert (S1 : 0 < sqrt (1 - d01)) by (apply sqrt_lt_R0; lra).
  assert (S2 : 0 < sqrt (1 + d01)) by (apply sqrt_lt_R0; lra).
  assert (S3 : 0 < sqrt (1 - d21 * d21)) by (apply sqrt_lt_R0; lra).
  assert (S4 : 0 < sqrt 2) by (apply sqrt_lt_R0; lra).
  assert (E2 : sqrt 2 * sqrt 2 = 2) by (apply sqrt_sqrt; lra).
  field_simplify_eq; [|repeat split; lra]. replace (sqrt 2 ^ 2) with (sqrt 2 * sqrt 2) by ring. rewrite E2. reflexivity.
Qed.

(* the chord factor in terms of the angle: for cos theta = d01, 0 <= theta < PI *)
Lemma chord_factor theta : 0 <= theta < PI -> sqrt (2 / (1 + cos theta)) = / cos (theta / 2).
Proof.
  intros Ht. assert (Hc : 0 < cos (theta / 2)) by (apply cos_gt_0; lra).
  replace (cos theta) with (cos (2 * (theta / 2))) by (f_equal; field).
  rewrite cos_2a_cos.
  assert (E : 2 / (1 + (2 * cos (theta / 2) * cos (theta / 2) - 1)) = / cos (theta / 2) * / cos (theta / 2)) by (field; repeat split; nra).
  rewrite E. apply sqrt_square. left. apply Rinv_0_lt_compat. exact Hc.
Qed.
