(* C09: the KLV reader model never reaches a Go panic site and never runs out of fuel. *)
From Coq Require Import String Ascii List ZArith NArith Bool Lia.
From TT Require Import Base.Outcome Base.F64 Gpmf.Klv Proofs.NoCrash.
Import ListNotations.
Local Open Scope Z_scope.

Lemma parse_date_nc b : no_crash (parse_date b).
Proof.
  unfold parse_date.
  repeat match goal with
         | |- no_crash (match ?x with _ => _ end) => destruct x
         | |- no_crash (if ?c then _ else _) => destruct c
         end; exact I.
Qed.

Lemma format_basic_nc key typ size count raw : no_crash (format_basic key typ size count raw).
Proof.
  unfold format_basic.
  repeat match goal with
         | |- no_crash (if ?c then _ else _) => destruct c
         end; try exact I.
  unfold format_dates. destruct (_ =? 1).
  - apply omap_nc, parse_date_nc.
  - apply omap_nc, mapM_nc. intros; apply parse_date_nc.
Qed.

Lemma float_slice_nc d : no_crash (float_slice d).
Proof. destruct d; exact I. Qed.

Lemma scale_from_nc vs : forall i sc, sc <> [] -> no_crash (scale_from i vs sc).
Proof.
  induction vs as [|v vs IH]; intros i sc Hsc; simpl; [exact I|].
  destruct sc as [|s0 sc']; [congruence|].
  apply bind_nc; [apply IH; exact Hsc|]. intros; exact I.
Qed.

Lemma float_type_nc w d : no_crash (float_type w d).
Proof.
  unfold float_type. apply bind_nc; [apply float_slice_nc|]. intros vs _.
  destruct (Nat.eqb _ _); exact I.
Qed.

(* ---- faces: every record handed to parse_face is at least `size` long ---- *)
Lemma u_at_ok off len rec : (off + len <= length rec)%nat -> no_crash (u_at off len rec).
Proof. unfold u_at. intros H. apply Nat.leb_le in H. rewrite H. exact I. Qed.

Lemma parse_face_nc ver sz (r : bytes) :
  In (ver, sz) [(6%nat, 20%nat); (7%nat, 92%nat); (8%nat, 28%nat); (10%nat, 14%nat)] ->
  (sz <= length r)%nat -> no_crash (parse_face ver r).
Proof.
  intros Hin Hlen. simpl in Hin.
  destruct Hin as [E|[E|[E|[E|[]]]]]; inversion E; subst; clear E; cbn [parse_face parse_face6].
  - apply mapM_nc. intros x Hx. simpl in Hx. apply u_at_ok.
    repeat (destruct Hx as [<-|Hx]; [lia|]). destruct Hx.
  - apply bind_nc.
    + apply mapM_nc. intros x Hx. simpl in Hx. apply u_at_ok.
      repeat (destruct Hx as [<-|Hx]; [lia|]). destruct Hx.
    + intros a _. apply bind_nc; [apply u_at_ok; lia|]. intros; exact I.
  - apply bind_nc.
    + apply mapM_nc. intros x Hx. simpl in Hx. apply u_at_ok.
      repeat (destruct Hx as [<-|Hx]; [lia|]). destruct Hx.
    + intros a _. apply bind_nc; [apply u_at_ok; lia|]. intros c _.
      apply bind_nc; [apply u_at_ok; lia|]. intros; exact I.
  - apply bind_nc; [|intros; exact I].
    apply mapM_nc. intros [o l] Hx. simpl in Hx. apply u_at_ok.
    repeat (destruct Hx as [Hx|Hx]; [inversion Hx; subst; lia|]). destruct Hx.
Qed.

Lemma tails_by_len size : forall n raw x,
  (size * n <= length raw)%nat -> In x (tails_by size n raw) -> (size <= length x)%nat \/ n = O.
Proof.
  induction n as [|n IH]; intros raw x Hlen Hin; simpl in Hin; [destruct Hin|].
  destruct Hin as [<-|Hin]; [left; lia|].
  destruct (IH (skipn size raw) x) as [H|H]; try assumption.
  - rewrite skipn_length. lia.
  - left. exact H.
  - subst n. destruct Hin.
Qed.

Lemma parse_faces_nc m size count raw d : no_crash (parse_faces m size count raw d).
Proof.
  unfold parse_faces. destruct (count =? 0); [exact I|].
  destruct (meta_get m "type_def") as [td|]; [|exact I].
  destruct td as [| | | |sc ss| | | | | | |]; try exact I.
  destruct sc; try exact I. destruct ss as [|t [|? ?]]; try exact I.
  destruct (find _ face_defs) as [[[def sz] ver]|] eqn:Hf; [|exact I].
  destruct (size =? sz) eqn:Hs; [|exact I]. cbn [negb].
  destruct (Z.ltb_spec (Z.of_nat (length raw)) (size * count)) as [|Hlen]; [exact I|].
  apply Z.eqb_eq in Hs. subst sz.
  apply find_some in Hf. destruct Hf as [Hin _].
  assert (Hver : In (ver, Z.to_nat size) [(6%nat, 20%nat); (7%nat, 92%nat); (8%nat, 28%nat); (10%nat, 14%nat)]).
  { unfold face_defs in Hin. simpl in Hin.
    destruct Hin as [E|[E|[E|[E|[]]]]]; inversion E; subst; simpl; tauto. }
  assert (Hsz : 0 < size).
  { simpl in Hver. destruct Hver as [E|[E|[E|[E|[]]]]]; inversion E; lia. }
  apply omap_nc, mapM_nc. intros x Hx.
  destruct (Z_le_gt_dec count 0) as [Hc|Hc].
  { replace (Z.to_nat count) with O in Hx by lia. destruct Hx. }
  apply tails_by_len in Hx.
  - destruct Hx as [Hx|Hx]; [|lia]. eapply parse_face_nc; eauto.
  - nia.
Qed.

(* ---- format_elem ---- *)
Definition scale_ok (l : level) : Prop := l_scale l <> Some [].

Lemma format_elem_nc key typ size count raw own parent anc :
  scale_ok parent ->
  match format_elem key typ size count raw own parent anc with
  | Ok (_, _, p') => scale_ok p'
  | Err _ => True
  | _ => False
  end.
Proof.
  intros Hok. unfold format_elem.
  pose proof (format_basic_nc key typ size count raw) as Hb.
  destruct (format_basic key typ size count raw) as [d0| | |]; cbn [bind]; try exact I; try (exact Hb).
  assert (H1 : match (match l_scale parent with
        | Some sc => bind (float_slice d0) (fun vs => bind (apply_scale vs sc) (fun r =>
                       Ok (DScaled r, mkLevel None (l_meta parent))))
        | None => Ok (d0, parent)
        end) with Ok (_, p1) => scale_ok p1 | Err _ => True | _ => False end).
  { destruct (l_scale parent) as [sc|] eqn:Hsc.
    - pose proof (float_slice_nc d0) as Hf. destruct (float_slice d0) as [vs| | |]; cbn [bind]; try exact I; try exact Hf.
      assert (Hne : sc <> []) by (intro; subst; apply Hok; exact Hsc).
      pose proof (scale_from_nc vs 0 sc Hne) as Hs. unfold apply_scale.
      destruct (scale_from 0 vs sc); cbn [bind]; try exact I; try exact Hs.
      unfold scale_ok; simpl; congruence.
    - exact Hok. }
  match goal with |- match bind ?x _ with _ => _ end => destruct x as [[d1 p1]| | |] end;
    cbn [bind]; try exact I; try exact H1.
  assert (Hset : forall m', scale_ok (mkLevel (l_scale p1) m')) by (intro; exact H1).
  repeat match goal with
         | |- match (if ?c then _ else _) with _ => _ end => destruct c
         end.
  - apply Hset.
  - pose proof (float_slice_nc d1) as Hf. destruct (float_slice d1) as [vs| | |]; cbn [bind]; try exact I; try exact Hf.
    destruct vs; [exact I|]. unfold scale_ok; simpl; congruence.
  - pose proof (float_type_nc 5 d1) as Hf. destruct (float_type 5 d1); cbn [bind]; try exact I; try exact Hf; exact H1.
  - pose proof (float_type_nc 3 d1) as Hf. destruct (float_type 3 d1); cbn [bind]; try exact I; try exact Hf; exact H1.
  - pose proof (float_type_nc 3 d1) as Hf. destruct (float_type 3 d1); cbn [bind]; try exact I; try exact Hf; exact H1.
  - pose proof (float_type_nc 3 d1) as Hf. destruct (float_type 3 d1); cbn [bind]; try exact I; try exact Hf; exact H1.
  - pose proof (float_type_nc 3 d1) as Hf. destruct (float_type 3 d1); cbn [bind]; try exact I; try exact Hf; exact H1.
  - destruct d1 as [|k sc vs| | | | | | | | | |]; try exact I.
    destruct k; try exact I. destruct sc; try exact I. destruct vs as [|v [|? ?]]; try exact I. apply Hset.
  - destruct d1 as [|k sc vs| | | | | | | | | |]; try exact I.
    destruct k; try exact I. destruct sc; try exact I. destruct vs as [|v [|? ?]]; try exact I. apply Hset.
  - pose proof (parse_faces_nc (init_metadata (l_meta p1 :: anc)) size count raw d1) as Hf.
    destruct (parse_faces _ size count raw d1); cbn [bind]; try exact I; try exact Hf; exact H1.
  - exact H1.
  - exact H1.
Qed.

(* ---- the reader ---- *)
Lemma read_level_nc : forall fuel bs parent anc,
  (length bs < fuel)%nat -> scale_ok parent ->
  match read_level fuel bs parent anc with
  | Ok (_, lv) => scale_ok lv
  | Err _ => True
  | _ => False
  end.
Proof.
  induction fuel as [|fuel IH]; intros bs parent anc Hlen Hok; [lia|].
  cbn [read_level]. destruct bs as [|b0 bs']; [exact Hok|].
  set (bs := b0 :: bs') in *.
  destruct (Nat.ltb (length bs) 8) eqn:H8; [exact I|].
  apply Nat.ltb_ge in H8.
  destruct (negb (valid_key (firstn 4 bs))); [exact I|].
  set (typ := Z.of_N (nth 4 bs 0%N)). set (size := Z.of_N (nth 5 bs 0%N)).
  set (count := Z.of_N (nth 6 bs 0%N) * 256 + Z.of_N (nth 7 bs 0%N)).
  destruct (typ =? ty "#"%char); [exact I|].
  set (rest := skipn 8 bs).
  assert (Hrest : (length rest + 8 = length bs)%nat) by (unfold rest; rewrite skipn_length; lia).
  match goal with |- match bind ?x _ with _ => _ end =>
    assert (Hx : match x with
                 | Ok (_, _, _, after) => (length after <= length rest)%nat
                 | Err _ => True | _ => False end)
  end.
  { destruct (typ =? 0).
    - set (inner := firstn (Z.to_nat (ceil4 (size * count))) rest).
      assert (Hin : (length inner <= length rest)%nat) by (unfold inner; rewrite firstn_length; lia).
      specialize (IH inner (mkLevel None []) (l_meta parent :: anc)).
      assert (Hs0 : scale_ok (mkLevel None [])) by (unfold scale_ok; simpl; congruence).
      specialize (IH ltac:(lia) Hs0).
      destruct (read_level fuel inner (mkLevel None []) (l_meta parent :: anc)) as [[kids lv]| | |];
        cbn [bind]; try exact I; try exact IH.
      destruct (Nat.ltb _ _); [exact I|]. rewrite skipn_length. lia.
    - destruct (Nat.ltb _ _); [exact I|]. rewrite skipn_length. lia. }
  match goal with |- match bind ?x _ with _ => _ end => destruct x as [[[[kids own] raw] after]| | |] end;
    cbn [bind]; try exact I; try exact Hx.
  destruct (Nat.ltb (length after) _); [exact I|].
  pose proof (format_elem_nc (firstn 4 bs) typ size count raw own parent anc Hok) as Hf.
  destruct (format_elem (firstn 4 bs) typ size count raw own parent anc) as [[[d m] parent']| | |];
    cbn [bind]; try exact I; try exact Hf.
  set (after' := skipn _ after).
  assert (Ha : (length after' <= length after)%nat) by (unfold after'; rewrite skipn_length; lia).
  specialize (IH after' parent' anc ltac:(lia) Hf).
  destruct (read_level fuel after' parent' anc) as [[sibs lvl]| | |]; cbn [bind]; try exact I; try exact IH.
Qed.

Theorem read_total : forall bs, returns (read bs).
Proof.
  intros bs. apply no_crash_returns. unfold read.
  pose proof (read_level_nc (S (length bs)) bs (mkLevel None []) [] ltac:(lia)) as H.
  assert (Hs0 : scale_ok (mkLevel None [])) by (unfold scale_ok; simpl; congruence).
  specialize (H Hs0).
  destruct (read_level (S (length bs)) bs (mkLevel None []) []) as [[es lv]| | |]; simpl; try exact I; exact H.
Qed.
