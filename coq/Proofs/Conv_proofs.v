(* Proofs about the converter model: lap selection, fix numbering, distances, dates. *)
From Coq Require Import String Ascii List ZArith Bool Lia.
From TT Require Import Base.Outcome Base.Str Base.F64 Base.Civil
     Trackaddict.Columns Trackaddict.Model Convert.Model.
Import ListNotations.
Local Open Scope Z_scope.

Definition upd (r : record) : bool := g_update (r_gps r).

(* the fixes of the rows after the first one, as a plain zip of the GPS-updated rows with the
   oracle distances *)
Fixpoint fixes_spec (o : opts) (a fn : Z) (rows : list record) (ds : list f64) (id : Z) (dist : f64) : list lfix :=
  match rows, ds with
  | r :: rt, d :: dt => fix_of o a id (fadd dist d) r fn :: fixes_spec o a fn rt dt (id + 1) (fadd dist d)
  | _, _ => []
  end.

Lemma lap_rows_spec o a fn : forall rest geod id dist fs dl g,
  lap_rows o a fn rest geod id dist = Ok (fs, dl, g) ->
  fs = fixes_spec o a fn (filter upd rest) geod id dist /\
  length fs = length (filter upd rest) /\
  (length (filter upd rest) <= length geod)%nat /\
  dl = fold_left fadd (firstn (length fs) geod) dist.
Proof.
  induction rest as [|r t IH]; intros geod id dist fs dl g H; cbn [lap_rows] in H.
  - inversion H; subst. cbn. repeat split; try reflexivity. lia.
  - cbn [filter]. destruct (upd r) eqn:Eu; unfold upd in Eu; rewrite Eu in H.
    + destruct geod as [|d geod']; [discriminate|].
      destruct (lap_rows o a fn t geod' (id + 1) (fadd dist d)) as [[[fs' dl'] g']| | |] eqn:E; cbn [bind] in H; try discriminate.
      inversion H; subst. destruct (IH _ _ _ _ _ _ E) as [H1 [H2 [H3 H4]]].
      cbn [fixes_spec length firstn fold_left]. repeat split.
      * rewrite H1 at 1. reflexivity.
      * rewrite H2. reflexivity.
      * lia.
      * exact H4.
    + eapply IH. exact H.
Qed.

(* ---- consequences for one list of fixes ---- *)
Lemma fixes_spec_ids o a fn : forall rows ds id dist,
  map f_id (fixes_spec o a fn rows ds id dist) =
  map (fun k => id + Z.of_nat k) (seq 0 (length (fixes_spec o a fn rows ds id dist))).
Proof.
  induction rows as [|r rt IH]; intros ds id dist; [reflexivity|].
  destruct ds as [|d dt]; [reflexivity|]. cbn [fixes_spec map length seq].
  f_equal; [cbn; lia|]. rewrite IH. rewrite <- seq_shift, map_map.
  apply map_ext. intros k. lia.
Qed.

Lemma fixes_spec_sources o a fn : forall rows ds id dist,
  (length rows <= length ds)%nat ->
  map f_date (fixes_spec o a fn rows ds id dist) = map (fun r => r_time r + a) rows /\
  map f_offset (fixes_spec o a fn rows ds id dist) = map (fun r => r_now r - fn) rows /\
  length (fixes_spec o a fn rows ds id dist) = length rows.
Proof.
  induction rows as [|r rt IH]; intros ds id dist Hl; [repeat split; reflexivity|].
  destruct ds as [|d dt]; [simpl in Hl; lia|]. cbn [fixes_spec map length].
  destruct (IH dt (id + 1) (fadd dist d)) as [H1 [H2 H3]]; [simpl in Hl; lia|].
  repeat split; [rewrite H1|rewrite H2|rewrite H3]; reflexivity.
Qed.

(* distance of the k-th later fix = the running sum of the first k+1 oracle distances *)
Lemma fixes_spec_dist o a fn : forall rows ds id dist k,
  (k < length (fixes_spec o a fn rows ds id dist))%nat ->
  f_dist (nth k (fixes_spec o a fn rows ds id dist) (fix_of o a 0 fzero record0 0))
  = fold_left fadd (firstn (S k) ds) dist.
Proof.
  induction rows as [|r rt IH]; intros ds id dist k Hk; [simpl in Hk; lia|].
  destruct ds as [|d dt]; [simpl in Hk; lia|]. cbn [fixes_spec] in *.
  destruct k as [|k]; [reflexivity|]. cbn [nth firstn fold_left]. apply IH. simpl in Hk. lia.
Qed.

(* ---- one lap ---- *)
Definition adj_value (adj : option Z) : Z := match adj with Some a => a | None => 0 end.

Lemma lap_of_spec o v adj id l geod ll adj' g :
  lap_of o v adj id l geod = Ok (ll, adj', g) ->
  l_id ll = lap_num l /\ l_time ll = lap_dur l /\ l_vehicle ll = v /\ l_track ll = o_track o /\
  l_tags ll = o_tags o /\ l_note ll = o_note o /\
  match lap_recs l with
  | [] => l_fixes ll = [] /\ l_date ll = None /\ adj' = adj
  | r0 :: rest =>
      adj' = (match o_start o, adj with Some sd, None => Some (sd - utc_midnight (r_time r0)) | _, _ => adj end) /\
      l_date ll = Some (r_time r0 + adj_value adj') /\
      l_fixes ll = fix_of o (adj_value adj') id fzero r0 (r_now r0)
                   :: fixes_spec o (adj_value adj') (r_now r0) (filter upd rest) geod (id + 1) fzero /\
      (length (filter upd rest) <= length geod)%nat /\
      l_overall ll = round1dp (fold_left fadd (firstn (length (filter upd rest)) geod) fzero)
  end.
Proof.
  unfold lap_of. destruct (lap_recs l) as [|r0 rest] eqn:Er.
  - intros H; inversion H; subst. cbn. repeat split; reflexivity.
  - set (adjn := match o_start o, adj with Some sd, None => Some (sd - utc_midnight (r_time r0)) | _, _ => adj end).
    fold (adj_value adjn).
    destruct (lap_rows o (adj_value adjn) (r_now r0) rest geod (id + 1) fzero) as [[[fs dist] g']| | |] eqn:E;
      cbn [bind]; try discriminate.
    intros H; inversion H; subst. cbn.
    destruct (lap_rows_spec _ _ _ _ _ _ _ _ _ _ E) as [H1 [H2 [H3 H4]]].
    repeat split; try reflexivity; try assumption.
    all: try (rewrite H1; reflexivity).
    all: try (rewrite H4, H2; reflexivity).
Qed.

Lemma map_seq_shift {B} (f : nat -> B) n : forall m a,
  map f (seq (n + a) m) = map (fun k => f (n + k)%nat) (seq a m).
Proof.
  induction m as [|m IH]; intros a; [reflexivity|]. cbn [seq map]. f_equal.
  rewrite <- IH. f_equal. f_equal. lia.
Qed.

(* ---- the whole database ---- *)
Lemma laps_of_spec o v : forall ls adj id geod db,
  laps_of o v adj id ls geod = Ok db ->
  length db = length ls /\
  Forall2 (fun l ll => l_id ll = lap_num l /\ l_time ll = lap_dur l /\ l_vehicle ll = v /\
                       l_track ll = o_track o /\ l_tags ll = o_tags o /\ l_note ll = o_note o) ls db /\
  map f_id (flat_map l_fixes db) = map (fun k => id + Z.of_nat k) (seq 0 (length (flat_map l_fixes db))).
Proof.
  induction ls as [|l t IH]; intros adj id geod db H; cbn [laps_of] in H.
  - inversion H; subst. repeat split; try reflexivity; constructor.
  - destruct (lap_of o v adj id l (match geod with g :: _ => g | [] => [] end)) as [[[ll adj'] g']| | |] eqn:E;
      cbn [bind] in H; try discriminate.
    destruct (laps_of o v adj' (id + Z.of_nat (length (l_fixes ll))) t (tl geod)) as [r| | |] eqn:E2;
      cbn [bind] in H; try discriminate.
    inversion H; subst. destruct (IH _ _ _ _ E2) as [H1 [H2 H3]].
    pose proof (lap_of_spec _ _ _ _ _ _ _ _ _ E) as [A1 [A2 [A3 [A4 [A5 [A6 A7]]]]]].
    repeat split.
    + cbn. rewrite H1. reflexivity.
    + constructor; [repeat split; assumption|exact H2].
    + cbn [flat_map]. rewrite map_app, app_length, seq_app, map_app, H3. f_equal.
      * destruct (lap_recs l) as [|r0 rest].
        -- destruct A7 as [-> _]. reflexivity.
        -- destruct A7 as [_ [_ [-> _]]]. cbn [map length seq]. f_equal; [cbn; lia|].
           rewrite fixes_spec_ids. rewrite <- seq_shift, map_map. apply map_ext. intros k. lia.
      * replace (0 + length (l_fixes ll))%nat with (length (l_fixes ll) + 0)%nat by lia.
        rewrite map_seq_shift. apply map_ext. intros k. lia.
Qed.
