(* C14: the encoder LTS (with the repair: the consumer closes the read side when it stops)
   never deadlocks, leaves no goroutine behind and never swallows an output failure. *)
From Coq Require Import List Arith Bool Lia.
From TT Require Import Laptimer.Pipe.
Import ListNotations.

Section Fixed.
Variable p : par.
Hypothesis Hfixed : p_fixed p = true.

Definition main_waiting (x : mainpc) : bool :=
  match x with MWait | MWaitErr | MGz => true | _ => false end.

Record Inv (s : st) : Prop := {
  i_idle : c s = CIdle <-> (m s = MHdr \/ (m s = MRet true /\ wclosed s = false));
  i_hdr : m s = MHdr -> rclosed s = false /\ wclosed s = false /\ chan s = None;
  i_closed : (exists e, c s = CSend e) \/ c s = CExit -> rclosed s = true;
  i_chan : c s = CExit <-> chan s <> None;
  i_wclosed : (main_waiting (m s) = true \/ ((exists e, m s = MRet e) /\ c s <> CIdle)) -> wclosed s = true;
  i_past : (m s = MGz \/ ((exists e, m s = MRet e) /\ c s <> CIdle)) -> c s = CExit;
  i_wc : wclosed s = true -> main_waiting (m s) = true \/ (exists e, m s = MRet e);
  i_rc : rclosed s = true -> (exists e, c s = CSend e) \/ c s = CExit;
  (* a failed underlying write is on its way to the caller *)
  i_broken : broken s = true ->
             m s = MRet true \/ c s = CClose true \/ c s = CSend true \/ chan s = Some true;
  i_err : chan s = Some true -> m s <> MGz /\ m s <> MRet false;
  i_cerr : (c s = CClose false \/ c s = CSend false \/ chan s = Some false) -> broken s = false \/ m s = MRet true
}.

Ltac crush :=
  repeat (match goal with
          | H : ?v = _ |- _ => is_var v; subst v
          | H : _ /\ _ |- _ => destruct H
          | H : exists _, _ |- _ => destruct H
          | H : _ \/ _ |- _ => destruct H
          | H1 : ?A -> _, H2 : ?A |- _ => specialize (H1 H2)
          | H1 : ?x = ?x -> _ |- _ => specialize (H1 eq_refl)
          | H1 : ?A -> _ |- _ =>
              let HA := fresh "HA" in
              assert (HA : A) by (solve [ repeat (split || (right; split; [eexists; reflexivity|])); try (eexists; reflexivity); try discriminate; try congruence
                                        | left; reflexivity | left; eexists; reflexivity | right; reflexivity
                                        | right; left; reflexivity | right; right; reflexivity | right; right; left; reflexivity | right; right; right; reflexivity ]);
              specialize (H1 HA); clear HA
          end; try discriminate; try congruence);
  try solve [ intuition (try congruence; try discriminate; eauto) ].

Ltac fld := cbn in *; repeat (split || intro); crush;
  try (match goal with |- ?b = false \/ _ => destruct b eqn:?; [|left; reflexivity]; crush end).

Lemma inv_init : Inv init.
Proof. constructor; fld. Qed.

Lemma out_op_cases s u :
  (exists w, out_op p s u = (true, w, false) /\ broken s = false) \/
  (exists w, out_op p s u = (false, w, true)).
Proof.
  unfold out_op. destruct (broken s) eqn:B; [right; eexists; reflexivity|].
  destruct (p_fail p) as [k|]; [|left; eexists; split; reflexivity].
  destruct (Nat.leb _ _); [left; eexists; split; reflexivity|right; eexists; reflexivity].
Qed.

Lemma inv_step s s' : Inv s -> In s' (step p s) -> Inv s'.
Proof.
  intros I H. unfold step in H. apply in_app_or in H. destruct I.
  destruct s as [ms cs rc wc ch wcnt br]. cbn [Pipe.m Pipe.c Pipe.rclosed Pipe.wclosed Pipe.chan Pipe.wcount Pipe.broken] in *.
  destruct H as [H|H].
  - (* main *)
    unfold main_steps in H. cbn [Pipe.m Pipe.c Pipe.rclosed Pipe.wclosed Pipe.chan Pipe.wcount Pipe.broken set_m] in H.
    destruct ms.
    + destruct (out_op_cases (mkSt MHdr cs rc wc ch wcnt br) (p_hdr p)) as [[w [E B]]|[w E]]; rewrite E in H;
        destruct H as [<-|[]]; constructor; cbn in *;
        try (destruct i_hdr0 as [? [? ?]]; [reflexivity|]); subst;
        try (assert (cs = CIdle) by (apply i_idle0; left; reflexivity); subst);
        fld.
    + destruct rc; [destruct H as [<-|[]]|destruct rest; destruct H as [<-|[]]];
        constructor; fld.
    + destruct rc; [destruct H as [<-|[]]|destruct lft; [destruct H as [<-|[]]|destruct H]];
        constructor; fld.
    + destruct H as [<-|[]]. constructor; fld.
    + destruct H as [<-|[]]. constructor; fld.
    + destruct ch as [e|]; [destruct H as [<-|[]]|destruct H]. constructor; fld.
    + destruct ch as [[|]|]; [destruct H as [<-|[]]|destruct (p_gz p); destruct H as [<-|[]]|destruct H];
        constructor; fld.
    + destruct (out_op_cases (mkSt MGz cs rc wc ch wcnt br) (match p_gz p with Some u => u | None => 0 end)) as [[w [E B]]|[w E]];
        rewrite E in H; destruct H as [<-|[]]; constructor; fld.
    + destruct H.
  - (* consumer *)
    unfold cons_steps in H. cbn [Pipe.m Pipe.c Pipe.rclosed Pipe.wclosed Pipe.chan Pipe.wcount Pipe.broken set_c] in H.
    destruct cs.
    + destruct H.
    + destruct ms; try (destruct wc; [destruct H as [<-|[]]|destruct H]; constructor; fld).
      destruct lft as [|ops lft]; [destruct wc; [destruct H as [<-|[]]|destruct H]|destruct H as [<-|[]]];
        constructor; fld.
    + destruct ops as [|u ops].
      * destruct last; destruct H as [<-|[]]; constructor; fld.
      * destruct (out_op_cases (mkSt ms (CWrite (u :: ops) last) rc wc ch wcnt br) u) as [[w [E B]]|[w E]];
          rewrite E in H; destruct H as [<-|[]]; constructor; fld.
    + rewrite Hfixed in H. destruct H as [<-|[]]. constructor; fld.
    + destruct H as [<-|[]]. constructor; fld.
    + destruct H.
Qed.

Lemma reachable_inv s : reachable p s -> Inv s.
Proof. induction 1 as [|s s' _ IH Hs]; [apply inv_init|eapply inv_step; eauto]. Qed.

(* every reachable state that has not returned can take a step: no deadlock *)
Lemma no_deadlock s : reachable p s -> is_final s = false -> step p s <> [].
Proof.
  intros Hr Hf. apply reachable_inv in Hr. destruct Hr.
  destruct s as [ms cs rc wc ch wcnt br]. unfold step, main_steps, cons_steps, is_final in *.
  cbn [Pipe.m Pipe.c Pipe.rclosed Pipe.wclosed Pipe.chan Pipe.wcount Pipe.broken set_m set_c] in *.
  destruct ms; try discriminate.
  - destruct (out_op p _ _) as [[[] w] b]; cbn [app]; discriminate.
  - destruct rc; [cbn [app]; discriminate|]. destruct rest; cbn [app]; discriminate.
  - destruct rc; [cbn [app]; discriminate|]. destruct lft as [|ops lft]; [cbn [app]; discriminate|]. cbn [app].
    destruct cs; try discriminate.
    + exfalso. assert (E : MPend (ops :: lft) rest = MHdr \/ MPend (ops :: lft) rest = MRet true /\ wc = false) by (apply i_idle0; reflexivity).
      destruct E as [E|[E _]]; discriminate.
    + destruct ops0 as [|u ops0]; [destruct last; discriminate|]. destruct (out_op p _ _) as [[[] w] b]; discriminate.
    + exfalso. assert (E : false = true) by (apply i_closed0; right; reflexivity). discriminate.
  - destruct ch as [e|]; [cbn [app]; discriminate|]. cbn [app].
    assert (Hw : wc = true) by (apply i_wclosed0; left; reflexivity). subst wc.
    destruct cs; try discriminate.
    + exfalso. assert (E : MWaitErr = MHdr \/ MWaitErr = MRet true /\ true = false) by (apply i_idle0; reflexivity).
      destruct E as [E|[E _]]; discriminate.
    + destruct ops as [|u ops]; [destruct last; discriminate|]. destruct (out_op p _ _) as [[[] w] b]; discriminate.
    + exfalso. assert (E : None <> None) by (apply i_chan0; reflexivity). congruence.
  - destruct ch as [[|]|]; [cbn [app]; discriminate|destruct (p_gz p); cbn [app]; discriminate|]. cbn [app].
    assert (Hw : wc = true) by (apply i_wclosed0; left; reflexivity). subst wc.
    destruct cs; try discriminate.
    + exfalso. assert (E : MWait = MHdr \/ MWait = MRet true /\ true = false) by (apply i_idle0; reflexivity).
      destruct E as [E|[E _]]; discriminate.
    + destruct ops as [|u ops]; [destruct last; discriminate|]. destruct (out_op p _ _) as [[[] w] b]; discriminate.
    + exfalso. assert (E : None <> None) by (apply i_chan0; reflexivity). congruence.
  - destruct (out_op p _ _) as [[ok w] b]. cbn [app]; discriminate.
Qed.

(* once Encode has returned, the filter goroutine has exited (or was never started because
   the header write failed) *)
Lemma no_goroutine_left s e : reachable p s -> m s = MRet e -> c s = CExit \/ (c s = CIdle /\ e = true).
Proof.
  intros Hr Hm. apply reachable_inv in Hr. destruct Hr.
  destruct (c s) eqn:Ec.
  - right. split; [reflexivity|]. assert (E : m s = MHdr \/ m s = MRet true /\ wclosed s = false) by (apply i_idle0; reflexivity).
    destruct E as [E|[E _]]; congruence.
  - left. apply i_past0. right. split; [eexists; exact Hm|congruence].
  - left. apply i_past0. right. split; [eexists; exact Hm|congruence].
  - left. apply i_past0. right. split; [eexists; exact Hm|congruence].
  - left. apply i_past0. right. split; [eexists; exact Hm|congruence].
  - left. reflexivity.
Qed.

(* a failed underlying write is never swallowed: a nil return means no write failed *)
Lemma nil_return_no_failure s : reachable p s -> m s = MRet false -> broken s = false.
Proof.
  intros Hr Hm. pose proof (no_goroutine_left s false Hr Hm) as Hc. apply reachable_inv in Hr. destruct Hr.
  destruct (broken s) eqn:B; [|reflexivity]. exfalso.
  destruct (i_broken0 eq_refl) as [E|[E|[E|E]]].
  - congruence.
  - destruct Hc as [Hc|[Hc Hc2]]; congruence.
  - destruct Hc as [Hc|[Hc Hc2]]; congruence.
  - destruct (i_err0 E) as [_ E2]. congruence.
Qed.
End Fixed.

(* ---------------------------------------------------------------- bounded time *)
Section Measure.
Variable p : par.

Definition rcost (ops : list nat) : nat := length ops + 2.
Definition ccost (reads : list (list nat)) : nat := sum (map rcost reads).
Definition chcost (chs : list (list (list nat))) : nat := sum (map ccost chs).
Definition E : nat := length (p_eof p) + 5.

Definition main_pot (x : mainpc) : nat :=
  match x with
  | MHdr => 2 * length (p_chunks p) + 7 + chcost (p_chunks p) + E
  | MOffer rest => 2 * length rest + 6 + chcost rest
  | MPend lft rest => 2 * length rest + 7 + ccost lft + chcost rest
  | MCloseW | MErrClose => 5
  | MWait | MWaitErr => 4
  | MGz => 3
  | MRet _ => 0
  end.
Definition cons_pot (x : conspc) : nat :=
  match x with
  | CIdle | CRead => E
  | CWrite ops false => length ops + 1 + E
  | CWrite ops true => length ops + 4
  | CClose _ => 3
  | CSend _ => 2
  | CExit => 0
  end.
Definition mu (s : st) : nat := main_pot (m s) + cons_pot (c s).

(* every transition, of either thread, in every state, strictly decreases the measure:
   all executions are finite and no longer than mu init *)
Ltac mlia := cbn [main_pot cons_pot Pipe.m Pipe.c set_m set_c length] in *; unfold E, chcost, ccost, rcost, sum in *; cbn [map fold_right length] in *; lia.
Ltac mcbn := cbn [main_pot cons_pot Pipe.m Pipe.c set_m set_c length chcost ccost rcost map sum fold_right] in *.

Lemma step_decreases s s' : In s' (step p s) -> mu s' < mu s.
Proof.
  intros H. unfold step in H. apply in_app_or in H.
  destruct s as [ms cs rc wc ch wcnt br]. unfold mu, E in *.
  destruct H as [H|H].
  - unfold main_steps in H. cbn [Pipe.m Pipe.c Pipe.rclosed Pipe.wclosed Pipe.chan Pipe.wcount Pipe.broken set_m] in H.
    destruct ms.
    + destruct (out_op p _ _) as [[[] w] b]; destruct H as [<-|[]]; mcbn; destruct cs; mcbn; try destruct last; lia.
    + destruct rc; [destruct H as [<-|[]]; mlia|].
      destruct rest as [|reads rest']; destruct H as [<-|[]]; mlia.
    + destruct rc; [destruct H as [<-|[]]; mlia|].
      destruct lft; [destruct H as [<-|[]]; mlia|destruct H].
    + destruct H as [<-|[]]; mlia.
    + destruct H as [<-|[]]; mlia.
    + destruct ch; [destruct H as [<-|[]]; mlia|destruct H].
    + destruct ch as [[|]|]; [destruct H as [<-|[]]; mlia|destruct (p_gz p); destruct H as [<-|[]]; mlia|destruct H].
    + destruct (out_op p _ _) as [[ok w] b]. destruct H as [<-|[]]; mlia.
    + destruct H.
  - unfold cons_steps in H. cbn [Pipe.m Pipe.c Pipe.rclosed Pipe.wclosed Pipe.chan Pipe.wcount Pipe.broken set_c] in H.
    destruct cs.
    + destruct H.
    + destruct ms; try (destruct wc; [destruct H as [<-|[]]; mlia|destruct H]).
      destruct lft as [|ops lft]; [destruct wc; [destruct H as [<-|[]]; mlia|destruct H]|].
      destruct H as [<-|[]]. mlia.
    + destruct ops as [|u ops].
      * destruct last; destruct H as [<-|[]]; mlia.
      * destruct (out_op p _ _) as [[[] w] b]; destruct H as [<-|[]]; mcbn; destruct last; mlia.
    + destruct H as [<-|[]]; mlia.
    + destruct H as [<-|[]]; mlia.
    + destruct H.
Qed.
End Measure.

(* ---------------------------------------------------------------- completeness of the output *)
Section Acct.
Variable p : par.
Hypothesis Hfixed : p_fixed p = true.

Definition sumr (reads : list (list nat)) : nat := sum (map sum reads).
Definition sumc (chs : list (list (list nat))) : nat := sum (map sumr chs).
Definition gzw : nat := match p_gz p with Some u => u | None => 0 end.

(* underlying writes still to come on the success path *)
Definition todo_main (x : mainpc) : option nat :=
  match x with
  | MHdr => Some (p_hdr p + sumc (p_chunks p) + gzw)
  | MOffer rest => Some (sumc rest + gzw)
  | MPend lft rest => Some (sumr lft + sumc rest + gzw)
  | MCloseW | MWait => Some gzw
  | MGz => Some gzw
  | MRet false => Some 0
  | _ => None
  end.
Definition todo_cons (x : conspc) : nat :=
  match x with
  | CIdle | CRead => sum (p_eof p)
  | CWrite ops false => sum ops + sum (p_eof p)
  | CWrite ops true => sum ops
  | _ => 0
  end.

(* while nothing has failed, written + still-to-write = the fault-free total; and never more
   than k writes succeed when the output fails from its k-th write *)
Definition Acct (s : st) : Prop :=
  (broken s = false -> forall t, todo_main (m s) = Some t -> wcount s + t + todo_cons (c s) = total_writes p) /\
  (forall k, p_fail p = Some k -> wcount s <= k).

Lemma total_eq : total_writes p = p_hdr p + sumc (p_chunks p) + sum (p_eof p) + gzw.
Proof. reflexivity. Qed.

Lemma out_op_acct s u ok w b :
  out_op p s u = (ok, w, b) ->
  (forall k, p_fail p = Some k -> wcount s <= k) ->
  (forall k, p_fail p = Some k -> w <= k) /\ (ok = true -> w = wcount s + u /\ b = false /\ broken s = false) /\ (ok = false -> b = true).
Proof.
  unfold out_op. intros H Hk. destruct (broken s) eqn:B.
  - inversion H; subst. repeat split; try discriminate; auto.
  - destruct (p_fail p) as [k|] eqn:F.
    + destruct (Nat.leb_spec (wcount s + u) k); inversion H; subst.
      * repeat split; try discriminate; intros k' Hk'; inversion Hk'; subst; lia.
      * repeat split; try discriminate. intros k' Hk'; inversion Hk'; subst. specialize (Hk _ eq_refl). lia.
    + inversion H; subst. repeat split; try discriminate.
Qed.

Lemma acct_init : Acct init.
Proof.
  split; cbn [init Pipe.m Pipe.c Pipe.broken Pipe.wcount todo_main todo_cons].
  - intros _ t Ht. inversion Ht; subst. rewrite total_eq. lia.
  - intros; lia.
Qed.

Ltac acbn := cbn [Pipe.m Pipe.c Pipe.broken Pipe.wcount Pipe.chan Pipe.rclosed Pipe.wclosed set_m set_c todo_main todo_cons] in *.
Ltac alia := unfold gzw in *; try (match goal with G : p_gz _ = _ |- _ => rewrite G in * end); unfold sumc, sumr, sum in *; cbn [map fold_right] in *; lia.
(* the step leaves wcount/broken alone: re-establish the equation from the old one *)
Ltac keep A1 A2 :=
  split; [ acbn; let Hb := fresh "Hb" in let t := fresh "t" in let Ht := fresh "Ht" in
           intros Hb t Ht; try discriminate; inversion Ht; subst;
           first [ specialize (A1 Hb _ eq_refl); acbn; alia | specialize (A1 eq_refl _ eq_refl); acbn; alia | alia ]
         | exact A2 ].

Lemma acct_step s s' : Inv s -> Acct s -> In s' (step p s) -> Acct s'.
Proof.
  intros I [A1 A2] H. unfold step in H. apply in_app_or in H.
  destruct s as [ms cs rc wc ch wcnt br]. acbn.
  destruct H as [H|H].
  - unfold main_steps in H. acbn.
    destruct ms.
    + destruct (out_op p _ (p_hdr p)) as [[ok w] b] eqn:Eo.
      destruct (out_op_acct _ _ _ _ _ Eo A2) as [B1 [B2 B3]]. acbn.
      assert (cs = CIdle) by (apply (i_idle _ I); left; reflexivity). subst cs.
      destruct ok; destruct H as [<-|[]]; (split; [|exact B1]); acbn.
      * intros Hb t Ht. inversion Ht; subst. destruct (B2 eq_refl) as [-> [_ Hbr]].
        specialize (A1 Hbr _ eq_refl). acbn. alia.
      * intros Hb. rewrite (B3 eq_refl) in Hb. discriminate.
    + destruct rc; [destruct H as [<-|[]]; keep A1 A2|].
      destruct rest as [|reads rest']; destruct H as [<-|[]]; keep A1 A2.
    + destruct rc; [destruct H as [<-|[]]; keep A1 A2|].
      destruct lft; [|destruct H]. destruct H as [<-|[]]; keep A1 A2.
    + destruct H as [<-|[]]; keep A1 A2.
    + destruct H as [<-|[]]; keep A1 A2.
    + destruct ch; [|destruct H]. destruct H as [<-|[]]; keep A1 A2.
    + destruct ch as [[|]|]; [destruct H as [<-|[]]; keep A1 A2| |destruct H].
      assert (Hc : cs = CExit) by (apply (i_chan _ I); acbn; congruence). subst cs.
      unfold gzw in *; destruct (p_gz p) eqn:G; destruct H as [<-|[]]; try rewrite G in *; keep A1 A2.
    + assert (Hc : cs = CExit) by (apply (i_past _ I); left; reflexivity). subst cs.
      fold gzw in H.
      destruct (out_op p _ gzw) as [[ok w] b] eqn:Eo.
      destruct (out_op_acct _ _ _ _ _ Eo A2) as [B1 [B2 B3]]. acbn.
      destruct H as [<-|[]]; (split; [|exact B1]); acbn.
      destruct ok; cbn [negb]; [|intros _ t Ht; discriminate].
      intros Hb t Ht; inversion Ht; subst. destruct (B2 eq_refl) as [-> [_ Hbr]].
      specialize (A1 Hbr _ eq_refl). acbn. alia.
    + destruct H.
  - unfold cons_steps in H. acbn.
    destruct cs.
    + destruct H.
    + destruct ms; try (destruct wc; [|destruct H]; destruct H as [<-|[]]; keep A1 A2).
      * destruct lft as [|ops lft].
        -- destruct wc; [|destruct H]. destruct H as [<-|[]]; keep A1 A2.
        -- destruct H as [<-|[]]; keep A1 A2.
      * exfalso. assert (E : CRead = CExit) by (apply (i_past _ I); right; split; [eexists; reflexivity|discriminate]).
        discriminate.
    + destruct ops as [|u ops].
      * destruct last; destruct H as [<-|[]]; (split; [|exact A2]); acbn;
          intros Hb t Ht; specialize (A1 Hb _ Ht); acbn; alia.
      * destruct (out_op p _ u) as [[ok w] b] eqn:Eo.
        destruct (out_op_acct _ _ _ _ _ Eo A2) as [B1 [B2 B3]]. acbn.
        destruct ok; destruct H as [<-|[]]; (split; [|exact B1]); acbn.
        -- intros Hb t Ht. destruct (B2 eq_refl) as [-> [_ Hbr]]. specialize (A1 Hbr _ Ht). destruct last; acbn; alia.
        -- intros Hb. rewrite (B3 eq_refl) in Hb. discriminate.
    + destruct H as [<-|[]]; (split; [|exact A2]); acbn; intros Hb t Ht; specialize (A1 Hb _ Ht); acbn; alia.
    + destruct H as [<-|[]]; (split; [|exact A2]); acbn; intros Hb t Ht; specialize (A1 Hb _ Ht); acbn; alia.
    + destruct H.
Qed.

Lemma reachable_acct s : reachable p s -> Acct s.
Proof.
  induction 1 as [|s s' Hr IH Hs]; [apply acct_init|].
  eapply acct_step; eauto. apply (reachable_inv p Hfixed); assumption.
Qed.

(* on a nil return the output has received every underlying write of the fault-free run *)
Lemma success_complete s : reachable p s -> m s = MRet false -> wcount s = total_writes p /\ broken s = false.
Proof.
  intros Hr Hm. pose proof (nil_return_no_failure p Hfixed s Hr Hm) as Hb.
  pose proof (no_goroutine_left p Hfixed s false Hr Hm) as Hc.
  destruct (reachable_acct s Hr) as [A1 _]. rewrite Hm in A1. specialize (A1 Hb 0 eq_refl).
  destruct Hc as [Hc|[_ Hc]]; [|discriminate]. rewrite Hc in A1. cbn in A1. split; [lia|exact Hb].
Qed.

(* an output that starts failing at its k-th write, k below the number of writes of the
   fault-free run, makes Encode return a non-nil error in every execution *)
Lemma error_reported s k e :
  p_fail p = Some k -> k < total_writes p -> reachable p s -> m s = MRet e -> e = true.
Proof.
  intros Hk Hlt Hr Hm. destruct e; [reflexivity|]. exfalso.
  destruct (success_complete s Hr Hm) as [Hw _].
  destruct (reachable_acct s Hr) as [_ A2]. specialize (A2 _ Hk). lia.
Qed.
End Acct.

(* ---------------------------------------------------------------- the defect as it was (D2) *)
Lemma explore_reachable p : forall fuel frontier,
  Forall (reachable p) frontier -> Forall (reachable p) (explore p fuel frontier).
Proof.
  induction fuel as [|f IH]; intros fr H; cbn [explore]; [exact H|].
  apply Forall_app. split; [exact H|]. apply IH.
  rewrite Forall_forall in *. intros s' Hs'. apply in_flat_map in Hs'. destruct Hs' as [s [Hs Hst]].
  eapply r_step; [apply H; exact Hs|exact Hst].
Qed.

Definition unfixed_example : par := mkPar 1 [[[1]]; [[1]]] [1] None (Some 1) false.

Lemma unfixed_deadlocks :
  exists s, reachable unfixed_example s /\ is_final s = false /\ step unfixed_example s = [].
Proof.
  assert (H : existsb (stuck unfixed_example) (explore unfixed_example 12 [init]) = true) by (vm_compute; reflexivity).
  apply existsb_exists in H. destruct H as [s [Hin Hst]].
  exists s. split.
  - assert (F : Forall (reachable unfixed_example) (explore unfixed_example 12 [init])).
    { apply explore_reachable. constructor; [apply r_init|constructor]. }
    rewrite Forall_forall in F. apply F. exact Hin.
  - unfold stuck in Hst. apply andb_true_iff in Hst. destruct Hst as [H1 H2].
    split; [apply negb_true_iff; exact H1|]. destruct (step unfixed_example s); [reflexivity|discriminate].
Qed.
