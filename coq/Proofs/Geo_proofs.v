From Coq Require Import QArith Bool Reals Lra Lia.
From TT Require Import Geo.Online Geo.Plane.

(* ---------------------------------------------------------------- C17 *)
Lemma Qle_bool_trans a b c : Qle_bool a b = true -> (b <= c)%Q -> Qle_bool a c = true.
Proof. intros H1 H2. apply Qle_bool_iff. apply Qle_bool_iff in H1. eapply Qle_trans; eassumption. Qed.

(* enlarging the tolerance never turns a hit into a miss - for ALL values of the computed quantities *)
Lemma tolerance_monotone tol tol' p : (tol <= tol')%Q -> on_line tol p = true -> on_line tol' p = true.
Proof.
  intros Hle. unfold on_line.
  destruct (Qle_bool (d01 p) tol) eqn:E1.
  { intros _. rewrite (Qle_bool_trans _ _ _ E1 Hle). reflexivity. }
  destruct (Qle_bool (d02 p) tol) eqn:E2.
  { intros _. destruct (Qle_bool (d01 p) tol'); [reflexivity|]. rewrite (Qle_bool_trans _ _ _ E2 Hle). reflexivity. }
  destruct (Qle_bool (track p) tol) eqn:E3; cbn [negb]; [|discriminate].
  intros H. destruct (Qle_bool (d01 p) tol'); [reflexivity|]. destruct (Qle_bool (d02 p) tol'); [reflexivity|].
  rewrite (Qle_bool_trans _ _ _ E3 Hle). cbn [negb]. exact H.
Qed.

(* the answer does not depend on the order of the end points, as far as the decision is concerned:
   swapping d01 and d02 (and keeping the symmetric quantities) gives the same answer *)
Lemma endpoint_order tol a b c t s :
  on_line tol (mkParts a b c t s) = on_line tol (mkParts b a c t s).
Proof.
  unfold on_line. cbn [d01 d02 d12 track sinsum_pos].
  destruct (Qle_bool a tol), (Qle_bool b tol); try reflexivity.
  destruct (Qle_bool t tol); cbn [negb]; [|reflexivity].
  destruct (Qle_bool a _), (Qle_bool b _); reflexivity.
Qed.

(* end caps: within tolerance of either end point is a hit whatever the rest says *)
Lemma endcap_hit tol p : (d01 p <= tol)%Q \/ (d02 p <= tol)%Q -> on_line tol p = true.
Proof.
  intros [H|H]; unfold on_line.
  - apply Qle_bool_iff in H. rewrite H. reflexivity.
  - apply Qle_bool_iff in H. destruct (Qle_bool (d01 p) tol); [reflexivity|]. rewrite H. reflexivity.
Qed.

(* ---------------------------------------------------------------- C18 *)
Local Open Scope R_scope.
Definition hav (x : R) : R := (sin (x / 2)) ^ 2.
Definition distance_hav (lat1 lon1 lat2 lon2 : R) : R :=
  hav (lat1 - lat2) + hav (lon1 - lon2) * cos lat1 * cos lat2.
Definition inv_hav (x : R) : R := 2 * asin (sqrt x).
Definition distance_haversin (lat1 lon1 lat2 lon2 radius : R) : R := inv_hav (distance_hav lat1 lon1 lat2 lon2) * radius.
Definition distance_equirect (lat1 lon1 lat2 lon2 radius : R) : R :=
  sqrt (((lon2 - lon1) * cos ((lat2 + lat1) * / 2)) ^ 2 + (lat2 - lat1) ^ 2) * radius.

Lemma hav_even x : hav (- x) = hav x.
Proof. unfold hav. replace (- x / 2) with (- (x / 2)) by lra. rewrite sin_neg. ring. Qed.

Lemma distance_hav_sym la1 lo1 la2 lo2 : distance_hav la1 lo1 la2 lo2 = distance_hav la2 lo2 la1 lo1.
Proof.
  unfold distance_hav. replace (la1 - la2) with (- (la2 - la1)) by lra.
  replace (lo1 - lo2) with (- (lo2 - lo1)) by lra. rewrite !hav_even. ring.
Qed.

Lemma haversine_symmetric la1 lo1 la2 lo2 r : distance_haversin la1 lo1 la2 lo2 r = distance_haversin la2 lo2 la1 lo1 r.
Proof. unfold distance_haversin. rewrite distance_hav_sym. reflexivity. Qed.

Lemma haversine_linear_in_radius la1 lo1 la2 lo2 r k :
  distance_haversin la1 lo1 la2 lo2 (k * r) = k * distance_haversin la1 lo1 la2 lo2 r.
Proof. unfold distance_haversin. ring. Qed.

Lemma haversine_zero_same_point la lo r : distance_haversin la lo la lo r = 0.
Proof.
  unfold distance_haversin, inv_hav, distance_hav, hav.
  replace (la - la) with 0 by lra. replace (lo - lo) with 0 by lra.
  replace (0 / 2) with 0 by lra. rewrite sin_0.
  replace (0 ^ 2 + 0 ^ 2 * cos la * cos la) with 0 by ring. rewrite sqrt_0, asin_0. ring.
Qed.

Lemma equirect_symmetric la1 lo1 la2 lo2 r : distance_equirect la1 lo1 la2 lo2 r = distance_equirect la2 lo2 la1 lo1 r.
Proof.
  unfold distance_equirect. f_equal. f_equal.
  replace ((la2 + la1) * / 2) with ((la1 + la2) * / 2) by lra. ring.
Qed.

Lemma equirect_linear_in_radius la1 lo1 la2 lo2 r k :
  distance_equirect la1 lo1 la2 lo2 (k * r) = k * distance_equirect la1 lo1 la2 lo2 r.
Proof. unfold distance_equirect. ring. Qed.

(* ---------------------------------------------------------------- C19 *)
(* the normalised cross product of the two homogeneous lines lies on both lines, whenever the
   lines are not parallel *)
Lemma plane_intersection (a1x a1y a2x a2y b1x b1y b2x b2y : R) :
  let la := cross (pt a1x a1y) (pt a2x a2y) in
  let lb := cross (pt b1x b1y) (pt b2x b2y) in
  let p0 := cross la lb in
  (let '(_, _, z) := p0 in z <> 0) ->
  let '(x, y) := norm p0 in
  on_line_through (a1x, a1y) (a2x, a2y) x y /\ on_line_through (b1x, b1y) (b2x, b2y) x y.
Proof.
  cbn. intros Hz. unfold on_line_through. cbn [fst snd]. split; field; intros E; apply Hz; rewrite <- E; ring.
Qed.


