(* C09, decoder half: the walk over arbitrary sample tables never reaches a panic site and
   never exhausts its fuel. *)
From Coq Require Import String Ascii List ZArith NArith Bool Lia.
From TT Require Import Base.Outcome Base.F64 Gpmf.Klv Gpmf.Walk Gpmf.Mp4 Proofs.NoCrash Proofs.C09_proofs.
Import ListNotations.
Local Open Scope Z_scope.

Lemma chunk_samples_nc tb spc : forall fuel n offset cu,
  (Z.to_nat (Z.min (spc - n) (t_nsamples tb - cu_sample cu + 1)) < fuel)%nat ->
  no_crash (chunk_samples fuel tb n spc offset cu).
Proof.
  induction fuel as [|f IH]; intros n offset cu Hf; [lia|].
  cbn [chunk_samples].
  destruct ((n <? spc) && (cu_sample cu <=? t_nsamples tb)) eqn:Hc; [|exact I].
  apply andb_true_iff in Hc. destruct Hc as [H1 H2]. apply Z.ltb_lt in H1. apply Z.leb_le in H2.
  destruct (stts_next _ _ _ _) as [[[[dur left'] rest'] delta']|]; [|exact I].
  apply bind_nc.
  - destruct (t_uniform tb =? 0); [|exact I]. destruct (nth_error _ _); exact I.
  - intros size _. apply bind_nc; [|intros [ss cu'] _; exact I].
    apply IH. cbn [cu_sample]. lia.
Qed.

Lemma entry_chunks_nc tb spc last : Z.of_nat (length (t_offsets tb)) < 2 ^ 32 - 1 -> forall fuel chunk cu,
  1 <= cu_sample cu -> 0 <= chunk ->
  (Z.to_nat (Z.of_nat (length (t_offsets tb)) - chunk + 1) < fuel)%nat ->
  no_crash (entry_chunks fuel tb chunk last spc cu).
Proof.
  intros Hlen32. induction fuel as [|f IH]; intros chunk cu Hs Hc0 Hf; [lia|].
  cbn [entry_chunks].
  destruct ((chunk <=? last) && (cu_sample cu <=? t_nsamples tb)) eqn:Hc; [|exact I].
  apply andb_true_iff in Hc. destruct Hc as [_ H2]. apply Z.leb_le in H2.
  destruct ((chunk =? 0) || (Z.of_nat (length (t_offsets tb)) <? chunk)) eqn:Hb; [exact I|].
  apply orb_false_iff in Hb. destruct Hb as [Hb1 Hb2]. apply Z.eqb_neq in Hb1. apply Z.ltb_ge in Hb2.
  apply bind_nc.
  - apply chunk_samples_nc. cbn. lia.
  - intros [ss cu'] E.
    assert (Hs' : 1 <= cu_sample cu').
    { clear -E Hs. revert E. generalize (S (Z.to_nat (Z.min spc (t_nsamples tb)))) 0 (nth (Z.to_nat (chunk - 1)) (t_offsets tb) 0).
      intros fuel. revert cu ss cu' Hs. induction fuel as [|f IHf]; intros cu ss cu' Hs n off E; cbn [chunk_samples] in E; [discriminate|].
      destruct ((n <? spc) && (cu_sample cu <=? t_nsamples tb)); [|inversion E; subst; exact Hs].
      destruct (stts_next _ _ _ _) as [[[[dur left'] rest'] delta']|]; [|discriminate].
      match type of E with bind ?x _ = _ => destruct x as [size| | |] end; cbn [bind] in E; try discriminate.
      match type of E with bind ?x _ = _ => destruct x as [[ss2 cu2]| | |] eqn:E2 end; cbn [bind] in E; try discriminate.
      inversion E; subst. eapply IHf in E2; [exact E2|cbn; lia]. }
    apply bind_nc; [|intros [ss2 cu2] _; exact I].
    assert (Hu : 0 <= u32 (chunk + 1)) by (unfold u32; apply Z.mod_pos_bound; lia).
    apply IH; [exact Hs'|exact Hu|].
    unfold u32. rewrite Z.mod_small by lia. lia.
Qed.

Lemma entries_nc tb : Z.of_nat (length (t_offsets tb)) < 2 ^ 32 - 1 -> forall es cu, 1 <= cu_sample cu -> Forall (fun e => 0 <= fst e) es -> no_crash (entries tb es cu).
Proof.
  intros Hlen32. induction es as [|[first spc] rest IH]; intros cu Hs Hf; cbn [entries]; [exact I|].
  inversion Hf as [|? ? Hfirst Hrest]; subst. cbn [fst] in Hfirst.
  apply bind_nc.
  - apply entry_chunks_nc; [exact Hlen32|exact Hs|exact Hfirst|]. lia.
  - intros [ss cu'] E. apply bind_nc; [|intros; exact I]. apply IH; [|exact Hrest].
    (* the sample counter never decreases *)
    revert E. generalize (S (S (length (t_offsets tb)))) first.
    intros fuel. revert cu ss cu' Hs. induction fuel as [|f IHf]; intros cu ss cu' Hs chunk E; cbn [entry_chunks] in E; [discriminate|].
    destruct ((chunk <=? _) && _); [|inversion E; subst; exact Hs].
    destruct ((chunk =? 0) || _); [discriminate|].
    match type of E with bind ?x _ = _ => destruct x as [[ss1 cu1]| | |] eqn:E1 end; cbn [bind] in E; try discriminate.
    match type of E with bind ?x _ = _ => destruct x as [[ss2 cu2]| | |] eqn:E2 end; cbn [bind] in E; try discriminate.
    inversion E; subst. eapply IHf in E2; [exact E2|].
    clear -E1 Hs. revert E1. generalize (S (Z.to_nat (Z.min spc (t_nsamples tb)))) 0 (nth (Z.to_nat (chunk - 1)) (t_offsets tb) 0).
    intros fuel. revert cu ss1 cu1 Hs. induction fuel as [|f IHf]; intros cu ss cu' Hs n off E; cbn [chunk_samples] in E; [discriminate|].
    destruct ((n <? spc) && (cu_sample cu <=? t_nsamples tb)); [|inversion E; subst; exact Hs].
    destruct (stts_next _ _ _ _) as [[[[dur left'] rest'] delta']|]; [|discriminate].
    match type of E with bind ?x _ = _ => destruct x as [size| | |] end; cbn [bind] in E; try discriminate.
    match type of E with bind ?x _ = _ => destruct x as [[ss2 cu2]| | |] eqn:E2 end; cbn [bind] in E; try discriminate.
    inversion E; subst. eapply IHf in E2; [exact E2|cbn; lia].
Qed.

Lemma samples_of_nc tb : Z.of_nat (length (t_offsets tb)) < 2 ^ 32 - 1 -> Forall (fun e => 0 <= fst e) (t_stsc tb) -> no_crash (samples_of tb).
Proof.
  intros Hlen32 Hf. unfold samples_of. apply bind_nc.
  - apply entries_nc; [exact Hlen32|destruct (t_stts tb) as [|[? ?] ?]; cbn; lia|exact Hf].
  - intros ss _. destruct (_ <? _); exact I.
Qed.

Lemma decode_trak_nc file units tb : Z.of_nat (length (t_offsets tb)) < 2 ^ 32 - 1 -> Forall (fun e => 0 <= fst e) (t_stsc tb) -> no_crash (decode_trak file units tb).
Proof.
  intros Hlen32 Hf. unfold decode_trak. apply bind_nc; [apply samples_of_nc; assumption|]. intros ss _.
  assert (G : forall l acc, no_crash acc -> no_crash (fold_left (fun acc sm =>
      bind acc (fun '(els, offs) =>
        if 2 ^ 63 <=? sm_off sm then Err "seek" else
        bind (read (slice file (sm_off sm) (sm_size sm))) (fun es =>
          Ok (els ++ es, offs ++ payload_offsets units sm es)))) l acc)).
  { induction l as [|sm l IH]; intros acc Ha; cbn [fold_left]; [exact Ha|]. apply IH.
    apply bind_nc; [exact Ha|]. intros [els offs] _. destruct (_ <=? _); [exact I|].
    apply bind_nc; [apply no_crash_returns, read_total|]. intros; exact I. }
  apply G. exact I.
Qed.

(* For arbitrary sample tables (unsigned entries), payload bytes, timescale and tracks the decoder
   model returns a tree or an error. *)
Theorem decode_total file traks :
  Forall (fun tr => Z.of_nat (length (t_offsets (tr_tables tr))) < 2 ^ 32 - 1 /\ Forall (fun e => 0 <= fst e) (t_stsc (tr_tables tr))) traks ->
  returns (decode file traks).
Proof.
  intros H. apply no_crash_returns. induction traks as [|tr rest IH]; cbn [decode]; [exact I|].
  inversion H as [|? ? Htr Hrest]; subst.
  destruct (_ && _); [|apply IH; exact Hrest].
  destruct (_ =? 0); [exact I|]. destruct Htr as [H1 H2]. apply decode_trak_nc; assumption.
Qed.
