(* C20: the precedence rule for options that live in a nested table (start.latitude ...). *)
From Coq Require Import String Ascii List Bool.
From TT Require Import Base.Str Cli.Precedence Proofs.C20_proofs.
Import ListNotations.
Local Open Scope string_scope.

(* what a nested option sees of the section: is there a top-level key k, and the value at tb.k *)
Definition nlookup (t : table) (tb k : string) : option string := cfg_lookup t [tb; k].

Lemma t_get_nested_del k : forall t tb, 
  t_get (nested_del k t) tb = match t_get t tb with
                              | Some (CTable sub) => Some (CTable (t_del sub k))
                              | o => o
                              end.
Proof.
  induction t as [|[k' v] r IH]; intros tb; [reflexivity|]. cbn [nested_del map t_get].
  destruct v as [s|sub]; cbn [t_get]; destruct (String.eqb tb k'); try reflexivity; apply IH.
Qed.

(* deleting another key k' leaves tb.k alone (tb itself is not the deleted key) *)
Lemma delete_key_nested_other t tb k k' : k' <> k -> k' <> tb -> nlookup (delete_key t k') tb k = nlookup t tb k.
Proof.
  intros Hk Ht. unfold nlookup, cfg_lookup, delete_key. destruct (t_get t k') eqn:E.
  - rewrite t_get_del_other by congruence. reflexivity.
  - fold (nested_del k' t). rewrite t_get_nested_del. destruct (t_get t tb) as [[s|sub]|]; try reflexivity.
    rewrite t_get_del_other by congruence. reflexivity.
Qed.

(* deleting k itself, when there is no top-level key k, removes tb.k *)
Lemma delete_key_nested_same t tb k : t_get t k = None -> nlookup (delete_key t k) tb k = None.
Proof.
  intros E. unfold nlookup, cfg_lookup, delete_key. rewrite E. fold (nested_del k t). rewrite t_get_nested_del.
  destruct (t_get t tb) as [[s|sub]|]; try reflexivity. rewrite t_get_del_same. reflexivity.
Qed.

(* no delete ever creates a top-level key *)
Lemma delete_key_top_none t k k' : t_get t k = None -> t_get (delete_key t k') k = None.
Proof.
  intros E. unfold delete_key. destruct (t_get t k') eqn:E'.
  - destruct (String.eqb_spec k k') as [->|N]; [apply t_get_del_same|rewrite t_get_del_other by exact N; exact E].
  - fold (nested_del k' t). rewrite t_get_nested_del, E. reflexivity.
Qed.

(* ... nor a nested one *)
Lemma delete_key_nested_none t tb k k' : nlookup t tb k = None -> k' <> tb -> nlookup (delete_key t k') tb k = None.
Proof.
  intros E Ht. destruct (String.eqb_spec k' k) as [->|N]; [|rewrite delete_key_nested_other by assumption; exact E].
  unfold nlookup, cfg_lookup, delete_key in *. destruct (t_get t k) eqn:E'.
  - rewrite t_get_del_other by congruence. exact E.
  - fold (nested_del k t). rewrite t_get_nested_del. destruct (t_get t tb) as [[s|sub]|]; try reflexivity.
    rewrite t_get_del_same. reflexivity.
Qed.

Definition no_flag_named (g : given) (tb : string) : Prop := forall v, ~ In (tb, v) g.

Lemma load_nested_not_given : forall g t tb k,
  g_get g k = None -> no_flag_named g tb -> nlookup (load_config t g) tb k = nlookup t tb k.
Proof.
  unfold load_config. induction g as [|[k' v] r IH]; intros t tb k H Hn; cbn [fold_left]; [reflexivity|].
  cbn [g_get] in H. destruct (String.eqb k k') eqn:Ek; [discriminate|]. apply String.eqb_neq in Ek.
  rewrite IH; [|exact H|intros v' Hin; apply (Hn v'); right; exact Hin].
  apply delete_key_nested_other; [congruence|]. intros ->. apply (Hn v). left. reflexivity.
Qed.

Lemma load_nested_keeps_none : forall g t tb k,
  nlookup t tb k = None -> no_flag_named g tb -> nlookup (load_config t g) tb k = None.
Proof.
  unfold load_config. induction g as [|[k' v] r IH]; intros t tb k H Hn; cbn [fold_left]; [exact H|].
  apply IH; [|intros v' Hin; apply (Hn v'); right; exact Hin].
  apply delete_key_nested_none; [exact H|]. intros ->. apply (Hn v). left. reflexivity.
Qed.

Lemma load_nested_given : forall g t tb k v,
  g_get g k = Some v -> t_get t k = None -> no_flag_named g tb -> nlookup (load_config t g) tb k = None.
Proof.
  unfold load_config. induction g as [|[k' v'] r IH]; intros t tb k v H Ht Hn; cbn [fold_left]; [discriminate|].
  assert (Hn' : no_flag_named r tb) by (intros x Hin; apply (Hn x); right; exact Hin).
  assert (Htb : k' <> tb) by (intros ->; apply (Hn v'); left; reflexivity).
  cbn [g_get] in H. destruct (String.eqb_spec k k') as [<-|N].
  - (* this flag: its delete removes tb.k, and nothing brings it back *)
    fold (load_config (delete_key t k) r). apply load_nested_keeps_none; [|exact Hn'].
    apply delete_key_nested_same. exact Ht.
  - apply (IH _ tb k v H); [apply delete_key_top_none; exact Ht|exact Hn'].
Qed.

(* For every section, every list of given flags and every default: an option that lives at tb.k
   in the config section (flag name k) takes the flag's value if given, else the file's value,
   else the default - provided the section has no top-level key named like the flag and no flag
   is named like the table (true of every command: the tables are called `start`, the flags
   latitude/longitude/bearing/distance). *)
Theorem precedence_nested tb k section g default :
  t_get section k = None -> no_flag_named g tb ->
  effective (mkOpt [tb; k] k) section g default = spec_effective (mkOpt [tb; k] k) section g default.
Proof.
  intros Ht Hn. unfold effective, spec_effective. cbn [o_flag o_path].
  fold (nlookup (load_config section g) tb k). fold (nlookup section tb k).
  destruct (g_get g k) as [v|] eqn:Eg.
  - rewrite (load_nested_given g section tb k v Eg Ht Hn). reflexivity.
  - rewrite (load_nested_not_given g section tb k Eg Hn). reflexivity.
Qed.
