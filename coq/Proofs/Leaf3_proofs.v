(* More leaves whose second encoding equals the first: relative-to-start, altitude
   coordinates, intermediates. *)
From Coq Require Import String Ascii List ZArith NArith Bool Lia.
From TT Require Import Base.Outcome Base.Str Base.F64 Base.GoParse Base.Civil Xml.Print Laptimer.Leaves Laptimer.Value Laptimer.Codec
     Proofs.Leaf_proofs Proofs.Fixed_proofs Proofs.Leaf2_proofs Proofs.Sync_proofs.
Import ListNotations.
Local Open Scope Z_scope.

Theorem altcoord_leaf_reencode la lo al : printable 8 la -> printable 8 lo -> printable 1 al ->
  exists l', quant_leaf (LvAltCoord la lo al) = Ok l' /\ leaf_text l' = leaf_text (LvAltCoord la lo al).
Proof.
  intros Ha Hb Hc. destruct (printable_stable 8 la ltac:(lia) Ha) as [a [A1 A2]]. destruct (printable_stable 8 lo ltac:(lia) Hb) as [b [B1 B2]].
  destruct (printable_stable 1 al ltac:(lia) Hc) as [c [C1 C2]].
  exists (LvAltCoord a b c). cbn [quant_leaf leaf_text]. rewrite A1. cbn [bind]. rewrite B1. cbn [bind]. rewrite C1. cbn [bind].
  split; [reflexivity|]. rewrite A2, B2, C2. reflexivity.
Qed.

Theorem rel_leaf_reencode dist off : printable 1 dist -> 0 <= off < 2 ^ 62 ->
  exists l', quant_leaf (LvRel dist off) = Ok l' /\ leaf_text l' = leaf_text (LvRel dist off).
Proof.
  intros Ha Ho. destruct (printable_stable 1 dist ltac:(lia) Ha) as [a [A1 A2]].
  exists (LvRel a (off / 10000000 * 10000000)). cbn [quant_leaf leaf_text]. rewrite A1. cbn [bind].
  rewrite duration_roundtrip by exact Ho. cbn [bind]. split; [reflexivity|]. rewrite A2, dur_string_floor by lia. reflexivity.
Qed.

(* intermediates: any number of (time, distance) lines *)
Definition inter_ok (p : Z * f64) : Prop := 0 <= fst p < 2 ^ 62 /\ printable 1 (snd p).

Lemma inter_mapM : forall l, Forall inter_ok l ->
  exists l', mapM (fun '(d, x) => bind (dur_parse (dur_string d)) (fun d' => bind (pf (fmt_fixed 1 x)) (fun x' => Ok (d', x')))) l = Ok l' /\
             map (fun '(d, x) => (dur_string d, fmt_fixed 1 x)) l' = map (fun '(d, x) => (dur_string d, fmt_fixed 1 x)) l.
Proof.
  induction l as [|[d x] t IH]; intros H.
  - exists []. split; reflexivity.
  - inversion H as [|? ? [Hd Hx] Ht]; subst. cbn [fst snd] in *.
    destruct (IH Ht) as [t' [T1 T2]]. destruct (printable_stable 1 x ltac:(lia) Hx) as [x' [X1 X2]].
    exists ((d / 10000000 * 10000000, x') :: t'). cbn [mapM]. rewrite duration_roundtrip by exact Hd. cbn [bind]. rewrite X1. cbn [bind].
    rewrite T1. cbn [bind]. split; [reflexivity|]. cbn [map]. rewrite T2, X2, dur_string_floor by lia. reflexivity.
Qed.

Definition inter_text (ps : list (string * string)) : text :=
  match ps with
  | [] => []
  | _ => flat_map (fun '(a, b) => [10; 9; 9; 9] ++ t_of (sc [a; ","; b]%string)) ps ++ [10; 9; 9]
  end.
Lemma inter_text_of l : leaf_text (LvInter l) = inter_text (map (fun '(d, x) => (dur_string d, fmt_fixed 1 x)) l).
Proof.
  assert (G : forall l, flat_map (fun '(d, x) => [10; 9; 9; 9] ++ t_of (sc [dur_string d; ","; fmt_fixed 1 x]%string)) l =
                        flat_map (fun '(a, b) => [10; 9; 9; 9] ++ t_of (sc [a; ","; b]%string)) (map (fun '(d, x) => (dur_string d, fmt_fixed 1 x)) l)).
  { induction l0 as [|[d x] t IH]; [reflexivity|]. cbn [map flat_map]. rewrite IH. reflexivity. }
  cbn [leaf_text]. unfold inter_text. destruct l as [|[d x] t]; [reflexivity|]. rewrite G. reflexivity.
Qed.

Theorem inter_leaf_reencode l : Forall inter_ok l ->
  exists l', quant_leaf (LvInter l) = Ok l' /\ leaf_text l' = leaf_text (LvInter l).
Proof.
  intros H. destruct (inter_mapM l H) as [l' [M1 M2]].
  exists (LvInter l'). cbn [quant_leaf]. rewrite M1. cbn [omap]. split; [reflexivity|].
  rewrite !inter_text_of, M2. reflexivity.
Qed.

(* ---- all of it in one statement ---- *)
Definition date_ok (t : Z) : Prop := first_day * ns_per_day <= t < (first_day + Z.of_nat n_days) * ns_per_day.

(* the domain: numbers printable below 2^51 units of their last decimal, durations below 2^62 ns,
   dates 1969-2068, texts of valid characters (tyre speed ratings without white space), sync points
   whose seconds print below 2^51 hundredths *)
Definition leaf_dom (l : leaf) : Prop :=
  match l with
  | LvStr t => forallb valid_char t = true
  | LvInt _ | LvBool _ | LvPos _ _ _ | LvThresh _ | LvFg _ _ => True
  | LvF dp x => (dp <= 22)%nat /\ printable dp x
  | LvDur d => 0 <= d < 2 ^ 62
  | LvLapDate t | LvFixDate t => date_ok t
  | LvCoord la lo => printable 8 la /\ printable 8 lo
  | LvAltCoord la lo al => printable 8 la /\ printable 8 lo /\ printable 1 al
  | LvRel dist off => printable 1 dist /\ 0 <= off < 2 ^ 62
  | LvInter l => Forall inter_ok l
  | LvGear _ r => printable 6 r
  | LvTyre _ _ sr _ => sr <> [] /\ has_ws sr = false /\ forallb valid_char sr = true
  | LvTags l => Forall (fun t => forallb valid_char t = true) l
  | LvSync d => sync_dom d
  end.

Lemma clean_text_valid t : forallb valid_char t = true -> clean_text t = t.
Proof.
  induction t as [|c t IH]; intros H; [reflexivity|]. cbn [forallb] in H. apply andb_true_iff in H. destruct H as [H1 H2].
  unfold clean_text in *. cbn [map]. rewrite H1, IH by exact H2. reflexivity.
Qed.

(* tags: joined with commas, split at commas when read, joined again *)
Definition join_tags : list text -> text :=
  fix go (l : list text) : text := match l with [] => [] | [x] => x | x :: r => x ++ comma ++ go r end.
Definition split_tags : text -> text -> list text :=
  fix split (t : text) (cur : text) : list text :=
    match t with
    | [] => [rev' cur]
    | c :: r => if c =? 44 then rev' cur :: split r [] else split r (c :: cur)
    end.
Lemma split_nonempty : forall t cur, split_tags t cur <> [].
Proof. induction t as [|c r IH]; intros cur; cbn [split_tags]; [discriminate|]. destruct (c =? 44); [discriminate|apply IH]. Qed.
Lemma join_split : forall t cur, join_tags (split_tags t cur) = rev cur ++ t.
Proof.
  induction t as [|c r IH]; intros cur; cbn [split_tags].
  - cbn [join_tags]. unfold rev'. rewrite <- rev_alt, app_nil_r. reflexivity.
  - destruct (Z.eqb_spec c 44) as [->|N].
    + pose proof (split_nonempty r []) as Hne. destruct (split_tags r []) as [|y ys] eqn:E; [congruence|].
      change (join_tags (rev' cur :: y :: ys)) with (rev' cur ++ comma ++ join_tags (y :: ys)).
      rewrite <- E, IH. unfold rev', comma. rewrite <- rev_alt. reflexivity.
    + rewrite IH. cbn [rev]. rewrite <- app_assoc. reflexivity.
Qed.
Lemma join_valid : forall l, Forall (fun t => forallb valid_char t = true) l -> forallb valid_char (join_tags l) = true.
Proof.
  induction l as [|x r IH]; intros H; [reflexivity|]. inversion H as [|? ? Hx Hr]; subst.
  destruct r as [|y r']; [exact Hx|]. change (join_tags (x :: y :: r')) with (x ++ comma ++ join_tags (y :: r')).
  rewrite !forallb_app, Hx, (IH Hr). reflexivity.
Qed.

Lemma tags_text l : leaf_text (LvTags l) = join_tags l.
Proof. reflexivity. Qed.
Lemma tags_quant x r : quant_leaf (LvTags (x :: r)) = Ok (LvTags (split_tags (clean_text (join_tags (x :: r))) [])).
Proof. reflexivity. Qed.

(* Decoding what was encoded and encoding it again writes, leaf by leaf, the same text. *)
Theorem leaf_reencode l : leaf_dom l -> exists l', quant_leaf l = Ok l' /\ leaf_text l' = leaf_text l.
Proof.
  destruct l as [t|z|b|dp x|x txt|d|t|t|la lo|la lo al|d p i|dist off|li|n r|w p sr sz|tags|z|d]; cbn [leaf_dom]; intros H; try contradiction.
  - eexists. cbn [quant_leaf]. split; [reflexivity|]. cbn [leaf_text]. apply clean_text_valid. exact H.
  - eexists. split; reflexivity.
  - eexists. split; reflexivity.
  - destruct H as [H1 H2]. apply fixed_leaf_reencode; assumption.
  - eexists. split; reflexivity.
  - apply duration_leaf_reencode. exact H.
  - apply (proj1 (date_leaf_reencode t H)).
  - apply (proj2 (date_leaf_reencode t H)).
  - destruct H. apply coord_leaf_reencode; assumption.
  - destruct H as [? [? ?]]. apply altcoord_leaf_reencode; assumption.
  - eexists. split; reflexivity.
  - destruct H. apply rel_leaf_reencode; assumption.
  - apply inter_leaf_reencode. exact H.
  - apply gear_leaf_reencode. exact H.
  - destruct H as [Hne [Hws Hv]]. exists (LvTyre w p (clean_text sr) sz). cbn [quant_leaf]. rewrite Hws.
    destruct sr as [|c0 cr]; [congruence|]. cbn [orb]. split; [reflexivity|]. cbn [leaf_text]. rewrite (clean_text_valid _ Hv). reflexivity.
  - destruct tags as [|t0 tr]; [eexists; split; reflexivity|].
    eexists. split; [apply tags_quant|]. rewrite !tags_text, join_split. cbn [rev app].
    apply clean_text_valid. apply join_valid. exact H.
  - eexists. split; reflexivity.
  - apply sync_leaf_reencode. exact H.
Qed.
