From Coq Require Import String List ZArith NArith Bool Lia.
From TT Require Import Base.Outcome Gpmf.Klv Gpmf.Walk.
Import ListNotations.
Local Open Scope Z_scope.

(* ---------------------------------------------------------------- big-endian leaf codec *)
Fixpoint be_bytes (w : nat) (z : Z) : bytes :=
  match w with
  | O => []
  | S w' => Z.to_N ((z / 256 ^ Z.of_nat w') mod 256) :: be_bytes w' z
  end.

Lemma be_acc : forall bs acc, be bs acc = acc * 256 ^ Z.of_nat (length bs) + be bs 0.
Proof.
  induction bs as [|b bs IH]; intros acc; simpl length.
  - simpl. lia.
  - cbn [be]. rewrite IH. rewrite (IH (0 * 256 + Z.of_N b)).
    rewrite Nat2Z.inj_succ, Z.pow_succ_r by lia. ring.
Qed.

Lemma be_bytes_length w z : length (be_bytes w z) = w.
Proof. induction w; simpl; congruence. Qed.

Lemma be_be_bytes : forall w z, 0 <= z -> be_u (be_bytes w z) = z mod 256 ^ Z.of_nat w.
Proof.
  unfold be_u. induction w as [|w IH]; intros z Hz.
  - simpl. rewrite Z.mod_1_r. reflexivity.
  - cbn [be_bytes be]. rewrite be_acc, be_bytes_length, IH by assumption.
    rewrite Z2N.id by (apply Z.mod_pos_bound; lia).
    rewrite Nat2Z.inj_succ, Z.pow_succ_r by lia.
    set (p := 256 ^ Z.of_nat w). assert (Hp : 0 < p) by (apply Z.pow_pos_nonneg; lia).
    replace (0 * 256 + (z / p) mod 256) with ((z / p) mod 256) by lia.
    rewrite (Z.mul_comm 256 p). rewrite Z.rem_mul_r by lia. lia.
Qed.

(* the two's-complement bytes of a value of kind k *)
Definition enc_int (k : ikind) (z : Z) : bytes :=
  be_bytes (Z.to_nat (kwidth k)) (z mod 2 ^ (8 * kwidth k)).

Definition in_range (k : ikind) (z : Z) : Prop :=
  if ksigned k then - 2 ^ (8 * kwidth k - 1) <= z < 2 ^ (8 * kwidth k - 1)
  else 0 <= z < 2 ^ (8 * kwidth k).

Lemma pow256 w : 0 <= w -> 256 ^ w = 2 ^ (8 * w).
Proof. intros. replace 256 with (2 ^ 8) by reflexivity. rewrite <- Z.pow_mul_r by lia. reflexivity. Qed.

Lemma decode_enc_int k z : in_range k z -> decode_int k (enc_int k z) = z.
Proof.
  unfold decode_int, enc_int, in_range. intros Hr.
  assert (Hw : 0 < kwidth k) by (destruct k; simpl; lia).
  rewrite be_be_bytes by (apply Z.mod_pos_bound; apply Z.pow_pos_nonneg; lia).
  rewrite Z2Nat.id by lia. rewrite pow256 by lia.
  rewrite Z.mod_mod by (apply Z.pow_nonzero; lia).
  set (n := 8 * kwidth k) in *.
  assert (Hn : 2 ^ n = 2 * 2 ^ (n - 1)).
  { replace n with (Z.succ (n - 1)) at 1 by lia. rewrite Z.pow_succ_r by lia. reflexivity. }
  assert (Hp : 0 < 2 ^ (n - 1)) by (apply Z.pow_pos_nonneg; lia).
  destruct (ksigned k).
  - unfold to_signed. fold n.
    destruct (Z_lt_ge_dec z 0) as [Hneg|Hpos].
    + assert (Hm : z mod 2 ^ n = z + 2 ^ n).
      { symmetry. apply Z.mod_unique with (q := -1); lia. }
      rewrite Hm. destruct (Z.ltb_spec (z + 2 ^ n) (2 ^ (n - 1))); lia.
    + rewrite Z.mod_small by lia. destruct (Z.ltb_spec z (2 ^ (n - 1))); lia.
  - apply Z.mod_small. lia.
Qed.

(* ---------------------------------------------------------------- groups *)
Lemma firstn_app_len {A} (a b : list A) : firstn (length a) (a ++ b) = a.
Proof. induction a; simpl; congruence. Qed.
Lemma skipn_app_len {A} (a b : list A) : skipn (length a) (a ++ b) = b.
Proof. induction a; simpl; congruence. Qed.

Lemma groups_concat : forall (w : nat) (gs : list bytes),
  Forall (fun g => length g = w) gs ->
  groups w (length gs) (concat gs) = gs.
Proof.
  intros w gs H. induction H as [|g gs Hg _ IH]; simpl; [reflexivity|].
  subst w. rewrite firstn_app_len, skipn_app_len, IH. reflexivity.
Qed.

Lemma groups_length w n bs : length (groups w n bs) = n.
Proof. revert bs; induction n; simpl; intros; [reflexivity|]. rewrite IHn. reflexivity. Qed.

Lemma format_ints_values k (vs : list Z) :
  Forall (in_range k) vs ->
  format_ints k (kwidth k * Z.of_nat (length vs)) (concat (map (enc_int k) vs))
  = DInts k (Z.of_nat (length vs) =? 1) vs.
Proof.
  intros Hr. unfold format_ints.
  assert (Hw : 0 < kwidth k) by (destruct k; simpl; lia).
  rewrite Z.mul_comm, Z.div_mul by lia. rewrite Nat2Z.id.
  assert (E : groups (Z.to_nat (kwidth k)) (length vs) (concat (map (enc_int k) vs)) = map (enc_int k) vs).
  { rewrite <- (map_length (enc_int k) vs). apply groups_concat.
    rewrite Forall_forall. intros g Hg. apply in_map_iff in Hg. destruct Hg as [z [<- _]].
    unfold enc_int. apply be_bytes_length. }
  rewrite E. f_equal. rewrite map_map. rewrite <- (map_id vs) at 2. apply map_ext_in.
  intros z Hz. apply decode_enc_int. rewrite Forall_forall in Hr. auto.
Qed.

Lemma format_ints_count k total raw :
  match format_ints k total raw with
  | DInts _ _ vs => Z.of_nat (length vs) = Z.max 0 (total / kwidth k)
  | _ => False
  end.
Proof.
  unfold format_ints. rewrite map_length, groups_length. lia.
Qed.

(* ---------------------------------------------------------------- walker *)
Lemma walk_noskip_preorder : forall e, walk (fun _ => false) e = preorder e.
Proof.
  fix IH 1. intros [k t s c d m kids]. cbn [walk preorder]. f_equal.
  induction kids as [|x xs IHl]; simpl; [reflexivity|]. rewrite IH, IHl. reflexivity.
Qed.

Lemma walk_all_noskip es : walk_all (fun _ => false) es = preorder_all es.
Proof.
  unfold walk_all, preorder_all. induction es as [|e es IH]; simpl; [reflexivity|].
  rewrite walk_noskip_preorder, IH. reflexivity.
Qed.

(* the walker's answer, characterised: the element itself, then (unless it is skipped) the
   walks of its children in order - so a skipped element's whole sub-tree is pruned and
   nothing else is *)
Lemma walk_unfold skip k t s c d m kids :
  walk skip (Elem k t s c d m kids) =
  Elem k t s c d m kids :: (if skip (Elem k t s c d m kids) then [] else walk_all skip kids).
Proof. reflexivity. Qed.

(* every visited element is an element of the tree (no invention) *)
Lemma walk_sub_preorder : forall skip e x, In x (walk skip e) -> In x (preorder e).
Proof.
  intros skip. fix IH 1. intros [k t s c d m kids] x. cbn [walk preorder]. intros [H|H]; [left; exact H|].
  right. destruct (skip _); [destruct H|].
  induction kids as [|y ys IHl]; simpl in *; [exact H|].
  apply in_app_or in H. apply in_or_app. destruct H as [H|H]; [left; apply IH; exact H|right; apply IHl; exact H].
Qed.
