(* C15: the TrackAddict decoder model returns a session or an error for every text. *)
From Coq Require Import String Ascii List ZArith Bool Lia.
From TT Require Import Base.Outcome Base.Str Base.F64 Base.GoParse
     Trackaddict.Units Trackaddict.Columns Trackaddict.Csv Trackaddict.Model Proofs.NoCrash.
Import ListNotations.
Local Open Scope Z_scope.

(* ---- time.ParseDuration's loop ends within its fuel ---- *)
Lemma span_unit_len : forall l u t, span_unit l = (u, t) -> length l = (length u + length t)%nat.
Proof.
  induction l as [|c l IH]; intros u t H; simpl in H.
  - inversion H; reflexivity.
  - destruct (Ascii.eqb c "." || is_digit c).
    + inversion H; reflexivity.
    + destruct (span_unit l) as [u' t'] eqn:E. inversion H; subst. simpl. rewrite (IH u' t eq_refl). reflexivity.
Qed.

Lemma leading_int_len : forall l x v r, leading_int x l = Some (v, r) -> (length r <= length l)%nat.
Proof.
  induction l as [|c l IH]; intros x v r H; cbn [leading_int] in H.
  - inversion H; simpl; lia.
  - destruct (is_digit c).
    + destruct (_ <? x); [discriminate|].
      destruct (_ <? _); [discriminate|].
      apply IH in H. simpl. lia.
    + inversion H; subst. lia.
Qed.

Lemma leading_fraction_len : forall l x sc ovf f sc' r,
  leading_fraction x sc ovf l = (f, sc', r) -> (length r <= length l)%nat.
Proof.
  induction l as [|c l IH]; intros x sc ovf f sc' r H; cbn [leading_fraction] in H.
  - inversion H; simpl; lia.
  - destruct (is_digit c).
    + destruct ovf; [apply IH in H; simpl; lia|].
      destruct (_ <? x); [apply IH in H; simpl; lia|].
      destruct (_ <? _); apply IH in H; simpl; lia.
    + inversion H; subst. lia.
Qed.

Lemma dur_loop_nc : forall fuel l d, (length l <= fuel)%nat -> no_crash (dur_loop fuel d l).
Proof.
  induction fuel as [|fuel IH]; intros l d Hl.
  - destruct l; [exact I|simpl in Hl; lia].
  - destruct l as [|c l']; [exact I|]. cbn [dur_loop].
    set (l := c :: l') in *.
    destruct (negb (Ascii.eqb c "." || is_digit c)); [exact I|].
    destruct (leading_int 0 l) as [[v r1]|] eqn:Eli; [|exact I].
    apply leading_int_len in Eli.
    assert (Hx : exists f sc r2 post, frac_part r1 = (f, sc, r2, post) /\ (length r2 <= length r1)%nat).
    { unfold frac_part. destruct r1 as [|c1 t1]; [do 4 eexists; split; [reflexivity|lia]|].
      destruct (Ascii.eqb c1 "."%char).
      - destruct (leading_fraction 0 1 false t1) as [[f sc] r2] eqn:Ef.
        apply leading_fraction_len in Ef. do 4 eexists. split; [reflexivity|simpl; lia].
      - do 4 eexists. split; [reflexivity|lia]. }
    destruct Hx as [f [sc [r2 [post [-> Hr2]]]]].
    destruct (negb _); [exact I|].
    destruct (span_unit r2) as [u r3] eqn:Eu. apply span_unit_len in Eu.
    destruct u as [|u0 u']; [exact I|].
    destruct (unit_ns _) as [unit|]; [|exact I].
    repeat match goal with |- no_crash (if ?c then _ else _) => destruct c; try exact I end;
      apply IH; simpl in *; lia.
Qed.

Lemma parse_duration_nc s : no_crash (parse_duration s).
Proof.
  unfold parse_duration. destruct (negb _); [exact I|].
  match goal with |- no_crash (let '(_, _) := ?x in _) => destruct x as [neg r] end.
  destruct r as [|c r']; [exact I|].
  assert (H := dur_loop_nc (length (c :: r')) (c :: r') 0 (le_n _)).
  destruct (dur_loop (length (c :: r')) 0 (c :: r')) eqn:E; try contradiction.
  - destruct c as [[] [] [] [] [] [] [] []]; destruct r'; try (destruct neg; [exact I|destruct (_ <? _); exact I]); exact I.
  - destruct c as [[] [] [] [] [] [] [] []]; destruct r'; exact I.
Qed.

Lemma parse_float_nc s : no_crash (parse_float s).
Proof.
  unfold parse_float, parse_float_chars.
  repeat match goal with
         | |- no_crash (if ?c then _ else _) => destruct c
         | |- no_crash (let '(_, _) := ?x in _) => destruct x
         | |- no_crash (match ?x with _ => _ end) => destruct x
         end; exact I.
Qed.

Lemma atoi_nc s : no_crash (atoi s).
Proof.
  unfold atoi, atoi_chars.
  repeat match goal with
         | |- no_crash (if ?c then _ else _) => destruct c
         | |- no_crash (let '(_, _) := ?x in _) => destruct x
         | |- no_crash (match ?x with _ => _ end) => destruct x
         end; exact I.
Qed.

Lemma parse_bool_nc s : no_crash (parse_bool s).
Proof. unfold parse_bool. repeat match goal with |- no_crash (if ?c then _ else _) => destruct c end; exact I. Qed.

Lemma scan_d_nc l : no_crash (scan_d l).
Proof.
  unfold scan_d.
  repeat match goal with
         | |- no_crash (if ?c then _ else _) => destruct c
         | |- no_crash (let '(_, _) := ?x in _) => destruct x
         | |- no_crash (match ?x with _ => _ end) => destruct x
         end; exact I.
Qed.

Lemma scan_lit_nc c l : no_crash (scan_lit c l).
Proof. unfold scan_lit. destruct l; [exact I|]. destruct (Ascii.eqb _ _); exact I. Qed.

Lemma ta_duration_nc v : no_crash (ta_duration v).
Proof. apply parse_duration_nc. Qed.

Lemma ta_time_nc v : no_crash (ta_time v).
Proof.
  unfold ta_time. apply bind_nc; [apply scan_d_nc|]. intros [s r1] _.
  apply bind_nc; [apply scan_lit_nc|]. intros r2 _.
  apply bind_nc; [apply scan_d_nc|]. intros [ms r3] _. destruct (_ && _); exact I.
Qed.

Lemma set_col_nc c v r : no_crash (set_col c v r).
Proof.
  destruct c; cbn [set_col];
    try (apply bind_nc; [first [apply ta_duration_nc | apply ta_time_nc | apply atoi_nc
                               | apply parse_bool_nc | apply parse_float_nc]|]; intros; exact I).
Qed.

Lemma process_nc : forall cs cells r, length cells = length cs -> no_crash (process cs cells r).
Proof.
  induction cs as [|c cs IH]; intros cells r Hl; [exact I|].
  destruct cells as [|v cells]; [simpl in Hl; lia|]. cbn [process].
  apply bind_nc; [apply set_col_nc|]. intros r' _. apply IH. simpl in Hl. lia.
Qed.

Lemma csv_go_nc : forall l mode cur fields, no_crash (csv_go l mode cur fields).
Proof.
  induction l as [|c l IH]; intros mode cur fields; cbn [csv_go].
  - destruct mode; exact I.
  - destruct mode;
      repeat match goal with |- no_crash (if ?c then _ else _) => destruct c end;
      try exact I; apply IH.
Qed.

Lemma csv_record_nc line : no_crash (csv_record line).
Proof.
  unfold csv_record. destruct (drop_trailing_cr _); [exact I|]. apply omap_nc, csv_go_nc.
Qed.

Lemma columns_nc hdrs : no_crash (columns hdrs).
Proof.
  induction hdrs as [|h r IH]; cbn [columns]; [exact I|].
  destruct (col_of_header h); [|exact I]. apply bind_nc; [exact IH|]. intros; exact I.
Qed.

Lemma lap_duration_nc v : no_crash (lap_duration v).
Proof.
  unfold lap_duration.
  apply bind_nc; [apply scan_d_nc|]. intros [h r1] _.
  apply bind_nc; [apply scan_lit_nc|]. intros r2 _.
  apply bind_nc; [apply scan_d_nc|]. intros [m r3] _.
  apply bind_nc; [apply scan_lit_nc|]. intros r4 _.
  apply bind_nc; [apply scan_d_nc|]. intros [s r5] _.
  apply bind_nc; [apply scan_lit_nc|]. intros r6 _.
  apply bind_nc; [apply scan_d_nc|]. intros [ms r7] _.
  apply parse_duration_nc.
Qed.

Lemma parse_metadata_nc s line : no_crash (parse_metadata s line).
Proof.
  unfold parse_metadata.
  destruct (split_colon _ _) as [p0l rest]. destruct rest as [p1l|].
  - repeat match goal with |- no_crash (if ?c then _ else _) => destruct c end; try exact I.
    + destruct (ep_find p1l) as [[[a b] c]|]; [|exact I].
      apply bind_nc; [apply parse_float_nc|]. intros lat _.
      apply bind_nc; [apply parse_float_nc|]. intros lon _.
      apply bind_nc; [apply parse_float_nc|]. intros; exact I.
    + apply bind_nc; [apply atoi_nc|]. intros n _.
      repeat match goal with |- no_crash (if ?c then _ else _) => destruct c end; try exact I.
      apply bind_nc; [apply lap_duration_nc|]. intros; exact I.
  - destruct (_ || _); exact I.
Qed.

Lemma step_nc s line : no_crash (step s line).
Proof.
  unfold step. destruct (_ <=? _); [exact I|].
  destruct (prefix_b "# " line); [apply parse_metadata_nc|].
  apply bind_nc; [apply csv_record_nc|]. intros rec _.
  destruct (s_parsers s) as [cs|].
  - destruct (Nat.eqb_spec (length rec) (length cs)) as [E|]; cbn [negb]; [|exact I].
    apply bind_nc; [apply process_nc; exact E|]. intros; exact I.
  - apply bind_nc; [apply columns_nc|]. intros; exact I.
Qed.

Theorem decode_total text : returns (decode text).
Proof. apply no_crash_returns. unfold decode, decode_lines. apply foldM_nc. apply step_nc. Qed.

(* ---- no silent loss: every line either changes the session in its documented way or is
   the cause of the returned error; a data line is never skipped ---- *)
Lemma step_data_line s line s' :
  prefix_b "# " line = false -> step s line = Ok s' ->
  (s_parsers s = None /\ s_laps s' = s_laps s) \/
  (exists r, s' = add_record s r).
Proof.
  intros Hp. unfold step. destruct (_ <=? _); [discriminate|]. rewrite Hp.
  destruct (csv_record line) as [rec| | |]; cbn [bind]; try discriminate.
  destruct (s_parsers s) as [cs|] eqn:Es.
  - destruct (negb _); [discriminate|].
    destruct (process cs rec record0) as [r| | |]; cbn [bind]; try discriminate.
    intros H; inversion H. right. exists r. reflexivity.
  - destruct (columns rec); cbn [bind]; try discriminate. intros H; inversion H. left. split; reflexivity.
Qed.
