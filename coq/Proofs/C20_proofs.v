From Coq Require Import String Ascii List Bool.
From TT Require Import Base.Str Cli.Precedence.
Import ListNotations.
Local Open Scope string_scope.

Lemma t_get_del_same t k : t_get (t_del t k) k = None.
Proof.
  induction t as [|[k' v] r IH]; cbn [t_del t_get]; [reflexivity|].
  destruct (String.eqb_spec k k') as [->|N]; [exact IH|]. cbn [t_get].
  destruct (String.eqb_spec k k'); [contradiction|exact IH].
Qed.

Lemma t_get_del_other t k k2 : k2 <> k -> t_get (t_del t k) k2 = t_get t k2.
Proof.
  intros Hne. induction t as [|[k' v] r IH]; cbn [t_del t_get]; [reflexivity|].
  destruct (String.eqb_spec k k') as [->|N].
  - destruct (String.eqb_spec k2 k'); [contradiction|exact IH].
  - cbn [t_get]. destruct (String.eqb_spec k2 k'); [reflexivity|exact IH].
Qed.

Definition nested_del (k : string) (t : table) : table :=
  map (fun '(k', v) => match v with CTable sub => (k', CTable (t_del sub k)) | _ => (k', v) end) t.

Lemma get_nested_del_none k : forall t, t_get t k = None -> t_get (nested_del k t) k = None.
Proof.
  induction t as [|[k' v] r IH]; intros E; [reflexivity|]. cbn [nested_del map t_get] in *.
  destruct (String.eqb k k') eqn:Ek; [discriminate E|].
  destruct v; cbn [t_get]; rewrite Ek; apply IH; exact E.
Qed.

(* ---- options that are top-level keys named like their flag (every convert / gopro convert
   option, and tolerance) ---- *)
Lemma delete_key_top_same t k : cfg_lookup (delete_key t k) [k] = None.
Proof.
  unfold delete_key, cfg_lookup. destruct (t_get t k) eqn:E.
  - rewrite t_get_del_same. reflexivity.
  - fold (nested_del k t). rewrite (get_nested_del_none k t E). reflexivity.
Qed.

Lemma delete_key_top_other t k k2 : k2 <> k -> cfg_lookup (delete_key t k) [k2] = cfg_lookup t [k2].
Proof.
  intros Hne. unfold delete_key, cfg_lookup. destruct (t_get t k) eqn:E.
  - rewrite t_get_del_other by exact Hne. reflexivity.
  - assert (H : forall t, (match t_get (map (fun '(k', v) => match v with CTable sub => (k', CTable (t_del sub k)) | _ => (k', v) end) t) k2 with
                          | Some (CStr s) => Some s | _ => None end) =
                          (match t_get t k2 with Some (CStr s) => Some s | _ => None end)).
    { clear. induction t as [|[k' v] r IH]; [reflexivity|]. cbn [map t_get].
      destruct v; cbn [t_get]; destruct (String.eqb k2 k'); try reflexivity; apply IH. }
    apply H.
Qed.

Lemma load_config_top_not_given : forall g t k,
  g_get g k = None -> cfg_lookup (load_config t g) [k] = cfg_lookup t [k].
Proof.
  unfold load_config. induction g as [|[k' v] r IH]; intros t k H; cbn [fold_left]; [reflexivity|].
  cbn [g_get] in H. destruct (String.eqb k k') eqn:Ek; [discriminate|]. apply String.eqb_neq in Ek.
  rewrite IH by exact H. apply delete_key_top_other. exact Ek.
Qed.

Lemma load_config_keeps_none : forall g t k, cfg_lookup t [k] = None -> cfg_lookup (load_config t g) [k] = None.
Proof.
  unfold load_config. induction g as [|[k' v] r IH]; intros t k H; cbn [fold_left]; [exact H|].
  apply IH. destruct (String.eqb k k') eqn:Ek; [apply String.eqb_eq in Ek; subst k'; apply delete_key_top_same|].
  apply String.eqb_neq in Ek. rewrite delete_key_top_other by exact Ek. exact H.
Qed.

Lemma load_config_top_given : forall g t k v, g_get g k = Some v -> cfg_lookup (load_config t g) [k] = None.
Proof.
  unfold load_config. induction g as [|[k' v'] r IH]; intros t k v H; cbn [fold_left g_get] in *; [discriminate|].
  destruct (String.eqb k k') eqn:Ek.
  - apply String.eqb_eq in Ek; subst k'. apply (load_config_keeps_none r). apply delete_key_top_same.
  - eapply IH. exact H.
Qed.

(* flag beats config file beats default, for every option whose config key is the top-level
   key named like its (normalised) flag *)
Lemma precedence_top k section g default :
  effective (mkOpt [k] k) section g default = spec_effective (mkOpt [k] k) section g default.
Proof.
  unfold effective, spec_effective. cbn [o_flag o_path]. destruct (g_get g k) as [v|] eqn:E.
  - rewrite (load_config_top_given g section k v E). reflexivity.
  - rewrite (load_config_top_not_given g section k E). reflexivity.
Qed.
