(* C10: the imperial conversions as real-number statements, for every finite value. *)
From Coq Require Import ZArith Reals Lra Lia Bool.
From Flocq Require Import Core Relative.
From Flocq.IEEE754 Require Import BinarySingleNaN Binary Bits.
From TT Require Import Base.F64 Trackaddict.Units.
Local Open Scope R_scope.

Definition R_of (a : f64) : R := B2R 53 1024 (of_bits a).
Notation fexp64 := (FLT_exp (-1074) 53).
Notation rnd64 := (round radix2 fexp64 ZnearestE).

Lemma of_bits_bits b : Binary.is_nan 53 1024 b = false -> of_bits (bits_of_b64 b) = b.
Proof.
  intros _. unfold of_bits, bits_of_b64, b64_of_bits.
  pose proof (bits_of_binary_float_range 52 11 eq_refl eq_refl b) as Hr.
  rewrite Z.mod_small by (change (2 ^ 64)%Z with (2 ^ (52 + 11 + 1))%Z; exact Hr).
  exact (binary_float_of_bits_of_binary_float 52 11 eq_refl eq_refl eq_refl b).
Qed.

Lemma R_of_canon b : R_of (canon b) = B2R 53 1024 b.
Proof.
  unfold R_of. destruct b as [s|s|s pl Hpl|s m e He]; cbn [canon].
  - rewrite of_bits_bits by reflexivity. reflexivity.
  - rewrite of_bits_bits by reflexivity. reflexivity.
  - destruct (of_bits nan_bits) as [s'|s'|s' pl' Hpl'|s' m' e' He'] eqn:E; try reflexivity;
      exfalso; revert E; vm_compute; discriminate.
  - rewrite of_bits_bits by reflexivity. reflexivity.
Qed.

(* one multiplication: the exact product, rounded once; stated without any range condition
   other than "no overflow" (gradual underflow is the absolute term eta) *)
Lemma fmul_real a b :
  let p := R_of a * R_of b in
  Rabs (rnd64 p) < bpow radix2 1024 ->
  exists eps eta,
    Rabs eps <= u_ro radix2 53 / (1 + u_ro radix2 53) /\ Rabs eta <= / 2 * bpow radix2 (-1074) /\ eps * eta = 0 /\
    R_of (fmul a b) = p * (1 + eps) + eta.
Proof.
  intros p Hov. unfold fmul. rewrite R_of_canon. unfold b64_mult.
  pose proof (Bmult_correct 53 1024 eq_refl eq_refl binop_nan_pl64 mode_NE (of_bits a) (of_bits b)) as H.
  cbn [round_mode] in H. fold (R_of a) (R_of b) in H. fold p in H.
  change (SpecFloat.fexp 53 1024) with fexp64 in H.
  rewrite Rlt_bool_true in H by exact Hov. destruct H as [H _]. rewrite H.
  destruct (relative_error_N_FLT'_ex radix2 (-1074) 53 ltac:(lia) (fun x => negb (Z.even x)) p) as [eps [eta [H1 [H2 [H3 H4]]]]].
  exists eps, eta. repeat split; assumption.
Qed.

Definition decomp (a : f64) : option (bool * positive * Z) :=
  match of_bits a with Binary.B754_finite _ _ s m e _ => Some (s, m, e) | _ => None end.
Lemma decomp_R a s m e : decomp a = Some (s, m, e) -> R_of a = F2R (Float radix2 (cond_Zopp s (Zpos m)) e).
Proof.
  unfold decomp, R_of. destruct (of_bits a) as [?|?|? ? ?|s' m' e' He']; try discriminate.
  intros H; inversion H; subst. reflexivity.
Qed.

Definition u64 : R := bpow radix2 (-53).
Lemma u_ro_is_u64 : u_ro radix2 53 = u64.
Proof. unfold u_ro, u64. rewrite bpow_plus. change (bpow radix2 1) with 2. cbn [Z.opp]. lra. Qed.
Definition rel_ok (eps : R) : Prop := Rabs eps <= u64.
Definition abs_ok (eta : R) : Prop := Rabs eta <= bpow radix2 (-1075).

Lemma round_form p : exists eps eta, rel_ok eps /\ abs_ok eta /\ rnd64 p = p * (1 + eps) + eta.
Proof.
  destruct (relative_error_N_FLT'_ex radix2 (-1074) 53 ltac:(lia) (fun x => negb (Z.even x)) p) as [eps [eta [H1 [H2 [_ H4]]]]].
  exists eps, eta. split; [|split; [|exact H4]].
  - unfold rel_ok. rewrite <- u_ro_is_u64. eapply Rle_trans; [exact H1|]. apply u_rod1pu_ro_le_u_ro.
  - unfold abs_ok. change (-1075)%Z with (-1 + -1074)%Z. rewrite bpow_plus. change (bpow radix2 (-1)) with (/ 2). exact H2.
Qed.

Definition finite (a : f64) : Prop := f_is_finite a = true.

Lemma fmul_form a b : Rabs (rnd64 (R_of a * R_of b)) < bpow radix2 1024 ->
  exists eps eta, rel_ok eps /\ abs_ok eta /\ R_of (fmul a b) = R_of a * R_of b * (1 + eps) + eta.
Proof.
  intros Hov. unfold fmul. rewrite R_of_canon. unfold b64_mult.
  pose proof (Bmult_correct 53 1024 eq_refl eq_refl binop_nan_pl64 mode_NE (of_bits a) (of_bits b)) as H.
  cbn [round_mode] in H. fold (R_of a) (R_of b) in H. change (SpecFloat.fexp 53 1024) with fexp64 in H.
  rewrite Rlt_bool_true in H by exact Hov. destruct H as [H _]. rewrite H. apply round_form.
Qed.

Lemma fsub_form a b : finite a -> finite b -> Rabs (rnd64 (R_of a - R_of b)) < bpow radix2 1024 ->
  exists eps eta, rel_ok eps /\ abs_ok eta /\ R_of (fsub a b) = (R_of a - R_of b) * (1 + eps) + eta.
Proof.
  intros Fa Fb Hov. unfold fsub. rewrite R_of_canon. unfold b64_minus.
  pose proof (Bminus_correct 53 1024 eq_refl eq_refl binop_nan_pl64 mode_NE (of_bits a) (of_bits b) Fa Fb) as H.
  cbn [round_mode] in H. fold (R_of a) (R_of b) in H. change (SpecFloat.fexp 53 1024) with fexp64 in H.
  rewrite Rlt_bool_true in H by exact Hov. destruct H as [H _]. rewrite H. apply round_form.
Qed.

Lemma fdiv_form a b : R_of b <> 0 -> Rabs (rnd64 (R_of a / R_of b)) < bpow radix2 1024 ->
  exists eps eta, rel_ok eps /\ abs_ok eta /\ R_of (fdiv a b) = R_of a / R_of b * (1 + eps) + eta.
Proof.
  intros Hb Hov. unfold fdiv. rewrite R_of_canon. unfold b64_div.
  pose proof (Bdiv_correct 53 1024 eq_refl eq_refl binop_nan_pl64 mode_NE (of_bits a) (of_bits b) Hb) as H.
  cbn [round_mode] in H. fold (R_of a) (R_of b) in H. change (SpecFloat.fexp 53 1024) with fexp64 in H.
  rewrite Rlt_bool_true in H by exact Hov. destruct H as [H _]. rewrite H. apply round_form.
Qed.

(* ---- the constants ---- *)
Lemma bpow_neg_num e : bpow radix2 (Z.neg e) = / IZR (2 ^ Z.pos e).
Proof. change (Z.neg e) with (- Z.pos e)%Z. rewrite bpow_opp, <- (IZR_Zpower radix2) by lia. reflexivity. Qed.

Definition K_ft2m : R := R_of c_ft2m.
Definition K_m2km : R := R_of c_m2km.
Definition K_psi2kpa : R := R_of c_psi2kpa.

Ltac const_bound m e pw :=
  match goal with |- Rabs (?K - _) <= _ =>
    unfold K, u64; rewrite (decomp_R _ false m e) by (vm_compute; reflexivity);
    unfold F2R; cbn [Fnum Fexp cond_Zopp]; rewrite !bpow_neg_num;
    change (2 ^ 53)%Z with 9007199254740992%Z; change (2 ^ Z.pos pw)%Z with (Z.pow_pos 2 pw);
    let v := eval vm_compute in (Z.pow_pos 2 pw) in change (Z.pow_pos 2 pw) with v;
    apply Rabs_le; lra
  end.

(* each float64 constant is the decimal constant of units.go within half an ulp *)
Lemma K_ft2m_close : Rabs (K_ft2m - 3048 / 10000) <= u64 * (3048 / 10000).
Proof. const_bound 5490788665690109%positive (-54)%Z 54%positive. Qed.
Lemma K_m2km_close : Rabs (K_m2km - 160934 / 100000) <= u64 * (160934 / 100000).
Proof. const_bound 7247823024312434%positive (-52)%Z 52%positive. Qed.
Lemma K_psi2kpa_close : Rabs (K_psi2kpa - 689476 / 100000) <= u64 * (689476 / 100000).
Proof. const_bound 7762809641702250%positive (-50)%Z 50%positive. Qed.

(* pure real arithmetic: two relative errors of at most u and an absolute one of at most t *)
Lemma bound_mul x K k eps eta u t :
  0 <= u <= 1 -> 0 <= k -> Rabs (K - k) <= u * k -> Rabs eps <= u -> Rabs eta <= t ->
  Rabs (x * K * (1 + eps) + eta - x * k) <= 3 * u * (Rabs x * k) + t.
Proof.
  intros Hu Hk Hd He Ht.
  replace (x * K * (1 + eps) + eta - x * k) with (x * (K - k) * (1 + eps) + x * k * eps + eta) by ring.
  eapply Rle_trans; [apply Rabs_triang|]. apply Rplus_le_compat; [|exact Ht].
  eapply Rle_trans; [apply Rabs_triang|].
  rewrite !Rabs_mult. rewrite (Rabs_pos_eq k) by lra.
  assert (HF : Rabs (1 + eps) <= 1 + u).
  { eapply Rle_trans; [apply Rabs_triang|]. rewrite Rabs_R1. lra. }
  pose proof (Rabs_pos x) as HX. pose proof (Rabs_pos (K - k)) as HD. pose proof (Rabs_pos eps) as HE. pose proof (Rabs_pos (1 + eps)) as HF0.
  set (X := Rabs x) in *. set (D := Rabs (K - k)) in *. set (E := Rabs eps) in *. set (F := Rabs (1 + eps)) in *.
  assert (H1 : X * D * F <= X * (u * k) * (1 + u)).
  { apply Rmult_le_compat; try assumption; [apply Rmult_le_pos; assumption|]. apply Rmult_le_compat_l; assumption. }
  assert (H2 : X * k * E <= X * k * u).
  { apply Rmult_le_compat_l; [apply Rmult_le_pos; assumption|assumption]. }
  assert (H3 : 0 <= X * k) by (apply Rmult_le_pos; assumption).
  set (P := X * k) in *. set (Q := u * P).
  assert (HQ : 0 <= Q) by (apply Rmult_le_pos; lra).
  assert (H4 : u * Q <= Q) by (rewrite <- (Rmult_1_l Q) at 2; apply Rmult_le_compat_r; lra).
  replace (X * (u * k) * (1 + u)) with (Q + u * Q) in H1 by (unfold Q, P; ring).
  replace (P * u) with Q in H2 by (unfold Q; ring).
  replace (3 * u * P) with (3 * Q) by (unfold Q; ring).
  lra.
Qed.

Lemma u64_range : 0 <= u64 <= 1.
Proof. unfold u64. split; [apply bpow_ge_0|]. change 1 with (bpow radix2 0). apply bpow_le. lia. Qed.

Definition const_of (c : conv) : option (f64 * R) :=
  match c with
  | Ft2M => Some (c_ft2m, 3048 / 10000)
  | Mi2Km => Some (c_m2km, 160934 / 100000)
  | Psi2Kpa => Some (c_psi2kpa, 689476 / 100000)
  | F2C => None
  end.

(* The three multiplicative conversions, for EVERY float64 value v whose product does not
   overflow: the stored number is v times the decimal constant of units.go, up to three half-ulp
   relative errors (constant, product) and the gradual-underflow quantum. *)
Theorem mul_conv_real c kf k v :
  const_of c = Some (kf, k) ->
  Rabs (rnd64 (R_of v * R_of kf)) < bpow radix2 1024 ->
  R_of (apply_conv c v) = rnd64 (R_of v * R_of kf) /\
  Rabs (R_of (apply_conv c v) - R_of v * k) <= 3 * u64 * (Rabs (R_of v) * k) + bpow radix2 (-1075).
Proof.
  intros Hc Hov.
  assert (Hk : 0 <= k /\ Rabs (R_of kf - k) <= u64 * k /\ apply_conv c v = fmul v kf).
  { destruct c; inversion Hc; subst; (split; [lra|split; [|reflexivity]]).
    - apply K_ft2m_close. - apply K_m2km_close. - apply K_psi2kpa_close. }
  destruct Hk as [Hk0 [Hk1 Hk2]]. rewrite Hk2. split.
  - unfold fmul. rewrite R_of_canon. unfold b64_mult.
    pose proof (Bmult_correct 53 1024 eq_refl eq_refl binop_nan_pl64 mode_NE (of_bits v) (of_bits kf)) as H.
    cbn [round_mode] in H. fold (R_of v) (R_of kf) in H. change (SpecFloat.fexp 53 1024) with fexp64 in H.
    rewrite Rlt_bool_true in H by exact Hov. destruct H as [H _]. exact H.
  - destruct (fmul_form v kf Hov) as [eps [eta [He [Ht E]]]]. rewrite E.
    apply bound_mul; try assumption. apply u64_range.
Qed.

(* Fahrenheit -> Celsius: (v - 32) * 5 / 9 evaluated left to right, each operation correctly rounded *)
Lemma R_of_small_int z m e : decomp (f_of_Z z) = Some (false, m, e) -> F2R (Float radix2 (Zpos m) e) = IZR z -> R_of (f_of_Z z) = IZR z.
Proof. intros H1 H2. rewrite (decomp_R _ _ _ _ H1). exact H2. Qed.

Lemma R32 : R_of (f_of_Z 32) = 32.
Proof. rewrite (decomp_R _ false 4503599627370496%positive (-47)%Z) by (vm_compute; reflexivity).
  unfold F2R; cbn [Fnum Fexp cond_Zopp]. rewrite bpow_neg_num. change (2 ^ 47)%Z with 140737488355328%Z. lra. Qed.
Lemma R5 : R_of (f_of_Z 5) = 5.
Proof. rewrite (decomp_R _ false 5629499534213120%positive (-50)%Z) by (vm_compute; reflexivity).
  unfold F2R; cbn [Fnum Fexp cond_Zopp]. rewrite bpow_neg_num. change (2 ^ 50)%Z with 1125899906842624%Z. lra. Qed.
Lemma R9 : R_of (f_of_Z 9) = 9.
Proof. rewrite (decomp_R _ false 5066549580791808%positive (-49)%Z) by (vm_compute; reflexivity).
  unfold F2R; cbn [Fnum Fexp cond_Zopp]. rewrite bpow_neg_num. change (2 ^ 49)%Z with 562949953421312%Z. lra. Qed.

Theorem f2c_real v :
  finite v ->
  Rabs (rnd64 (R_of v - 32)) < bpow radix2 1024 ->
  Rabs (rnd64 (R_of (fsub v (f_of_Z 32)) * 5)) < bpow radix2 1024 ->
  exists e1 e2 e3 t1 t2 t3, rel_ok e1 /\ rel_ok e2 /\ rel_ok e3 /\ abs_ok t1 /\ abs_ok t2 /\ abs_ok t3 /\
    R_of (apply_conv F2C v) = (((R_of v - 32) * (1 + e1) + t1) * 5 * (1 + e2) + t2) / 9 * (1 + e3) + t3.
Proof.
  intros Fv H1 H2. cbn [apply_conv].
  assert (F32 : finite (f_of_Z 32)) by (vm_compute; reflexivity).
  destruct (fsub_form v (f_of_Z 32) Fv F32 ltac:(rewrite R32; exact H1)) as [e1 [t1 [A1 [B1 E1]]]].
  destruct (fmul_form (fsub v (f_of_Z 32)) (f_of_Z 5) ltac:(rewrite R5; exact H2)) as [e2 [t2 [A2 [B2 E2]]]].
  assert (N9 : R_of (f_of_Z 9) <> 0) by (rewrite R9; lra).
  assert (H3 : Rabs (rnd64 (R_of (fmul (fsub v (f_of_Z 32)) (f_of_Z 5)) / R_of (f_of_Z 9))) < bpow radix2 1024).
  { (* dividing a finite float by 9 cannot overflow *)
    rewrite R9. set (y := R_of (fmul (fsub v (f_of_Z 32)) (f_of_Z 5))).
    rewrite <- round_NE_abs by (apply FLT_exp_valid; reflexivity).
    assert (Hy : Rabs y < bpow radix2 1024) by (unfold y, R_of; apply abs_B2R_lt_emax).
    assert (Hg : generic_format radix2 fexp64 (Rabs y)).
    { apply generic_format_abs. unfold y, R_of. exact (generic_format_B2R 53 1024 _). }
    eapply Rle_lt_trans; [|exact Hy].
    rewrite <- (round_generic radix2 fexp64 ZnearestE (Rabs y) Hg).
    apply round_le; [apply FLT_exp_valid; reflexivity|apply valid_rnd_N|].
    unfold Rdiv. rewrite Rabs_mult. rewrite (Rabs_pos_eq (/ 9)) by lra.
    pose proof (Rabs_pos y). lra. }
  destruct (fdiv_form _ (f_of_Z 9) N9 H3) as [e3 [t3 [A3 [B3 E3]]]].
  exists e1, e2, e3, t1, t2, t3. repeat split; try assumption.
  rewrite E3, E2, E1, R32, R5, R9. reflexivity.
Qed.

(* the no-overflow side condition holds for every value of magnitude up to 2^1000 *)
Lemma no_overflow_small p : Rabs p <= bpow radix2 1003 -> Rabs (rnd64 p) < bpow radix2 1024.
Proof.
  intros H. rewrite <- round_NE_abs by (apply FLT_exp_valid; reflexivity).
  apply Rle_lt_trans with (bpow radix2 1003); [|apply bpow_lt; lia].
  assert (Hg : generic_format radix2 fexp64 (bpow radix2 1003)) by (apply generic_format_bpow; unfold FLT_exp; lia).
  rewrite <- (round_generic radix2 fexp64 ZnearestE (bpow radix2 1003) Hg).
  apply round_le; [apply FLT_exp_valid; reflexivity|apply valid_rnd_N|exact H].
Qed.

Theorem mul_conv_real_bounded c kf k v :
  const_of c = Some (kf, k) -> Rabs (R_of v) <= bpow radix2 1000 ->
  Rabs (R_of (apply_conv c v) - R_of v * k) <= 3 * u64 * (Rabs (R_of v) * k) + bpow radix2 (-1075).
Proof.
  intros Hc Hv. apply (mul_conv_real c kf k v Hc).
  apply no_overflow_small. rewrite Rabs_mult.
  assert (HK : Rabs (R_of kf) <= 8).
  { assert (Hk : 0 <= k <= 7 /\ Rabs (R_of kf - k) <= u64 * k).
    { destruct c; inversion Hc; subst; (split; [lra|]).
      - apply K_ft2m_close. - apply K_m2km_close. - apply K_psi2kpa_close. }
    destruct Hk as [Hk1 Hk2]. pose proof u64_range as Hu.
    replace (R_of kf) with ((R_of kf - k) + k) by ring.
    eapply Rle_trans; [apply Rabs_triang|]. rewrite (Rabs_pos_eq k) by lra.
    assert (Hu8 : u64 <= / 8) by (unfold u64; change (/ 8) with (bpow radix2 (-3)); apply bpow_le; lia).
    assert (u64 * k <= / 8 * k) by (apply Rmult_le_compat_r; lra). lra. }
  change 1003%Z with (1000 + 3)%Z. rewrite bpow_plus. change (bpow radix2 3) with 8.
  apply Rmult_le_compat; try apply Rabs_pos; assumption.
Qed.
