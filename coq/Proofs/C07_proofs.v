From Coq Require Import String Ascii List ZArith NArith Bool Lia.
From TT Require Import Base.Outcome Base.F64 Gpmf.Klv.
Import ListNotations.
Local Open Scope Z_scope.

(* ---- scale(): value i becomes raw[i] / scale[i mod n] ---- *)
Lemma scale_from_spec : forall vs i sc, sc <> [] ->
  exists r, scale_from i vs sc = Ok r /\ length r = length vs /\
            forall j, (j < length vs)%nat ->
              nth j r 0 = fdiv (nth j vs 0) (nth (Nat.modulo (i + j) (length sc)) sc 0).
Proof.
  induction vs as [|v vs IH]; intros i sc Hsc.
  - exists []. simpl. repeat split; auto. intros j Hj. lia.
  - destruct (IH (S i) sc Hsc) as [r [Hr [Hl Hn]]].
    exists (fdiv v (nth (Nat.modulo i (length sc)) sc 0) :: r).
    cbn [scale_from]. destruct sc as [|s0 sc']; [congruence|]. rewrite Hr. cbn [bind].
    repeat split; [simpl; lia|]. intros j Hj. destruct j as [|j].
    + cbn [nth]. rewrite Nat.add_0_r. reflexivity.
    + cbn [nth]. rewrite Hn by (simpl in Hj; lia). replace (S i + j)%nat with (i + S j)%nat by lia. reflexivity.
Qed.

Lemma apply_scale_spec vs sc : sc <> [] ->
  exists r, apply_scale vs sc = Ok r /\ length r = length vs /\
            forall j, (j < length vs)%nat ->
              nth j r 0 = fdiv (nth j vs 0) (nth (Nat.modulo j (length sc)) sc 0).
Proof. intros H. destruct (scale_from_spec vs 0 sc H) as [r [H1 [H2 H3]]]. exists r. repeat split; auto. Qed.

(* ---- floatType: sample k, field f = value width*k + f; sample count = values / width ---- *)
Lemma rows_of_length w n vs : length (rows_of w n vs) = n.
Proof. revert vs; induction n; simpl; intros; [reflexivity|]. rewrite IHn; reflexivity. Qed.

Lemma nth_firstn {A} (l : list A) n i d : (i < n)%nat -> nth i (firstn n l) d = nth i l d.
Proof.
  revert l i. induction n; intros l i Hi; [lia|]. destruct l; [destruct i; reflexivity|].
  destruct i; simpl; [reflexivity|]. apply IHn. lia.
Qed.
Lemma nth_skipn {A} (l : list A) n i d : nth i (skipn n l) d = nth (n + i) l d.
Proof.
  revert l. induction n; intros l; [reflexivity|]. destruct l; simpl; [destruct i; reflexivity|]. apply IHn.
Qed.

Lemma rows_of_nth w : forall n vs k f, (k < n)%nat -> (f < w)%nat ->
  nth f (nth k (rows_of w n vs) []) 0 = nth (w * k + f) vs 0.
Proof.
  induction n as [|n IH]; intros vs k f Hk Hf; [lia|].
  destruct k as [|k]; cbn [rows_of nth].
  - rewrite nth_firstn by exact Hf. f_equal. lia.
  - rewrite IH by lia. rewrite nth_skipn. f_equal. lia.
Qed.

Lemma float_type_layout w d vs : (0 < w)%nat -> float_slice d = Ok vs ->
  Nat.modulo (length vs) w = O ->
  exists rows, float_type w d = Ok rows /\ length rows = Nat.div (length vs) w /\
    forall k f, (k < length rows)%nat -> (f < w)%nat -> nth f (nth k rows []) 0 = nth (w * k + f) vs 0.
Proof.
  intros Hw Hs Hm. unfold float_type. rewrite Hs. cbn [bind]. rewrite Hm. cbn [Nat.eqb].
  eexists; split; [reflexivity|]. split; [apply rows_of_length|].
  intros k f Hk Hf. rewrite rows_of_length in Hk. apply rows_of_nth; assumption.
Qed.

Lemma float_type_rejects w d vs : float_slice d = Ok vs -> Nat.modulo (length vs) w <> O ->
  float_type w d = Err "not-multiple".
Proof.
  intros Hs Hm. unfold float_type. rewrite Hs. cbn [bind].
  destruct (Nat.eqb_spec (Nat.modulo (length vs) w) 0); [contradiction|reflexivity].
Qed.

(* Z, X, Y on the wire; X, Y, Z in the sample *)
Lemma zxy_fields z x y : zxy [z; x; y] = [x; y; z].
Proof. reflexivity. Qed.

(* ---- a pending scale is consumed by the very next element, whatever it is ---- *)
Lemma format_elem_consumes_scale key typ size count raw own parent anc sc d m p' :
  l_scale parent = Some sc -> key_is key "SCAL" = false ->
  format_elem key typ size count raw own parent anc = Ok (d, m, p') ->
  l_scale p' = None.
Proof.
  intros Hsc Hk. unfold format_elem.
  destruct (format_basic key typ size count raw) as [d0| | |]; cbn [bind]; try discriminate.
  rewrite Hsc.
  destruct (float_slice d0) as [vs| | |]; cbn [bind]; try discriminate.
  destruct (apply_scale vs sc) as [r| | |]; cbn [bind]; try discriminate.
  rewrite Hk. cbn [l_scale l_meta].
  repeat match goal with
         | |- (if ?c then _ else _) = _ -> _ => destruct c
         end; intros H;
  repeat match type of H with
         | bind ?x _ = _ => destruct x; cbn [bind] in H; try discriminate
         | match ?x with _ => _ end = _ => destruct x; try discriminate
         end; inversion H; reflexivity.
Qed.

(* ---- with nothing pending, a parser-less key keeps the basic (unscaled) data and leaves
   the parent untouched ---- *)
Definition plain_key (key : bytes) : bool :=
  negb (is_meta_key key) &&
  negb (existsb (key_is key) ["SCAL"; "GPS5"; "ACCL"; "GYRO"; "MAGN"; "WRGB"; "GPSP"; "GPSF"; "FACE"; "FCNM"; "ISOE"]%string).

Lemma format_elem_plain key typ size count raw own parent anc :
  l_scale parent = None -> plain_key key = true ->
  format_elem key typ size count raw own parent anc =
  bind (format_basic key typ size count raw) (fun d => Ok (d, own, parent)).
Proof.
  intros Hsc Hp. unfold format_elem, plain_key in *.
  destruct (format_basic key typ size count raw) as [d0| | |]; cbn [bind]; try reflexivity.
  rewrite Hsc. cbn [bind].
  apply andb_true_iff in Hp. destruct Hp as [Hm Hs]. apply negb_true_iff in Hm, Hs.
  rewrite Hm. cbn [existsb] in Hs.
  repeat (apply orb_false_iff in Hs; destruct Hs as [?H Hs]).
  repeat match goal with H : key_is key _ = false |- _ => rewrite H; clear H end.
  reflexivity.
Qed.
