From Coq Require Import Reals Lra.
From TT Require Import Proofs.Geo_proofs.
Local Open Scope R_scope.

Lemma hav_cos x : hav x = (1 - cos x) / 2.
Proof.
  unfold hav. replace x with (2 * (x / 2)) at 2 by field. rewrite cos_2a_sin. simpl. field.
Qed.

(* unit vector of a position *)
Definition vx (lat lon : R) := cos lat * cos lon.
Definition vy (lat lon : R) := cos lat * sin lon.
Definition vz (lat lon : R) := sin lat.
Definition dot (la1 lo1 la2 lo2 : R) := vx la1 lo1 * vx la2 lo2 + vy la1 lo1 * vy la2 lo2 + vz la1 lo1 * vz la2 lo2.

(* the haversine argument is hav of the central angle: (1 - v1.v2)/2 *)
Lemma distance_hav_is_chord la1 lo1 la2 lo2 : distance_hav la1 lo1 la2 lo2 = (1 - dot la1 lo1 la2 lo2) / 2.
Proof.
  unfold distance_hav, dot, vx, vy, vz. rewrite !hav_cos.
  replace (cos lo1 * cos lo2) with (cos lo1 * cos lo2) by reflexivity.
  rewrite !cos_minus. field.
Qed.

(* The default method returns radius times the central angle between the two positions (the
   great-circle distance): for the angle theta in [0, pi] whose cosine is the dot product of the
   two unit vectors. *)
Theorem haversine_is_great_circle la1 lo1 la2 lo2 r theta :
  0 <= theta <= PI -> cos theta = dot la1 lo1 la2 lo2 ->
  distance_haversin la1 lo1 la2 lo2 r = theta * r.
Proof.
  intros Ht Hc. unfold distance_haversin, inv_hav. rewrite distance_hav_is_chord, <- Hc, <- hav_cos.
  unfold hav. replace (sin (theta / 2) ^ 2) with (Rsqr (sin (theta / 2))) by (unfold Rsqr; ring).
  assert (Hs : 0 <= sin (theta / 2)) by (apply sin_ge_0; lra).
  rewrite sqrt_Rsqr by exact Hs. rewrite asin_sin by (pose proof PI_RGT_0; lra). field.
Qed.

(* ... so it is zero only for identical positions (unit vectors equal) *)
Corollary haversine_zero_only_same la1 lo1 la2 lo2 r theta :
  0 <= theta <= PI -> cos theta = dot la1 lo1 la2 lo2 -> r <> 0 ->
  distance_haversin la1 lo1 la2 lo2 r = 0 -> dot la1 lo1 la2 lo2 = 1.
Proof.
  intros Ht Hc Hr H0. rewrite (haversine_is_great_circle _ _ _ _ _ theta Ht Hc) in H0.
  apply Rmult_integral in H0. destruct H0 as [H0|H0]; [|contradiction]. rewrite <- Hc, H0. apply cos_0.
Qed.
