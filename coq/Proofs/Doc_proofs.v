(* The whole document: the strict reader applied to what the encoder writes for a tree gives the
   tree back (with the characters XML cannot carry replaced, as for text). *)
From Coq Require Import String Ascii List ZArith NArith Bool Lia.
From TT Require Import Base.Outcome Base.Str Xml.Print Xml.Lex Proofs.Xml_proofs.
Import ListNotations.
Local Open Scope Z_scope.

(* ---------------------------------------------------------------- the line filter *)
Lemma starts_length : forall p t r, starts p t = Some r -> length t = (length p + length r)%nat.
Proof.
  induction p as [|a p IH]; intros t r H; cbn [starts] in H.
  - inversion H; subst. reflexivity.
  - destruct t as [|b t]; [discriminate|]. destruct (a =? b); [|discriminate]. cbn [length]. rewrite (IH _ _ H). reflexivity.
Qed.

Lemma line_filter_fuel : forall n t f1 f2, (length t <= n)%nat -> (length t < f1)%nat -> (length t < f2)%nat ->
  line_filter f1 t = line_filter f2 t.
Proof.
  induction n as [|n IH]; intros t f1 f2 Hn H1 H2.
  - destruct t; [|cbn in Hn; lia]. destruct f1, f2; reflexivity.
  - destruct f1 as [|f1]; [lia|]. destruct f2 as [|f2]; [lia|]. cbn [line_filter].
    destruct t as [|c r]; [reflexivity|].
    assert (G : forall p r', p <> [] -> starts p (c :: r) = Some r' -> line_filter f1 r' = line_filter f2 r').
    { intros p r' Hp Hs. apply starts_length in Hs. destruct p; [congruence|]. cbn [length] in *. apply IH; lia. }
    destruct (starts (ent "&#34;") (c :: r)) as [r1|] eqn:E1; [rewrite (G (ent "&#34;") _ ltac:(rewrite ent_quot; discriminate) E1); reflexivity|].
    destruct (starts (ent "&#39;") (c :: r)) as [r2|] eqn:E2; [rewrite (G (ent "&#39;") _ ltac:(rewrite ent_apos; discriminate) E2); reflexivity|].
    destruct (starts (ent "&#xA;") (c :: r)) as [r3|] eqn:E3; [rewrite (G (ent "&#xA;") _ ltac:(rewrite ent_lf; discriminate) E3); reflexivity|].
    destruct (starts (ent "&#x9;") (c :: r)) as [r4|] eqn:E4; [rewrite (G (ent "&#x9;") _ ltac:(rewrite ent_tab; discriminate) E4); reflexivity|].
    f_equal. cbn [length] in *. apply IH; lia.
Qed.

Lemma filter_text_fuel t f : (length t < f)%nat -> line_filter f t = filter_text t.
Proof. intros H. unfold filter_text. apply (line_filter_fuel (length t)); lia. Qed.

(* a piece without ampersands passes unchanged *)
Lemma filter_plain_app : forall p r, ~ In 38 p -> filter_text (p ++ r) = p ++ filter_text r.
Proof.
  induction p as [|c p IH]; intros r Hn; [reflexivity|].
  unfold filter_text at 1. cbn [app length]. rewrite line_filter_cons_plain by (intros E; apply Hn; left; congruence).
  rewrite filter_text_fuel by lia. rewrite IH by (intros H; apply Hn; right; exact H). reflexivity.
Qed.

(* an escaped text followed by anything: character by character *)
Ltac lf_head :=
  unfold filter_text at 1; cbn [line_filter app]; rewrite ent_quot, ent_apos, ent_lf, ent_tab;
  cbn [starts Z.eqb Pos.eqb]; rewrite filter_text_fuel by (cbn [length app]; rewrite ?app_length; cbn [length]; lia).

Lemma filter_escape_app : forall s r, filter_text (escape_text s ++ r) = flat_map out_cp s ++ filter_text r.
Proof.
  induction s as [|c s IH]; intros r; [reflexivity|].
  cbn [escape_text flat_map]. fold (escape_text s). rewrite <- !app_assoc.
  assert (Hstep : forall p q, (forall rest, filter_text (p ++ rest) = q ++ filter_text rest) ->
                  filter_text (p ++ escape_text s ++ r) = q ++ flat_map out_cp s ++ filter_text r).
  { intros p q H. rewrite H, IH. reflexivity. }
  unfold escape_cp, out_cp.
  destruct (Z.eqb_spec c 34) as [->|N34].
  { apply Hstep. intros rest. change (ent "&#34;") with [38; 35; 51; 52; 59]. lf_head. reflexivity. }
  destruct (Z.eqb_spec c 39) as [->|N39].
  { apply Hstep. intros rest. change (ent "&#39;") with [38; 35; 51; 57; 59]. lf_head. reflexivity. }
  destruct (Z.eqb_spec c 38) as [->|N38].
  { apply Hstep. intros rest. change (ent "&amp;") with [38; 97; 109; 112; 59]. lf_head.
    change (97 :: 109 :: 112 :: 59 :: rest) with ([97; 109; 112; 59] ++ rest). rewrite filter_plain_app; [reflexivity|].
    cbn. intros H. repeat (destruct H as [H|H]; [discriminate H|]). exact H. }
  destruct (Z.eqb_spec c 60) as [->|N60].
  { apply Hstep. intros rest. change (ent "&lt;") with [38; 108; 116; 59]. lf_head.
    change (108 :: 116 :: 59 :: rest) with ([108; 116; 59] ++ rest). rewrite filter_plain_app; [reflexivity|].
    cbn. intros H. repeat (destruct H as [H|H]; [discriminate H|]). exact H. }
  destruct (Z.eqb_spec c 62) as [->|N62].
  { apply Hstep. intros rest. change (ent "&gt;") with [38; 103; 116; 59]. lf_head.
    change (103 :: 116 :: 59 :: rest) with ([103; 116; 59] ++ rest). rewrite filter_plain_app; [reflexivity|].
    cbn. intros H. repeat (destruct H as [H|H]; [discriminate H|]). exact H. }
  destruct (Z.eqb_spec c 9) as [->|N9].
  { apply Hstep. intros rest. change (ent "&#x9;") with [38; 35; 120; 57; 59]. lf_head. reflexivity. }
  destruct (Z.eqb_spec c 10) as [->|N10].
  { apply Hstep. intros rest. change (ent "&#xA;") with [38; 35; 120; 65; 59]. lf_head. reflexivity. }
  destruct (Z.eqb_spec c 13) as [->|N13].
  { apply Hstep. intros rest. change (ent "&#xD;") with [38; 35; 120; 68; 59]. lf_head.
    change (35 :: 120 :: 68 :: 59 :: rest) with ([35; 120; 68; 59] ++ rest). rewrite filter_plain_app; [reflexivity|].
    cbn. intros H. repeat (destruct H as [H|H]; [discriminate H|]). exact H. }
  destruct (valid_char c).
  - apply Hstep. intros rest. apply filter_plain_app. intros [E|[]]. congruence.
  - apply Hstep. intros rest. apply filter_plain_app. intros [E|[]]. discriminate.
Qed.

(* ---------------------------------------------------------------- what is in the file *)
Definition attrs_text (a : list (string * string)) : text :=
  flat_map (fun '(k, v) => [32] ++ cps_of_string k ++ [61; 34] ++ cps_of_string v ++ [34]) a.
Definition has_elem (kids : list tree) : bool := existsb (fun k => match k with TElem _ _ _ => true | _ => false end) kids.

(* print_tree after the line filter: text in its file form, tags unchanged *)
Fixpoint file_tree (depth : nat) (first : bool) (t : tree) : text :=
  match t with
  | TText s => flat_map out_cp s
  | TElem name attrs kids =>
    ((if first then [] else [10]) ++ tabs depth ++ [60] ++ cps_of_string name ++ attrs_text attrs ++ [62])
    ++ flat_map (file_tree (S depth) false) kids
    ++ (if has_elem kids then [10] ++ tabs depth else []) ++ [60; 47] ++ cps_of_string name ++ [62]
  end.

Definition name_ok (n : string) : Prop := cps_of_string n <> [] /\ forallb name_char (cps_of_string n) = true.
Definition value_ok (v : string) : Prop :=
  forallb (fun c => negb ((c =? 34) || (c =? 60) || (c =? 38))) (cps_of_string v) = true.
Definition attrs_ok (a : list (string * string)) : Prop := Forall (fun kv => name_ok (fst kv) /\ value_ok (snd kv)) a.

Fixpoint tags_ok (t : tree) : Prop :=
  match t with
  | TText _ => True
  | TElem n a kids => name_ok n /\ attrs_ok a /\
      (fix all (l : list tree) : Prop := match l with [] => True | x :: r => tags_ok x /\ all r end) kids
  end.
Fixpoint forest_ok (l : list tree) : Prop := match l with [] => True | x :: r => tags_ok x /\ forest_ok r end.
Lemma tags_ok_kids n a kids : tags_ok (TElem n a kids) -> forest_ok kids.
Proof. cbn [tags_ok]. intros [_ [_ H]]. induction kids as [|x r IH]; [exact I|]. destruct H as [H1 H2]. split; [exact H1|apply IH; exact H2]. Qed.

Lemma name_no_amp n : name_ok n -> ~ In 38 (cps_of_string n).
Proof.
  intros [_ H] Hin. rewrite forallb_forall in H. specialize (H _ Hin). discriminate H.
Qed.
Lemma tabs_no_amp d : ~ In 38 (tabs d).
Proof. unfold tabs. intros H. apply repeat_spec in H. discriminate. Qed.
Lemma attrs_no_amp a : attrs_ok a -> ~ In 38 (attrs_text a).
Proof.
  induction a as [|[k v] t IH]; intros H Hin; [exact Hin|]. inversion H as [|? ? [H1 H2] Ht]; subst. cbn [fst snd] in *.
  unfold attrs_text in Hin. cbn [flat_map] in Hin. fold (attrs_text t) in Hin.
  rewrite !in_app_iff in Hin. cbn [In] in Hin.
  destruct Hin as [[[E|[]]|[Hk|[[E|[E|[]]]|[Hv|[E|[]]]]]]|Ht']; try discriminate.
  - exact (name_no_amp _ H1 Hk).
  - unfold value_ok in H2. rewrite forallb_forall in H2. specialize (H2 _ Hv). cbn in H2. discriminate.
  - exact (IH Ht Ht').
Qed.

Lemma filter_print : forall t d f r, tags_ok t ->
  filter_text (print_tree d f t ++ r) = file_tree d f t ++ filter_text r.
Proof.
  fix IH 1. intros [n a kids|s] d f r H.
  - cbn [print_tree file_tree]. fold (attrs_text a). fold (has_elem kids).
    destruct H as [Hn [Ha Hk]].
    assert (Hkids : forall r', filter_text (flat_map (print_tree (S d) false) kids ++ r') =
                               flat_map (file_tree (S d) false) kids ++ filter_text r').
    { clear -IH Hk. induction kids as [|x t IHk]; intros r'; [reflexivity|]. destruct Hk as [Hx Ht].
      cbn [flat_map]. rewrite <- !app_assoc. rewrite IH by exact Hx. rewrite IHk by exact Ht. reflexivity. }
    match goal with |- filter_text ((?o ++ ?b ++ ?c) ++ r) = _ => set (open := o); set (close := c) end.
    assert (P1 : ~ In 38 open).
    { unfold open. rewrite !in_app_iff. intros [Hx|[Hx|[Hx|[Hx|[Hx|Hx]]]]].
      - destruct f; cbn in Hx; [exact Hx|]. destruct Hx as [E|[]]. discriminate.
      - exact (tabs_no_amp _ Hx). - destruct Hx as [E|[]]. discriminate.
      - exact (name_no_amp _ Hn Hx). - exact (attrs_no_amp _ Ha Hx). - destruct Hx as [E|[]]. discriminate. }
    assert (P2 : ~ In 38 close).
    { unfold close. rewrite !in_app_iff. intros [Hx|[Hx|[Hx|Hx]]].
      - destruct (has_elem kids); [|exact Hx]. apply in_app_or in Hx. destruct Hx as [[E|[]]|Hx]; [discriminate|exact (tabs_no_amp _ Hx)].
      - destruct Hx as [E|[E|[]]]; discriminate.
      - exact (name_no_amp _ Hn Hx). - destruct Hx as [E|[]]. discriminate. }
    rewrite <- !app_assoc.
    rewrite filter_plain_app by exact P1. rewrite Hkids. rewrite filter_plain_app by exact P2.
    unfold open. rewrite <- !app_assoc. reflexivity.
  - cbn [print_tree file_tree]. apply filter_escape_app.
Qed.

(* ---------------------------------------------------------------- the strict reader on file pieces *)
Lemma span_app p : forall l r, forallb p l = true -> match r with [] => True | c :: _ => p c = false end ->
  span p (l ++ r) = (l, r).
Proof.
  induction l as [|c l IH]; intros r Hl Hr; cbn [app].
  - destruct r as [|c r]; [reflexivity|]. cbn [span]. rewrite Hr. reflexivity.
  - cbn [forallb] in Hl. apply andb_true_iff in Hl. destruct Hl as [H1 H2]. cbn [span]. rewrite H1, (IH r H2 Hr). reflexivity.
Qed.

Lemma string_of_cps_of_string s : string_of_cps (cps_of_string s) = s.
Proof.
  unfold string_of_cps, cps_of_string. rewrite map_map.
  rewrite (map_ext _ (fun c => c)); [rewrite map_id; apply of_chars_of|].
  intros c. rewrite N2Z.id. apply ascii_N_embedding.
Qed.

Lemma name_char_not_ws c : name_char c = true -> is_ws c = false.
Proof. unfold name_char, is_ws. intros H. destruct (Z.eqb_spec c 32), (Z.eqb_spec c 9), (Z.eqb_spec c 10), (Z.eqb_spec c 13); subst; try discriminate H; reflexivity. Qed.

(* the attributes of a start tag, up to and including the closing '>' *)
Lemma attrs_parse rest : forall a acc fuel, (length a < fuel)%nat -> attrs_ok a ->
  attrs fuel (attrs_text a ++ 62 :: rest) acc = Ok (rev' (rev a ++ acc), rest).
Proof.
  induction a as [|[k v] t IH]; intros acc fuel Hf Ha; (destruct fuel as [|fuel]; [cbn in Hf; lia|]).
  - cbn [attrs_text flat_map app attrs span is_ws]. cbn. reflexivity.
  - inversion Ha as [|? ? [[Hk1 Hk2] Hv] Ht]; subst. cbn [fst snd] in *.
    unfold attrs_text. cbn [flat_map]. fold (attrs_text t). rewrite <- !app_assoc. cbn [app].
    cbn [attrs]. cbn [span]. change (is_ws 32) with true. cbn iota.
    destruct (cps_of_string k) as [|k0 kr] eqn:Ek; [congruence|].
    assert (Hk0 : name_char k0 = true) by (cbn [forallb] in Hk2; apply andb_true_iff in Hk2; tauto).
    cbn [app span]. rewrite (name_char_not_ws _ Hk0).
    change (k0 :: kr ++ 61 :: 34 :: cps_of_string v ++ 34 :: attrs_text t ++ 62 :: rest)
      with ((k0 :: kr) ++ 61 :: 34 :: cps_of_string v ++ 34 :: attrs_text t ++ 62 :: rest).
    assert (Hnot62 : (k0 =? 62) = false).
    { unfold name_char in Hk0. destruct (Z.eqb_spec k0 62) as [->|]; [discriminate Hk0|reflexivity]. }
    destruct k0 as [|kp|kp]; try discriminate Hk0.
    destruct (Pos.eq_dec kp 62) as [->|Hne]; [discriminate Hnot62|].
    assert (Hmatch : forall A (x y : A), match Z.pos kp with 62 => x | _ => y end = y).
    { intros. destruct kp as [[[[[[]|[]|]|[]|]|[]|]|[]|]|[[[[[]|[]|]|[]|]|[]|]|[]|]|]; try reflexivity; congruence. }
    rewrite Hmatch.
    rewrite span_app; [|exact Hk2|reflexivity].
    rewrite span_app; [|exact Hv|reflexivity].
    rewrite IH; [|cbn in Hf; lia|exact Ht].
    rewrite <- Ek, !string_of_cps_of_string. cbn [rev]. rewrite <- app_assoc. reflexivity.
Qed.

(* character data in file form, up to the next tag *)
Lemma chardata_file s r :
  chardata (S (length (flat_map out_cp s ++ 60 :: r))) (flat_map out_cp s ++ 60 :: r) [] = Ok (clean s, 60 :: r).
Proof.
  pose proof (text_roundtrip s (60 :: r) (or_intror (ex_intro _ r eq_refl))) as H.
  rewrite filter_escape in H. exact H.
Qed.

Definition ws_of (first : bool) (d : nat) : text := (if first then [] else [10]) ++ tabs d.
Lemma out_tabs d : flat_map out_cp (tabs d) = tabs d.
Proof. unfold tabs. induction d as [|d IH]; [reflexivity|]. cbn [repeat flat_map]. rewrite IH. reflexivity. Qed.
Lemma clean_tabs d : clean (tabs d) = tabs d.
Proof. unfold tabs, clean. induction d as [|d IH]; [reflexivity|]. cbn [repeat map]. rewrite IH. reflexivity. Qed.
Lemma out_ws f d : flat_map out_cp (ws_of f d) = ws_of f d.
Proof. unfold ws_of. rewrite flat_map_app, out_tabs. destruct f; reflexivity. Qed.
Lemma clean_ws f d : clean (ws_of f d) = ws_of f d.
Proof. unfold ws_of, clean. rewrite map_app. fold (clean (tabs d)). rewrite clean_tabs. destruct f; reflexivity. Qed.
Lemma chardata_ws f d r :
  chardata (S (length (ws_of f d ++ 60 :: r))) (ws_of f d ++ 60 :: r) [] = Ok (ws_of f d, 60 :: r).
Proof. pose proof (chardata_file (ws_of f d) r) as H. rewrite out_ws, clean_ws in H. exact H. Qed.

Definition push_text (txt : text) (acc : list tree) : list tree := match txt with [] => acc | _ => TText txt :: acc end.

Lemma name_head n : name_ok n -> exists c r, cps_of_string n = c :: r /\ name_char c = true /\ c <> 47.
Proof.
  intros [H1 H2]. destruct (cps_of_string n) as [|c r]; [congruence|]. exists c, r. split; [reflexivity|].
  cbn [forallb] in H2. apply andb_true_iff in H2. destruct H2 as [H2 _]. split; [exact H2|].
  intros ->. discriminate H2.
Qed.

(* the end tag of the element being read, after character data txt_file (already in file form) *)
Lemma content_end name s rest acc fuel :
  name_ok name ->
  content (S fuel) name (flat_map out_cp s ++ [60; 47] ++ cps_of_string name ++ [62] ++ rest) acc
  = Ok (rev' (push_text (clean s) acc), rest).
Proof.
  intros Hn. cbn [content]. cbn [app]. rewrite chardata_file. cbn [bind].
  fold (push_text (clean s) acc).
  destruct Hn as [Hn1 Hn2].
  rewrite (span_app name_char (cps_of_string name) (62 :: rest) Hn2 eq_refl).
  cbn [span is_ws]. cbn. rewrite string_of_cps_of_string, String.eqb_refl. reflexivity.
Qed.

(* one unfolding of the element loop with the tag tests written as comparisons *)
Definition end_branch (name : string) (t2 : text) (acc1 : list tree) : outcome (list tree * text) :=
  let '(nm, t3) := span name_char t2 in
  let '(_, t4) := span is_ws t3 in
  match t4 with
  | 62 :: t5 => if String.eqb (string_of_cps nm) name then Ok (rev' acc1, t5) else Err "mismatched-end-tag"
  | _ => Err "bad-end-tag"
  end.
Definition start_branch (f : nat) (name : string) (t2 : text) (acc1 : list tree) : outcome (list tree * text) :=
  let '(nm, t3) := span name_char t2 in
  match nm with
  | [] => Err "bad-start-tag"
  | _ =>
    bind (attrs (S (length t3)) t3 []) (fun '(at_, t4) =>
    bind (content f (string_of_cps nm) t4 []) (fun '(kids, t5) =>
      content f name t5 (TElem (string_of_cps nm) at_ kids :: acc1)))
  end.

Ltac dpos p n := match n with O => idtac | S ?m => destruct p as [p|p|]; [dpos p m|dpos p m|] end.

Lemma content_unfold f name t acc :
  content (S f) name t acc =
  bind (chardata (S (length t)) t []) (fun '(txt, t1) =>
    let acc1 := push_text txt acc in
    match t1 with
    | c0 :: t1' =>
      if c0 =? 60 then
        match t1' with
        | c1 :: t2 => if c1 =? 47 then end_branch name t2 acc1 else start_branch f name t1' acc1
        | [] => start_branch f name [] acc1
        end
      else Err "unexpected-eof"
    | [] => Err "unexpected-eof"
    end).
Proof.
  cbn [content]. destruct (chardata (S (length t)) t []) as [[txt t1]| | |]; cbn [bind]; try reflexivity.
  fold (push_text txt acc). unfold end_branch, start_branch.
  destruct t1 as [|c0 t1']; [reflexivity|].
  destruct c0 as [|p|p]; try reflexivity.
  dpos p 6%nat; try reflexivity.
  cbn [Z.eqb Pos.eqb]. destruct t1' as [|c1 t2]; [reflexivity|].
  destruct c1 as [|q|q]; try reflexivity.
  dpos q 6%nat; reflexivity.
Qed.

Lemma attrs_text_length a : (length a <= length (attrs_text a))%nat.
Proof.
  induction a as [|[k v] t IH]; [cbn; lia|]. unfold attrs_text. cbn [flat_map]. fold (attrs_text t).
  rewrite !app_length. cbn [length]. unfold cp in *. lia.
Qed.
Lemma rev'_rev {A} (l : list A) : rev' (rev l ++ []) = l.
Proof. rewrite app_nil_r. unfold rev'. rewrite <- rev_alt. apply rev_involutive. Qed.

(* a child element: white space, start tag, then whatever its own content reader makes of the rest *)
Lemma content_child pn n a Bm acc fuel first d :
  name_ok n -> attrs_ok a ->
  content (S fuel) pn (ws_of first d ++ [60] ++ cps_of_string n ++ attrs_text a ++ [62] ++ Bm) acc
  = bind (content fuel n Bm []) (fun '(kids, t5) =>
      content fuel pn t5 (TElem n a kids :: push_text (ws_of first d) acc)).
Proof.
  intros Hn Ha. rewrite content_unfold. cbn [app].
  change (ws_of first d ++ 60 :: cps_of_string n ++ attrs_text a ++ 62 :: Bm)
    with (ws_of first d ++ 60 :: (cps_of_string n ++ attrs_text a ++ 62 :: Bm)).
  rewrite chardata_ws. cbn [bind]. cbn zeta. rewrite Z.eqb_refl.
  destruct (name_head n Hn) as [c [r [Ec [Hc Hc47]]]].
  rewrite Ec. cbn [app]. destruct (Z.eqb_spec c 47) as [E|_]; [contradiction|].
  unfold start_branch.
  change (c :: r ++ attrs_text a ++ 62 :: Bm) with ((c :: r) ++ attrs_text a ++ 62 :: Bm). rewrite <- Ec.
  destruct Hn as [Hn1 Hn2].
  rewrite span_app; [|exact Hn2|destruct a as [|[k v] t]; reflexivity].
  rewrite Ec. cbn iota. rewrite <- Ec.
  rewrite attrs_parse by (try exact Ha; rewrite app_length; pose proof (attrs_text_length a); unfold cp in *; lia).
  cbn [bind]. rewrite rev'_rev, string_of_cps_of_string. reflexivity.
Qed.

(* ---------------------------------------------------------------- whole elements *)
Definition is_elem (t : tree) : bool := match t with TElem _ _ _ => true | _ => false end.

(* LapTimer's documents: an element is empty, holds one non-empty text, or holds only elements *)
Fixpoint shaped (t : tree) : Prop :=
  match t with
  | TText _ => False
  | TElem n a kids => name_ok n /\ attrs_ok a /\
      (kids = [] \/ (exists s, kids = [TText s] /\ s <> []) \/
       (kids <> [] /\ (fix all (l : list tree) : Prop := match l with [] => True | x :: r => (is_elem x = true /\ shaped x) /\ all r end) kids))
  end.
Fixpoint shaped_forest (l : list tree) : Prop := match l with [] => True | x :: r => (is_elem x = true /\ shaped x) /\ shaped_forest r end.

(* what the reader returns before white-space-only text between child elements is dropped *)
Fixpoint raw (d : nat) (t : tree) : tree :=
  match t with
  | TText s => TText (clean s)
  | TElem n a kids =>
      TElem n a (if has_elem kids
                 then flat_map (fun k => [TText (ws_of false (S d)); raw (S d) k]) kids ++ [TText (ws_of false d)]
                 else map (raw (S d)) kids)
  end.

Lemma ws_false_nonempty d : ws_of false d <> [].
Proof. unfold ws_of. cbn. discriminate. Qed.
Lemma push_ws d acc : push_text (ws_of false d) acc = TText (ws_of false d) :: acc.
Proof. unfold push_text, ws_of. reflexivity. Qed.
Lemma clean_nonempty s : s <> [] -> clean s <> [].
Proof. destruct s; [congruence|]. cbn. discriminate. Qed.
Lemma shaped_forest_has_elem l : l <> [] -> shaped_forest l -> has_elem l = true.
Proof. destruct l as [|x r]; [congruence|]. intros _ [[H _] _]. unfold has_elem. cbn [existsb]. destruct x; [reflexivity|discriminate H]. Qed.

Definition close_tag (n : string) : text := [60; 47] ++ cps_of_string n ++ [62].
Lemma file_tree_len d f k : is_elem k = true -> (1 <= length (file_tree d f k))%nat.
Proof. destruct k as [n a kids|s]; [|discriminate]. intros _. cbn [file_tree]. rewrite !app_length. cbn [length]. lia. Qed.

Definition kids_of (t : tree) : list tree := match t with TElem _ _ k => k | TText _ => [] end.
Definition name_of (t : tree) : string := match t with TElem n _ _ => n | TText _ => EmptyString end.
Definition attrs_of (t : tree) : list (string * string) := match t with TElem _ a _ => a | TText _ => [] end.
(* what follows an element's start tag: its children and its end tag *)
Definition inner (d : nat) (t : tree) : text :=
  flat_map (file_tree (S d) false) (kids_of t) ++ (if has_elem (kids_of t) then ws_of false d else []) ++ close_tag (name_of t).

Lemma file_tree_split d first t more : is_elem t = true ->
  file_tree d first t ++ more =
  ws_of first d ++ [60] ++ cps_of_string (name_of t) ++ attrs_text (attrs_of t) ++ [62] ++ (inner d t ++ more).
Proof.
  destruct t as [n a kids|s]; [|discriminate]. intros _. unfold inner. cbn [file_tree kids_of name_of attrs_of].
  fold (has_elem kids). unfold ws_of, close_tag. destruct (has_elem kids); rewrite <- !app_assoc; reflexivity.
Qed.

Fixpoint tsize (t : tree) : nat :=
  match t with
  | TText _ => 1
  | TElem _ _ kids => S (fold_right (fun x acc => tsize x + acc)%nat 0%nat kids)
  end.
Definition fsize (l : list tree) : nat := fold_right (fun x acc => tsize x + acc)%nat 0%nat l.

Lemma content_body_n : forall sz t d more fuel,
  (tsize t <= sz)%nat -> shaped t -> (length (inner d t ++ more) < fuel)%nat ->
  content fuel (name_of t) (inner d t ++ more) [] = Ok (kids_of (raw d t), more).
Proof.
  induction sz as [|sz IHsz]; intros [n a kids|s] d more fuel Hsz Hs Hf; try (cbn in Hsz; lia); try (destruct Hs; fail).
  assert (IH : forall t d more fuel, (tsize t <= sz)%nat -> shaped t -> (length (inner d t ++ more) < fuel)%nat ->
                 content fuel (name_of t) (inner d t ++ more) [] = Ok (kids_of (raw d t), more)) by exact IHsz.
  clear IHsz. cbn [tsize] in Hsz. fold (fsize kids) in Hsz.
  destruct Hs as [Hn [Ha Hk]]. unfold inner in Hf |- *. cbn [kids_of name_of raw] in Hf |- *.
  (* one child element, seen from this element's loop *)
  assert (Helem : forall k, (tsize k <= sz)%nat -> is_elem k = true -> shaped k -> forall acc rest f,
            (length (file_tree (S d) false k ++ rest) <= f)%nat ->
            content (S f) n (file_tree (S d) false k ++ rest) acc =
            content f n rest (raw (S d) k :: push_text (ws_of false (S d)) acc)).
  { intros k Hksz Hke Hksh acc rest f Hlen. rewrite (file_tree_split _ _ _ _ Hke) in *.
    assert (Hk' := Hksh). destruct k as [kn ka kk|ks]; [|discriminate]. destruct Hk' as [Hkn [Hka _]].
    cbn [name_of attrs_of] in Hlen |- *.
    rewrite content_child by assumption.
    pose proof (IH (TElem kn ka kk) (S d) rest f Hksz Hksh) as Hb. cbn [name_of] in Hb.
    rewrite Hb.
    - cbn [bind raw kids_of]. reflexivity.
    - rewrite !app_length in Hlen. cbn [length] in Hlen. rewrite !app_length. unfold cp in *. lia. }
  assert (Hforest : forall ks, (fsize ks <= sz)%nat -> shaped_forest ks -> forall acc' f,
            (length (flat_map (file_tree (S d) false) ks ++ ws_of false d ++ close_tag n ++ more) < f)%nat ->
            content f n (flat_map (file_tree (S d) false) ks ++ ws_of false d ++ close_tag n ++ more) acc'
            = Ok (rev' (TText (ws_of false d) :: rev (flat_map (fun k => [TText (ws_of false (S d)); raw (S d) k]) ks) ++ acc'), more)).
  { induction ks as [|k ks IHk]; intros Hksz Hks acc' f Hlen.
    - destruct f as [|f]; [lia|]. cbn [flat_map app rev].
      rewrite <- (out_ws false d) at 1. unfold close_tag. rewrite <- !app_assoc.
      rewrite content_end by exact Hn. rewrite clean_ws, push_ws. reflexivity.
    - destruct Hks as [[Hke Hksh] Hks']. destruct f as [|f]; [lia|]. cbn [flat_map]. rewrite <- app_assoc.
      cbn [flat_map] in Hlen. rewrite <- app_assoc in Hlen. unfold fsize in Hksz. cbn [fold_right] in Hksz. fold (fsize ks) in Hksz.
      rewrite Helem by (try assumption; unfold cp in *; lia).
      rewrite push_ws. rewrite IHk; [|lia|exact Hks'|rewrite app_length in Hlen; pose proof (file_tree_len (S d) false k Hke); unfold cp in *; lia].
      f_equal. f_equal. cbn [flat_map app rev]. rewrite <- !app_assoc. reflexivity. }
  destruct Hk as [->|[[s [-> Hsne]]|[Hne Hall]]].
  - (* empty element *)
    cbn [has_elem existsb flat_map app map] in *. destruct fuel as [|fuel]; [lia|].
    pose proof (content_end n [] more [] fuel Hn) as Hce. unfold close_tag. rewrite <- !app_assoc.
    cbn [app flat_map] in Hce |- *. unfold cp in Hce |- *. rewrite Hce. cbn [bind clean map push_text]. reflexivity.
  - (* one text *)
    cbn [has_elem existsb is_elem flat_map app map file_tree raw orb] in *. rewrite app_nil_r in *. destruct fuel as [|fuel]; [lia|].
    pose proof (content_end n s more [] fuel Hn) as Hce. unfold close_tag. rewrite <- !app_assoc.
    cbn [app] in Hce |- *. unfold cp in Hce |- *. rewrite Hce.
    pose proof (clean_nonempty s Hsne) as Hc. unfold push_text. destruct (clean s) as [|c0 cs] eqn:Ec; [congruence|]. reflexivity.
  - (* child elements *)
    assert (Hsf : shaped_forest kids).
    { clear -Hall. induction kids as [|x r IHr]; [exact I|]. destruct Hall as [H1 H2]. split; [exact H1|apply IHr; exact H2]. }
    rewrite (shaped_forest_has_elem kids Hne Hsf) in Hf |- *. rewrite <- !app_assoc in Hf |- *.
    rewrite Hforest by (try assumption; lia).
    rewrite app_nil_r. unfold rev'. rewrite <- rev_alt. cbn [rev]. rewrite rev_involutive. reflexivity.
Qed.

Lemma content_body t d more fuel :
  shaped t -> (length (inner d t ++ more) < fuel)%nat ->
  content fuel (name_of t) (inner d t ++ more) [] = Ok (kids_of (raw d t), more).
Proof. apply (content_body_n (tsize t)). lia. Qed.

(* ---------------------------------------------------------------- the document *)
Fixpoint cleaned (t : tree) : tree :=
  match t with
  | TText s => TText (clean s)
  | TElem n a kids => TElem n a (map cleaned kids)
  end.

Lemma all_ws_ws d : all_ws (ws_of false d) = true.
Proof. unfold all_ws, ws_of, tabs. cbn [app forallb]. induction d as [|d IH]; [reflexivity|]. cbn [repeat forallb]. exact IH. Qed.

Lemma is_elem_raw d t : is_elem (raw d t) = is_elem t.
Proof. destruct t; reflexivity. Qed.

Lemma tidy_raw_n : forall sz t d, (tsize t <= sz)%nat -> shaped t -> tidy (raw d t) = cleaned t.
Proof.
  induction sz as [|sz IH]; intros [n a kids|s] d Hsz Hs; try (cbn in Hsz; lia); try (destruct Hs; fail).
  destruct Hs as [Hn [Ha Hk]]. cbn [tsize] in Hsz. fold (fsize kids) in Hsz.
  destruct Hk as [->|[[s [-> Hsne]]|[Hne Hall]]]; try reflexivity.
  assert (Hsf : shaped_forest kids).
  { clear -Hall. induction kids as [|x r IHr]; [exact I|]. destruct Hall as [H1 H2]. split; [exact H1|apply IHr; exact H2]. }
  cbn [raw cleaned]. rewrite (shaped_forest_has_elem kids Hne Hsf).
  set (rk := flat_map (fun k => [TText (ws_of false (S d)); raw (S d) k]) kids ++ [TText (ws_of false d)]).
  cbn [tidy]. fold (has_elem rk).
  assert (Hhe : has_elem rk = true).
  { unfold rk, has_elem. rewrite existsb_app. apply orb_true_iff. left.
    destruct kids as [|x r]; [congruence|]. destruct Hsf as [[Hx _] _]. cbn [flat_map app existsb].
    fold (is_elem (raw (S d) x)). rewrite is_elem_raw, Hx. reflexivity. }
  rewrite Hhe. f_equal.
  assert (G : forall ks, (fsize ks <= sz)%nat -> shaped_forest ks ->
            filter (fun k => match k with TText s => negb (all_ws s) | _ => true end)
                   (map tidy (flat_map (fun k => [TText (ws_of false (S d)); raw (S d) k]) ks)) = map cleaned ks).
  { induction ks as [|k ks IHk]; intros Hks Hsh; [reflexivity|]. destruct Hsh as [[Hke Hksh] Hsh'].
    unfold fsize in Hks. cbn [fold_right] in Hks. fold (fsize ks) in Hks.
    cbn [flat_map app map filter tidy]. rewrite all_ws_ws. cbn [negb].
    rewrite (IH k (S d)) by (try exact Hksh; lia).
    destruct k as [kn ka kk|ks']; [|discriminate]. cbn [cleaned]. fold (map cleaned kk). f_equal. apply IHk; [lia|exact Hsh']. }
  unfold rk. rewrite map_app, filter_app. rewrite G by (try exact Hsf; lia).
  cbn [map tidy filter]. rewrite all_ws_ws. cbn [negb]. apply app_nil_r.
Qed.

Lemma shaped_tags_ok_n : forall sz t, (tsize t <= sz)%nat -> shaped t -> tags_ok t.
Proof.
  induction sz as [|sz IH]; intros [n a kids|s] Hsz Hs; try (cbn in Hsz; lia); try (destruct Hs; fail).
  destruct Hs as [Hn [Ha Hk]]. cbn [tsize] in Hsz. fold (fsize kids) in Hsz. cbn [tags_ok]. split; [exact Hn|]. split; [exact Ha|].
  destruct Hk as [->|[[s [-> Hsne]]|[Hne Hall]]]; [exact I|split; exact I|].
  clear Hne. induction kids as [|x r IHr]; [exact I|]. destruct Hall as [[_ H1] H2].
  unfold fsize in Hsz. cbn [fold_right] in Hsz. fold (fsize r) in Hsz.
  split; [apply IH; [lia|exact H1]|apply IHr; [lia|exact H2]].
Qed.

(* The strict reader applied to the document the encoder writes for a tree returns that tree,
   its texts cleaned of the characters XML cannot carry. *)
Theorem lex_document t : shaped t -> lex (document t) = Ok (cleaned t).
Proof.
  intros Hs. pose proof (shaped_tags_ok_n (tsize t) t (le_n _) Hs) as Htags.
  unfold lex. rewrite document_has_declaration.
  pose proof (filter_print t 0%nat true [] Htags) as Hfp. rewrite app_nil_r in Hfp. rewrite Hfp.
  change (filter_text []) with (@nil cp). 
  destruct t as [n a kids|s]; [|destruct Hs].
  rewrite (file_tree_split 0 true (TElem n a kids) [] eq_refl). cbn [name_of attrs_of ws_of tabs repeat app].
  assert (Hs' := Hs). destruct Hs' as [Hn [Ha _]].
  destruct (name_head n Hn) as [c [r [Ec [Hc Hc47]]]].
  destruct Hn as [Hn1 Hn2].
  rewrite span_app; [|exact Hn2|destruct a as [|[k v] t]; reflexivity].
  rewrite Ec. cbn iota. rewrite <- Ec.
  rewrite attrs_parse by (try exact Ha; rewrite app_length; pose proof (attrs_text_length a); unfold cp in *; lia).
  cbn [bind]. rewrite rev'_rev, string_of_cps_of_string.
  pose proof (content_body (TElem n a kids) 0 [] (S (length (inner 0 (TElem n a kids) ++ []))) Hs (Nat.lt_succ_diag_r _)) as Hb.
  cbn [name_of] in Hb. rewrite Hb. cbn [bind all_ws forallb].
  f_equal. rewrite <- (tidy_raw_n (tsize (TElem n a kids)) (TElem n a kids) 0 (le_n _) Hs).
  reflexivity.
Qed.
