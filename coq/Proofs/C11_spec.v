(* C11: what PredictOBD does to every row, for ANY fitted predictor. *)
From Coq Require Import String Ascii List ZArith Bool Lia.
From TT Require Import Base.Outcome Base.Str Base.F64 Base.Civil
     Trackaddict.Columns Trackaddict.Model Convert.Model.
Import ListNotations.
Local Open Scope Z_scope.
Local Opaque fadd fsub fmul fdiv f_of_Z fround f_trunc_Z fzero dur_seconds.

Definition get (laps : list lap) (li ri : nat) : record := nth ri (lap_recs (nth li laps lap0)) record0.
Definition in_bounds (laps : list lap) (li ri : nat) : Prop :=
  (li < length laps)%nat /\ (ri < length (lap_recs (nth li laps lap0)))%nat.
Definition upd (laps : list lap) (li ri : nat) (o' : obd) : list lap :=
  upd_nth li (fun l => mkLap (lap_dur l) (lap_num l) (upd_nth ri (fun r => set_record_obd r o') (lap_recs l))) laps.

Lemma upd_nth_length {A} (f : A -> A) : forall l n, length (upd_nth n f l) = length l.
Proof. unfold upd_nth. induction l as [|x t IH]; intros [|n]; cbn; auto. Qed.
Lemma nth_upd_nth_same {A} (f : A -> A) d : forall l n, (n < length l)%nat -> nth n (upd_nth n f l) d = f (nth n l d).
Proof. unfold upd_nth. induction l as [|x t IH]; intros [|n] H; cbn in *; try lia; auto. apply IH; lia. Qed.
Lemma nth_upd_nth_other {A} (f : A -> A) d : forall l n m, n <> m -> nth m (upd_nth n f l) d = nth m l d.
Proof. unfold upd_nth. induction l as [|x t IH]; intros [|n] [|m] H; cbn in *; try congruence; auto. Qed.

Lemma upd_shape laps li ri o' :
  length (upd laps li ri o') = length laps /\
  forall k, length (lap_recs (nth k (upd laps li ri o') lap0)) = length (lap_recs (nth k laps lap0)) /\
            lap_dur (nth k (upd laps li ri o') lap0) = lap_dur (nth k laps lap0) /\
            lap_num (nth k (upd laps li ri o') lap0) = lap_num (nth k laps lap0).
Proof.
  unfold upd. split; [apply upd_nth_length|]. intros k.
  destruct (Nat.eq_dec li k) as [->|Hne].
  - destruct (Nat.lt_ge_cases k (length laps)) as [Hlt|Hge].
    + rewrite nth_upd_nth_same by exact Hlt. cbn. rewrite upd_nth_length. repeat split; reflexivity.
    + rewrite !nth_overflow by (rewrite ?upd_nth_length; lia). repeat split; reflexivity.
  - rewrite nth_upd_nth_other by exact Hne. repeat split; reflexivity.
Qed.

Lemma get_upd_same laps li ri o' : in_bounds laps li ri -> get (upd laps li ri o') li ri = set_record_obd (get laps li ri) o'.
Proof.
  intros [H1 H2]. unfold get, upd. rewrite nth_upd_nth_same by exact H1. cbn [lap_recs].
  rewrite nth_upd_nth_same by exact H2. reflexivity.
Qed.
Lemma get_upd_other laps li ri o' li' ri' : (li, ri) <> (li', ri') -> get (upd laps li ri o') li' ri' = get laps li' ri'.
Proof.
  intros Hne. unfold get, upd. destruct (Nat.eq_dec li li') as [->|Hl].
  - destruct (Nat.lt_ge_cases li' (length laps)) as [Hlt|Hge].
    + rewrite nth_upd_nth_same by exact Hlt. cbn [lap_recs]. rewrite nth_upd_nth_other by congruence. reflexivity.
    + rewrite !(nth_overflow _ lap0) by (rewrite ?upd_nth_length; lia). reflexivity.
  - rewrite nth_upd_nth_other by exact Hl. reflexivity.
Qed.
Lemma in_bounds_upd laps li ri o' a b : in_bounds laps a b <-> in_bounds (upd laps li ri o') a b.
Proof.
  unfold in_bounds. destruct (upd_shape laps li ri o') as [H1 H2]. rewrite H1. destruct (H2 a) as [H3 _]. rewrite H3. tauto.
Qed.

(* one step of the update loop of predict_obd_with *)
Definition step (vals : f64 -> list f64) (acc : outcome (list lap)) (n : nat * nat * f64) : outcome (list lap) :=
  let '(li, ri, x) := n in
  bind acc (fun laps =>
    let l := nth li laps lap0 in
    let r := nth ri (lap_recs l) record0 in
    match r_obd r with
    | None => Panic "nil obd"
    | Some o =>
      bind (obd_set o (vals x)) (fun o' =>
        Ok (upd_nth li (fun l => mkLap (lap_dur l) (lap_num l)
                                       (upd_nth ri (fun r => set_record_obd r o') (lap_recs l))) laps))
    end).

Lemma fold_step_not_ok vals : forall ns acc, (forall l, acc <> Ok l) -> forall l, fold_left (step vals) ns acc <> Ok l.
Proof.
  induction ns as [|[[li ri] x] t IH]; intros acc H l; cbn [fold_left]; [apply H|].
  apply IH. intros l'. unfold step. destruct acc as [a| | |]; cbn [bind]; try discriminate. exfalso. eapply H. reflexivity.
Qed.

Definition pos (n : nat * nat * f64) : nat * nat := (fst (fst n), snd (fst n)).

Lemma fold_step_spec vals laps0 : forall ns cur fin,
  NoDup (map pos ns) ->
  (forall n, In n ns -> in_bounds cur (fst (fst n)) (snd (fst n))) ->
  (forall n, In n ns -> get cur (fst (fst n)) (snd (fst n)) = get laps0 (fst (fst n)) (snd (fst n))) ->
  fold_left (step vals) ns (Ok cur) = Ok fin ->
  (forall li ri, ~ In (li, ri) (map pos ns) -> get fin li ri = get cur li ri) /\
  (forall li ri x, In (li, ri, x) ns ->
     exists o o', r_obd (get laps0 li ri) = Some o /\ obd_set o (vals x) = Ok o' /\
                  get fin li ri = set_record_obd (get laps0 li ri) o') /\
  length fin = length cur /\
  (forall k, length (lap_recs (nth k fin lap0)) = length (lap_recs (nth k cur lap0)) /\
             lap_dur (nth k fin lap0) = lap_dur (nth k cur lap0) /\ lap_num (nth k fin lap0) = lap_num (nth k cur lap0)).
Proof.
  induction ns as [|[[li ri] x] t IH]; intros cur fin Hnd Hb Hsame Hf; cbn [fold_left] in Hf.
  - inversion Hf; subst. repeat split; try reflexivity. intros ? ? ? [].
  - cbn [map pos fst snd] in Hnd. inversion Hnd as [|? ? Hnotin Hnd']; subst.
    pose proof (Hb _ (or_introl eq_refl)) as Hb0. cbn [fst snd] in Hb0.
    pose proof (Hsame _ (or_introl eq_refl)) as Hs0. cbn [fst snd] in Hs0.
    unfold step at 2 in Hf. cbn [bind] in Hf. fold (get cur li ri) in Hf.
    destruct (r_obd (get cur li ri)) as [o|] eqn:Eo.
    2:{ exfalso. eapply fold_step_not_ok; [|exact Hf]. intros; discriminate. }
    destruct (obd_set o (vals x)) as [o'| | |] eqn:Es; cbn [bind] in Hf;
      try (exfalso; eapply fold_step_not_ok; [|exact Hf]; intros; discriminate).
    fold (upd cur li ri o') in Hf.
    assert (Hb' : forall n, In n t -> in_bounds (upd cur li ri o') (fst (fst n)) (snd (fst n))).
    { intros n Hn. apply in_bounds_upd. apply Hb. right. exact Hn. }
    assert (Hs' : forall n, In n t -> get (upd cur li ri o') (fst (fst n)) (snd (fst n)) = get laps0 (fst (fst n)) (snd (fst n))).
    { intros n Hn. rewrite get_upd_other.
      - apply Hsame. right. exact Hn.
      - intros E. apply Hnotin. apply in_map_iff. exists n. split; [|exact Hn]. unfold pos. symmetry. exact E. }
    destruct (IH _ _ Hnd' Hb' Hs' Hf) as [G1 [G2 [G3 G4]]].
    destruct (upd_shape cur li ri o') as [U1 U2].
    split; [|split; [|split]].
    + intros a b Hnin. cbn [map pos fst snd] in Hnin. rewrite G1 by (intros Hx; apply Hnin; right; exact Hx).
      apply get_upd_other. intros E. apply Hnin. left. exact E.
    + intros a b y [E|Hin].
      * inversion E; subst a b y. exists o, o'. rewrite <- Hs0. split; [exact Eo|]. split; [exact Es|].
        rewrite G1 by exact Hnotin. apply get_upd_same. exact Hb0.
      * apply G2. exact Hin.
    + rewrite G3. exact U1.
    + intros k. destruct (G4 k) as [A1 [A2 A3]]. destruct (U2 k) as [B1 [B2 B3]]. repeat split; congruence.
Qed.

Lemma NoDup_app_intro {A} (l1 l2 : list A) :
  NoDup l1 -> NoDup l2 -> (forall x, In x l1 -> In x l2 -> False) -> NoDup (l1 ++ l2).
Proof.
  induction l1 as [|a t IH]; intros H1 H2 H; cbn [app]; [exact H2|].
  inversion H1 as [|? ? Hn Ht]; subst. constructor.
  - intros Hin. apply in_app_or in Hin. destruct Hin as [Hin|Hin]; [exact (Hn Hin)|]. exact (H a (or_introl eq_refl) Hin).
  - apply IH; [exact Ht|exact H2|]. intros x Hx1 Hx2. exact (H x (or_intror Hx1) Hx2).
Qed.

(* ---- the collection pass ---- *)
Definition row_needs (r : record) : Prop :=
  exists o, r_obd r = Some o /\ o_update o = false /\ g_update (r_gps r) = true.

Lemma rows_collect li : forall rows ri0 st st',
  foldi (predict_row li) ri0 rows st = Ok st' ->
  exists new, p_needed st' = p_needed st ++ new /\
    Forall (fun n => fst (fst n) = li /\ (ri0 <= snd (fst n) < ri0 + length rows)%nat /\
                     row_needs (nth (snd (fst n) - ri0) rows record0)) new /\
    NoDup (map pos new).
Proof.
  induction rows as [|r t IH]; intros ri0 st st' H; cbn [foldi] in H.
  - inversion H; subst. exists []. rewrite app_nil_r. repeat split; constructor.
  - destruct (predict_row li ri0 st r) as [st1| | |] eqn:E1; cbn [bind] in H; try discriminate.
    destruct (IH _ _ _ H) as [new [N1 [N2 N3]]].
    assert (Hshift : Forall (fun n => fst (fst n) = li /\ (ri0 <= snd (fst n) < ri0 + length (r :: t))%nat /\
                                     row_needs (nth (snd (fst n) - ri0) (r :: t) record0)) new).
    { eapply Forall_impl; [|exact N2]. intros [[a b] x] [A1 [A2 A3]]. cbn [fst snd length] in *.
      split; [exact A1|]. split; [lia|]. replace (b - ri0)%nat with (S (b - S ri0)) by lia. exact A3. }
    unfold predict_row in E1. destruct (r_obd r) as [o|] eqn:Eo.
    + destruct (o_update o) eqn:Eu.
      * destruct (p_start st) as [s|]; destruct (append_values (p_ys st) o) as [ys| | |]; cbn [bind] in E1; try discriminate;
          inversion E1; subst st1; cbn [p_needed] in N1; exists new; (split; [exact N1|split; [exact Hshift|exact N3]]).
      * destruct (g_update (r_gps r)) eqn:Eg.
        -- inversion E1; subst st1. cbn [p_needed] in N1. rewrite <- app_assoc in N1.
           eexists. split; [exact N1|]. split.
           ++ constructor; [|exact Hshift]. cbn [fst snd length]. split; [reflexivity|]. split; [lia|].
              rewrite Nat.sub_diag. cbn [nth]. exists o. repeat split; assumption.
           ++ cbn [app map]. constructor; [|exact N3]. intros Hin. apply in_map_iff in Hin. destruct Hin as [[[a b] y] [P1 P2]].
              unfold pos in P1. cbn [fst snd] in P1. inversion P1; subst a b.
              rewrite Forall_forall in N2. destruct (N2 _ P2) as [_ [A2 _]]. cbn [fst snd] in A2. lia.
        -- inversion E1; subst st1. exists new. split; [exact N1|split; [exact Hshift|exact N3]].
    + inversion E1; subst st1. exists new. split; [exact N1|split; [exact Hshift|exact N3]].
Qed.

Definition collect_from (li0 : nat) (laps : list lap) (st : pstate) : outcome pstate :=
  foldi (fun li st l => foldi (predict_row li) 0 (lap_recs l) st) li0 laps st.

Lemma laps_collect : forall laps li0 st st',
  collect_from li0 laps st = Ok st' ->
  exists new, p_needed st' = p_needed st ++ new /\
    Forall (fun n => (li0 <= fst (fst n) < li0 + length laps)%nat /\
                     (snd (fst n) < length (lap_recs (nth (fst (fst n) - li0) laps lap0)))%nat /\
                     row_needs (nth (snd (fst n)) (lap_recs (nth (fst (fst n) - li0) laps lap0)) record0)) new /\
    NoDup (map pos new).
Proof.
  unfold collect_from. induction laps as [|l t IH]; intros li0 st st' H; cbn [foldi] in H.
  - inversion H; subst. exists []. rewrite app_nil_r. repeat split; constructor.
  - destruct (foldi (predict_row li0) 0 (lap_recs l) st) as [st1| | |] eqn:E1; cbn [bind] in H; try discriminate.
    destruct (rows_collect li0 _ _ _ _ E1) as [n1 [A1 [A2 A3]]].
    destruct (IH _ _ _ H) as [n2 [B1 [B2 B3]]].
    exists (n1 ++ n2). split; [rewrite B1, A1, app_assoc; reflexivity|]. split.
    + apply Forall_app. split.
      * eapply Forall_impl; [|exact A2]. intros [[a b] x] [C1 [C2 C3]]. cbn [fst snd length] in *. subst a.
        rewrite Nat.sub_diag. cbn [nth]. rewrite Nat.sub_0_r in C3. repeat split; try lia. exact C3.
      * eapply Forall_impl; [|exact B2]. intros [[a b] x] [C1 [C2 C3]]. cbn [fst snd length] in *.
        replace (a - li0)%nat with (S (a - S li0)) by lia. cbn [nth]. repeat split; try lia; assumption.
    + rewrite map_app. apply NoDup_app_intro; [exact A3|exact B3|].
      intros p Hp1 Hp2. apply in_map_iff in Hp1. apply in_map_iff in Hp2.
      destruct Hp1 as [[[a b] x] [P1 P2]]. destruct Hp2 as [[[a' b'] x'] [Q1 Q2]].
      rewrite Forall_forall in A2, B2. destruct (A2 _ P2) as [C1 _]. destruct (B2 _ Q2) as [D1 _].
      unfold pos in *. cbn [fst snd] in *. subst p. inversion Q1; subst. lia.
Qed.

(* ---- PredictOBD as a whole, for any fitted predictor ---- *)
Definition knots (laps : list lap) : outcome pstate := collect_from 0 laps (mkP None [] [] []).

Theorem predict_spec pred laps laps' :
  predict_obd_with pred laps = Ok laps' ->
  exists st, knots laps = Ok st /\
    (* the rows to fill: exactly rows with a GPS update and a stale OBD reading *)
    (forall li ri x, In (li, ri, x) (p_needed st) -> in_bounds laps li ri /\ row_needs (get laps li ri)) /\
    (* the shape of the session is unchanged *)
    length laps' = length laps /\
    (forall k, length (lap_recs (nth k laps' lap0)) = length (lap_recs (nth k laps lap0)) /\
               lap_dur (nth k laps' lap0) = lap_dur (nth k laps lap0) /\ lap_num (nth k laps' lap0) = lap_num (nth k laps lap0)) /\
    (* every other row - in particular every row with a fresh reading - is untouched *)
    (forall li ri, ~ In (li, ri) (map pos (p_needed st)) -> get laps' li ri = get laps li ri) /\
    (* and a row to fill is either untouched (fewer than two fresh readings in the session) or has
       every channel replaced by the predictor fitted on that channel, evaluated at the row's time *)
    ((length (p_xs st) < 2)%nat -> laps' = laps) /\
    ((2 <= length (p_xs st))%nat ->
       forall li ri x, In (li, ri, x) (p_needed st) ->
         exists o o', r_obd (get laps li ri) = Some o /\
                      obd_set o (map (fun ys => pred (p_xs st) ys x) (p_ys st)) = Ok o' /\
                      get laps' li ri = set_record_obd (get laps li ri) o').
Proof.
  intros H. unfold predict_obd_with in H. fold (collect_from 0 laps (mkP None [] [] [])) in H. fold (knots laps) in H.
  destruct (knots laps) as [st| | |] eqn:Ek; cbn [bind] in H; try discriminate.
  exists st. split; [reflexivity|].
  destruct (laps_collect laps 0 _ _ Ek) as [new [N1 [N2 N3]]]. cbn [p_needed app] in N1. subst new.
  assert (Hneed : forall li ri x, In (li, ri, x) (p_needed st) -> in_bounds laps li ri /\ row_needs (get laps li ri)).
  { intros li ri x Hin. rewrite Forall_forall in N2. destruct (N2 _ Hin) as [A1 [A2 A3]]. cbn [fst snd] in *.
    rewrite Nat.sub_0_r in *. unfold in_bounds, get. repeat split; try lia; assumption. }
  split; [exact Hneed|].
  destruct (p_needed st) as [|n0 nt] eqn:En.
  { inversion H; subst laps'. repeat split; try reflexivity. intros _ li ri x []. }
  rewrite <- En in *.
  destruct (Nat.ltb (length (p_xs st)) 2) eqn:El.
  { inversion H; subst laps'. apply Nat.ltb_lt in El. repeat split; try reflexivity. intros Hge. lia. }
  apply Nat.ltb_ge in El.
  destruct (negb (strictly_increasing (p_xs st))); [discriminate|].
  set (vals := fun x : f64 => map (fun ys => pred (p_xs st) ys x) (p_ys st)).
  assert (Hf : fold_left (step vals) (p_needed st) (Ok laps) = Ok laps').
  { rewrite <- H. apply f_equal2; [|reflexivity]. reflexivity. }
  clear H.
  destruct (fold_step_spec vals laps (p_needed st) laps laps' N3) as [G1 [G2 [G3 G4]]].
  - intros [[a b] y] Hin. exact (proj1 (Hneed a b y Hin)).
  - intros; reflexivity.
  - exact Hf.
  - split; [exact G3|]. split; [exact G4|]. split; [exact G1|]. split; [intros; lia|].
    intros _ li ri x Hin. exact (G2 li ri x Hin).
Qed.

(* fixes with fresh readings keep exactly their logged values; so do rows without OBD columns
   and rows without a GPS update *)
Corollary fresh_rows_untouched pred laps laps' li ri :
  predict_obd_with pred laps = Ok laps' ->
  (match r_obd (get laps li ri) with Some o => o_update o = true | None => True end \/ g_update (r_gps (get laps li ri)) = false) ->
  get laps' li ri = get laps li ri.
Proof.
  intros H Hrow. destruct (predict_spec pred laps laps' H) as [st [_ [Hneed [_ [_ [Hun _]]]]]].
  apply Hun. intros Hin. apply in_map_iff in Hin. destruct Hin as [[[a b] x] [P1 P2]].
  unfold pos in P1. cbn [fst snd] in P1. inversion P1; subst a b.
  destruct (Hneed li ri x P2) as [_ [o [R1 [R2 R3]]]].
  destruct Hrow as [Hrow|Hrow]; [rewrite R1 in Hrow|]; congruence.
Qed.
