(* C08: the walk over the MP4 sample tables. *)
From Coq Require Import String Ascii List ZArith NArith Bool Lia.
From TT Require Import Base.Outcome Base.Str Base.F64 Gpmf.Klv Gpmf.Walk Gpmf.Mp4.
Import ListNotations.
Local Open Scope Z_scope.

(* media-time intervals are contiguous and in order: each sample starts where the previous
   one ended *)
Fixpoint chain (d : Z) (ss : list sample) (d' : Z) : Prop :=
  match ss with
  | [] => d = d'
  | s :: t => sm_start s = d /\ chain (sm_end s) t d'
  end.

Lemma chain_app d ss1 d1 ss2 d2 : chain d ss1 d1 -> chain d1 ss2 d2 -> chain d (ss1 ++ ss2) d2.
Proof.
  revert d. induction ss1 as [|s t IH]; intros d H1 H2; cbn [chain app] in *.
  - subst. exact H2.
  - destruct H1 as [H1 H3]. split; [exact H1|]. apply IH; assumption.
Qed.

(* the k-th sample of the list (counting from sample number n0) has the k-th stsz size *)
Fixpoint sized (tb : tables) (n0 : Z) (ss : list sample) : Prop :=
  match ss with
  | [] => True
  | s :: t => (if t_uniform tb =? 0 then nth_error (t_sizes tb) (Z.to_nat (n0 - 1)) = Some (sm_size s)
               else sm_size s = t_uniform tb) /\ sized tb (n0 + 1) t
  end.

Lemma sized_app tb : forall ss1 n0 ss2, sized tb n0 ss1 -> sized tb (n0 + Z.of_nat (length ss1)) ss2 -> sized tb n0 (ss1 ++ ss2).
Proof.
  induction ss1 as [|s t IH]; intros n0 ss2 H1 H2; cbn [sized app length] in *.
  - replace (n0 + Z.of_nat 0) with n0 in H2 by lia. exact H2.
  - destruct H1 as [H1 H3]. split; [exact H1|]. apply IH; [exact H3|].
    replace (n0 + 1 + Z.of_nat (length t)) with (n0 + Z.of_nat (S (length t))) by lia. exact H2.
Qed.

Definition good (tb : tables) (cu : cursor) (ss : list sample) (cu' : cursor) : Prop :=
  chain (cu_dec cu) ss (cu_dec cu') /\
  cu_sample cu' = cu_sample cu + Z.of_nat (length ss) /\
  sized tb (cu_sample cu) ss /\
  (cu_sample cu <= t_nsamples tb + 1 -> cu_sample cu' <= t_nsamples tb + 1).

Lemma good_trans tb cu ss1 cu1 ss2 cu2 : good tb cu ss1 cu1 -> good tb cu1 ss2 cu2 -> good tb cu (ss1 ++ ss2) cu2.
Proof.
  intros [A1 [A2 [A3 A4]]] [B1 [B2 [B3 B4]]]. unfold good. split; [|split; [|split]].
  - eapply chain_app; eassumption.
  - rewrite B2, A2, app_length, Nat2Z.inj_add. lia.
  - apply sized_app; [exact A3|]. rewrite <- A2. exact B3.
  - intros H. apply B4, A4, H.
Qed.

Lemma good_nil tb cu : good tb cu [] cu.
Proof. unfold good. split; [|split; [|split]]; cbn; try lia; auto. Qed.

Lemma chunk_samples_good tb spc : forall fuel n offset cu ss cu',
  chunk_samples fuel tb n spc offset cu = Ok (ss, cu') -> good tb cu ss cu'.
Proof.
  induction fuel as [|f IH]; intros n offset cu ss cu' H; cbn [chunk_samples] in H; [discriminate|].
  destruct ((n <? spc) && (cu_sample cu <=? t_nsamples tb)) eqn:Hc.
  2:{ inversion H; subst. apply good_nil. }
  apply andb_true_iff in Hc. destruct Hc as [_ Hle]. apply Z.leb_le in Hle.
  destruct (stts_next _ _ _ _) as [[[[dur left'] rest'] delta']|]; [|discriminate].
  match type of H with bind ?x _ = _ => destruct x as [size| | |] eqn:Es end; cbn [bind] in H; try discriminate.
  match type of H with bind ?x _ = _ => destruct x as [[ss2 cu2]| | |] eqn:E2 end; cbn [bind] in H; try discriminate.
  inversion H; subst. apply IH in E2. destruct E2 as [B1 [B2 [B3 B4]]]. cbn [cu_dec cu_sample] in *.
  unfold good. split; [|split; [|split]].
  - cbn [chain sm_start sm_end]. split; [reflexivity|exact B1].
  - rewrite B2. cbn [length]. lia.
  - cbn [sized sm_size]. split; [|exact B3].
    destruct (t_uniform tb =? 0); [|inversion Es; reflexivity].
    destruct (nth_error _ _) eqn:En; inversion Es; subst. reflexivity.
  - intros _. apply B4. lia.
Qed.

Lemma entry_chunks_good tb spc last : forall fuel chunk cu ss cu',
  entry_chunks fuel tb chunk last spc cu = Ok (ss, cu') -> good tb cu ss cu'.
Proof.
  induction fuel as [|f IH]; intros chunk cu ss cu' H; cbn [entry_chunks] in H; [discriminate|].
  destruct ((chunk <=? last) && (cu_sample cu <=? t_nsamples tb)); [|inversion H; subst; apply good_nil].
  destruct ((chunk =? 0) || _); [discriminate|].
  match type of H with bind ?x _ = _ => destruct x as [[ss1 cu1]| | |] eqn:E1 end; cbn [bind] in H; try discriminate.
  match type of H with bind ?x _ = _ => destruct x as [[ss2 cu2]| | |] eqn:E2 end; cbn [bind] in H; try discriminate.
  inversion H; subst. eapply good_trans; [eapply chunk_samples_good; exact E1|eapply IH; exact E2].
Qed.

Lemma entries_good tb : forall es cu ss,
  entries tb es cu = Ok ss -> exists cu', good tb cu ss cu'.
Proof.
  induction es as [|[first spc] rest IH]; intros cu ss H; cbn [entries] in H.
  - inversion H; subst. exists cu. apply good_nil.
  - match type of H with bind ?x _ = _ => destruct x as [[ss1 cu1]| | |] eqn:E1 end; cbn [bind] in H; try discriminate.
    match type of H with bind ?x _ = _ => destruct x as [ss2| | |] eqn:E2 end; cbn [bind] in H; try discriminate.
    inversion H; subst. destruct (IH _ _ E2) as [cu2 G2]. exists cu2.
    eapply good_trans; [eapply entry_chunks_good; exact E1|exact G2].
Qed.

(* Whenever the walk succeeds - for ANY tables - it yields exactly the declared number of
   samples, the k-th of them has the k-th stsz size, and their media-time intervals are
   contiguous from tick 0 in presentation order. *)
Lemma samples_of_spec tb ss :
  0 <= t_nsamples tb ->
  samples_of tb = Ok ss ->
  Z.of_nat (length ss) = t_nsamples tb /\ sized tb 1 ss /\ exists d', chain 0 ss d'.
Proof.
  intros Hns. unfold samples_of. set (cu0 := match t_stts tb with (cnt, d) :: r => mkCur 1 0 cnt r d | [] => mkCur 1 0 0 [] 0 end).
  assert (Hs : cu_sample cu0 = 1 /\ cu_dec cu0 = 0) by (unfold cu0; destruct (t_stts tb) as [|[? ?] ?]; split; reflexivity).
  destruct Hs as [Hs Hd].
  destruct (entries tb (t_stsc tb) cu0) as [ss0| | |] eqn:E; cbn [bind]; try discriminate.
  destruct (Z.ltb_spec (Z.of_nat (length ss0)) (t_nsamples tb)); [discriminate|].
  intros H0; inversion H0; subst ss0. destruct (entries_good _ _ _ _ E) as [cu' [G1 [G2 [G3 G4]]]].
  rewrite Hs in *. rewrite Hd in *. split; [|split].
  - assert (Hle : cu_sample cu' <= t_nsamples tb + 1) by (apply G4; lia). lia.
  - exact G3.
  - exists (cu_dec cu'). exact G1.
Qed.

(* ---- offsets of the readings inside one sample ---- *)
Lemma offsets_from_nth : forall n off inc i,
  (i < n)%nat -> 0 <= off -> 0 <= inc -> off + Z.of_nat n * inc < 2 ^ 63 ->
  nth i (offsets_from n off inc) 0 = off + Z.of_nat i * inc.
Proof.
  induction n as [|n IH]; intros off inc i Hi Ho Hinc Hb; [lia|].
  cbn [offsets_from]. destruct i as [|i]; [cbn; lia|]. cbn [nth].
  assert (Hw : i64 (off + inc) = off + inc).
  { unfold i64. rewrite Z.mod_small by nia. destruct (Z.ltb_spec (off + inc) (2 ^ 63)); [reflexivity|nia]. }
  rewrite Hw, IH by nia. lia.
Qed.

Lemma offsets_from_length n off inc : length (offsets_from n off inc) = n.
Proof. revert off; induction n; intros; cbn; [reflexivity|]. rewrite IHn. reflexivity. Qed.

(* the media time of a tick count is floor (ticks * 1e9 / timescale): exact to the nanosecond,
   zero at zero and monotone *)
Lemma media_time_floor ts ticks :
  0 < ts -> 0 <= ticks -> ticks * 1000000000 / ts < 2 ^ 63 ->
  media_time ts ticks = ticks * 1000000000 / ts.
Proof.
  intros Hts Ht Hb. unfold media_time.
  assert (E : ticks * 1000000000 / ts = ticks / ts * 1000000000 + ticks mod ts * 1000000000 / ts).
  { rewrite (Z.div_mod ticks ts) at 1 by lia.
    replace ((ts * (ticks / ts) + ticks mod ts) * 1000000000) with (ticks / ts * 1000000000 * ts + ticks mod ts * 1000000000) by ring.
    rewrite Z.div_add_l by lia. reflexivity. }
  assert (Hq : 0 <= ticks / ts) by (apply Z.div_pos; lia).
  assert (Hr : 0 <= ticks mod ts * 1000000000 / ts) by (apply Z.div_pos; [pose proof (Z.mod_pos_bound ticks ts Hts); nia|lia]).
  assert (W : forall x, 0 <= x < 2 ^ 63 -> i64 x = x).
  { intros x Hx. unfold i64. rewrite Z.mod_small by lia. destruct (Z.ltb_spec x (2 ^ 63)); [reflexivity|lia]. }
  rewrite (W (ticks / ts * 1000000000)) by lia. rewrite W by lia. lia.
Qed.

Lemma media_time_mono ts a b :
  0 < ts -> 0 <= a <= b -> b * 1000000000 / ts < 2 ^ 63 -> 0 <= media_time ts a <= media_time ts b.
Proof.
  intros Hts Hab Hb.
  assert (Hd : a * 1000000000 / ts <= b * 1000000000 / ts) by (apply Z.div_le_mono; lia).
  rewrite !media_time_floor by lia. split; [apply Z.div_pos; lia|exact Hd].
Qed.

(* reading i of n gets start + i*((end-start)/n); the first gets start, none decreases and all
   stay inside [start, end] (strictly below end when the interval is not empty) *)
Lemma reading_offsets_spec ts sm n i :
  (i < n)%nat ->
  let start := media_time ts (sm_start sm) in let stop := media_time ts (sm_end sm) in
  0 <= start <= stop -> stop < 2 ^ 63 ->
  nth i (reading_offsets ts sm n) 0 = start + Z.of_nat i * ((stop - start) / Z.of_nat n) /\
  start <= nth i (reading_offsets ts sm n) 0 <= stop /\
  (start < stop -> nth i (reading_offsets ts sm n) 0 < stop).
Proof.
  intros Hi start stop Hst Hsb.
  unfold reading_offsets. destruct n as [|n']; [lia|]. set (n := S n') in *.
  fold start stop.
  assert (E3 : i64 (stop - start) = stop - start).
  { unfold i64. rewrite Z.mod_small by lia. destruct (Z.ltb_spec (stop - start) (2 ^ 63)); [reflexivity|lia]. }
  rewrite E3. rewrite Z.quot_div_nonneg by lia.
  set (inc := (stop - start) / Z.of_nat n).
  assert (Hn : 0 < Z.of_nat n) by lia.
  assert (Hinc : 0 <= inc) by (apply Z.div_pos; lia).
  assert (Hmul : Z.of_nat n * inc <= stop - start) by (unfold inc; apply Z.mul_div_le; lia).
  rewrite offsets_from_nth by (try assumption; try lia; nia).
  split; [reflexivity|]. split; [nia|]. intros Hlt.
  assert (Z.of_nat i <= Z.of_nat n - 1) by lia.
  destruct (Z.eq_dec inc 0) as [->|Hne]; [lia|]. nia.
Qed.

(* ... with start and end the exact media times of the sample's boundaries *)
Corollary reading_offsets_media_time ts sm n i :
  (i < n)%nat -> 0 < ts -> 0 <= sm_start sm <= sm_end sm -> sm_end sm * 1000000000 / ts < 2 ^ 63 ->
  let start := sm_start sm * 1000000000 / ts in let stop := sm_end sm * 1000000000 / ts in
  nth i (reading_offsets ts sm n) 0 = start + Z.of_nat i * ((stop - start) / Z.of_nat n) /\
  start <= nth i (reading_offsets ts sm n) 0 <= stop.
Proof.
  intros Hi Hts Hse Hb start stop.
  assert (Hd : sm_start sm * 1000000000 / ts <= sm_end sm * 1000000000 / ts) by (apply Z.div_le_mono; lia).
  pose proof (media_time_mono ts (sm_start sm) (sm_end sm) Hts Hse Hb) as Hm.
  destruct (reading_offsets_spec ts sm n i Hi) as [A [B _]]; [exact Hm|rewrite media_time_floor by lia; exact Hb|].
  rewrite !media_time_floor in A, B by lia. split; assumption.
Qed.

(* ---- where each sample's bytes are read from ---- *)
(* the samples of one chunk lie back to back in the file, starting at `off` *)
Fixpoint contig (off : Z) (ss : list sample) : Prop :=
  match ss with
  | [] => True
  | s :: t => sm_off s = off /\ contig (u64 (off + sm_size s)) t
  end.

Lemma chunk_samples_contig tb spc : forall fuel n offset cu ss cu',
  chunk_samples fuel tb n spc offset cu = Ok (ss, cu') ->
  contig offset ss /\ Z.of_nat (length ss) <= Z.max 0 (spc - n).
Proof.
  induction fuel as [|f IH]; intros n offset cu ss cu' H; cbn [chunk_samples] in H; [discriminate|].
  destruct ((n <? spc) && (cu_sample cu <=? t_nsamples tb)) eqn:Hc.
  2:{ inversion H; subst. cbn. split; [exact I|lia]. }
  apply andb_true_iff in Hc. destruct Hc as [Hn _]. apply Z.ltb_lt in Hn.
  destruct (stts_next _ _ _ _) as [[[[dur left'] rest'] delta']|]; [|discriminate].
  match type of H with bind ?x _ = _ => destruct x as [size| | |] eqn:Es end; cbn [bind] in H; try discriminate.
  match type of H with bind ?x _ = _ => destruct x as [[ss2 cu2]| | |] eqn:E2 end; cbn [bind] in H; try discriminate.
  inversion H; subst. apply IH in E2. destruct E2 as [C1 C2]. cbn [contig sm_off sm_size length]. split; [split; [reflexivity|exact C1]|lia].
Qed.

(* a walk result as a list of (chunk number, the samples read from that chunk) *)
Definition chunk_ok (tb : tables) (c : Z) : Prop := 1 <= c <= Z.of_nat (length (t_offsets tb)).
Definition chunk_off (tb : tables) (c : Z) : Z := nth (Z.to_nat (c - 1)) (t_offsets tb) 0.
Definition placed (tb : tables) (spc : Z) (cr : Z * list sample) : Prop :=
  chunk_ok tb (fst cr) /\ contig (chunk_off tb (fst cr)) (snd cr) /\ Z.of_nat (length (snd cr)) <= Z.max 0 spc.

Lemma entry_chunks_placed tb spc last : forall fuel chunk cu ss cu',
  0 <= chunk ->
  entry_chunks fuel tb chunk last spc cu = Ok (ss, cu') ->
  exists crs, ss = concat (map snd crs) /\ Forall (placed tb spc) crs.
Proof.
  induction fuel as [|f IH]; intros chunk cu ss cu' H0 H; cbn [entry_chunks] in H; [discriminate|].
  destruct ((chunk <=? last) && (cu_sample cu <=? t_nsamples tb)); [|inversion H; subst; exists []; split; [reflexivity|constructor]].
  destruct ((chunk =? 0) || (Z.of_nat (length (t_offsets tb)) <? chunk)) eqn:Hb; [discriminate|].
  apply orb_false_iff in Hb. destruct Hb as [Hb1 Hb2]. apply Z.eqb_neq in Hb1. apply Z.ltb_ge in Hb2.
  match type of H with bind ?x _ = _ => destruct x as [[ss1 cu1]| | |] eqn:E1 end; cbn [bind] in H; try discriminate.
  match type of H with bind ?x _ = _ => destruct x as [[ss2 cu2]| | |] eqn:E2 end; cbn [bind] in H; try discriminate.
  inversion H; subst.
  assert (Hu : 0 <= u32 (chunk + 1)) by (unfold u32; apply Z.mod_pos_bound; lia).
  destruct (IH _ _ _ _ Hu E2) as [crs [A1 A2]]. apply chunk_samples_contig in E1. destruct E1 as [C1 C2].
  exists ((chunk, ss1) :: crs). split; [cbn [map concat snd]; rewrite A1; reflexivity|].
  constructor; [|exact A2]. unfold placed, chunk_ok, chunk_off. cbn [fst snd].
  split; [lia|]. split; [exact C1|lia].
Qed.

Lemma entries_placed tb : forall es cu ss,
  Forall (fun e => 0 <= fst e) es ->
  entries tb es cu = Ok ss ->
  exists crs, ss = concat (map snd crs) /\
              Forall (fun cr => chunk_ok tb (fst cr) /\ contig (chunk_off tb (fst cr)) (snd cr)) crs.
Proof.
  induction es as [|[first spc] rest IH]; intros cu ss Hf H; cbn [entries] in H.
  - inversion H; subst. exists []. split; [reflexivity|constructor].
  - inversion Hf as [|? ? Hfirst Hrest]; subst. cbn [fst] in Hfirst.
    match type of H with bind ?x _ = _ => destruct x as [[ss1 cu1]| | |] eqn:E1 end; cbn [bind] in H; try discriminate.
    match type of H with bind ?x _ = _ => destruct x as [ss2| | |] eqn:E2 end; cbn [bind] in H; try discriminate.
    inversion H; subst. destruct (entry_chunks_placed _ _ _ _ _ _ _ _ Hfirst E1) as [c1 [A1 A2]].
    destruct (IH _ _ Hrest E2) as [c2 [B1 B2]].
    exists (c1 ++ c2). split; [rewrite map_app, concat_app, A1, B1; reflexivity|].
    apply Forall_app. split; [|exact B2]. eapply Forall_impl; [|exact A2]. intros cr [P1 [P2 _]]. split; assumption.
Qed.

(* Whenever the walk succeeds, every sample is read from a chunk that exists, and the samples
   taken from one chunk lie back to back starting at that chunk's offset. *)
Theorem samples_placed tb ss :
  Forall (fun e => 0 <= fst e) (t_stsc tb) ->
  samples_of tb = Ok ss ->
  exists crs, ss = concat (map snd crs) /\
              Forall (fun cr => chunk_ok tb (fst cr) /\ contig (chunk_off tb (fst cr)) (snd cr)) crs.
Proof.
  intros Hf. unfold samples_of.
  match goal with |- bind ?x _ = _ -> _ => destruct x as [ss0| | |] eqn:E end; cbn [bind]; try discriminate.
  destruct (_ <? _); [discriminate|]. intros H; inversion H; subst. eapply entries_placed; eassumption.
Qed.
