From Coq Require Import String Ascii List ZArith NArith Bool Lia.
From TT Require Import Base.Outcome Base.Str Gopro.Names Gopro.Process.
Import ListNotations.
Local Open Scope Z_scope.

(* ---------------------------------------------------------------- grouping *)
Definition top_level (e : string * bool) : bool := negb (snd e || has_slash (chars_of (fst e))).

Lemma file_sets_fold : forall listing g,
  fold_left (fun g '(p, isdir) => if isdir || has_slash (chars_of p) then g else fold_left add_file (matches p) g) listing g =
  fold_left (fun g '(p, isdir) => if isdir || has_slash (chars_of p) then g else fold_left add_file (matches p) g)
            (filter top_level listing) g.
Proof.
  induction listing as [|[p d] t IH]; intros g; cbn [fold_left filter]; [reflexivity|].
  unfold top_level at 1. cbn [fst snd]. destruct (d || has_slash (chars_of p)) eqn:E; cbn [negb].
  - apply IH.
  - cbn [fold_left]. rewrite E. apply IH.
Qed.

(* directories and everything inside sub-directories are ignored *)
Lemma file_sets_ignores listing : file_sets listing = file_sets (filter top_level listing).
Proof. unfold file_sets. apply file_sets_fold. Qed.

(* every file in a group carries the group's number *)
Definition keyed (g : groups) : Prop := forall k l f, In (k, l) g -> In f l -> findex f = k.

Lemma insert_chapter_in f x l : In x (insert_chapter f l) -> x = f \/ In x l.
Proof.
  induction l as [|h t IH]; cbn [insert_chapter]; intros H.
  - destruct H as [H|[]]; auto.
  - destruct (str_ltb _ _); cbn [In] in H.
    + destruct H as [H|[H|H]]; auto. right; left; exact H. right; right; exact H.
    + destruct H as [H|H]; [right; left; exact H|]. destruct (IH H); auto. right; right; assumption.
Qed.

Lemma add_file_keyed g f : keyed g -> keyed (add_file g f).
Proof.
  unfold keyed. induction g as [|[k l] t IH]; intros Hk k' l' x Hin Hx; cbn [add_file] in Hin.
  - destruct Hin as [Hin|[]]. inversion Hin; subst. destruct Hx as [->|[]]. reflexivity.
  - destruct (String.eqb_spec k (findex f)) as [->|Hne].
    + destruct Hin as [Hin|Hin].
      * inversion Hin; subst. apply insert_chapter_in in Hx. destruct Hx as [->|Hx]; [reflexivity|].
        eapply Hk; [left; reflexivity|exact Hx].
      * eapply Hk; [right; exact Hin|exact Hx].
    + destruct Hin as [Hin|Hin].
      * inversion Hin; subst. eapply Hk; [left; reflexivity|exact Hx].
      * eapply IH; [|exact Hin|exact Hx]. intros k0 l0 f0 H1 H2. eapply Hk; [right; exact H1|exact H2].
Qed.

Lemma fold_add_keyed fs : forall g, keyed g -> keyed (fold_left add_file fs g).
Proof. induction fs as [|f t IH]; intros g H; cbn [fold_left]; [exact H|]. apply IH, add_file_keyed, H. Qed.

Lemma file_sets_keyed listing : keyed (file_sets listing).
Proof.
  unfold file_sets.
  assert (G : forall l g, keyed g -> keyed (fold_left (fun g '(p, isdir) =>
               if isdir || has_slash (chars_of p) then g else fold_left add_file (matches p) g) l g)).
  { induction l as [|[p d] t IH]; intros g H; cbn [fold_left]; [exact H|].
    apply IH. destruct (d || has_slash (chars_of p)); [exact H|]. apply fold_add_keyed, H. }
  apply G. intros k l f [].
Qed.

(* ---------------------------------------------------------------- validation *)
Lemma chapters_from_spec : forall l i,
  chapters_from i l = true <-> map fchapter l = map two_digits (seq i (length l)).
Proof.
  induction l as [|f t IH]; intros i; cbn [chapters_from map length seq].
  - split; reflexivity.
  - rewrite andb_true_iff, IH. split.
    + intros [H1 H2]. apply String.eqb_eq in H1. f_equal; assumption.
    + intros H. injection H as H1 H2. split; [apply String.eqb_eq; assumption|assumption].
Qed.

(* a group is accepted iff its sorted chapters are 00,01,02.. or 01,02,03.. : contiguous,
   no duplicates, no gap *)
Lemma validate_spec l :
  validate l = true <->
  l <> [] /\ (map fchapter l = map two_digits (seq 0 (length l)) \/ map fchapter l = map two_digits (seq 1 (length l))).
Proof.
  unfold validate. destruct l as [|f t]; [split; [discriminate|intros [H _]; congruence]|].
  destruct (String.eqb_spec (fchapter f) "00") as [E0|N0].
  - rewrite chapters_from_spec. split; [intros H; split; [discriminate|left; exact H]|].
    intros [_ [H|H]]; [exact H|]. cbn in H. inversion H. congruence.
  - destruct (String.eqb_spec (fchapter f) "01") as [E1|N1].
    + rewrite chapters_from_spec. split; [intros H; split; [discriminate|right; exact H]|].
      intros [_ [H|H]]; [|exact H]. cbn in H. inversion H. congruence.
    + split; [discriminate|]. intros [_ [H|H]]; cbn in H; inversion H; congruence.
Qed.

(* ---------------------------------------------------------------- one group *)
Lemma write_lines_ok p : forall lines s acc s' w,
  write_lines p lines s acc = (true, s', w) ->
  w = (acc ++ lines)%list /\ s_world s' = s_world s /\ s_events s' = s_events s /\ s_args s' = s_args s /\ s_temps s' = s_temps s.
Proof.
  induction lines as [|l t IH]; intros s acc s' w H; cbn [write_lines] in H.
  - inversion H; subst. rewrite app_nil_r. repeat split; reflexivity.
  - destruct (op p KWrite s) as [f s1] eqn:E. unfold op in E. inversion E; subst. clear E.
    destruct (faulted p (s_cnt s) KWrite); [discriminate|].
    apply IH in H. destruct H as [H1 [H2 [H3 [H4 H5]]]]. cbn in *. rewrite <- app_assoc in H1.
    repeat split; assumption.
Qed.

Lemma write_lines_world p : forall lines s acc b s' w,
  write_lines p lines s acc = (b, s', w) ->
  s_world s' = s_world s /\ s_events s' = s_events s /\ s_args s' = s_args s /\ s_temps s' = s_temps s.
Proof.
  induction lines as [|l t IH]; intros s acc b s' w H; cbn [write_lines] in H.
  - inversion H; subst. repeat split; reflexivity.
  - unfold op in H. destruct (faulted p (s_cnt s) KWrite).
    + inversion H; subst. repeat split; reflexivity.
    + apply IH in H. cbn in H. exact H.
Qed.

Definition concat_lines (c : cfg) (chapters : list file) : list string :=
  map (fun f => ("file '" ++ join (c_source c) (fname f) ++ "'")%string) chapters.

Ltac st_projs := cbn [s_world s_cnt s_temps s_args s_events s_tempcontent with_world
                        e_argv e_concat e_existed negb andb fst snd] in *.

Ltac fin f0 rest Ewe Ewa :=
  let H := fresh "H" in
  intros H; inversion H; subst; right;
  eexists; exists f0, rest; st_projs; rewrite Ewe, Ewa;
  repeat split; try reflexivity; try assumption; try congruence;
  try (cbn [e_existed]; intro; congruence).

(* Everything processSet can do, for every fault plan and encoder behaviour: either no
   encoder run, or exactly one, and then the group was valid, its first file is not on the
   skip list, the concat list names each chapter once in order, the argument vector is the
   configured one with the temp file in the input slot and the output path last, and the
   output did not exist unless overwriting is on. *)
Lemma process_set_events c idx p encb chapters s r s' :
  process_set c idx p encb chapters s = (r, s') ->
  s_events s' = s_events s \/
  exists ev f0 rest,
    chapters = f0 :: rest /\
    s_events s' = (s_events s ++ [ev])%list /\
    validate chapters = true /\
    str_in (fname f0) (c_skip c) = false /\
    e_concat ev = concat_lines c chapters /\
    e_argv ev = (set_nth (Z.to_nat idx) (temp_name (s_temps s)) (s_args s) ++ [output_path c (fname f0)])%list /\
    (e_existed ev = true -> c_overwrite c = true).
Proof.
  unfold process_set. destruct (validate chapters) eqn:Hv; cbn [negb]; [|intros H; inversion H; left; reflexivity].
  destruct chapters as [|f0 rest]; [intros H; inversion H; left; reflexivity|].
  destruct (str_in (fname f0) (c_skip c)) eqn:Hs; [intros H; inversion H; left; reflexivity|].
  unfold op. destruct (faulted p (s_cnt s) KCreateTemp); [intros H; inversion H; left; reflexivity|].
  st_projs.
  match goal with |- context [write_lines p ?ls ?s0 []] => destruct (write_lines p ls s0 []) as [[okw s3] written] eqn:Ew end.
  destruct okw; cbn [negb].
  2:{ apply write_lines_world in Ew. st_projs. destruct Ew as [_ [E _]]. intros H; inversion H; subst. left. st_projs. exact E. }
  apply write_lines_ok in Ew. st_projs. destruct Ew as [Ew [Eww [Ewe [Ewa Ewt]]]].
  cbn [app] in Ew. subst written.
  destruct (faulted p (s_cnt s3) KClose); [intros H; inversion H; left; st_projs; exact Ewe|].
  st_projs.
  destruct (faulted p _ KStat); [intros H; inversion H; left; st_projs; exact Ewe|].
  st_projs.
  set (out := output_path c (fname f0)) in *.
  set (tmp := temp_name (s_temps s)) in *.
  destruct (match w_find (s_world s3) out with Some _ => true | None => false end) eqn:Hex;
  destruct (c_overwrite c) eqn:Hov; st_projs.
  all: try (intros H; inversion H; left; st_projs; exact Ewe).
  all: match goal with |- context [faulted ?pp ?cc KEncoder] => destruct (faulted pp cc KEncoder) end; st_projs.
  all: try fin f0 rest Ewe Ewa.
  all: destruct encb; st_projs.
  all: match goal with |- context [faulted ?pp ?cc KStat] => destruct (faulted pp cc KStat) end; st_projs.
  all: try fin f0 rest Ewe Ewa.
  all: match goal with |- context [w_find ?w (join ?a ?b)] => destruct (w_find w (join a b)) end.
  all: try fin f0 rest Ewe Ewa.
  all: match goal with |- context [faulted ?pp ?cc KChtimes] => destruct (faulted pp cc KChtimes) end; st_projs.
  all: try fin f0 rest Ewe Ewa.
  all: match goal with |- context [match w_find ?w ?o with _ => _ end] => destruct (w_find w o) end.
  all: fin f0 rest Ewe Ewa.
Qed.

(* ---------------------------------------------------------------- the filesystem *)
Lemma w_find_remove_same w p : w_find (w_remove w p) p = None.
Proof.
  unfold w_remove. induction w as [|f t IH]; cbn [filter w_find]; [reflexivity|].
  destruct (String.eqb_spec (f_path f) p) as [E|N]; cbn [negb]; [exact IH|].
  cbn [w_find]. destruct (String.eqb_spec (f_path f) p); [contradiction|exact IH].
Qed.

Lemma w_find_remove_other w p q : q <> p -> w_find (w_remove w p) q = w_find w q.
Proof.
  intros Hne. unfold w_remove. induction w as [|f t IH]; cbn [filter w_find]; [reflexivity|].
  destruct (String.eqb_spec (f_path f) p) as [E|N]; cbn [negb].
  - destruct (String.eqb_spec (f_path f) q); [congruence|exact IH].
  - cbn [w_find]. destruct (String.eqb_spec (f_path f) q); [reflexivity|exact IH].
Qed.

Lemma w_find_app a b q : w_find (a ++ b) q = match w_find a q with Some x => Some x | None => w_find b q end.
Proof. induction a as [|f t IH]; cbn [app w_find]; [reflexivity|]. destruct (String.eqb _ _); [reflexivity|exact IH]. Qed.

Lemma w_find_put_other w p m q : q <> p -> w_find (w_put w p m) q = w_find w q.
Proof.
  intros Hne. unfold w_put. rewrite w_find_app, w_find_remove_other by exact Hne.
  destruct (w_find w q); [reflexivity|]. cbn [w_find f_path].
  destruct (String.eqb_spec p q); [congruence|reflexivity].
Qed.

Ltac wfin f0 rest Eww :=
  let H := fresh "H" in
  intros H; inversion H; subst; st_projs; right; exists f0, rest; split; [reflexivity|];
  try rewrite Eww;
  split; [ intros q Hq1 Hq2;
           repeat first [ rewrite w_find_remove_other by assumption
                        | rewrite w_find_put_other by assumption ]; reflexivity
         | apply w_find_remove_same ].

(* Whatever fails and wherever: when processSet returns, the temporary concat list is gone,
   and no path other than the output path has been created, modified or removed - in
   particular no source file (as long as the output path is not itself a source). *)
Lemma process_set_world c idx p encb chapters s r s' :
  process_set c idx p encb chapters s = (r, s') ->
  s_world s' = s_world s \/
  exists f0 rest, chapters = f0 :: rest /\
    (forall q, q <> output_path c (fname f0) -> q <> temp_name (s_temps s) ->
               w_find (s_world s') q = w_find (s_world s) q) /\
    w_find (s_world s') (temp_name (s_temps s)) = None.
Proof.
  unfold process_set. destruct (validate chapters) eqn:Hv; cbn [negb]; [|intros H; inversion H; left; reflexivity].
  destruct chapters as [|f0 rest]; [intros H; inversion H; left; reflexivity|].
  destruct (str_in (fname f0) (c_skip c)) eqn:Hs; [intros H; inversion H; left; reflexivity|].
  unfold op. destruct (faulted p (s_cnt s) KCreateTemp); [intros H; inversion H; left; reflexivity|].
  st_projs.
  set (out := output_path c (fname f0)) in *.
  set (tmp := temp_name (s_temps s)) in *.
  match goal with |- context [write_lines p ?ls ?s0 []] => destruct (write_lines p ls s0 []) as [[okw s3] written] eqn:Ew end.
  apply write_lines_world in Ew. st_projs. destruct Ew as [Eww [Ewe [Ewa Ewt]]].
  destruct okw; cbn [negb]; [|wfin f0 rest Eww].
  destruct (faulted p (s_cnt s3) KClose); [wfin f0 rest Eww|]. st_projs.
  destruct (faulted p _ KStat); [wfin f0 rest Eww|]. st_projs.
  destruct (match w_find (s_world s3) out with Some _ => true | None => false end);
  destruct (c_overwrite c); st_projs.
  all: try wfin f0 rest Eww.
  all: match goal with |- context [faulted ?pp ?cc KEncoder] => destruct (faulted pp cc KEncoder) end; st_projs.
  all: try wfin f0 rest Eww.
  all: destruct encb; st_projs.
  all: match goal with |- context [faulted ?pp ?cc KStat] => destruct (faulted pp cc KStat) end; st_projs.
  all: try wfin f0 rest Eww.
  all: match goal with |- context [w_find ?w (join ?a ?b)] => destruct (w_find w (join a b)) end.
  all: try wfin f0 rest Eww.
  all: match goal with |- context [faulted ?pp ?cc KChtimes] => destruct (faulted pp cc KChtimes) end; st_projs.
  all: try wfin f0 rest Eww.
  all: match goal with |- context [match w_find ?w ?o with _ => _ end] => destruct (w_find w o) end.
  all: wfin f0 rest Eww.
Qed.

(* ---------------------------------------------------------------- all visiting orders *)
Definition good_event (c : cfg) (g : groups) (ev : enc_event) : Prop :=
  exists k f0 rest, g_find g k = Some (f0 :: rest) /\ validate (f0 :: rest) = true /\
    str_in (fname f0) (c_skip c) = false /\ e_concat ev = concat_lines c (f0 :: rest) /\
    (e_existed ev = true -> c_overwrite c = true).

Lemma process_order_events c idx p encb g : forall order s files files' err s',
  process_order c idx p encb g order s files = (files', err, s') ->
  exists evs, s_events s' = (s_events s ++ evs)%list /\ Forall (good_event c g) evs /\
              (length evs <= length order)%nat.
Proof.
  induction order as [|k t IH]; intros s files files' err s' H; cbn [process_order] in H.
  - inversion H; subst. exists []. rewrite app_nil_r. repeat split; [constructor|cbn; lia].
  - destruct (g_find g k) as [chapters|] eqn:Eg.
    + destruct (process_set c idx p encb chapters s) as [r s1] eqn:Eps.
      pose proof (process_set_events _ _ _ _ _ _ _ _ Eps) as Hev.
      assert (Hstep : exists evs1, s_events s1 = (s_events s ++ evs1)%list /\ Forall (good_event c g) evs1 /\ (length evs1 <= 1)%nat).
      { destruct Hev as [E|[ev [f0 [rest [E1 [E2 [E3 [E4 [E5 [E6 E7]]]]]]]]]].
        - exists []. rewrite app_nil_r. repeat split; [exact E|constructor|cbn; lia].
        - exists [ev]. repeat split; [exact E2| |cbn; lia]. constructor; [|constructor].
          exists k, f0, rest. subst chapters. repeat split; assumption. }
      destruct Hstep as [evs1 [F1 [F2 F3]]].
      destruct r.
      * apply IH in H. destruct H as [evs [G1 [G2 G3]]]. exists (evs1 ++ evs)%list.
        rewrite G1, F1, app_assoc. repeat split; [apply Forall_app; split; assumption|rewrite app_length; cbn; lia].
      * apply IH in H. destruct H as [evs [G1 [G2 G3]]]. exists (evs1 ++ evs)%list.
        rewrite G1, F1, app_assoc. repeat split; [apply Forall_app; split; assumption|rewrite app_length; cbn; lia].
      * inversion H; subst. exists evs1. repeat split; [exact F1|exact F2|cbn; lia].
    + apply IH in H. destruct H as [evs [G1 [G2 G3]]]. exists evs. repeat split; [exact G1|exact G2|cbn; lia].
Qed.

(* an empty directory (or one without conforming top-level files) reports "no files found" *)
Lemma process_no_files c p encb listing w order idx :
  input_index (c_args c) = Some idx -> file_sets listing = [] ->
  process c p encb listing w order = PNoFiles.
Proof. intros H1 H2. unfold process. rewrite H1, H2. reflexivity. Qed.
