#!/bin/bash
# Independent re-check of every property file (and everything it depends on) with coqchk; prints the axioms.
# Takes more than an hour.  Usage: tools/coqchk.sh   (from /verif, after `make -C coq`)
cd "$(dirname "$0")/../coq" || exit 2
[ -f Makefile ] || coq_makefile -f _CoqProject -o Makefile >/dev/null
make -j16 > /dev/null || { echo "build failed"; exit 1; }
mods=$(ls Props/*.vo | sed 's|/|.|; s|\.vo$||; s|^|TT.|')
exec coqchk -silent -o -Q . TT $mods
