#!/bin/bash
# Build the framework from files on disk only (offline).
set -e
cd "$(dirname "$0")/.."
export GOFLAGS=-mod=mod GOPROXY=off GOSUMDB=off GOTOOLCHAIN=local CGO_ENABLED=0
mkdir -p work/bin evidence
( cd coq && coq_makefile -f _CoqProject -o Makefile >/dev/null && timeout 3000 make -j16 2>&1 | grep -v '^COQ\|^Axioms:\|^Closed under\|^  *:\|^ClassicalDedekind\|^FunctionalExt\|^Classical_Prop\|^    ' | tail -20 )
cp /repo/go.sum harness/go.sum
( cd harness && go build -tags verif -o ../work/bin/vh ./cmd/vh )
echo setup done
