#!/usr/bin/env python3
"""Regenerate MANIFEST.json from tools/props.py (single source of truth)."""
import json, os, sys
ROOT = os.path.dirname(os.path.dirname(os.path.abspath(__file__)))
sys.path.insert(0, os.path.join(ROOT, "tools"))
from props import PROPS
props = [json.loads(l) for l in open(os.path.join(ROOT, "properties.jsonl"))]
checks, na = [], []
for p in props:
    pid = p["id"]
    if pid in PROPS and not PROPS[pid].get("not_applicable"):
        c = PROPS[pid]
        checks.append({
            "property_id": pid,
            "quick_cmd": "python3 tools/check.py %s --tier quick" % pid,
            "thorough_cmd": "python3 tools/check.py %s --tier thorough" % pid,
            "evidence_file": "/verif/evidence/%s.json" % pid,
            "replay_cmd_template": "python3 tools/check.py %s --replay {path}" % pid,
            "engine": "rocq-correspondence",
            "level_claimed": {"category": c["level"], "text": c["text"], "design_ref": c.get("design_ref", "DESIGN.md section 5")},
            "level_note": c["note"],
            "technique": c["technique"],
        })
    else:
        reason = PROPS.get(pid, {}).get("not_applicable", "model and theorems for this property are not built yet (work in progress; see DESIGN.md section 8)")
        na.append({"property_id": pid, "reason": reason})
m = {
    "version": 1,
    "setup_cmd": "bash tools/setup.sh",
    "hooks": {
        "guard": "verif",
        "enable": "go build -tags verif (the harness module /verif/harness replaces github.com/stevenh/tracktools with /repo)",
        "baseline_off_cmd": "cd /repo && GOFLAGS=-mod=mod GOPROXY=off GOSUMDB=off go test -vet=off -count=1 ./...",
        "source_commits": json.load(open(os.path.join(ROOT, "tools", "hook_commits.json"))) if os.path.exists(os.path.join(ROOT, "tools", "hook_commits.json")) else [],
        "add_only": True,
    },
    "engines": [{
        "name": "rocq-correspondence", "path": "/verif/tools/check.py",
        "serves_properties": [c["property_id"] for c in checks],
        "kind_free_text": "Coq 8.16.1 proofs about hand-written executable models (coq/), tied to /repo on every run by a Go harness that runs the real code and a vm_compute correspondence check inside coqc",
    }],
    "checks": checks,
    "not_applicable": na,
    "notes": "See DESIGN.md.  Every check: (1) rebuilds the Coq project and re-checks Props/<id>.v with Print Assumptions, (2) builds the harness against /repo's working tree with -tags verif and runs the real code on generated inputs, (3) evaluates the proved model on the same inputs inside coqc and compares the property's observables, (4) reports V (violation with input), or a broken proof/correspondence (no-failing-input-found).",
}
json.dump(m, open(os.path.join(ROOT, "MANIFEST.json"), "w"), indent=1)
print("checks:", len(checks), "not_applicable:", len(na))
