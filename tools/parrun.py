#!/usr/bin/env python3
"""parrun.py seeds|benign [prefix] [-j N]: run every kept change (seeded/ or benign/) through its
property's quick check in its own sandbox (tools/sandbox.sh), N at a time, and record the outcome
in the change's meta.json.  /repo and the committed evidence are not touched."""
import json, os, subprocess, sys, glob, concurrent.futures as cf

ROOT = "/verif"
kind = sys.argv[1]
prefix = sys.argv[2] if len(sys.argv) > 2 and not sys.argv[2].startswith("-") else ""
jobs = int(sys.argv[sys.argv.index("-j") + 1]) if "-j" in sys.argv else 5
base = os.path.join(ROOT, "seeded" if kind == "seeds" else "benign")
dirs = sorted(d for d in glob.glob(os.path.join(base, prefix + "*")) if os.path.isdir(d))

def one(d):
    cid = os.path.basename(d)
    prop = cid.split("-")[0]
    patch = os.path.join(d, "patch_rebased.diff")
    if not os.path.exists(patch):
        patch = os.path.join(d, "patch.diff")
    p = subprocess.run([os.path.join(ROOT, "tools/sandbox.sh"), cid, patch, prop], capture_output=True, text=True,
                       env=dict(os.environ, GOFLAGS="-mod=mod", GOPROXY="off", GOSUMDB="off", GOTOOLCHAIN="local"))
    out = p.stdout
    line = next((l for l in out.splitlines() if l.startswith("property=")), "")
    viol = next((l for l in out.splitlines() if l.startswith("VIOLATION")), "")
    if "patch does not apply" in out:
        status = "NOAPPLY"
    elif not line:
        status = "NORUN"
    elif not viol:
        status = "quiet"
    elif "no-failing-input-found" in viol:
        status = "correspondence-only"
    else:
        status = "failing-input"
    if status == "NOAPPLY":
        return cid, status, ""      # keep the record of the run on the tree it was written for
    mp = os.path.join(d, "meta.json")
    meta = json.load(open(mp)) if os.path.exists(mp) else {"change": cid, "property": prop}
    run = meta.setdefault("check_run", {})
    run.update({"command": "tools/sandbox.sh %s %s %s" % (cid, os.path.relpath(patch, ROOT), prop), "summary": line, "violation_line": viol})
    if kind == "seeds":
        run["caught"] = status in ("failing-input", "correspondence-only")
        run["with_failing_input"] = status == "failing-input"
    else:
        run["reports_a_failing_input"] = status == "failing-input"
        run["correspondence_break_only"] = status == "correspondence-only"
        run.pop("false_alarm", None)
    json.dump(meta, open(mp, "w"), indent=1)
    return cid, status, line[-92:]

with cf.ThreadPoolExecutor(jobs) as ex:
    res = list(ex.map(one, dirs))
for cid, status, line in res:
    print(cid, status, line)
from collections import Counter
print(Counter(s for _, s, _ in res))
