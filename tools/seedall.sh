#!/bin/bash
# Runs every seeded change against its property's quick check and records the outcome in seeded/<id>/meta.json.
cd /verif
while read id dest pkg run; do
  prop=${id%-*}
  patch=seeded/$id/patch.diff
  [ -f seeded/$id/patch_rebased.diff ] && patch=seeded/$id/patch_rebased.diff
  out=$(tools/seedrun.sh $patch $prop 2>&1)
  caught=$(echo "$out" | grep -c "^VIOLATION")
  line=$(echo "$out" | grep "^property=" | head -1)
  viol=$(echo "$out" | grep "^VIOLATION" | head -1)
  python3 - "$id" "$prop" "$dest" "$pkg" "$run" "$caught" "$line" "$viol" "$patch" <<'PY'
import json,sys,os
id,prop,dest,pkg,run,caught,line,viol,patch=sys.argv[1:10]
notes=open(f'/verif/seeded/{id}/notes.md').read() if os.path.exists(f'/verif/seeded/{id}/notes.md') else ''
meta={"seed":id,"property":prop,"patch":os.path.basename(patch),
 "what_it_needs_to_manifest":notes[:1500],
 "confirmed":{"how":"tools/confirm_seed.sh in a scratch worktree of /repo HEAD: patch applies, go build ./... ok, the 75 baseline tests still pass, demo fails with the patch and passes without",
              "demo_destination":dest,"demo_command":f"go test -vet=off -count=1 -run '{run}' {pkg}"},
 "check_run":{"command":f"git -C /repo apply {patch}; python3 tools/check.py {prop} --tier quick; git -C /repo checkout -- .","summary":line,"violation_line":viol,"caught":caught!="0"}}
json.dump(meta,open(f'/verif/seeded/{id}/meta.json','w'),indent=1)
print(id, "caught" if caught!="0" else "MISSED", line[-90:])
PY
done < ${SEEDTABLE:-tools/seedtable.txt}
