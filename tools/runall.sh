#!/bin/bash
# Runs every property's quick check on the current tree (clean /repo expected) and rewrites evidence/.
cd "$(dirname "$0")/.." || exit 2
rc=0
for i in $(seq -w 1 20); do
  python3 tools/check.py C$i --tier "${1:-quick}" 2>&1 | grep -E "^(VIOLATION|KNOWN-FINDING|property=)" | cut -c1-220 || true
  [ "${PIPESTATUS[0]}" = "0" ] || rc=1
done
exit $rc
