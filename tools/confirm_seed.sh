#!/bin/bash
# confirm_seed.sh <worktree> <mdir> <demo-dest-relative-path> <go test pkg> [<-run regexp>]
# Confirms in the scratch worktree: patch applies, builds, baseline tests unchanged, demo fails with / passes without.
set -u
export GOFLAGS=-mod=mod GOPROXY=off GOSUMDB=off GOTOOLCHAIN=local
WT=$1; M=$2; DEST=$3; PKG=$4; RUN=${5:-.}
cd "$WT" || exit 2
git checkout -q -- . ; git clean -fdq -e _out >/dev/null
baseline() { go test -vet=off -count=1 -json ./... 2>/dev/null | python3 -c "
import sys,json
p=set()
for l in sys.stdin:
    try: e=json.loads(l)
    except: continue
    if e.get('Test') and e.get('Action')=='pass': p.add(e['Package']+'::'+e['Test'])
base=set(json.load(open('/root/.vp/BASELINE.json'))['stable_pass'])
print('MISSING' if base-p else 'BASELINE_OK', sorted(base-p)[:5])"; }
git apply "$M/patch.diff" || { echo "PATCH DOES NOT APPLY"; exit 1; }
go build ./... || { echo "BUILD FAILS"; exit 1; }
echo -n "with patch: "; baseline
mkdir -p "$(dirname "$DEST")"; cp "$M/demo_test.go" "$DEST"
if go test -vet=off -count=1 -run "$RUN" "$PKG" >/tmp/seed_demo.log 2>&1; then echo "DEMO PASSES WITH PATCH (bad)"; else echo "demo fails with patch (good)"; fi
git checkout -q -- .
if go test -vet=off -count=1 -run "$RUN" "$PKG" >/tmp/seed_demo2.log 2>&1; then echo "demo passes on clean tree (good)"; else echo "DEMO FAILS ON CLEAN TREE (bad)"; tail -5 /tmp/seed_demo2.log; fi
rm -f "$DEST"; rmdir "$(dirname "$DEST")" 2>/dev/null; git clean -fdq -e _out >/dev/null
