#!/usr/bin/env python3
"""One driver for every property: proof obligations -> run the implementation ->
in-Coq correspondence -> verdict (+ failing-input search).  See DESIGN.md section 2.1.

usage: tools/check.py <ID> [--tier quick|thorough] [--seed N] [--replay FILE]
exit 0: property held on everything explored; exit 1: VIOLATION line printed.
"""
import argparse
import concurrent.futures as cf
import fcntl
import glob
import hashlib
import json
import os
import re
import shutil
import subprocess
import sys
import time

ROOT = os.path.dirname(os.path.dirname(os.path.abspath(__file__)))
COQ = os.path.join(ROOT, "coq")
# The registered commands use the defaults (/repo, /verif/harness, /verif/work, /verif/evidence).
# The environment overrides exist for tools/sandbox.sh only: it runs a check against a scratch
# copy of the repository (a seeded or property-preserving change applied) without touching
# /repo or the committed evidence, so that many such runs can go on at the same time.
HARNESS = os.environ.get("VERIF_HARNESS", os.path.join(ROOT, "harness"))
WORK = os.environ.get("VERIF_WORK", os.path.join(ROOT, "work"))
SHARED_WORK = os.path.join(ROOT, "work")
EVIDENCE = os.environ.get("VERIF_EVIDENCE", os.path.join(ROOT, "evidence"))
REPO = os.environ.get("VERIF_REPO", "/repo")

sys.path.insert(0, os.path.join(ROOT, "tools"))
from props import PROPS, REAL_AXIOMS  # noqa: E402

GOENV = dict(os.environ, GOFLAGS="-mod=mod", GOPROXY="off", GOSUMDB="off",
             GOTOOLCHAIN="local", TZ="UTC", CGO_ENABLED="0")
FORBIDDEN = re.compile(
    r"\b(Admitted|admit|Axiom|Axioms|Parameter|Parameters|Conjecture|Conjectures|"
    r"Unset\s+Guard|bypass_check|type-in-type|impredicative-set|Admit\s+Obligations|"
    r"Unset\s+Positivity|Unset\s+Universe)\b")


def log(*a):
    print("[check]", *a, file=sys.stderr, flush=True)


def run(cmd, cwd=None, env=None, timeout=None):
    p = subprocess.run(cmd, cwd=cwd, env=env, timeout=timeout, stdout=subprocess.PIPE,
                       stderr=subprocess.STDOUT, text=True, errors="replace")
    return p.returncode, p.stdout


class Lock:
    def __init__(self, name):
        # the Coq build is shared by every run; the Go build is per work directory
        base = SHARED_WORK if name.startswith("coq") else WORK
        os.makedirs(base, exist_ok=True)
        self.path = os.path.join(base, name)

    def __enter__(self):
        self.f = open(self.path, "w")
        fcntl.flock(self.f, fcntl.LOCK_EX)

    def __exit__(self, *a):
        fcntl.flock(self.f, fcntl.LOCK_UN)
        self.f.close()


# --------------------------------------------------------------------------- stage 1

def strip_comments(src):
    out, depth, i = [], 0, 0
    while i < len(src):
        if src.startswith("(*", i):
            depth += 1
            i += 2
        elif src.startswith("*)", i) and depth > 0:
            depth -= 1
            i += 2
        else:
            if depth == 0:
                out.append(src[i])
            i += 1
    return "".join(out)


def audit_sources():
    bad = []
    for path in glob.glob(os.path.join(COQ, "**", "*.v"), recursive=True):
        src = strip_comments(open(path).read())
        # string literals may legitimately contain the words
        src = re.sub(r'"[^"]*"', '""', src)
        for m in FORBIDDEN.finditer(src):
            bad.append("%s: %s" % (os.path.relpath(path, ROOT), m.group(0)))
    return bad


def coq_build():
    with Lock("coq.lock"):
        if not os.path.exists(os.path.join(COQ, "Makefile")):
            rc, out = run(["coq_makefile", "-f", "_CoqProject", "-o", "Makefile"], cwd=COQ)
            if rc != 0:
                return False, out
        rc, out = run(["make", "-j16"], cwd=COQ, timeout=3000)
        return rc == 0, out


def parse_assumptions(out):
    """Return list of (theorem-or-None, set(axioms)) blocks from coqc output."""
    axioms = set()
    blocks = re.split(r"\n(?=Axioms:|Closed under the global context)", "\n" + out)
    nblocks = 0
    for b in blocks:
        b = b.strip()
        if b.startswith("Closed under the global context"):
            nblocks += 1
        elif b.startswith("Axioms:"):
            nblocks += 1
            for m in re.finditer(r"^([A-Za-z_][\w.']*)\s*\n?\s*:", b[len("Axioms:"):], re.M):
                axioms.add(m.group(1))
    return nblocks, axioms


def stage1(pid, ev):
    cfg = PROPS[pid]
    ok, out = coq_build()
    problems = []
    if not ok:
        problems.append("coq build failed:\n" + out[-3000:])
    props_file = os.path.join(COQ, "Props", pid + ".v")
    src = strip_comments(open(props_file).read())
    theorems = re.findall(r"\b(?:Theorem|Lemma|Corollary)\s+([\w']+)", src)
    nprint = len(re.findall(r"\bPrint\s+Assumptions\b", src))
    ev["obligations"] = len(theorems)
    ev["theorems"] = theorems
    discharged = 0
    axioms = set()
    if ok:
        with Lock("coq.lock"):
            rc, pout = run(["coqc", "-Q", ".", "TT", "-w", "none", os.path.join("Props", pid + ".v")],
                           cwd=COQ, timeout=1200)
        if rc != 0:
            problems.append("Props/%s.v no longer compiles:\n%s" % (pid, pout[-3000:]))
        else:
            nblocks, axioms = parse_assumptions(pout)
            if nblocks != nprint or nprint < len(theorems):
                problems.append("Print Assumptions blocks %d, expected %d for %d theorems" % (nblocks, nprint, len(theorems)))
            allowed = set(REAL_AXIOMS) if cfg.get("axioms") == "reals" else set(cfg.get("axioms_allowed", []))
            extra = axioms - allowed
            if extra:
                problems.append("unexpected axioms: %s" % sorted(extra))
            if not problems:
                discharged = len(theorems)
    bad = audit_sources()
    if bad:
        problems.append("forbidden vernacular: " + "; ".join(bad[:10]))
        discharged = 0
    ev["discharged"] = discharged
    ev["axioms_reported"] = sorted(axioms)
    return problems


# --------------------------------------------------------------------------- stage 2

def build_harness():
    with Lock("go.lock"):
        try:
            shutil.copyfile(os.path.join(REPO, "go.sum"), os.path.join(HARNESS, "go.sum"))
        except OSError:
            pass
        os.makedirs(os.path.join(WORK, "bin"), exist_ok=True)
        rc, out = run(["go", "build", "-tags", "verif", "-o", os.path.join(WORK, "bin", "vh"), "./cmd/vh"],
                      cwd=HARNESS, env=GOENV, timeout=1200)
        return rc == 0, out


def run_vh(pid, outdir, seed, tier, replay=None, scale=None, timeout=3000):
    cmd = [os.path.join(WORK, "bin", "vh"), pid, "-seed", str(seed), "-tier", tier, "-out", outdir]
    if replay:
        cmd += ["-replay", replay]
    if scale:
        cmd += ["-scale", str(scale)]
    env = dict(GOENV, VERIF_ROOT=ROOT, VERIF_REPO=REPO, VERIF_WORK=WORK)
    try:
        rc, out = run(cmd, cwd=ROOT, env=env, timeout=timeout)
    except subprocess.TimeoutExpired:
        return False, "vh timed out after %ds" % timeout
    return rc == 0, out


# --------------------------------------------------------------------------- stage 3

HYP_COUNTS = []


def eval_shard(path):
    try:
        rc, out = run(["bash", "-c", "ulimit -s unlimited 2>/dev/null || ulimit -s 1000000; exec coqc -Q %s TT -w none %s" % (COQ, path)],
                      cwd=os.path.dirname(path), timeout=1800)
    except subprocess.TimeoutExpired:
        return path, None, "coqc timeout"
    if rc != 0:
        return path, None, out[-2000:]
    flat = re.sub(r"\s+", "", out)
    hm = re.search(r'H="([01]*)"', flat)
    if hm:
        HYP_COUNTS.append((hm.group(1).count("1"), len(hm.group(1))))
    m = re.search(r'M="([AVSKO]*)"', flat)
    if not m:
        m2 = re.search(r'M=""', flat)
        if m2:
            return path, "", None
        return path, None, "no verdict string in output: " + out[-500:]
    return path, m.group(1), None


def correspondence(outdir):
    """Evaluate every shard; returns (verdict string over all cases in order, errors)."""
    # numeric order (more than 999 shards get four digits)
    shards = sorted(glob.glob(os.path.join(outdir, "cases_*.v")), key=lambda p: int(re.search(r"cases_(\d+)\.v$", p).group(1)))
    stats = json.load(open(os.path.join(outdir, "stats.json")))
    size = stats["shard_size"]
    results = {}
    errors = []
    retry = []
    with cf.ThreadPoolExecutor(max_workers=int(os.environ.get("VERIF_JOBS", "16"))) as ex:
        for path, verdicts, err in ex.map(eval_shard, shards):
            if err is not None and (err.strip() == "" or err == "coqc timeout" or "Out of memory" in err or "Killed" in err):
                # coqc ended without saying anything (killed by the kernel under memory pressure,
                # 16 evaluations at once) or ran out of time: evaluate this shard again, alone
                retry.append(path)
                continue
            if err is not None:
                errors.append((path, err))
                verdicts = None
            results[path] = verdicts
    for path in retry:
        log("re-evaluating %s alone" % os.path.basename(path))
        path, verdicts, err = eval_shard(path)
        if err is not None:
            errors.append((path, err if err.strip() else "coqc was killed twice without output (out of memory?)"))
            verdicts = None
        results[path] = verdicts
    letters = []
    for i, path in enumerate(shards):
        v = results[path]
        n = min(size, stats["evaluations"] - i * size)
        if v is None or len(v) != n:
            if v is not None:
                errors.append((path, "verdict count %d != %d cases" % (len(v), n)))
            letters.append("?" * n)
        else:
            letters.append(v)
    for f in glob.glob(os.path.join(outdir, "cases_*.vo")) + glob.glob(os.path.join(outdir, "cases_*.glob")) + \
            glob.glob(os.path.join(outdir, ".cases_*.aux")) + glob.glob(os.path.join(outdir, "cases_*.vok")) + \
            glob.glob(os.path.join(outdir, "cases_*.vos")):
        os.remove(f)
    return "".join(letters), errors, stats


def load_cases(outdir):
    cases = []
    with open(os.path.join(outdir, "cases.jsonl")) as f:
        for line in f:
            cases.append(json.loads(line))
    return cases


# --------------------------------------------------------------------------- findings

def known_findings(pid):
    path = os.path.join(ROOT, "KNOWN_FINDINGS.json")
    if not os.path.exists(path):
        return []
    data = json.load(open(path))
    return [e for e in data.get("findings", []) if e.get("property") == pid]


# --------------------------------------------------------------------------- main

def write_replay(pid, seed, tier, name, payload):
    d = os.path.join(WORK, pid)
    os.makedirs(d, exist_ok=True)
    path = os.path.join(d, name)
    payload = dict(payload, property=pid, seed=seed, tier=tier)
    with open(path, "w") as f:
        json.dump(payload, f, indent=1, default=str)
    return path


def write_evidence(pid, tier, seed, ev, wall, violations):
    cfg = PROPS[pid]
    level = cfg["level"]
    cov = {
        "obligations": ev.get("obligations", 0),
        "discharged": ev.get("discharged", 0),
        "checker_cmd": "coqc 8.16.1 (make -C coq; coqc Props/%s.v with Print Assumptions; coqc on generated case shards)" % pid,
        "trusted_base": ev.get("trusted_base", []),
        "theorems": ev.get("theorems", []),
        "axioms_reported": ev.get("axioms_reported", []),
        "evaluations": ev.get("evaluations", 0),
        "distinct_nontrivial": ev.get("distinct_nontrivial", 0),
        "rule": cfg["rule"],
        "samples": ev.get("samples", []),
        "verdicts": ev.get("verdicts", {}),
        "outside_model": ev.get("verdicts", {}).get("O", 0),
        "histogram": ev.get("histogram", {}),
        "corpus_cases": ev.get("corpus_cases", 0),
        "traces_validated_against_impl": ev.get("evaluations", 0),
        "explanation": cfg.get("explanation", ""),
        "stage_problems": ev.get("problems", []),
        "exhaustive": bool(ev.get("exhaustive", False)),
    }
    cov.update(ev.get("extra_cov", {}))
    if HYP_COUNTS:
        cov["cases_meeting_main_theorem_hypothesis"] = "%d of %d" % (sum(a for a, _ in HYP_COUNTS), sum(b for _, b in HYP_COUNTS))
    doc = {
        "property_id": pid, "tier": tier, "seed": seed, "level": level,
        "coverage": cov,
        "assumptions": cfg.get("assumptions", []),
        "wall_s": round(wall, 2),
        "violations": violations,
    }
    os.makedirs(EVIDENCE, exist_ok=True)
    with open(os.path.join(EVIDENCE, pid + ".json"), "w") as f:
        json.dump(doc, f, indent=1, default=str)


def classify(pid, letters, cases, kf_open):
    """Return dict with lists of indices per verdict."""
    res = {k: [] for k in "AVSKO?"}
    for i, ch in enumerate(letters):
        res[ch].append(i)
    return res


def one_pass(pid, seed, tier, sub, replay=None, scale=None):
    outdir = os.path.join(WORK, pid, sub)
    shutil.rmtree(outdir, ignore_errors=True)
    os.makedirs(outdir, exist_ok=True)
    ok, out = run_vh(pid, outdir, seed, tier, replay=replay, scale=scale,
                     timeout=int(PROPS[pid].get("vh_timeout", 1500)) * (4 if tier == "thorough" else 1))
    if not ok:
        return None, "harness run failed: " + out[-3000:]
    letters, errors, stats = correspondence(outdir)
    cases = load_cases(outdir)
    return dict(letters=letters, errors=errors, stats=stats, cases=cases, outdir=outdir), None


def main():
    ap = argparse.ArgumentParser()
    ap.add_argument("pid")
    ap.add_argument("--tier", default=os.environ.get("VERIF_TIER", "quick"))
    ap.add_argument("--seed", type=int, default=int(os.environ.get("VERIF_SEED", "20260930")))
    ap.add_argument("--replay")
    args = ap.parse_args()
    pid, tier, seed = args.pid, args.tier, args.seed
    if tier not in ("quick", "thorough"):
        tier = "quick"
    if pid not in PROPS:
        print("unknown property", pid)
        return 2
    cfg = PROPS[pid]
    t0 = time.time()
    ev = {"trusted_base": list(cfg.get("trusted_base", []))}
    violations = []          # (kind, replay_path, no_input_flag)
    known_lines = []

    problems = stage1(pid, ev)
    ev["problems"] = problems
    for p in problems:
        log("stage1:", p.splitlines()[0])

    ok, out = build_harness()
    harness_ok = ok
    if not ok:
        path = write_replay(pid, seed, tier, "replay_build.json",
                            {"verdict": "harness-or-tree-does-not-build", "theorem_or_shard": "go build of harness against /repo",
                             "output": out[-6000:]})
        violations.append(("build", path, True))

    kf = known_findings(pid)
    kf_open = [e for e in kf if e.get("status") == "open"]

    if args.replay and harness_ok:
        rp = json.load(open(args.replay))
        tmp = os.path.join(WORK, pid, "replay_input.jsonl")
        os.makedirs(os.path.dirname(tmp), exist_ok=True)
        with open(tmp, "w") as f:
            inputs = rp.get("inputs") or [rp.get("input")]
            for inp in inputs:
                f.write(json.dumps({"input": inp}) + "\n")
        res, err = one_pass(pid, seed, tier, "replay", replay=tmp)
        if err:
            print(err)
            return 1
        print("replay verdicts:", res["letters"])
        for i, c in enumerate(res["cases"]):
            print(json.dumps({"verdict": res["letters"][i], "input": c["input"], "obs": c["obs"]})[:2000])
        if any(ch in "VS?" for ch in res["letters"]):
            print("VIOLATION property=%s replay=%s" % (pid, args.replay))
            return 1
        return 0

    total_letters = ""
    all_cases = []
    hist = {}
    if harness_ok:
        passes = []
        corpus = os.path.join(ROOT, "corpus", pid, "cases.jsonl")
        if os.path.exists(corpus):
            passes.append(("corpus", dict(replay=corpus)))
        passes.append(("run", dict()))
        for sub, kw in passes:
            res, err = one_pass(pid, seed, tier, sub, **kw)
            if err:
                path = write_replay(pid, seed, tier, "replay_harness_%s.json" % sub,
                                    {"verdict": "harness-run-failed", "theorem_or_shard": "vh %s (%s)" % (pid, sub), "output": err})
                violations.append(("harness", path, True))
                continue
            if sub == "corpus":
                ev["corpus_cases"] = len(res["cases"])
            for path, e in res["errors"]:
                rp = write_replay(pid, seed, tier, "replay_shard_%s_%s.json" % (sub, os.path.basename(path)),
                                  {"verdict": "correspondence-shard-does-not-evaluate", "theorem_or_shard": path, "output": e})
                violations.append(("shard", rp, True))
            letters, cases = res["letters"], res["cases"]
            total_letters += letters
            all_cases += cases
            for k, v in res["stats"].get("histogram", {}).items():
                hist[k] = hist.get(k, 0) + v
            if HYP_COUNTS:
                ev.setdefault("extra_cov", {})
            if sub == "run":
                ev["evaluations"] = res["stats"]["evaluations"]
                ev["distinct_nontrivial"] = res["stats"]["distinct_nontrivial"]
                ev["exhaustive"] = bool(res["stats"].get("extra", {}).get("exhaustive", False))
                ev["extra_cov"] = {k: v for k, v in res["stats"].get("extra", {}).items() if k != "exhaustive"}
            # V: direct violations
            vidx = [i for i, ch in enumerate(letters) if ch == "V"]
            sidx = [i for i, ch in enumerate(letters) if ch == "S"]
            kidx = [i for i, ch in enumerate(letters) if ch == "K"]
            if vidx:
                # the smallest failing input (by JSON length) is the replay
                best = min(vidx, key=lambda i: len(json.dumps(cases[i]["input"])))
                rp = write_replay(pid, seed, tier, "replay_%s_%d.json" % (sub, best),
                                  {"verdict": "V", "input": cases[best]["input"], "impl_observed": cases[best]["obs"],
                                   "theorem_or_shard": "Run_%s.check_case" % pid, "count": len(vidx),
                                   "other_failing_inputs": [cases[i]["input"] for i in vidx[:5]]})
                violations.append(("V", rp, False))
            if sidx and not vidx:
                # the correspondence no longer checks: search for a failing input
                found = None
                if tier == "quick":
                    log("correspondence differs (S); searching with the thorough generator")
                    res2, err2 = one_pass(pid, seed + 1, "quick", "search", scale=2)
                    if res2:
                        v2 = [i for i, ch in enumerate(res2["letters"]) if ch == "V"]
                        if v2:
                            best = min(v2, key=lambda i: len(json.dumps(res2["cases"][i]["input"])))
                            found = res2["cases"][best]
                if found:
                    rp = write_replay(pid, seed, tier, "replay_search.json",
                                      {"verdict": "V", "input": found["input"], "impl_observed": found["obs"],
                                       "theorem_or_shard": "Run_%s.check_case" % pid})
                    violations.append(("V", rp, False))
                else:
                    best = sidx[0]
                    rp = write_replay(pid, seed, tier, "replay_S_%s_%d.json" % (sub, best),
                                      {"verdict": "S", "input": cases[best]["input"], "impl_observed": cases[best]["obs"],
                                       "theorem_or_shard": "correspondence Run_%s.check_case: implementation differs from the model on this input while still meeting the property's relation" % pid,
                                       "count": len(sidx)})
                    violations.append(("S", rp, True))
            if kidx:
                if not kf_open:
                    best = kidx[0]
                    rp = write_replay(pid, seed, tier, "replay_K_%s_%d.json" % (sub, best),
                                      {"verdict": "V", "input": cases[best]["input"], "impl_observed": cases[best]["obs"],
                                       "theorem_or_shard": "known-finding class matched but no open finding is listed"})
                    violations.append(("V", rp, False))
    if problems:
        # a broken obligation: the property is no longer shown.  If the correspondence found
        # a failing input it is already reported above; otherwise say so.
        if not any(k == "V" for k, _, _ in violations):
            rp = write_replay(pid, seed, tier, "replay_obligation.json",
                              {"verdict": "proof-obligation-broken", "theorem_or_shard": "Props/%s.v" % pid,
                               "problems": problems})
            violations.append(("proof", rp, True))

    counts = {k: total_letters.count(k) for k in "AVSKO?"}
    ev["verdicts"] = counts
    ev["histogram"] = hist
    ev["samples"] = [{"input": c["input"], "obs": c["obs"]} for c in all_cases[:1] + all_cases[len(all_cases) // 2:len(all_cases) // 2 + 1] + all_cases[-1:]]
    # keep samples short
    ev["samples"] = [json.loads(json.dumps(s)[:4000]) if len(json.dumps(s)) <= 4000 else {"truncated": json.dumps(s)[:1500]} for s in ev["samples"]]
    if not ev["samples"]:
        ev["samples"] = [{"note": "no case evaluated"}]

    for e in kf_open:
        if counts.get("K", 0) > 0 or e.get("always_report"):
            known_lines.append("KNOWN-FINDING: property=%s %s" % (pid, e.get("what", "")))

    wall = time.time() - t0
    nviol = len([v for v in violations])
    write_evidence(pid, tier, seed, ev, wall, nviol)
    for line in known_lines:
        print(line)
    print("property=%s tier=%s seed=%d obligations=%d discharged=%d cases=%d verdicts=%s wall=%.1fs" % (
        pid, tier, seed, ev.get("obligations", 0), ev.get("discharged", 0), len(total_letters), counts, wall))
    if violations:
        # one line per distinct kind, real failing inputs first
        violations.sort(key=lambda v: v[2])
        seen = set()
        for kind, path, noinput in violations:
            if kind in seen:
                continue
            seen.add(kind)
            print("VIOLATION property=%s replay=%s%s" % (pid, path, " no-failing-input-found" if noinput else ""))
        return 1
    return 0


if __name__ == "__main__":
    try:
        rc = main()
    except SystemExit:
        raise
    except BaseException as exc:  # the machinery itself failed: the property is not shown on this tree
        import traceback
        pid = sys.argv[1] if len(sys.argv) > 1 else "?"
        rp = write_replay(pid, 0, "quick", "replay_internal_error.json",
                          {"verdict": "check-machinery-failed", "theorem_or_shard": "tools/check.py",
                           "error": "".join(traceback.format_exception(type(exc), exc, exc.__traceback__))[-4000:]})
        print("VIOLATION property=%s replay=%s no-failing-input-found" % (pid, rp))
        rc = 1
    sys.exit(rc)
