"""Per-property configuration shared by check.py and mkmanifest.py."""

REAL_AXIOMS = [
    "ClassicalDedekindReals.sig_forall_dec",
    "ClassicalDedekindReals.sig_not_dec",
    "FunctionalExtensionality.functional_extensionality_dep",
    "Classical_Prop.classic",
]

TB_COMMON = [
    "Coq 8.16.1 kernel and coqc; vm_compute (bytecode VM) for evaluation and finite sweeps; no native_compute",
    "hand-written Gallina model tied to /repo by the correspondence check (Go harness vh, case-file printer, Run/Run_<id>.v, tools/check.py)",
]
TB_REALS = [
    "axioms (all declared by the Coq standard library, reached through Flocq's binary64): "
    "ClassicalDedekindReals.sig_forall_dec, ClassicalDedekindReals.sig_not_dec, "
    "FunctionalExtensionality.functional_extensionality_dep, Classical_Prop.classic",
]
TB_NOAX = ["axioms: none (Print Assumptions: Closed under the global context)"]

PROPS = {}


def prop(pid, **kw):
    kw.setdefault("level", "proof")
    kw.setdefault("axioms", "none")
    tb = list(TB_COMMON) + (TB_REALS if kw["axioms"] == "reals" else TB_NOAX) + kw.get("trusted_extra", [])
    kw["trusted_base"] = tb
    PROPS[pid] = kw


prop("C10",
     axioms="reals",
     design_ref="DESIGN.md section 5 C10",
     technique="Rocq proof over the column table and, through Flocq's Bmult/Bminus/Bdiv correctness, real-number error bounds of every conversion for all float64 values + in-Coq correspondence (vm_compute) against the real decoder",
     text="Theorems over the model of Decoder.columns / parseFloat64 / units.go: every dual-unit quantity's imperial "
          "and metric headers target the same record field, the metric column stores the parsed number, the imperial "
          "column stores exactly the imperial->metric conversion, float columns commute (column order), constants are "
          "within their printed precision of the exact definitions.  Over the reals (C10_imperial_real): for every float64 v with |v| <= 2^1000 "
          "the stored feet/miles/PSI value is within 3*2^-53 relative (+2^-1075) of v times the decimal constant of units.go, and it is the correctly "
          "rounded product; Fahrenheit is (v-32)*5/9 with one half-ulp per operation (C10_fahrenheit_real).  The model is tied to the code by running the real "
          "decoder on generated one-row logs and comparing the stored bits with the model evaluated inside Coq.",
     rule="one case = (one of the 18 unit columns, one decimal cell text, one of 3 column layouts); cells are generated "
          "(sign, 0-6 integer digits, 0-6 and occasionally up to 20 fraction digits) plus a fixed list of specials; "
          "distinct = distinct (column, cell text); non-trivial = the cell is not a spelling of zero",
     assumptions=["strconv.ParseFloat is modelled on plain decimals only (exponents, hex, inf/nan are verdict O)",
                  "Flocq binary64 arithmetic = Go float64 arithmetic (validated bit-for-bit by every case)"],
     note="Trusted: Coq kernel + vm_compute; stdlib real-number axioms via Flocq; correspondence harness. "
          "Modelled not verified: strconv.ParseFloat on plain decimals, encoding/csv on the generated rows.")

GPMF_NOTE = ("Trusted: Coq kernel + vm_compute; correspondence harness (KLV synthesiser, tree dumper). Modelled not verified: "
             "encoding/binary + io.ReadFull/CopyN/LimitedReader semantics on an in-memory byte slice, time.Parse for the "
             "16-byte GPMF date layout, strings.TrimRight/Replacer on bytes, Go float32->float64 and int->float64 conversions (via Flocq).")

prop("C06",
     axioms="reals",
     design_ref="DESIGN.md section 5 C06",
     technique="Rocq proof (reader inverts encoder on every well-formed forest, trailing bytes become siblings, every strict cut is an error, big-endian value round trip, value counts, walker = pruned preorder) + in-Coq correspondence of the reader model against Reader.Read/Walk on synthesised KLV forests and every prefix",
     text="Theorems about the Gallina port of Reader.read/Element.format: read (encode_forest ts) = map abstract ts for every well-formed forest "
          "of any depth and width (C06_reader_inverts_encoder, by induction on tree size), read (encode t ++ rest) = abstract t :: read rest "
          "(C06_siblings_not_children), cutting an element's encoding anywhere strictly inside it is an error whatever precedes it "
          "(C06_truncated_is_error); integer and fixed-point values of every width decode to "
          "the encoded value over the full range, an element exposes size*repeat/width values in order, the walker visits the "
          "pre-order and prunes exactly skipped sub-trees.  The reader model (header, payload, padding, nested limit, formatters) is "
          "tied to the code by comparing whole dumped trees and walker logs on generated forests, their prefixes and the repository's raw captures.",
     rule="one case = one byte stream (random forest depth 1-4 over all 16 types, sizes 1..255, repeats 0..6 and a few hundred; "
          "every/each-third prefix of encodings <= 96 bytes; container followed by siblings; raw captures) + a walker skip modulus; "
          "distinct = distinct (bytes, modulus); non-trivial = at least 12 bytes",
     assumptions=["well-formed streams come from the harness's own encoder (knode.encode)", "NaN payloads of type f/d values are compared as raw bits"],
     note=GPMF_NOTE)

prop("C07",
     axioms="reals",
     design_ref="DESIGN.md section 5 C07",
     technique="Rocq proof (scale values, scale consumed by next sibling only, sample layout/count, rejection) + in-Coq correspondence on synthesised sensor streams",
     text="Theorems about the model of scale.go/floats.go/element.format and the sensor parsers: value i = raw[i]/scale[i mod n]; a pending "
          "scale is consumed by the very next element and parser-less elements with nothing pending stay raw; sample k field f is value "
          "w*k+f with count values/w, Z,X,Y order; non-multiples are rejected.  Tied to the code by comparing every decoded value bit for "
          "bit on generated streams (scaled/unscaled siblings, all scalable types, faces of the four layouts, GPSP/GPSF incl. wrong types).",
     rule="one case = one DEVC with 1-2 streams of 1-4 groups (optional SCAL of length 1-6 + sensor/plain element of any scalable type with 0-8 samples, "
          "unscaled sibling after it, FACE with TYPE of the 4 layouts incl. undersized/unknown/missing, GPSP/GPSF incl. wrong types, 8% non-multiples); "
          "distinct = distinct byte streams; non-trivial = at least 12 bytes",
     assumptions=["float division/conversion is Flocq's binary64 (validated bit-for-bit on every case)"],
     note=GPMF_NOTE)

prop("C09",
     axioms="reals",
     design_ref="DESIGN.md section 5 C09",
     technique="Rocq proof that neither the reader model (all byte strings) nor the MP4 sample-table decoder model (all tables, payloads, tracks) reaches a panic site or exhausts its fuel + correspondence on hostile inputs (reader) and hostile MP4 sample tables (decoder) under recover/watchdog",
     text="C09_reader_total: for every byte string the Gallina port of Reader.read (all panic sites explicit, loop on fuel) returns Ok or Err.  "
          "C09_decoder_total: for arbitrary stts/stsc/stsz/stco contents, payload bytes and tracks the port of decodeTrak/Decode returns Ok or Err.  "
          "The proof found a real crash (nested FACE, D23, fixed).  The model is tied to the code on random bytes, mutated streams and captures; a panic "
          "or timeout of the implementation is a violation whatever the model says.",
     rule="one case = one byte string (named cases of the statement; random bytes; bit flips, truncations, header-field overwrites, splices on generated "
          "streams/forests and on the first DEVC of the raw captures); distinct = distinct bytes; non-trivial = at least 12 bytes",
     assumptions=["'never hangs' is proved for the code's own loops (fuel = input length + 1); a blocking io.Reader is outside the model and only watched by a 10 s watchdog",
                  "the MP4 decoder half uses C08's model of the sample-table walk; box parsing itself is mp4ff's (outside the model, exercised by the hostile-table cases)"],
     note=GPMF_NOTE)

prop("C16",
     axioms="reals",
     design_ref="DESIGN.md section 5 C16",
     technique="Rocq proof about the metadata frames (own stream first, then enclosing containers, root excluded; last write wins) + in-Coq correspondence of every sensor element's metadata map",
     text="Theorems: a sensor element exposes for each key the value of its own stream else of the nearest enclosing container, restating replaces exactly "
          "that key, non-metadata elements never write into their container.  Tied to the code by comparing the (sorted) metadata map of every sensor "
          "element on generated payloads with 1-3 devices, 1-4 streams, random key subsets/orders, restated keys, late device keys, and several payloads per read.",
     rule="one case = one payload (or the concatenation of 2-3 payloads in one read): 1-3 DEVC x 1-4 STRM x random subsets/orders of 11 metadata keys with "
          "distinct values, sensors of 7 kinds, 35% restated key + second sensor, 15% late device key; distinct = distinct bytes; non-trivial = at least 12 bytes",
     assumptions=["map iteration order is irrelevant: maps are compared as key-sorted lists"],
     note=GPMF_NOTE)

TA_NOTE = ("Trusted: Coq kernel + vm_compute; correspondence harness (log generator/mutator, session dumper). Modelled not verified: "
           "bufio.Scanner line splitting, encoding/csv on one line, strconv.ParseFloat (plain decimals), Atoi, ParseBool, time.ParseDuration, "
           "fmt.Sscanf %d, the end-point regexp (as a hand-written leftmost matcher), strings.TrimSpace on ASCII; inputs using other "
           "spellings (exponents, non-ASCII white space ...) are counted as outside the model (verdict O).")

prop("C02",
     axioms="reals",
     design_ref="DESIGN.md section 5 C02",
     technique="Rocq refinement proof by induction over the history of rows and lap markers + in-Coq correspondence of whole decoded sessions",
     text="C02_refines_spec: for every history of data rows and lap-end markers the decoder model yields exactly the specified laps (rows in "
          "file order in the lap open at the time, marker i's number and duration on lap i, k markers -> k+1 laps, nothing dropped or duplicated, "
          "metadata untouched), low markers rejected.  The model (Scanner, csv line, 35-column switch, cell parsers, comment parser) is tied to "
          "the code by comparing the complete decoded session (every field of every record as bits/ns) on generated logs and an excerpt of the real log.",
     rule="one case = one log (header = the real 27 columns or a random subset/permutation of the 35 headers, 0-14 rows, 0-5 markers at random positions "
          "incl. adjacent/first/last and non-consecutive numbers, random '#' comments, CRLF 20%, no final newline 10%) + low-marker variants + real-log excerpt; "
          "distinct = distinct text; non-trivial = at least 10 bytes",
     assumptions=["well-formed = produced by the harness's log renderer"],
     note=TA_NOTE)

prop("C15",
     axioms="reals",
     design_ref="DESIGN.md section 5 C15",
     technique="Rocq proof that the decoder model is total (no panic site, loops within fuel) and never drops a data line silently + in-Coq correspondence on mutated and random text",
     text="C15_total: for arbitrary text the Gallina port of Decoder.Decode returns Ok or Err; C15_no_silent_loss: a non-comment line either sets the "
          "columns, appends exactly one record, or is the cause of the error.  Tied to the code on mutated logs (deleted/duplicated fields, truncated "
          "lines, colon-less comments, blank lines, stray quotes, unparsable values, unknown columns, malformed markers/end points, 70 kB lines) and random text; "
          "a panic or timeout of the implementation is a violation.",
     rule="one case = one text (18 named inputs; 80% single or double mutations of generated well-formed logs with 14 mutation kinds; 10% random bytes; 10% random "
          "text over the syntax alphabet); distinct = distinct text; non-trivial = at least 10 bytes",
     assumptions=["cells outside the modelled float grammar are verdict O (reported in evidence as outside_model)"],
     note=TA_NOTE)

CONV_NOTE = ("Trusted: Coq kernel + vm_compute; correspondence harness (session generator as Go values, database dumper). Oracle (assumed, supplied per case by the "
             "harness's own geodesic.WGS84.Inverse calls): the WGS-84 distance between successive fix positions. Modelled not verified: gonum "
             "interp.PiecewiseLinear (ported), math.Round, Duration.Seconds, time.Time arithmetic as integer nanoseconds in UTC.")

prop("C03",
     axioms="reals",
     design_ref="DESIGN.md section 5 C03",
     technique="Rocq proof by induction over laps/rows (lap selection, contiguous fix ids, fix = first row + GPS-updated rows, distance = running sum) + in-Coq correspondence of the whole converted database",
     text="Theorems about the Gallina port of TrackAddict.LapTimer/lapTimerLap/lapTimerFix for every session, option set and geodesic oracle: one output lap "
          "per middle source lap with its number/duration/track/tags/note/vehicle, fix ids id..id+n-1 without gaps across laps, a lap's fixes = first row "
          "then exactly the GPS-updated rows in order with offsets and dates of their rows, distance of fix k = running sum of the oracle distances, overall = "
          "round1dp(last).  Tied to the code by comparing every field of the converted database bit for bit on generated sessions.",
     rule="one case = one session built as Go values (0-6 laps, 0-9 rows per lap, GPS-update pattern random incl. none, optional accel/OBD blocks with random "
          "channel subsets) x option set (track, vehicle override, tags, note, differential, positioning, 20% start date, predictor on/off); distinct = distinct "
          "JSON input; non-trivial = at least 3 laps",
     assumptions=["geodesic distance is an oracle: the property's 'true WGS-84 distance' is whatever geodesic.WGS84.Inverse returns for the pair the model says"],
     note=CONV_NOTE)

prop("C11",
     axioms="reals",
     design_ref="DESIGN.md section 5 C11",
     technique="Rocq proof (PredictOBD for ANY fitted predictor: every row to fill gets the per-channel predictor's value at its time, every other row - all rows with fresh readings - is untouched, shape kept; sessions without OBD / without fresh readings convert; default predictor = linear interpolant; disabled = untouched) + in-Coq correspondence of every fix's OBD block, non-default gonum predictors through a fresh-fit oracle",
     text="Theorems about the port of Session.PredictOBD and gonum's PiecewiseLinear: C11_predict_spec - for every session and every predictor function the rows filled are exactly the "
          "GPS-updated rows with a stale reading, each channel receives the predictor fitted on that channel's fresh readings evaluated at the row's time, all other rows are "
          "unchanged (C11_fresh_rows_untouched), laps/rows/durations keep their shape, fewer than two fresh readings change nothing; logs with no OBD block or no fresh reading give Ok and unchanged records, "
          "interpolation disabled leaves records untouched, the default predictor strictly between two knots is y_i + slope_i (x - x_i) with slope_i the neighbours' "
          "difference quotient, and at a knot the reading itself.  Tied to the code by comparing the OBD channels of every output fix (and the outcome class) on "
          "sessions with every kind of GPS/OBD update interleaving and channel subset.",
     rule="one case = one session of 3-5 laps x 2-10 rows with random (GPS update, OBD update) flags, channel subsets (all six 40%, random otherwise), OBD mode "
          "(updates / never updated / no OBD block), predictor (default 80%, nil 20%); distinct = distinct JSON input; non-trivial = at least 3 laps",
     assumptions=["fresh readings at equal or decreasing time stamps make gonum panic; such sessions are outside the property's domain and verdict O",
                  "only the default (piecewise linear) and nil predictors are modelled; other gonum predictors are not exercised"],
     note=CONV_NOTE)

prop("C12",
     axioms="reals",
     design_ref="DESIGN.md section 5 C12",
     technique="Rocq proof that conversion with a start date equals conversion without it with all dates shifted by one constant (for all sessions and dates) + in-Coq correspondence of all dates",
     text="C12_constant_shift: for every list of laps, option set and start date D the database with D is the database without D with every lap and fix date moved "
          "by delta = D - UTC-midnight(first converted row) and nothing else changed; the first row lands on D with its time of day; differences preserved; no option = "
          "no shift.  Tied to the code by comparing every date on sessions straddling UTC midnight, with D in {none, logged day, day before/after, random}, rows in non-UTC zones.",
     rule="one case = one session (3-6 laps, starting up to 40 s before a UTC midnight 70% of the time, rows carrying location offsets 0/+10h/-8h/+14h/+5:30, 15% empty "
          "first timed lap) x start date (none; then one of logged day / next day / previous day / random 1970-2067); distinct = distinct JSON input; non-trivial = at least 3 laps",
     assumptions=["time.Time is modelled as integer nanoseconds since the epoch in UTC; the location attached to a time does not matter because the code calls .UTC()"],
     note=CONV_NOTE)

GOPRO_NOTE = ("Trusted: Coq kernel + vm_compute; correspondence harness (recording/fault-injecting in-memory filesystem installed through the verif hook, "
              "encoder stub, debug-log parser for the visiting order). Modelled not verified: the two regular expressions (as hand-written recognisers), "
              "sort.Sort on chapters, fs.WalkDir/SkipDir, filepath.Join/Ext on clean relative paths, html/template restricted to literal/{{.Name}}/{{.Ext}} "
              "pieces, the real os filesystem (osFS is six one-line adapters) and ffmpeg.")

prop("C04",
     axioms="none",
     design_ref="DESIGN.md section 5 C04",
     technique="Rocq proof over all listings and all visiting orders (grouping, validate iff contiguous, encoder only for validated groups with the exact concat list) + in-Coq correspondence with the observed map order",
     text="Theorems about the Gallina port of Matcher.Match/FileSet/Validate/fileSets/Process: sub-directories and directories ignored, files grouped by video "
          "number, Validate true iff chapters are 00.. or 01.. contiguous, and for EVERY visiting order, fault plan and encoder behaviour every encoder run belongs "
          "to a validated, non-skipped group and gets each chapter once in ascending order as source paths; empty directory = ErrNoFiles.  Tied to the code by "
          "comparing Match results on names and mutated names, Validate verdicts, and full processor runs (encoder argv, concat list content at call time, returned "
          "files, error class, final filesystem) with the map iteration order observed from the processor's own debug log.",
     rule="cases = Match on 27 universe names x 6 mutations; Validate on 120 chapter lists; 400 listings (60% built from joinable groups + near misses + one broken "
          "group, 40% random subsets of the universe; sub-directories with conforming names, a directory with a conforming name, skip lists, pre-existing outputs) "
          "x 4 configs, each run twice for different map orders; distinct = distinct JSON input; non-trivial = listing not empty",
     assumptions=["the visiting order handed to the model is the one the run actually used (read from the debug log); the theorem quantifies over all orders"],
     note=GOPRO_NOTE)

prop("C05",
     axioms="none",
     level="proof",
     design_ref="DESIGN.md section 5 C05",
     technique="Rocq proof over all fault plans (any operation failing at any position) + exhaustive single-fault enumeration against the real processor on a fault-injecting filesystem",
     text="Theorems about the port of processSet/Process over an abstract filesystem, for every fault plan, encoder behaviour and visiting order: at most one encoder "
          "run per video, only for validated non-skipped groups, never over an existing output unless overwriting, argv = configured args with the temp file in the "
          "slot after -i and the output last; on return the temp concat list is gone and every path other than the output is untouched.  Tied to the code by running "
          "the real processor on an in-memory filesystem with every single fault at every position of each fault-free run plus random double faults.",
     rule="for each of 45 (listing, config) pairs: the fault-free run, then one run per (operation kind, occurrence) over createtemp/write/close/stat/encoder/chtimes "
          "as counted in the fault-free run, then 3 random double-fault plans; configs vary overwrite, skip lists, output dir '', '.', other, templates, -i \"\" positions, "
          "encoder creating the output or not, template mapping onto a source; distinct = distinct JSON input; non-trivial = listing not empty",
     assumptions=["Remove itself is never faulted (the property's 'no longer exists' presumes the deferred removal can run)",
                  "the abstract filesystem's Stat/CreateTemp/Chtimes/Remove contracts are those of the harness's in-memory filesystem; the real osFS is not exercised"],
     note=GOPRO_NOTE)

prop("C14",
     axioms="none",
     design_ref="DESIGN.md section 5 C14 and appendix A.6",
     technique="Rocq proof over a labelled transition system of Encode (all chunkings, all failing positions, all interleavings): no deadlock, strictly decreasing measure, error reported, no goroutine left, complete output + fault enumeration of every write index against the real encoder under a watchdog",
     text="Theorems about an LTS of Encoder.Encode (main thread, filter goroutine, rendezvous pipe, 1-buffered channel, sticky failing output, optional gzip closer) "
          "with the chunking universally quantified and `reachable` ranging over every schedule: every non-final reachable state has a successor, every step decreases a "
          "measure (bounded time), a failure at write k < W makes every execution return an error, the goroutine has exited when Encode returns, a nil return means all "
          "W writes arrived; and the pre-repair variant is refuted by a reachable stuck state (D2).  Tied to the code by running Encode against outputs failing at every k in 0..W "
          "(plain and gzip) with a 3 s watchdog and goroutine-leak detection, and comparing returned/error/leak/completeness with the model's exhaustive exploration (small W) or the theorem's prediction.",
     rule="for each of 6 documents (0 laps .. 5 laps x 5 fixes with 5 kB notes) x {plain, gzip}: the fault-free run (W) then k = 0..W (all k when W <= 80, else the first/last 12 and every 11th); "
          "thorough: 40 documents, GOMAXPROCS 1/2/16, yields and sleeps injected in the output writer; distinct = distinct (document, gz, k, procs, yield); every case non-trivial",
     assumptions=["io.Pipe rendezvous semantics, bufio/xml flushing and gzip's sticky error are modelled, not verified; scheduler fairness is assumed (the watchdog observes it)",
                  "for W > 7 the in-Coq exploration is replaced by the proved prediction (err iff k < W)"],
     note="Trusted: Coq kernel + vm_compute (exhaustive exploration of small instances); correspondence harness (failing writer, watchdog, runtime.Stack leak detector). Modelled not verified: io.Pipe, bufio.Reader.ReadString, encoding/xml flush points, compress/gzip, the Go scheduler.")

prop("C08",
     axioms="reals",
     design_ref="DESIGN.md section 5 C08",
     technique="Rocq proof that the sample-table walk equals a direct per-chunk specification for every valid layout (C08_walk_is_spec: any increasing stsc runs, any stts runs, any sizes/offsets), and for all tables: each sample once, sizes, contiguous media-time intervals, samples read back to back from existing chunks; offset formula and bounds + in-Coq correspondence on MP4 files synthesised with mp4ff for every kind of valid layout and for hostile tables",
     text="Theorems about the Gallina port of Decoder.Decode/decodeTrak/offsets (after the repair D14): C08_walk_is_spec - for every valid sample-to-chunk table (entries increasing from chunk 1, "
          "naming existing chunks, minimal or redundant), any time-to-sample runs, sizes and chunk offsets, the walk IS 'chunks 1..C in order, chunk c holding spc_of c samples read back to back from its "
          "offset, sample k with the k-th size and the k-th duration of the expanded runs, until the declared count'; C08_samples_placed - on any tables every sample comes from an existing chunk, "
          "contiguously; for any tables a successful walk returns exactly the declared samples, "
          "k-th with the k-th stsz size, media-time intervals contiguous from 0 in presentation order; reading i of n gets start+i*(end-start)/n with start and end the exact media times floor(ticks*1e9/timescale) of the sample's boundaries, for every timescale (C08_offsets_formula, C08_media_time_exact; after the repair D27), starting at the sample's "
          "start, never decreasing, inside its own interval; no GoPro metadata track = error.  Tied to the code by decoding synthesised MP4s (all compositions into chunks, "
          "minimal/redundant stsc runs, stts run splits, shuffled chunk placement, stco/co64, 6 timescales, other tracks) and comparing the whole tree and every reading's offset.",
     rule="one case = one synthesised MP4: 1-6 samples (thorough 9) each a DEVC payload with GPS5 (0-4 readings) and optionally another sensor, random composition into chunks of 1-3 samples, "
          "stsc minimal or one entry per chunk, random deltas with merged or unmerged stts runs (+ empty trailing run), chunks placed in random order with gaps, stco/co64, timescale in "
          "{1,600,1000,30000,90000,1e9}, video track before or after; plus no-meta-track/other-handler files; plus 150 hostile table mutations (verdict S if only the ok/error class differs); "
          "distinct = distinct JSON input; non-trivial = at least one sample",
     assumptions=["box parsing is mp4ff's: the tables handed to the model are the ones the harness wrote", "uint64/int64 wrap-around is modelled; durations beyond int64 are outside the property"],
     note=GPMF_NOTE + " MP4 container parsing (mp4ff) is assumed.")

LT_NOTE = ("Trusted: Coq kernel + vm_compute; correspondence harness (reflective dumper of laptimer.DB into the generic value, generators, gzip/cp1252 oracles). "
           "Modelled not verified: encoding/xml marshalling order/omitempty/indentation and EscapeText (ported), fmt %.Nf (exact decimal expansion, round half even), "
           "time.Format/Parse for the two layouts, fmt.Sscanf %d, strconv.ParseFloat on plain decimals; assumed: strconv's shortest float formatting round-trips "
           "(plain float64 fields carry the text Go printed), compress/gzip, x/text charmap.")

prop("C01",
     axioms="reals",
     design_ref="DESIGN.md section 5 C01",
     technique="Rocq proof that re-encoding the decoded value reproduces the document for every database of the domain (C01_reencode_identical: enc (quant v) = enc v, induction over the value tree, leaves through Flocq and calendar arithmetic), of the document-level round trip (every value's bytes parse back to the printed element tree), of the fixed-decimal leaves through Flocq (print at dp decimals, parse to the nearest float64, print again: same text, for all values below 2^51 units of the last decimal), of the text round trip (all strings) and of the duration and date leaf round trips (all durations below 2^62 ns, all instants 1969-2068) + byte-exact in-Coq model of the encoder and of decode-after-encode checked against the real codec on generated databases; database-level round trip is PARTIAL (correspondence, not theorem)",
     text="Proved: C01_reencode_identical - for every value whose written leaves are in the leaf domain and without a vanishing optional leaf (the D22 class), quant v = Ok q and enc q = enc v, at any size and nesting.  Every text of valid XML characters survives escape -> line filter -> strict reader; integer-like leaves are fixed points; durations MM:SS.cc come back floored to 1/100 s for every 0 <= d < 2^62 (C01_duration_roundtrip, decimal print/scan inverse by induction) and are then fixed points, and the decoded duration or date prints as the same text (C01_duration_reencode, C01_date_reencode); dates come back floored to 1 s / 1/100 s for every instant 1969-01-01..2068-12-31 (C01_date_roundtrip: calendar bijection swept over all 36525 days inside Coq, time of day by arithmetic); the faithful model exhibits D22 "
          "(C01_reencode_omitempty_refuted); C01_document_roundtrip: for every value the file parses back to exactly the printed element tree (nothing lost or reordered at the XML level).  "
          "C01_leaf_reencode: for every leaf of the stated domain (texts, integers, fixed decimals including signed zeros, durations, dates, coordinates, relative positions, intermediates, gear ratios, tags, tyres, video sync points) decoding the written text succeeds and writing the result again gives the same text.  "
          "C01_fixed_decimal_reencode / C01_coordinate_reencode: for every float printing as 0 <= N < 2^51 units of the last of dp <= 22 decimals, the text is read back (nearest float64, within 2^-53+2^-64 relative, via Flocq) "
          "as a value that prints as the same text.  Not proved as one theorem (partial): enc(quant v) = enc v for whole databases (the struct level with its omitempty rule, where D22 lives) - this is checked per generated "
          "database: the model's encoder must produce the very bytes Encode wrote, Decode's value must equal the model's quant(v) leaf by leaf, the re-encoding must be identical, "
          "gzip must gunzip to the plain bytes and the windows-1252 transcoding must decode to the same value; the reflected xml-tag schema must equal the recorded one.",
     rule="one case = one database inside the round-trip domain: 0-3 laps (0-4 fixes each with optional acceleration/OBD/TPMS blocks, intermediates, videos, tags), 0-1 vehicle lists with "
          "gears/tyres; text over an alphabet weighted to quotes, ampersands, angle brackets, tabs, CR/LF, ]]>, literal entity look-alikes, cp1252 symbols and astral characters; floats "
          "near half a unit of the printed precision; durations up to 200 minutes and sub-centisecond; dates 1969-2068 in arbitrary zones; optional fixed-decimal fields never in the "
          "vanishing class (that class is the known finding D22, exercised by the corpus); distinct = distinct JSON; non-trivial = at least one lap or vehicle",
     assumptions=["values outside the statement's domain (negative durations, tags with commas, multi-token speed ratings, years outside 1969-2068) are not generated"],
     note=LT_NOTE)

prop("C13",
     axioms="reals",
     design_ref="DESIGN.md section 5 C13",
     technique="Rocq proof that for EVERY value the document written is accepted by the strict reader and parses to exactly the intended tree (C13_every_value_parses: induction over trees of any depth and width; line filter, indentation, tags, attributes, escaped text), any text is recovered with invalid characters substituted; tab/LF literal; no raw '<'; declaration first + every generated document is parsed by the Coq strict XML reader and must yield exactly the intended tree",
     text="Proved for all values: lex (enc_text v) = Ok (cleaned (root_tree v)) whenever the field names are XML names (checked on every generated value, names come from the code's xml tags by reflection) - "
          "the document (declaration, tab indentation, start/end tags, attributes, escaped text after the line filter) is well-formed for the strict reader and parses to the very tree that was printed, for any "
          "nesting and any number of laps/fixes; the file form of the printed tree is characterised (C13_file_form).  Proved for all texts (valid or not): escape + line filter gives per character the predefined entity / literal tab and LF / &#xD; / the character / U+FFFD, the strict reader "
          "returns the cleaned text and stops at the next tag, no raw '<' is written, every document starts with the UTF-8 declaration.  Per generated document (also with control "
          "characters, U+FFFE, invalid UTF-8): the bytes Encode wrote must be accepted by the Coq strict reader (five entities, numeric references to valid characters only, matching "
          "tags, one root) and the parsed tree must equal the intended tree whose leaves are the model's field syntax; gzip output must be a complete stream of exactly those bytes.",
     rule="120 in-domain databases (as C01) + 120 databases with arbitrary text (NUL, C0 controls, U+FFFE, 0xFF, lone surrogates as invalid UTF-8); distinct = distinct JSON; non-trivial = at least one lap or vehicle",
     assumptions=["'independent strict parser' = the Coq reader Xml/Lex.v, written from the XML 1.0 grammar subset, independent of encoding/xml"],
     note=LT_NOTE)

prop("C20",
     axioms="none",
     design_ref="DESIGN.md section 5 C20",
     technique="Rocq proof of the precedence rule for all sections/flag sets/defaults, for top-level options (C20_precedence) and for options in a nested table (C20_precedence_nested) + exhaustive computation on the start table + correspondence against the built binary (effective options read from its own -vv trace, output bytes vs library pipeline, exit status)",
     text="C20_precedence: for every config section, every list of given flags (any order, any values incl. empty) and every default, loadConfig's model gives flag > config > default for "
          "every option whose config key is the top-level key named like its flag (all convert and gopro convert options, tolerance); the four start-line options in the nested table are "
          "covered by exhaustive evaluation over present/absent x flag sets (after the repair D20).  Tied to the code by running the built tracktools binary: each option independently flag "
          "given/not x config key present/not, effective values read from the binary's own 'Loaded config' trace and compared with the model; for convert the bytes written (file or stdout, "
          "file or stdin, fresh or pre-existing longer output file) must equal the library pipeline run with the rule's values and every failure (unknown decoder/encoder, missing input, undecodable data) must exit non-zero with a message; "
          "for gopro laptimes on generated mp4 files the reported readings must be exactly those within the effective tolerance of the effective start line (library filter on the decoded readings) and the exit status must say whether any was found.",
     rule="one case = one invocation: convert with 8 options each in one of 4 source states (110 sampled, 70% forced to valid decoder/encoder so the pipeline runs; 6% undecodable data, 5% missing "
          "input, 30% stdout, 20% stdin), gopro laptimes with 5 options (60 sampled of 1024), 50 laptimes runs on real mp4s (3-10 GPS readings from on the line to 111 m off it, effective tolerance 0/0.05/1/5, each option from flag, file, or flag over a decoy file value), "
          "gopro convert with 2 flags (20); distinct = distinct JSON; all non-trivial",
     assumptions=["cobra/viper/mapstructure/pflag are not modelled beyond the key-matching rule; the laptimes filter clause is checked end to end against the library's own decoder (C08), detector (C17) "
                  "and geodesic.Direct, i.e. it shows the command composes them with the effective values, not that they are right (their own properties do)"],
     note="Trusted: Coq kernel + vm_compute; correspondence harness (binary runner, TOML writer, trace parser, library pipeline oracle). Modelled not verified: viper.GetStringMap key lower-casing, "
          "mapstructure field matching, cobra flag parsing.")

GEO_NOTE = ("Trusted: Coq kernel; correspondence harness incl. its independent float64 geometry (vector/atan2 and local-plane distance to a segment, with an error estimate that widens "
            "the undecided band). NOT proved: the numeric accuracy of Go's math functions and of the formulas over the continuous domain (DESIGN.md section 7) - those clauses are tested per instance.")

prop("C17",
     axioms="reals",
     level="proof",
     design_ref="DESIGN.md section 5 C17 and section 7",
     technique="Rocq proof of the decision logic for all values of the computed quantities (tolerance monotone, end-point order, end caps) + correspondence of that decision on the real intermediate quantities (verif hook) + per-instance geometric test against an independent distance-to-segment computation outside the guard band. Over the reals, for the formulas as written: havSin = hav(asin), sinSum = sin(invHav x + invHav y), and the cross-track argument sinHav(dist01)*sinDeltaBearing = (v1.(v0 x v2))/|v1 x v2| / cos(theta01/2) (C17_cross_track_argument). PARTIAL: floating-point accuracy and the along-track/end-cap geometry are tested, not proved",
     text="Proved over R (C17_cross_track_argument, C17_cross_norm, C17_chord_factor, C17_hav_sin, C17_sin_sum, C17_sin_hav): the product fed to havSin is exactly the sine of the fix's angular distance from the great circle through the end points (triple product over |v1 x v2|) times 1/cos(theta01/2) - the chord stands in for the sine of the distance to end point 1, a factor below 1+4e-9 within a kilometre; havSin and sinSum are the trigonometric quantities their comments name.  Proved (over exact rationals, every float64 being one): enlarging the tolerance never turns a hit into a miss, swapping the end-point distances does not change the decision, within "
          "tolerance of an end point is always a hit.  The decision model is tied to the code by feeding it the very quantities OnLine computed (exposed under the verif tag).  That those "
          "quantities mean 'great-circle distance to the segment' is NOT proved: each generated (line, position, tolerance, radius) is compared with an independent computation, and hits/misses "
          "are demanded only outside 1% + 0.1 mm + twice the oracle's own error estimate.",
     rule="one case = (line 0.5 m-1.5 km at any bearing, |lat| < 85; position -0.3..1.3 line lengths along and 0/0.5/0.9/0.97/1.03/1.1/1.5/3 tolerances aside, plus end-cap positions; tolerance "
          "5 mm-75 m; 15% other radii) with swapped end points and doubled tolerance; distinct = distinct JSON; all non-trivial",
     assumptions=["the oracle is float64: cases closer to the boundary than guard band + 2 x its error estimate are undecided (counted in the histogram as expected:2)"],
     note=GEO_NOTE)

prop("C18",
     axioms="reals",
     level="proof",
     design_ref="DESIGN.md section 5 C18 and section 7",
     technique="Rocq proofs over the reals: the default method IS radius x central angle (great-circle distance; C18_default_is_great_circle), zero only for identical positions, symmetry, linearity in the radius (both methods) + per-instance numeric test against an independent great-circle / distance-to-segment computation. PARTIAL: accuracy bounds are tested, not proved",
     text="Proved over R for the formulas as written in haversine.go/equirect.go: the haversine formula equals radius times the angle theta in [0,pi] with cos theta = the dot product of the two unit vectors "
          "(so it is the great-circle distance exactly, and zero only for coinciding positions); distance symmetric, linear in the radius, zero for identical positions (default and fast method).  The accuracy "
          "clauses (1e-9 relative default, 1e-5 fast under 10 km below 80 degrees, distance to a line within 1% + 1 mm) are tested per generated pair / (segment, position) against an independent "
          "float64 computation: the central angle from the haversine of coordinate differences formed in degrees below 10 km (good to a few 1e-16 relative, cross-checked with 60-digit arithmetic; no absolute floor - that floor had hidden the defect D26) and from the unit vectors above.",
     rule="1500 pairs 5 cm-1500 km at any bearing and |lat| < 85 (5% identical, 15% other radii) + 1500 (segment 0.5 m-1.5 km, position within +-150 m beside and -0.5..1.5 lengths along), away from the 180th meridian; "
          "distinct = distinct JSON; all non-trivial",
     assumptions=["Go's math.Sin/Cos/Asin/Sqrt are not modelled; the Coq functions are the real-number formulas"],
     note=GEO_NOTE)

prop("C19",
     axioms="reals",
     level="proof",
     design_ref="DESIGN.md section 5 C19 and section 7",
     technique="Rocq proofs of the plane intersection (homogeneous cross products, over R) and of the bounded decision (heading difference reduced modulo 360, exact rationals; equal azimuths inside, opposite outside) + correspondence of the decision on the azimuths IntersectExt reports + per-instance tests of projection round trips and of the crossing lying on both geodesics. PARTIAL: the ellipsoidal numerics (Karney's solver) have no model",
     text="Proved: the normalised cross product of the two homogeneous lines lies on both lines whenever they are not parallel; Intersect returns the point iff on both segments the arriving and leaving azimuths "
          "point the same way - their float64 difference reduced to [-180,180) is below a quarter turn (C19_bounded_decision, after the repairs D17 and D25); azimuths equal to within any eps < 90 degrees modulo whole turns are classified inside and azimuths half a turn apart outside (C19_equal_azimuths_inside, C19_opposite_azimuths_outside), which is what the extended intersection's 1e-6 degree clause delivers; the pre-repair sign rule is refuted on a meridian (C19_sign_rule_refuted).  Tied to the code by comparing Intersect's error with that decision on the azimuths IntersectExt itself returns.  Not modelled: "
          "GenInverse/LineInit/GenPosition; the projection round trips (1e-9 degrees, 1e-6 relative, NaN beyond the horizon) and 'the crossing lies on both geodesics' are implementation-side tests.",
     rule="300 (centre, point) pairs 8 m-17000 km apart for the projection clauses + up to 300 segment pairs built around a common crossing (lengths 5 m-1500 km, crossing angle 25-155 degrees, 12 % with one segment "
          "exactly along a meridian (azimuths 0/180), crossing at 20-80% of both segments or 20-100% beyond one end); distinct = distinct JSON; all non-trivial",
     assumptions=["segments straddling the 180th meridian are not generated (outside the property)"],
     note=GEO_NOTE)


# When the implementation differs from the model, `check_case` evaluates the property's own
# relation on what was observed: if it holds the verdict is S (correspondence broken, reported
# as VIOLATION ... no-failing-input-found), otherwise V (the input is the replay).  DESIGN 10.5a.
RELATION = {
 "C01": "same database up to one unit of the last printed digit of every leaf (close_val) and an identical second encoding",
 "C02": "the whole session except the number of the lap still open at the end of the log",
 "C03": "identical database except accumulated distances within 1e-9 relative + 1 um (overall distance one 0.1 m step) and rounded channels within half a unit of their source value",
 "C04": "the clauses of C04 and C05 evaluated on the observed run (prop_ok): every encoder run is for a validated, non-skipped group of the listing with that group's concat list and the configured argv; one run per video; an invalid group makes processing return an error",
 "C05": "the clauses of C04 and C05 evaluated on the observed run (prop_ok): never over an existing output unless overwriting; no temp file left; nothing that existed is gone and only outputs changed; listed paths are outputs carrying their first chapter's time",
 "C07": "one unit in the last place for values of elements of the 64-bit raw types (j, J, Q) only; streams with a stored scale entry of zero on which the decoder errors are outside the quantifier (O)",
 "C08": "identical tree; per sensor element offsets within 1 us of the model's, first reading exactly at the sample's start, non-decreasing",
 "C09": "an error where the statement allows 'errors or decoded as empty'",
 "C10": "dual-unit fields within 2e-5 relative of the model (1e-5 of the exact definitions for single columns), every other field exactly",
 "C11": "OBD channels of fixes from stale rows before the first or after the last fresh reading are free; all others exactly",
 "C13": "the document is the printed form (LapTimer syntax) of the value read back, which is the original up to the format's precision; escaping that differs but parses to the same tree",
 "C15": "an error where the model accepts (a stricter decoder); accepting what the model rejects stays V",
 "C16": "metadata equal up to the fix description's wording, which must be one injective function of the fix value over the read",
}
for _pid, _rel in RELATION.items():
    PROPS[_pid]["text"] += "  When the implementation differs from the model the property's own relation is evaluated on the observations (" + _rel + "): if it holds the run is reported as a broken correspondence (no-failing-input-found), otherwise as a violation with that input."
