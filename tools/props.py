"""Per-property configuration shared by check.py and mkmanifest.py."""

REAL_AXIOMS = [
    "ClassicalDedekindReals.sig_forall_dec",
    "ClassicalDedekindReals.sig_not_dec",
    "FunctionalExtensionality.functional_extensionality_dep",
    "Classical_Prop.classic",
]

TB_COMMON = [
    "Coq 8.16.1 kernel and coqc; vm_compute (bytecode VM) for evaluation and finite sweeps; no native_compute",
    "hand-written Gallina model tied to /repo by the correspondence check (Go harness vh, case-file printer, Run/Run_<id>.v, tools/check.py)",
]
TB_REALS = [
    "axioms (all declared by the Coq standard library, reached through Flocq's binary64): "
    "ClassicalDedekindReals.sig_forall_dec, ClassicalDedekindReals.sig_not_dec, "
    "FunctionalExtensionality.functional_extensionality_dep, Classical_Prop.classic",
]
TB_NOAX = ["axioms: none (Print Assumptions: Closed under the global context)"]

PROPS = {}


def prop(pid, **kw):
    kw.setdefault("level", "proof")
    kw.setdefault("axioms", "none")
    tb = list(TB_COMMON) + (TB_REALS if kw["axioms"] == "reals" else TB_NOAX) + kw.get("trusted_extra", [])
    kw["trusted_base"] = tb
    PROPS[pid] = kw


prop("C10",
     axioms="reals",
     design_ref="DESIGN.md section 5 C10",
     technique="Rocq proof over the column table + in-Coq correspondence (vm_compute) against the real decoder",
     text="Theorems over the model of Decoder.columns / parseFloat64 / units.go: every dual-unit quantity's imperial "
          "and metric headers target the same record field, the metric column stores the parsed number, the imperial "
          "column stores exactly the imperial->metric conversion, float columns commute (column order), constants are "
          "within their printed precision of the exact definitions.  The model is tied to the code by running the real "
          "decoder on generated one-row logs and comparing the stored bits with the model evaluated inside Coq.",
     rule="one case = (one of the 18 unit columns, one decimal cell text, one of 3 column layouts); cells are generated "
          "(sign, 0-6 integer digits, 0-6 and occasionally up to 20 fraction digits) plus a fixed list of specials; "
          "distinct = distinct (column, cell text); non-trivial = the cell is not a spelling of zero",
     assumptions=["strconv.ParseFloat is modelled on plain decimals only (exponents, hex, inf/nan are verdict O)",
                  "Flocq binary64 arithmetic = Go float64 arithmetic (validated bit-for-bit by every case)"],
     note="Trusted: Coq kernel + vm_compute; stdlib real-number axioms via Flocq; correspondence harness. "
          "Modelled not verified: strconv.ParseFloat on plain decimals, encoding/csv on the generated rows.")
