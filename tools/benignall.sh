#!/bin/bash
# Runs every property-preserving change kept under benign/<id>-bN/ against its property's quick check:
# any VIOLATION is a false alarm of the machinery.  Records the outcome in benign/<id>/meta.json.
cd /verif
for d in benign/${1:-C}*/; do
  id=$(basename $d); prop=${id%-*}
  out=$(tools/seedrun.sh $d/patch.diff $prop 2>&1)
  alarms=$(echo "$out" | grep -c "^VIOLATION")
  line=$(echo "$out" | grep "^property=" | head -1)
  viol=$(echo "$out" | grep "^VIOLATION" | head -1)
  python3 - "$id" "$prop" "$alarms" "$line" "$viol" <<'PY'
import json,sys,os
id,prop,alarms,line,viol=sys.argv[1:6]
notes=open(f'/verif/benign/{id}/notes.md').read() if os.path.exists(f'/verif/benign/{id}/notes.md') else ''
meta={"change":id,"property":prop,"kind":"property-preserving change written by a sub-agent given only the property text",
 "why_the_property_still_holds":notes[:2500],
 "check_run":{"command":f"git -C /repo apply benign/{id}/patch.diff; python3 tools/check.py {prop} --tier quick; git -C /repo checkout -- .","summary":line,"violation_line":viol,"reports_a_failing_input":alarms!="0" and "no-failing-input-found" not in viol,"correspondence_break_only":alarms!="0" and "no-failing-input-found" in viol}}
json.dump(meta,open(f'/verif/benign/{id}/meta.json','w'),indent=1)
print(id, ("quiet" if alarms=="0" else "correspondence-only" if "no-failing-input-found" in viol else "FALSE-ALARM"), line[-90:])
PY
done
