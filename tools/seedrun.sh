#!/bin/bash
# seedrun.sh <patch.diff> <ID> [<ID>...] : apply a seeded change to /repo, run the quick checks, undo it.
P=$(realpath "$1"); shift
cd /repo && git apply "$P" || { echo "patch does not apply"; exit 2; }
cd /verif
for id in "$@"; do python3 tools/check.py $id --tier quick 2>/dev/null | grep -E "^(VIOLATION|KNOWN|property=)" ; done
git -C /repo checkout -- . && git -C /repo clean -fdq
git -C /repo status --short | head -3
