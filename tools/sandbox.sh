#!/bin/bash
# sandbox.sh <tag> <patch.diff> <ID> [tier]: run one property's check against a scratch copy of /repo HEAD
# with the patch applied, in its own work/evidence directories under /tmp/sbx/<tag> (removed afterwards).
# /repo, /verif/work and /verif/evidence are not touched, so several of these can run at once
# (the Coq build under /verif/coq is shared and must be up to date before starting).
set -u
TAG=$1; PATCH=$(realpath "$2"); ID=$3; TIER=${4:-quick}
S=/tmp/sbx/$TAG
rm -rf "$S"; mkdir -p "$S"
git -C /repo worktree add --detach "$S/repo" HEAD >/dev/null 2>&1 || { echo "worktree failed"; exit 2; }
cleanup() { git -C /repo worktree remove --force "$S/repo" >/dev/null 2>&1; git -C /repo worktree prune; rm -rf "$S"; }
trap cleanup EXIT
( cd "$S/repo" && git apply "$PATCH" ) || { echo "patch does not apply"; exit 2; }
cp -r /verif/harness "$S/harness"
sed -i "s#=> /repo#=> $S/repo#" "$S/harness/go.mod"
cd /verif
VERIF_REPO=$S/repo VERIF_HARNESS=$S/harness VERIF_WORK=$S/work VERIF_EVIDENCE=$S/evidence \
  python3 tools/check.py "$ID" --tier "$TIER" 2>/dev/null | grep -E "^(VIOLATION|KNOWN|property=)" | sed "s#$S/work#work#"
